#!/usr/bin/env python3
"""Shared machinery for the per-property checks (see DESIGN.md section 2).

A check is a python module checks/<ID>.py with a function run(ctx).  It uses

  ctx.tlc(...)      model-check / simulate / trace-validate a spec with TLC
  ctx.go_test(...)  build a /repo package (tag verif, harness injected by -overlay)
                    from the CURRENT working tree of the repository and run one test
  ctx.violation()   report a violation witnessed on the real code
  ctx.ev            evidence accumulator

Exit codes of tools/check: 0 held, 1 violation (VIOLATION line printed), 2 undecided.
"""
import json, os, re, shutil, subprocess, sys, tempfile, time, glob, hashlib

ROOT = os.path.dirname(os.path.dirname(os.path.abspath(__file__)))
SPECS = os.path.join(ROOT, "specs")
HARNESS = os.path.join(ROOT, "harness")
MODULE = "github.com/VKCOM/statshouse"
NCPU = os.cpu_count() or 4


class Infra(Exception):
    """The check could not decide (build failure, TLC timeout, dead driver, model error)."""


def repo_path():
    return os.environ.get("VERIF_REPO", "/repo")


def go_env():
    env = dict(os.environ)
    env["GOFLAGS"] = "-mod=mod"
    env["GOPROXY"] = "off"
    env.pop("GOSUMDB", None)
    env.pop("GOTOOLCHAIN", None)  # auto -> cached go1.24.11 required by go.mod
    env.setdefault("GOCACHE", os.path.expanduser("~/.cache/go-build"))
    return env


def harness_file_wanted(fname, pid):
    """Harness files named verif_<ids>_*.go (e.g. verif_c15c16c19_db_test.go) are compiled only
    into the checks of the properties named in <ids>; every other file is always included.  A
    broken or unfinished harness of one property therefore cannot break another's build."""
    m = re.match(r"verif_((?:c\d+)+)_", fname)
    if not m or pid is None:
        return True
    return pid.lower() in re.findall(r"c\d+", m.group(1))


def mkoverlay(dst_json, repo=None, pid=None):
    """Map every file under /verif/harness/<rel> to <repo>/<rel> (files that do not exist in the
    repository) and supply the SQLite amalgamation for the empty placeholder."""
    repo = repo or repo_path()
    repl = {}
    for dirpath, _dirs, files in os.walk(HARNESS):
        for f in files:
            if not harness_file_wanted(f, pid):
                continue
            src = os.path.join(dirpath, f)
            rel = os.path.relpath(src, HARNESS)
            tgt = os.path.join(repo, rel)
            if os.path.exists(tgt):
                raise Infra("overlay would replace existing repository file %s" % tgt)
            repl[tgt] = src
    repl[os.path.join(repo, "internal/sqlite/sqlite0/sqlite3.c")] = os.path.join(
        ROOT, "third_party/sqlite/sqlite3.c")
    with open(dst_json, "w") as f:
        json.dump({"Replace": repl}, f)
    return dst_json


class TLCResult:
    def __init__(self):
        self.rc = None
        self.generated = 0
        self.distinct = 0
        self.depth = 0
        self.violated = None      # None | "invariant:<name>" | "property" | "deadlock" | "postcondition" | "assert"
        self.cex = ""             # counterexample text
        self.behaviours = []      # parsed BEH exports
        self.printed = []         # other PrintT tuples  (raw lines starting with <<)
        self.coverage = {}        # action -> count (only with coverage=True)
        self.zero_cov = []
        self.out = ""
        self.wall = 0.0
        self.cmd = ""
        self.ok = False

    def summary(self):
        return {"cmd": self.cmd, "generated": self.generated, "distinct": self.distinct,
                "depth": self.depth, "violated": self.violated, "wall_s": round(self.wall, 2),
                "behaviours_exported": len(self.behaviours)}


_beh_re = re.compile(r'^<<"BEH", (".*")>>$')


def _parse_tla_string(s):
    # TLC prints strings with \" and \\ escapes, which JSON decodes identically
    return json.loads(s)


def parse_tlc_output(res, out, keep_beh=True):
    res.out_tail = out[-6000:]
    for line in out.splitlines():
        if line.startswith('<<"BEH"'):
            if keep_beh:
                m = _beh_re.match(line)
                if m:
                    try:
                        res.behaviours.append(json.loads(_parse_tla_string(m.group(1))))
                    except Exception as e:  # malformed export is a machinery problem
                        raise Infra("cannot parse BEH line: %s (%s)" % (line[:200], e))
            continue
        if line.startswith("<<"):
            res.printed.append(line)
    if keep_beh and out.count('"BEH"') != len(res.behaviours):
        # TLC wraps long tuples over several lines; a BEH export must be <<"BEH", "<json>">> on one line
        raise Infra("BEH export lines were wrapped or malformed: %d markers, %d parsed" % (out.count('"BEH"'), len(res.behaviours)))
    m = re.findall(r"(\d+) states generated, (\d+) distinct states found", out)
    if m:
        res.generated, res.distinct = int(m[-1][0]), int(m[-1][1])
    m = re.search(r"depth of the complete state graph search is (\d+)", out)
    if m:
        res.depth = int(m.group(1))
    m = re.search(r"Error: Invariant (\S+) is violated", out)
    if m:
        res.violated = "invariant:" + m.group(1)
    elif re.search(r"Error: Action property (\S+) is violated", out):
        res.violated = "actionproperty:" + re.search(r"Error: Action property (\S+) is violated", out).group(1)
    elif "Temporal properties were violated" in out or re.search(r"Temporal property \S+ was violated", out):
        res.violated = "property"
    elif "Error: Deadlock reached" in out:
        res.violated = "deadlock"
    elif re.search(r"Error: (The )?[Pp]ostcondition", out) or "POSTCONDITION" in out and "violated" in out:
        res.violated = "postcondition"
    elif re.search(r"Error: .*Assumption .* is false", out):
        res.violated = "assumption"
    elif "The first argument of Assert evaluated to FALSE" in out:
        res.violated = "assert"
    if res.violated:
        i = out.find("Error:")
        res.cex = out[i:i + 20000]
    # coverage: lines like  <Put line 10, col 1 to line 20, col 30 of module X>: 12:34
    for m in re.finditer(r"^<(\w+) line \d+, col \d+ to line \d+, col \d+ of module (\w+)>: (\d+):(\d+)", out, re.M):
        name, cnt = m.group(1), int(m.group(4))
        res.coverage[name] = max(res.coverage.get(name, 0), cnt)
    res.zero_cov = sorted(k for k, v in res.coverage.items() if v == 0 and k not in ("Init",))
    return res


class Evidence:
    def __init__(self, pid, tier, seed):
        self.d = {
            "property_id": pid, "tier": tier, "seed": seed, "level": "model_checking",
            "coverage": {"states": 0, "transitions": 0, "traces_validated_against_impl": 0,
                         "samples": [], "tlc_runs": [], "impl_runs": [], "exhaustive": False},
            "assumptions": [], "violations": 0, "wall_s": 0.0,
        }

    @property
    def cov(self):
        return self.d["coverage"]

    def add_tlc(self, res, name=None, constants=None):
        c = self.cov
        c["states"] += res.distinct
        c["transitions"] += res.generated
        s = res.summary()
        if name:
            s["name"] = name
        if constants:
            s["constants"] = constants
        if res.coverage:
            s["action_coverage"] = res.coverage
        c["tlc_runs"].append(s)

    def add_impl(self, name, traces, steps=None, **kw):
        """traces = number of spec behaviours reproduced by the code (S->I) or of recorded
        implementation traces accepted by the spec (I->S)."""
        self.cov["traces_validated_against_impl"] += int(traces)
        r = {"name": name, "traces": int(traces)}
        if steps is not None:
            r["steps"] = int(steps)
        r.update(kw)
        self.cov["impl_runs"].append(r)

    def sample(self, s, limit=6):
        if len(self.cov["samples"]) < limit:
            self.cov["samples"].append(s)

    def assume(self, text):
        if text not in self.d["assumptions"]:
            self.d["assumptions"].append(text)

    def set(self, key, val):
        self.cov[key] = val


class Ctx:
    def __init__(self, pid, tier, seed):
        self.id = pid
        self.tier = tier
        self.seed = seed
        self.repo = repo_path()
        self.root = ROOT
        self.out = os.path.join(ROOT, "out", pid)
        base = os.environ.get("TMPDIR", "/tmp")
        self.tmp = tempfile.mkdtemp(prefix="verif-%s-%d-" % (pid, os.getpid()), dir=base)
        self.ev = Evidence(pid, tier, seed)
        self.violations = []   # (signature, what, replay)
        self.known_hits = []
        self._overlay = None
        self._built = {}
        self.t0 = time.time()
        self.thorough = (tier == "thorough")

    # ------------------------------------------------------------------ helpers
    def log(self, *a):
        print("[%s %6.1fs]" % (self.id, time.time() - self.t0), *a, flush=True)

    def cleanup(self):
        shutil.rmtree(self.tmp, ignore_errors=True)

    def fresh_out(self):
        shutil.rmtree(self.out, ignore_errors=True)
        os.makedirs(self.out, exist_ok=True)

    def save(self, name, content):
        """Store a witness under out/<id>/ and return its path."""
        os.makedirs(self.out, exist_ok=True)
        p = os.path.join(self.out, name)
        if isinstance(content, (dict, list)):
            content = json.dumps(content, indent=1, sort_keys=True)
        with open(p, "w") as f:
            f.write(content)
        return p

    # ------------------------------------------------------------------ TLC
    def tlc(self, module, cfg, *, workers=None, timeout=600, simulate=None, coverage=False,
            files=None, deque=False, heap=None, keep_beh=True, name=None, constants=None,
            record=True, expect_violation=False, extra=None, seed=None):
        """Run TLC on specs/<module>.tla with specs/<cfg> in a scratch copy of specs/.

        simulate=(num, depth) switches to -simulate (single worker, seeded by VERIF_SEED).
        files={name: path-or-text} are placed next to the spec (trace files for I->S).
        A violation of the *model* is not a verdict about the code; callers decide what to do.
        Raises Infra on timeout / parse errors / TLC internal errors.
        """
        work = tempfile.mkdtemp(prefix="tlc-", dir=self.tmp)
        for f in glob.glob(os.path.join(SPECS, "*.tla")) + glob.glob(os.path.join(SPECS, "*.cfg")):
            shutil.copy(f, work)
        for nm, src in (files or {}).items():
            dst = os.path.join(work, nm)
            if isinstance(src, str) and os.path.exists(src):
                shutil.copy(src, dst)
            else:
                with open(dst, "w") as f:
                    f.write(src if isinstance(src, str) else json.dumps(src))
        if workers is None:
            workers = NCPU
        if simulate:
            workers = 1
        heap = heap or ("24g" if self.thorough else "8g")
        jopts = "-Xss512m -Xmx%s -Djava.io.tmpdir=%s" % (heap, work)  # TLC drops an empty tlc-<n> dir into java.io.tmpdir per run
        if deque:
            jopts += " -Dtlc2.tool.queue.IStateQueue=StateDeque"
        cmd = ["java"] + jopts.split() + ["-XX:+UseParallelGC", "-cp",
               "/opt/veriftools/tla/tla2tools.jar:/opt/veriftools/tla/CommunityModules-deps.jar", "tlc2.TLC"]
        env = dict(os.environ)
        args = ["-workers", str(workers), "-metadir", os.path.join(work, "md"), "-noGenerateSpecTE"]
        if simulate:
            num, depth = simulate
            args += ["-simulate", "num=%d" % num, "-depth", str(depth),
                     "-seed", str(seed if seed is not None else self.seed + 1)]
        if coverage:
            args += ["-coverage", "1"]
        if extra:
            args += list(extra)
        args += ["-config", cfg, module + ".tla"]
        res = TLCResult()
        res.cmd = "tlc " + " ".join(a for a in args if not a.startswith(work))
        t0 = time.time()
        try:
            p = subprocess.run(["timeout", "-k", "5", str(int(timeout))] + cmd + args, cwd=work, env=env,
                               stdout=subprocess.PIPE, stderr=subprocess.STDOUT, text=True)
        finally:
            pass
        res.wall = time.time() - t0
        res.rc = p.returncode
        out = p.stdout
        res.out = out
        if p.returncode in (124, 137):
            raise Infra("TLC timeout after %ss: %s" % (timeout, res.cmd))
        parse_tlc_output(res, out, keep_beh=keep_beh)
        finished = ("Model checking completed" in out or "Finished in" in out or res.violated
                    or (simulate and "states generated" in out))
        if not finished or (p.returncode != 0 and not res.violated):
            self.save("tlc_error_%s.log" % module, out[-20000:])
            raise Infra("TLC failed (rc=%s) on %s/%s: %s" % (p.returncode, module, cfg, out[-1500:]))
        res.ok = res.violated is None
        if record:
            self.ev.add_tlc(res, name=name or (module + "/" + cfg), constants=constants)
        if coverage and res.zero_cov and not res.violated:
            self.log("WARNING: actions never taken in %s/%s: %s" % (module, cfg, res.zero_cov))
        shutil.rmtree(work, ignore_errors=True)
        if res.violated and not expect_violation:
            self.log("TLC reports %s on %s/%s" % (res.violated, module, cfg))
        return res

    def require_model_ok(self, res, what="model"):
        """A counterexample of the specification alone is a machinery matter, never an alarm."""
        if res.violated:
            p = self.save("model_cex_%s.txt" % re.sub(r"\W+", "_", what), res.cex or res.out[-8000:])
            raise Infra("specification violates %s (%s); see %s" % (what, res.violated, p))

    # ------------------------------------------------------------------ Go
    def overlay(self):
        if not self._overlay:
            self._overlay = mkoverlay(os.path.join(self.tmp, "overlay.json"), self.repo, self.id)
        return self._overlay

    def go_build_test(self, pkg, race=False):
        """Compile the test binary of ./<pkg> from the repository's current working tree with
        -tags verif and the harness overlay.  Returns the binary path."""
        key = (pkg, race)
        if key in self._built:
            return self._built[key]
        binp = os.path.join(self.tmp, "bin_" + re.sub(r"\W+", "_", pkg) + ("_race" if race else ""))
        cmd = ["go", "test", "-c", "-tags", "verif", "-vet=off", "-overlay", self.overlay(), "-o", binp]
        if race:
            cmd.append("-race")
        cmd.append("./" + pkg)
        t0 = time.time()
        p = subprocess.run(cmd, cwd=self.repo, env=go_env(), stdout=subprocess.PIPE, stderr=subprocess.STDOUT, text=True)
        if p.returncode != 0 or not os.path.exists(binp):
            self.save("build_error.log", p.stdout)
            raise Infra("build of %s failed:\n%s" % (pkg, p.stdout[-3000:]))
        self.log("built %s in %.1fs" % (pkg, time.time() - t0))
        self._built[key] = binp
        return binp

    def go_test(self, pkg, run, env=None, timeout=900, race=False, inp=None, cwd=None, args=None):
        """Run test function(s) matching `run` of package pkg.  The harness protocol:
        VERIF_RUN=1, VERIF_SEED, VERIF_TIER, VERIF_IN (optional input file), VERIF_OUT (result
        json written by the test).  Returns (result-dict-or-None, stdout, rc)."""
        binp = self.go_build_test(pkg, race=race)
        outp = tempfile.mktemp(prefix="goout-", suffix=".json", dir=self.tmp)
        e = go_env()
        e.update({"VERIF_RUN": "1", "VERIF_SEED": str(self.seed), "VERIF_TIER": self.tier,
                  "VERIF_OUT": outp, "VERIF_TMP": self.tmp})
        if inp is not None:
            if not (isinstance(inp, str) and os.path.exists(inp)):
                ip = tempfile.mktemp(prefix="goin-", suffix=".ndjson", dir=self.tmp)
                with open(ip, "w") as f:
                    if isinstance(inp, str):
                        f.write(inp)
                    else:
                        for item in inp:
                            f.write(json.dumps(item, separators=(",", ":")) + "\n")
                inp = ip
            e["VERIF_IN"] = inp
        if env:
            e.update({k: str(v) for k, v in env.items()})
        cmd = ["timeout", "-k", "5", str(int(timeout)), binp, "-test.run", "^(%s)$" % run, "-test.count=1",
               "-test.timeout", "%ds" % int(timeout), "-test.v"]
        if args:
            cmd += args
        t0 = time.time()
        p = subprocess.run(cmd, cwd=cwd or os.path.join(self.repo, pkg), env=e, stdout=subprocess.PIPE,
                           stderr=subprocess.STDOUT, text=True)
        dt = time.time() - t0
        res = None
        if os.path.exists(outp):
            try:
                with open(outp) as f:
                    res = json.load(f)
                if isinstance(res, dict):
                    # Go marshals nil slices/maps as null; checks use res.get(key, [])
                    for k in ("samples", "mismatches", "files", "notes"):
                        if res.get(k, 0) is None:
                            res[k] = []
                    for k in ("counters", "consts"):
                        if res.get(k, 0) is None:
                            res[k] = {}
            except Exception as ex:
                raise Infra("unreadable harness result from %s %s: %s" % (pkg, run, ex))
        if p.returncode in (124, 137):
            self.save("driver_timeout.log", p.stdout[-20000:])
            raise Infra("driver %s %s timed out after %ss" % (pkg, run, timeout))
        if "no tests to run" in p.stdout:
            raise Infra("harness test %s not found in %s" % (run, pkg))
        self.log("ran %s %s in %.1fs rc=%d" % (pkg, run, dt, p.returncode))
        return res, p.stdout, p.returncode

    def need_result(self, res, out, rc, what):
        """The harness must always write a result; a crash without one is a dead driver."""
        if res is None:
            p = self.save("driver_dead_%s.log" % re.sub(r"\W+", "_", what), out[-20000:])
            raise Infra("driver %s died without result (rc=%s), see %s" % (what, rc, p))
        return res

    # ------------------------------------------------------------------ verdicts
    def violation(self, signature, what, replay):
        """Record a violation witnessed on the real code.  signature is the canonical class of
        the failing case (matched against known_findings.json)."""
        self.violations.append((signature, what, replay))

    def replay_s2i_mismatches(self, res, stage, max_report=5, sig_of=None):
        """Common handling of S->I harness results: res["mismatches"] is a list of
        {"beh": <behaviour>, "step": i, "want":…, "got":…, "sig": optional signature}."""
        n = 0
        for mm in (res.get("mismatches") or [])[:max_report]:
            n += 1
            sig = mm.get("sig") or (sig_of(mm) if sig_of else stage)
            p = self.save("%s_mismatch_%d.json" % (stage, n), mm)
            self.violation(sig, "%s: step %s want=%s got=%s" % (
                stage, mm.get("step"), json.dumps(mm.get("want"))[:300], json.dumps(mm.get("got"))[:300]), p)
        return n


def load_known():
    p = os.path.join(ROOT, "known_findings.json")
    if not os.path.exists(p):
        return []
    with open(p) as f:
        return json.load(f).get("findings", [])


def finish(ctx, err=None):
    """Write evidence, print verdict lines, return exit code."""
    known = [k for k in load_known() if k.get("property") == ctx.id and k.get("status") == "known"]
    unknown = []
    seen_known = {}
    for sig, what, replay in ctx.violations:
        hit = None
        for k in known:
            if k.get("signature") == sig:
                hit = k
                break
        if hit:
            seen_known.setdefault(sig, (hit, what))
        else:
            unknown.append((sig, what, replay))
    ctx.ev.d["violations"] = len(unknown)
    ctx.ev.d["wall_s"] = round(time.time() - ctx.t0, 2)
    if seen_known:
        ctx.ev.cov["known_findings_observed"] = sorted(seen_known)
    if err:
        ctx.ev.cov["undecided"] = str(err)[:2000]
    cov = ctx.ev.cov
    if not cov["samples"]:
        cov["samples"].append("(no sample recorded)")
    # schema wants states/transitions >= 1 for model_checking; if a run produced none fall back
    if cov["states"] < 1 or cov["transitions"] < 1:
        # no TLC run completed (undecided run): the model_checking keys would be invalid, fall back
        # to the generic keys
        cov.pop("states", None)
        cov.pop("transitions", None)
        cov.setdefault("evaluations", max(1, cov["traces_validated_against_impl"]))
        cov.setdefault("distinct_nontrivial", 0)
    # tools/selftest (a run against a mutated scratch copy) must not overwrite the evidence of /repo
    evdir = os.environ.get("VERIF_EVIDENCE_DIR") or os.path.join(ROOT, "evidence")
    os.makedirs(evdir, exist_ok=True)
    with open(os.path.join(evdir, ctx.id + ".json"), "w") as f:
        json.dump(ctx.ev.d, f, indent=1, sort_keys=True)
        f.write("\n")
    for sig, (k, what) in sorted(seen_known.items()):
        print("KNOWN-FINDING: property=%s %s [%s]" % (ctx.id, k.get("what", what), sig), flush=True)
    if unknown:
        for sig, what, replay in unknown:
            print("violation detail: [%s] %s" % (sig, what), flush=True)
        for sig, what, replay in unknown[:1]:
            print("VIOLATION property=%s replay=%s" % (ctx.id, replay), flush=True)
        return 1
    if err:
        print("UNDECIDED property=%s: %s" % (ctx.id, err), flush=True)
        return 2
    print("OK property=%s tier=%s seed=%d states=%d transitions=%d impl_traces=%d wall=%.1fs" % (
        ctx.id, ctx.tier, ctx.seed, cov.get("states", 0), cov.get("transitions", 0),
        cov["traces_validated_against_impl"], time.time() - ctx.t0), flush=True)
    return 0
