#!/usr/bin/env python3
"""Assemble MANIFEST.json from checks/<ID>.meta.json (claimed properties) and
tools/not_applicable.json, and known_findings.json from known_findings.d/*.json."""
import json, os, glob, subprocess
ROOT = os.path.dirname(os.path.dirname(os.path.abspath(__file__)))
props = [json.loads(l)["id"] for l in open(os.path.join(ROOT, "properties.jsonl"))]
na = json.load(open(os.path.join(ROOT, "tools/not_applicable.json")))
checks = []
claimed = set()
for pid in props:
    mp = os.path.join(ROOT, "checks", pid + ".meta.json")
    cp = os.path.join(ROOT, "checks", pid + ".py")
    if not (os.path.exists(mp) and os.path.exists(cp)):
        continue
    m = json.load(open(mp))
    if m.get("disabled"):
        continue
    claimed.add(pid)
    c = {
        "property_id": pid,
        "quick_cmd": "tools/check %s --tier quick" % pid,
        "thorough_cmd": "tools/check %s --tier thorough" % pid,
        "evidence_file": "/verif/evidence/%s.json" % pid,
        "replay_cmd_template": "tools/check %s --replay {path}" % pid,
        "engine": "tlc+go-conformance",
        "level_claimed": {"category": "model_checking", "text": m["level_text"], "design_ref": m.get("design_ref", "DESIGN.md section 4, " + pid)},
        "level_note": m["level_note"],
        "technique": m.get("technique", "TLA+ specification model-checked with TLC, bound to the Go code by conformance (trace validation / behaviour replay)"),
    }
    checks.append(c)
nal = []
for pid in props:
    if pid in claimed:
        continue
    reason = na.get(pid) or "check not built yet: the TLA+ specification and conformance harness planned in DESIGN.md section 4 are not finished, so nothing is claimed for this property at this commit"
    nal.append({"property_id": pid, "reason": reason})
hooks_commits = []
hp = os.path.join(ROOT, "tools/hook_commits.txt")
if os.path.exists(hp):
    hooks_commits = [l.split()[0] for l in open(hp) if l.strip() and not l.startswith("#")]
man = {
    "version": 1,
    "setup_cmd": "tools/setup",
    "hooks": {
        "guard": "verif",
        "enable": "go test -c -tags verif -overlay <generated overlay adding /verif/harness files and the SQLite amalgamation> ./internal/<pkg>  (done by tools/vlib.py from /repo's current working tree on every check run)",
        "baseline_off_cmd": "cd /repo && GOFLAGS=-mod=mod GOPROXY=off go test -vet=off -count=1 -timeout 25m ./...",
        "source_commits": hooks_commits,
        "add_only": True,
    },
    "engines": [{
        "name": "tlc+go-conformance", "path": "tools/check",
        "serves_properties": sorted(claimed),
        "kind_free_text": "explicit TLA+ specifications (specs/*.tla) model-checked with TLC; bound to the Go implementation by I->S trace validation (recorded ndjson traces checked by <Module>Trace.tla) and S->I replay of TLC-exported behaviours into the real code (harness/**, injected with go test -overlay, hooks under build tag verif)",
    }],
    "checks": checks,
    "notes": "See DESIGN.md. Exit 0 held / 1 violation witnessed on the real code / 2 undecided (infrastructure). known_findings.json lists genuine defects recorded rather than repaired.",
    "not_applicable": nal,
}
json.dump(man, open(os.path.join(ROOT, "MANIFEST.json"), "w"), indent=1)
# known findings
frs = []
for f in sorted(glob.glob(os.path.join(ROOT, "known_findings.d", "*.json"))):
    frs += json.load(open(f))
kf = {"comment": "Genuine defects of VKCOM/statshouse found by the checks. status=known: recorded, the check prints KNOWN-FINDING and exits 0 for exactly this signature; status=fixed: repaired by the named fix: commit (entry text 'fixed: property=<id> <commit> <what failed>'), suppresses nothing. Assembled from known_findings.d/*.json by tools/mkmanifest.py; never written at run time.",
      "findings": frs}
json.dump(kf, open(os.path.join(ROOT, "known_findings.json"), "w"), indent=1)
print("claimed:", sorted(claimed))
