#!/usr/bin/env python3
"""Assemble DESIGN.md = Part I (plan, design_notes/_plan_part1.md) + Part II (as built)."""
import json, os, glob, re
R = os.path.dirname(os.path.dirname(os.path.abspath(__file__)))
out = [open(os.path.join(R, "design_notes/_plan_part1.md")).read().rstrip(), "\n\n---\n"]
out.append(open(os.path.join(R, "design_notes/_asbuilt_intro.md")).read().rstrip())
props = [json.loads(l) for l in open(os.path.join(R, "properties.jsonl"))]
man = json.load(open(os.path.join(R, "MANIFEST.json")))
claimed = {c["property_id"] for c in man["checks"]}
out.append("\n\n## 11. Per-property notes (as built)\n")
out.append("Claimed: %s. Not applicable: %s.\n" % (", ".join(sorted(claimed)), ", ".join(n["property_id"] for n in man.get("not_applicable", []))))
for p in props:
    f = os.path.join(R, "design_notes", p["id"] + ".md")
    if os.path.exists(f):
        out.append("\n" + open(f).read().rstrip() + "\n")
kf = json.load(open(os.path.join(R, "known_findings.json")))["findings"]
out.append("\n## 12. Defects of VKCOM/statshouse found by the checks\n")
out.append("Every entry was reproduced on the real code by the check before being repaired or recorded. "
           "`fixed` = one minimal unguarded `fix:` commit in /repo (the repository's suite passes with it); "
           "`known` = recorded, the check prints KNOWN-FINDING for exactly this signature.\n")
for k in kf:
    out.append("* **%s** `%s` [%s%s] %s" % (k["property"], k["signature"], k["status"], (" " + k["commit"][:8]) if k.get("commit") else "", re.sub(r"^(fixed|known): property=\S+ (\S+ )?", "", k["what"])))
out.append("\n\n## 13. Independently seeded changes: which checks catch which\n")
out.append("Each change was written by a fresh sub-agent that saw only the property text and a scratch worktree; "
           "the coordinator confirmed that the repository's tests pass with it and that its demonstration fails with it and passes without it, "
           "then ran the check against a scratch copy with the change (`tools/selftest`).\n")
for m in sorted(glob.glob(os.path.join(R, "seeded", "*", "meta.json"))):
    d = json.load(open(m))
    out.append("* **%s** `seeded/%s` — %s *Needs:* %s *Result:* %s" % (d["property"], os.path.basename(os.path.dirname(m)), d["breaks"], d["needs_to_manifest"], d["detected_by"]))
out.append("\n\n## 14. Summary of the registered checks (last recorded run of each)\n")
out.append("| id | tier/seed of the recorded run | TLC distinct states | TLC transitions | behaviours/traces bound to the code | wall s | known findings observed |")
out.append("|---|---|---|---|---|---|---|")
for pid in sorted(claimed):
    ef = os.path.join(R, "evidence", pid + ".json")
    if not os.path.exists(ef):
        continue
    e = json.load(open(ef)); c = e["coverage"]
    out.append("| %s | %s/%s | %s | %s | %s | %s | %s |" % (pid, e["tier"], e["seed"], c.get("states", "-"), c.get("transitions", "-"),
               c.get("traces_validated_against_impl", "-"), e.get("wall_s", "-"), ", ".join(c.get("known_findings_observed", [])) or "-"))
hc = os.path.join(R, "tools/hook_commits.txt")
out.append("\nHook commits in /repo (build tag `verif`, add-only; MANIFEST.hooks.source_commits): " + ", ".join("`%s`" % l.split()[0][:8] for l in open(hc) if l.strip() and not l.startswith("#")) + ".\n")
ex = os.path.join(R, "design_notes/_closing.md")
if os.path.exists(ex):
    out.append("\n" + open(ex).read().rstrip())
open(os.path.join(R, "DESIGN.md"), "w").write("\n".join(out) + "\n")
print("DESIGN.md written,", sum(len(x) for x in out), "chars")
