INIT Init
NEXT Next
CONSTANTS
  DEN = 6
  AgentHost = 9
  FixMixedSum = TRUE
  FixEmptyHost = TRUE
  Shapes <- MCShapesSmall
  TopKeys = {1, 2}
  SFs = {1, 2, 4}
  Percs = {FALSE, TRUE}
  KeyShapes <- MCKeys1
  BucketTime <- MCBucket
  Window <- MCWindow
  MaxCnt = 24
  MinEv = 1
  MaxEv = 3
VIEW View
ACTION_CONSTRAINT Export
INVARIANTS CodecMatchesSpec CodecAdditive KeyCodec RowHostsAdmissible RowSane
CHECK_DEADLOCK FALSE
