SPECIFICATION TraceSpec
CONSTANTS
  Items = {}
  BucketTimes = {}
  Window = 93600
  NShards = 256
  UniqLimit = 65536
  MaxContrib = 0
  Bug = "none"
VIEW TraceView
CONSTRAINT HighWater
INVARIANTS InsertNoDup InsertKeys InsertMerged BigUniqConforms
POSTCONDITION TraceAccepted
CHECK_DEADLOCK FALSE
