---------------------------- MODULE TableAssemblyMC ----------------------------
(* Bounded instances of TableAssembly.  Widths are the real ones: a handler-what serves up to
   tsValueCount = 7 functions, so two handler-whats need at least 8 requested functions (the
   driver requests 9: 7 + 2) and three need at least 15 (the driver requests 19: 7 + 7 + 5). *)
EXTENDS TableAssembly

\* 2 time slots x 2 tag values, split into one or two LODs
MCKeys22 == {<<t, g>> : t \in 1..2, g \in 1..2}
MCSplits2 == { << <<1, 3>> >>, << <<1, 2>>, <<2, 3>> >> }
MCWidth2 == <<7, 2>>
MCMarkersSmall == {<<1, 2>>, <<2, 1>>}
MCMarkersAt == MCKeys22                                   \* at rows (when the row exists)
MCMarkersBetween == {<<t, g>> : t \in 1..2, g \in {0, 3}}  \* between rows (before the first / after the last of a slot)

\* 3 time slots x 1 tag value, every split into up to three LODs
MCKeys31 == {<<t, 1>> : t \in 1..3}
MCSplits3 == { << <<1, 4>> >>, << <<1, 2>>, <<2, 4>> >>, << <<1, 3>>, <<3, 4>> >>,
               << <<1, 2>>, <<2, 3>>, <<3, 4>> >> }
MCWidth3 == <<7, 7, 5>>
MCMarkers31 == MCKeys31
MCMarkers31Small == {<<1, 1>>, <<3, 1>>}
===============================================================================
