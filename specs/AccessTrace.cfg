SPECIFICATION TraceSpec
CONSTANTS
  App = "statshouse"
  Issuer = "vkuth"
  Tol = 5000
  Configured = {"k1", "k2"}
  RemoteConfig <- TrRemoteConfig
  HealthMetric <- TrHealthMetric
  CheckTagId = TRUE
  Sessions = {}
  Names = {}
  Edits = {}
  ExtraBits = {}
  Exporting = FALSE
  MaxOps = 0
VIEW TraceView
CONSTRAINT HighWater
INVARIANTS AcceptOnlyEdDSA AcceptOnlySignedByNamedKey AcceptOnlyIssuedByVkuth AcceptOnlyForUser
           AcceptOnlyUnexpired AcceptOnlyStarted AcceptValid OnlyCarriedBits HealthcheckFallback
           ViewNeedsRight ViewNeverRemoteConfig EditNeedsRightOnBothNames EditNeverRemoteConfig
           EditKeepsWeight EditKeepsPresort EditKeepsSharding EditKeepsSkips EditKeepsRawTags
POSTCONDITION TraceAccepted
CHECK_DEADLOCK FALSE
