--------------------------- MODULE SqliteEngineTrace ---------------------------
(* I->S: validates what real engine processes logged before they were killed (harness
   internal/sqlite/verif_c17_*_test.go) together with what was found on disk after every
   death, against SqliteEngine.

   * Steps of the engine (Append, Engine.Commit, COMMIT, re-read Apply/Skip, drain of the
     apply queue, ChangeRole) are replayed through the specification's own pieces
     (DoAppendBase, DoQueueEffect, CommitStoreBase, TxCommitEffect, ReadApplyCore, ReadSkipCore, DrainEffect,
     ReplayDoneCore, RestartCore); a step the specification cannot take rejects the trace.
   * Observations (what the write connection shows after a restart and in Do-reads, what
     View returns, which writes were acknowledged, and -- after each kill -- the database
     file and the binlog files) are LOADED into the specification's variables, and the
     property invariants of SqliteEngine are evaluated on them in every step.

   Several runs are concatenated, each starting with a Reset event. *)
EXTENDS SqliteEngine
VARIABLES l,        \* next trace line
          diskOK,   \* ghost: the binlog files held a prefix of what was appended, including all that was fsynced
          cleanOK,  \* ghost: after a clean Close the database holds the whole binlog
          pend      \* <<>> or <<record>>: Append entered (AppendB logged), its return not logged yet
Trace == ndJsonDeserialize("trace.ndjson")
ASSUME TLCSet(7, 0)

tvars == <<vars, l, diskOK, cleanOK, pend>>
E == Trace[l]
IsEvent(e) == l <= Len(Trace) /\ Trace[l].ev = e /\ l' = l + 1
Quiet == UNCHANGED <<diskOK, cleanOK, pend>>

Mem0 == /\ up' = "down" /\ lock' = 0 /\ waitQ' = <<>>
        /\ dbOffset' = 0 /\ cinfo' = 0
        /\ rst' = "none" /\ queue' = <<>> /\ qOff' = 0 /\ rpos' = 0 /\ rcommit' = 0

TrInit == /\ Init /\ l = 1 /\ diskOK = TRUE /\ cleanOK = TRUE /\ pend = <<>>

TrReset == /\ IsEvent("Reset")
           /\ blog' = <<>> /\ written' = 0 /\ synced' = 0
           /\ dbC' = NoDb /\ tx' = NoDb
           /\ Mem0
           /\ cl' = [w \in Writes |-> "new"]
           /\ acked' = {} /\ failedW' = {} /\ seen' = [r \in Readers |-> <<>>] /\ readRet' = {}
           /\ nreads' = 0 /\ crashes' = 0 /\ closes' = 0 /\ durable' = <<>>
           /\ diskOK' = TRUE /\ cleanOK' = TRUE /\ pend' = <<>>
           /\ hist' = hist

\* what a dead (killed or cleanly closed) process left on disk
TrDisk == /\ IsEvent("Disk")
          /\ LET recs == E.recs
                 n == Len(recs)
                 \* the event of an Append that was entered but whose return was not logged may be
                 \* in the file, followed by a record of the binlog's own
                 app == blog \o pend
             IN /\ diskOK' = \/ blog = <<>>
                             \/ /\ n >= synced
                                /\ \/ n <= Len(app) /\ recs = Prefix(app, n)
                                   \/ /\ pend # <<>> /\ n = Len(app) + 1
                                      /\ Prefix(recs, n - 1) = app /\ recs[n].id = 0
                /\ pend' = <<>>
                /\ blog' = recs /\ written' = n /\ synced' = Min(synced, n)
                /\ durable' = recs
                /\ dbC' = [app |-> E.dbrows, off |-> E.dboff]
                /\ tx' = dbC'
                /\ cleanOK' = (E.status = "exit0" => E.dbrows = UserIds(recs))
          /\ Mem0
          /\ cl' = [w \in Writes |-> IF cl[w] \in {"waiting", "appended"} THEN "lost" ELSE cl[w]]
          /\ crashes' = crashes + 1
          /\ UNCHANGED <<acked, failedW, seen, readRet, nreads, closes, hist>>

\* another process (the master) has written more records: the files now hold E.recs
TrGrow == /\ IsEvent("Grow")
          /\ up = "down"
          /\ Len(E.recs) >= Len(blog) /\ Prefix(E.recs, Len(blog)) = blog
          /\ blog' = E.recs /\ written' = Len(E.recs) /\ synced' = Len(E.recs) /\ durable' = E.recs
          /\ UNCHANGED <<cinfo, dbC, tx, dbOffset, up, lock, waitQ, rst, queue, qOff, rpos, rcommit, cl, acked, failedW,
                         seen, readRet, nreads, crashes, closes, hist>>
          /\ Quiet

TrOpen == /\ IsEvent("Open")
          /\ RestartCore
          /\ hist' = hist /\ Quiet

\* ---- re-read after a restart
TrRSkip == /\ IsEvent("RSkip")
           /\ ReadSkipCore
           /\ blog[rpos + 1].sz = E.n
           /\ (rst' = "wtc") = E.queued
           /\ dbOffset' = E.dbo
           /\ hist' = hist /\ Quiet

TrRApply == /\ IsEvent("RApply")
            /\ LET n == Len(E.ids)
                   tl == IF E.err = "" THEN "none" ELSE "partial"   \* the callback reported an incomplete / foreign tail
               IN IF n = 0 /\ tl = "none"
                    THEN UNCHANGED vars
                    ELSE /\ \E el \in BOOLEAN : ReadApplyCore(n, el, tl)
                         /\ IdsOf(SubSeq(blog, rpos + 1, rpos + n)) = E.ids
                         /\ (rst' = "wtc") = E.queued
                         /\ dbOffset' = E.dbo
                         /\ hist' = hist
            /\ Quiet

\* Engine.Commit entered: the binlog is fsynced up to E.off
TrBlCommit ==
  /\ IsEvent("BlCommit")
  /\ IF up = "replay"
       THEN /\ EndOff(blog, rpos) = E.off
            /\ rcommit' = rpos
            /\ synced' = Max(synced, rpos)
            /\ UNCHANGED written
       ELSE /\ up = "up"
            /\ IsBoundary(blog, E.off)
            /\ LET k == CountAt(blog, E.off)
               IN written' = Max(written, k) /\ synced' = Max(synced, k)
            /\ UNCHANGED rcommit
  /\ CommitStoreBase(E.off)
  /\ UNCHANGED <<blog, dbC, tx, dbOffset, up, lock, rst, queue, qOff, rpos, acked, failedW, seen, readRet,
                 nreads, crashes, closes, durable, hist>>
  /\ Quiet

\* just before the COMMIT statement
\* (the commit-now Do's own COMMIT is taken as observed -- whether its wait-queue entry was
\* released before is for DbNotAheadOfSync to judge, not for a guard)
TrTxBeforeCommit ==
  /\ IsEvent("TxBeforeCommit")
  /\ IF lock # 0
       THEN /\ dbC' = tx /\ lock' = 0
            /\ cl' = [cl EXCEPT ![lock] = "done"]
            /\ waitQ' = SelectSeq(waitQ, LAMBDA x : x.w # lock)
            /\ UNCHANGED <<blog, written, synced, cinfo, tx, dbOffset, up, rst, queue, qOff, rpos, rcommit,
                           acked, failedW, seen, readRet, nreads, crashes, closes, durable>>
       ELSE TxCommitEffect
  /\ hist' = hist /\ Quiet

TrQueueApplied ==
  /\ IsEvent("QueueApplied")
  /\ rst = "wtc" /\ cinfo >= dbOffset
  /\ DrainEffect
  /\ dbOffset' = E.dbo
  /\ UNCHANGED <<blog, written, synced, cinfo, dbC, up, lock, waitQ, qOff, rpos, rcommit, cl, acked, failedW,
                 seen, readRet, nreads, crashes, closes, durable, hist>>
  /\ Quiet

TrChangeRole == /\ IsEvent("ChangeRole")
                /\ E.ready /\ E.master
                /\ ReplayDoneCore
                /\ hist' = hist /\ Quiet

\* the write connection after OpenEngine returned / inside a Do without event: observation
TrLoadTx(ev) ==
  /\ IsEvent(ev)
  /\ up = "up" /\ lock = 0
  /\ tx' = [app |-> E.rows, off |-> E.off]
  /\ dbOffset' = E.dbo
  /\ UNCHANGED <<blog, written, synced, cinfo, dbC, up, lock, waitQ, rst, queue, qOff, rpos, rcommit, cl, acked,
                 failedW, seen, readRet, nreads, crashes, closes, durable, hist>>
  /\ Quiet

\* a ReadAndExit engine after its read of the files (no ChangeRole, never serving)
TrUpRO ==
  /\ IsEvent("UpRO")
  /\ up = "replay" /\ rpos = written
  /\ tx' = [app |-> E.rows, off |-> E.off]
  /\ dbOffset' = E.dbo
  /\ UNCHANGED <<blog, written, synced, cinfo, dbC, up, lock, waitQ, rst, queue, qOff, rpos, rcommit, cl, acked,
                 failedW, seen, readRet, nreads, crashes, closes, durable, hist>>
  /\ Quiet

\* ---- serving
TrExec == /\ IsEvent("Exec")
          /\ IF E.ok THEN UNCHANGED vars
                     ELSE DoWriteFailBase(E.w) /\ hist' = hist
          /\ Quiet

TrAppendA ==
  /\ IsEvent("AppendA")
  /\ dbOffset = E.off
  /\ LET svc == E.next - E.off - E.sz
     IN /\ svc >= 0
        /\ DoAppendBase(E.w, E.sz, svc, IF Dur = "wait" THEN "wait" ELSE IF E.asap THEN "now" ELSE "lazy")
  /\ dbOffset' = E.next
  /\ pend' = <<>>
  /\ UNCHANGED <<hist, diskOK, cleanOK>>

\* the wait-queue section of the same Do: whether it waits is taken from the engine (the
\* acknowledgement it leads to is judged by AckedDurable, the COMMIT by DbNotAheadOfSync)
TrDoQueued ==
  /\ IsEvent("DoQueued")
  /\ IF E.event /\ lock # 0
       THEN DoQueueEffect(lock, E.waits) /\ UNCHANGED <<acked, hist>>
       ELSE UNCHANGED vars
  /\ Quiet

\* Append entered (under the connection lock): from now on the event may reach the file
TrAppendB == /\ IsEvent("AppendB")
             /\ pend' = << Rec(E.w, E.sz, E.off) >>
             /\ UNCHANGED <<vars, diskOK, cleanOK>>

\* Do returned to its caller: the acknowledgement
TrRet == /\ IsEvent("Ret")
         /\ acked' = IF E.ok /\ Dur = "wait" THEN acked \cup {E.w} ELSE acked
         /\ UNCHANGED <<blog, written, synced, cinfo, dbC, tx, dbOffset, up, lock, waitQ, rst, queue, qOff, rpos,
                        rcommit, cl, failedW, seen, readRet, nreads, crashes, closes, durable, hist>>
         /\ Quiet

TrReadRet == /\ IsEvent("ReadRet")
             /\ readRet' = IF Dur = "wait" THEN readRet \cup {E.rows} ELSE readRet
             /\ UNCHANGED <<blog, written, synced, cinfo, dbC, tx, dbOffset, up, lock, waitQ, rst, queue, qOff, rpos,
                            rcommit, cl, acked, failedW, seen, nreads, crashes, closes, durable, hist>>
             /\ Quiet

TrView == /\ IsEvent("View")
          /\ seen' = [seen EXCEPT ![E.r] = E.rows]
          /\ UNCHANGED <<blog, written, synced, cinfo, dbC, tx, dbOffset, up, lock, waitQ, rst, queue, qOff, rpos,
                         rcommit, cl, acked, failedW, readRet, nreads, crashes, closes, durable, hist>>
          /\ Quiet

\* informative events and kill points without an abstract effect of their own
Silent == {"TxAfterBegin", "TxAfterCommit", "SavepointEnd", "SkipDone", "ApplyDone", "ApplyQueued",
           "CommitStored", "CommitNotified", "BlCommitDone", "DoOffsetUpdated",
           "BlRun", "Kill", "End", "CloseBegin", "Closed", "Torn", "ViewBusy", "EngineBusy", "BlRunErr"}
TrSilent == /\ l <= Len(Trace) /\ Trace[l].ev \in Silent /\ l' = l + 1
            /\ UNCHANGED vars /\ Quiet

TrNext == \/ TrReset \/ TrDisk \/ TrGrow \/ TrUpRO \/ TrOpen \/ TrRSkip \/ TrRApply \/ TrBlCommit \/ TrTxBeforeCommit
          \/ TrQueueApplied \/ TrChangeRole \/ TrLoadTx("Up") \/ TrLoadTx("Read") \/ TrExec \/ TrAppendA
          \/ TrAppendB \/ TrDoQueued \/ TrRet \/ TrReadRet \/ TrView \/ TrSilent
TraceSpec == TrInit /\ [][TrNext]_tvars

DiskBinlogSound == diskOK
CleanCloseComplete == cleanOK

HighWater == TLCSet(7, IF l > TLCGet(7) THEN l ELSE TLCGet(7))
TraceAccepted == IF TLCGet(7) = Len(Trace) + 1 THEN TRUE
                 ELSE PrintT(<<"TRACE_REJECTED_AT_LINE", TLCGet(7)>>) /\ FALSE
TraceView == <<View, l, diskOK, cleanOK, pend>>
TrWrites == 1..256
TrReaders == {0, 1}
TrNone == {}
TrSize(w) == 0
===============================================================================
