SPECIFICATION SpecSafety
CONSTANTS
  Keys <- MCKeys22
  Width <- MCWidth2
  Limits = {1, 2, 3}
  Markers <- MCMarkers22
  Export = TRUE
INVARIANTS ConformsSpecOut InOrder Inside Complete FullPages
CHECK_DEADLOCK FALSE
