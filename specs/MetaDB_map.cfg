\* C19 (and C16): mappings and flood limits, budget 1 beyond a global budget of 0, so that
\* refusals are reached within a few operations.
INIT Init
NEXT Next
CONSTANTS
  Names = {}
  NsOf <- MCNsOf
  CreateTypes = {}
  MismatchTypes = {}
  TMetric = 0
  TGroup = 2
  TNs = 4
  PredefIds = {}
  Payloads <- Pay1
  RacePayloads = {}
  RaceNames = {}
  Keys <- K3
  MetricSeq <- M2
  PutArgs <- PutsSmall
  BootSets <- BootS
  ResetLimits = {0, 2, 20000}
  MaxBudget = 1
  StepSec = 10
  BudgetBonus = 1
  GlobalBudget = 0
  MaxResetLimit = 10000
  U32Q = 429496729
  U32R = 6
  Ticks = {4, 10}
  Clock0 = 1003
  DelMax = 2
  DelNewestOnly = FALSE
  MaxOps = 3
  MaxSnaps = 1
  MaxClock = 20
  ExportFrom = 0
  WithPost = FALSE
  Bugs = {}
VIEW View
INVARIANTS Bijection PositiveIds UsedComplete FloodBound FloodRowBelowCredit FloodTimesRounded ChargedWhenExhausted ReplayReproducesPrimary
PROPERTIES MappingStable GetOrCreateIdempotent DeadIdsNeverReissued
CHECK_DEADLOCK FALSE
