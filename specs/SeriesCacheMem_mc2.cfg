SPECIFICATION Spec
CONSTANTS
  NReq = 3
  Hard = 3
  Soft = 2
  S0 = 2
  D = 1
  NInc = 2
  FixWake = TRUE
INVARIANTS TypeOK NoStuck
PROPERTIES AllDone
CHECK_DEADLOCK FALSE
