INIT Init
NEXT Next
CONSTANTS
  Batches <- MCBatchesSmall
  GetStrs <- MCGetStrs
  Nows = {10, 20}
  MaxSizes = {40, 105}
  TTLs = {0, 5}
  Counts = {1, 3}
  CapDiv = 2
  TtlBumpsVersion = TRUE
  DedupBatch = TRUE
  MaxOps = 4
VIEW View
INVARIANTS SizeBound Accounting VictimsAgree
CHECK_DEADLOCK FALSE
