INIT Init
NEXT Next
CONSTANTS
  Alphabet = {"q", "b", "n", "x", "w", "L", "M"}
  MaxLen = 6
  Alphabet2 = {}
  MaxLen2 = 0
  EscMap <- RepoEscMap
INVARIANTS RoundTrip NeverEscapes
CHECK_DEADLOCK FALSE
