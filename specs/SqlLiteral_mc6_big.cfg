INIT Init
NEXT Next
CONSTANTS
  Alphabet = {"q", "b", "n", "0", "x", "N", "w", "L", "M"}
  MaxLen = 6
  Alphabet2 = {}
  MaxLen2 = 0
  EscMap <- RepoEscMap
INVARIANTS RoundTrip NeverEscapes
CHECK_DEADLOCK FALSE
