INIT Init
NEXT Next
CONSTANTS
  NS = 3
  NT = 2
  Vals <- MCValsNeg
  TagA <- MCTagA
  TagB <- MCTagB
  R = 2
  WMax = 1
  Tables <- TablesTop
  SelMod = 1
  Sel = 0
  PreAvg = TRUE
  PreCount = TRUE
  AnchorVals <- NoAnchor
INVARIANTS
  TypeOK
  TopRanksByValue
  Export
CHECK_DEADLOCK FALSE
