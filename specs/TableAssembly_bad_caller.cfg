SPECIFICATION Spec
CONSTANTS
  Keys <- MCKeys31
  Splits <- MCSplits3
  Width <- MCWidth2
  Limits = {1, 2, 3}
  Markers <- MCMarkers31Small
  Export = FALSE
  StorageSortsAll = TRUE
  CallerReverses = TRUE
INVARIANTS TypeOK ColumnsDuring RowsIdxUnique CountBound MarkerIsKey
  FinalAligned FinalUnique FinalOrdered FinalWindow FinalLimit FinalFirst FinalHasMore FinalIsSpecOut
CHECK_DEADLOCK FALSE
