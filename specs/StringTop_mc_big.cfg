INIT Init
NEXT Next
CONSTANTS
  Values = {1, 2, 3, 4}
  Counts = {1, 2, 5}
  Xs = {0}
  Kinds = {"C"}
  Caps <- MCCaps0
  DefaultCap = 2
  FinCaps <- MCFinCaps
  MaxOps = 6
  WordBits = 0
  Bug = "none"
  MaxLog2 = 6
VIEW View
INVARIANTS Conservation FinishBound FinishHeaviest CapacityRespected TopNonEmpty WhaleIsTotal TypeOK NeverStuck AtomicMatches
CHECK_DEADLOCK FALSE
