INIT Init
NEXT Next
CONSTANTS
  Values = {1, 2, 3}
  Counts = {1, 2, 5}
  Xs = {1, 4}
  Kinds = {"C", "V"}
  Caps = {1, 2}
  DefaultCap = 2
  FinCaps <- MCFinCapsSmall
  MaxOps = 4
  WordBits = 0
  Bug = "none"
  MaxLog2 = 6
VIEW View
INVARIANTS Conservation FinishBound FinishHeaviest CapacityRespected TopNonEmpty WhaleIsTotal TypeOK NeverStuck AtomicMatches
CHECK_DEADLOCK FALSE
