\* generated by gen_sampler_cfgs.py
INIT MCInit
NEXT MCNextFast
CONSTANTS
  RoundMode = "floor"
  SelectMode = "det"
  LegacyBreak = FALSE
  MetricDefs <- FixMetrics
  SlotDefs <- FixSlots
  Sizes <- Sz345
  WWs = {1}
  MWs = {1, 2}
  NWs = {1}
  GWs = {1}
  Buds = {0, 2}
  BudAllowed <- OnlyMetric1
  NSAs = {FALSE}
  OptSets <- OptsBudOnly
  Budgets = {10, 15}
VIEW MCView
INVARIANTS TypeOK AtMostOnce ExactlyOnce Unbiased KeptRowsFactorGE1 NoSampleAgentKept SameFactorInLeaf FitsNothingSampled FairShare FixedWithinBudget FairShareRemaining FitIsJustified Monotone KeptWithinBudget QuotaWithinTotal QuotaProportional QuotaFitIsSize QuotaWithinTotalAnyRounding MustMatchesMechanism ExportDone
CHECK_DEADLOCK FALSE
