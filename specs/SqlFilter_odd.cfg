INIT Init
NEXT Next
CONSTANTS
  Tags = {0, 1}
  Ints <- MCInts
  Strs <- MCStrs
  FInts = {0, 1}
  FStrs <- MCFStrsOdd
  FBoth <- MCFBothOdd
  Res <- MCRes
  ReSet <- MCReSet
  Kinds = {"plain", "raw"}
  ValKinds = {"M", "S", "B", "E"}
  MaxOps = 2
  MaxVals = 2
  Break = "none"
  IntIdx <- MCIntIdx
  StrIdx <- MCStrIdx
VIEW View
INVARIANTS TypeOK WhereSelectsExactly PolaritiesComplement
CHECK_DEADLOCK FALSE
