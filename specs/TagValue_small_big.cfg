\* thorough, model only: a limit of 6 bytes so that the cut falls at every position of a short input
SPECIFICATION Spec
CONSTANTS
  MaxLen = 6
  Classes = {"a", "s", "t", "c", "u", "U", "p2", "p3", "p4", "n2", "n3", "n4", "R", "x", "y", "z"}
  Runs = {3}
  MaxItems = 4
  MaxRuns = 1
INVARIANTS
  TypeOK ForceValid ForceIdempotent ValidFixpoint ForceStrAgrees StrictOnlyOnInvalid StrictAgrees
  StrictExact FastAgrees FoldAgrees RefAgrees SlowShape TruncationTight NoCutWhenFits
CHECK_DEADLOCK FALSE
