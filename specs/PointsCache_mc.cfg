INIT Init
NEXT Next
CONSTANTS
  Keys = {"a", "b"}
  Ranges <- MCRangesSmall
  Secs <- MCSecsSmall
  Ticks <- MCTicks
  StepH = 3600
  StepM = 60
  From <- MCFrom
  Linger = 15
  MaxSize = 6
  NRows = 1
  Now0 <- MCNow0
  MaxOps = 6
VIEW View
INVARIANTS NeverServeStale ServeImmutable SizeAccounting SizeBound LevelsSound LevelsComplete
CHECK_DEADLOCK FALSE
