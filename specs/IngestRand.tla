------------------------------ MODULE IngestRand ------------------------------
(* The instance that the cfg files check: Ingest plus the scripted behaviours.
   checks/C12.py replaces this file, in its scratch copy of specs/, by one whose RandScript
   holds the seeded random behaviours of the run (sequences of <<m, c, p, t, s>> class names
   drawn from the full product of the classes); here the script is empty. *)
EXTENDS Ingest
RandScript == <<>>
===============================================================================
