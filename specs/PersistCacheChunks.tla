--------------------------- MODULE PersistCacheChunks ---------------------------
(* C21, first half: the chunked file format of internal/data_model/chunked_storage2.go.

   file:  [chunk]...            chunk: [magic][body size][body][xxh3-128]
   The hash of a chunk covers (hash of the previous chunk ++ magic ++ size ++ body); the
   first chunk is chained to the zero hash.

   The file is a sequence of CELLS.  One cell stands for a byte range of the real file:
   the magic (4 bytes), the body size (4 bytes), the hash (16 bytes) or one `unit` of an
   item (the harness picks unit = ChunkSize/(2*Half) so that the flush threshold
   ChunkSize/2 of FinishItem is Half cells and ChunkSize is Max = 2*Half cells).  `tail`
   = 1 says that a fragment of one more cell follows (file cut inside a cell); offsets are
   compared with the file size in half-cells for that reason (Size2).

   One action per public operation of ChunkedStorage2 (Open = NewChunkedStorage2Slice /
   ...File, ReadNext, ResetToStartOfFile, StartWriteChunk, AppendItem = caller appends an
   item + FinishItem, FinishWriteChunk), plus the environment: Close (the process stops at
   any point - the crash points), Truncate and Flip (damage of the file at rest).

   xxh3 is modelled as a collision-free function: the hash VALUE is the pair <<previous
   hash, hashed cells>>.  A reader that lands on cells that are not a header (stale tail
   after an interrupted rewrite) sees, adversarially, a valid magic and a plausible size,
   so that only the hash comparison protects it.

   Property (stated on ghost state, PrefixOfSaved / ExactReload / NoDamagedItem): what a
   load returns is, chunk by chunk, a prefix of a chunk sequence that a writer really put
   there, exactly the last completed save when nothing was damaged, and never contains a
   damaged cell.                                                                        *)
EXTENDS Integers, Sequences, FiniteSets, TLC, Json

CONSTANTS Magic, OtherMagic,  \* the caller's magic and some other 32-bit value
          Half, Max,          \* ChunkSize/2 and ChunkSize, in body cells
          ItemSizes,          \* sizes (cells) of the items a writer appends
          SizeAlts,           \* values a corrupted body-size field may take
          MaxItems,           \* bound: items appended in a behaviour
          MaxOpens,           \* bound: storage objects created
          MaxDamage,          \* bound: Truncate/Flip events
          MaxOps              \* bound: behaviour length

HdrCells  == 2    \* chunkHeaderSize: magic + body size
HashCells == 1    \* chunkHashSize

VARIABLES file, tail,                     \* the file at rest
          open,                           \* a ChunkedStorage2 object exists
          offset, hash,                   \* c.offset, c.hash
          nextOffset, nextHash,           \* c.nextOffset, c.nextHash
          initSize2,                      \* c.initialFileSize (half-cells)
          reading,                        \* c.ReadAt # nil
          writing, buf,                   \* between StartWriteChunk and FinishWriteChunk; the body so far
          loaded, loadErr, loadDone,      \* observation: bodies returned by ReadNext, error seen, clean end seen
          good,                           \* ghost: bodies of the chunks in [0, offset)
          committed,                      \* ghost: chunk sequence of the last completed save
          everWritten,                    \* ghost: every chunk sequence some writer had put at the file start
          damaged,                        \* ghost: file is not the result of a completed save
          openDamaged, openCommitted,     \* ghost: the two above when the object was created
          nextId, nOpens, nDamage, hist

mech  == <<file, tail, open, offset, hash, nextOffset, nextHash, initSize2, reading, writing, buf>>
obs   == <<loaded, loadErr, loadDone>>
ghost == <<good, committed, everWritten, damaged, openDamaged, openCommitted>>
vars  == <<mech, obs, ghost, nextId, nOpens, nDamage, hist>>
View  == <<mech, obs, ghost, nextId, nOpens, nDamage>>

-------------------------------------------------------------------------------
(* cells *)
ZeroHash == <<>>
BadHash  == <<0, 0, 0>>
Cell(k, a, b, n, h) == [k |-> k, a |-> a, b |-> b, n |-> n, h |-> h]
MagicCell(m)        == Cell("magic", m, 0, 0, ZeroHash)
SizeCell(s)         == Cell("size", s, 0, 0, ZeroHash)
ItemCell(id, p, n)  == Cell("item", id, p, n, ZeroHash)     \* part p of the n cells of item id
HashCell(h)         == Cell("hash", 0, 0, 0, h)
BadId == -1

ItemCells(id, n) == [p \in 1..n |-> ItemCell(id, p, n)]

(* xxh3.Hash128(prev hash ++ header ++ body), collision free *)
Hash(prev, cells) == <<prev, cells>>

(* how bytes that are not the expected field read (see the header comment) *)
AsMagic(c) == IF c.k = "magic" THEN c.a ELSE IF c.k = "item" THEN Magic ELSE OtherMagic
AsSize(c)  == IF c.k = "size" THEN c.a ELSE IF c.k = "item" THEN c.b ELSE Max + 1
AsHash(c)  == IF c.k = "hash" THEN c.h ELSE BadHash

Size2 == 2 * Len(file) + tail
Max2(a, b) == IF a > b THEN a ELSE b
IsPrefix(s, t) == Len(s) <= Len(t) /\ SubSeq(t, 1, Len(s)) = s

(* WriteAt(offset, data) of the slice/file backends *)
Overwrite(f, off, cells) ==
    [i \in 1..Max2(Len(f), off + Len(cells)) |->
        IF i > off /\ i <= off + Len(cells) THEN cells[i - off] ELSE f[i]]

-------------------------------------------------------------------------------
Init == /\ file = <<>> /\ tail = 0
        /\ open = FALSE
        /\ offset = 0 /\ hash = ZeroHash /\ nextOffset = 0 /\ nextHash = ZeroHash
        /\ initSize2 = 0 /\ reading = FALSE /\ writing = FALSE /\ buf = <<>>
        /\ loaded = <<>> /\ loadErr = FALSE /\ loadDone = FALSE
        /\ good = <<>> /\ committed = <<>> /\ everWritten = {<<>>}
        /\ damaged = FALSE /\ openDamaged = FALSE /\ openCommitted = <<>>
        /\ nextId = 1 /\ nOpens = 0 /\ nDamage = 0
        /\ hist = <<>>

(* NewChunkedStorage2Slice / NewChunkedStorage2File: initialFileSize is taken once *)
OpenCore ==
    /\ ~open
    /\ open' = TRUE
    /\ offset' = 0 /\ hash' = ZeroHash /\ nextOffset' = 0 /\ nextHash' = ZeroHash
    /\ initSize2' = Size2
    /\ reading' = TRUE /\ writing' = FALSE /\ buf' = <<>>
    /\ loaded' = <<>> /\ loadErr' = FALSE /\ loadDone' = FALSE
    /\ good' = <<>>
    /\ openDamaged' = damaged /\ openCommitted' = committed
    /\ UNCHANGED <<file, tail, committed, everWritten, damaged>>

(* ReadNext(magic).  Result classes: "eof" (nil, nil at the end of the file), "chunk", "err". *)
ReadOutcome ==
    LET o == nextOffset IN
    IF 2 * o = initSize2 THEN [r |-> "eof"]
    ELSE IF 2 * (o + HdrCells + HashCells) > initSize2 THEN [r |-> "err"]    \* header overflows file size
    ELSE IF AsMagic(file[o + 1]) # Magic THEN [r |-> "err"]                    \* invalid magic
    ELSE LET s == AsSize(file[o + 2]) IN
         IF s > Max THEN [r |-> "err"]                                          \* body size overflows hard limit
         ELSE LET nxt == o + HdrCells + s + HashCells IN
              IF 2 * nxt > initSize2 THEN [r |-> "err"]                         \* body size overflows file size
              ELSE LET actual == AsHash(file[o + HdrCells + s + 1])
                       h      == Hash(nextHash, SubSeq(file, o + 1, o + HdrCells + s))
                   IN IF h # actual THEN [r |-> "err"]                          \* wrong xxhash
                      ELSE [r |-> "chunk", nxt |-> nxt, h |-> actual,
                            body |-> SubSeq(file, o + HdrCells + 1, o + HdrCells + s)]

ReadNextCore ==
    /\ open /\ reading /\ ~writing
    /\ offset' = nextOffset /\ hash' = nextHash     \* "we change offset only on the next call"
    /\ good' = loaded
    /\ LET out == ReadOutcome IN
       CASE out.r = "eof"   -> /\ reading' = FALSE /\ loadDone' = TRUE
                               /\ UNCHANGED <<nextOffset, nextHash, loaded, loadErr>>
         [] out.r = "err"   -> /\ loadErr' = TRUE
                               /\ UNCHANGED <<nextOffset, nextHash, loaded, loadDone, reading>>
         [] out.r = "chunk" -> /\ nextOffset' = out.nxt /\ nextHash' = out.h
                               /\ loaded' = Append(loaded, out.body)
                               \* an empty body reads as the end of the file to every caller
                               /\ loadDone' = (out.body = <<>>)
                               /\ UNCHANGED <<loadErr, reading>>
    /\ UNCHANGED <<file, tail, open, initSize2, writing, buf, committed, everWritten, damaged,
                   openDamaged, openCommitted>>

(* ResetToStartOfFile (MappingsCache.Save rewrites the whole file) *)
ResetCore ==
    /\ open /\ ~writing
    /\ hash' = ZeroHash /\ offset' = 0 /\ good' = <<>>
    /\ UNCHANGED <<file, tail, open, nextOffset, nextHash, initSize2, reading, writing, buf, obs,
                   committed, everWritten, damaged, openDamaged, openCommitted>>

(* StartWriteChunk: "prevent subsequent reading, if ReadNext was not called to the end" *)
StartWriteCore ==
    /\ open /\ ~writing
    /\ reading' = FALSE /\ writing' = TRUE /\ buf' = <<>>
    /\ UNCHANGED <<file, tail, open, offset, hash, nextOffset, nextHash, initSize2, obs, ghost>>

(* finishChunk for a non-empty body: header, chained hash, WriteAt(c.offset) *)
ChunkCells(body) ==
    LET data == <<MagicCell(Magic), SizeCell(Len(body))>> \o body
    IN data \o <<HashCell(Hash(hash, data))>>

FlushEffect(body) ==
    LET cells == ChunkCells(body) IN
    /\ file' = Overwrite(file, offset, cells)
    /\ tail' = IF offset + Len(cells) > Len(file) THEN 0 ELSE tail
    /\ hash' = cells[Len(cells)].h
    /\ offset' = offset + Len(cells)
    /\ good' = Append(good, body)
    /\ everWritten' = everWritten \cup {Append(good, body)}

(* the caller appends one item to the chunk and calls FinishItem *)
ItemOutcome(sz) == LET n == Len(buf) + sz IN
                   IF n < Half THEN "buf" ELSE IF n > Max THEN "toobig" ELSE "flush"

AppendItemCore(sz) ==
    /\ open /\ writing
    /\ LET b1 == buf \o ItemCells(nextId, sz) IN
       CASE ItemOutcome(sz) = "buf" ->          \* "write after half space used"
              /\ buf' = b1
              /\ UNCHANGED <<file, tail, offset, hash, good, everWritten, damaged, writing>>
         [] ItemOutcome(sz) = "toobig" ->       \* error returned; every caller gives the save up
              /\ buf' = <<>> /\ writing' = FALSE /\ damaged' = TRUE
              /\ UNCHANGED <<file, tail, offset, hash, good, everWritten>>
         [] ItemOutcome(sz) = "flush" ->
              /\ FlushEffect(b1)
              /\ buf' = <<>> /\ damaged' = TRUE  \* until FinishWriteChunk the file is half-written
              /\ UNCHANGED writing
    /\ nextId' = nextId + 1
    /\ UNCHANGED <<open, nextOffset, nextHash, initSize2, reading, obs, committed, openDamaged, openCommitted>>

(* FinishWriteChunk: flush what is left, Truncate(c.offset) *)
FinishWriteCore ==
    /\ open /\ writing
    /\ LET cells == IF buf # <<>> THEN ChunkCells(buf) ELSE <<>>
           end   == offset + Len(cells)
           g1    == IF buf # <<>> THEN Append(good, buf) ELSE good
           f1    == IF buf # <<>> THEN Overwrite(file, offset, cells) ELSE file
       IN /\ file' = SubSeq(f1, 1, end)                  \* Truncate(c.offset)
          /\ tail' = 0
          /\ hash' = IF buf # <<>> THEN cells[Len(cells)].h ELSE hash
          /\ offset' = end
          /\ good' = g1 /\ committed' = g1 /\ everWritten' = everWritten \cup {g1}
    /\ buf' = <<>> /\ writing' = FALSE /\ damaged' = FALSE
    /\ UNCHANGED <<open, nextOffset, nextHash, initSize2, reading, obs, openDamaged, openCommitted>>

(* the process ends (or crashes) - the object is gone, the file stays as it is *)
CloseCore ==
    /\ open
    /\ open' = FALSE /\ writing' = FALSE /\ buf' = <<>> /\ reading' = FALSE
    /\ UNCHANGED <<file, tail, offset, hash, nextOffset, nextHash, initSize2, obs, ghost>>

(* damage at rest: keep k whole cells and (t = 1) a fragment of the next one *)
TruncateCore(k, t) ==
    /\ ~open
    /\ k \in 0..Len(file) /\ t \in {0, 1}
    /\ 2 * k + t < Size2
    /\ file' = SubSeq(file, 1, k) /\ tail' = t
    /\ damaged' = TRUE
    /\ UNCHANGED <<open, offset, hash, nextOffset, nextHash, initSize2, reading, writing, buf, obs,
                   good, committed, everWritten, openDamaged, openCommitted>>

(* damage at rest: cell i holds something else.  alt is the new body size for a size cell *)
Damaged(c, alt) ==
    CASE c.k = "magic" -> [c EXCEPT !.a = IF c.a = Magic THEN OtherMagic ELSE Magic]
      [] c.k = "size"  -> [c EXCEPT !.a = alt]
      [] c.k = "item"  -> [c EXCEPT !.a = BadId]
      [] c.k = "hash"  -> [c EXCEPT !.h = BadHash]

FlipCore(i, alt) ==
    /\ ~open
    /\ i \in 1..Len(file)
    /\ (file[i].k = "size" => alt # file[i].a) /\ (file[i].k # "size" => alt = 0)
    /\ Damaged(file[i], alt) # file[i]
    /\ file' = [file EXCEPT ![i] = Damaged(file[i], alt)]
    /\ damaged' = TRUE
    /\ UNCHANGED <<tail, open, offset, hash, nextOffset, nextHash, initSize2, reading, writing, buf, obs,
                   good, committed, everWritten, openDamaged, openCommitted>>

-------------------------------------------------------------------------------
(* behaviours with history (exported for the S->I replay) *)
Ids(body) == [j \in 1..Len(body) |-> body[j].a]
Layout(f) == [j \in 1..Len(f) |-> f[j].k]
Post == [len |-> Len(file'), tail |-> tail', off |-> offset']

Log(rec) == hist' = Append(hist, rec)

Open == OpenCore /\ nOpens < MaxOpens /\ nOpens' = nOpens + 1 /\ UNCHANGED <<nextId, nDamage>>
        /\ Log([a |-> "Open", post |-> Post])
ReadNext == /\ ~loadErr /\ ~loadDone
            /\ ReadNextCore /\ UNCHANGED <<nextId, nOpens, nDamage>>
            /\ Log([a |-> "Read", r |-> ReadOutcome.r,
                    ids |-> IF ReadOutcome.r = "chunk" THEN Ids(ReadOutcome.body) ELSE <<>>, post |-> Post])
Reset == ResetCore /\ UNCHANGED <<nextId, nOpens, nDamage>> /\ Log([a |-> "Reset", post |-> Post])
StartWrite == StartWriteCore /\ UNCHANGED <<nextId, nOpens, nDamage>> /\ Log([a |-> "Start", post |-> Post])
AppendItem(sz) == /\ nextId <= MaxItems
                  /\ AppendItemCore(sz) /\ UNCHANGED <<nOpens, nDamage>>
                  /\ Log([a |-> "Item", id |-> nextId, sz |-> sz, res |-> ItemOutcome(sz), post |-> Post])
FinishWrite == FinishWriteCore /\ UNCHANGED <<nextId, nOpens, nDamage>> /\ Log([a |-> "Finish", post |-> Post])
Close == CloseCore /\ UNCHANGED <<nextId, nOpens, nDamage>> /\ Log([a |-> "Close", post |-> Post])
Truncate(k, t) == /\ nDamage < MaxDamage
                  /\ TruncateCore(k, t) /\ nDamage' = nDamage + 1 /\ UNCHANGED <<nextId, nOpens>>
                  /\ Log([a |-> "Trunc", k |-> k, t |-> t, post |-> Post])
Flip(i, alt) == /\ nDamage < MaxDamage
                /\ FlipCore(i, alt) /\ nDamage' = nDamage + 1 /\ UNCHANGED <<nextId, nOpens>>
                /\ Log([a |-> "Flip", i |-> i, alt |-> alt, kind |-> file[i].k, post |-> Post])

Next == /\ Len(hist) < MaxOps
        /\ \/ Open \/ ReadNext \/ Reset \/ StartWrite \/ FinishWrite \/ Close
           \/ \E sz \in ItemSizes : AppendItem(sz)
           \/ \E k \in 0..Len(file), t \in {0, 1} : Truncate(k, t)
           \/ \E i \in 1..Len(file), alt \in SizeAlts \cup {0} : Flip(i, alt)

Spec == Init /\ [][Next]_vars

-------------------------------------------------------------------------------
(* Properties *)

(* "a truncated or corrupted file yields a prefix of the saved chunks": whatever happened to
   the file, what a load returned so far is a prefix of a chunk sequence a writer produced *)
PrefixOfSaved == \E v \in everWritten : IsPrefix(loaded, v)

(* "never a damaged item": every returned body consists of whole, undamaged items *)
WholeItems(body) ==
    \A j \in 1..Len(body) :
        /\ body[j].k = "item" /\ body[j].a # BadId /\ body[j].a > 0
        /\ body[j].b \in 1..body[j].n
        /\ (body[j].b = 1 => j + body[j].n - 1 <= Len(body))
        /\ (body[j].b > 1 => j > 1 /\ body[j - 1].a = body[j].a /\ body[j - 1].b = body[j].b - 1)
        /\ (body[j].b < body[j].n => j < Len(body))
NoDamagedItem == \A c \in 1..Len(loaded) : loaded[c] # <<>> /\ WholeItems(loaded[c])

(* "reloading a chunked storage file yields exactly the saved items": an undamaged file loads
   without error, and completely *)
ExactReload == (open /\ ~openDamaged) =>
                  /\ ~loadErr
                  /\ IsPrefix(loaded, openCommitted)
                  /\ (loadDone => loaded = openCommitted)

(* mechanism: the chunks the object believes to be in [0, offset) are there, chained *)
RECURSIVE Parse(_, _, _)
Parse(f, o, h) ==       \* bodies of the valid chained chunks of f starting at o
    IF o + HdrCells + HashCells > Len(f) THEN <<>>
    ELSE IF f[o + 1].k # "magic" \/ f[o + 1].a # Magic \/ f[o + 2].k # "size" THEN <<>>
    ELSE LET s == f[o + 2].a IN
         IF s > Max \/ o + HdrCells + s + HashCells > Len(f) THEN <<>>
         ELSE LET hc == f[o + HdrCells + s + 1] IN
              IF hc.k # "hash" \/ hc.h # Hash(h, SubSeq(f, o + 1, o + HdrCells + s)) THEN <<>>
              ELSE <<SubSeq(f, o + HdrCells + 1, o + HdrCells + s)>> \o Parse(f, o + HdrCells + s + HashCells, hc.h)
WriterPosition == (open /\ ~reading) =>
                     /\ offset <= Len(file)
                     /\ Parse(SubSeq(file, 1, offset), 0, ZeroHash) = good
(* a completed save leaves exactly its chunks in the file *)
CommittedInFile == ~damaged => Parse(file, 0, ZeroHash) = committed /\ tail = 0
(* an empty chunk (which every caller takes for the end of the file) is never accepted *)
NoEmptyChunk == \A c \in 1..Len(loaded) : loaded[c] # <<>>

Export == PrintT(<<"BEH", ToJson(hist')>>)
===============================================================================
