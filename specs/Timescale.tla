------------------------------ MODULE Timescale ------------------------------
(* C22 - query time axes are aligned, gap-free and bounded.

   This module is the CONTRACT of data_model.GetTimescale / GetLODs
   (internal/data_model/timescale.go): a relation between the arguments of one call and its
   result, stated clause by clause.  It is deliberately NOT a transcription of the level-of-detail
   planner: any planner whose outputs satisfy these clauses keeps the property.

   A call is a record r:
     start, end, step, now, width, point, extend, utc (the configured offset, seconds),
     res (largest metric resolution), offs (metric offsets of the query), maxoff, off (offset of
     the metric the storage ranges are asked for), err ("none" | "offset" | "range" | "other"),
     rerr (same for GetLODs),
     time  - the axis, a sequence of unix seconds,
     lods  - sequence of [step, len], oldest first; len = number of axis points of the level,
     startx, vstartx, vendx - 0-based indices into time (as in the Go struct),
     ranges - sequence of [from, to, step] handed to the storage layer (GetLODs),
     months - for the monthly step: the month starts in the query's location, ascending,
              covering the axis and two months around it (trusted input: Go's time package).

   Used by TimescaleTrace (recorded calls of the real code) and TimescaleModel (an abstract
   model of the planner, checked exhaustively for small constants). *)
EXTENDS Integers, Sequences, FiniteSets

CONSTANTS Resolutions,   \* the steps for which a table exists (keys of LODTables)
          Month,         \* the pseudo step that means "one calendar month" (31 days in seconds)
          Limit,         \* the most points an axis may have (MaxSlice)
          Week           \* a step every non-monthly resolution divides (unit of legal offsets)

N(r) == Len(r.time)
K(r) == Len(r.lods)
T(r, i) == r.time[i + 1]                      \* 0-based access, as in the code
Monthly(r) == r.step = Month

RECURSIVE SumLen(_, _)
SumLen(r, k) == IF k = 0 THEN 0 ELSE SumLen(r, k - 1) + r.lods[k].len
Lo(r, k) == SumLen(r, k - 1)                  \* 0-based index of the first point of level k
Hi(r, k) == SumLen(r, k) - 1                  \* ... and of its last point

IsMonthStart(r, t) == \E j \in DOMAIN r.months : r.months[j] = t
MIdx(r, t) == CHOOSE j \in DOMAIN r.months : r.months[j] = t
PrevMonth(r, t) == r.months[MIdx(r, t) - 1]   \* the table has spare months on both sides
NextMonth(r, t) == r.months[MIdx(r, t) + 1]
MonthOf(r, t) == CHOOSE j \in DOMAIN r.months :
                    r.months[j] <= t /\ (j = Len(r.months) \/ t < r.months[j + 1])

Fwd(r, t, st) == IF st = Month THEN NextMonth(r, t) ELSE t + st
Back(r, t, st) == IF st = Month THEN PrevMonth(r, t) ELSE t - st
Aligned(r, t, st) == IF st = Month THEN IsMonthStart(r, t) ELSE (t + r.utc) % st = 0

(* ---- when does the contract apply ---- *)
Unit(r) == IF Monthly(r) THEN Month ELSE Week
ProperArgs(r) == r.end > r.start /\ r.step >= 0
(* The planner returns nothing for a range that begins after "now" (shifted by the largest
   offset): there is no level of detail for the future.  Recorded as an assumption. *)
Future(r) == r.start - r.maxoff > r.now
Judged(r) == ProperArgs(r) /\ r.err = "none" /\ N(r) > 0
JudgedRange(r) == Judged(r) /\ ~r.point
JudgedPoint(r) == Judged(r) /\ r.point

(* ---- clauses ---- *)
ErrorsAgree(r) == r.err = r.rerr
(* the only legitimate failures: some metric offset is not a multiple of the coarsest step used;
   a range too long for the coarsest step (impossible for 32-bit unix seconds and the real table) *)
NoUnexpectedError(r) ==
    r.err # "none" =>
        \/ r.err = "offset" /\ \E i \in DOMAIN r.offs : r.offs[i] % Unit(r) # 0
        \/ r.err = "range" /\ ~Monthly(r) /\ (r.end - r.start) \div Week >= Limit \div 2
NonEmpty(r) ==
    (ProperArgs(r) /\ r.err = "none" /\ ~Future(r) /\ N(r) = 0)
        => (r.point /\ r.end - r.start < 2 * Unit(r))   \* no whole step inside a short range

Increasing(r) == Judged(r) => \A i \in 1..(N(r) - 1) : r.time[i] < r.time[i + 1]

LODSteps(r) == Judged(r) =>
    /\ K(r) > 0
    /\ \A k \in 1..K(r) : /\ r.lods[k].step \in Resolutions
                          /\ r.lods[k].len > 0
                          /\ (r.lods[k].step = Month) <=> Monthly(r)
LODFiner(r) == Judged(r) => \A k \in 1..(K(r) - 1) : r.lods[k].step >= r.lods[k + 1].step
LimitOK(r) == Judged(r) => N(r) <= Limit
LenSum(r) == JudgedRange(r) => SumLen(r, K(r)) = N(r)

(* consecutive points differ by exactly the step of the level covering the earlier point *)
Diffs(r) == JudgedRange(r) /\ SumLen(r, K(r)) = N(r) =>
    \A k \in 1..K(r) :
       LET st == r.lods[k].step
           lo == Lo(r, k)
           hi == Hi(r, k)
       IN IF st = Month
          THEN /\ IsMonthStart(r, T(r, lo))
               /\ LET j0 == MIdx(r, T(r, lo))
                  IN \A i \in lo..hi : i + 1 < N(r) =>
                        /\ j0 + (i - lo) + 1 \in DOMAIN r.months
                        /\ T(r, i + 1) = r.months[j0 + (i - lo) + 1]
          ELSE \A i \in lo..hi : i + 1 < N(r) => T(r, i + 1) = T(r, i) + st

AlignedAll(r) ==
    /\ JudgedRange(r) /\ SumLen(r, K(r)) = N(r) =>
         \A k \in 1..K(r) : \A i \in Lo(r, k)..Hi(r, k) : Aligned(r, T(r, i), r.lods[k].step)
    /\ JudgedPoint(r) /\ K(r) > 0 /\ N(r) = 2 =>
         /\ Aligned(r, T(r, 0), r.lods[1].step) /\ Aligned(r, T(r, 1), r.lods[1].step)

(* the "view" is exactly the set of axis points inside [start, end) *)
View(r) == JudgedRange(r) =>
    LET vs == r.vstartx
        ve == r.vendx
    IN /\ 0 <= vs /\ vs <= ve /\ ve <= N(r)
       /\ \A i \in vs..(ve - 1) : r.start <= T(r, i) /\ T(r, i) < r.end
       /\ vs > 0 /\ vs <= N(r) => T(r, vs - 1) < r.start
       /\ ve < N(r) => T(r, ve) >= r.end

(* the requested range is covered starting at the reported start index *)
CoverStart(r) ==
    /\ JudgedRange(r) =>
         LET sx == r.startx
         IN /\ 0 <= sx /\ sx <= N(r)
            /\ IF r.extend
               THEN /\ sx < N(r) /\ T(r, sx) <= r.start
                    /\ sx + 1 < N(r) => T(r, sx + 1) >= r.start
               ELSE /\ sx < N(r) => T(r, sx) >= r.start
                    /\ sx > 0 => T(r, sx - 1) < r.start
                    /\ sx = 0 => T(r, 0) <= r.start
    /\ JudgedPoint(r) /\ N(r) = 2 /\ K(r) > 0 /\ Aligned(r, T(r, 0), r.lods[1].step) =>
         LET st == r.lods[1].step
             a == T(r, 0)
         IN IF r.extend
            THEN a <= r.start /\ r.start < Fwd(r, a, st)
            ELSE r.start <= a /\ Back(r, a, st) < r.start

CoverEnd(r) ==
    /\ JudgedRange(r) /\ K(r) > 0 /\ Aligned(r, T(r, N(r) - 1), r.lods[K(r)].step) =>
         LET last == T(r, N(r) - 1)
         IN IF r.extend
            THEN last >= r.end /\ (N(r) >= 2 => T(r, N(r) - 2) < r.end)
            ELSE Fwd(r, last, r.lods[K(r)].step) >= r.end
    /\ JudgedPoint(r) /\ N(r) = 2 /\ K(r) > 0 /\ Aligned(r, T(r, 1), r.lods[1].step) =>
         LET st == r.lods[1].step
             b == T(r, 1)
         IN IF r.extend
            THEN b >= r.end /\ Back(r, b, st) < r.end
            ELSE b <= r.end /\ Fwd(r, b, st) > r.end

(* an instant query axis: one interval [a, b) of whole steps *)
PointShape(r) == JudgedPoint(r) =>
    /\ N(r) = 2 /\ K(r) = 1
    /\ r.lods[1].step # Month => (T(r, 1) - T(r, 0)) % r.lods[1].step = 0

(* the per-level ranges handed to the storage layer are contiguous and match the points
   (shifted by the metric's offset; for the monthly step: whole months from the month holding
   the shifted first point) *)
(* No products of timestamps (TLC integers are 32 bit): the expected bounds are read off the axis. *)
J1(r) == MonthOf(r, T(r, 0) - r.off)
RangeFrom(r, k) == IF Monthly(r) THEN r.months[J1(r) + Lo(r, k)] ELSE T(r, Lo(r, k)) - r.off
RangeTo(r, k) == IF Monthly(r) THEN r.months[J1(r) + Hi(r, k) + 1]
                 ELSE IF k < K(r) THEN T(r, Lo(r, k + 1)) - r.off
                 ELSE T(r, N(r) - 1) + r.lods[k].step - r.off
Ranges(r) == JudgedRange(r) /\ SumLen(r, K(r)) = N(r) =>
    /\ Len(r.ranges) = K(r)
    /\ Monthly(r) => J1(r) + N(r) \in DOMAIN r.months
    /\ \A k \in 1..K(r) :
         /\ r.ranges[k].step = r.lods[k].step
         /\ r.ranges[k].from = RangeFrom(r, k)
         /\ r.ranges[k].to = RangeTo(r, k)
         /\ k < K(r) => r.ranges[k].to = r.ranges[k + 1].from

Contract(r) ==
    /\ ErrorsAgree(r) /\ NoUnexpectedError(r) /\ NonEmpty(r)
    /\ Increasing(r) /\ LODSteps(r) /\ LODFiner(r) /\ LimitOK(r) /\ LenSum(r)
    /\ Diffs(r) /\ AlignedAll(r) /\ View(r) /\ CoverStart(r) /\ CoverEnd(r)
    /\ PointShape(r) /\ Ranges(r)
===============================================================================
