SPECIFICATION TraceSpec
CONSTANTS
  Values = {}
  Counts = {}
  Xs = {}
  Kinds = {}
  Caps = {}
  DefaultCap = 100
  FinCaps = {}
  MaxOps = 0
  WordBits = 0
  Bug = "none"
  MaxLog2 = 0
VIEW TraceView
CONSTRAINT HighWater
INVARIANTS StepConforms Conservation FinishBound FinishHeaviest
POSTCONDITION TraceAccepted
CHECK_DEADLOCK FALSE
