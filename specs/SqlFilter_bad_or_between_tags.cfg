INIT Init
NEXT Next
CONSTANTS
  Tags = {0, 1}
  Ints <- MCInts
  Strs <- MCStrs
  FInts = {1}
  FStrs <- MCFStrsSmall
  FBoth <- MCFBothSmall
  Res <- MCResTwo
  ReSet <- MCReSet
  Kinds = {"plain", "raw"}
  ValKinds = {"M", "S", "B", "E"}
  MaxOps = 2
  MaxVals = 2
  Break = "or_between_tags"
  IntIdx <- MCIntIdx
  StrIdx <- MCStrIdx
VIEW View
INVARIANTS TypeOK WhereSelectsExactly PolaritiesComplement
CHECK_DEADLOCK FALSE
