INIT Init
NEXT Next
CONSTANTS
  Acqs <- A3
  W <- W3
  InitSizes = {2, 3}
  Sizes = {1, 2, 3}
  MaxSet = 1
  Forces = {1, 2}
  MaxForce = 1
  MaxOps = 0
  Bug = "none"
  KeepHist = TRUE
VIEW View
ACTION_CONSTRAINT Export
CHECK_DEADLOCK FALSE
