INIT Init
NEXT Next
CONSTANTS
  NChunks = 1
  CS = 1
  NGets = 2
  Ranges <- AllRanges
  Plays <- PlayMix
  Forces <- ForceMix
  MaxInv = 1
  MaxTrim = 0
  MaxFail = 0
  Age <- AllOld
  FixAwait = TRUE
  FixPublish = TRUE
  FixInvMax = FALSE
  AnyTakesAwaiters = FALSE
  SeqInv = TRUE
  MaxOps = 0
VIEW View
INVARIANTS TypeOK Placement Produced Freshness NoDoubleSend NoLostWakeup AwaitersServed Accounting LoadingCount
CHECK_DEADLOCK FALSE
