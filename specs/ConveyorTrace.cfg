SPECIFICATION TraceSpec
CONSTANTS
  Secs <- TrSecs
  Insts <- TrInsts
  RepOf <- TrRepOf
  SW = 5
  FW = 4
  HW = 3600
  MaxT = 0
  MaxFaults = 0
  NIns = 2
CONSTRAINT HighWater
INVARIANTS ForgetOnlyAfterAck AckOnlyAfterInsertOrReject NoSilentLoss Held
POSTCONDITION TraceAccepted
CHECK_DEADLOCK FALSE
