\* generated by gen_sampler_cfgs.py
INIT MCInit
NEXT MCNextFast
CONSTANTS
  RoundMode = "floor"
  SelectMode = "det"
  LegacyBreak = FALSE
  MetricDefs <- AgentMetrics
  SlotDefs <- AgentSlots
  Sizes <- Sz3
  WWs = {1}
  MWs = {1}
  NWs = {1}
  GWs = {1}
  Buds = {0, 2}
  BudAllowed <- AllMetrics
  NSAs = {FALSE, TRUE}
  OptSets <- OptsAgent3
  Budgets = {4}
VIEW MCView
INVARIANTS TypeOK AtMostOnce ExactlyOnce Unbiased KeptRowsFactorGE1 NoSampleAgentKept SameFactorInLeaf FitsNothingSampled FairShare FixedWithinBudget FairShareRemaining FitIsJustified Monotone KeptWithinBudget QuotaWithinTotal QuotaProportional QuotaFitIsSize QuotaWithinTotalAnyRounding MustMatchesMechanism ExportDone
CHECK_DEADLOCK FALSE
