INIT Init
NEXT Next
CONSTANTS
  Alphabet = {"q", "b", "n", "0", "x", "N", "d", "k", "w", "Z", "L", "C", "M"}
  MaxLen = 3
  Alphabet2 = {}
  MaxLen2 = 0
  EscMap <- BadNoQuote
INVARIANTS RoundTrip
CHECK_DEADLOCK FALSE
