----------------------------- MODULE TimescaleMC -----------------------------
(* Instances of TimescaleModel: three table levels shaped like lodLevels[Version6]
   (every list extends the previous one; relSwitch = an aligned age minus twice the next level's
   finest step, as in the code: 33d-2m, 52h-2s  ~  45-2*5, 15-2*1), point budget 12. *)
EXTENDS TimescaleModel
MCLevelRel == <<35, 13, 0>>
MCLevelSteps == << <<15>>, <<15, 5>>, <<15, 5, 1>> >>
MCResolutions == {1, 5, 15}
\* quick
MCStarts == {21, 34, 35, 36, 42, 43, 56, 57, 58, 64, 65, 70, 71, 78}
MCDurs == {1, 4, 5, 14, 15, 16, 31, 44}
MCNows == {70, 77}
MCStepsAsked == {0, 5, 7}
MCWidths == {0, 3}
MCUtcs == {0, -4}
MCMetricRes == {1, 5}
MCOffs == {0, 15}
\* thorough
MCStartsBig == 18..80
MCDursBig == {1, 2, 5, 15, 16, 31, 44, 181}
MCNowsBig == {77}
MCStepsAskedBig == {0, 1, 5, 7, 20}
MCWidthsBig == {0, 3, 8}
MCUtcsBig == {0, -4}
MCOffsBig == {0, 15}
\* (the sweep on the real code, harness TestVerifC22Small, uses the same levels with the real budget
\*  and a superset of the thorough grid: durations 1..48, 60, 75, 181, 200; nows 70, 77; steps 0, 1, 5,
\*  7, 15, 20; offsets -4, 0, 7; metric offsets 0, 7, 15)
=============================================================================
