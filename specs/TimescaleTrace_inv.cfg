SPECIFICATION TraceSpec
CONSTANTS
  Resolutions <- MCResolutions
  Month = 2678400
  Limit = 8192
  Week = 604800
INVARIANTS TrErrorsAgree TrNoUnexpectedError TrNonEmpty TrLODSteps TrLODFiner TrLimit TrIncreasing TrLenSum
  TrPointShape TrDiffs TrAligned TrView TrCoverStart TrCoverEnd TrRanges
  TrRound TrShift TrCalcRange TrCalcFixedZone TrCalcSomeZone TrCalcCurrentZone
CHECK_DEADLOCK FALSE
