INIT Init
NEXT Next
CONSTANTS
  DEN = 6
  AgentHost = 9
  FixMixedSum = TRUE
  FixEmptyHost = TRUE
  Shapes <- MCLeaves10
  Percs = {FALSE, TRUE}
  MaxLeaves = 4
VIEW View
INVARIANTS MergeCanonical MergeHosts TsCanonical
CHECK_DEADLOCK FALSE
