---------------------------- MODULE BalancerTrace ----------------------------
(* I->S: validates traces recorded from the real balancer Egress + handler
   (harness internal/balancer/verif_c31_test.go: hooks under pktBuffer.mu in push/swap, around
   the write in pop, at connect/report in sendLoop; local TCP listeners as upstream).

   Every decision of the code is taken from the trace (which buffer was tried, whether push
   accepted, where pop set ri after an error, what was reported); the effects are those of
   Balancer's ...Eff operators, so the ghost state (acc, done, up, drops, wb ...) is rebuilt and the
   property-level invariants are evaluated in every step of the real execution.  Mechanism
   details the property does not fix (when swap sleeps or wakes, which sender is "primary")
   are not demanded.

   Harness events (not hooks): CallEnd (one handler call returned; cumulative counters),
   Quiesce (the driver waited - at most the ceiling - for the healthy senders to drain), Close,
   End (what the upstream listeners received per connection, public Stats()).
   Several runs are concatenated, each starting with Reset.                                 *)
EXTENDS Balancer
VARIABLES l,      \* next trace line
          q,      \* senders that must be drained now (set by Quiesce, cleared by the next event)
          chk,    \* counters observed at the last CallEnd (<<>> otherwise)
          endv,   \* the End event (<<>> before)
          scn,    \* current scenario number
          ovd,    \* senders whose pending write has been held longer than WriteTimeout (Overdue)
          lateok  \* such a write was nevertheless reported successful
Trace == ndJsonDeserialize("trace.ndjson")
ASSUME TLCSet(7, 0)

tvars == <<vars, l, q, chk, endv, scn, ovd, lateok>>
E == Trace[l]
IsEvent(e) == l <= Len(Trace) /\ Trace[l].ev = e /\ l' = l + 1
Keep0 == q' = {} /\ chk' = <<>> /\ UNCHANGED <<endv, scn, hist, pc>>
Keep == Keep0 /\ UNCHANGED <<ovd, lateok>>

TrInit == Init /\ l = 1 /\ q = {} /\ chk = <<>> /\ endv = <<>> /\ scn = 0 /\ ovd = {} /\ lateok = FALSE

TrReset ==
    /\ IsEvent("Reset")
    /\ scn' = E.scn /\ q' = {} /\ chk' = <<>> /\ endv' = <<>> /\ ovd' = {} /\ lateok' = FALSE
    /\ w' = [s \in Senders |-> <<>>] /\ r' = [s \in Senders |-> <<>>]
    /\ ri' = [s \in Senders |-> 0]
    /\ closedB' = [s \in Senders |-> FALSE]
    /\ cv' = [s \in Senders |-> "none"]
    /\ tmr' = [s \in Senders |-> "off"]
    /\ tmo' = [s \in Senders |-> FALSE]
    /\ pc' = [s \in Senders |-> "top"]
    /\ conn' = [s \in Senders |-> 0]
    /\ recon' = [s \in Senders |-> FALSE]
    /\ wb' = [s \in Senders |-> 0] /\ rh' = [s \in Senders |-> 0]
    /\ prim' = 1 /\ hpc' = "idle" /\ hpkt' = 0 /\ hfull' = TRUE
    /\ shut' = FALSE /\ closing' = 0 /\ stopReq' = [s \in Senders |-> FALSE]
    /\ fwd' = 0 /\ drp' = 0 /\ werrs' = 0 /\ rerrs' = 0
    /\ nextId' = 1 /\ plen' = <<>>
    /\ acc' = [s \in Senders |-> <<>>] /\ done' = [s \in Senders |-> <<>>]
    /\ up' = <<>> /\ upOf' = <<>> /\ stc' = {}
    /\ skipped' = {} /\ drops' = <<>> /\ dropBytes' = 0 /\ closedRej' = 0
    /\ reported' = 0 /\ repLost' = 0 /\ errs' = 0 /\ spur' = 0
    /\ hist' = hist

(* pktBuffer.push (hook under b.mu): the first push of a call, or the second one *)
TrPush ==
    /\ IsEvent("Push") /\ E.s \in Senders
    /\ IF hpc = "idle"
       THEN /\ E.id = nextId /\ nextId' = nextId + 1
            /\ PushFirstEff(E.s, E.id, E.len, E.ok)
       ELSE /\ E.id = hpkt /\ UNCHANGED nextId
            /\ PushSecondEff(E.s, E.ok)
    /\ Keep

(* a handler call returned.  np = pushes seen during the call; 0 means rejected up front,
   which the code may only do when closed *)
TrCallEnd ==
    /\ IsEvent("CallEnd")
    /\ hpc = "idle"
    /\ IF E.np = 0
       THEN PushClosedEff /\ nextId' = nextId + 1
       ELSE UNCHANGED <<bufv, conn, recon, wb, rh, hndv, clsv, statv, ghov>>
    /\ chk' = [fwd |-> E.fwd, drp |-> E.drp]
    /\ q' = {} /\ UNCHANGED <<endv, scn, hist, pc, ovd, lateok>>

(* swap(): SwapSleep = about to cond.Wait (first time: the timer was just armed),
   SwapWake = Wait returned (lock held; "run"), SwapDone = left the loop *)
TrSwapSleep ==
    /\ IsEvent("SwapSleep") /\ cv[E.s] \in {"none", "run"}
    /\ IF cv[E.s] = "none"
       THEN tmo' = [tmo EXCEPT ![E.s] = FALSE] /\ tmr' = [tmr EXCEPT ![E.s] = "armed"]
       ELSE UNCHANGED <<tmo, tmr>>
    /\ cv' = [cv EXCEPT ![E.s] = "asleep"]
    /\ UNCHANGED <<w, r, ri, closedB, conn, recon, wb, rh, hndv, clsv, statv, ghov>>
    /\ Keep
TrSwapWake ==
    /\ IsEvent("SwapWake") /\ cv[E.s] \in {"asleep", "woken"}
    /\ cv' = [cv EXCEPT ![E.s] = "run"]
    /\ UNCHANGED <<w, r, ri, closedB, tmr, tmo, conn, recon, wb, rh, hndv, clsv, statv, ghov>>
    /\ Keep
TrSwapTimeout ==          \* informational: a late callback of an earlier swap() looks the same
    /\ IsEvent("SwapTimeout")
    /\ tmo' = [tmo EXCEPT ![E.s] = TRUE] /\ tmr' = [tmr EXCEPT ![E.s] = "off"]
    /\ cv' = Signal(cv, E.s)
    /\ UNCHANGED <<w, r, ri, closedB, conn, recon, wb, rh, hndv, clsv, statv, ghov>>
    /\ Keep
TrSwapDone ==
    /\ IsEvent("SwapDone") /\ cv[E.s] \in {"none", "run"}
    /\ E.wi = Len(w[E.s])                      \* the batch taken is everything pushed so far
    /\ E.closed => shut
    /\ closedB' = [closedB EXCEPT ![E.s] = E.closed]
    /\ cv' = [cv EXCEPT ![E.s] = "none"]
    /\ tmr' = [tmr EXCEPT ![E.s] = "off"]
    /\ IF E.closed
       THEN UNCHANGED <<w, r, ri>>
       ELSE /\ r' = [r EXCEPT ![E.s] = w[E.s]]
            /\ w' = [w EXCEPT ![E.s] = <<>>]
            /\ ri' = [ri EXCEPT ![E.s] = 0]
    /\ UNCHANGED <<tmo, conn, recon, wb, rh, hndv, clsv, statv, ghov>>
    /\ Keep

(* pop(): the slice handed to the writer, and the outcome *)
TrPopWrite ==
    /\ IsEvent("PopWrite")
    /\ E.ri = ri[E.s] /\ E.rm = Len(r[E.s]) /\ E.ri < E.rm
    /\ UNCHANGED <<bufv, conn, recon, wb, rh, hndv, clsv, statv, ghov>>
    /\ Keep
TrPopOK ==
    /\ IsEvent("PopOK")
    /\ WriteOKEff(E.s)
    /\ lateok' = (lateok \/ E.s \in ovd) /\ ovd' = ovd \ {E.s}
    /\ Keep0
(* the driver held the sender before the write for longer than WriteTimeout (a stalled upstream
   seen from the write's side): the deadline set for this write has passed, so it must fail *)
TrOverdue ==
    /\ IsEvent("Overdue")
    /\ ovd' = ovd \cup {E.s} /\ UNCHANGED lateok
    /\ UNCHANGED <<bufv, conn, recon, wb, rh, hndv, clsv, statv, ghov>>
    /\ Keep0
TrPopErr ==               \* left = what f returned (unwritten buffers - 1), ri = b.ri afterwards
    /\ IsEvent("PopErr")
    /\ WriteErrEff(E.s, (Len(r[E.s]) - ri[E.s]) - E.left - 1, E.ri)
    /\ UNCHANGED errs
    /\ ovd' = ovd \ {E.s} /\ UNCHANGED lateok
    /\ Keep0

TrConnected ==
    /\ IsEvent("Connected")
    /\ E.c = Len(up) + 1
    /\ DialOKEff(E.s)
    /\ Keep
TrReconClose ==
    /\ IsEvent("ReconClose")
    /\ conn' = [conn EXCEPT ![E.s] = 0]
    /\ recon' = [recon EXCEPT ![E.s] = FALSE]
    /\ UNCHANGED <<bufv, wb, rh, hndv, clsv, statv, ghov>>
    /\ Keep

(* reportWouldBlockIfAny: Report precedes the write, ReportErr follows a failed one.  The
   amount of a failed report stays owed (ReportRetry semantics: "every drop is reported") *)
TrReport ==
    /\ IsEvent("Report") /\ E.amt > 0
    /\ ReportEff(E.s, E.amt, TRUE, TRUE)
    /\ UNCHANGED errs
    /\ Keep
TrReportErr ==
    /\ IsEvent("ReportErr") /\ conn[E.s] # 0
    /\ Len(up[conn[E.s]]) > 0 /\ up[conn[E.s]][Len(up[conn[E.s]])] = <<"r", E.amt>>
    /\ up' = [up EXCEPT ![conn[E.s]] = SubSeq(@, 1, Len(@) - 1)]
    /\ wb' = [wb EXCEPT ![E.s] = @ + E.amt]
    /\ reported' = reported - E.amt
    /\ werrs' = werrs + 1
    /\ UNCHANGED <<bufv, conn, recon, rh, hndv, clsv, fwd, drp, rerrs, acc, done, upOf, stc, skipped,
                   drops, dropBytes, closedRej, repLost, errs, spur>>
    /\ Keep

TrClose ==
    /\ IsEvent("Close")
    /\ shut' = TRUE
    /\ UNCHANGED <<bufv, conn, recon, wb, rh, hndv, closing, stopReq, statv, ghov>>
    /\ Keep

ToSet(s) == {s[i] : i \in 1..Len(s)}
TrQuiesce ==
    /\ IsEvent("Quiesce")
    /\ q' = ToSet(E.healthy)
    /\ chk' = <<>>
    /\ UNCHANGED <<vars, endv, scn, ovd, lateok>>
TrEnd ==
    /\ IsEvent("End")
    /\ endv' = E
    /\ (skipped # {} => PrintT(<<"KNOWN_SKIP", scn, Cardinality(skipped)>>))
    /\ q' = {} /\ chk' = <<>>
    /\ UNCHANGED <<vars, scn, ovd, lateok>>

TrNext == \/ TrReset \/ TrPush \/ TrCallEnd \/ TrSwapSleep \/ TrSwapWake \/ TrSwapTimeout \/ TrSwapDone
          \/ TrPopWrite \/ TrPopOK \/ TrPopErr \/ TrConnected \/ TrReconClose \/ TrReport \/ TrReportErr
          \/ TrClose \/ TrQuiesce \/ TrEnd \/ TrOverdue
TraceSpec == TrInit /\ [][TrNext]_tvars

-------------------------------------------------------------------------------
(* property-level invariants evaluated on the real execution *)

(* no packet is written twice or out of order, and one write error skips at most one packet *)
TrInOrder == InOrderModuloSkip /\ SkipBound
(* nothing accepted vanishes inside a buffer; capacities respected *)
TrAccounting == BufferAccounting
(* a drop needs two distinct buffers that were both full when tried *)
TrDropOnlyWhenFull == DropOnlyWhenFull
(* every call is counted once: forwarded or dropped *)
TrCounted == chk # <<>> => (chk.fwd = fwd /\ chk.drp = drp /\ DropsCounted)
TrReports == ReportsConserved /\ repLost = 0
(* bounded delay: when the driver has waited out the ceiling with a healthy upstream, nothing
   accepted is still unsent and every drop has been reported *)
Prompt == \A s \in q : /\ Len(w[s]) = 0 /\ ri[s] >= Len(r[s])
                       /\ s = 1 => wb[1] = 0
(* what the upstream listeners received: per connection exactly the frames written to it
   (a prefix if the listener reset the connection), handshake first, nothing unparsable *)
EndStreams ==
    endv # <<>> =>
      /\ Len(endv.recv) = Len(up)
      /\ endv.bad = 0
      /\ \A c \in 1..Len(up) :
            /\ IF endv.reset[c] THEN IsPrefix(endv.recv[c], up[c]) ELSE endv.recv[c] = up[c]
            /\ endv.hs[c] \/ (endv.reset[c] /\ endv.recv[c] = <<>>)
EndCounts ==
    endv # <<>> => /\ endv.fwd = fwd /\ endv.drp = drp
                   /\ hpc = "idle"

HighWater == TLCSet(7, IF l > TLCGet(7) THEN l ELSE TLCGet(7))
TraceAccepted == IF TLCGet(7) = Len(Trace) + 1 THEN TRUE
                 ELSE PrintT(<<"TRACE_REJECTED_AT_LINE", TLCGet(7)>>) /\ FALSE
(* a write attempted after its deadline (WriteTimeout) has passed fails and the sender reconnects *)
DeadlineHonoured == ~lateok
TraceView == <<View, l, q, chk, endv, scn, ovd, lateok>>
===============================================================================
