---------------------------- MODULE SeriesCacheAbs ----------------------------
(* API series cache (internal/api/tscache2*.go), property C23 - LAYER 1: the property itself,
   stated over the externally observable, totally ordered events of an execution.  Nothing of
   the cache's mechanism appears here: the module only remembers what happened at the cache's
   boundary and says which results are allowed.

   Observable operations (each is an interval Begin..End in one global order):
     Get(g, key, play, slots)   a request for the slots `slots` (a sequence of slot ids) of query
                                `key`; End carries ok and, per slot, the rows returned.  A row is
                                <<key, slot, load, x>>: the storage stub writes into every row the
                                query it was produced for, the slot (time) it belongs to, the id
                                of the load (one call of the loader) that produced it and its
                                index x among the rows of that slot.
     Load(l, key, slots)        one call of the loader function, seen from inside the storage
                                stub.  LoadEnd is the instant the stub reads the storage
                                (immediately before it returns); cnt[i] = number of rows the
                                storage produced for slots[i].
     Inv(i, S)                  one call of invalidate covering the slots S.
     Quiesce(P)                 everything the environment can do has been done (all loads
                                returned); P = requests that still have not returned.
     Emptied(sz)                the cache has been emptied (reset / shutdown at quiescence); sz =
                                its own accounting figures.

   The property (properties.jsonl C23):
     Placement   every successful non-play request returns for slot i rows of ITS query and of
                 slot i only,
     Produced    ... exactly the rows the storage produced for that slot in ONE successful load
                 of that query covering the slot,
     Freshness   ... never rows of a load L for which an invalidation I of that slot exists with
                         L finished  <  I began   and   I completed  <  the request began
                 (three operations that do not overlap in real time, in this order: L cannot
                 contain what the invalidation announces, and the request started when the
                 announcement had been processed.  Operations that overlap may take effect in
                 either order, as for any linearizable object - in particular a load that began
                 after the invalidation began is never called stale),
     Termination no request waits forever: at Quiesce nothing is pending,
     AccountingZero the accounting is zero once the cache is emptied.                        *)
EXTENDS Integers, Sequences, FiniteSets, TLC, Json

VARIABLES aLoads,  \* load id -> [k, slots (sequence), st \in {"run","ok","err"}, cnt (sequence)]
          aFin,    \* loads that finished successfully so far
          aInv,    \* invalidation id -> [slots (set), pre = aFin when it began]   (in progress)
          aDead,   \* slot -> loads that finished before an invalidation of the slot began which
                   \*         has completed by now
          aGets,   \* request id -> [k, play, slots, forb = aDead restricted to its slots when it began]
          aRet,    \* the last request that returned (observation checked by the invariants)
          aQui,    \* requests pending at the last Quiesce
          aEmp     \* accounting figures at the last Emptied

avars == <<aLoads, aFin, aInv, aDead, aGets, aRet, aQui, aEmp>>

AUpd(m, k, v) == [x \in DOMAIN m \cup {k} |-> IF x = k THEN v ELSE m[x]]
ADel(m, ks)   == [x \in DOMAIN m \ ks |-> m[x]]
SeqSet(s)     == {s[i] : i \in DOMAIN s}
DeadOf(s)     == IF s \in DOMAIN aDead THEN aDead[s] ELSE {}

NoRet == [g |-> 0, k |-> "", play |-> 0, ok |-> FALSE, slots |-> <<>>, rows |-> <<>>, forb |-> <<>>,
          placement |-> TRUE, produced |-> TRUE, fresh |-> TRUE]
NoEmp == [size |-> 0, chunks |-> 0, len |-> 0, buckets |-> 0]

AInit == /\ aLoads = <<>> /\ aFin = {} /\ aInv = <<>> /\ aDead = <<>> /\ aGets = <<>>
         /\ aRet = NoRet /\ aQui = {} /\ aEmp = NoEmp

-------------------------------------------------------------------------------
ALoadBegin(l, k, slots) ==
    /\ l \notin DOMAIN aLoads
    /\ aLoads' = AUpd(aLoads, l, [k |-> k, slots |-> slots, st |-> "run", cnt |-> <<>>])
    /\ UNCHANGED <<aFin, aInv, aDead, aGets, aRet, aQui, aEmp>>

ALoadEnd(l, ok, cnt) ==
    /\ l \in DOMAIN aLoads /\ aLoads[l].st = "run"
    /\ ok => Len(cnt) = Len(aLoads[l].slots)
    /\ aLoads' = [aLoads EXCEPT ![l].st = IF ok THEN "ok" ELSE "err", ![l].cnt = cnt]
    /\ aFin' = IF ok THEN aFin \cup {l} ELSE aFin
    /\ UNCHANGED <<aInv, aDead, aGets, aRet, aQui, aEmp>>

AInvBegin(i, S) ==
    /\ i \notin DOMAIN aInv
    /\ aInv' = AUpd(aInv, i, [slots |-> S, pre |-> aFin])
    /\ UNCHANGED <<aLoads, aFin, aDead, aGets, aRet, aQui, aEmp>>

AInvEnd(i) ==
    /\ i \in DOMAIN aInv
    /\ aDead' = [s \in DOMAIN aDead \cup aInv[i].slots |->
                    DeadOf(s) \cup (IF s \in aInv[i].slots THEN aInv[i].pre ELSE {})]
    /\ aInv' = ADel(aInv, {i})
    /\ UNCHANGED <<aLoads, aFin, aGets, aRet, aQui, aEmp>>

AGetBegin(g, k, play, slots) ==
    /\ g \notin DOMAIN aGets
    /\ aGets' = AUpd(aGets, g, [k |-> k, play |-> play, slots |-> slots,
                                forb |-> [s \in SeqSet(slots) |-> DeadOf(s)]])
    /\ UNCHANGED <<aLoads, aFin, aInv, aDead, aRet, aQui, aEmp>>

(* ---- the property, evaluated for the request that returns (R = the observation) ---- *)
Checked(R) == R.ok /\ R.play = 0                 \* only successful non-play requests are constrained
(* position of slot s in the sequence of slots load l asked for (0 = not covered) *)
PosIn(l, s) == IF \E p \in DOMAIN aLoads[l].slots : aLoads[l].slots[p] = s
               THEN CHOOSE p \in DOMAIN aLoads[l].slots : aLoads[l].slots[p] = s ELSE 0
GoodLoad(R, l, s) == /\ l \in DOMAIN aLoads /\ aLoads[l].st = "ok"
                     /\ aLoads[l].k = R.k /\ PosIn(l, s) # 0

PlacementOf(R) ==
    Checked(R) => /\ Len(R.rows) = Len(R.slots)
                  /\ \A i \in 1..Len(R.slots) : \A j \in DOMAIN R.rows[i] :
                         R.rows[i][j][1] = R.k /\ R.rows[i][j][2] = R.slots[i]

ProducedOf(R) ==
    (Checked(R) /\ Len(R.rows) = Len(R.slots)) =>
        \A i \in 1..Len(R.slots) :
            LET rs == R.rows[i]
                s  == R.slots[i]
            IN IF Len(rs) = 0
               THEN \E l \in DOMAIN aLoads : GoodLoad(R, l, s) /\ aLoads[l].cnt[PosIn(l, s)] = 0
                                              /\ l \notin R.forb[s]
               ELSE LET l == rs[1][3]
                    IN /\ \A j \in DOMAIN rs : rs[j][3] = l
                       /\ GoodLoad(R, l, s)
                       /\ Len(rs) = aLoads[l].cnt[PosIn(l, s)]
                       /\ {rs[j][4] : j \in DOMAIN rs} = 0..(Len(rs) - 1)

FreshOf(R) ==
    (Checked(R) /\ Len(R.rows) = Len(R.slots)) =>
        \A i \in 1..Len(R.slots) : \A j \in DOMAIN R.rows[i] : R.rows[i][j][3] \notin R.forb[R.slots[i]]

AGetEnd(g, ok, rows) ==
    /\ g \in DOMAIN aGets
    /\ LET R == [g |-> g, k |-> aGets[g].k, play |-> aGets[g].play, ok |-> ok,
                 slots |-> aGets[g].slots, rows |-> rows, forb |-> aGets[g].forb]
       IN aRet' = [g |-> g, k |-> R.k, play |-> R.play, ok |-> ok, slots |-> R.slots, rows |-> rows, forb |-> R.forb,
                   placement |-> PlacementOf(R), produced |-> ProducedOf(R), fresh |-> FreshOf(R)]
    /\ aGets' = ADel(aGets, {g})
    /\ UNCHANGED <<aLoads, aFin, aInv, aDead, aQui, aEmp>>

AQuiesce ==
    /\ aQui' = DOMAIN aGets
    /\ UNCHANGED <<aLoads, aFin, aInv, aDead, aGets, aRet, aEmp>>

AEmptied(e) ==
    /\ aEmp' = e
    /\ UNCHANGED <<aLoads, aFin, aInv, aDead, aGets, aRet, aQui>>

-------------------------------------------------------------------------------
(* The property: the verdicts computed when the last request returned *)
Placement == aRet.placement
Produced  == aRet.produced
Freshness == aRet.fresh

Termination == aQui = {}

AccountingZero == aEmp.size = 0 /\ aEmp.chunks = 0 /\ aEmp.len = 0 /\ aEmp.buckets = 0
===============================================================================
