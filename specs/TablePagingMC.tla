---------------------------- MODULE TablePagingMC ----------------------------
EXTENDS TablePaging
MCKeys22 == {<<t, g>> : t \in 1..2, g \in 1..2}
MCKeys23 == {<<t, g>> : t \in 1..2, g \in 1..3}
MCWidth2 == <<7, 2>>
MCWidth1 == <<2>>
MCMarkers22 == MCKeys22
MCMarkers23 == {<<1, 3>>, <<2, 2>>}
===============================================================================
