INIT Init
NEXT Next
CONSTANTS
  MAXSIZE = 2
  MaxSkip = 4
  Hashes = {}
  NSk = 3
  MaxIns = 0
  MaxMrg = 3
  FixMerge = TRUE
  FixMergeRead = TRUE
ACTION_CONSTRAINT Export
CHECK_DEADLOCK FALSE
