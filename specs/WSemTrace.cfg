SPECIFICATION TraceSpec
CONSTANTS
  Acqs = {}
  W <- TrW
  InitSizes = {}
  Sizes = {}
  MaxSet = 0
  Forces = {}
  MaxForce = 0
  MaxOps = 0
  Bug = "none"
  KeepHist = FALSE
VIEW TraceView
CONSTRAINT HighWater
INVARIANTS TypeOK AdmitWithinSize FIFO NoLeak NoLostWakeup OutcomeOK SnapshotAgrees
POSTCONDITION TraceAccepted
CHECK_DEADLOCK FALSE
