-------------------------------- MODULE Conveyor --------------------------------
(* Agent -> aggregator -> storage conveyor (property C01).

   Code: internal/agent/agent_shard_send.go (sendToSenders, goSendRecent/sendRecent,
   goSendHistoric/sendHistoric, goEraseHistoric, appendHistoricBucketsToSend,
   popOldestHistoricSecondLocked, checkOutOfWindow, diskCachePut/Erase),
   internal/aggregator/aggregator_handlers.go (handleSendSourceBucket),
   internal/aggregator/aggregator.go (goTicker, goInsert, popOldestHistoricBucket).

   One agent shard, aggregator *instances* (a restarted replica is a new instance), one
   storage.  The unit of data is a "second" (one agent bucket).  The module has two layers:

   * Core actions, one per linearization point of the code, parameterised by what the code
     decided (which bucket a request was filed into, whether an insert succeeded, ...).  Their
     guards are exactly what the property demands of that step.  ConveyorTrace.tla drives them
     from hook events recorded on the real code.
   * Design actions (section DESIGN) that compute those decisions the way the code does
     (window arithmetic, replica choice, batch composition) plus an environment of faults.
     TLC explores all their interleavings and checks the invariants and liveness.           *)
EXTENDS Integers, Sequences, FiniteSets, TLC

CONSTANTS Secs,       \* seconds (bucket times) under study
          Insts,      \* aggregator instances
          RepOf,      \* instance -> replica key 1..3
          SW, FW, HW, \* short window, future window, historic window (seconds)
          MaxT,       \* clock horizon (design layer)
          MaxFaults,  \* fault budget (design layer)
          NIns        \* inserters per instance = capacity of the insert conveyor (design layer)

VARIABLES
  now,      \* clock (design layer; the trace layer never reads it)
  ag,       \* sec -> where the agent's in-memory copy is: "none" (not produced) | "recent" (a recent
            \*        sender owns it) | "moving" (being moved to the historic conveyor) | "histq" |
            \*        "popped" (a historic sender / the eraser owns it) | "gone"
  disk,     \* set of secs saved in the agent's disk cache
  rpc,      \* sec -> "idle" or [rep, hist, spare]: the agent's RPC in flight for that second
  sentTo,   \* sec -> set of replica keys a request for that second was ever sent to
  marked,   \* sec -> ids of the marker rows its bucket carries (how its rows are recognised in insert bodies)
  acked,    \* secs for which the agent received discard = true
  forgot,   \* sec -> reason the agent dropped its last copy
  up,       \* inst -> BOOLEAN
  rows,     \* inst -> [<<queue, bucket>> -> set of secs merged into that bucket]
  polls,    \* inst -> [<<queue, bucket>> -> set of secs whose long poll waits there]
  conv,     \* inst -> set of <<queue, bucket>> recent buckets handed to inserters, not yet taken
  batch,    \* inst -> [inserter id -> its current batch: [b, rows, polls, st, body]]
  storedBy, \* inst -> ids of the marker rows that were in successful inserts of that instance
  replied,  \* set of [sec, inst, discard, why] replies the aggregators issued, not yet seen by agent
  rejected, \* sec -> set of reasons it was deliberately rejected with discard
  faults

vars == <<now, ag, disk, rpc, sentTo, marked, acked, forgot, up, rows, polls, conv, batch, storedBy, replied, rejected, faults>>

Idle == [rep |-> 0, hist |-> FALSE, spare |-> FALSE]
Upd(f, k, v) == [x \in DOMAIN f \cup {k} |-> IF x = k THEN v ELSE f[x]]
Get(f, k) == IF k \in DOMAIN f THEN f[k] ELSE {}
StoredIds == UNION {storedBy[i] : i \in Insts}
\* a second counts as stored when all its marker rows were in successful inserts (a second
\* without marker rows is unconstrained)
Stored == {s \in Secs : marked[s] \subseteq StoredIds}
RowIds(S) == UNION {marked[s] : s \in S}

(* the agent forgets for good only for these reasons; the first two need an acknowledgement *)
AckReasons == {"ack-recent", "ack-historic"}
DropReasons == {"out-of-window", "memory-overflow", "disk-limit"}
(* reasons an aggregator may answer discard without having inserted the second *)
RejectReasons == {"future", "beyond-window", "wrong-shard", "undecodable", "stale"}

Init == /\ now = 0
        /\ ag = [s \in Secs |-> "none"]
        /\ disk = {}
        /\ rpc = [s \in Secs |-> Idle]
        /\ sentTo = [s \in Secs |-> {}]
        /\ marked = [s \in Secs |-> {}]
        /\ acked = {}
        /\ forgot = <<>>
        /\ up = [i \in Insts |-> TRUE]
        /\ rows = [i \in Insts |-> <<>>]
        /\ polls = [i \in Insts |-> <<>>]
        /\ conv = [i \in Insts |-> {}]
        /\ batch = [i \in Insts |-> <<>>]
        /\ storedBy = [i \in Insts |-> {}]
        /\ replied = {}
        /\ rejected = <<>>
        /\ faults = 0

--------------------------------------------------------------------------------
(* CORE: agent *)

\* sendToSenders: the preprocessor hands a finished second to a recent sender (chan) or, if
\* every sender is busy, straight to the historic conveyor (save + append).
ToSendersCore(s, path) ==
    /\ ag[s] = "none"
    /\ ag' = [ag EXCEPT ![s] = IF path = "chan" THEN "recent" ELSE "moving"]
    /\ UNCHANGED <<now, disk, rpc, sentTo, marked, acked, forgot, up, rows, polls, conv, batch, storedBy, replied, rejected, faults>>

\* preProcess: the second's bucket is complete and carries the marker rows `ids` (hook APrep)
MarkCore(s, ids) ==
    /\ ag[s] = "none"
    /\ marked' = [marked EXCEPT ![s] = ids]
    /\ UNCHANGED <<now, ag, disk, rpc, sentTo, acked, forgot, up, rows, polls, conv, batch, storedBy, replied, rejected, faults>>

\* diskCachePutWithLog succeeded
PutCore(s) ==
    /\ ag[s] \in {"recent", "moving"}
    /\ disk' = disk \cup {s}
    /\ UNCHANGED <<now, ag, rpc, sentTo, marked, acked, forgot, up, rows, polls, conv, batch, storedBy, replied, rejected, faults>>

\* sendRecent / sendHistoric: request written to the connection
SendStartCore(s, r, hist, spare) ==
    /\ ag[s] = IF hist THEN "popped" ELSE "recent"
    /\ rpc[s] = Idle
    /\ rpc' = [rpc EXCEPT ![s] = [rep |-> r, hist |-> hist, spare |-> spare]]
    /\ sentTo' = [sentTo EXCEPT ![s] = @ \cup {r}]
    /\ UNCHANGED <<now, ag, disk, marked, acked, forgot, up, rows, polls, conv, batch, storedBy, replied, rejected, faults>>

\* the RPC returned to the agent.  discard = TRUE only if the aggregator it was sent to issued
\* a discard reply for that second (or deliberately rejected it with discard).
SendResCore(s, err, discard) ==
    /\ rpc[s] # Idle
    /\ err => ~discard
    /\ discard => \E m \in replied : m.sec = s /\ RepOf[m.inst] = rpc[s].rep /\ m.discard
    /\ acked' = IF discard THEN acked \cup {s} ELSE acked
    /\ rpc' = [rpc EXCEPT ![s] = Idle]
    /\ UNCHANGED <<now, ag, disk, sentTo, marked, forgot, up, rows, polls, conv, batch, storedBy, replied, rejected, faults>>

\* recent send skipped (too late to bother / no live replica): the second moves on to historic
SendSkipCore(s) ==
    /\ ag[s] = "recent" /\ rpc[s] = Idle
    /\ UNCHANGED vars

\* The agent drops its copies of s (erases it from disk / lets the memory copy go).
\* THE PROPERTY, agent half: with an "ack" reason only after an acknowledgement.
ForgetCore(s, why) ==
    /\ ag[s] \in {"recent", "popped", "moving"}
    /\ rpc[s] = Idle
    /\ why \in AckReasons \cup DropReasons
    /\ why \in AckReasons => s \in acked
    /\ why = "memory-overflow" => s \notin disk
    /\ ag' = [ag EXCEPT ![s] = "gone"]
    /\ disk' = disk \ {s}
    /\ forgot' = Upd(forgot, s, why)
    /\ UNCHANGED <<now, rpc, sentTo, marked, acked, up, rows, polls, conv, batch, storedBy, replied, rejected, faults>>

\* appendHistoricBucketsToSend (under the shard mutex).  A copy without data must be on disk.
HistAppendCore(s, hasData) ==
    /\ ag[s] \in {"recent", "moving", "popped"}
    /\ rpc[s] = Idle
    /\ ~hasData => s \in disk
    /\ ag' = [ag EXCEPT ![s] = "histq"]
    /\ UNCHANGED <<now, disk, rpc, sentTo, marked, acked, forgot, up, rows, polls, conv, batch, storedBy, replied, rejected, faults>>

\* Graceful agent restart (the shutdown sequence of cmd/statshouse, process exit, a new agent on the
\* same cache directory).  Memory is gone; what was saved is still on disk.  THE PROPERTY: a graceful
\* restart forgets nothing - every second the old instance still held must be on disk.
AgentRestartCore ==
    /\ \A s \in Secs : ag[s] \in {"recent", "moving", "histq", "popped"} => s \in disk
    /\ ag' = [s \in Secs |-> IF ag[s] \in {"recent", "moving", "histq", "popped", "ondisk"} THEN "ondisk" ELSE ag[s]]
    /\ rpc' = [s \in Secs |-> Idle]
    /\ UNCHANGED <<now, disk, sentTo, marked, acked, forgot, up, rows, polls, conv, batch, storedBy, replied, rejected, faults>>

\* readHistoricSecondLocked: the new instance learns about a saved second from the disk cache
ReadCore(s) ==
    /\ ag[s] = "ondisk" /\ s \in disk
    /\ ag' = [ag EXCEPT ![s] = "histq"]
    /\ UNCHANGED <<now, disk, rpc, sentTo, marked, acked, forgot, up, rows, polls, conv, batch, storedBy, replied, rejected, faults>>

\* popOldestHistoricSecondLocked
PopCore(s) ==
    /\ ag[s] = "histq"
    /\ ag' = [ag EXCEPT ![s] = "popped"]
    /\ UNCHANGED <<now, disk, rpc, sentTo, marked, acked, forgot, up, rows, polls, conv, batch, storedBy, replied, rejected, faults>>

--------------------------------------------------------------------------------
(* CORE: aggregator instance i *)

\* handleSendSourceBucket under a.mu: the request for second s is filed into bucket <<q, T>>.
\* From here on the rows of s are part of that bucket.
FileCore(i, s, q, T) ==
    /\ RepOf[i] \in sentTo[s]
    /\ rows' = [rows EXCEPT ![i] = Upd(@, <<q, T>>, Get(@, <<q, T>>) \cup {s})]
    /\ UNCHANGED <<now, ag, disk, rpc, sentTo, marked, acked, forgot, up, polls, conv, batch, storedBy, replied, rejected, faults>>

\* long poll registered in the bucket (contributors3)
RegCore(i, s, q, T) ==
    /\ s \in Get(rows[i], <<q, T>>)
    /\ polls' = [polls EXCEPT ![i] = Upd(@, <<q, T>>, Get(@, <<q, T>>) \cup {s})]
    /\ UNCHANGED <<now, ag, disk, rpc, sentTo, marked, acked, forgot, up, rows, conv, batch, storedBy, replied, rejected, faults>>

\* deliberate rejection (immediate reply).  discard only for the reasons the property lists.
RejectCore(i, s, why, discard) ==
    /\ RepOf[i] \in sentTo[s]
    /\ discard => why \in RejectReasons
    /\ why = "late" => ~discard
    /\ replied' = replied \cup {[sec |-> s, inst |-> i, discard |-> discard, why |-> why]}
    /\ rejected' = IF discard THEN Upd(rejected, s, Get(rejected, s) \cup {why}) ELSE rejected
    /\ UNCHANGED <<now, ag, disk, rpc, sentTo, marked, acked, forgot, up, rows, polls, conv, batch, storedBy, faults>>

\* goTicker: a recent bucket leaves the window and is handed to the inserters
TickHandoffCore(i, T) ==
    /\ conv' = [conv EXCEPT ![i] = @ \cup {<<"recent", T>>}]
    /\ UNCHANGED <<now, ag, disk, rpc, sentTo, marked, acked, forgot, up, rows, polls, batch, storedBy, replied, rejected, faults>>

\* goTicker, conveyor full: the bucket is dropped (its rows are never inserted); every waiting
\* long poll is then answered "keep" (ReplyCore with kind "conveyor-full")
TickFullCore(i, T) ==
    /\ rows' = [rows EXCEPT ![i] = Upd(@, <<"recent", T>>, {})]
    /\ UNCHANGED <<now, ag, disk, rpc, sentTo, marked, acked, forgot, up, polls, conv, batch, storedBy, replied, rejected, faults>>

\* goInsert: batch composed = one recent bucket from the conveyor + historic buckets popped now.
\* The buckets are owned by the inserter from here (later requests for the same key open a new bucket).
InsertBeginCore(i, id, B) ==
    /\ \A b \in B : b[1] = "recent" => b \in conv[i]
    /\ id \in DOMAIN batch[i] => batch[i][id].st \in {"ok", "failed"}   \* the inserter finished its previous batch
    /\ batch' = [batch EXCEPT ![i] = Upd(@, id, [b |-> B,
                     rows |-> UNION {Get(rows[i], b) : b \in B},
                     polls |-> UNION {Get(polls[i], b) : b \in B}, st |-> "sending", body |-> {}])]
    /\ conv' = [conv EXCEPT ![i] = @ \ B]
    /\ rows' = [rows EXCEPT ![i] = [b \in DOMAIN @ \ B |-> @[b]]]
    /\ polls' = [polls EXCEPT ![i] = [b \in DOMAIN @ \ B |-> @[b]]]
    /\ UNCHANGED <<now, ag, disk, rpc, sentTo, marked, acked, forgot, up, storedBy, replied, rejected, faults>>

\* storage accepted a body of instance i that contained the rows of seconds S.
\* THE PROPERTY, end-to-end half: the body must contain every second merged into the batch.
StoredCore(i, id, S) ==
    /\ id \in DOMAIN batch[i] /\ batch[i][id].st = "sending"
    /\ RowIds(batch[i][id].rows) \subseteq S
    /\ batch' = [batch EXCEPT ![i][id].st = "stored", ![i][id].body = S]
    /\ storedBy' = [storedBy EXCEPT ![i] = @ \cup S]
    /\ UNCHANGED <<now, ag, disk, rpc, sentTo, marked, acked, forgot, up, rows, polls, conv, replied, rejected, faults>>

\* goInsert after sendToClickhouse returned.  ok only if storage accepted the body.
InsertEndCore(i, id, ok) ==
    /\ id \in DOMAIN batch[i] /\ batch[i][id].st \in {"sending", "stored"}
    /\ ok <=> batch[i][id].st = "stored"
    /\ batch' = [batch EXCEPT ![i][id].st = IF ok THEN "ok" ELSE "failed"]
    /\ UNCHANGED <<now, ag, disk, rpc, sentTo, marked, acked, forgot, up, rows, polls, conv, storedBy, replied, rejected, faults>>

\* a long poll is answered.  THE PROPERTY, aggregator half: discard only after an insert
\* containing the second's rows succeeded, or as a deliberate (stale) rejection.
ReplyCore(i, s, discard, kind) ==
    /\ kind = "insert" =>
          \E id \in DOMAIN batch[i] : LET x == batch[i][id] IN
                              /\ s \in x.polls
                              /\ x.st \in {"ok", "failed"}
                              /\ discard <=> (x.st = "ok")
                              /\ discard => marked[s] \subseteq x.body
    /\ kind = "stale" => discard
    /\ kind = "conveyor-full" => ~discard
    /\ kind \in {"insert", "stale", "conveyor-full"}
    /\ replied' = replied \cup {[sec |-> s, inst |-> i, discard |-> discard, why |-> kind]}
    /\ rejected' = IF kind = "stale" THEN Upd(rejected, s, Get(rejected, s) \cup {"stale"}) ELSE rejected
    /\ UNCHANGED <<now, ag, disk, rpc, sentTo, marked, acked, forgot, up, rows, polls, conv, batch, storedBy, faults>>

--------------------------------------------------------------------------------
(* The aggregator's filing rule (handleSendSourceBucket), shared by the design layer and by the
   trace spec, which checks every logged decision against it. *)
RoundUp(t, r) == CHOOSE T \in t..(t + 2) : T % 3 = r - 1
\* result: [kind |-> "file", q, T] or [kind |-> "reject", why, discard]
Filing(r, s, hist, oldest, newest, hw) ==
    LET T == RoundUp(s, r) IN
    IF T > newest THEN [kind |-> "reject", why |-> "future", discard |-> TRUE]
    ELSE IF hist /\ oldest >= hw /\ T < oldest - hw THEN [kind |-> "reject", why |-> "beyond-window", discard |-> TRUE]
    ELSE IF T < oldest THEN (IF hist THEN [kind |-> "file", q |-> "historic", T |-> s]
                                    ELSE [kind |-> "reject", why |-> "late", discard |-> FALSE])
    ELSE [kind |-> "file", q |-> "recent", T |-> T]

--------------------------------------------------------------------------------
(* PROPERTIES (state invariants over the core state) *)

TypeOK == /\ \A s \in Secs : ag[s] \in {"none", "recent", "moving", "histq", "popped", "ondisk", "gone"}
          /\ disk \subseteq Secs /\ acked \subseteq Secs

\* an agent forgets a buffered second with an ack reason only after an aggregator acknowledged it
ForgetOnlyAfterAck == \A s \in DOMAIN forgot : forgot[s] \in AckReasons => s \in acked

\* an aggregator acknowledges only after a successful insert containing the rows, or a deliberate rejection
AckOnlyAfterInsertOrReject == \A s \in acked : s \in Stored \/ s \in DOMAIN rejected

\* until forgotten, a produced second is held somewhere by the agent (memory or disk)
Held == \A s \in Secs : ag[s] = "ondisk" => s \in disk

\* nothing that was forgotten with an ack reason is missing from storage unless deliberately rejected
NoSilentLoss == \A s \in DOMAIN forgot : forgot[s] \in AckReasons => (s \in Stored \/ s \in DOMAIN rejected)

\* final condition used by the trace spec at quiescence: every produced second was inserted,
\* deliberately dropped by the agent for a listed reason, or deliberately rejected
Settled(s) == \/ ag[s] = "none"
              \/ s \in Stored
              \/ (s \in DOMAIN forgot /\ forgot[s] \in DropReasons)
              \/ s \in DOMAIN rejected
================================================================================
