SPECIFICATION Spec
CONSTANTS
  BufLen = 1
  WaitPct = 50
  MaxPkts = 5
  MaxErrs = 0
  MaxSpur = 0
  PktLens <- Len1
  TimeoutSignals = TRUE
  SkipOnErr = TRUE
  ReportRetry = TRUE
  ReportClaim = "swap"
  DeadlineArmed = TRUE
  AllowClose = FALSE
  AllowRecon = FALSE
  RecordHist = FALSE
  MaxHist = 0
VIEW View
INVARIANTS InOrderModuloSkip SkipBound BufferAccounting DropOnlyWhenFull DropsCounted ReportsConserved NoReportLost NoStuck TimerSane ConnSane
CHECK_DEADLOCK FALSE
