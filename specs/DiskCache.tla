------------------------------ MODULE DiskCache ------------------------------
(* Agent disk cache of unsent seconds (internal/agent/disk_cache.go), property C09.

   Two layers:
   * the mechanism transcribed: per shard the files on disk (sequence of records
     [magic | time | body_len | crc32] body, possibly followed by the torn prefix of a
     record), and the in-memory state of diskCacheShard (knownBuckets with byte positions,
     readingFileTail/nextPos, waitingFilesTail, writingFile, reference counts, the four size
     counters).  Each public operation is a pure operator  state -> state  written in the
     order of the code's statements (PutOp = PutBucket+writeSecond, GetOp, EraseOp,
     RNT = ReadNextTailSecond, ReopenOp = Close + MakeDiskBucketStorage, Unref =
     unrefFileWithRemove); byte arithmetic (headerSize + chunkSize) is kept.
   * the property on ghost state that does not look at the mechanism: `live` (seconds put and
     not erased, in write order), `opt` (seconds whose erase write was torn in the middle:
     they may or may not come back), `owner`/`valid` (which second an id stands for),
     `pending` (what the current session still has to hand out from older files).

   Fault model (property text): a restart at any point; a crash that tears the LAST write at
   any byte.  A put writes header then body at the end of the writing file (k of
   headerSize+len bytes arrive); an erase overwrites the 4 magic bytes (k of 4 arrive; good and
   deleted magic share their first MagicCommon = 2 bytes, so k <= 2 changes nothing, k = 3
   leaves a magic that is neither: 0x590007EC).  The cache never fsyncs: the kernel's view is the file.
   Additionally (statement "never returns ... corrupted data") a body byte may be flipped
   (Corrupt); the second then has to fail its CRC and is treated as lost.

   HalfIsDeleted = TRUE is the repaired reader (a half-overwritten magic is an erase in
   progress => skipped like a deleted record).  With FALSE the specification is the code
   as found: the reader distrusts the rest of the file, and RereadExact / TailOrder fail
   (candidate defect 14 of DESIGN.md section 6); the check runs that configuration once to
   make sure the invariants are alive.                                                    *)
EXTENDS Integers, Sequences, FiniteSets, TLC, Json

CONSTANTS Shards,        \* set of shard numbers
          Secs,          \* timestamps
          Lens,          \* body lengths
          HeaderSize,    \* 20
          MagicLen,      \* 4
          MagicCommon,   \* 2: common prefix of good and deleted magic (0x59b907EC / 0x000007EC, little endian)
          RotateSize,    \* fileRotateSize (50 MiB in the code)
          HalfIsDeleted, \* see above
          TearKs,        \* tear offsets explored by Crash
          WrongSecs,     \* subset of BOOLEAN: may Get ask with a wrong timestamp
          AllowCorrupt,  \* BOOLEAN
          MaxPuts,       \* puts per shard
          MaxRestarts,   \* restarts + crashes
          MaxOps         \* behaviour length

VARIABLES st,       \* [Shards -> mechanism state]
          gh,       \* [Shards -> ghost state]
          lastw,    \* the last write that reached the files (what a crash can tear)
          ret,      \* result of the last API call
          nres,     \* restarts so far
          hist

vars == <<st, gh, lastw, ret, nres, hist>>
(* the behaviour length is part of the view: Next is bounded by Len(hist), so states that differ
   only in depth must not be merged, or the bound would cut some of them short depending on
   the order in which TLC's workers find them *)
View == <<st, gh, lastw, ret, nres, Len(hist)>>

-------------------------------------------------------------------------------
(* helpers *)
Upd(m, key, val) == [x \in DOMAIN m \cup {key} |-> IF x = key THEN val ELSE m[x]]
Del(m, key)      == [x \in DOMAIN m \ {key} |-> m[x]]
Range(s)         == {s[i] : i \in DOMAIN s}
RECURSIVE SeqSum(_)
SeqSum(s) == IF s = <<>> THEN 0 ELSE Head(s) + SeqSum(Tail(s))
RECURSIVE SortSet(_)
SortSet(S) == IF S = {} THEN <<>> ELSE LET m == CHOOSE x \in S : \A y \in S : x <= y IN <<m>> \o SortSet(S \ {m})
Without(s, x) == SelectSeq(s, LAMBDA y : y # x)

NoTorn == [k |-> 0, sec |-> 0, len |-> 0, pid |-> 0]

RecSize(r)  == HeaderSize + r.len
FileSize(f) == SeqSum([i \in DOMAIN f.recs |-> RecSize(f.recs[i])]) + f.torn.k
PosOf(f, i) == SeqSum([j \in 1..(i - 1) |-> RecSize(f.recs[j])])       \* byte offset of record i
EndOfRecs(f) == PosOf(f, Len(f.recs) + 1)
OnDisk(d, fid)  == \E i \in DOMAIN d : d[i].fid = fid
FileIdx(d, fid) == CHOOSE i \in DOMAIN d : d[i].fid = fid
RemoveFile(d, fid) == SelectSeq(d, LAMBDA f : f.fid # fid)
DiskSize(d) == SeqSum([i \in DOMAIN d |-> FileSize(d[i])])

(* what 20 bytes read at byte offset pos of file f look like *)
HeaderAt(f, pos) ==
    IF \E i \in DOMAIN f.recs : PosOf(f, i) = pos
    THEN LET i == CHOOSE j \in DOMAIN f.recs : PosOf(f, j) = pos
         IN [kind |-> "hdr", magic |-> f.recs[i].st, sec |-> f.recs[i].sec, len |-> f.recs[i].len,
             pid |-> f.recs[i].pid, idx |-> i]
    ELSE IF pos = EndOfRecs(f) /\ f.torn.k >= HeaderSize
    THEN [kind |-> "hdr", magic |-> "good", sec |-> f.torn.sec, len |-> f.torn.len, pid |-> f.torn.pid, idx |-> 0]
    ELSE IF pos + HeaderSize > FileSize(f)
    THEN [kind |-> "short", magic |-> "", sec |-> 0, len |-> 0, pid |-> 0, idx |-> 0]   \* io.ReadFull fails
    ELSE [kind |-> "hdr", magic |-> "garbage", sec |-> 0, len |-> 0, pid |-> 0, idx |-> 0]

-------------------------------------------------------------------------------
(* mechanism state of one shard *)
EmptyShard == [disk |-> <<>>,      \* files in name (= creation) order: [fid, recs, torn]
               nfile |-> 0,        \* files created so far (names are creation instants)
               nput |-> 0,         \* puts so far: pid identifies the bytes of a put
               open |-> <<>>,      \* fid -> [refs, size, npos]: diskCacheFile objects
               reading |-> 0,      \* readingFileTail (fid, 0 = nil)
               writing |-> 0,      \* writingFile
               rotateDue |-> FALSE, \* now - writingFileCreatedTs >= fileRotateInterval
               waiting |-> <<>>,   \* waitingFilesTail: [fid, size]
               wsize |-> 0,        \* waitingFilesSize
               total |-> 0,        \* totalFileSize
               known |-> <<>>,     \* knownBuckets: id -> [fid, pos, sec, len, crc]
               ksize |-> 0,        \* knownBucketsSize
               lastId |-> 0]

(* unrefFileWithRemove *)
Unref(S, fid, remove) ==
    LET o == S.open[fid] IN
    IF o.refs - 1 = 0
    THEN [S EXCEPT !.open = Del(@, fid), !.total = @ - o.size,
                   !.disk = IF remove THEN RemoveFile(@, fid) ELSE @]
    ELSE [S EXCEPT !.open[fid].refs = @ - 1]

UnrefReading(S) == [Unref(S, S.reading, TRUE) EXCEPT !.reading = 0]

(* writeSecond + PutBucket *)
PutOp(S, sec, len) ==
    LET S1 == IF S.writing # 0 /\ (S.open[S.writing].size + HeaderSize + len > RotateSize \/ S.rotateDue)
              THEN [Unref(S, S.writing, TRUE) EXCEPT !.writing = 0]
              ELSE S
        S2 == IF S1.writing = 0
              THEN LET fid == S1.nfile + 1
                   IN [S1 EXCEPT !.disk = Append(@, [fid |-> fid, recs |-> <<>>, torn |-> NoTorn]),
                                 !.open = Upd(@, fid, [refs |-> 1, size |-> 0, npos |-> 0]),
                                 !.writing = fid, !.nfile = fid, !.rotateDue = FALSE]
              ELSE S1
        w   == S2.writing
        pos == S2.open[w].size
        pid == S2.nput + 1
        id  == S2.lastId + 1
        rec == [st |-> "good", sec |-> sec, len |-> len, pid |-> pid, bad |-> FALSE]
    IN [S2 EXCEPT !.disk[FileIdx(S2.disk, w)].recs = Append(@, rec),       \* WriteAt(header), WriteAt(body)
                  !.known = Upd(@, id, [fid |-> w, pos |-> pos, sec |-> sec, len |-> len, crc |-> pid]),
                  !.open[w].refs = @ + 1,
                  !.open[w].size = @ + HeaderSize + len,
                  !.total = @ + HeaderSize + len,
                  !.ksize = @ + len + HeaderSize,
                  !.lastId = id,
                  !.nput = pid]

(* eraseBucket *)
EraseOp(S, id) ==
    IF id \notin DOMAIN S.known THEN S
    ELSE LET b  == S.known[id]
             fi == FileIdx(S.disk, b.fid)
             h  == HeaderAt(S.disk[fi], b.pos)
             S1 == IF h.kind = "hdr" /\ h.idx # 0
                   THEN [S EXCEPT !.disk[fi].recs[h.idx].st = "del"]        \* WriteAt(magicDeletedBucket, pos)
                   ELSE S
             S2 == Unref(S1, b.fid, TRUE)
         IN [S2 EXCEPT !.ksize = @ - (b.len + HeaderSize), !.known = Del(@, id)]

(* GetBucket: [S, ok, pid] *)
GetOp(S, id, sec) ==
    IF id \notin DOMAIN S.known THEN [S |-> S, ok |-> FALSE, pid |-> 0]
    ELSE LET b == S.known[id] IN
         IF b.sec # sec THEN [S |-> S, ok |-> FALSE, pid |-> 0]
         ELSE LET f == S.disk[FileIdx(S.disk, b.fid)]
                  h == HeaderAt(f, b.pos)
                  readOk == b.pos + HeaderSize + b.len <= FileSize(f)
                  crcOk  == \/ b.len = 0       \* crc of no bytes
                            \/ /\ h.kind = "hdr" /\ h.idx # 0 /\ h.len = b.len
                               /\ h.pid = b.crc /\ ~f.recs[h.idx].bad
              IN IF readOk /\ crcOk THEN [S |-> S, ok |-> TRUE, pid |-> b.crc]
                 ELSE [S |-> EraseOp(S, id), ok |-> FALSE, pid |-> 0]

(* ReadNextTailSecond: [S, sec, id, pid] *)
RECURSIVE RNT(_)
RNT(S) ==
    IF S.reading = 0
    THEN IF S.waiting = <<>> THEN [S |-> S, sec |-> 0, id |-> 0, pid |-> 0]
         ELSE LET w == Head(S.waiting)
              IN RNT([S EXCEPT !.waiting = Tail(@), !.wsize = @ - w.size, !.reading = w.fid,
                               !.open = Upd(@, w.fid, [refs |-> 1, size |-> w.size, npos |-> 0])])
    ELSE LET o == S.open[S.reading] IN
         IF o.npos >= o.size THEN RNT(UnrefReading(S))
         ELSE LET h == HeaderAt(S.disk[FileIdx(S.disk, S.reading)], o.npos) IN
              IF h.kind = "short" THEN RNT(UnrefReading(S))
              ELSE IF o.npos + HeaderSize + h.len > o.size THEN RNT(UnrefReading(S))   \* wrong chunk size
              ELSE IF h.magic = "del" \/ (HalfIsDeleted /\ h.magic = "half")
                   THEN RNT([S EXCEPT !.open[S.reading].npos = @ + HeaderSize + h.len])
              ELSE IF h.magic # "good" THEN RNT(UnrefReading(S))      \* unknown magic: rest not trusted
              ELSE LET id == S.lastId + 1
                   IN [S |-> [S EXCEPT !.lastId = id,
                                       !.known = Upd(@, id, [fid |-> S.reading, pos |-> o.npos, sec |-> h.sec,
                                                             len |-> h.len, crc |-> h.pid]),
                                       !.ksize = @ + h.len + HeaderSize,
                                       !.open[S.reading].refs = @ + 1,
                                       !.open[S.reading].npos = @ + HeaderSize + h.len],
                       sec |-> h.sec, id |-> id, pid |-> h.pid]

(* Close (forgets everything, removes nothing) followed by makeDiscCacheShard *)
ReopenOp(S) ==
    [EmptyShard EXCEPT !.disk = S.disk, !.nfile = S.nfile, !.nput = S.nput,
                       !.waiting = [i \in DOMAIN S.disk |-> [fid |-> S.disk[i].fid, size |-> FileSize(S.disk[i])]],
                       !.wsize = DiskSize(S.disk), !.total = DiskSize(S.disk)]

(* TotalFileSize *)
Unsent(S) ==
    LET u == S.ksize + S.wsize
             + (IF S.reading # 0 /\ S.open[S.reading].npos < S.open[S.reading].size
                THEN S.open[S.reading].size - S.open[S.reading].npos ELSE 0)
    IN IF u > S.total THEN S.total ELSE u

(* a fresh session draining the shard: pids handed out by ReadNextTail whose Get succeeds *)
RECURSIVE DrainFrom(_)
DrainFrom(S) ==
    LET r == RNT(S) IN
    IF r.id = 0 THEN <<>>
    ELSE LET g == GetOp(r.S, r.id, r.sec)
         IN (IF g.ok THEN <<g.pid>> ELSE <<>>) \o DrainFrom(g.S)
Reread(S) == DrainFrom(ReopenOp(S))

-------------------------------------------------------------------------------
(* ghost state of one shard *)
EmptyGhost == [live |-> <<>>,      \* pids put and not erased, write order
               opt |-> {},         \* pids whose erase was torn mid-magic
               meta |-> <<>>,      \* pid -> [sec, len]
               owner |-> <<>>,     \* id -> pid, ids issued in this session
               valid |-> {},       \* ids issued and not erased
               pending |-> <<>>,   \* pids of older sessions this session has not handed out yet
               lost |-> {}]        \* corrupted pids
GhostReopen(G) == [G EXCEPT !.owner = <<>>, !.valid = {}, !.pending = G.live]

(* the write order of a shard is the order of its pids, so `live` is always sorted: a second
   whose erase did not reach the file goes back to its place *)
Reinsert(L, p) == SortSet(Range(L) \cup {p})

NoWrite == [kind |-> "none", s |-> 0, n |-> 0, pid |-> 0, pre |-> <<>>, f |-> 0, pos |-> 0]
NoRet   == [kind |-> "none"]

Init == /\ st = [s \in Shards |-> EmptyShard]
        /\ gh = [s \in Shards |-> EmptyGhost]
        /\ lastw = NoWrite
        /\ ret = NoRet
        /\ nres = 0
        /\ hist = <<>>

(* projection compared with the real cache after every step *)
ProjFile(f) == [fid |-> f.fid, size |-> FileSize(f),
                recs |-> [i \in DOMAIN f.recs |-> [st |-> f.recs[i].st, pid |-> f.recs[i].pid]]]
Proj(S, G) == [total |-> S.total, unsent |-> Unsent(S), live |-> G.live, opt |-> G.opt, lost |-> G.lost,
               files |-> [i \in DOMAIN S.disk |-> ProjFile(S.disk[i])]]
Post == [s \in Shards |-> Proj(st'[s], gh'[s])]

-------------------------------------------------------------------------------
(* actions *)
PutCore(s, sec, len) ==
    LET S == st[s]  S2 == PutOp(S, sec, len)  pid == S2.nput  id == S2.lastId  G == gh[s] IN
    /\ st' = [st EXCEPT ![s] = S2]
    /\ gh' = [gh EXCEPT ![s] = [G EXCEPT !.live = Append(@, pid), !.meta = Upd(@, pid, [sec |-> sec, len |-> len]),
                                         !.owner = Upd(@, id, pid), !.valid = @ \cup {id}]]
    /\ lastw' = [kind |-> "put", s |-> s, n |-> HeaderSize + len, pid |-> pid, pre |-> <<>>,
                 f |-> S2.writing, pos |-> S2.known[id].pos]
    /\ ret' = [kind |-> "put", id |-> id, pid |-> pid, fresh |-> id \notin DOMAIN G.owner]
    /\ UNCHANGED nres
Put(s, sec, len) == /\ st[s].nput < MaxPuts
                    /\ PutCore(s, sec, len)
                    /\ hist' = Append(hist, [a |-> "Put", s |-> s, sec |-> sec, len |-> len, pid |-> ret'.pid,
                                             id |-> ret'.id, post |-> Post])

(* ghost effect of erasing id: the second it stands for is gone *)
GhostErase(G, id) == IF id \in G.valid
                     THEN [G EXCEPT !.live = Without(@, G.owner[id]), !.opt = @ \ {G.owner[id]}, !.valid = @ \ {id}]
                     ELSE G
EraseWrite(s, S, id) == IF id \in DOMAIN S.known
                        THEN [kind |-> "erase", s |-> s, n |-> MagicLen, pid |-> S.known[id].crc, pre |-> S.disk,
                              f |-> S.known[id].fid, pos |-> S.known[id].pos]
                        ELSE lastw

EraseCore(s, id) ==
    /\ st' = [st EXCEPT ![s] = EraseOp(st[s], id)]
    /\ gh' = [gh EXCEPT ![s] = GhostErase(gh[s], id)]
    /\ lastw' = EraseWrite(s, st[s], id)
    /\ ret' = [kind |-> "erase", id |-> id]
    /\ UNCHANGED nres
Erase(s, id) == /\ EraseCore(s, id)
                /\ hist' = Append(hist, [a |-> "Erase", s |-> s, id |-> id, post |-> Post])

GetCore(s, id, wrong) ==
    LET S == st[s]  G == gh[s]
        sec == IF id \in DOMAIN G.owner
               THEN (IF wrong THEN G.meta[G.owner[id]].sec + 1 ELSE G.meta[G.owner[id]].sec)
               ELSE 1
        g == GetOp(S, id, sec)
        expOk == id \in G.valid /\ G.owner[id] \notin G.lost /\ ~wrong
    IN /\ st' = [st EXCEPT ![s] = g.S]
       /\ gh' = [gh EXCEPT ![s] = IF id \in G.valid /\ id \notin DOMAIN g.S.known THEN GhostErase(G, id) ELSE G]
       /\ lastw' = IF id \in DOMAIN S.known /\ id \notin DOMAIN g.S.known THEN EraseWrite(s, S, id) ELSE lastw
       /\ ret' = [kind |-> "get", id |-> id, sec |-> sec, ok |-> g.ok, pid |-> g.pid, expOk |-> expOk,
                  expPid |-> IF expOk THEN G.owner[id] ELSE 0]
       /\ UNCHANGED nres
Get(s, id, wrong) == /\ GetCore(s, id, wrong)
                     /\ hist' = Append(hist, [a |-> "Get", s |-> s, id |-> id, sec |-> ret'.sec, ok |-> ret'.ok,
                                              pid |-> ret'.pid, post |-> Post])

(* which pending pid may legitimately come next: everything before it must be optional *)
TailAllowed(G, pid) ==
    IF pid = 0 THEN \A i \in DOMAIN G.pending : G.pending[i] \in G.opt
    ELSE \/ pid \in G.lost       \* a corrupted second may be handed out; GetExact says it is never delivered
         \/ \E i \in DOMAIN G.pending : /\ G.pending[i] = pid
                                        /\ \A j \in 1..(i - 1) : G.pending[j] \in G.opt
GhostTail(G, id, pid) ==
    IF pid = 0
    THEN [G EXCEPT !.pending = <<>>, !.opt = @ \ Range(G.pending),
                   !.live = SelectSeq(@, LAMBDA p : p \notin Range(G.pending))]
    ELSE IF \E i \in DOMAIN G.pending : G.pending[i] = pid
    THEN LET i == CHOOSE j \in DOMAIN G.pending : G.pending[j] = pid
             skipped == {G.pending[j] : j \in 1..(i - 1)}
         IN [G EXCEPT !.pending = SubSeq(@, i + 1, Len(@)), !.opt = @ \ (skipped \cup {pid}),
                      !.live = SelectSeq(@, LAMBDA p : p \notin skipped),
                      !.owner = Upd(@, id, pid), !.valid = @ \cup {id}]
    ELSE [G EXCEPT !.owner = Upd(@, id, pid), !.valid = @ \cup {id}]      \* not allowed; TailOrder fires

ReadNextCore(s) ==
    LET r == RNT(st[s])  G == gh[s] IN
    /\ st' = [st EXCEPT ![s] = r.S]
    /\ gh' = [gh EXCEPT ![s] = GhostTail(G, r.id, r.pid)]
    /\ lastw' = IF r.S.disk = st[s].disk THEN lastw ELSE NoWrite
    /\ ret' = [kind |-> "tail", id |-> r.id, sec |-> r.sec, pid |-> r.pid, allowed |-> TailAllowed(G, r.pid),
               fresh |-> r.id = 0 \/ r.id \notin DOMAIN G.owner,
               secOk |-> r.id = 0 \/ (r.pid \in DOMAIN G.meta /\ G.meta[r.pid].sec = r.sec)]
    /\ UNCHANGED nres
ReadNext(s) == /\ ReadNextCore(s)
               /\ hist' = Append(hist, [a |-> "Tail", s |-> s, id |-> ret'.id, sec |-> ret'.sec, pid |-> ret'.pid,
                                        post |-> Post])

(* an hour passes for the writing file of shard s *)
TickCore(s) == /\ st[s].writing # 0 /\ ~st[s].rotateDue
               /\ st' = [st EXCEPT ![s].rotateDue = TRUE]
               /\ ret' = NoRet
               /\ UNCHANGED <<gh, lastw, nres>>
Tick(s) == TickCore(s) /\ hist' = Append(hist, [a |-> "Tick", s |-> s, post |-> Post])

RestartCore == /\ nres < MaxRestarts
               /\ st' = [s \in Shards |-> ReopenOp(st[s])]
               /\ gh' = [s \in Shards |-> GhostReopen(gh[s])]
               /\ lastw' = NoWrite
               /\ ret' = NoRet
               /\ nres' = nres + 1
Restart == RestartCore /\ hist' = Append(hist, [a |-> "Restart", post |-> Post])

(* the files after the last write was cut to its first k bytes *)
TornDisk(S, k) ==
    IF lastw.kind = "put"
    THEN LET fi == FileIdx(S.disk, lastw.f)
             f  == S.disk[fi]
             r  == f.recs[Len(f.recs)]
         IN IF k >= lastw.n THEN S.disk
            ELSE [S.disk EXCEPT ![fi] = [f EXCEPT !.recs = SubSeq(@, 1, Len(@) - 1),
                                                  !.torn = IF k = 0 THEN NoTorn
                                                           ELSE [k |-> k, sec |-> r.sec, len |-> r.len, pid |-> r.pid]]]
    ELSE \* erase: the file as it was, magic overwritten by k bytes; the removal (if any) had not happened
         LET d  == lastw.pre
             fi == FileIdx(d, lastw.f)
             h  == HeaderAt(d[fi], lastw.pos)
             m  == IF k <= MagicCommon THEN "good" ELSE IF k < MagicLen THEN "half" ELSE "del"
         IN [d EXCEPT ![fi].recs[h.idx].st = m]

TornGhost(G, k) ==
    IF lastw.kind = "put"
    THEN IF k >= lastw.n THEN G ELSE [G EXCEPT !.live = Without(@, lastw.pid)]
    ELSE IF lastw.pid \in G.lost THEN G                                           \* erase after a CRC failure: lost anyway
    ELSE IF k <= MagicCommon THEN [G EXCEPT !.live = Reinsert(@, lastw.pid)]      \* no byte of the file changed
         ELSE IF k < MagicLen THEN [G EXCEPT !.live = Reinsert(@, lastw.pid), !.opt = @ \cup {lastw.pid}]
         ELSE G

CrashCore(k) ==
    /\ nres < MaxRestarts
    /\ lastw.kind # "none"
    /\ k <= lastw.n
    /\ st' = [s \in Shards |-> ReopenOp(IF s = lastw.s THEN [st[s] EXCEPT !.disk = TornDisk(st[s], k)] ELSE st[s])]
    /\ gh' = [s \in Shards |-> GhostReopen(IF s = lastw.s THEN TornGhost(gh[s], k) ELSE gh[s])]
    /\ lastw' = NoWrite
    /\ ret' = NoRet
    /\ nres' = nres + 1
Crash(k) == CrashCore(k) /\ hist' = Append(hist, [a |-> "Crash", k |-> k, s |-> lastw.s, post |-> Post])

(* a byte of the body of a good record is flipped on disk *)
CorruptCore(s, fid, i) ==
    /\ AllowCorrupt
    /\ OnDisk(st[s].disk, fid)
    /\ LET fi == FileIdx(st[s].disk, fid)  f == st[s].disk[fi] IN
       /\ i \in DOMAIN f.recs
       /\ f.recs[i].st = "good" /\ f.recs[i].len > 0 /\ ~f.recs[i].bad
       /\ st' = [st EXCEPT ![s].disk[fi].recs[i].bad = TRUE]
       /\ gh' = [gh EXCEPT ![s].live = Without(@, f.recs[i].pid), ![s].lost = @ \cup {f.recs[i].pid},
                           ![s].opt = @ \ {f.recs[i].pid}]
    /\ lastw' = NoWrite
    /\ ret' = NoRet
    /\ UNCHANGED nres
Corrupt(s, fid, i) == /\ CorruptCore(s, fid, i)
                      /\ hist' = Append(hist, [a |-> "Corrupt", s |-> s, f |-> fid, i |-> i,
                                               pid |-> st[s].disk[FileIdx(st[s].disk, fid)].recs[i].pid, post |-> Post])

Next == /\ Len(hist) < MaxOps
        /\ \/ \E s \in Shards, sec \in Secs, len \in Lens : Put(s, sec, len)
           \/ \E s \in Shards : \E id \in 1..st[s].lastId : \E w \in WrongSecs : Get(s, id, w)
           \/ \E s \in Shards : \E id \in 1..st[s].lastId : Erase(s, id)
           \/ \E s \in Shards : ReadNext(s)
           \/ \E s \in Shards : Tick(s)
           \/ Restart
           \/ \E k \in TearKs : Crash(k)
           \/ \E s \in Shards : \E fid \in 1..st[s].nfile : \E i \in 1..MaxPuts : Corrupt(s, fid, i)

Spec == Init /\ [][Next]_vars

-------------------------------------------------------------------------------
(* Properties *)
Subseq(R, L, O) == R = SelectSeq(L, LAMBDA p : p \in Range(R) \/ p \notin O)

(* a restart at this instant re-reads exactly the seconds put and not erased, in write order
   (seconds whose erase was torn mid-magic are optional); corrupted ones fail their CRC *)
RereadExact == \A s \in Shards : Subseq(Reread(st[s]), gh[s].live, gh[s].opt)

(* the running session hands out the older seconds in order, none twice, none erased *)
TailOrder == ret.kind = "tail" => ret.allowed /\ ret.secOk

(* Get returns exactly the bytes of the second the id stands for, and only while it is not erased *)
GetExact == ret.kind = "get" => (ret.ok = ret.expOk /\ (ret.ok => ret.pid = ret.expPid))

IdsUnique == /\ ret.kind \in {"put", "tail"} => ret.fresh
             /\ \A s \in Shards : DOMAIN st[s].known = gh[s].valid

(* sizes: total = bytes of the shard's files; unsent = known seconds + what was not scanned yet *)
RECURSIVE BytesOf(_, _)
BytesOf(G, ids) == IF ids = {} THEN 0
                   ELSE LET id == CHOOSE x \in ids : TRUE
                        IN HeaderSize + G.meta[G.owner[id]].len + BytesOf(G, ids \ {id})
KnownBytes(s) == BytesOf(gh[s], gh[s].valid)
Unscanned(s) ==
    LET S == st[s]
        wf == SeqSum([i \in DOMAIN S.waiting |-> FileSize(S.disk[FileIdx(S.disk, S.waiting[i].fid)])])
        rf == IF S.reading = 0 THEN 0
              ELSE LET f == S.disk[FileIdx(S.disk, S.reading)] IN
                   IF S.open[S.reading].npos < FileSize(f) THEN FileSize(f) - S.open[S.reading].npos ELSE 0
    IN wf + rf
SizesMatch == \A s \in Shards : /\ st[s].total = DiskSize(st[s].disk)
                                /\ Unsent(st[s]) = KnownBytes(s) + Unscanned(s)

(* a file without live seconds exists only while it is written, or not yet scanned by this session *)
HasLive(f) == \E i \in DOMAIN f.recs : f.recs[i].st = "good"
ErasedFileDeleted ==
    \A s \in Shards : \A i \in DOMAIN st[s].disk :
        LET f == st[s].disk[i] IN
        ~HasLive(f) => \/ f.fid = st[s].writing
                       \/ f.fid = st[s].reading
                       \/ \E j \in DOMAIN st[s].waiting : st[s].waiting[j].fid = f.fid

(* mechanism invariants *)
RefCounts == \A s \in Shards : LET S == st[s] IN
    /\ \A fid \in DOMAIN S.open :
          /\ OnDisk(S.disk, fid)
          /\ S.open[fid].refs = (IF S.reading = fid THEN 1 ELSE 0) + (IF S.writing = fid THEN 1 ELSE 0)
                                + Cardinality({id \in DOMAIN S.known : S.known[id].fid = fid})
          /\ S.open[fid].refs > 0
          /\ S.open[fid].size = FileSize(S.disk[FileIdx(S.disk, fid)])
    /\ \A id \in DOMAIN S.known : S.known[id].fid \in DOMAIN S.open
    /\ S.reading # 0 => S.reading \in DOMAIN S.open
    /\ S.writing # 0 => S.writing \in DOMAIN S.open
(* every known bucket points at the header of the good record holding its second *)
KnownPointsAtRecord == \A s \in Shards : \A id \in DOMAIN st[s].known :
    LET b == st[s].known[id]  h == HeaderAt(st[s].disk[FileIdx(st[s].disk, b.fid)], b.pos) IN
    h.kind = "hdr" /\ h.idx # 0 /\ h.magic = "good" /\ h.pid = b.crc /\ h.len = b.len /\ h.sec = b.sec
(* write order on disk = pid order within a shard *)
DiskOrdered == \A s \in Shards : \A i, j \in DOMAIN st[s].disk : i < j => st[s].disk[i].fid < st[s].disk[j].fid

Export == PrintT(<<"BEH", ToJson(hist')>>)
ExportEnd == IF Len(hist') >= MaxOps THEN PrintT(<<"BEH", ToJson(hist')>>) ELSE TRUE
===============================================================================
