SPECIFICATION Spec
CONSTANTS
  Keys <- MCKeys22
  Width <- MCWidth2
  Limits = {1, 2, 3}
  Markers <- MCMarkers22
  Export = FALSE
INVARIANTS ConformsSpecOut InOrder Inside Complete FullPages
PROPERTY Terminates
CHECK_DEADLOCK FALSE
