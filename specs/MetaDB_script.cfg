\* MetaDBScript: the specification follows seeded random scripts (scripts.ndjson); the check
\* rewrites the budget constants and the INVARIANTS / PROPERTIES lines per run.
INIT SInit
NEXT SNext
CONSTANTS
  Names = {}
  NsOf <- ScriptNsOf
  CreateTypes = {}
  MismatchTypes = {}
  TMetric = 0
  TGroup = 2
  TNs = 4
  PredefIds = {}
  Payloads = {}
  RacePayloads = {}
  RaceNames = {}
  Keys = {}
  MetricSeq <- ScriptMetrics
  PutArgs = {}
  BootSets = {}
  ResetLimits = {}
  MaxBudget = 3
  StepSec = 10
  BudgetBonus = 1
  GlobalBudget = 2
  MaxResetLimit = 10000
  U32Q = 429496729
  U32R = 6
  Ticks = {}
  Clock0 = 1003
  DelMax = 2
  DelNewestOnly = FALSE
  MaxOps = 100000
  MaxSnaps = 3
  MaxClock = 100000000
  ExportFrom = 0
  WithPost = TRUE
  Bugs = {}
INVARIANTS VersionsUnique
CHECK_DEADLOCK FALSE
