------------------------- MODULE ConveyorTraceConsts -------------------------
(* Placeholder: regenerated per trace by checks/C01.py *)
EXTENDS TLC
TrSecs == {}
TrInsts == {}
TrRepOf == <<>>
===============================================================================
