INIT Init
NEXT Next
CONSTANTS
  Acqs <- A8
  W <- W8
  InitSizes = {1, 2, 3, 4}
  Sizes = {0, 1, 2, 3, 4, 5}
  MaxSet = 3
  Forces = {1, 2, 3}
  MaxForce = 2
  MaxOps = 60
  Bug = "none"
  KeepHist = TRUE
ACTION_CONSTRAINT Export
INVARIANTS TypeOK AdmitWithinSize FIFO NoLeak NoLostWakeup OutcomeOK
CHECK_DEADLOCK FALSE
