---------------------------- MODULE SeriesCacheMem ----------------------------
(* API series cache, property C23 ("... trimming and memory limits ... no request waits
   forever"): the memory-limit protocol of cache2 - tscache2.go tryNotExceedMemoryHardLimit*,
   updateRuntimeInfoUnlocked, tscache2_inflight.go (NewInflightReq / updateInflightApprox /
   afterInflightLoadFinished / removeReqLocked) and the trim goroutine of tscache2_trim.go -
   with its two condition variables transcribed:

     allocCond   requests (before they create a loader) and loads (when they announce bytes
                 received from the storage) wait on it while the memory is over a limit;
                 Broadcast when the effective size is back under the hard limit
     trimCond    the trim goroutine sleeps on it; Signal when the soft limit is exceeded

   One step = one critical section under cache2.mu (Signal calls that the code makes after
   unlocking are separate steps).  size = info.size() counts cached bytes in units of one bucket;
   infl[r] = bytes announced by load r; eff = size + sum infl (effectiveSizeLocked).

   A request r:  ghard (tryNotExceedMemoryHardLimit) -> reg (NewInflightReq) -> u0
   (updateInflightApprox(id, 0): soft-limit wait) -> NInc times u1 (updateInflightApprox(id, +D):
   hard-limit wait, cancels the largest load when nothing is cached) -> fin
   (afterInflightLoadFinished) -> post (post-load adds the chunk to the cache) -> done.

   Checked: every request finishes (liveness under weak fairness of every process), i.e. no
   lost wakeup on allocCond / trimCond.  FixWake selects the code before (FALSE) and after
   (TRUE) the repair of the two lost wakeups found with this model:
     * updateRuntimeInfoUnlocked also broadcasts allocCond when nothing is cached any more (the
       waiters' conditions depend on info.size() > 0, not only on the hard limit): before, two
       loads that together exceed the hard limit slept forever once trim had emptied the cache;
     * the trim goroutine does not go to sleep while the soft limit is exceeded and something is
       cached: a Signal sent while it was busy is lost, and before the repair it then slept
       although a load was waiting for the soft limit.                                        *)
EXTENDS Integers, FiniteSets, TLC

CONSTANTS NReq,      \* requests 1..NReq
          Hard, Soft, \* limits.maxSize, limits.maxSizeSoft (Hard = 0: no limit)
          S0,        \* cached units at the start
          D,         \* units announced per updateInflightApprox(+)
          NInc,      \* announcements per load
          FixWake

VARIABLES size, infl, reg, canc, pc, left, tpc

vars == <<size, infl, reg, canc, pc, left, tpc>>
Reqs == 1..NReq

RECURSIVE SumInfl(_)
SumInfl(S) == IF S = {} THEN 0 ELSE LET r == CHOOSE x \in S : TRUE IN infl[r] + SumInfl(S \ {r})
Eff == size + SumInfl(Reqs)
EffWith(s, f) == s + (LET RECURSIVE Sm(_) Sm(S) == IF S = {} THEN 0 ELSE LET r == CHOOSE x \in S : TRUE IN f[r] + Sm(S \ {r}) IN Sm(Reqs))

Init == /\ size = S0
        /\ infl = [r \in Reqs |-> 0]
        /\ reg = [r \in Reqs |-> FALSE]
        /\ canc = [r \in Reqs |-> FALSE]
        /\ pc = [r \in Reqs |-> "ghard"]
        /\ left = [r \in Reqs |-> NInc]
        /\ tpc = "check"

(* sync.Cond: Broadcast wakes everybody waiting on allocCond (they re-evaluate their loop
   condition under the mutex); Signal wakes the trim goroutine if it sleeps, else it is lost *)
Woken(p) == [r \in Reqs |-> CASE p[r] = "w_ghard" -> "ghard" [] p[r] = "w_soft" -> "softchk"
                              [] p[r] = "w_hard" -> "hardchk" [] OTHER -> p[r]]
SignalTrim(t) == IF t = "waiting" THEN "check" ELSE t

(* updateRuntimeInfoUnlocked after info.update: s, f = new size and inflight map *)
AfterUpdate(p, t, s, f) ==
    LET e == EffWith(s, f)
    IN IF Hard = 0 THEN <<p, t>>
       ELSE << IF e <= Hard \/ (FixWake /\ s <= 0) THEN Woken(p) ELSE p,
               IF Soft < e THEN SignalTrim(t) ELSE t >>

(* removeReqLocked(x) *)
AfterRemove(p, t, s, f) ==
    LET e == EffWith(s, f)
    IN << IF Hard = 0 \/ e <= Hard THEN Woken(p) ELSE p,
          IF Soft > 0 /\ e > Soft THEN SignalTrim(t) ELSE t >>

-------------------------------------------------------------------------------
GHard(r) ==   \* tryNotExceedMemoryHardLimit
    /\ pc[r] = "ghard"
    /\ pc' = [pc EXCEPT ![r] = IF Hard # 0 /\ size > 0 /\ Eff > Hard THEN "w_ghard" ELSE "reg"]
    /\ UNCHANGED <<size, infl, reg, canc, left, tpc>>

Reg(r) ==     \* NewInflightReq
    /\ pc[r] = "reg"
    /\ reg' = [reg EXCEPT ![r] = TRUE]
    /\ pc' = [pc EXCEPT ![r] = "u0"]
    /\ UNCHANGED <<size, infl, canc, left, tpc>>

U0(r) ==      \* updateInflightApprox(id, 0), the locked part
    /\ pc[r] = "u0"
    /\ pc' = [pc EXCEPT ![r] = IF ~reg[r] THEN "u1" ELSE IF Soft > 0 /\ Eff > Soft THEN "sig_soft" ELSE "u1"]
    /\ UNCHANGED <<size, infl, reg, canc, left, tpc>>

SigSoft(r) == \* c.trimCond.Signal() after unlocking
    /\ pc[r] = "sig_soft"
    /\ tpc' = SignalTrim(tpc)
    /\ pc' = [pc EXCEPT ![r] = "softchk"]
    /\ UNCHANGED <<size, infl, reg, canc, left>>

SoftChk(r) == \* tryNotExceedMemorySoftLimitInflight
    /\ pc[r] = "softchk"
    /\ pc' = [pc EXCEPT ![r] = IF Hard # 0 /\ Eff > Soft THEN "w_soft" ELSE "u1"]
    /\ UNCHANGED <<size, infl, reg, canc, left, tpc>>

U1(r) ==      \* updateInflightApprox(id, +D), the locked part; fin when everything is announced
    /\ pc[r] = "u1"
    /\ IF left[r] = 0 THEN /\ pc' = [pc EXCEPT ![r] = "fin"] /\ UNCHANGED <<infl, left>>
       ELSE IF ~reg[r] THEN /\ pc' = [pc EXCEPT ![r] = "fin"] /\ UNCHANGED <<infl, left>>   \* cancelled: the storage query ends
       ELSE /\ infl' = [infl EXCEPT ![r] = @ + D]
            /\ left' = [left EXCEPT ![r] = @ - 1]
            /\ pc' = [pc EXCEPT ![r] = IF Soft > 0 /\ Eff + D > Soft THEN "sig_hard" ELSE "u1"]
    /\ UNCHANGED <<size, reg, canc, tpc>>

SigHard(r) ==
    /\ pc[r] = "sig_hard"
    /\ tpc' = SignalTrim(tpc)
    /\ pc' = [pc EXCEPT ![r] = "hardchk"]
    /\ UNCHANGED <<size, infl, reg, canc, left>>

(* tryNotExceedMemoryHardLimitInflight: one evaluation of the loop *)
HardChk(r) ==
    /\ pc[r] = "hardchk"
    /\ IF ~(Hard # 0 /\ Eff > Hard)
       THEN /\ pc' = [pc EXCEPT ![r] = "u1"] /\ UNCHANGED <<infl, reg, canc, tpc>>
       ELSE IF size <= 0
       THEN IF \A x \in Reqs : ~reg[x]
            THEN /\ pc' = [pc EXCEPT ![r] = "u1"] /\ UNCHANGED <<infl, reg, canc, tpc>>
            ELSE \E x \in {y \in Reqs : reg[y] /\ \A z \in Reqs : reg[z] => infl[z] <= infl[y]} :
                    LET f  == [infl EXCEPT ![x] = 0]
                        pt == AfterRemove(pc, tpc, size, f)
                    IN /\ infl' = f
                       /\ reg' = [reg EXCEPT ![x] = FALSE]
                       /\ canc' = [canc EXCEPT ![x] = TRUE]
                       /\ pc' = pt[1]            \* r stays in hardchk: `continue`
                       /\ tpc' = pt[2]
       ELSE /\ pc' = [pc EXCEPT ![r] = "w_hard"] /\ UNCHANGED <<infl, reg, canc, tpc>>
    /\ UNCHANGED <<size, left>>

Fin(r) ==     \* afterInflightLoadFinished
    /\ pc[r] = "fin"
    /\ IF reg[r]
       THEN LET f  == [infl EXCEPT ![r] = 0]
                pt == AfterRemove([pc EXCEPT ![r] = "post"], tpc, size, f)
            IN /\ infl' = f /\ reg' = [reg EXCEPT ![r] = FALSE] /\ pc' = pt[1] /\ tpc' = pt[2]
       ELSE /\ pc' = [pc EXCEPT ![r] = "post"] /\ UNCHANGED <<infl, reg, tpc>>
    /\ UNCHANGED <<size, canc, left>>

Post(r) ==    \* post-load: the loaded chunk enters the cache (not after a cancelled load)
    /\ pc[r] = "post"
    /\ IF canc[r]
       THEN /\ pc' = [pc EXCEPT ![r] = "done"] /\ UNCHANGED <<size, tpc>>
       ELSE LET pt == AfterUpdate([pc EXCEPT ![r] = "done"], tpc, size + 1, infl)
            IN /\ size' = size + 1 /\ pc' = pt[1] /\ tpc' = pt[2]
    /\ UNCHANGED <<infl, reg, canc, left>>

-------------------------------------------------------------------------------
(* the trim goroutine (maxAge = 0) *)
TCheck ==     \* loop top, mutex held
    /\ tpc = "check"
    /\ tpc' = IF Soft < Eff THEN "reduce" ELSE "after"
    /\ UNCHANGED <<size, infl, reg, canc, pc, left>>

TReduce ==    \* reduceMemoryUsage: nothing cached -> return; else remove one bucket
    /\ tpc = "reduce"
    /\ IF size <= 0
       THEN /\ tpc' = "after" /\ UNCHANGED <<size, pc>>
       ELSE LET pt == AfterUpdate(pc, "reduce", size - 1, infl)
            IN /\ size' = size - 1
               /\ pc' = pt[1]
               /\ tpc' = IF EffWith(size - 1, infl) <= Soft THEN "after" ELSE "reduce"
    /\ UNCHANGED <<infl, reg, canc, left>>

TAfter ==     \* back under the mutex: sleep unless still over the hard limit
    /\ tpc = "after"
    /\ tpc' = IF FixWake /\ Hard # 0 /\ Soft < Eff /\ size > 0 THEN "check"
              ELSE IF Hard = 0 \/ Eff <= Hard THEN "waiting" ELSE "check"
    /\ UNCHANGED <<size, infl, reg, canc, pc, left>>

TrimStep == TCheck \/ TReduce \/ TAfter
ReqStep(r) == GHard(r) \/ Reg(r) \/ U0(r) \/ SigSoft(r) \/ SoftChk(r) \/ U1(r) \/ SigHard(r) \/ HardChk(r) \/ Fin(r) \/ Post(r)

Next == TrimStep \/ \E r \in Reqs : ReqStep(r)
Spec == Init /\ [][Next]_vars /\ WF_vars(TrimStep) /\ \A r \in Reqs : WF_vars(ReqStep(r))

-------------------------------------------------------------------------------
TypeOK == size >= 0 /\ \A r \in Reqs : infl[r] >= 0 /\ (~reg[r] => infl[r] = 0)
AllDone == <>[](\A r \in Reqs : pc[r] = "done")
(* a state from which nothing can ever change: everybody who is not done sleeps on allocCond
   and the trim goroutine has nothing to remove *)
Stuck == /\ \E r \in Reqs : pc[r] # "done"
         /\ \A r \in Reqs : pc[r] \in {"done", "w_ghard", "w_soft", "w_hard"}
         /\ size <= 0
NoStuck == ~Stuck
===============================================================================
