SPECIFICATION SpecSafety
CONSTANTS
  Keys <- MCKeys23
  Width <- MCWidth1
  Limits = {1, 2, 3, 4}
  Markers <- MCMarkers23
  Export = TRUE
INVARIANTS ConformsSpecOut InOrder Inside Complete FullPages
CHECK_DEADLOCK FALSE
