------------------------------ MODULE MetaDBMC ------------------------------
(* Bounded instances of MetaDB.  Records, functions, sequences and negative numbers cannot be
   written in a cfg file, so the alphabets are defined here and bound with `<-`. *)
EXTENDS MetaDB
P(d, del, m) == [data |-> d, del |-> del, meta |-> m]
AllNames == {"a", "b", "c", "n", "n:a", "n:b", "o", "o:a"}
MCNsOf == [x \in AllNames |-> IF x \in {"n:a", "n:b"} THEN "n" ELSE IF x = "o:a" THEN "o" ELSE ""]
NamesEnt == {"a", "n", "n:a"}
NamesMix == {"a", "n:a", "n"}
NamesSim == {"a", "b", "n", "n:a", "n:b", "o", "o:a"}
Pay1 == {P("d1", 0, "")}
Pay2 == {P("d1", 0, ""), P("d2", 7, "x")}
Pay3 == {P("d1", 0, ""), P("d2", 0, "x"), P("d3", 7, "yy")}
RacePay == {P("d2", 0, "x"), P("d3", 0, "y")}
TypesM == {0}
TypesMN == {0, 4}
TypesAll == {0, 1, 2, 4}
Predef == {-1}
Predef2 == {-1, -7}
NoSeq == <<>>
M1 == <<"m1">>
M2 == <<"m1", "m2">>
M3 == <<"m1", "m2", "m3">>
K2 == {"k1", "k2"}
K3 == {"k1", "k2", "k3"}
K4 == {"k1", "k2", "k3", "k4"}
K6 == {"k1", "k2", "k3", "k4", "k5", "k6"}
K9 == {"k1", "k2", "k3", "k4", "k5", "k6", "k7", "k8", "k9"}
Put(ks, vs) == <<ks, vs>>
(* single puts, an overwrite of a key, an overwrite of an id, and a pair in one call *)
PutsSmall == { Put(<<"k1">>, <<2>>), Put(<<"k2">>, <<2>>), Put(<<"k1">>, <<5>>),
               Put(<<"k1", "k2">>, <<5, 2>>), Put(<<"k3", "k3">>, <<1, 3>>) }
PutsMix == { Put(<<"k1">>, <<2>>), Put(<<"k2">>, <<2>>) }
PutsSim == PutsSmall \cup { Put(<<"k4">>, <<9>>), Put(<<"k5", "k6">>, <<4, 4>>), Put(<<>>, <<>>) }
BootS == { << <<"k1", 1>> >> }
BootM == { << <<"k1", 1>> >>, << <<"k2", 2>>, <<"k1", 3>> >>, <<>> }
===============================================================================
