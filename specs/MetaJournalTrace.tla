--------------------------- MODULE MetaJournalTrace ---------------------------
(* I->S: validates executions of the real JournalFast / MetricsStorage chain (harness
   internal/metajournal/verif_c20_test.go) against MetaJournal.  Every step of a recorded history
   is replayed with the module's ...Core actions (the adversary's choices - which edit, how many
   events a delivery carries, which whole chunks of the file survive - are taken from the trace),
   the projection of the touched replica must equal what the real code shows after the step, and
   the property invariants are evaluated in every state.  Runs are concatenated, each starting
   with a Reset event; the first line carries the character codes of the names in use. *)
EXTENDS MetaJournal
VARIABLE l
Trace == ndJsonDeserialize("trace.ndjson")
ASSUME TLCSet(7, 0)

TrChars == Trace[1].chars
RepOrder == <<"ac", "ac2", "an", "c", "n">>
TrReplicas == {"n", "c", "an", "ac", "ac2"}
TrUp == [n |-> "src", c |-> "src", an |-> "n", ac |-> "c", ac2 |-> "c"]
TrIsCompact == [n |-> FALSE, c |-> TRUE, an |-> FALSE, ac |-> FALSE, ac2 |-> FALSE]
TrNone == [M |-> {}, G |-> {}, N |-> {}, D |-> {}]

tvars == <<vars, l>>
IsEvent(e) == l <= Len(Trace) /\ Trace[l].ev = e /\ l' = l + 1

Map(s, Op(_)) == [i \in 1..Len(s) |-> Op(s[i])]
RECURSIVE SortNames(_)
SortNames(S) == IF S = {} THEN <<>>
                ELSE LET m == CHOOSE x \in S : \A o \in S : ~NameLess(o, x)
                     IN <<m>> \o SortNames(S \ {m})
EvP(e) == [t |-> e.t, id |-> e.id, ver |-> e.ver, ut |-> e.ut, name |-> e.name, c |-> e.c, d |-> e.d]
EnP(e) == [id |-> e.id, ver |-> e.ver, ut |-> e.ut, name |-> e.name, c |-> e.c, d |-> e.d]
NameP(byName) == LET ns == SortNames(DOMAIN byName)
                 IN [i \in 1..Len(ns) |-> [n |-> ns[i], id |-> byName[ns[i]].id, ver |-> byName[ns[i]].ver]]
Proj(J, S, r, allJ) ==
    LET MP(m) == [id |-> m.id, ver |-> m.ver, ut |-> m.ut, name |-> m.name, c |-> m.c, d |-> m.d,
                  gn |-> IF m.grp = 0 THEN "" ELSE S.gId[m.grp].name,
                  gd |-> IF m.grp = 0 THEN 0 ELSE S.gId[m.grp].c]
        same(q) == q # r /\ allJ[q].hs = J.hs
    IN [j |-> Map(SortByVer(Events(J.j)), EvP), cur |-> J.cur, lv |-> J.lv,
        heq |-> SelectSeq(RepOrder, same),
        mId |-> Map(SortById(Range(S.mId)), MP), mName |-> NameP(S.mName),
        gId |-> Map(SortById(Range(S.gId)), EnP), gName |-> NameP(S.gName),
        nId |-> Map(SortById(Range(S.nId)), EnP), nName |-> NameP(S.nName),
        dId |-> Map(SortById(Range(S.dId)), EnP)]
ObsOK(r) == Proj(jn'[r], st'[r], r, jn') = Trace[l].obs

TrInit == Init /\ l = 2

TrReset == /\ IsEvent("Reset")
           /\ src' = <<>> /\ srcVer' = 0
           /\ jn' = [r \in Replicas |-> EmptyJournal]
           /\ st' = [r \in Replicas |-> EmptyStorage]
           /\ file' = [r \in Replicas |-> NoFile]
           /\ UNCHANGED <<nrest, hist>>

TrSrc == /\ IsEvent("Src")
         /\ Trace[l].e.ver = srcVer + 1
         /\ SrcPutCore(Trace[l].e)
         /\ src'[Key(Trace[l].e)] = Trace[l].e
         /\ UNCHANGED hist

TrPull == /\ IsEvent("Pull")
          /\ PullCore(Trace[l].r, Trace[l].k, TRUE)
          /\ ObsOK(Trace[l].r)
          /\ UNCHANGED hist

(* the real journal asked its upstream and got nothing *)
TrIdle == /\ IsEvent("Idle")
          /\ Avail(Trace[l].r) = <<>>
          /\ UNCHANGED vars

TrSave == /\ IsEvent("Save")
          /\ IF Trace[l].ok THEN SaveCore(Trace[l].r)
             ELSE jn[Trace[l].r].saved = jn[Trace[l].r].cur /\ UNCHANGED <<src, srcVer, jn, st, file, nrest>>
          /\ UNCHANGED hist

TrRestart == /\ IsEvent("Restart")
             /\ RestartCore(Trace[l].r, Trace[l].cs)
             /\ ObsOK(Trace[l].r)
             /\ UNCHANGED <<nrest, hist>>

TrNext == TrReset \/ TrSrc \/ TrPull \/ TrIdle \/ TrSave \/ TrRestart
TraceSpec == TrInit /\ [][TrNext]_tvars

HighWater == TLCSet(7, IF l > TLCGet(7) THEN l ELSE TLCGet(7))
TraceAccepted == IF TLCGet(7) = Len(Trace) + 1 THEN TRUE
                 ELSE PrintT(<<"TRACE_REJECTED_AT_LINE", TLCGet(7)>>) /\ FALSE
TraceView == <<View, l>>
===============================================================================
