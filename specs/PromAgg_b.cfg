INIT Init
NEXT Next
CONSTANTS
  NS = 1
  NT = 3
  Vals <- MCValsFour
  TagA <- MCTagA
  TagB <- MCTagB
  R = 3
  WMax = 3
  Tables <- TablesOT
  SelMod = 1
  Sel = 0
  PreAvg = TRUE
  PreCount = TRUE
  AnchorVals <- NoAnchor
INVARIANTS
  TypeOK
  DigestIsDefinition
  Rule0Exact
  Rule1Exact
  Rule2Exact
  Rule3Exact
  ReduciblePairs
  Export
CHECK_DEADLOCK FALSE
