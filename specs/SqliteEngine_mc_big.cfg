INIT Init
NEXT Next
CONSTANTS
  Writes <- MCW4
  FailW <- MCF4
  Readers = {r1, r2}
  Role = "master"
  Dur = "wait"
  SvcSizes <- MCNone
  StartSize = 24
  Size <- MCSize
  MaxCrash = 2
  MaxReads = 1
  MaxClose = 1
  AllowDesync = FALSE
  MaxOps = 0
VIEW View
CHECK_DEADLOCK FALSE
INVARIANTS TypeOK DbIsPrefix DbNotAheadOfFile DbNotAheadOfSync TxMirrorsBinlog TxMirrorsRead TxOffIsBoundary RecoveredAll RecoveredExact AckedDurable AckedRecovered FailedNowhere ViewWithinBinlog ReadWithinBinlog CommitInfoSound
PROPERTY Monotone
