---------------------------- MODULE UniqueTrace ----------------------------
(* I->S for the unique sketch at the code's real scale (uniquesHashMaxSize = 65536).

   The drivers (harness/internal/data_model/verif_c04_unique_test.go, .../api/verif_c04_...)
   build real ChUnique sketches around 1x, 2x, 3x the limit, merge them in every order and
   tree (ChUnique.Merge and MarshallAppend -> MergeRead, programs exported by TLC from
   Unique.tla) and log after every step, for the sketch that was written:
      cnts[k+1]  the number of distinct 32-bit hashes, among everything that reached the sketch,
             divisible by 2^k  (k = 0..MaxK; computed from the input lists, not from the sketch)
      skip, items   ChUnique.skipDegree, ChUnique.itemsCount
      bad    number of items held that are not hashes of the input or not divisible by 2^skip
      est    ChUnique.Size(true)
   The specification's Canon (Unique!CanonSkipN) is evaluated on those integers: the sketch must
   be the canonical thinning of its input, whatever the order and grouping.                   *)
EXTENDS Unique
VARIABLE l
Trace == ndJsonDeserialize("trace.ndjson")
ASSUME TLCSet(7, 0)

tvars == <<vars, l>>
TrInit == Init /\ l = 1
TrStep == /\ l <= Len(Trace)
          /\ l' = l + 1
          /\ UNCHANGED vars
TraceSpec == TrInit /\ [][TrStep]_tvars

Counts(e) == [k \in 0..(Len(e.cnts) - 1) |-> e.cnts[k + 1]]
(* the event at position l - 1 has just been consumed *)
Last == Trace[l - 1]
SketchOK(e) ==
    LET n == Counts(e)
        k == CanonSkipN(n)
    IN /\ \E j \in DOMAIN n : n[j] <= MAXSIZE          \* the logged range of k suffices
       /\ e.skip = k
       /\ e.items = n[k]
       /\ e.bad = 0
       /\ e.est = n[k] * Pow2(k)
       /\ e.items <= MAXSIZE
SketchCanonical ==
    (l > 1 /\ Last.ev = "Sk") =>
        (SketchOK(Last) \/ (PrintT(<<"SKETCH_NOT_CANONICAL_AT_LINE", l - 1>>) /\ FALSE))

HighWater == TLCSet(7, IF l > TLCGet(7) THEN l ELSE TLCGet(7))
TraceAccepted == IF TLCGet(7) = Len(Trace) + 1 THEN TRUE
                 ELSE PrintT(<<"TRACE_REJECTED_AT_LINE", TLCGet(7)>>) /\ FALSE
TraceView == <<l>>
===============================================================================
