SPECIFICATION Spec
CONSTANTS
  Keys <- MCKeys22
  Splits <- MCSplits2
  Width <- MCWidth2
  Limits = {0, 1, 2, 3}
  Markers <- MCMarkersAt
  Export = TRUE
  StorageSortsAll = TRUE
  CallerReverses = FALSE
INVARIANTS TypeOK ColumnsDuring RowsIdxUnique CountBound MarkerIsKey
  FinalAligned FinalUnique FinalOrdered FinalWindow FinalLimit FinalFirst FinalHasMore FinalIsSpecOut
CHECK_DEADLOCK FALSE
