INIT Init
NEXT Next
CONSTANTS
  NS = 1
  NT = 4
  Vals <- MCValsFour
  TagA <- MCTagA
  TagB <- MCTagB
  R = 2
  WMax = 4
  Tables <- TablesOT
  SelMod = 1
  Sel = 0
  PreAvg = TRUE
  PreCount = TRUE
  AnchorVals <- NoAnchor
INVARIANTS
  TypeOK
  DigestIsDefinition
  Rule0Exact
  Rule1Exact
  Rule2Exact
  Rule3Exact
  ReduciblePairs
  DefinitionsSane
  Export
CHECK_DEADLOCK FALSE
