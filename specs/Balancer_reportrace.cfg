SPECIFICATION Spec
CONSTANTS
  BufLen = 1
  WaitPct = 50
  MaxPkts = 5
  MaxErrs = 0
  MaxSpur = 0
  PktLens <- Len1
  TimeoutSignals = TRUE
  SkipOnErr = TRUE
  ReportRetry = TRUE
  ReportClaim = "load"
  DeadlineArmed = TRUE
  AllowClose = FALSE
  AllowRecon = FALSE
  RecordHist = FALSE
  MaxHist = 0
VIEW View
INVARIANTS NoReportLost
CHECK_DEADLOCK FALSE
