INIT Init
NEXT Next
CONSTANTS
  NChunks = 3
  CS = 1
  NGets = 3
  Ranges <- AllRanges
  Plays <- NoPlay
  Forces <- NoForce
  MaxInv = 1
  MaxTrim = 0
  MaxFail = 0
  Age <- AllOld
  FixAwait = FALSE
  FixPublish = FALSE
  FixInvMax = FALSE
  SeqInv = TRUE
  MaxOps = 0
VIEW View
INVARIANTS CexExport
CHECK_DEADLOCK FALSE
