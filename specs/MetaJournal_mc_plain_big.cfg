INIT Init
NEXT Next
CONSTANTS
  Ids <- IdsC
  Names <- NamesC
  Chars <- MCChars
  Replicas = {"n", "an"}
  Up <- MCUp
  IsCompact <- MCIsCompact
  MaxBatch = 2
  ChunkSizes = {1}
  MaxVer = 3
  MaxRestarts = 2
  MaxOps = 0
  OrigNames = FALSE
  OrigSkip = FALSE
VIEW View
CHECK_DEADLOCK FALSE
INVARIANTS NoPanic LoaderAhead HashConsistent VersionsDistinct StorageMatchesJournal NameLookupCorrect GroupAssignmentCorrect Converged HashAgreement
