INIT Init
NEXT Next
CONSTANTS
  NChunks = 3
  CS = 1
  NGets = 4
  Ranges <- AllRanges
  Plays <- NoPlay
  Forces <- NoForce
  MaxInv = 2
  MaxTrim = 1
  MaxFail = 1
  Age <- AllOld
  FixAwait = TRUE
  FixPublish = TRUE
  FixInvMax = FALSE
  SeqInv = TRUE
  MaxOps = 20
VIEW View
ACTION_CONSTRAINT Export
CHECK_DEADLOCK FALSE
