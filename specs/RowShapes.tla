------------------------------ MODULE RowShapes ------------------------------
(* The event alphabet shared by the bounded instances of RowTransfer (C02) and RowMerge (C04). *)
EXTENDS Integers, Sequences

E(id, kind, cnt, vals, hst, host, top) ==
    [id |-> id, kind |-> kind, cnt |-> cnt, vals |-> vals, hist |-> hst, host |-> host, top |-> top]

(* hosts: 0 none, 1 and 2 mapped (int32) host tags, 3 an unmapped (string) host.
   top: 0 tail, 1 a string key, 2 a mapped (int32) key.
   kind V with a non-empty hist is a histogram event; cnt # 0 with arrays is the
   "counter is the true number of events, arrays are a subsample" case. *)
AllShapes ==
    {E(1, "C", 1, <<>>, <<>>, 0, 0),
     E(2, "C", 2, <<>>, <<>>, 0, 0),
     E(3, "C", 1, <<>>, <<>>, 1, 0),
     E(4, "C", 3, <<>>, <<>>, 2, 0),
     E(5, "C", 1, <<>>, <<>>, 0, 1),
     E(6, "C", 2, <<>>, <<>>, 3, 2),
     E(7, "V", 0, <<7>>, <<>>, 0, 0),
     E(8, "V", 0, <<7>>, <<>>, 1, 0),
     E(9, "V", 0, <<3>>, <<>>, 2, 0),
     E(10, "V", 0, <<0>>, <<>>, 0, 0),
     E(11, "V", 0, <<3, 7>>, <<>>, 0, 0),
     E(12, "V", 0, <<7, 7>>, <<>>, 1, 0),
     E(13, "V", 0, << -2 >>, <<>>, 3, 0),
     E(14, "V", 2, <<7>>, <<>>, 0, 0),
     E(15, "V", 1, <<3, 7>>, <<>>, 1, 0),
     E(16, "V", 2, <<3, 3, 7>>, <<>>, 2, 0),
     E(17, "V", 0, <<7>>, <<>>, 0, 1),
     E(18, "V", 0, <<3>>, <<>>, 1, 1),
     E(19, "V", 0, <<7>>, <<>>, 2, 2),
     E(20, "V", 0, <<>>, << <<3, 2>> >>, 0, 0),
     E(21, "V", 0, <<>>, << <<7, 1>>, <<3, 2>> >>, 1, 0),
     E(22, "V", 6, <<7>>, << <<7, 2>> >>, 0, 0),
     E(23, "U", 0, <<5>>, <<>>, 0, 0),
     E(24, "U", 0, <<5, 9>>, <<>>, 1, 0),
     E(25, "U", 2, <<9>>, <<>>, 2, 0),
     E(26, "U", 0, <<5, 5>>, <<>>, 0, 0),
     E(27, "U", 0, <<0>>, <<>>, 0, 0),
     E(28, "U", 0, <<9>>, <<>>, 0, 1),
     E(29, "U", 2, <<5, 9, 12>>, <<>>, 3, 0),
     E(30, "C", 1, <<>>, <<>>, 2, 1)}

ShapeTable == {[id |-> e.id, kind |-> e.kind, cnt |-> e.cnt, vals |-> e.vals, hist |-> e.hist,
                host |-> e.host, top |-> e.top] : e \in AllShapes}
===============================================================================
