---------------------------- MODULE AgentQueueMC ----------------------------
(* Instances of AgentQueue.
   Small ring (exhaustive): QLen 8 / FutureSlots 1 / Spread 4 with resolutions {1,2}, and
   QLen 16 / 1 / 8 with {1,2,4}: the same tight relation Spread = 2 * max resolution,
   QLen = Spread + FutureSlots + 3 + ... as 128 / 3 / 120 with resolutions up to 60.
   Real constants: 128 / 3 / 120, start 86400000 (Test_AgentQueue's instant, a multiple of 128
   and of 60), used for the behaviours replayed on the real Agent. *)
EXTENDS AgentQueue

M(id, res, sh, sh2, from2) == [id |-> id, res |-> res, sh |-> sh, sh2 |-> sh2, from2 |-> from2]

\* ---- small, one shard
S8Metrics  == { M(1, 1, 1, 0, 0), M(2, 2, 1, 0, 0) }
S8Ticks    == { 0, 1, 2, 9 }
S8TicksB   == { 0 - 1, 0, 1, 2, 9, 19 }
S8Offs     == { 0 - 10, 0 - 2, 0 - 1, 0, 1, 2, 11 }
S16Metrics == { M(1, 1, 1, 0, 0), M(2, 2, 1, 0, 0), M(4, 4, 1, 0, 0) }
S16Ticks   == { 0, 1, 2, 8, 17 }
S16Offs    == { 0 - 18, 0 - 3, 0 - 1, 0, 1, 2, 19 }
AllSpread(r) == 0..(r - 1)
EdgeSpread(r) == {0, r - 1}

\* ---- small, two shards: metric 1 lives on shard 1, metric 2 on shard 2 with secondary shard 1
\*      from second 66, metric 3 on shard 1 with secondary shard 2 from the start
D8Metrics  == { M(1, 1, 1, 0, 0), M(2, 2, 2, 1, 66), M(3, 1, 1, 2, 0) }
D8Ticks    == { 0, 1, 2, 9 }
D8Offs     == { 0 - 2, 0, 1, 2 }

\* ---- broken on purpose (vacuity): a resolution the ring is too short for
BadMetrics == { M(1, 1, 1, 0, 0), M(4, 4, 1, 0, 0) }

\* ---- real constants
R0 == 86400000
RMetrics   == { M(1, 1, 1, 0, 0), M(2, 5, 2, 0, 0), M(3, 60, 1, 2, R0 + 60), M(4, 15, 2, 1, R0 + 15),
                M(5, 1, 2, 1, R0 + 2), M(6, 2, 1, 0, 0), M(7, 30, 1, 0, 0),
                \* 50..69 / 70..89: the driver makes these hardware metrics (resolution configured in the shard)
                M(58, 5, 1, 0, 0), M(72, 20, 2, 1, R0 + 20) }
RTicks     == { 0 - 1, 0, 1, 2, 3, 5, 6, 7, 60, 124, 125, 126, 127, 128, 129, 131, 255, 256, 257, 400 }
ROffs      == { 0 - 300, 0 - 130, 0 - 126, 0 - 125, 0 - 61, 0 - 59, 0 - 8, 0 - 7, 0 - 6, 0 - 5, 0 - 4,
                0 - 3, 0 - 2, 0 - 1, 0, 1, 2, 3, 4, 5, 6, 100 }
\* exhaustive export with the real constants: boundary alphabet.  The start instant B0 makes
\* CurrentTime + FutureSlots a multiple of 60, the tightest alignment of the ring: a 60-second row
\* with spread index 59 clamped to CurrentTime+3 lands QLen-1 slots ahead of a SendTime lagging by 5
B0 == R0 + 60 - FutureSlots
BMetrics   == { M(1, 1, 1, 0, 0), M(3, 60, 1, 2, R0 + 60), M(5, 1, 2, 1, B0 + 1) }
BTicks     == { 1, 7, 130 }
BOffs      == { 0 - 7, 0, 4 }
BMetrics2  == { M(1, 1, 1, 0, 0), M(3, 60, 1, 2, R0 + 60), M(2, 5, 2, 0, 0), M(5, 1, 2, 1, B0 + 1) }
BTicks2    == { 0, 1, 2, 7, 130 }
BOffs2     == { 0 - 126, 0 - 7, 0 - 1, 0, 3, 4 }

(* directed family: SendTime lagging around the discard threshold (QLen - FutureSlots - Spread = 5, so lags 5..9)
   with the channel occupied or not, and a 60-second row stamped at / beyond CurrentTime + FutureSlots (the next
   minute boundary, see B0) whose spread index is one of the last ones - the rows that reach the far end of the ring *)
LMetrics   == { M(3, 60, 1, 2, R0 + 60), M(1, 1, 1, 0, 0) }
LOffs      == { 3, 4 }
LastSpread(r) == { x \in {0, r - 3, r - 2, r - 1} : x >= 0 }

(* exhaustive export with the real constants, shaped so that every behaviour is worth replaying:
   start state (lag of SendTime, channel occupied), a clock step, a flush or an event, an event,
   then a flush / consume / shutdown - all combinations over the boundary alphabet *)
BehNext ==
    LET n == Len(hist) IN
    /\ n < MaxOps
    /\ \/ n = 1 /\ \E d \in Ticks, hf \in BOOLEAN : Tick(d, hf)
       \/ n = 2 /\ ((\E s \in Shards : Flush(s)) \/ FlushAll \/ EventChoice)
       \/ n = 3 /\ EventChoice
       \/ n = 4 /\ ((\E s \in Shards : Flush(s)) \/ FlushAll \/ (\E s \in Shards : Consume(s)) \/ Stop)
       \/ n = 5 /\ FlushAllData
ExportBeh == IF Len(hist') >= 6 \/ (Len(hist') = 5 /\ hist'[5].a # "Stop") THEN PrintBeh ELSE TRUE

(* simulation: TLC evaluates every disjunct of the next-state relation and picks uniformly among the
   successors, so the action class is drawn first (weights below), then one random representative of
   the class; two draws per step so that a disabled class rarely ends the trace early *)
Pick(S) == {RandomElement(S)}
SimTick(c)  == \E d \in Pick(IF c = 1 THEN Ticks ELSE {0, 1, 2, 3}), hf \in Pick(BOOLEAN) : Tick(d, hf)
SimFlush    == IF closed THEN SimTick(2) ELSE \E s \in Pick(Shards) : Flush(s)
SimStep(c) ==
    \/ c \in 1..4 /\ SimTick(c)
    \/ c \in 5..6 /\ SimFlush
    \/ c \in 7..9 /\ (IF closed THEN SimTick(2) ELSE FlushAll)
    \/ c \in 22..26 /\ \E s \in Pick(Shards) : IF chan[s] # <<>> THEN Consume(s) ELSE SimFlush
    \/ /\ c \in 10..15
       /\ IF nid >= MaxEvents THEN SimTick(2) ELSE
          \E kind \in Pick(Kinds), m \in Pick(Metrics) :
            \E ts \in Pick({clock + o : o \in (IF c <= 12 THEN TsOffs ELSE {0 - 2, 0 - 1, 0, 1, 2, 3})}
                            \cup (IF kind = "api" /\ c = 10 THEN {0} ELSE {})) :
              \E h \in Pick(IF kind = "api" \/ m.res = 1 THEN {0} ELSE SpreadOf(m.res)) :
                Event(kind, m, ts, h)
    \/ c \in 16..19 /\ \E s \in Pick(Shards) : IF chan[s] # <<>> THEN Consume(s) ELSE SimFlush
    \/ c = 20 /\ (IF Len(hist) >= MaxOps - 12 /\ ENABLED StopCore THEN Stop ELSE SimTick(2))
    \/ c = 21 /\ (IF ~closed /\ \A s \in Shards : stopped[s] THEN FlushAllData ELSE SimFlush)
SimNext == /\ Len(hist) < MaxOps
           /\ \E c \in Pick(1..26) : SimStep(c)
===============================================================================
