SPECIFICATION Spec
CONSTANTS
  NReq = 2
  Hard = 3
  Soft = 2
  S0 = 1
  D = 2
  NInc = 1
  FixWake = FALSE
INVARIANTS TypeOK NoStuck
PROPERTIES AllDone
CHECK_DEADLOCK FALSE
