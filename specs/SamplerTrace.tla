---------------------------- MODULE SamplerTrace ----------------------------
(* I->S: validates executions of the real sampler (harness internal/data_model/
   verif_c05c06_sampler_test.go) against Sampler.  One run = Reset (options, metric storage,
   the rows, the budget and which RoundF / SelectF hooks were installed), Add per row, Run,
   then what the code did: Select (every SelectF call: factor, rows in the order the selector
   left them, how many it kept), Keep / Discard callbacks in the code's order with the row's
   sample factor as an exact fraction, SF (reported metric factors), End.

   The specification recomputes the water-filling (PlanCore, same operators as the model
   checked instances) and the REAL decisions are stored in `out`; the property invariants of
   Sampler are then evaluated on every state of the real execution.  The ghost keep
   probability of a row is what the selector's contract promises: 1/sf for rows passed to a
   SelectF call with sf > 1, 1 for every other row.  Nothing about which rows the selector
   keeps, how many whales there are or what the factor's value is gets demanded. *)
EXTENDS Sampler
VARIABLES l,      \* next trace line
          mode,   \* [r |-> rounding hook, s |-> selection hook] of the current run
          sels,   \* SelectF calls of the current run
          sfs     \* reported sample factors: sequence of [m, fn, fd]
Trace == ndJsonDeserialize("trace.ndjson")
ASSUME TLCSet(7, 0)

tvars == <<vars, l, mode, sels, sfs>>
IsEvent(e) == l <= Len(Trace) /\ Trace[l].ev = e /\ l' = l + 1
ToSet(s) == {s[i] : i \in 1..Len(s)}
Ids(s) == {s[k].id : k \in DOMAIN s}
Of(s, id) == s[CHOOSE k \in DOMAIN s : s[k].id = id]

NoOpts == [agent |-> FALSE, single |-> FALSE, nonsa |-> FALSE, budgets |-> FALSE, ns |-> FALSE, grp |-> FALSE,
           keys |-> FALSE, quota |-> FALSE]
TrInit == /\ InitWith([opts |-> NoOpts, nsW |-> <<>>, grpW |-> <<>>, meta |-> <<>>, items |-> <<>>, budget |-> 0])
          /\ l = 1 /\ mode = [r |-> "floor", s |-> "det"] /\ sels = <<>> /\ sfs = <<>>

TrReset ==
  /\ IsEvent("Reset")
  /\ LET e == Trace[l] IN
     /\ input' = [opts |-> e.opts,
                  nsW |-> [id \in Ids(e.nsW) |-> Of(e.nsW, id).w],
                  grpW |-> [id \in Ids(e.grpW) |-> Of(e.grpW, id).w],
                  meta |-> [id \in Ids(e.meta) |-> Of(e.meta, id)],
                  items |-> e.items, budget |-> e.budget]
     /\ out' = [i \in 1..Len(e.items) |-> <<>>]
     /\ mode' = [r |-> e.rmode, s |-> e.smode]
  /\ phase' = "add" /\ nadd' = 0 /\ ro' = <<>> /\ plan' = {} /\ todo' = {} /\ sels' = <<>> /\ sfs' = <<>>

TrAdd ==
  /\ IsEvent("Add")
  /\ LET e == Trace[l] IN
       /\ e.i \in 1..N /\ It(e.i).m = e.m /\ It(e.i).size = e.size /\ It(e.i).ww = e.ww
       /\ nadd' = e.i /\ phase = "add" /\ e.i = nadd + 1
  /\ UNCHANGED <<input, phase, out, ro, plan, todo, mode, sels, sfs>>   \* a row of size < 1 gets its Discard event

TrRun ==
  /\ IsEvent("Run")
  /\ Trace[l].budget = input.budget
  /\ \E r \in OraclesFor(mode.r) : PlanCore(r)
  /\ UNCHANGED <<out, mode, sels, sfs>>

TrSelect ==
  /\ IsEvent("Select")
  /\ sels' = Append(sels, [fn |-> Trace[l].fn, fd |-> Trace[l].fd, items |-> Trace[l].items, ret |-> Trace[l].ret])
  /\ UNCHANGED <<vars, mode, sfs>>

\* the SelectF call row i went through (0 = none)
SelOf(i) == IF \E k \in DOMAIN sels : i \in ToSet(sels[k].items)
            THEN CHOOSE k \in DOMAIN sels : i \in ToSet(sels[k].items) ELSE 0
Ghost(i, d, fn, fd, q) ==
  LET k == SelOf(i) IN
  IF fd = 0 THEN Rec(d, fn, fd, 0, 1, q)                                            \* MaxFloat32: never kept
  ELSE IF k = 0 \/ sels[k].fn <= sels[k].fd THEN Rec(d, fn, fd, 1, 1, q)            \* unconditional
  ELSE Rec(d, fn, fd, sels[k].fd, sels[k].fn, q)                                    \* kept with probability 1/sf

TrKeep ==
  /\ IsEvent("Keep")
  /\ LET e == Trace[l] IN out' = Put(out, e.i, Ghost(e.i, "keep", e.fn, e.fd, e.q))
  /\ UNCHANGED <<input, phase, nadd, ro, plan, todo, mode, sels, sfs>>

TrDiscard ==
  /\ IsEvent("Discard")
  /\ LET e == Trace[l] IN out' = Put(out, e.i, Ghost(e.i, "discard", e.fn, e.fd, 0))
  /\ UNCHANGED <<input, phase, nadd, ro, plan, todo, mode, sels, sfs>>

TrSF ==
  /\ IsEvent("SF")
  /\ sfs' = Append(sfs, [m |-> Trace[l].m, rank |-> Trace[l].rank])
  /\ UNCHANGED <<vars, mode, sels>>

TrEnd ==
  /\ IsEvent("End")
  /\ phase \in {"add", "sample"}          \* Run returns at once when the bucket is empty
  /\ phase' = "done" /\ todo' = {}
  /\ UNCHANGED <<input, nadd, out, ro, plan, mode, sels, sfs>>

TrNext == TrReset \/ TrAdd \/ TrRun \/ TrSelect \/ TrKeep \/ TrDiscard \/ TrSF \/ TrEnd
TraceSpec == TrInit /\ [][TrNext]_tvars

-------------------------------------------------------------------------------
(* properties that need the run's hooks or the recorded calls *)
\* rows through a selector call: kept iff among the first `ret`; no row in two calls
SelectorConsistent ==
  Done => /\ \A k \in DOMAIN sels : \A j \in DOMAIN sels[k].items :
               LET i == sels[k].items[j] IN Len(out[i]) = 1 => ((Dec(i).d = "keep") = (j <= sels[k].ret))
          /\ \A k1, k2 \in DOMAIN sels : k1 # k2 => ToSet(sels[k1].items) \cap ToSet(sels[k2].items) = {}
\* C05 on the real callbacks: a row that went through a SelectF call carries exactly the factor the
\* selector was given (it keeps with probability 1/sf); any other row is kept unconditionally, factor 1
TrUnbiased ==
  ~Opt.quota => \A i \in Bucket : Len(out[i]) = 1 =>
     LET k == SelOf(i) IN IF k = 0 THEN Dec(i).fn = Dec(i).fd /\ Dec(i).d = "keep"
                          ELSE Dec(i).fn = sels[k].fn /\ Dec(i).fd = sels[k].fd
TrKeptWithinBudget == KeptWithinBudgetOf(mode.s, mode.r, BoundClass)
TrQuotaWithinTotal == QuotaWithinTotalOf(mode.r)
\* reported factor of a metric: the harness logs the rank of the reported float32 value among the
\* factors above 1 reported in this run (0 when nothing above 1 is reported, i.e. factor 1)
SfRank(m) == IF \E k \in DOMAIN sfs : sfs[k].m = m THEN sfs[CHOOSE k \in DOMAIN sfs : sfs[k].m = m].rank ELSE 0
\* sibling metrics that are leaves: larger size/weight ratio => not smaller reported factor
IsMetricLeafKid(c) == ~c.fixed /\ ~c.nsa /\ ~c.inner /\ Len(c.id) >= 2 /\ c.id[Len(c.id) - 1] = 3
TrMonotone ==
  (Done /\ ~Opt.quota /\ ~Opt.single) =>
    \A n \in Nodes(plan) : \A a, b \in n.kids :
      \* (a share of 0 is sampled as a share of 1 unit whatever the weight: `if sfDenom < 1 { sfDenom = 1 }`)
      (IsMetricLeafKid(a) /\ IsMetricLeafKid(b) /\ a.size * b.weight > b.size * a.weight /\ (a.fit \/ a.b >= 1) /\ (b.fit \/ b.b >= 1)) =>
         SfRank(a.id[Len(a.id)]) >= SfRank(b.id[Len(b.id)])

HighWater == TLCSet(7, IF l > TLCGet(7) THEN l ELSE TLCGet(7))
TraceAccepted == IF TLCGet(7) = Len(Trace) + 1 THEN TRUE
                 ELSE PrintT(<<"TRACE_REJECTED_AT_LINE", TLCGet(7)>>) /\ FALSE
TraceView == <<input, phase, nadd, out, ro, plan, todo, l, mode, sels, sfs>>
===============================================================================
