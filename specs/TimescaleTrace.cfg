SPECIFICATION TraceSpec
CONSTANTS
  Resolutions <- MCResolutions
  Month = 2678400
  Limit = 8192
  Week = 604800
CONSTRAINT Report
CHECK_DEADLOCK FALSE
