------------------------------ MODULE RowTransfer ------------------------------
(* C02 - row aggregates survive the agent -> aggregator transfer unchanged.

   One agent row (data_model.MultiItem: key, Tail, Top) is built from a sequence of events the
   way agent.Shard.ApplyCounter / ApplyValues / ApplyUnique do (MapStringTop selects the tail or
   a string-top entry, then MultiValue.AddCounterHost / ApplyValues / ApplyUnique), and is then
   sent with a sample factor.  The terminal action Transfer is SPECIFIED by the property
   (RowAlgebra!TransferSpec, KeySpec); the invariant CodecMatchesSpec says that the code's
   encoder and decoder (RowAlgebra!Encode / DecodeInto, EncodeKey / DecodeKey, transcribed from
   transfer.go) compose to exactly that for every reachable row and every sample factor.

   hist is the behaviour exported to the conformance driver
   (harness/internal/data_model/verif_c02_transfer_test.go): the key, the events, and in the
   Transfer step the agent row before (with the admissible host sets) and the aggregator row
   after, as the property demands it.                                                      *)
EXTENDS RowAlgebra, Json

CONSTANTS Shapes,      \* event shapes (records, see RowAlgebra)
          TopKeys,     \* string-top keys that events may address (besides 0 = tail)
          SFs,         \* sample factors
          Percs,       \* subset of BOOLEAN: is the metric a percentile metric
          KeyShapes,   \* keys [id, metric, tags, stags, ts]
          BucketTime,  \* second of the bucket that carries the row
          Window,      \* data_model.BelieveTimestampWindow
          MinEv,       \* Transfer is taken only after this many events (1; larger in simulation)
          MaxEv,       \* bound on the number of events
          MaxCnt       \* bound on the count of one multi-value (keeps the real t-digest, compression
                       \* 40 / 80, from merging distinct centroids: weights >= 1/2, total <= 25)

VARIABLES row,    \* [tail |-> MV, top |-> [subset of TopKeys -> MV]]
          key,    \* the row's key (an element of KeyShapes)
          perc,   \* metricInfo.HasPercentiles
          nev,    \* number of events applied
          agg,    \* <<>> or <<aggregator row>> after Transfer
          hist

vars == <<row, key, perc, nev, agg, hist>>
View == <<row, key, perc, nev, agg>>

EmptyRow == [tail |-> MV0, top |-> <<>>]

Cell(r, t) == IF t = 0 THEN r.tail ELSE IF t \in DOMAIN r.top THEN r.top[t] ELSE MV0
SetCell(r, t, v) == IF t = 0 THEN [r EXCEPT !.tail = v]
                    ELSE [r EXCEPT !.top = [x \in DOMAIN r.top \cup {t} |-> IF x = t THEN v ELSE r.top[x]]]

KeyOf(ks) == [metric |-> ks.metric, tags |-> ks.tags, stags |-> ks.stags, ts |-> ks.ts]

Init == /\ row = EmptyRow
        /\ key \in KeyShapes
        /\ perc \in Percs
        /\ nev = 0
        /\ agg = <<>>
        /\ hist = << [a |-> "Init", key |-> key.id, perc |-> perc] >>

(* agent.Shard.Apply*: count <= 0 events are dropped before MapStringTop is reached *)
EventCore(e, pick) ==
    /\ agg = <<>>
    /\ EffCount(e) > 0
    /\ Cell(row, e.top).cnt + EffCount(e) <= MaxCnt
    /\ row' = SetCell(row, e.top, ApplyEvent(Cell(row, e.top), e, perc, pick))
    /\ nev' = nev + 1
    /\ UNCHANGED <<key, perc, agg>>
Event(e, pick) == EventCore(e, pick) /\ hist' = Append(hist, [a |-> "Ev", s |-> e.id])

(* --- the property: what must arrive ------------------------------------------------------ *)
TransferSpecRow(r, sf) == [tail |-> TransferSpec(r.tail, sf, perc),
                           top  |-> [t \in DOMAIN r.top |-> TransferSpec(r.top[t], sf, perc)]]

(* --- the code: sampleBucket's keepF, then MergeWithTLMultiItem into a fresh item --------- *)
EncodeRow(r, sf) == [tail |-> Encode(r.tail, sf, perc),
                     top  |-> [t \in DOMAIN r.top |-> Encode(r.top[t], sf, perc)]]
DecodeRow(w) == [tail |-> Decode(w.tail), top |-> [t \in DOMAIN w.top |-> Decode(w.top[t])]]
DecodeRowTwice(w) ==
    [tail |-> DecodeInto(Decode(w.tail), w.tail, FALSE),
     top  |-> [t \in DOMAIN w.top |-> DecodeInto(Decode(w.top[t]), w.top[t], FALSE)]]

(* projections for the JSON export: string-top entries as a set of [k, v], key tags as pairs *)
KeyJ(ks) == [metric |-> ks.key.metric, ts |-> ks.key.ts, warn |-> ks.warn,
             tags  |-> {<<i, ks.key.tags[i]>> : i \in DOMAIN ks.key.tags},
             stags |-> {<<i, ks.key.stags[i]>> : i \in DOMAIN ks.key.stags}]
JRow(r) == [tail |-> ProjA(r.tail), top |-> {[k |-> t, v |-> ProjA(r.top[t])] : t \in DOMAIN r.top}]

TransferCore(sf) ==
    /\ agg = <<>>
    /\ nev >= MinEv
    /\ agg' = << TransferSpecRow(row, sf) >>
    /\ UNCHANGED <<row, key, perc, nev>>
Transfer(sf) ==
    /\ TransferCore(sf)
    /\ hist' = Append(hist, [a |-> "Transfer", sf |-> sf, pre |-> JRow(row),
                             post |-> JRow(TransferSpecRow(row, sf)),
                             kpost |-> KeyJ(KeySpec(KeyOf(key), BucketTime, Window))])

Next == \/ /\ nev < MaxEv
           /\ \E e \in Shapes : \E pick \in (IF EventDice(Cell(row, e.top), e) THEN BOOLEAN ELSE {FALSE}) :
                 Event(e, pick)
        \/ \E sf \in SFs : Transfer(sf)

Spec == Init /\ [][Next]_vars

-------------------------------------------------------------------------------
(* Properties *)

(* C02: decode(encode(row, sf)) is what the property specifies, for every sample factor *)
RowMatches(got, want, k) ==
    /\ Matches(got.tail, want.tail, k)
    /\ DOMAIN got.top = DOMAIN want.top
    /\ \A t \in DOMAIN want.top : Matches(got.top[t], want.top[t], k)

CodecMatchesSpec ==
    \A sf \in SFs : RowMatches(DecodeRow(EncodeRow(row, sf)), TransferSpecRow(row, sf), 1)

(* a second agent sending the same row doubles what is additive and keeps min/max/hosts *)
CodecAdditive ==
    \A sf \in SFs : RowMatches(DecodeRowTwice(EncodeRow(row, sf)), TransferSpecRow(row, sf), 2)

(* the key survives *)
KeyCodec == LET k == KeyOf(key)
            IN DecodeKey(EncodeKey(k, BucketTime), BucketTime, Window) = KeySpec(k, BucketTime, Window)

(* C04 on the agent side: whatever was applied, the hosts the row reports are admissible *)
RowHostsAdmissible == /\ HostsAdmissible(row.tail)
                      /\ \A t \in DOMAIN row.top : HostsAdmissible(row.top[t])

(* ghost bookkeeping is coherent: a row has value aggregates iff some value event reached it,
   count is positive exactly then, and sum lies between min*count' and max*count' for the
   count' <= count of weighted values (a sanity bound that the defect of MultiValueToTL breaks
   on the receiving side) *)
RowSane == \A t \in {0} \cup DOMAIN row.top :
             LET s == Cell(row, t) IN
               /\ s.set => s.cnt > 0 /\ s.min <= s.max
               /\ ~s.set => (s.sum = 0 /\ s.sq = 0 /\ ~s.dig)
               /\ s.dig => (perc /\ s.set /\ s.min < s.max)
               /\ s.dig => BagWeight(s.cent) <= s.cnt * DEN

Export == IF agg' # <<>> /\ agg = <<>> THEN PrintT(<<"BEH", ToJson(hist')>>) ELSE TRUE
===============================================================================
