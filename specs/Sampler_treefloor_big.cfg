\* generated by gen_sampler_cfgs.py
INIT MCInit
NEXT MCNextFast
CONSTANTS
  RoundMode = "floor"
  SelectMode = "det"
  LegacyBreak = FALSE
  MetricDefs <- TreeMetrics
  SlotDefs <- TreeSlots
  Sizes <- Sz13
  WWs = {1}
  MWs = {1}
  NWs = {1, 2}
  GWs = {1}
  Buds = {0}
  BudAllowed <- AllMetrics
  NSAs = {FALSE}
  OptSets <- OptsTreeFull
  Budgets = {4}
VIEW MCView
INVARIANTS TypeOK AtMostOnce ExactlyOnce Unbiased KeptRowsFactorGE1 NoSampleAgentKept SameFactorInLeaf FitsNothingSampled FairShare FixedWithinBudget FairShareRemaining FitIsJustified Monotone KeptWithinBudget QuotaWithinTotal QuotaProportional QuotaFitIsSize QuotaWithinTotalAnyRounding MustMatchesMechanism ExportDone
CHECK_DEADLOCK FALSE
