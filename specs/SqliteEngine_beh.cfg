INIT Init
NEXT Next
CONSTANTS
  Writes <- MCW3
  FailW <- MCNone
  Readers = {}
  Role = "replica"
  Dur = "wait"
  SvcSizes <- MCSvc
  StartSize = 24
  Size <- MCSize
  MaxCrash = 1
  MaxReads = 0
  MaxClose = 0
  AllowDesync = TRUE
  MaxOps = 8
VIEW View
ACTION_CONSTRAINT ExportEnd
INVARIANTS TypeOK DbIsPrefix DbNotAheadOfSync TxMirrorsRead CommitInfoSound
CHECK_DEADLOCK FALSE
