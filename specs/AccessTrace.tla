------------------------------ MODULE AccessTrace ------------------------------
(* I->S for C30: validates decisions recorded from the real access-control code (harness
   internal/api/verif_c30_access_test.go, TestVerifC30Random) against Access.  Every decision
   (token accepted or not, the accessInfo built, view / edit granted or not) is taken from the
   trace; the property invariants of Access are evaluated on it in every step.  Names are
   sequences of single characters here, so the real strings are compared exactly.
   Line 1 is a Config event carrying the remote-config names. *)
EXTENDS Access
VARIABLE l
Trace == ndJsonDeserialize("trace.ndjson")
ASSUME TLCSet(7, 0)

tvars == <<vars, l>>
IsEvent(e) == l <= Len(Trace) /\ Trace[l].ev = e /\ l' = l + 1
ToSet(s) == {s[i] : i \in 1..Len(s)}

TrRemoteConfig == ToSet(Trace[1].rc)
TrHealthMetric == Trace[1].health

TokOf(t) == [alg |-> t.alg, kind |-> t.kind, kid |-> t.kid, signer |-> t.signer, tamper |-> t.tamper,
             iss |-> t.iss, user |-> t.user, service |-> t.service, nbf |-> t.nbf, iat |-> t.iat, exp |-> t.exp,
             bits |-> ToSet(t.bits)]
AIOf(a) == [admin |-> a.admin, developer |-> a.developer, viewDefault |-> a.viewDefault, editDefault |-> a.editDefault,
            viewPrefix |-> ToSet(a.viewPrefix), editPrefix |-> ToSet(a.editPrefix),
            viewMetric |-> ToSet(a.viewMetric), editMetric |-> ToSet(a.editMetric)]

TrInit == Init /\ l = 1

TrConfig == /\ IsEvent("Config")
            /\ Trace[l].app = App
            /\ UNCHANGED vars

TrParse == /\ IsEvent("Parse")
           /\ LET e == Trace[l]
                  s == [mode |-> e.mode, tok |-> TokOf(e.tok), prot |-> ToSet(e.prot), now |-> e.now, fam |-> "trace", ep |-> e.ep]
              IN /\ ParseCore(s, e.out, AIOf(e.ai))
                 \* the identity carried by the token is the identity of the session
                 /\ (e.out = "ok" /\ e.mode = "token") => (e.user = e.tok.user /\ e.service = e.tok.service)
           /\ hist' = hist

TrView == /\ IsEvent("View")
          /\ ViewCore(Trace[l].name, Trace[l].granted)
          /\ hist' = hist

TrEdit == /\ IsEvent("Edit")
          /\ EditCore([create |-> Trace[l].create, old |-> Trace[l].old, new |-> Trace[l].new], Trace[l].granted)
          /\ hist' = hist

TrNext == TrConfig \/ TrParse \/ TrView \/ TrEdit
TraceSpec == TrInit /\ [][TrNext]_tvars

HighWater == TLCSet(7, IF l > TLCGet(7) THEN l ELSE TLCGet(7))
TraceAccepted == IF TLCGet(7) = Len(Trace) + 1 THEN TRUE
                 ELSE PrintT(<<"TRACE_REJECTED_AT_LINE", TLCGet(7)>>) /\ FALSE
TraceView == <<View, l>>
===============================================================================
