SPECIFICATION FairSpec
CONSTANTS
  BufLen = 10
  WaitPct = 20
  MaxPkts = 2
  MaxErrs = 1
  MaxSpur = 0
  PktLens <- Len1
  TimeoutSignals = TRUE
  SkipOnErr = TRUE
  ReportRetry = TRUE
  ReportClaim = "swap"
  DeadlineArmed = FALSE
  AllowClose = FALSE
  AllowRecon = FALSE
  RecordHist = FALSE
  MaxHist = 0
INVARIANTS TimerSane
PROPERTIES EventuallyWritten
CHECK_DEADLOCK FALSE
