--------------------------- MODULE TableAssemblyTrace ---------------------------
(* I->S: input/output pairs recorded from the real getTableFromLODs (harness
   internal/api/verif_c25_table_test.go, seeded random inputs larger than the model-checked
   instance: up to 3 LODs, 3 handler-whats, 2 group-by tags plus string top, longer windows)
   are checked against the relation of TableRelation.tla.  One state per recorded call; the
   clauses of the property are invariants, so a rejected call names the clause it breaks. *)
EXTENDS TableRelation, TLC, Json
VARIABLE l
Trace == ndJsonDeserialize("trace.ndjson")
ASSUME TLCSet(7, 0)

ToSet(s) == {s[i] : i \in 1..Len(s)}
Have == l <= Len(Trace)
In == LET e == Trace[l].inp
      IN [lods |-> e.lods, st |-> [q \in 1..Len(e.st) |-> ToSet(e.st[q])], w |-> Trace[l].w,
          from |-> e.from, to |-> e.to, desc |-> e.desc, limit |-> e.limit]
Out == Trace[l].out

TrInit == l = 1
TrNext == Have /\ l' = l + 1
TraceSpec == TrInit /\ [][TrNext]_l

\* sanity of the recorded input (the storage contract the stub implements)
TrInputOK == Have => /\ Len(In.w) = Len(In.st) /\ Len(In.lods) >= 1
                     /\ \A k \in StoredKeys(In) : In.lods[1][1] <= k[1] /\ k[1] < In.lods[Len(In.lods)][2]
TrAligned == Have => Aligned(In, Out)
TrUnique  == Have => Unique(Out)
TrOrdered == Have => Ordered(In, Out)
TrWindow  == Have => WindowRespected(In, Out)
TrLimit   == Have => LimitRespected(In, Out)
TrFirst   == Have => FirstRows(In, Out)
TrHasMore == Have => HasMoreExact(In, Out)

HighWater == TLCSet(7, IF l > TLCGet(7) THEN l ELSE TLCGet(7))
TraceAccepted == IF TLCGet(7) = Len(Trace) + 1 THEN TRUE
                 ELSE PrintT(<<"TRACE_REJECTED_AT_LINE", TLCGet(7)>>) /\ FALSE
===============================================================================
