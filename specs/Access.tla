-------------------------------- MODULE Access --------------------------------
(* API access control (internal/vkgo/vkuth/access.go, internal/api/access.go), property C30.

   One request = one session: the handler presents the access token (requestHandler.init ->
   parseAccessToken -> JWTHelper.ParseVkuthData -> Claims.Valid), gets an accessInfo or an
   error (on the healthcheck endpoint a rejected token falls back to a fixed identity that can
   read one metric), and then asks CanViewMetricName / CanEditMetric.

   Two layers in one module:
   * the PROPERTY, written from the property text only, over the token as presented and the
     metric values as given (operators Necessary / Sufficient / Carried / ViewRight / EditRight /
     ViewDeny / EditDeny and the invariants at the end);
   * the MECHANISM transcribed from the code (operators Impl...): WithValidMethods, the key
     function, Claims.Valid with its asymmetric use of JWTTimeWindow, stripFullBit, the bit
     switch of parseAccessToken, CanViewMetricName, canChangeMetricByName, CanEditMetric.
   TLC checks that the mechanism implies the property over the whole decision space.  The same
   invariants are evaluated by AccessTrace.tla on decisions recorded from the real code.

   Conventions
   * time in milliseconds relative to the whole second T of the injected clock: claims are
     multiples of 1000 (jwt NumericDate has second precision), now = T + fraction;
     NoTime = claim absent.
   * metric names, prefixes and bit arguments are sequences of strings; the real string is
     their concatenation.  The model alphabets are prefix-free ("a", "b", "p_", "n", ":", "@",
     the remote-config names), and AccessTrace uses single characters, so "sequence prefix"
     = "string prefix" and "@" is always its own element.
   * a token bit is [app, kind, arg]: "<app>:<kind>.<arg>" for the six kinds with an argument,
     "<app>:<kind><arg>" otherwise; app = "-" renders no "<app>:" at all.                      *)
EXTENDS Integers, Sequences, FiniteSets, TLC, Json

CONSTANTS App,         \* application name given to NewJWTHelper ("statshouse")
          Issuer,      \* vkuth.TokenIssuer
          Tol,         \* vkuth.JWTTimeWindow in ms
          Configured,  \* ids (fingerprints) of the configured public keys
          RemoteConfig,\* format.RemoteConfigMetric names
          HealthMetric,\* the one metric the healthcheck endpoint may read without a token
          CheckTagId,  \* TRUE: CanEditMetric compares the presort tag id (the repaired code); FALSE: the
                       \* code before the fix of C30 (kept to show the defect at design level)
          Sessions,    \* MC: set of [mode, tok, prot, now, fam] to present
          Names,       \* MC: fam -> names asked with CanViewMetricName in sessions of that family
          Edits,       \* MC: fam -> set of [create, old, new] asked with CanEditMetric
          ExtraBits,   \* MC: bits tried by the monotonicity invariant
          Exporting,   \* MC: TRUE = hist carries the full steps and the spec's verdicts (behaviour export)
          MaxOps

VARIABLES now,   \* injected clock of the session
          sess,  \* [st |-> "none"] | [st |-> "rejected" | "ok" | "healthcheck", mode, tok, prot, ep, fam, ai,
                 \*   deny, must, carried]  (the last three: what the PROPERTY says about the token as
                 \*   presented - violated acceptance clauses, must-accept, rights carried)
          last,  \* the last decision taken (observation)
          hist

vars == <<now, sess, last, hist>>
View == <<now, sess, last>>

NoTime == 99999999
SimpleKinds == {"admin", "developer", "view_default", "edit_default"}
ArgKinds == {"view_prefix", "edit_prefix", "view_metric", "edit_metric", "view_namespace", "edit_namespace"}

IsPrefix(p, s) == Len(p) <= Len(s) /\ SubSeq(s, 1, Len(p)) = p
Max(a, b) == IF a > b THEN a ELSE b

(* ':' is reserved by vkuth, bits carry '@' for the namespace separator: the first '@' of a
   bit argument stands for ':' *)
NsDecode(s) ==
    IF \E i \in 1..Len(s) : s[i] = "@"
    THEN LET i == CHOOSE i \in 1..Len(s) : s[i] = "@" /\ \A j \in 1..(i - 1) : s[j] # "@"
         IN [s EXCEPT ![i] = ":"]
    ELSE s

IsProtected(prot, n) == \E p \in prot : IsPrefix(p, n)
IsRC(n) == n \in RemoteConfig

-------------------------------------------------------------------------------
(* THE PROPERTY, part 1: which tokens may / must be accepted.

   "accepted only if it is an EdDSA token signed by a configured key whose id it names,
    issued by vkuth, for a user, and within its validity window (with the 5-second tolerance)"
   Necessary takes the loosest reading (tolerance on every edge; exp is the instant "on or
   after which" the token is dead, RFC 7519, so exp + Tol = now is already outside).
   Sufficient is the strictest reading of a well-formed vkuth token (kind header, all three
   time claims present, inside the window without any help from the tolerance): rejecting
   such a token would not be "granting exactly the permissions carried by a valid token".
   Between the two (a claim inside the tolerance or absent, no kind header) either decision
   keeps the property.                                                                       *)
SignedByNamedKey(t) == t.kid \in Configured /\ t.signer = t.kid /\ t.tamper = "none"

(* the clauses, by name (a violated clause is the signature of a finding) *)
TokenDeny(t, nw) ==
    (IF t.alg = "EdDSA" THEN {} ELSE {"AcceptOnlyEdDSA"})
    \cup (IF SignedByNamedKey(t) THEN {} ELSE {"AcceptOnlySignedByNamedKey"})
    \cup (IF t.iss = Issuer THEN {} ELSE {"AcceptOnlyIssuedByVkuth"})
    \cup (IF t.user # "" THEN {} ELSE {"AcceptOnlyForUser"})
    \cup (IF t.exp # NoTime /\ t.exp > nw - Tol THEN {} ELSE {"AcceptOnlyUnexpired"})
    \cup (IF (t.nbf = NoTime \/ t.nbf <= nw + Tol) /\ (t.iat = NoTime \/ t.iat <= nw + Tol)
          THEN {} ELSE {"AcceptOnlyStarted"})
Necessary(t, nw) == TokenDeny(t, nw) = {}

Sufficient(t, nw) ==
    /\ Necessary(t, nw)
    /\ t.kind = "token"
    /\ t.nbf # NoTime /\ t.nbf <= nw
    /\ t.iat # NoTime /\ t.iat <= nw
    /\ t.exp > nw

(* THE PROPERTY, part 2: what a token carries.  "only bits prefixed with the application
   name are granted" *)
AppBits(t) == {b \in t.bits : b.app = App}
Has(t, k) == \E b \in AppBits(t) : b.kind = k /\ b.arg = <<>>
ArgsOf(t, k) == {b.arg : b \in {x \in AppBits(t) : x.kind = k}}
Carried(t) ==
    [admin       |-> Has(t, "admin"),
     developer   |-> Has(t, "developer"),
     viewDefault |-> Has(t, "view_default"),
     editDefault |-> Has(t, "edit_default"),
     viewPrefix  |-> {NsDecode(a) : a \in ArgsOf(t, "view_prefix")} \cup {a \o <<":">> : a \in ArgsOf(t, "view_namespace")},
     editPrefix  |-> {NsDecode(a) : a \in ArgsOf(t, "edit_prefix")} \cup {a \o <<":">> : a \in ArgsOf(t, "edit_namespace")},
     viewMetric  |-> {NsDecode(a) : a \in ArgsOf(t, "view_metric")},
     editMetric  |-> {NsDecode(a) : a \in ArgsOf(t, "edit_metric")}]

Within(ai, c) ==          \* nothing is granted that the token does not carry
    /\ ai.admin => c.admin
    /\ ai.developer => c.developer
    /\ ai.viewDefault => c.viewDefault
    /\ ai.editDefault => c.editDefault
    /\ ai.viewPrefix \subseteq c.viewPrefix
    /\ ai.editPrefix \subseteq c.editPrefix
    /\ ai.viewMetric \subseteq c.viewMetric
    /\ ai.editMetric \subseteq c.editMetric

(* THE PROPERTY, part 3: the policy for a non-admin.
   "can view or edit a metric only through a matching metric, prefix or namespace bit or the
    default bit for unprotected names" *)
ViewRight(c, prot, n) ==
    \/ n \in c.viewMetric
    \/ \E p \in c.viewPrefix : IsPrefix(p, n)
    \/ c.viewDefault /\ ~IsProtected(prot, n)
EditRight(c, prot, n) ==
    \/ n \in c.editMetric
    \/ \E p \in c.editPrefix : IsPrefix(p, n)
    \/ c.editDefault /\ ~IsProtected(prot, n)

(* "can never change weight (except 0->1), presort, sharding, host/sum-square skips or
    raw-tag attributes".  Presort: the tag, the instant it applies from and the only-flag; the
    tag id is inert while presort is off (pre_key_from = 0).  Raw attribute of tag i:
    raw kind non-empty; a missing tag is not raw.                                          *)
Presort(m) == <<m.preFrom, IF m.preFrom = 0 THEN "" ELSE m.preTag, m.preOnly>>
Sharding(m) == <<m.strategy, m.shardNum, m.fixedKey, m.fixedKey2, m.fk2ts>>
Skips(m) == <<m.skipMax, m.skipMin, m.skipSum>>
IsRaw(m, i) == i <= Len(m.raw) /\ m.raw[i] # ""

(* what the property allows (nothing is said about administrators), clause by clause *)
ViewDeny(c, prot, n) ==
    IF c.admin THEN {}
    ELSE (IF ViewRight(c, prot, n) THEN {} ELSE {"ViewNeedsRight"})
         \cup (IF IsRC(n) THEN {"ViewNeverRemoteConfig"} ELSE {})
EditDeny(c, prot, o, n) ==
    IF c.admin THEN {}
    ELSE (IF EditRight(c, prot, o.name) /\ EditRight(c, prot, n.name) THEN {} ELSE {"EditNeedsRightOnBothNames"})
         \cup (IF IsRC(o.name) \/ IsRC(n.name) THEN {"EditNeverRemoteConfig"} ELSE {})
         \cup (IF o.weight = n.weight \/ (o.weight = 0 /\ n.weight = 1) THEN {} ELSE {"EditKeepsWeight"})
         \cup (IF Presort(o) = Presort(n) THEN {} ELSE {"EditKeepsPresort"})
         \cup (IF Sharding(o) = Sharding(n) THEN {} ELSE {"EditKeepsSharding"})
         \cup (IF Skips(o) = Skips(n) THEN {} ELSE {"EditKeepsSkips"})
         \cup (IF \A i \in 1..Max(Len(o.raw), Len(n.raw)) : IsRaw(o, i) = IsRaw(n, i) THEN {} ELSE {"EditKeepsRawTags"})
MayView(c, prot, n) == ViewDeny(c, prot, n) = {}
MayEdit(c, prot, o, n) == EditDeny(c, prot, o, n) = {}

-------------------------------------------------------------------------------
(* THE MECHANISM as coded. *)

(* vkuth.Claims.Valid: exp and iat are required and use the window, nbf is optional and does
   NOT use it (deliberate oddity: "allow up to JWTTimeWindow at both window sides" is applied
   to exp and iat). *)
ImplClaimsValid(t, nw) ==
    /\ t.exp # NoTime /\ (nw - Tol) < t.exp              \* VerifyExpiresAt(now-5s, true): cmp.Before(exp)
    /\ t.iat # NoTime /\ t.iat <= nw + Tol               \* VerifyIssuedAt(now+5s, true): !cmp.Before(iat)
    /\ (t.nbf = NoTime \/ t.nbf <= nw)                   \* VerifyNotBefore(now, false)
    /\ t.iss = Issuer
    /\ t.user # ""

(* JWTHelper.ParseVkuthData: jwt.ParseWithClaims(WithValidMethods{EdDSA}), key function, claims,
   signature (ed25519.Verify with the key the kid names). *)
ImplAccept(t, nw) ==
    /\ t.alg = "EdDSA"
    /\ t.kind = "token"
    /\ t.kid \in Configured                              \* kid present, a string, and configured
    /\ ImplClaimsValid(t, nw)
    /\ t.signer = t.kid /\ t.tamper = "none"

(* stripFullBit + the switch in parseAccessToken.  Rest = text after "<app>:". *)
ImplStripped(t) == {b \in t.bits : b.app = App /\ ~(b.kind = "" /\ b.arg = <<>>)}
ImplAI(t) ==
    LET B == ImplStripped(t)
        exact(k) == \E b \in B : b.kind = k /\ b.arg = <<>>
        args(k) == {b.arg : b \in {x \in B : x.kind = k}}
    IN [admin       |-> exact("admin"),
        developer   |-> exact("developer"),
        viewDefault |-> exact("view_default"),
        editDefault |-> exact("edit_default"),
        viewPrefix  |-> {NsDecode(a) : a \in args("view_prefix")} \cup {a \o <<":">> : a \in args("view_namespace")},
        editPrefix  |-> {NsDecode(a) : a \in args("edit_prefix")} \cup {a \o <<":">> : a \in args("edit_namespace")},
        viewMetric  |-> {NsDecode(a) : a \in args("view_metric")},
        editMetric  |-> {NsDecode(a) : a \in args("edit_metric")}]

NoAI == [admin |-> FALSE, developer |-> FALSE, viewDefault |-> FALSE, editDefault |-> FALSE,
         viewPrefix |-> {}, editPrefix |-> {}, viewMetric |-> {}, editMetric |-> {}]
(* localMode / insecureMode bypass the token entirely (configuration, outside the property) *)
ModeAI(mode) == [NoAI EXCEPT !.viewDefault = TRUE, !.editDefault = TRUE,
                             !.admin = (mode = "local"), !.developer = (mode = "local")]

ImplHasPrefix(S, n) == \E p \in S : IsPrefix(p, n)
ImplCanView(ai, prot, n) ==
    IF IsRC(n) /\ ~ai.admin THEN FALSE
    ELSE \/ n \in ai.viewMetric
         \/ ImplHasPrefix(ai.viewPrefix, n)
         \/ ai.viewDefault /\ ~IsProtected(prot, n)

ImplCanChangeByName(ai, prot, o, n) ==
    IF ai.admin THEN TRUE
    ELSE IF IsRC(o.name) \/ IsRC(n.name) THEN FALSE
    ELSE \/ o.name \in ai.editMetric /\ n.name \in ai.editMetric
         \/ ImplHasPrefix(ai.editPrefix, o.name) /\ ImplHasPrefix(ai.editPrefix, n.name)
         \/ ai.editDefault /\ ~IsProtected(prot, o.name) /\ ~IsProtected(prot, n.name)

(* CanEditMetric (the create flag is ignored by the code; the handler passes old = new on
   create).  The presort tag id is compared while presort is on. *)
ImplCanEdit(ai, prot, o, n) ==
    /\ ImplCanChangeByName(ai, prot, o, n)
    /\ \/ ai.admin
       \/ /\ ~(o.weight # n.weight /\ ~(o.weight = 0 /\ n.weight = 1))
          /\ o.preFrom = n.preFrom
          /\ ((CheckTagId /\ o.preFrom # 0) => o.preTag = n.preTag)
          /\ o.preOnly = n.preOnly
          /\ Skips(o) = Skips(n)
          /\ o.strategy = n.strategy
          /\ o.shardNum = n.shardNum
          /\ o.fixedKey = n.fixedKey
          /\ o.fixedKey2 = n.fixedKey2
          /\ o.fk2ts = n.fk2ts
          /\ \A i \in 1..Max(Len(o.raw), Len(n.raw)) : IsRaw(n, i) = IsRaw(o, i)

-------------------------------------------------------------------------------
NoLast == [op |-> "none"]
Init == /\ now = 0
        /\ sess = [st |-> "none"]
        /\ last = NoLast
        /\ hist = <<>>

(* requestHandler.init / parseAccessToken.  out ("ok" | "rejected" | "healthcheck") and ai are
   the decision taken: the coded one in model checking, the recorded one in trace validation. *)
ParseCore(s, out, ai) ==
    /\ now' = s.now
    /\ sess' = [st |-> out, mode |-> s.mode, tok |-> s.tok, prot |-> s.prot, ep |-> s.ep, fam |-> s.fam,
                ai |-> IF out = "rejected" THEN NoAI ELSE ai,
                deny |-> TokenDeny(s.tok, s.now), must |-> Sufficient(s.tok, s.now), carried |-> Carried(s.tok)]
    /\ last' = [op |-> "parse", out |-> out]

ImplParseAcc(s) == CASE s.mode \in {"local", "insecure"} -> TRUE
                     [] s.mode = "empty" -> FALSE
                     [] OTHER -> ImplAccept(s.tok, s.now)
HealthAI == [NoAI EXCEPT !.viewMetric = {HealthMetric}]
(* requestHandler.init: healthcheckAccessInfo replaces the error on that endpoint only *)
ImplParseOut(s) == IF ImplParseAcc(s) THEN "ok" ELSE IF s.ep = "healthcheck" THEN "healthcheck" ELSE "rejected"
ImplParseAI(s) == IF s.mode \in {"local", "insecure"} THEN ModeAI(s.mode)
                  ELSE IF ImplParseAcc(s) THEN ImplAI(s.tok) ELSE HealthAI

Parse(s) ==
    /\ sess.st = "none"
    /\ ParseCore(s, ImplParseOut(s), ImplParseAI(s))
    /\ hist' = Append(hist, IF ~Exporting THEN [a |-> "Parse"] ELSE
                            [a |-> "Parse", mode |-> s.mode, tok |-> s.tok, prot |-> s.prot, now |-> s.now, ep |-> s.ep,
                             post |-> [impl |-> sess'.st, deny |-> sess'.deny, must |-> sess'.must,
                                       carried |-> sess'.carried]])

(* what the property (plus the healthcheck rule) forbids in the current session *)
SessViewDeny(n) == IF sess.st = "healthcheck" THEN (IF n = HealthMetric THEN {} ELSE {"HealthcheckFallback"})
                   ELSE IF sess.mode = "token" THEN ViewDeny(sess.carried, sess.prot, n) ELSE {}
SessEditDeny(o, n) == IF sess.st = "healthcheck" THEN {"HealthcheckFallback"}
                      ELSE IF sess.mode = "token" THEN EditDeny(sess.carried, sess.prot, o, n) ELSE {}
Live == sess.st \in {"ok", "healthcheck"}
ViewCore(n, granted) ==
    /\ Live
    /\ last' = [op |-> "view", name |-> n, granted |-> granted, deny |-> SessViewDeny(n)]
    /\ UNCHANGED <<now, sess>>
ViewOp(n) ==
    /\ ViewCore(n, ImplCanView(sess.ai, sess.prot, n))
    /\ hist' = Append(hist, IF ~Exporting THEN [a |-> "View"] ELSE
                            [a |-> "View", name |-> n, post |-> [impl |-> last'.granted, deny |-> last'.deny]])

EditCore(e, granted) ==
    /\ Live
    /\ last' = [op |-> "edit", create |-> e.create, old |-> e.old, new |-> e.new, granted |-> granted,
                 deny |-> SessEditDeny(e.old, e.new)]
    /\ UNCHANGED <<now, sess>>
EditOp(e) ==
    /\ EditCore(e, ImplCanEdit(sess.ai, sess.prot, e.old, e.new))
    /\ hist' = Append(hist, IF ~Exporting THEN [a |-> "Edit"] ELSE
                            [a |-> "Edit", create |-> e.create, old |-> e.old, new |-> e.new,
                             post |-> [impl |-> last'.granted, deny |-> last'.deny]])

Next == /\ Len(hist) < MaxOps
        /\ \/ sess.st = "none" /\ \E s \in Sessions : Parse(s)
           \/ Live /\ \E n \in Names[sess.fam] : ViewOp(n)
           \/ Live /\ \E e \in Edits[sess.fam] : EditOp(e)

Spec == Init /\ [][Next]_vars

-------------------------------------------------------------------------------
(* Properties (token sessions only: local / insecure mode is configuration) *)
TokenSess == sess.st # "none" /\ sess.mode \in {"token", "empty"}
OkTokenSess == sess.st = "ok" /\ sess.mode = "token"

AcceptedTok == TokenSess /\ sess.st = "ok"
TokenClause(c) == AcceptedTok => (sess.mode = "token" /\ c \notin sess.deny)
AcceptOnlyEdDSA            == TokenClause("AcceptOnlyEdDSA")
AcceptOnlySignedByNamedKey == TokenClause("AcceptOnlySignedByNamedKey")
AcceptOnlyIssuedByVkuth    == TokenClause("AcceptOnlyIssuedByVkuth")
AcceptOnlyForUser          == TokenClause("AcceptOnlyForUser")
AcceptOnlyUnexpired        == TokenClause("AcceptOnlyUnexpired")
AcceptOnlyStarted          == TokenClause("AcceptOnlyStarted")
AcceptValid       == (TokenSess /\ sess.mode = "token" /\ sess.must) => sess.st = "ok"
OnlyCarriedBits   == OkTokenSess => Within(sess.ai, sess.carried)
(* without an accepted token nothing is granted, except that the healthcheck endpoint may read
   its one metric *)
HealthcheckFallback ==
    sess.st = "healthcheck" =>
       /\ sess.ep = "healthcheck"
       /\ Within(sess.ai, HealthAI)
       /\ (last.op = "view" /\ last.granted) => last.name = HealthMetric
       /\ last.op = "edit" => ~last.granted
(* last.deny = the clauses that forbid the question just asked (computed by ViewCore / EditCore
   from the token as presented, never from the mechanism) *)
ViewClause(c) == (OkTokenSess /\ last.op = "view" /\ last.granted) => c \notin last.deny
ViewNeedsRight        == ViewClause("ViewNeedsRight")
ViewNeverRemoteConfig == ViewClause("ViewNeverRemoteConfig")
EditClause(c) == (OkTokenSess /\ last.op = "edit" /\ last.granted) => c \notin last.deny
EditNeedsRightOnBothNames == EditClause("EditNeedsRightOnBothNames")
EditNeverRemoteConfig     == EditClause("EditNeverRemoteConfig")
EditKeepsWeight           == EditClause("EditKeepsWeight")
EditKeepsPresort          == EditClause("EditKeepsPresort")
EditKeepsSharding         == EditClause("EditKeepsSharding")
EditKeepsSkips            == EditClause("EditKeepsSkips")
EditKeepsRawTags          == EditClause("EditKeepsRawTags")

(* Internal consistency of the mechanism (model checking only: they speak about Impl...) *)
AdminEditsAll     == (OkTokenSess /\ last.op = "edit" /\ sess.ai.admin) => last.granted
NoBitsNoRights    == (OkTokenSess /\ last.op \in {"view", "edit"} /\ AppBits(sess.tok) = {}) => ~last.granted
ViewExact         == (OkTokenSess /\ last.op = "view" /\ ~sess.ai.admin) => (last.granted = (last.deny = {}))
AIExact           == OkTokenSess => sess.ai = sess.carried
(* adding any bit of the universe never removes a right *)
Monotone ==
    (OkTokenSess /\ last.op \in {"view", "edit"} /\ last.granted) =>
      \A b \in ExtraBits :
        LET ai2 == ImplAI([sess.tok EXCEPT !.bits = @ \cup {b}]) IN
        /\ (last.op = "view" /\ last.granted) => ImplCanView(ai2, sess.prot, last.name)
        /\ (last.op = "edit" /\ last.granted) => ImplCanEdit(ai2, sess.prot, last.old, last.new)

Export == PrintT(<<"BEH", ToJson(hist')>>)
===============================================================================
