---------------------------- MODULE PromAggMC ----------------------------
(* Bounded instances of PromAgg.  Labels: series 1 {a=1,b=1}, 2 {a=1,b=2}, 3 {a=2,b=1}:
   by (a) pools {1,2}, by (b) pools {1,3}; without (a) = by (b) on these label sets. *)
EXTENDS PromAgg
MCTagA == [s \in 1..3 |-> IF s <= 2 THEN 1 ELSE 2]
MCTagB == [s \in 1..3 |-> IF s = 2 THEN 2 ELSE 1]
MCValsFull == -1..3
MCValsTwo == {-1, 2}
MCValsFour == {-1, 0, 1, 3}
MCValsThree == {-1, 0, 2}
TablesAgg == {"agg"}
TablesOT == {"ot", "red"}
TablesAll == {"agg", "ot", "red"}
TablesNone == {}
TablesTop == {"top"}
MCValsSigned == {-1, 0, 1}
MCValsNeg == {-1, 0}
NoAnchor == {}
AnchorOne == {1}
===========================================================================
