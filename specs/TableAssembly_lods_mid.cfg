SPECIFICATION Spec
CONSTANTS
  Keys <- MCKeys31
  Splits <- MCSplits3
  Width <- MCWidth2
  Limits = {0, 1, 2, 3}
  Markers <- MCMarkers31
  Export = TRUE
  StorageSortsAll = TRUE
  CallerReverses = FALSE
INVARIANTS TypeOK ColumnsDuring RowsIdxUnique CountBound MarkerIsKey
  FinalAligned FinalUnique FinalOrdered FinalWindow FinalLimit FinalFirst FinalHasMore FinalIsSpecOut
CHECK_DEADLOCK FALSE
