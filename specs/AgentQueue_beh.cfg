INIT Init
NEXT Next
CONSTANTS
  QLen = 128
  FutureSlots = 3
  Spread = 120
  NShards = 2
  Metrics <- BMetrics
  TimingShard = 1
  T0 <- R0
  Ticks <- BTicks
  TsOffs <- BOffs
  Kinds = {"metric", "api"}
  SpreadOf <- EdgeSpread
  Variant = "code"
  MaxOps = 4
  MaxEvents = 2
VIEW View
INVARIANTS ExactlyOnce AllFlushed NotEarly RingOK Rounded Placement DropsJustified OutIncreasing SendBound ChanCap
ACTION_CONSTRAINT Export
CHECK_DEADLOCK FALSE
