INIT Init
NEXT BehNext
CONSTANTS
  QLen = 128
  FutureSlots = 3
  Spread = 120
  NShards = 2
  Metrics <- BMetrics
  TimingShard = 1
  T0 <- B0
  Lags0 = {2, 5, 6}
  Fulls0 = {FALSE}
  Ticks <- BTicks
  TsOffs <- BOffs
  Kinds = {"metric", "api"}
  SpreadOf <- EdgeSpread
  Variant = "code"
  MaxOps = 6
  MaxEvents = 2
VIEW View
ACTION_CONSTRAINT ExportBeh
CHECK_DEADLOCK FALSE
