------------------------------ MODULE SeriesCache ------------------------------
(* API series cache (internal/api/tscache2.go, tscache2_trim.go), property C23 - LAYER 2: the
   protocol of one bucket (one query key) transcribed from the code, checked by TLC against the
   layer-1 property (module SeriesCacheAbs, extended here: every step that is visible at the
   cache's boundary also performs the corresponding Abs action, and the Abs invariants
   Placement / Produced / Freshness are checked on the bounded model).

   What is modelled
     bucket        bk: chunk position -> attached chunk object (0 = none)        [b.times/b.chunks]
     chunk object  ch[c] = [pos, data, loading, lsa, inv, aw, det, size]         [cache2Chunk]
                   data  : NoData or the CS rows of the chunk (index 0..CS-1)
                   lsa   : loadStartedAt (timeNow of the loader that started a load last)
                   inv   : invalidatedAt (0 = valid)
                   aw    : awaiters <<[g, ls, le, off]>>                         [cache2Awaiter]
                   det   : detached by trim / reset
     loader        ld[g]  (one per request)                                      [cache2Loader]
                   data (l.data, 0-based over the chunks it spans), chunks (l.chunks), waitN,
                   recv (values read from waitC so far), err, now (l.timeNow), lpc (program
                   counter of the loadChunks goroutine), pidx (next chunk to post)
     clock         logical wall clock, read by newLoader (under the bucket lock) and by
                   invalidate (before it takes any lock); strictly increasing
     acc           accounting: sum of info.sizeS deltas

   Atomicity.  newLoader.init runs under the bucket lock and holds the locks of all chunks it
   has not decided yet; loaders that could publish in between need a chunk this init holds (a
   loader's chunks are contiguous), so init is one step.  loadChunks is split where other
   goroutines can interleave: LoadBegin (loader stub entered), LoadEnd (the storage is read, the
   stub returns, the loader's own result is sent on waitC), then one PostLoad per chunk (the
   critical section under chunk.mu plus the delivery to the awaiters taken there).  invalidate
   is split into InvBegin (reads the clock) and InvApply (bucket critical section).  Trim
   detaches any set of attached chunks (removeChunksNotUsedAfter / removeBucket / reset).

   The switches FixAwait / FixPublish / FixInvMax select the code before (FALSE) and after
   (TRUE) the repair of the staleness defects found with this model (design_notes/C23.md):
     FixAwait    maybeAddChunk: a request that has to wait does not join a load that started
                 before the chunk was invalidated, it starts its own
     FixPublish  loadChunks: only the load started last on a chunk publishes to it (data,
                 invalidation reset, awaiters) and ends the chunk's "loading" state; a load
                 superseded by a newer one leaves the chunk alone
     FixInvMax   cache2Chunk.invalidate never moves invalidatedAt backwards (two invalidate
                 calls can reach a bucket in the opposite order of their clock readings)
   AnyTakesAwaiters = TRUE is a what-if: publishing stays with the load started last, but the
   awaiters are answered by whichever load finishes first.  maybeAddChunk lets a request await
   only because the load started last is fresh enough for it, so an older load answering it
   breaks Freshness (must fail: SeriesCache_anyaw.cfg).                                      *)
EXTENDS SeriesCacheAbs

CONSTANTS NChunks,     \* chunk positions 1..NChunks
          CS,          \* slots per chunk
          NGets,       \* requests 1..NGets
          Ranges,      \* set of <<lo, hi>> (absolute slots, inclusive) a request may ask for
          Plays,       \* subset of {0, 1, 5}: play modes of requests (1 = stale accepted for 1 s)
          Forces,      \* subset of BOOLEAN: forceLoad
          MaxInv, MaxTrim, MaxFail,
          Age,         \* chunk position -> "old" | "linger" | "open"  (relation of now to chunk.end)
          FixAwait, FixPublish, FixInvMax,
          AnyTakesAwaiters, \* what-if (TRUE): every finishing load takes chunk.awaiters, not only the one started last
          SeqInv,      \* TRUE: invalidate calls do not overlap (one invalidation goroutine, as in the product)
          MaxOps       \* bound on behaviour length for the export configurations (0 = none)

VARIABLES bk, ch, ld, invs, clock, acc, ntrim, nfail, hist

mvars == <<bk, ch, ld, invs, clock, acc, ntrim, nfail>>
vars  == <<mvars, avars, hist>>
(* the future does not depend on which request returned last, only the verdicts on it are checked *)
View  == <<mvars, aLoads, aFin, aInv, aDead, aGets, aRet.placement, aRet.produced, aRet.fresh, aQui, aEmp>>

K      == "k"                      \* the bucket's query key
Poss   == 1..NChunks
Gets   == 1..NGets
NoData == <<>>
Nil    == <<>>                     \* an unfilled column of l.data
Min(a, b) == IF a < b THEN a ELSE b
Max(a, b) == IF a > b THEN a ELSE b
PosOf(slot)  == ((slot - 1) \div CS) + 1
SlotsOf(p)   == ((p - 1) * CS + 1)..(p * CS)

IdleLd == [st |-> "idle", lo |-> 0, hi |-> 0, first |-> 0, nch |-> 0, play |-> 0, sa |-> FALSE,
           force |-> FALSE, data |-> <<>>, chunks |-> <<>>, waitN |-> 0, recv |-> 0, err |-> FALSE,
           now |-> 0, lpc |-> "none", lok |-> FALSE, pidx |-> 0]

(* state-space reduction: a request whose Get returned and whose loader goroutine ended, and a
   detached chunk nobody refers to any more, have no influence on the future: canonical form *)
DoneLd == [IdleLd EXCEPT !.st = "done", !.lpc = "finished"]
DeadCh(c) == [pos |-> c.pos, data |-> NoData, loading |-> 0, lsa |-> 0, inv |-> 0, aw |-> <<>>, det |-> TRUE, size |-> 0]
NormLd(lds) == [g \in DOMAIN lds |-> IF lds[g].st = "done" /\ lds[g].lpc \in {"none", "finished"} THEN DoneLd ELSE lds[g]]
Referred(lds, c) == \E g \in DOMAIN lds : lds[g].lpc \in {"spawned", "reading", "loaded", "post"} /\
                       \E k \in DOMAIN lds[g].chunks : k >= lds[g].pidx /\ lds[g].chunks[k].cid = c
NormCh(chs, lds) == [c \in DOMAIN chs |-> IF chs[c].det /\ chs[c].aw = <<>> /\ ~Referred(lds, c) THEN DeadCh(chs[c]) ELSE chs[c]]

Init == /\ bk = [p \in Poss |-> 0]
        /\ ch = <<>>
        /\ ld = [g \in Gets |-> IdleLd]
        /\ invs = <<>>
        /\ clock = 1
        /\ acc = 0 /\ ntrim = 0 /\ nfail = 0
        /\ hist = <<>>
        /\ AInit

-------------------------------------------------------------------------------
(* newLoader + init + maybeAddChunk + awaitCopyChunks.  The walk state:
     p    next chunk position, s pending chunks (their locks are held), lch = l.chunks,
     chs / bks / data / waitN the updated chunk objects, bucket, l.data and l.waitN          *)
NewChunk(p) == [pos |-> p, data |-> NoData, loading |-> 0, lsa |-> 0, inv |-> 0, aw |-> <<>>,
                det |-> FALSE, size |-> 0]

(* one pending chunk leaves `s`: await it or copy from it *)
AwaitCopyOne(g, w, lc) ==
    IF lc.wait
    THEN [w EXCEPT !.chs = [@ EXCEPT ![lc.cid].aw = Append(@, [g |-> g, ls |-> lc.ls, le |-> lc.le, off |-> lc.ls - lc.cstart])],
                   !.waitN = @ + 1]
    ELSE [w EXCEPT !.data = [i \in DOMAIN w.data |->
                                IF i >= lc.ls /\ i < lc.le THEN w.chs[lc.cid].data[i - lc.cstart] ELSE w.data[i]]]

RECURSIVE AwaitCopy(_, _, _)
AwaitCopy(g, w, s) == IF s = <<>> THEN w ELSE AwaitCopy(g, AwaitCopyOne(g, w, Head(s)), Tail(s))

(* gap chunks: everything pending is loaded by this loader as well *)
RECURSIVE TakeGap(_, _, _)
TakeGap(w, s, now) ==
    IF s = <<>> THEN w
    ELSE LET lc == Head(s)
         IN TakeGap([w EXCEPT !.lch = Append(@, lc),
                              !.chs = [@ EXCEPT ![lc.cid].loading = @ + 1, ![lc.cid].lsa = now]],
                    Tail(s), now)

MaybeAdd(g, w, cid, pos, L) ==
    LET c      == w.chs[cid]
        ls     == Max(pos, L.loadStart)
        cend   == pos + CS
        le     == Min(L.loadEnd, cend)
        open   == Age[c.pos] = "open"            \* c.loadStartedAt < c.end
        linger == Age[c.pos] = "linger"          \* c.loadStartedAt < c.end + invalidateLinger
        first  == c.data = NoData \/ open \/ L.force
        load   == first \/ c.inv # 0 \/ linger
        wait   == first \/ (c.inv # 0 /\ ~L.sa)
        lc     == [cid |-> cid, cstart |-> pos, cend |-> cend, ls |-> ls, le |-> le, load |-> load, wait |-> wait]
        mine   == load /\ (c.loading = 0 \/ (FixAwait /\ wait /\ c.lsa < c.inv))
    IN IF mine
       THEN LET w1 == IF w.lch = <<>>
                      THEN [AwaitCopy(g, w, w.s) EXCEPT !.s = <<>>]
                      ELSE [TakeGap(w, w.s, L.now) EXCEPT !.s = <<>>]
            IN [w1 EXCEPT !.lch = Append(@, lc),
                          !.chs = [@ EXCEPT ![cid].loading = @ + 1, ![cid].lsa = L.now]]
       ELSE [w EXCEPT !.s = Append(@, lc)]

RECURSIVE Walk(_, _, _, _)
Walk(g, w, p, L) ==
    IF p > L.last THEN [AwaitCopy(g, w, w.s) EXCEPT !.s = <<>>]
    ELSE LET pos == (p - L.first) * CS
         IN IF w.bks[p] = 0
            THEN LET cid == w.next
                     w1  == [w EXCEPT !.chs = [x \in DOMAIN w.chs \cup {cid} |-> IF x = cid THEN NewChunk(p) ELSE w.chs[x]],
                                      !.bks = [@ EXCEPT ![p] = cid], !.next = @ + 1]
                 IN Walk(g, MaybeAdd(g, w1, cid, pos, L), p + 1, L)
            ELSE Walk(g, MaybeAdd(g, w, w.bks[p], pos, L), p + 1, L)

NextCid == IF DOMAIN ch = {} THEN 1 ELSE 1 + CHOOSE m \in DOMAIN ch : \A x \in DOMAIN ch : x <= m

StartCore(g, lo, hi, play, sa, force) ==
    /\ ld[g].st = "idle"
    /\ LET first == PosOf(lo)
           last  == PosOf(hi)
           nch   == last - first + 1
           lst   == lo - ((first - 1) * CS + 1)
           L     == [first |-> first, last |-> last, loadStart |-> lst, loadEnd |-> lst + (hi - lo + 1),
                     now |-> clock, sa |-> sa, force |-> force]
           w0    == [s |-> <<>>, lch |-> <<>>, chs |-> ch, bks |-> bk, waitN |-> 0, next |-> NextCid,
                     data |-> [i \in 0..(nch * CS - 1) |-> Nil]]
           w     == Walk(g, w0, first, L)
           own   == w.lch # <<>>
       IN /\ ch' = w.chs
          /\ bk' = w.bks
          /\ ld' = [ld EXCEPT ![g] = [IdleLd EXCEPT !.st = "wait", !.lo = lo, !.hi = hi, !.first = first, !.nch = nch,
                                          !.play = play, !.sa = sa, !.force = force, !.data = w.data,
                                          !.chunks = w.lch, !.waitN = w.waitN + (IF own THEN 1 ELSE 0),
                                          !.now = clock, !.lpc = IF own THEN "spawned" ELSE "none", !.pidx = 1]]
    /\ clock' = clock + 1
    /\ UNCHANGED <<invs, acc, ntrim, nfail>>
    /\ AGetBegin(g, K, play, [i \in 1..(hi - lo + 1) |-> lo + i - 1])

Start(g, lo, hi, play, sa, force) ==
    /\ StartCore(g, lo, hi, play, sa, force)
    /\ hist' = Append(hist, [a |-> "Start", g |-> g, lo |-> lo, hi |-> hi, play |-> play, sa |-> sa, force |-> force,
                              own |-> IF ld'[g].chunks = <<>> THEN <<>>      \* what the model's loader decided to load
                                      ELSE <<ld'[g].chunks[1].cid, Len(ld'[g].chunks)>>])

-------------------------------------------------------------------------------
(* loadChunks *)
LoadSlots(g) == LET f == ld[g].chunks[1] IN
                LET l == ld[g].chunks[Len(ld[g].chunks)] IN
                LET a == (ld[g].first - 1) * CS + f.cstart + 1 IN
                LET n == l.cend - f.cstart IN
                [i \in 1..n |-> a + i - 1]

LoadBeginCore(g) ==
    /\ ld[g].lpc = "spawned"
    /\ ld' = [ld EXCEPT ![g].lpc = "reading"]
    /\ UNCHANGED <<bk, ch, invs, clock, acc, ntrim, nfail>>
    /\ ALoadBegin(g, K, LoadSlots(g))
LoadBegin(g) == LoadBeginCore(g) /\ hist' = Append(hist, [a |-> "LoadBegin", g |-> g])

(* the stub reads the storage and returns; rows are written into l.data even when it then
   reports a failure; the loader's own result goes to waitC *)
LoadEndCore(g, ok) ==
    /\ ld[g].lpc = "reading"
    /\ ~ok => nfail < MaxFail
    /\ LET f  == ld[g].chunks[1]
           l  == ld[g].chunks[Len(ld[g].chunks)]
           a0 == (ld[g].first - 1) * CS + 1        \* absolute slot of l.data[0]
       IN ld' = [ld EXCEPT ![g].lpc = "loaded", ![g].lok = ok,
                           ![g].recv = @ + 1, ![g].err = @ \/ ~ok,
                           ![g].data = [i \in DOMAIN ld[g].data |->
                                           IF i >= f.cstart /\ i < l.cend THEN <<g, a0 + i>> ELSE ld[g].data[i]]]
    /\ nfail' = IF ok THEN nfail ELSE nfail + 1
    /\ UNCHANGED <<bk, ch, invs, clock, acc, ntrim>>
    /\ ALoadEnd(g, ok, IF ok THEN [i \in 1..Len(LoadSlots(g)) |-> 1] ELSE <<>>)
LoadEnd(g, ok) == LoadEndCore(g, ok) /\ hist' = Append(hist, [a |-> "LoadEnd", g |-> g, ok |-> ok])

(* post-load of the next chunk of g: critical section under chunk.mu, then delivery *)
RECURSIVE Deliver(_, _, _, _)
Deliver(lds, aws, cdata, ok) ==
    IF aws = <<>> THEN lds
    ELSE LET a  == Head(aws)
             l1 == [lds EXCEPT ![a.g].recv = @ + 1, ![a.g].err = @ \/ ~ok,
                               ![a.g].data = IF ok
                                             THEN [i \in DOMAIN lds[a.g].data |->
                                                      IF i >= a.ls /\ i < a.le THEN cdata[a.off + (i - a.ls)] ELSE lds[a.g].data[i]]
                                             ELSE lds[a.g].data]
         IN Deliver(l1, Tail(aws), cdata, ok)

PostLoadCore(g) ==
    /\ ld[g].lpc \in {"loaded", "post"}
    /\ LET L      == ld[g]
           lc     == L.chunks[L.pidx]
           c      == ch[lc.cid]
           ok     == L.lok
           cdata  == [j \in 0..(CS - 1) |-> L.data[lc.cstart + j]]
           newest == ~FixPublish \/ L.now >= c.lsa
           takes  == newest \/ AnyTakesAwaiters
           aws    == IF takes THEN c.aw ELSE <<>>
           store  == ~c.det /\ ok /\ newest
           c1     == [c EXCEPT !.aw = IF takes THEN <<>> ELSE @,
                               !.data = IF store THEN cdata ELSE @,
                               !.size = IF store THEN 1 ELSE @,
                               !.inv = IF store /\ ~(c.lsa < c.inv) THEN 0 ELSE @,
                               !.loading = IF c.det THEN @
                                           ELSE IF ~FixPublish THEN @ - 1
                                           ELSE IF newest THEN 0 ELSE @]
           last   == L.pidx = Len(L.chunks)
           ld1    == [ld EXCEPT ![g].pidx = @ + 1, ![g].lpc = IF last THEN "finished" ELSE "post"]
           ld2    == NormLd(Deliver(ld1, aws, cdata, ok))
       IN /\ ch' = NormCh([ch EXCEPT ![lc.cid] = c1], ld2)
          /\ acc' = IF store THEN acc + 1 - c.size ELSE acc
          /\ ld' = ld2
    /\ UNCHANGED <<bk, invs, clock, ntrim, nfail>>
    /\ UNCHANGED avars
PostLoad(g) == PostLoadCore(g) /\ hist' = Append(hist, [a |-> "Post", g |-> g])

(* wait() has read all waitN values: Get returns l.data[loadStart:loadEnd] *)
GetEndCore(g) ==
    /\ ld[g].st = "wait" /\ ld[g].recv >= ld[g].waitN
    /\ LET L   == ld[g]
           lst == L.lo - ((L.first - 1) * CS + 1)
           n   == L.hi - L.lo + 1
           row(i) == LET d == L.data[lst + i - 1]
                     IN IF d = Nil THEN <<>> ELSE << <<K, d[2], d[1], 0>> >>
       IN AGetEnd(g, ~L.err, [i \in 1..n |-> row(i)])
    /\ ld' = NormLd([ld EXCEPT ![g].st = "done"])
    /\ UNCHANGED <<bk, ch, invs, clock, acc, ntrim, nfail>>
GetEnd(g) == GetEndCore(g) /\ hist' = Append(hist, [a |-> "GetEnd", g |-> g])

-------------------------------------------------------------------------------
(* cache2.invalidate: the clock is read first, the bucket is visited later *)
InvBeginCore(i, T) ==
    /\ i \notin DOMAIN invs
    /\ SeqInv => \A j \in DOMAIN invs : invs[j].done
    /\ invs' = [x \in DOMAIN invs \cup {i} |-> IF x = i THEN [T |-> T, t |-> clock, done |-> FALSE] ELSE invs[x]]
    /\ clock' = clock + 1
    /\ UNCHANGED <<bk, ch, ld, acc, ntrim, nfail>>
    /\ AInvBegin(i, UNION {SlotsOf(p) : p \in T})
InvBegin(i, T) == InvBeginCore(i, T) /\ hist' = Append(hist, [a |-> "InvBegin", i |-> i, T |-> T])

SortedSeq(S) == LET n == Cardinality(S)
                IN [k \in 1..n |-> CHOOSE x \in S : Cardinality({y \in S : y < x}) = k - 1]

(* cache2Bucket.invalidate: the merge of the sorted chunk starts with b.times, as coded.
   Returns the set of positions whose chunk is invalidated. *)
RECURSIVE SkipI(_, _, _, _)
SkipI(ts, bt, i, j) == IF i <= Len(ts) /\ ts[i] < bt[j] THEN SkipI(ts, bt, i + 1, j) ELSE i
RECURSIVE SkipJ(_, _, _, _)
SkipJ(ts, bt, i, j) == IF j <= Len(bt) /\ bt[j] < ts[i] THEN SkipJ(ts, bt, i, j + 1) ELSE j
RECURSIVE Eq(_, _, _, _, _)
Eq(ts, bt, i, j, acc0) == IF i <= Len(ts) /\ j <= Len(bt) /\ ts[i] = bt[j]
                          THEN Eq(ts, bt, i + 1, j + 1, acc0 \cup {bt[j]}) ELSE <<i, j, acc0>>
RECURSIVE Merge(_, _, _, _, _)
Merge(ts, bt, i, j, acc0) ==
    IF ~(i <= Len(ts) /\ j <= Len(bt)) THEN acc0
    ELSE LET i1 == SkipI(ts, bt, i, j)
         IN IF i1 = Len(ts) + 1 THEN acc0
            ELSE LET j1 == SkipJ(ts, bt, i1, j)
                     r  == Eq(ts, bt, i1, j1, acc0)
                 IN Merge(ts, bt, r[1], r[2], r[3])
InvalidatedPositions(T) ==
    LET ts == SortedSeq(T)
        bt == SortedSeq({p \in Poss : bk[p] # 0})
    IN IF Len(bt) = 0 THEN {}
       ELSE IF ts[Len(ts)] < bt[1] \/ bt[Len(bt)] < ts[1] THEN {}
       ELSE Merge(ts, bt, 1, 1, {})

InvApplyCore(i) ==
    /\ i \in DOMAIN invs /\ ~invs[i].done
    /\ LET P == InvalidatedPositions(invs[i].T)
       IN ch' = [c \in DOMAIN ch |-> IF ~ch[c].det /\ ch[c].pos \in P /\ bk[ch[c].pos] = c
                                     THEN [ch[c] EXCEPT !.inv = IF FixInvMax /\ @ > invs[i].t THEN @ ELSE invs[i].t]
                                     ELSE ch[c]]
    /\ invs' = [invs EXCEPT ![i].done = TRUE]
    /\ UNCHANGED <<bk, ld, clock, acc, ntrim, nfail>>
    /\ AInvEnd(i)
InvApply(i) == InvApplyCore(i) /\ hist' = Append(hist, [a |-> "InvApply", i |-> i])

(* trimAged / reduceMemoryUsage / reset: chunks are detached, their memory is released *)
TrimCore(T) ==
    /\ T # {} /\ \A p \in T : bk[p] # 0
    /\ ntrim < MaxTrim
    /\ ch' = NormCh([c \in DOMAIN ch |-> IF ch[c].pos \in T /\ bk[ch[c].pos] = c
                                         THEN [ch[c] EXCEPT !.size = 0, !.data = NoData, !.det = TRUE] ELSE ch[c]], ld)
    /\ acc' = acc - Cardinality({p \in T : ch[bk[p]].size = 1})
    /\ bk' = [p \in Poss |-> IF p \in T THEN 0 ELSE bk[p]]
    /\ ntrim' = ntrim + 1
    /\ UNCHANGED <<ld, invs, clock, nfail>>
    /\ UNCHANGED avars
Trim(T) == TrimCore(T) /\ hist' = Append(hist, [a |-> "Trim", T |-> T])

-------------------------------------------------------------------------------
Bounded == MaxOps = 0 \/ Len(hist) < MaxOps

(* requests start in id order (ids are arbitrary), invalidations likewise *)
NextGet == IF \E g \in Gets : ld[g].st = "idle" THEN CHOOSE g \in Gets : ld[g].st = "idle" /\ \A h \in Gets : ld[h].st = "idle" => g <= h ELSE 0

LoaderStep(g) == LoadBegin(g) \/ (\E ok \in BOOLEAN : LoadEnd(g, ok)) \/ PostLoad(g) \/ GetEnd(g)

Next ==
    /\ Bounded
    /\ \/ \E r \in Ranges, play \in Plays, force \in Forces, sa \in BOOLEAN :
             /\ NextGet # 0 /\ (sa => play = 1)
             /\ Start(NextGet, r[1], r[2], play, sa, force)
       \/ \E g \in Gets : LoaderStep(g)
       \/ \E T \in (SUBSET Poss) \ {{}} : Cardinality(DOMAIN invs) < MaxInv /\ InvBegin(Cardinality(DOMAIN invs) + 1, T)
       \/ \E i \in DOMAIN invs : InvApply(i)
       \/ \E T \in (SUBSET Poss) \ {{}} : Trim(T)

Finished == \A g \in Gets : ld[g] = DoneLd
Spec == Init /\ [][Next]_vars
FairSpec == Spec /\ \A g \in Gets : WF_vars(LoaderStep(g))

-------------------------------------------------------------------------------
(* Mechanism-level properties *)
TypeOK ==
    /\ \A p \in Poss : bk[p] = 0 \/ (bk[p] \in DOMAIN ch /\ ch[bk[p]].pos = p /\ ~ch[bk[p]].det)
    /\ \A c \in DOMAIN ch : ch[c].loading >= 0
    /\ \A g \in Gets : ld[g].recv >= 0

(* every awaiter is answered exactly once: nobody receives more than it waits for ... *)
NoDoubleSend == \A g \in Gets : ld[g].recv <= ld[g].waitN
(* ... and whoever still waits is registered with a chunk somebody will post, or waits for its
   own load (no lost wakeup) *)
Registered(g) == Cardinality(UNION {{<<c, k>> : k \in {k \in DOMAIN ch[c].aw : ch[c].aw[k].g = g}} : c \in DOMAIN ch})
OwnPending(g) == IF ld[g].lpc \in {"spawned", "reading"} THEN 1 ELSE 0
NoLostWakeup == \A g \in Gets : ld[g].st = "wait" => ld[g].waitN - ld[g].recv = Registered(g) + OwnPending(g)
(* whoever is registered with a chunk will be answered: some loader still has to post it *)
WillPost(c) == \E g \in Gets : ld[g].lpc \in {"spawned", "reading", "loaded", "post"} /\
                  \E k \in DOMAIN ld[g].chunks : k >= ld[g].pidx /\ ld[g].chunks[k].cid = c /\
                      (~FixPublish \/ ld[g].now >= ch[c].lsa)
AwaitersServed == \A c \in DOMAIN ch : ch[c].aw # <<>> => WillPost(c)

(* accounting = what the attached chunks hold; zero when the bucket is empty *)
Accounting == acc = Cardinality({p \in Poss : bk[p] # 0 /\ ch[bk[p]].size = 1})
(* meaning of chunk.loading: before the repair the number of loaders that still have to post the
   chunk; after it: positive iff the load started last on the chunk still has to post it *)
ToPost(c) == {g \in Gets : ld[g].lpc \in {"spawned", "reading", "loaded", "post"} /\
                  \E k \in DOMAIN ld[g].chunks : k >= ld[g].pidx /\ ld[g].chunks[k].cid = c}
LoadingCount == \A c \in DOMAIN ch : ~ch[c].det =>
                    IF FixPublish THEN (ch[c].loading > 0) = (\E g \in ToPost(c) : ld[g].now >= ch[c].lsa)
                    ELSE ch[c].loading = Cardinality(ToPost(c))

(* liveness: every request returns (checked under FairSpec) *)
AllReturn == \A g \in Gets : (ld[g].st = "wait") ~> (ld[g].st = "done")

(* counterexample export: the configurations that describe the code before its repair print the
   schedule that breaks the property; the schedule driver replays it on the real code *)
CexExport == (Placement /\ Produced /\ Freshness /\ NoDoubleSend /\ NoLostWakeup /\ AwaitersServed)
             \/ (PrintT(<<"BEH", ToJson(hist)>>) /\ FALSE)

(* behaviour export for the schedule driver *)
Export == PrintT(<<"BEH", ToJson(hist')>>)
===============================================================================
