INIT Init
NEXT Next
CONSTANTS
  NChunks = 1
  CS = 2
  NGets = 3
  Ranges <- WholeChunkRanges
  Plays <- NoPlay
  Forces <- NoForce
  MaxInv = 1
  MaxTrim = 0
  MaxFail = 0
  Age <- AllOld
  FixAwait = TRUE
  FixPublish = TRUE
  FixInvMax = FALSE
  AnyTakesAwaiters = TRUE
  SeqInv = TRUE
  MaxOps = 0
VIEW View
INVARIANTS CexExport
CHECK_DEADLOCK FALSE
