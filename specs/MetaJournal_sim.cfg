INIT Init
NEXT Next
CONSTANTS
  Ids <- IdsS
  Names <- NamesS
  Chars <- MCChars
  Replicas = {"n", "c", "an", "ac", "ac2"}
  Up <- MCUp
  IsCompact <- MCIsCompact
  MaxBatch = 3
  ChunkSizes = {1, 2, 3}
  MaxVer = 14
  MaxRestarts = 4
  MaxOps = 30
  OrigNames = FALSE
  OrigSkip = FALSE
VIEW View
CHECK_DEADLOCK FALSE
ACTION_CONSTRAINT Export
