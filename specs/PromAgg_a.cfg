INIT Init
NEXT Next
CONSTANTS
  NS = 3
  NT = 2
  Vals <- MCValsFour
  TagA <- MCTagA
  TagB <- MCTagB
  R = 2
  WMax = 1
  Tables <- TablesAgg
  SelMod = 1
  Sel = 0
  PreAvg = TRUE
  PreCount = TRUE
  AnchorVals <- AnchorOne
INVARIANTS
  TypeOK
  DigestIsDefinition
  Rule0Exact
  Rule1Exact
  Rule2Exact
  Rule3Exact
  ReduciblePairs
  TopRanksByValue
  Export
CHECK_DEADLOCK FALSE
