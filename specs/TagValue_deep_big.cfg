\* thorough: 6 classes that differ in control flow, inputs of up to 6 items one of which may be a filler run
SPECIFICATION Spec
CONSTANTS
  MaxLen = 128
  Classes = {"a", "s", "t", "c", "p3", "x"}
  Runs = {125, 126, 127, 128}
  MaxItems = 6
  MaxRuns = 1
INVARIANTS
  TypeOK ForceValid ForceIdempotent ValidFixpoint ForceStrAgrees StrictOnlyOnInvalid StrictAgrees
  StrictExact FastAgrees FoldAgrees RefAgrees SlowShape TruncationTight NoCutWhenFits Export
CHECK_DEADLOCK FALSE
