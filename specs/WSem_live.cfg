SPECIFICATION LiveSpec
CONSTANTS
  Acqs <- A3
  W <- W3
  InitSizes = {2}
  Sizes = {1, 3}
  MaxSet = 1
  Forces = {1}
  MaxForce = 1
  MaxOps = 0
  Bug = "none"
  KeepHist = FALSE
INVARIANTS TypeOK AdmitWithinSize FIFO NoLeak NoLostWakeup OutcomeOK
PROPERTY EventuallyServed
CHECK_DEADLOCK FALSE
