SPECIFICATION TraceSpec
CONSTANTS
  Batches = {}
  GetStrs = {}
  Nows = {}
  MaxSizes = {0}
  TTLs = {0}
  Counts = {}
  CapDiv = 1024
  TtlBumpsVersion = TRUE
  DedupBatch = TRUE
  MaxOps = 0
  Strict = TRUE
VIEW TraceView
CONSTRAINT HighWater
INVARIANTS ValueIsOffered CacheIsOffered NeverMarker SizeBound Accounting ReloadSame FileSync
POSTCONDITION TraceAccepted
CHECK_DEADLOCK FALSE
