SPECIFICATION TraceSpec
CONSTANTS
  Keys = {"a", "b", "c"}
  Ranges = {}
  Secs = {}
  Ticks = {}
  StepH = 3600
  StepM = 60
  From <- TrFrom
  Linger = 15
  MaxSize = 6
  NRows = 1
  Now0 = 0
  MaxOps = 0
VIEW TraceView
CONSTRAINT HighWater
INVARIANTS NeverServeStale ServeImmutable SizeBound
POSTCONDITION TraceAccepted
CHECK_DEADLOCK FALSE
