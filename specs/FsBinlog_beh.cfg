INIT Init
NEXT Next
CONSTANTS
  StartSize = 24
  TagSize = 20
  CrcSize = 20
  RotSize = 36
  EvHdr = 8
  CrcEvery = 65536
  Chunks <- MCChunksReal
  Lens <- MCLensReal3
  MaxOps = 5
  MaxRuns = 2
  Fine = FALSE
  CheckRotTo = TRUE
  CommitAfterSync = TRUE
  MaxTears = 0
  TornMode = "refuse"
  Asaps = {TRUE, FALSE}
VIEW View
ACTION_CONSTRAINT Export
CHECK_DEADLOCK FALSE
