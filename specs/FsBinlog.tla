-------------------------------- MODULE FsBinlog --------------------------------
(* fsbinlog (internal/vkgo/binlog/fsbinlog), property C18.

   Three layers in one module:

   * WRITER: what Append puts into the stream, transcribed from binlog.go:putLevToBuffer
     (event, padding, a crc32 record when CrcEvery bytes passed since the last one, a
     rotateTo/rotateFrom pair when the current file reached MaxChunkSize) and what the writer
     goroutine does with the buffer, transcribed from writer.go:loop/writeBuffer/rotate
     (swap the buffer, write it, at every rotation: fsync old file, create the next file,
     write rotateFrom, fsync it, write rotateTo into the old file, fsync; then fsync and only
     then Engine.Commit(offset of the swapped buffer)).  `Fine` selects the granularity: one
     step per system call (model checking of the commit/fsync order) or one step per loop
     iteration (everything else).

   * READER: reader.go:readAllFromPosition/readUncompressedFile/readAndUpdateCRCIfNeed at
     record granularity (ReadModel): pick the file by header position, seek to the start
     offset while computing the crc32 from the file start (verified against the snapshot
     meta when one is given), walk the records, verify the running crc32 at every crc32
     record (and at rotateTo), stop at the first incomplete record.  The crc32 itself is
     abstracted by one bit: "some consumed byte differs from what was written".

   * PROPERTY, stated on ghost state `appended` and on the notion "checksum record" only:
     ReplayExact, TruncSafe, FlipDetected, CommitMonotone, CommitDurable.

   Sizes are bytes, with the code's real record sizes.                                    *)
EXTENDS Integers, Sequences, FiniteSets, TLC, Json

CONSTANTS StartSize,   \* 24: LevStart written by CreateEmptyFsBinlog
          TagSize,     \* 20: levTag
          CrcSize,     \* 20: levCrc32           (lev.go: levCrcSize)
          RotSize,     \* 36: levRotateTo / levRotateFrom   (levRotateSize)
          EvHdr,       \* 8:  the test engine's framing (magic, length) in front of the body
          CrcEvery,    \* writeCrcEveryBytes (65536 in the code)
          Chunks,      \* values of Options.MaxChunkSize
          Lens,        \* raw payload lengths passed to Append
          MaxOps,      \* bound on the number of input actions (model checking only)
          MaxRuns,     \* bound on the number of Run()s (restarts)
          Fine,        \* TRUE: writer goroutine at system call granularity
          CheckRotTo,  \* TRUE: the reader verifies levRotateTo.Crc32 (reader.go after the fix)
          CommitAfterSync, \* TRUE as coded; FALSE = commit notified before fsync (to see CommitDurable fire)
          MaxTears,    \* bound on the number of Tear actions (0: none)
          TornMode,    \* what a writer start does on a torn tail: "refuse" (as coded: initChunk compares the file size),
                       \* "cut" (truncate the tail first: also keeps the property), "append" (start and append after
                       \* the torn bytes: to see ReplayExact fire)
          Asaps        \* values of the ASAP flag offered to Append

VARIABLES chunk,     \* Options.MaxChunkSize of this binlog
          recs,      \* the logical stream: sequence of records [k, pos, len, id, f]
          offG,      \* buffEx.rd.offsetGlobal: where the next event goes
          crcAt,     \* predict.lastPosForCrc
          fileStart, \* predict.fileStartPos
          nextId,    \* ghost: id of the next event
          appended,  \* ghost: sequence of [id, at, n, ret]
          bounds,    \* positions at which a buffer swap can happen = possible commit positions
          phase,     \* "run" | "stopped"
          accept,    \* ~buffEx.finishAccept
          stopReq,   \* close(stop) happened
          asapPend,  \* buffEx.rd.commitASAP
          taken,     \* rd.offsetGlobal of the last swapped buffer
          ops,       \* system calls left of the current writeBuffer
          pc,        \* "idle" | "w" | "sync" | "commit" | "fin"
          it,        \* [cause, asap] of the current loop iteration
          dirty,     \* loop's `dirty`
          fw, fsy,   \* per file: bytes written / bytes fsynced
          commits,   \* sequence of positions passed to Engine.Commit in the current run
          runs,      \* number of Run()s so far
          torn,      \* bytes of an incomplete record left after offG in the last file (a crash inside a write)
          tears,     \* number of Tear actions so far
          hist

wvars == <<chunk, recs, offG, crcAt, fileStart, nextId, appended, bounds>>
pvars == <<phase, accept, stopReq, asapPend, taken, ops, pc, it, dirty, fw, fsy, commits, runs, torn, tears>>
vars  == <<wvars, pvars, hist>>
View  == <<wvars, pvars>>

Pad(n) == n + ((4 - (n % 4)) % 4)          \* buffer_exchange.go: appendLevUnsafe
End(r) == r.pos + r.len
Rec(k, pos, len, id, f) == [k |-> k, pos |-> pos, len |-> len, id |-> id, f |-> f]
Hdr == StartSize + TagSize
Min(a, b) == IF a < b THEN a ELSE b
NFiles == recs[Len(recs)].f

Init == /\ chunk \in Chunks
        /\ recs = << Rec("start", 0, StartSize, 0, 1), Rec("tag", StartSize, TagSize, 0, 1) >>
        /\ offG = Hdr /\ crcAt = Hdr /\ fileStart = 0
        /\ nextId = 1 /\ appended = <<>> /\ bounds = {Hdr}
        /\ phase = "run" /\ accept = TRUE /\ stopReq = FALSE /\ asapPend = FALSE
        /\ taken = Hdr /\ ops = <<>> /\ pc = "idle" /\ it = [cause |-> "none", asap |-> FALSE]
        /\ dirty = FALSE /\ fw = <<Hdr>> /\ fsy = <<Hdr>>
        /\ commits = <<Hdr>>            \* WriteLoop: engine.Commit(ri.Offset, ...) before the loop
        /\ runs = 1 /\ torn = 0 /\ tears = 0
        /\ hist = << [a |-> "Open", chunk |-> chunk] >>

-------------------------------------------------------------------------------
(* WRITER, user side: binlog.go:putLevToBuffer under buffEx.mu.
   The thresholds as coded: a crc32 record after the event when writeCrcEveryBytes or more bytes
   were appended since predict.lastPosForCrc, then a rotateTo/rotateFrom pair when the current
   file holds MaxChunkSize bytes or more. *)
CodedCrc(n) == offG + Pad(n) - crcAt >= CrcEvery
CodedRot(n, needCrc) == offG + Pad(n) + (IF needCrc THEN CrcSize ELSE 0) - fileStart >= chunk

(* the stream arithmetic, with the two decisions as parameters (the trace specification takes them
   from what the real Append returned: the property does not fix the cadence of service records) *)
AppendCoreD(n, as, needCrc, needRot) ==
    /\ phase = "run" /\ accept
    /\ LET p0 == offG
           e  == Rec("ev", p0, Pad(n), nextId, NFiles)
           p1 == p0 + Pad(n)
           p2 == IF needCrc THEN p1 + CrcSize ELSE p1
           p3 == IF needRot THEN p2 + 2 * RotSize ELSE p2
       IN /\ recs' = recs \o <<e>>
                     \o (IF needCrc THEN << Rec("crc", p1, CrcSize, 0, NFiles) >> ELSE <<>>)
                     \o (IF needRot THEN << Rec("rotTo", p2, RotSize, 0, NFiles),
                                            Rec("rotFrom", p2 + RotSize, RotSize, 0, NFiles + 1) >> ELSE <<>>)
          /\ offG' = p3
          /\ crcAt' = IF needCrc THEN p2 ELSE crcAt
          /\ fileStart' = IF needRot THEN p3 - RotSize ELSE fileStart
          /\ appended' = Append(appended, [id |-> nextId, at |-> p0, n |-> n, ret |-> p3])
          /\ bounds' = bounds \cup {p3}
    /\ nextId' = nextId + 1
    /\ asapPend' = (asapPend \/ as)
    /\ UNCHANGED chunk

AppendCore(n, as) == AppendCoreD(n, as, CodedCrc(n), CodedRot(n, CodedCrc(n)))

-------------------------------------------------------------------------------
(* WRITER, goroutine side *)
FStart(f) == IF f = 1 THEN 0 ELSE recs[CHOOSE i \in DOMAIN recs : recs[i].f = f /\ recs[i].k = "rotFrom"].pos
FEnd(f)   == LET last == CHOOSE i \in DOMAIN recs : recs[i].f = f /\ (i = Len(recs) \/ recs[i + 1].f # f)
             IN End(recs[last])
IdxAt(p)  == IF p >= offG THEN Len(recs) + 1 ELSE CHOOSE i \in DOMAIN recs : recs[i].pos = p
IsBoundary(p) == p = offG \/ \E i \in DOMAIN recs : recs[i].pos = p

W(f, n) == [o |-> "w", f |-> f, n |-> n]
S(f)    == [o |-> "s", f |-> f, n |-> 0]
Mk(f)   == [o |-> "mk", f |-> f, n |-> 0]

(* writer.go:writeBuffer + rotate: system calls for the stream range [recs[i].pos, to) *)
RECURSIVE OpsFrom(_, _, _, _)
OpsFrom(i, to, f, acc) ==
    IF i > Len(recs) \/ recs[i].pos >= to
    THEN IF acc > 0 THEN << W(f, acc) >> ELSE <<>>
    ELSE IF recs[i].k = "rotTo"
         THEN (IF acc > 0 THEN << W(f, acc) >> ELSE <<>>)
              \o << S(f), Mk(f + 1), W(f + 1, RotSize), S(f + 1), W(f, RotSize), S(f) >>
              \o OpsFrom(i + 2, to, f + 1, 0)
         ELSE OpsFrom(i + 1, to, f, acc + recs[i].len)

ApplyOp(o, w, s) ==
    CASE o.o = "w"  -> << [w EXCEPT ![o.f] = @ + o.n], s >>
      [] o.o = "s"  -> << w, [s EXCEPT ![o.f] = w[o.f]] >>
      [] o.o = "mk" -> << Append(w, 0), Append(s, 0) >>

RECURSIVE ApplyOps(_, _, _)
ApplyOps(os, w, s) == IF os = <<>> THEN <<w, s>>
                      ELSE LET r == ApplyOp(Head(os), w, s) IN ApplyOps(Tail(os), r[1], r[2])

(* one iteration of writer.go:loop, first half: select + replaceBuff *)
IterBegin(cause) ==
    /\ phase = "run" /\ pc = "idle"
    /\ cause = "stop" => stopReq
    /\ cause = "data" => taken < offG
    /\ cause = "timer" => (taken < offG \/ dirty)
    /\ accept' = IF cause = "stop" THEN FALSE ELSE accept       \* buffEx.stopAccept()
    /\ taken' = offG
    /\ ops' = OpsFrom(IdxAt(taken), offG, Len(fw), 0)
    /\ dirty' = (dirty \/ taken < offG)
    /\ it' = [cause |-> cause, asap |-> asapPend]
    /\ asapPend' = FALSE
    /\ pc' = "w"
    /\ UNCHANGED <<wvars, phase, stopReq, fw, fsy, commits, runs, torn, tears, hist>>

OpStep ==
    /\ pc = "w" /\ ops # <<>>
    /\ LET r == ApplyOp(Head(ops), fw, fsy) IN fw' = r[1] /\ fsy' = r[2]
    /\ ops' = Tail(ops)
    /\ UNCHANGED <<wvars, phase, accept, stopReq, asapPend, taken, pc, it, dirty, commits, runs, torn, tears, hist>>

WantCommit == dirty /\ (it.asap \/ it.cause = "timer" \/ it.cause = "stop")
After == IF it.cause = "stop" THEN "fin" ELSE "idle"

WDone ==
    /\ pc = "w" /\ ops = <<>>
    /\ pc' = IF WantCommit THEN (IF CommitAfterSync THEN "sync" ELSE "commit") ELSE After
    /\ UNCHANGED <<wvars, phase, accept, stopReq, asapPend, taken, ops, it, dirty, fw, fsy, commits, runs, torn, tears, hist>>

SyncStep ==
    /\ pc = "sync"
    /\ fsy' = [fsy EXCEPT ![Len(fw)] = fw[Len(fw)]]
    /\ pc' = IF CommitAfterSync THEN "commit" ELSE After
    /\ dirty' = IF CommitAfterSync THEN dirty ELSE FALSE
    /\ UNCHANGED <<wvars, phase, accept, stopReq, asapPend, taken, ops, it, fw, commits, runs, torn, tears, hist>>

CommitStep ==
    /\ pc = "commit"
    /\ commits' = Append(commits, taken)
    /\ pc' = IF CommitAfterSync THEN After ELSE "sync"
    /\ dirty' = IF CommitAfterSync THEN FALSE ELSE dirty
    /\ UNCHANGED <<wvars, phase, accept, stopReq, asapPend, taken, ops, it, fw, fsy, runs, torn, tears, hist>>

Fin ==  \* loop's deferred Sync + Close
    /\ pc = "fin"
    /\ fsy' = [fsy EXCEPT ![Len(fw)] = fw[Len(fw)]]
    /\ phase' = "stopped" /\ pc' = "idle"
    /\ UNCHANGED <<wvars, accept, stopReq, asapPend, taken, ops, it, dirty, fw, commits, runs, torn, tears, hist>>

ReqStop ==
    /\ phase = "run" /\ ~stopReq
    /\ stopReq' = TRUE
    /\ hist' = Append(hist, [a |-> "Stop"])
    /\ UNCHANGED <<wvars, phase, accept, asapPend, taken, ops, pc, it, dirty, fw, fsy, commits, runs, torn, tears>>

(* the same, one step per iteration: swap, write everything, fsync, commit *)
FullW == [f \in 1..NFiles |-> FEnd(f) - FStart(f)]
IterAtomicCore(cause) ==
    /\ phase = "run" /\ pc = "idle"
    /\ taken' = offG /\ asapPend' = FALSE
    /\ fw' = FullW /\ fsy' = FullW
    /\ commits' = IF taken < offG \/ dirty THEN Append(commits, offG) ELSE commits
    /\ dirty' = FALSE
    /\ IF cause = "stop" THEN phase' = "stopped" /\ accept' = FALSE /\ stopReq' = TRUE
                         ELSE UNCHANGED <<phase, accept, stopReq>>
    /\ UNCHANGED <<wvars, ops, pc, it, runs, torn, tears>>

(* Sync = "wait until everything appended so far is committed"; offered after an AppendASAP only
   (otherwise the real writer waits for its 500 ms flush timer; seeded random histories cover that) *)
Sync == taken < offG /\ asapPend /\ IterAtomicCore("timer") /\ hist' = Append(hist, [a |-> "Sync"])
Stop == IterAtomicCore("stop") /\ hist' = Append(hist, [a |-> "Stop"])

AppendA(n, as) == /\ AppendCore(n, as)
                  /\ hist' = Append(hist, [a |-> "Append", n |-> n, asap |-> as])
                  /\ UNCHANGED <<phase, accept, stopReq, taken, ops, pc, it, dirty, fw, fsy, commits, runs, torn, tears>>

(* Run() again on the same files from resume position P: the reader replays [P, offG), then
   binlog.go:WriteLoop/setupWriterWorker re-initialises the writer from the reader's
   PositionInfo: lastPosForCrc := the end offset (not the position of the last crc32 record). *)
Resume == {0} \cup bounds
RestartCore(P) ==
    /\ phase = "stopped" /\ runs < MaxRuns
    /\ IsBoundary(P)
    /\ phase' = "run" /\ accept' = TRUE /\ stopReq' = FALSE /\ asapPend' = FALSE
    /\ taken' = offG /\ ops' = <<>> /\ pc' = "idle" /\ dirty' = FALSE
    /\ runs' = runs + 1
    /\ crcAt' = offG
    /\ bounds' = bounds \cup {offG}
    /\ UNCHANGED <<chunk, offG, fileStart, nextId, appended, it, fw, fsy, tears>>

(* The torn bytes stay in the file as something that is not a record; a writer that starts anyway
   (O_APPEND) puts the next event after them while it goes on counting offsets from offG. *)
TornRec == Rec("torn", offG, 0, 0, NFiles)
StartedCore(cut) == /\ recs' = IF torn > 0 /\ ~cut THEN Append(recs, TornRec) ELSE recs
                    /\ torn' = 0

Restart(P, m) == /\ torn > 0 => TornMode \in {"cut", "append"}
                 /\ RestartCore(P)
                 /\ StartedCore(TornMode = "cut")
                 /\ commits' = << offG >>        \* WriteLoop: engine.Commit(ri.Offset, ...)
                 /\ hist' = Append(hist, [a |-> "Restart", from |-> P, meta |-> m])

(* writer.go:initChunk: "current position in file is not equal file size" -- Run() fails *)
Refused(P, m) == /\ phase = "stopped" /\ torn > 0 /\ TornMode = "refuse" /\ IsBoundary(P)
                 /\ hist' = Append(hist, [a |-> "Restart", from |-> P, meta |-> m])
                 /\ UNCHANGED <<wvars, pvars>>

(* A crash inside a write: the last file ends at stream position k, inside (or at the start of) one
   of its records after the file header.  Everything from that record on is lost. *)
LastHdrIdx == CHOOSE i \in DOMAIN recs : recs[i].f = NFiles /\ recs[i].k \in {"tag", "rotFrom"}
TearCore(k) ==
    /\ phase = "stopped" /\ k < offG
    /\ LET j == CHOOSE i \in DOMAIN recs : recs[i].pos <= k /\ k < End(recs[i])
           e == recs[j].pos
       IN /\ j > LastHdrIdx
          /\ recs' = SubSeq(recs, 1, j - 1)
          /\ offG' = e /\ taken' = e
          /\ torn' = k - e
          /\ appended' = SelectSeq(appended, LAMBDA a : a.at < e)
          /\ bounds' = {b \in bounds : b <= e} \cup {e}
          /\ commits' = << e >>
          /\ fw' = [f \in 1..NFiles |-> (IF f = NFiles THEN e ELSE FEnd(f)) - FStart(f)]
          /\ fsy' = fw'
    /\ tears' = tears + 1
    /\ UNCHANGED <<chunk, crcAt, fileStart, nextId, phase, accept, stopReq, asapPend, ops, pc, it, dirty, runs>>
Tear(k) == TearCore(k) /\ hist' = Append(hist, [a |-> "Tear", at |-> k])
TearPoints == IF phase # "stopped" THEN {} ELSE
              UNION {{r.pos, r.pos + 1, r.pos + 12, End(r) - 1} \cap r.pos..(End(r) - 1)
                     : r \in {recs[i] : i \in (LastHdrIdx + 1)..Len(recs)}}

NextFine ==
    \/ /\ Len(hist) < MaxOps
       /\ \/ \E n \in Lens, as \in Asaps : AppendA(n, as)
          \/ ReqStop
    \/ \E c \in {"data", "timer", "stop"} : IterBegin(c)
    \/ OpStep \/ WDone \/ SyncStep \/ CommitStep \/ Fin

NextAtomic ==
    /\ Len(hist) < MaxOps
    /\ \/ \E n \in Lens, as \in Asaps : AppendA(n, as)
       \/ Sync
       \/ Stop
       \/ \E P \in Resume, m \in BOOLEAN : (P = 0 => ~m) /\ (Restart(P, m) \/ Refused(P, m))
       \/ tears < MaxTears /\ \E k \in TearPoints : Tear(k)

Next == IF Fine THEN NextFine ELSE NextAtomic
Spec == Init /\ [][Next]_vars

-------------------------------------------------------------------------------
(* READER and damage.  D = [t |-> "none" | "trunc" | "flip", at |-> byte position].
   trunc k: files starting at or after k are gone, the file containing k ends at k.
   flip k:  byte k of the stream differs from what was written.                          *)
NoDmg == [t |-> "none", at |-> 0]

(* what a changed byte at offset b of a record does *)
Class(r, k) ==
    LET b == k - r.pos IN
    CASE r.k = "start"   -> "weak"                                     \* file header, parsed by the directory scan
      [] r.k = "tag"     -> IF b < 4 THEN "weak" ELSE "chain"
      [] r.k = "ev"      -> IF b < EvHdr THEN "weak" ELSE "chain"      \* framing is the engine's business
      [] r.k = "crc"     -> IF b < 4 THEN "weak" ELSE IF b < 16 THEN "chain" ELSE "self"
      [] r.k = "rotTo"   -> IF b < 4 THEN "weak" ELSE IF b >= 16 /\ b < 20 THEN "self" ELSE "chain"
      [] r.k = "rotFrom" -> IF b < 4 \/ (b >= 8 /\ b < 16) THEN "weak"  \* magic, CurLogPos: directory scan
                            ELSE IF b >= 16 /\ b < 20 THEN "seed" ELSE "chain"
RecAt(k) == CHOOSE i \in DOMAIN recs : recs[i].pos <= k /\ k < End(recs[i])
FileOfPos(P) == IF P >= offG THEN NFiles ELSE
                LET i == RecAt(P) IN recs[i].f        \* utils.go:getBinlogIndexByPosition (Position <= P)
HdrLen(f) == IF f = 1 THEN StartSize ELSE RotSize
(* cuts that leave a file without a complete header.  A cut exactly at the start of a later file
   (the previous file ends with rotateTo, the next file is missing) is put in the same class: the
   writer creates the next file before it writes rotateTo, and the reader reports the offset
   *before* the rotateTo record in this case (it adds the record's size at the top of the next
   loop iteration, which `finish` skips) *)
TornHeader(k) == k < StartSize \/ \E i \in DOMAIN recs : recs[i].k = "rotFrom" /\ recs[i].pos <= k /\ k < End(recs[i])
HdrWeak(k) == k < offG /\ LET r == recs[RecAt(k)] IN r.k \in {"start", "rotFrom"} /\ Class(r, k) = "weak"

IsCkCode(r) == r.k = "crc" \/ (r.k = "rotTo" /\ CheckRotTo)     \* what the reader verifies
IsCkProp(r) == r.k = "crc" \/ r.k = "rotTo"                      \* what carries a checksum

Res(err, lo, hi, end) == [err |-> err, lo |-> lo, hi |-> hi, end |-> end]

(* reader.go:readUncompressedFile main loop, continued over the following files by
   readAllFromPosition.  bad = the running crc32 differs from the writer's.               *)
RECURSIVE Walk(_, _, _, _)
Walk(i, bad, D, lo) ==
    IF i > Len(recs) THEN Res("none", lo, i, offG)
    ELSE LET r == recs[i] IN
         IF r.k = "torn"      \* not a record: alone at the end it reads as an incomplete one; followed by more
         THEN Res(IF i = Len(recs) THEN "none" ELSE "torn", lo, i, r.pos)   \* bytes it makes a chimera event
         ELSE IF D.t = "trunc" /\ End(r) > D.at THEN Res("none", lo, i, r.pos)   \* ErrorNotEnoughData, then EOF
         ELSE LET hit  == D.t = "flip" /\ D.at >= r.pos /\ D.at < End(r)
                  cls  == IF hit THEN Class(r, D.at) ELSE "no"
                  bad1 == IF r.k = "rotFrom" THEN FALSE ELSE bad    \* every file starts from its header's Crc32
              IN IF cls = "weak" THEN Res("weak", lo, i, r.pos)
                 ELSE IF IsCkCode(r) /\ (bad1 \/ cls = "self") THEN Res("crc", lo, i, r.pos)
                 ELSE Walk(i + 1, bad1 \/ cls \in {"chain", "seed", "self"}, D, lo)

ReadModel(P, m, D) ==
    IF D.t = "trunc" /\ TornHeader(D.at) THEN Res("weak", 0, 0, 0)
    ELSE IF D.t = "flip" /\ HdrWeak(D.at) THEN Res("weak", 0, 0, 0)
    ELSE IF D.t = "trunc" /\ D.at < P THEN Res("seek", 0, 0, 0)          \* readToAndUpdateCrc hits EOF
    ELSE LET i0 == IdxAt(P)
             fs == FStart(FileOfPos(P))
             flipBefore == D.t = "flip" /\ D.at >= fs /\ D.at < P      \* consumed by the seek
         IN IF flipBefore /\ m THEN Res("crc", i0, i0, P)               \* readAndUpdateCRCIfNeed: CommitCrc
            ELSE Walk(i0, flipBefore, D, i0)

(* delivered damaged: the event that contains the flipped byte, if it was delivered *)
Dmgd(R, D) == IF D.t # "flip" \/ D.at >= offG \/ R.err = "weak" THEN 0 ELSE
              LET j == RecAt(D.at) IN IF R.lo <= j /\ j < R.hi /\ recs[j].k = "ev" THEN j ELSE 0

(* checksum records that must not be passed after a flip at k *)
Forbidden(D) == IF D.t # "flip" \/ D.at >= offG THEN {} ELSE
                LET k == D.at  f == recs[RecAt(k)].f IN
                {i \in DOMAIN recs : IsCkCode(recs[i]) /\ recs[i].f = f /\ End(recs[i]) > k}

-------------------------------------------------------------------------------
(* PROPERTY *)
Stopped == phase = "stopped"
EvOf(lo, hi) == LET idx == SelectSeq([j \in 1..(hi - lo) |-> lo + j - 1], LAMBDA j : recs[j].k = "ev")
                IN [j \in DOMAIN idx |-> [id |-> recs[idx[j]].id, at |-> recs[idx[j]].pos]]
Expected(P, lim) == LET s == SelectSeq(appended, LAMBDA a : a.at >= P /\ a.at + Pad(a.n) <= lim)
                    IN [j \in DOMAIN s |-> [id |-> s[j].id, at |-> s[j].at]]

(* each event sits at the offset the previous Append returned *)
OffsetsChain == \A j \in DOMAIN appended :
                   appended[j].at = (IF j = 1 THEN Hdr ELSE appended[j - 1].ret)

ReplayExact == Stopped =>
    \A P \in Resume, m \in BOOLEAN :
       LET R == ReadModel(P, m, NoDmg) IN
       R.err = "none" /\ R.end = offG /\ EvOf(R.lo, R.hi) = Expected(P, offG)

(* one byte of every field of every record / the bytes around every record boundary *)
FlipPoints == UNION {{r.pos, r.pos + 4, r.pos + 8, r.pos + 16, r.pos + 20, End(r) - 1} \cap r.pos..(End(r) - 1)
                     : r \in {recs[i] : i \in DOMAIN recs}}
TruncPoints == UNION {{r.pos, r.pos + 1, End(r) - 1} : r \in {recs[i] : i \in DOMAIN recs}} \cup {offG}

(* (the snapshot meta only matters for bytes before the resume position, so TruncSafe fixes m) *)
TruncSafe == Stopped =>
    \A k \in TruncPoints, P \in Resume :
       (P <= k /\ ~TornHeader(k)) =>
         LET R == ReadModel(P, TRUE, [t |-> "trunc", at |-> k]) IN
         /\ R.err = "none"
         /\ EvOf(R.lo, R.hi) = Expected(P, k)                 \* all complete events, no partial one
         /\ R.end <= k /\ IsBoundary(R.end)
         /\ \A b \in (R.end + 1)..k : ~IsBoundary(b)          \* up to the last complete record

FlipDetected == Stopped =>
    LET full == [P \in Resume |-> Expected(P, offG)] IN
    \A k \in FlipPoints, P \in Resume, m \in BOOLEAN :
       (m => k < P) =>
       LET D == [t |-> "flip", at |-> k]
           R == ReadModel(P, m, D)
           f == recs[RecAt(k)].f
           consumed == k >= FStart(FileOfPos(P))
           cks == {i \in DOMAIN recs : IsCkProp(recs[i]) /\ recs[i].f = f /\ End(recs[i]) > k /\ recs[i].pos >= P
                                       /\ (recs[i].pos > k \/ Class(recs[i], k) = "self")}
           first == CHOOSE i \in cks : \A j \in cks : i <= j
       IN R.err # "weak" =>
            IF consumed /\ m /\ k < P THEN R.err = "crc" /\ R.hi = R.lo      \* rejected by the snapshot meta
            ELSE IF consumed /\ cks # {}
                 THEN /\ R.err = "crc"
                      /\ R.hi = first /\ R.end = recs[first].pos              \* when that record is reached
                      /\ R.lo = IdxAt(P)
                 ELSE R.err = "none" /\ R.end = offG /\ EvOf(R.lo, R.hi) = full[P]

CommitMonotone == \A j \in 1..(Len(commits) - 1) : commits[j] <= commits[j + 1]
CommitAtBoundary == \A j \in DOMAIN commits : commits[j] \in bounds
(* every byte below the last notified offset is in a file and was written before that file's last fsync *)
Durable(c) == \A f \in 1..NFiles :
                 FStart(f) < c => /\ f <= Len(fsy)
                                  /\ fsy[f] >= Min(c, FEnd(f)) - FStart(f)
CommitDurable == \A j \in DOMAIN commits : Durable(commits[j])
StopCommitsAll == Stopped => commits[Len(commits)] = offG

Export == PrintT(<<"BEH", ToJson(hist')>>)
================================================================================
