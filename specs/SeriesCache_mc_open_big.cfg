INIT Init
NEXT Next
CONSTANTS
  NChunks = 2
  CS = 1
  NGets = 2
  Ranges <- AllRanges
  Plays <- NoPlay
  Forces <- NoForce
  MaxInv = 1
  MaxTrim = 1
  MaxFail = 1
  Age <- LastOpen
  FixAwait = TRUE
  FixPublish = TRUE
  FixInvMax = FALSE
  AnyTakesAwaiters = FALSE
  SeqInv = TRUE
  MaxOps = 0
VIEW View
INVARIANTS TypeOK Placement Produced Freshness NoDoubleSend NoLostWakeup AwaitersServed Accounting LoadingCount
CHECK_DEADLOCK FALSE
