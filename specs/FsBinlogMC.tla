------------------------------ MODULE FsBinlogMC ------------------------------
(* Bounded instances of FsBinlog.  Record sizes are the code's; the small instances shrink
   writeCrcEveryBytes / MaxChunkSize so that crc32 records and rotations appear within a few
   appends; the behaviour-export instance uses the code's writeCrcEveryBytes = 65536.        *)
EXTENDS FsBinlog
MCChunksSmall == {100, 170, 1000000}
MCLensSmall   == {12, 21, 50}
MCChunksFine  == {100, 1000000}
MCLensFine    == {12, 50}
MCChunksReal  == {100, 40000, 140000, 1073741824}
MCLensReal    == {13, 32, 33000, 66000}
MCLensReal3   == {13, 33000, 66000}
MCChunksTorn  == {100, 1073741824}
MCLensTorn    == {13, 40}
(* torn-tail histories: appends, Stop, Tear, Restart directly after the Tear, appends, Stop;
   only the complete ones are exported *)
TornOK == \A i \in 1..Len(hist') : hist'[i].a = "Restart" => (i > 1 /\ hist'[i - 1].a = "Tear")
TornDone == /\ hist'[Len(hist')].a = "Stop"
            /\ \E i, j \in 1..Len(hist') : i < j /\ hist'[i].a = "Restart" /\ hist'[j].a = "Append"
ExportTorn == TornOK /\ (IF TornDone THEN PrintT(<<"BEH", ToJson(hist')>>) ELSE TRUE)
===============================================================================
