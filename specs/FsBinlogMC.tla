------------------------------ MODULE FsBinlogMC ------------------------------
(* Bounded instances of FsBinlog.  Record sizes are the code's; the small instances shrink
   writeCrcEveryBytes / MaxChunkSize so that crc32 records and rotations appear within a few
   appends; the behaviour-export instance uses the code's writeCrcEveryBytes = 65536.        *)
EXTENDS FsBinlog
MCChunksSmall == {100, 170, 1000000}
MCLensSmall   == {12, 21, 50}
MCChunksFine  == {100, 1000000}
MCLensFine    == {12, 50}
MCChunksReal  == {100, 40000, 140000, 1073741824}
MCLensReal    == {13, 32, 33000, 66000}
MCLensReal3   == {13, 33000, 66000}
===============================================================================
