INIT Init
NEXT Next
CONSTANTS
  Ids <- IdsCBig
  Names <- NamesCBig
  Chars <- MCChars
  Replicas = {"c", "ac", "ac2"}
  Up <- MCUp
  IsCompact <- MCIsCompact
  MaxBatch = 2
  ChunkSizes = {1, 2}
  MaxVer = 4
  MaxRestarts = 2
  MaxOps = 0
  OrigNames = FALSE
  OrigSkip = FALSE
VIEW View
CHECK_DEADLOCK FALSE
INVARIANTS NoPanic LoaderAhead HashConsistent VersionsDistinct StorageMatchesJournal NameLookupCorrect GroupAssignmentCorrect Converged HashAgreement
