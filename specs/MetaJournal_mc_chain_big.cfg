INIT Init
NEXT Next
CONSTANTS
  Ids <- IdsC
  Names <- NamesC
  Chars <- MCChars
  Replicas = {"c", "ac"}
  Up <- MCUp
  IsCompact <- MCIsCompact
  MaxBatch = 2
  ChunkSizes = {1}
  MaxVer = 4
  MaxRestarts = 1
  MaxOps = 0
  OrigNames = FALSE
  OrigSkip = FALSE
VIEW View
CHECK_DEADLOCK FALSE
INVARIANTS NoPanic LoaderAhead HashConsistent VersionsDistinct StorageMatchesJournal NameLookupCorrect GroupAssignmentCorrect Converged HashAgreement
