------------------------ MODULE PersistCacheMappingsMC ------------------------
(* Bounded instances of PersistCacheMappings.  Strings of lengths 1, 2, 4 weigh 33, 34, 37
   (elementSizeMem), so that 70 holds two entries and 105 three; the batches cover marker
   values, the empty string, a string offered with two values, a string repeated inside one
   batch, and multi-element batches that need eviction. *)
EXTENDS PersistCacheMappings
P(s, v) == [s |-> s, v |-> v]
MCBatches == { << P("a", 1) >>, << P("bb", 2) >>, << P("cccc", 3) >>,
               << P("a", 5), P("bb", 2) >>,             \* "a" offered with another value
               << P("cccc", 3), P("a", 1) >>,
               << P("bb", 0), P("", 4), P("a", -1) >>,  \* markers and the empty string only
               << P("bb", -2), P("cccc", 3) >>,
               << P("bb", 2), P("bb", 2) >> }           \* repeated inside one batch
MCBatchesSmall == { << P("a", 1) >>, << P("bb", 2), P("cccc", 3) >>, << P("a", 5), P("bb", 0) >>,
                    << P("bb", 2), P("bb", 2) >> }
MCGetStrs == {"a", "bb", ""}
===============================================================================
