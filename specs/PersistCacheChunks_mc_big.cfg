INIT Init
NEXT Next
CONSTANTS
  Magic = 7
  OtherMagic = 8
  Half = 2
  Max = 4
  SizeAlts = {0, 1, 2, 3, 4, 5}
  ItemSizes = {1, 2, 4}
  MaxItems = 3
  MaxOpens = 3
  MaxDamage = 2
  MaxOps = 13
VIEW View
INVARIANTS PrefixOfSaved NoDamagedItem ExactReload WriterPosition CommittedInFile NoEmptyChunk
CHECK_DEADLOCK FALSE
