SPECIFICATION TraceSpec
CONSTANTS
  MAXSIZE = 65536
  MaxSkip = 32
  Hashes = {}
  NSk = 1
  MaxIns = 0
  MaxMrg = 0
  FixMerge = TRUE
  FixMergeRead = TRUE
VIEW TraceView
CONSTRAINT HighWater
INVARIANTS SketchCanonical
POSTCONDITION TraceAccepted
CHECK_DEADLOCK FALSE
