SPECIFICATION TraceSpec
CONSTANTS
  Users = {}
  NQ = 0
  InitCaps = {}
  Caps = {}
  MaxAdjust = 0
  MaxOps = 0
  Bug = "none"
  KeepHist = FALSE
  Recycle = FALSE
  Normalize = FALSE
VIEW TraceView
CONSTRAINT HighWater
INVARIANTS TypeOK CapacityAtGrant NoLostWakeup NoLeak OutcomeOK RoundRobinFair SnapshotAgrees
POSTCONDITION TraceAccepted
CHECK_DEADLOCK FALSE
