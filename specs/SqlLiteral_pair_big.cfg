INIT Init
NEXT Next
CONSTANTS
  Alphabet = {"q", "b", "n", "0", "x", "N", "w", "L", "M"}
  MaxLen = 3
  Alphabet2 = {"q", "b", "n", "0", "x", "N", "w", "L", "M"}
  MaxLen2 = 2
  EscMap <- RepoEscMap
INVARIANTS RoundTrip PairTheorem
CHECK_DEADLOCK FALSE
