INIT Init
NEXT Next
CONSTANTS
  Shards <- MCShards3
  Secs = {7}
  Lens = {0, 3, 100}
  HeaderSize = 20
  MagicLen = 4
  MagicCommon = 2
  RotateSize = 52428800
  HalfIsDeleted = TRUE
  TearKs <- SimKs
  WrongSecs <- AnyWrong
  AllowCorrupt = TRUE
  MaxPuts = 40
  MaxRestarts = 8
  MaxOps = 50
VIEW View
ACTION_CONSTRAINT ExportEnd
CHECK_DEADLOCK FALSE
