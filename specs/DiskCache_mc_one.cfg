INIT Init
NEXT Next
CONSTANTS
  Shards <- MCShards1
  Secs = {7}
  Lens = {0, 1, 3}
  HeaderSize = 20
  MagicLen = 4
  MagicCommon = 2
  RotateSize = 45
  HalfIsDeleted = TRUE
  TearKs <- AllKs
  WrongSecs <- AnyWrong
  AllowCorrupt = TRUE
  MaxPuts = 4
  MaxRestarts = 3
  MaxOps = 6
VIEW View
INVARIANTS RereadExact TailOrder GetExact IdsUnique SizesMatch ErasedFileDeleted RefCounts KnownPointsAtRecord DiskOrdered
CHECK_DEADLOCK FALSE
