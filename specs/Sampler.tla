------------------------------- MODULE Sampler -------------------------------
(* Bucket sampler (internal/data_model/sampling.go), properties C05 and C06.

   Public operations of the code are the actions: NewSampler (Init chooses the input and the
   option set), Add (one row), Run (partitioning + water-filling of sampler.run, transcribed
   as the recursive operator RunG with the code's exact integer arithmetic: every rational
   comparison is a cross-multiplication, like in the code), SampleLeaf (sampler.sample or
   sampler.sampleQuota on one leaf: whales, factor doubling, selection) and Finish.

   Nondeterminism of the code:
     * RoundF (roundSampleFactor: floor or, when the share is fractional, floor+1) is the
       oracle `ro` (group id -> 0/1) chosen in Run;
     * SelectF: "det" = the unit-test hook floor(len/sf); "any" = selectRandom, which may
       keep ANY subset when sf > 1 and keeps everything when sf <= 1;
     * sort.Slice is not stable: rows with equal whale weight may come in any order
       (TopSets).  Ties between partitions do not influence the outcome (see Sorted).

   Two layers, kept apart:
     mechanism  - Partition / Sorted / FitLoop / SampleLoop / LeafFactor / SampleLeafCore
     property   - the invariants at the end of the module, stated on the ghost part of the
                  outcome: out[i] (decision, factor fn/fd, ghost keep probability pn/pd as
                  promised by the selector's contract) and the "node" records of `plan`
                  (budget every visited parent had available and its child partitions).

   A row's sample factor is the rational fn/fd; math.MaxFloat32 ("never kept") is fd = 0.  *)
EXTENDS Integers, Sequences, FiniteSets, TLC, Json

CONSTANTS RoundMode,    \* "floor" | "ceil" | "any"
          SelectMode,   \* "det" | "any"
          LegacyBreak   \* TRUE: behaviour before the fix (a fixed-budget group that does not
                        \* fit ends the fit loop; later groups are never re-tested)

VARIABLES input,  \* [opts, nsW, grpW, meta, items, budget]  (what NewSampler/Add/Run receive)
          phase,  \* ("new" |) "add" | "sample" | "done"
          nadd,   \* rows handed to Add so far (rows are added in index order)
          out,    \* row -> sequence of callback records (exactly-once = length 1 at the end)
          ro,     \* rounding oracle used by Run
          plan,   \* result of the water-filling: keep / leaf / node records
          todo    \* leaves not sampled yet

vars == <<input, phase, nadd, out, ro, plan, todo>>

-------------------------------------------------------------------------------
(* Input accessors *)
Opt == input.opts      \* [agent, single, nonsa, budgets, ns, grp, keys, quota : BOOLEAN]
N == Len(input.items)
It(i) == input.items[i]            \* [m, size, ww, key, single]
MetaOf(i) == input.meta[It(i).m]   \* [ns, grp, w, nsa, fkl, bud]
Max(a, b) == IF a > b THEN a ELSE b
Min(a, b) == IF a < b THEN a ELSE b
NsW(ns) == IF ns # 0 /\ ns \in DOMAIN input.nsW THEN Max(1, input.nsW[ns]) ELSE 1     \* getNamespaceWeight
GrpW(g) == IF g # 0 /\ g \in DOMAIN input.grpW THEN Max(1, input.grpW[g]) ELSE 1      \* getGroupWeight
\* Per-metric fixed budget; rows carry it in SamplingMultiItemPair.Budget.  It only means
\* something when SampleBudgets is on (after the fix the sort ignores it otherwise).
Bud(i) == IF Opt.budgets THEN MetaOf(i).bud ELSE 0
\* fairKeyLen: set only with SampleKeys, capped by maxFairKeyLen = 3 (inputs use <= 2)
FKL(i) == IF Opt.keys THEN MetaOf(i).fkl ELSE 0
NoSampleHere(nsa) == nsa /\ Opt.agent /\ ~Opt.nonsa   \* noSampleAgent && ModeAgent && !DisableNoSampleAgent

\* rows that reach h.items (Add discards rows with Size < 1 immediately)
Bucket == {i \in 1..N : It(i).size >= 1}

RECURSIVE SumSize(_)
SumSize(S) == IF S = {} THEN 0 ELSE LET i == CHOOSE i \in S : TRUE IN It(i).size + SumSize(S \ {i})
AnyOf(S) == CHOOSE i \in S : TRUE
ByVal(S, F(_)) == {{i \in S : F(i) = v} : v \in {F(i) : i \in S}}

\* NewSampler: partition functions by depth
PartF == (IF Opt.budgets THEN <<"budget">> ELSE <<>>) \o (IF Opt.ns THEN <<"ns">> ELSE <<>>)
         \o (IF Opt.grp THEN <<"grp">> ELSE <<>>) \o <<"metric">>
NP == Len(PartF)

-------------------------------------------------------------------------------
(* Partitioning.  A group: depth, rows, fixed budget?, budget/denom (a rational), weight,
   sumSize, noSampleAgent, id = path of <<level, value>> pairs (level 0 = fixed-budget metric,
   1 = namespace, 2 = group, 3 = metric, 4 = fair key). *)
Grp(d, S, fixed, b, w, nsa, id) ==
  [depth |-> d, items |-> S, fixed |-> fixed, budget |-> b, denom |-> IF fixed THEN 1 ELSE 0,
   weight |-> w, size |-> SumSize(S), nsa |-> nsa, id |-> id]

RECURSIVE SumW(_)
SumW(gs) == IF gs = {} THEN 0 ELSE LET g == CHOOSE g \in gs : TRUE IN g.weight + SumW(gs \ {g})

Level(name, g, d) ==   \* partitionByNamespace / ByGroup / ByMetric: children get depth d
  CASE name = "ns" ->
         {Grp(d, P, FALSE, 0, NsW(MetaOf(AnyOf(P)).ns), FALSE, g.id \o <<1, MetaOf(AnyOf(P)).ns>>) :
            P \in ByVal(g.items, LAMBDA i : MetaOf(i).ns)}
    [] name = "grp" ->
         {Grp(d, P, FALSE, 0, GrpW(MetaOf(AnyOf(P)).grp), FALSE, g.id \o <<2, MetaOf(AnyOf(P)).grp>>) :
            P \in ByVal(g.items, LAMBDA i : MetaOf(i).grp)}
    [] name = "metric" ->
         {Grp(d, P, FALSE, 0, MetaOf(AnyOf(P)).w, MetaOf(AnyOf(P)).nsa, g.id \o <<3, It(AnyOf(P)).m>>) :
            P \in ByVal(g.items, LAMBDA i : It(i).m)}

Partition(g) ==   \* h.partF[g.depth](h, g), or partitionByKey below the metric level
  IF g.depth < NP THEN
    IF PartF[g.depth + 1] = "budget" THEN
      \* partitionByBudget: metrics with a fixed budget become groups of depth len(partF) with
      \* weight 1 and budget/1; the rest is partitioned by the NEXT function; sumWeight is the
      \* rest's (1 if there is no rest)
      LET fx == {i \in g.items : Bud(i) > 0}
          rest == g.items \ fx
          fgs == {Grp(NP, P, TRUE, Bud(AnyOf(P)), 1, MetaOf(AnyOf(P)).nsa, <<0, It(AnyOf(P)).m>>) :
                    P \in ByVal(fx, LAMBDA i : It(i).m)}
      IN IF rest = {} THEN [gs |-> fgs, sw |-> 1]
         ELSE LET r == Level(PartF[g.depth + 2], [g EXCEPT !.items = rest], g.depth + 2)
              IN [gs |-> fgs \cup r, sw |-> SumW(r)]
    ELSE LET r == Level(PartF[g.depth + 1], g, g.depth + 1) IN [gs |-> r, sw |-> SumW(r)]
  ELSE \* partitionByKey: fair key number depth - len(partF), weight 1
    LET kd == g.depth - NP + 1
        r == {Grp(g.depth + 1, P, FALSE, 0, 1, MetaOf(AnyOf(P)).nsa, g.id \o <<4, It(AnyOf(P)).key[kd]>>) :
                P \in ByVal(g.items, LAMBDA i : It(i).key[kd])}
    IN [gs |-> r, sw |-> SumW(r)]

\* s[i].depth < len(h.partF)+s[i].items[0].fairKeyLen : the group is partitioned further
IsInner(c) == c.depth < NP + FKL(AnyOf(c.items))

\* sort.Slice(s, sumSize_i*weight_j < sumSize_j*weight_i).  Which of two partitions with the same
\* ratio comes first does not change any decision (checked: invariants hold for the order picked
\* here and the real code is run on every input); with LegacyBreak the fixed-budget group is put
\* first among equals, the unfavourable order.
RatioLess(a, b) == a.size * b.weight < b.size * a.weight
RECURSIVE Sorted(_)
Sorted(gs) ==
  IF gs = {} THEN <<>>
  ELSE LET mins == {x \in gs : \A y \in gs : ~RatioLess(y, x)}
           x == IF \E y \in mins : y.fixed THEN CHOOSE y \in mins : y.fixed ELSE CHOOSE y \in mins : TRUE
       IN <<x>> \o Sorted(gs \ {x})

\* budget assignment in both loops:  if !FixedBudget { budget = g.budget*weight; budgetDenom = sumWeight }
WithBudget(c, B, W) == IF c.fixed THEN c ELSE [c EXCEPT !.budget = B * c.weight, !.denom = W]
Fits(c) == ~(c.budget < c.denom * c.size)

Rounded(c, r) ==   \* int64(h.RoundF(float64(budget)/float64(budgetDenom), h.Rand)); budgetDenom = 1
  LET fl == c.budget \div c.denom
      up == IF c.budget % c.denom # 0 /\ c.id \in DOMAIN r /\ r[c.id] = 1 THEN 1 ELSE 0
  IN IF c.fixed THEN c ELSE [c EXCEPT !.budget = fl + up, !.denom = 1]

KidRec(c, fit) == [id |-> c.id, items |-> c.items, size |-> c.size, weight |-> c.weight, fixed |-> c.fixed,
                   nsa |-> NoSampleHere(c.nsa), fit |-> fit, inner |-> IsInner(c), b |-> c.budget, d |-> c.denom]

RECURSIVE RunG(_, _), Loop(_, _, _, _, _, _, _)
\* One pass over the sorted partitions with the running (budget, sumWeight) of the parent.
\* fitting = TRUE is the first loop of sampler.run ("groups smaller than the budget aren't
\* sampled"), FALSE the second one ("sample groups larger than budget").
Loop(s, i, B, W, fitting, r, acc) ==
  IF i > Len(s) THEN acc
  ELSE
    LET c == WithBudget(s[i], B, W) IN
    IF fitting THEN
      IF Fits(c) THEN
        Loop(s, i + 1, IF c.fixed THEN B ELSE B - c.size, IF c.fixed THEN W ELSE W - c.weight, TRUE, r,
             [acc EXCEPT !.res = @ \cup {[k |-> "keep", why |-> "fit", items |-> c.items, id |-> c.id]},
                         !.kids = @ \cup {KidRec(c, TRUE)}])
      ELSE Loop(s, i, B, W, FALSE, r, acc)     \* break
    ELSE
      IF ~LegacyBreak /\ Fits(c) THEN
        \* fix: a group behind a fixed-budget group that did not fit still fits its own share
        Loop(s, i + 1, IF c.fixed THEN B ELSE B - c.size, IF c.fixed THEN W ELSE W - c.weight, FALSE, r,
             [acc EXCEPT !.res = @ \cup {[k |-> "keep", why |-> "fit", items |-> c.items, id |-> c.id]},
                         !.kids = @ \cup {KidRec(c, TRUE)}])
      ELSE IF NoSampleHere(c.nsa) THEN
        Loop(s, i + 1, B, W, FALSE, r,
             [acc EXCEPT !.res = @ \cup {[k |-> "keep", why |-> "nsa", items |-> c.items, id |-> c.id]},
                         !.kids = @ \cup {KidRec(c, FALSE)}])
      ELSE IF IsInner(c) THEN
        Loop(s, i + 1, B, W, FALSE, r,
             [acc EXCEPT !.res = @ \cup RunG(Rounded(c, r), r), !.kids = @ \cup {KidRec(c, FALSE)}])
      ELSE
        Loop(s, i + 1, B, W, FALSE, r,
             [acc EXCEPT !.res = @ \cup {[k |-> "leaf", items |-> c.items, id |-> c.id, b |-> c.budget,
                                           d |-> c.denom, size |-> c.size]},
                         !.kids = @ \cup {KidRec(c, FALSE)}])

\* sampler.run(g): returns keep / leaf records plus one ghost "node" record per visited parent
RunG(g, r) ==
  LET p == Partition(g)
      a == Loop(Sorted(p.gs), 1, g.budget, p.sw, TRUE, r, [res |-> {}, kids |-> {}])
  IN a.res \cup {[k |-> "node", id |-> g.id, B |-> g.budget, W |-> p.sw, kids |-> a.kids]}

Root == [depth |-> 0, items |-> Bucket, fixed |-> FALSE, budget |-> input.budget, denom |-> 1, weight |-> 1,
         size |-> SumSize(Bucket), nsa |-> FALSE, id |-> <<>>]

Leaves(pl) == {x \in pl : x.k = "leaf"}
Keeps(pl) == {x \in pl : x.k = "keep"}
Nodes(pl) == {x \in pl : x.k = "node"}

-------------------------------------------------------------------------------
(* sampler.sample / sampler.sampleQuota on a leaf *)
Rec(d, fn, fd, pn, pd, q) == [d |-> d, fn |-> fn, fd |-> fd, pn |-> pn, pd |-> pd, q |-> q]
KeepOne(i) == Rec("keep", 1, 1, 1, 1, It(i).size)      \* keep(1, h): KeepF(item, ts, Size)
Inf == Rec("discard", 1, 0, 0, 1, 0)                    \* SF = math.MaxFloat32

LeafSingle(L) == Opt.single /\ Cardinality(L.items) = 1 /\ It(AnyOf(L.items)).single
SfNum(L) == Max(1, L.d * L.size)
SfDen(L) == Max(1, L.b)
WhalePos(L) == Min(Cardinality(L.items), ((Cardinality(L.items) * SfDen(L)) \div SfNum(L)) \div 2)
\* factor of the rows that go through the selector: doubled when whales took their half
LeafFn(L) == IF WhalePos(L) > 0 THEN 2 * SfNum(L) ELSE SfNum(L)
LeafFd(L) == SfDen(L)

\* the k rows with the largest whale weight, any order among equals
TopSetsAll(S, k) == {T \in SUBSET S : Cardinality(T) = k /\ \A a \in T, b \in S \ T : It(a).ww >= It(b).ww}
\* "detc" = "det" with one representative order among rows of equal whale weight (wide leaves: the
\* invariants do not depend on which of several equal rows is taken)
IsDet == SelectMode \in {"det", "detc"}
TopSets(S, k) == IF SelectMode = "detc" THEN {CHOOSE T \in TopSetsAll(S, k) : TRUE} ELSE TopSetsAll(S, k)

\* what SelectF may return for the rest `R` with factor fn/fd
\* (the rows are sorted by whale weight only when there are whales; otherwise they are in bucket order)
Selections(R, fn, fd, sorted) ==
  IF IsDet THEN                                                                                 \* int(len/sf), items[:pos]
    LET k == Min(Cardinality(R), (Cardinality(R) * fd) \div fn)
    IN IF sorted \/ SelectMode = "detc" THEN TopSets(R, k) ELSE {T \in SUBSET R : Cardinality(T) = k}
  ELSE IF fn <= fd THEN {R}                                                                     \* sf <= 1: return len(s)
  ELSE SUBSET R                                                                                 \* r.Float64()*sf < 1 per row

Put(o, i, rec) == [o EXCEPT ![i] = Append(@, rec)]
PutAll(o, S, F(_)) == [i \in DOMAIN o |-> IF i \in S THEN Append(o[i], F(i)) ELSE o[i]]

SampleRowsCore(L, whales, kept) ==
  IF LeafSingle(L) THEN
    /\ whales = {} /\ kept = {}
    /\ out' = PutAll(out, L.items, LAMBDA i : KeepOne(i))
  ELSE
    LET fn == LeafFn(L)
        fd == LeafFd(L)
        rest == L.items \ whales
        \* ghost: probability with which the selector keeps a row it is given factor sf for
        pn == IF fn <= fd THEN 1 ELSE fd
        pd == IF fn <= fd THEN 1 ELSE fn
    IN /\ whales \in TopSets(L.items, WhalePos(L))
       /\ kept \in Selections(rest, fn, fd, WhalePos(L) > 0)
       /\ out' = PutAll(out, L.items, LAMBDA i :
                   IF i \in whales THEN KeepOne(i)
                   ELSE Rec(IF i \in kept THEN "keep" ELSE "discard", fn, fd, pn, pd, It(i).size))

\* sampleQuota: quota = int(budget*size / (denom*sumSize)); < 1 -> discard(MaxFloat32) else keep(1) with Size = quota
Quota(L, i) == (L.b * It(i).size) \div (L.d * L.size)
SampleQuotaCore(L) ==
  out' = PutAll(out, L.items, LAMBDA i : IF Quota(L, i) < 1 THEN Inf ELSE Rec("keep", 1, 1, 1, 1, Quota(L, i)))

-------------------------------------------------------------------------------
(* Actions *)
InitWith(inp) ==
  /\ input = inp /\ phase = "add" /\ nadd = 0
  /\ out = [i \in 1..Len(inp.items) |-> <<>>]
  /\ ro = <<>> /\ plan = {} /\ todo = {}

AddCore(i) ==
  /\ phase = "add" /\ i = nadd + 1 /\ i <= N
  /\ nadd' = i
  /\ out' = IF It(i).size < 1 THEN Put(out, i, Inf) ELSE out
  /\ UNCHANGED <<input, phase, ro, plan, todo>>
Add(i) == AddCore(i)
\* all remaining rows at once (the composition of the Add steps; used by the large MC families)
AddAll ==
  /\ phase = "add" /\ nadd < N
  /\ nadd' = N
  /\ out' = [i \in 1..N |-> IF i > nadd /\ It(i).size < 1 THEN Append(out[i], Inf) ELSE out[i]]
  /\ UNCHANGED <<input, phase, ro, plan, todo>>

\* What RoundF may do.  Ids outside the oracle's domain count as floor; the candidates are the
\* inner groups sampled in a floor run (with larger budgets fewer groups are sampled).
OraclesFor(mode) ==
  IF mode = "floor" \/ Bucket = {} THEN {<<>>}
  ELSE LET all == {c.id : c \in {c \in UNION {n.kids : n \in Nodes(RunG(Root, <<>>))} :
                                        c.inner /\ ~c.fit /\ ~c.fixed /\ ~c.nsa}}
       IN IF mode = "ceil" THEN {[id \in all |-> 1]} ELSE [all -> {0, 1}]
Oracles == OraclesFor(RoundMode)

\* the water-filling alone (sampler.Run up to the callbacks)
PlanCore(r) ==
  /\ phase = "add" /\ nadd = N
  /\ ro' = r
  /\ plan' = IF Bucket = {} THEN {} ELSE RunG(Root, r)
  /\ todo' = {x.id : x \in Leaves(plan')}
  /\ phase' = "sample"
  /\ UNCHANGED <<input, nadd>>

RunCore(r) ==
  /\ PlanCore(r)
  /\ out' = PutAll(out, UNION {x.items : x \in Keeps(plan')}, LAMBDA i : KeepOne(i))   \* s[i].keep(h)
Run == \E r \in Oracles : RunCore(r)

NextLeaf == CHOOSE L \in Leaves(plan) : L.id \in todo
SampleLeafCore(L, whales, kept) ==
  /\ phase = "sample" /\ L \in Leaves(plan) /\ L.id \in todo
  /\ IF Opt.quota THEN whales = {} /\ kept = {} /\ SampleQuotaCore(L) ELSE SampleRowsCore(L, whales, kept)
  /\ todo' = todo \ {L.id}
  /\ UNCHANGED <<input, phase, nadd, ro, plan>>
\* the choices sampler.sample has on leaf L (enumerated directly; SampleRowsCore checks them again)
WhaleChoices(L) == IF Opt.quota \/ LeafSingle(L) THEN {{}} ELSE TopSets(L.items, WhalePos(L))
KeptChoices(L, whales) ==
  IF Opt.quota \/ LeafSingle(L) THEN {{}} ELSE Selections(L.items \ whales, LeafFn(L), LeafFd(L), WhalePos(L) > 0)
SampleLeaf ==
  /\ phase = "sample" /\ todo # {}
  /\ LET L == NextLeaf IN \E whales \in WhaleChoices(L) : \E kept \in KeptChoices(L, whales) :
        SampleLeafCore(L, whales, kept)

FinishCore == /\ phase = "sample" /\ todo = {} /\ phase' = "done"
              /\ UNCHANGED <<input, nadd, out, ro, plan, todo>>
Finish == FinishCore

Next == (\E i \in 1..N : Add(i)) \/ Run \/ SampleLeaf \/ Finish
NextFast == AddAll \/ Run \/ SampleLeaf \/ Finish

-------------------------------------------------------------------------------
(* Properties *)
Done == phase = "done"
Dec(i) == out[i][1]
KeptOne(i) == Len(out[i]) = 1 /\ Dec(i).d = "keep" /\ Dec(i).fn = Dec(i).fd
AllKeptOne(S) == \A i \in S : KeptOne(i)
Free == {i \in Bucket : Bud(i) = 0}          \* rows competing for the budget given to Run

\* ---- C05
AtMostOnce == \A i \in 1..N : Len(out[i]) <= 1
ExactlyOnce == Done => \A i \in 1..N : Len(out[i]) = 1
\* factor * keep probability = 1 for every row that can be kept; rows kept unconditionally have factor 1
Unbiased == ~Opt.quota => \A i \in Bucket : Len(out[i]) = 1 => Dec(i).fn * Dec(i).pn = Dec(i).fd * Dec(i).pd
KeptRowsFactorGE1 == \A i \in 1..N : Len(out[i]) = 1 /\ Dec(i).d = "keep" => Dec(i).fn >= Dec(i).fd
NoSampleAgentKept == Done /\ Opt.agent /\ ~Opt.nonsa => AllKeptOne({i \in Bucket : MetaOf(i).nsa})
\* (mechanism) all rows of a leaf that went through the selector carry the same factor
SameFactorInLeaf ==
  Done => \A L \in Leaves(plan) : \A i, j \in L.items :
     (Dec(i).fn # Dec(i).fd /\ Dec(j).fn # Dec(j).fd /\ Dec(i).fd # 0 /\ Dec(j).fd # 0) => Dec(i).fn * Dec(j).fd = Dec(j).fn * Dec(i).fd

\* ---- C06
FitsNothingSampled == Done /\ SumSize(Free) <= input.budget => AllKeptOne(Free)
\* at every level: a partition within its weight-proportional share of the parent's budget is kept entirely
FairShare ==
  Done => \A n \in Nodes(plan) : \A c \in n.kids :
     (~c.fixed /\ c.size * n.W <= n.B * c.weight) => AllKeptOne(c.items)
FixedWithinBudget ==
  Done => \A n \in Nodes(plan) : \A c \in n.kids : (c.fixed /\ c.size <= c.b) => AllKeptOne(c.items)
\* the same with the budget that remains after the partitions that fit: the least fixpoint of
\* "some partition fits its share of what is left", defined without reference to the sort
RECURSIVE MustFit(_, _, _)
MustFit(K, B, W) ==
  IF \E c \in K : c.size * W <= B * c.weight
  THEN LET c == CHOOSE c \in K : c.size * W <= B * c.weight IN {c.id} \cup MustFit(K \ {c}, B - c.size, W - c.weight)
  ELSE {}
FairShareRemaining ==
  Done => \A n \in Nodes(plan) :
     LET K == {c \in n.kids : ~c.fixed} IN \A c \in K : c.id \in MustFit(K, n.B, n.W) => AllKeptOne(c.items)
\* a partition the code treats as fitting really is within its share of what is left (no over-keeping)
FitIsJustified ==
  Done => \A n \in Nodes(plan) :
     LET K == {c \in n.kids : ~c.fixed} IN \A c \in K : c.fit => c.id \in MustFit(K, n.B, n.W)

\* sample factor of a sampled partition = size / share (the rational d*size / b)
Monotone ==
  Done => \A n \in Nodes(plan) : \A a, b \in n.kids :
     (~a.fixed /\ ~b.fixed /\ ~a.nsa /\ ~b.nsa /\ a.size * b.weight > b.size * a.weight) =>
        \/ b.fit                                                      \* factor 1, nothing is smaller
        \/ (~a.fit /\ a.d * a.size * b.b >= b.d * b.size * a.b)       \* sf_a >= sf_b

\* kept bytes with the deterministic hooks (SelectF = floor(len/sf), RoundF = floor)
KeptSize(S) == SumSize({i \in S : Len(out[i]) = 1 /\ Dec(i).d = "keep"})
UniformLeaf(L) == \A i, j \in L.items : It(i).size = It(j).size
\* `if sfDenom < 1 { sfDenom = 1 }`: a leaf whose share is 0 is sampled as if it had 1 unit, which keeps
\* a row only if it is 1 unit long (real rows are at least 12 bytes)
NoUnitClamp(L) == L.b >= 1 \/ \A i \in L.items : It(i).size >= 2
BoundClass(L) == UniformLeaf(L) /\ NoUnitClamp(L)
Forced == \/ \E x \in Keeps(plan) : x.why = "nsa"
          \/ \E L \in Leaves(plan) : LeafSingle(L)
KeptWithinBudgetOf(smode, rmode, cls(_)) ==
  (Done /\ smode = "det" /\ rmode = "floor" /\ ~Opt.quota /\ ~Forced /\ input.budget >= 1
     /\ \A L \in Leaves(plan) : cls(L))
  => /\ KeptSize(Free) <= input.budget
     /\ \A n \in Nodes(plan) : \A c \in n.kids : c.fixed => KeptSize(c.items) <= Max(c.b, 0)
KeptWithinBudget == KeptWithinBudgetOf(IF IsDet THEN "det" ELSE SelectMode, RoundMode, BoundClass)
KeptWithinBudgetAnySizes == KeptWithinBudgetOf(IF IsDet THEN "det" ELSE SelectMode, RoundMode, NoUnitClamp)   \* expected to FAIL (DESIGN 6.11)
KeptWithinBudgetUnitRows == KeptWithinBudgetOf(IF IsDet THEN "det" ELSE SelectMode, RoundMode, UniformLeaf)   \* expected to FAIL (share 0, 1-unit rows)

\* quota mode: budgets handed back are floor(share * size / sumSize) and sum to at most the total
QuotaSum(S) == LET RECURSIVE Q(_)
                   Q(T) == IF T = {} THEN 0 ELSE LET i == CHOOSE i \in T : TRUE
                                                IN (IF Dec(i).d = "keep" THEN Dec(i).q ELSE 0) + Q(T \ {i})
               IN Q(S)
QuotaWithinTotalOf(rmode) == Done /\ Opt.quota /\ rmode = "floor" /\ ~Forced => QuotaSum(Free) <= Max(input.budget, 0)
QuotaWithinTotal == QuotaWithinTotalOf(RoundMode)
QuotaProportional ==
  Done /\ Opt.quota => \A L \in Leaves(plan) : \A i \in L.items :
     LET q == IF Dec(i).d = "keep" THEN Dec(i).q ELSE 0
     IN /\ q * L.d * L.size <= L.b * It(i).size                 \* q <= share * size/sumSize
        /\ (q + 1) * L.d * L.size > L.b * It(i).size            \* and is its floor
        /\ (Dec(i).d = "keep") = (q >= 1)
QuotaFitIsSize == Done /\ Opt.quota => \A x \in Keeps(plan) : \A i \in x.items : Dec(i).q = It(i).size
\* with any rounding every rounded group adds less than one unit
QuotaWithinTotalAnyRounding ==
  Done /\ Opt.quota /\ ~Forced => QuotaSum(Free) <= Max(input.budget, 0) + Cardinality({n \in Nodes(plan) : n.id # <<>>})

TypeOK == phase \in {"new", "add", "sample", "done"} /\ nadd \in 0..N
===============================================================================
