INIT Init
NEXT Next
CONSTANTS
  Ids <- IdsC
  Names <- NamesC
  Chars <- MCChars
  Replicas = {"c", "ac"}
  Up <- MCUp
  IsCompact <- MCIsCompact
  MaxBatch = 2
  ChunkSizes = {1}
  MaxVer = 4
  MaxRestarts = 1
  MaxOps = 11
  OrigNames = FALSE
  OrigSkip = TRUE
VIEW View
CHECK_DEADLOCK FALSE
ACTION_CONSTRAINT ExportStale
