SPECIFICATION TraceSpec
CONSTANTS
  Writes <- TrWrites
  FailW <- TrNone
  Readers <- TrReaders
  Role = "master"
  Dur = "wait"
  SvcSizes <- TrNone
  StartSize = 24
  Size <- TrSize
  MaxCrash = 1000000
  MaxReads = 1000000
  MaxClose = 1000000
  AllowDesync = FALSE
  MaxOps = 0
VIEW TraceView
CONSTRAINT HighWater
INVARIANTS DbIsPrefix DbNotAheadOfSync DbNotAheadOfFile TxMirrorsBinlog TxMirrorsRead TxOffIsBoundary RecoveredAll RecoveredExact AckedDurable AckedRecovered FailedNowhere ViewWithinBinlog ReadWithinBinlog CommitInfoSound DiskBinlogSound CleanCloseComplete
POSTCONDITION TraceAccepted
CHECK_DEADLOCK FALSE
