INIT Init
NEXT Next
CONSTANTS
  MaxN = 4
  Ids <- MCIdsSmall
  Hashes <- MCHashesSmall
  KeyTimes <- MCKeyTimes
  Times <- MCTimesSmall
  Olds <- MCOldsSmall
  Lens <- MCLensSmall
  HWs <- MCHWsSmall
  Span = 4
VIEW View
INVARIANTS ShardInRange TimeIndependent AgentApiAgree HelpersAgree UnshardedReadsAll SecondaryDiffers HashInRange ConfigConsistent PrimaryIsOwner ReplicaOfShardAlive SpareDiffers SpareShared NoneOnlyIfDown FiledOwnSoon TickOwn AddressedToMe Theorems
ACTION_CONSTRAINT Export
CHECK_DEADLOCK FALSE
