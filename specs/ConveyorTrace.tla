----------------------------- MODULE ConveyorTrace -----------------------------
(* I->S for C01: validates a run of the real in-process cluster (harness
   internal/aggregator/verif_c01_*_test.go; hooks under build tag verif in internal/agent and
   internal/aggregator; fake ClickHouse reporting the marker rows of every accepted body)
   against Conveyor.  Every event is one Core action with all arguments logged, so validation
   is linear.  The invariants of Conveyor are evaluated in every state. *)
EXTENDS Conveyor, Json, ConveyorTraceConsts
VARIABLE l
Trace == ndJsonDeserialize("trace.ndjson")
ASSUME TLCSet(7, 0)

\* TrSecs, TrInsts, TrRepOf come from ConveyorTraceConsts.tla, generated from the trace by
\* checks/C01.py (all seconds / instances that occur, replica of each instance per AggStart)
tvars == <<vars, l>>
E == Trace[l]
IsEvent(e) == l <= Len(Trace) /\ Trace[l].ev = e /\ l' = l + 1
ToSet(q) == {q[j] : j \in 1..Len(q)}
Nop == UNCHANGED vars

TrInit == Init /\ l = 1

TrMark      == IsEvent("APrep") /\ MarkCore(E.sec, ToSet(E.markers))
TrToSenders == IsEvent("AToSenders") /\ ToSendersCore(E.sec, E.path)
TrPut       == IsEvent("APut") /\ PutCore(E.sec)
TrSendStart == IsEvent("ASendStart") /\ SendStartCore(E.sec, E.replica, E.historic, E.spare)
TrSendRes   == IsEvent("ASendRes") /\ SendResCore(E.sec, E.err, E.discard)
TrSendSkip  == IsEvent("ASendSkip") /\ SendSkipCore(E.sec)
TrForget    == IsEvent("AForget") /\ ForgetCore(E.sec, E.why)
TrHistApp   == IsEvent("AHistAppend") /\ HistAppendCore(E.sec, E.data)
TrPop       == IsEvent("APop") /\ PopCore(E.sec)
TrRead      == IsEvent("ARead") /\ ReadCore(E.sec)
TrAgRestart == IsEvent("AgentRestart") /\ AgentRestartCore

TrFile == /\ IsEvent("GFile")
          /\ LET d == Filing(RepOf[E.inst], E.sec, E.historic, E.oldest, E.newest, E.hw) IN
                d.kind = "file" /\ d.q = E.queue /\ d.T = E.bucket      \* the logged decision follows the rule
          /\ FileCore(E.inst, E.sec, E.queue, E.bucket)
TrReg  == IsEvent("GReg") /\ \E q \in {"recent", "historic"} : RegCore(E.inst, E.sec, q, E.bucket)
TrReject == /\ IsEvent("GReject")
            /\ E.why \in {"future", "beyond-window", "late"} =>
                  LET d == Filing(RepOf[E.inst], E.sec, E.historic, E.oldest, E.newest, E.hw) IN
                     d.kind = "reject" /\ d.why = E.why /\ d.discard = E.discard
            /\ RejectCore(E.inst, E.sec, E.why, E.discard)
TrHijack == IsEvent("GHijack") /\ Nop
TrTick == /\ IsEvent("GTick")
          /\ IF E.handoff THEN TickHandoffCore(E.inst, E.bucket) ELSE TickFullCore(E.inst, E.bucket)
TrInsertBegin == /\ IsEvent("GInsertBegin")
                 /\ InsertBeginCore(E.inst, E.sender,
                       {<<"recent", E.buckets[1]>>} \cup {<<"historic", E.buckets[k]>> : k \in 2..Len(E.buckets)})
TrStored == IsEvent("Stored") /\ \E id \in DOMAIN batch[E.inst] : StoredCore(E.inst, id, ToSet(E.ids))
TrInsertEnd == IsEvent("GInsertEnd") /\ InsertEndCore(E.inst, E.sender, E.ok)
TrReply == IsEvent("GReply") /\ ReplyCore(E.inst, E.sec, E.discard, E.kind)
TrInfo == (IsEvent("AggStart") \/ IsEvent("AggStop") \/ IsEvent("Fault") \/ IsEvent("MarkTry")) /\ Nop
\* end of the run, after every fault was healed and the conveyor had time to drain:
\* every marked second that was produced is settled (inserted / deliberately dropped / rejected)
TrQuiesce == IsEvent("Quiesce") /\ (\A s \in Secs : Settled(s)) /\ Nop

TrNext == \/ TrMark \/ TrToSenders \/ TrPut \/ TrSendStart \/ TrSendRes \/ TrSendSkip \/ TrForget
          \/ TrHistApp \/ TrPop \/ TrRead \/ TrAgRestart \/ TrFile \/ TrReg \/ TrReject \/ TrHijack \/ TrTick \/ TrInsertBegin
          \/ TrStored \/ TrInsertEnd \/ TrReply \/ TrInfo \/ TrQuiesce
TraceSpec == TrInit /\ [][TrNext]_tvars

HighWater == TLCSet(7, IF l > TLCGet(7) THEN l ELSE TLCGet(7))
TraceAccepted == IF TLCGet(7) = Len(Trace) + 1 THEN TRUE
                 ELSE PrintT(<<"TRACE_REJECTED_AT_LINE", TLCGet(7)>>) /\ FALSE
================================================================================
