INIT MCInit
NEXT ProgressNext
CONSTANTS
  Secs = {1, 2}
  Insts = {"a1", "a2", "a3", "b2"}
  RepOf <- MCRepOf
  SW = 2
  FW = 1
  HW = 30
  MaxT = 16
  MaxFaults = 2
  NIns = 1
VIEW MCView
INVARIANTS TypeOK ForgetOnlyAfterAck AckOnlyAfterInsertOrReject NoSilentLoss NeverSilentlyLost ForeignBucketsEmpty FiledWithinTwo SettledAtHorizon
CHECK_DEADLOCK FALSE
