\* quick: strings up to 3 tokens over 8 tokens, boundaries +-2, invariants + export
SPECIFICATION Spec
CONSTANTS
  Inputs <- MCInputs
  ShortLen = 3
  ShortAlphabet = {0, 1, 9, 10, 11, 12, 13, 14}
  Zeros = {0, 1, 22}
  Deltas = 2
INVARIANTS TypeOK Accepts32 Accepts64 Stores32 Stores64 Widening Export
CHECK_DEADLOCK FALSE
