------------------------------- MODULE RawTag -------------------------------
(***************************************************************************)
(* C11 (raw half): raw tag values of internal/format/format.go             *)
(*   ContainsRawTagValueBytes(s)   -> (int32, ok)          32-bit raw tags  *)
(*   ContainsRawTagValue64Bytes(s) -> (lo, hi int32, ok)   64-bit raw tags  *)
(* both built on strconv.ParseInt / strconv.ParseUint (base 10, 64 bits).   *)
(*                                                                         *)
(* TLC integers are 32-bit, so numbers are DIGIT SEQUENCES (most            *)
(* significant first, no leading zeros, zero = << >>) with a sign flag, and *)
(* 2^31, 2^32, 2^63, 2^64 are computed by repeated doubling in digit        *)
(* arithmetic.  An input string is a sequence of tokens:                    *)
(*   0..9 the digits, MINUS, PLUS, SP (white space), X (any other byte),    *)
(*   US (underscore, which strconv accepts only with base 0).               *)
(* The stored value is described by its BIT PATTERN read as an unsigned     *)
(* number below 2^W: int32(i) of the code is i mod 2^32; (lo, hi) of the    *)
(* 64-bit variant are the two halves of i mod 2^64 (the Go driver joins     *)
(* them again).                                                             *)
(***************************************************************************)
EXTENDS Integers, Sequences, TLC

CONSTANTS Inputs          \* set of token strings to examine

VARIABLES s,              \* the input string
          r32,            \* result of ContainsRawTagValueBytes  : None or [ok, bits]
          r64             \* result of ContainsRawTagValue64Bytes: None or [ok, bits]

vars == <<s, r32, r64>>

MINUS == 10
PLUS  == 11
SP    == 12
X     == 13
US    == 14
IsDigit(t) == t >= 0 /\ t <= 9

None == [ok |-> FALSE, bits |-> <<>>, done |-> FALSE]
Res(ok, bits) == [ok |-> ok, bits |-> IF ok THEN bits ELSE <<>>, done |-> TRUE]

-----------------------------------------------------------------------------
(* digit arithmetic *)

RECURSIVE Strip(_)
Strip(d) == IF d # <<>> /\ d[1] = 0 THEN Strip(Tail(d)) ELSE d

\* three-way comparison of canonical digit sequences: length first, then lexicographic
RECURSIVE LexCmp(_, _)
LexCmp(a, b) == IF a = <<>> THEN 0
                ELSE IF a[1] < b[1] THEN -1
                ELSE IF a[1] > b[1] THEN 1
                ELSE LexCmp(Tail(a), Tail(b))
Cmp(a, b) == IF Len(a) < Len(b) THEN -1 ELSE IF Len(a) > Len(b) THEN 1 ELSE LexCmp(a, b)

Pad(d, n) == [i \in 1..n |-> IF i <= n - Len(d) THEN 0 ELSE d[i - (n - Len(d))]]
Max(a, b) == IF a > b THEN a ELSE b

RECURSIVE AddAt(_, _, _, _, _)
AddAt(pa, pb, i, carry, acc) ==
    IF i = 0 THEN acc
    ELSE LET t == pa[i] + pb[i] + carry IN AddAt(pa, pb, i - 1, t \div 10, <<t % 10>> \o acc)
Add(a, b) == LET n == Max(Len(a), Len(b)) + 1 IN Strip(AddAt(Pad(a, n), Pad(b, n), n, 0, <<>>))

RECURSIVE SubAt(_, _, _, _, _)
SubAt(pa, pb, i, borrow, acc) ==
    IF i = 0 THEN acc
    ELSE LET t == pa[i] - pb[i] - borrow IN
         IF t < 0 THEN SubAt(pa, pb, i - 1, 1, <<t + 10>> \o acc)
         ELSE SubAt(pa, pb, i - 1, 0, <<t>> \o acc)
\* a - b for a >= b
Sub(a, b) == LET n == Len(a) IN Strip(SubAt(a, Pad(b, n), n, 0, <<>>))

RECURSIVE Pow2(_)
Pow2(k) == IF k = 0 THEN <<1>> ELSE LET h == Pow2(k - 1) IN Add(h, h)

P31 == Pow2(31)
P32 == Add(P31, P31)
P63 == Pow2(63)
P64 == Add(P63, P63)
PW(W) == IF W = 32 THEN P32 ELSE P64      \* 2^W
PH(W) == IF W = 32 THEN P31 ELSE P63      \* 2^(W-1)

ASSUME P31 = <<2,1,4,7,4,8,3,6,4,8>>
ASSUME P32 = <<4,2,9,4,9,6,7,2,9,6>>
ASSUME P63 = <<9,2,2,3,3,7,2,0,3,6,8,5,4,7,7,5,8,0,8>>
ASSUME P64 = <<1,8,4,4,6,7,4,4,0,7,3,7,0,9,5,5,1,6,1,6>>
ASSUME Sub(P64, <<1>>) = <<1,8,4,4,6,7,4,4,0,7,3,7,0,9,5,5,1,6,1,5>> /\ Sub(P32, P31) = P31

\* a number: sign flag and magnitude; minus zero is zero
Num(neg, mag) == [neg |-> neg /\ mag # <<>>, mag |-> mag]

-----------------------------------------------------------------------------
(* the code *)

AllDigits(d) == \A i \in DOMAIN d : IsDigit(d[i])

Err == [ok |-> FALSE, n |-> Num(FALSE, <<>>)]
Ok(n) == [ok |-> TRUE, n |-> n]

\* strconv.ParseUint(str, 10, 64): no sign, no underscore (base is not 0), at least one digit,
\* value at most 2^64-1 (ErrRange otherwise)
ParseUint64(str) ==
    IF str = <<>> THEN Err
    ELSE IF ~AllDigits(str) THEN Err
    ELSE LET m == Strip(str) IN IF Cmp(m, P64) >= 0 THEN Err ELSE Ok(Num(FALSE, m))

\* strconv.ParseInt(str, 10, 64): optional '+' or '-', then ParseUint, then the signed range
ParseInt64(str) ==
    IF str = <<>> THEN Err
    ELSE LET neg  == str[1] = MINUS
             rest == IF str[1] = MINUS \/ str[1] = PLUS THEN Tail(str) ELSE str
             u    == ParseUint64(rest)
         IN IF ~u.ok THEN Err
            ELSE IF ~neg /\ Cmp(u.n.mag, P63) >= 0 THEN Err       \* un >= cutoff
            ELSE IF neg /\ Cmp(u.n.mag, P63) > 0 THEN Err         \* un > cutoff
            ELSE Ok(Num(neg, u.n.mag))

\* the bit pattern of i in W bits, as an unsigned number:  i mod 2^W  for -2^W < i < 2^W
Pattern(W, n) == IF n.neg THEN Sub(PW(W), n.mag) ELSE n.mag

\* i, err := ParseInt(s, 10, 64); return int32(i), err == nil && i >= MinInt32 && i <= MaxUint32
Contains32(str) ==
    LET r == ParseInt64(str) IN
    IF ~r.ok THEN Res(FALSE, <<>>)
    ELSE LET geMin == ~r.n.neg \/ Cmp(r.n.mag, P31) <= 0
             leMax == r.n.neg \/ Cmp(r.n.mag, P32) < 0
         IN Res(geMin /\ leMax, Pattern(32, r.n))

\* empty -> false; leading '-' -> ParseInt (64 bit); otherwise ParseUint (64 bit)
Contains64(str) ==
    IF str = <<>> THEN Res(FALSE, <<>>)
    ELSE IF str[1] = MINUS
         THEN LET r == ParseInt64(str) IN Res(r.ok, Pattern(64, r.n))
         ELSE LET r == ParseUint64(str) IN Res(r.ok, Pattern(64, r.n))

Init == s \in Inputs /\ r32 = None /\ r64 = None

Call32 == ~r32.done /\ r32' = Contains32(s) /\ UNCHANGED <<s, r64>>
Call64 == r32.done /\ ~r64.done /\ r64' = Contains64(s) /\ UNCHANGED <<s, r32>>

Next == Call32 \/ Call64
Spec == Init /\ [][Next]_vars

-----------------------------------------------------------------------------
(* THE PROPERTY C11 (raw tags) *)

\* a decimal integer as every printer writes it: optional '-', at least one digit
Canonical(str) ==
    /\ str # <<>>
    /\ IF str[1] = MINUS THEN Len(str) >= 2 /\ AllDigits(Tail(str)) ELSE AllDigits(str)
\* the same with an explicit '+'.  strconv.ParseInt accepts it, strconv.ParseUint does not, so the
\* 32-bit parser takes "+5" and the 64-bit parser refuses it; the property text does not say
\* whether "+5" is a decimal integer, hence both answers are admitted for these strings, but an
\* accepted one must still be in range and carry the right pattern.
PlusForm(str) == Len(str) >= 2 /\ str[1] = PLUS /\ AllDigits(Tail(str))

NumOf(str) == IF str[1] = MINUS THEN Num(TRUE, Strip(Tail(str)))
              ELSE IF str[1] = PLUS THEN Num(FALSE, Strip(Tail(str)))
              ELSE Num(FALSE, Strip(str))

\* -2^(W-1) <= n <= 2^W - 1
InRange(W, n) == IF n.neg THEN Cmp(n.mag, PH(W)) <= 0 ELSE Cmp(n.mag, PW(W)) < 0

AcceptsExactly(W, r) ==
    r.done =>
      /\ Canonical(s) => (r.ok <=> InRange(W, NumOf(s)))
      /\ (~Canonical(s) /\ ~PlusForm(s)) => ~r.ok
      /\ PlusForm(s) => (r.ok => InRange(W, NumOf(s)))

\* reading the stored pattern back: as a signed W-bit number, or as an unsigned one
DecodeSigned(W, u) == IF Cmp(u, PH(W)) >= 0 THEN Num(TRUE, Sub(PW(W), u)) ELSE Num(FALSE, u)
DecodeUnsigned(u) == Num(FALSE, u)

StoresPattern(W, r) ==
    (r.done /\ r.ok) =>
      LET n == NumOf(s) IN
      /\ Cmp(r.bits, PW(W)) < 0                                   \* fits into W bits
      /\ r.bits = Strip(r.bits)
      /\ n.neg => DecodeSigned(W, r.bits) = n                       \* negative numbers: signed reading
      /\ ~n.neg => DecodeUnsigned(r.bits) = n                       \* others: unsigned reading
      /\ (~n.neg /\ Cmp(n.mag, PH(W)) < 0) => DecodeSigned(W, r.bits) = n   \* both readings agree below 2^(W-1)

Accepts32 == AcceptsExactly(32, r32)
Accepts64 == AcceptsExactly(64, r64)
Stores32  == StoresPattern(32, r32)
Stores64  == StoresPattern(64, r64)

\* the 64-bit form of a value accepted as 32-bit raw tag is its sign extension (for a negative
\* one) or the same pattern (for a non-negative one)
Widening ==
    (r32.done /\ r64.done /\ r32.ok /\ ~PlusForm(s)) =>
      /\ r64.ok
      /\ r64.bits = IF NumOf(s).neg THEN Add(r32.bits, Sub(P64, P32)) ELSE r32.bits

TypeOK == /\ r32.done \in BOOLEAN /\ r64.done \in BOOLEAN
          /\ \A i \in DOMAIN s : s[i] \in 0..14

-----------------------------------------------------------------------------
(* export *)
TokChars == <<"0", "1", "2", "3", "4", "5", "6", "7", "8", "9", "-", "+", "s", "x", "_">>
RECURSIVE Str(_)
Str(d) == IF d = <<>> THEN "" ELSE TokChars[d[1] + 1] \o Str(Tail(d))

\* A accept, r reject, P either (explicit plus, in range), bits in decimal ("" = 0 or rejected)
Flag(W, r) == IF PlusForm(s) /\ InRange(W, NumOf(s)) THEN "P" ELSE IF r.ok THEN "A" ELSE "r"
BitsFor(W, r) == IF PlusForm(s) /\ InRange(W, NumOf(s)) THEN Str(Pattern(W, NumOf(s))) ELSE Str(r.bits)
SignOf == IF s # <<>> /\ (Canonical(s) \/ PlusForm(s)) /\ NumOf(s).neg THEN "n" ELSE "p"

\* one string per line (TLC wraps long tuples over several lines)
ExportLine == "C11R|" \o Str(s) \o "|" \o Flag(32, r32) \o "|" \o BitsFor(32, r32) \o "|" \o Flag(64, r64)
              \o "|" \o BitsFor(64, r64) \o "|" \o SignOf
Export == (r32.done /\ r64.done) => PrintT(ExportLine)
=============================================================================
