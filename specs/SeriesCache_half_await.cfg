INIT Init
NEXT Next
CONSTANTS
  NChunks = 1
  CS = 2
  NGets = 3
  Ranges <- AllRanges
  Plays <- NoPlay
  Forces <- NoForce
  MaxInv = 1
  MaxTrim = 0
  MaxFail = 0
  Age <- AllOld
  FixAwait = TRUE
  FixPublish = FALSE
  FixInvMax = FALSE
  AnyTakesAwaiters = FALSE
  SeqInv = TRUE
  MaxOps = 0
VIEW View
INVARIANTS CexExport
CHECK_DEADLOCK FALSE
