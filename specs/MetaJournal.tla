------------------------------ MODULE MetaJournal ------------------------------
(* Metadata replication chain of statshouse, property C20.

     metadata DB (source) --> aggregator journal (plain "n" / compact "c") --> agent journals
     every journal feeds a MetricsStorage (in-memory indexes by id and by name, group assignment)

   Code transcribed (internal/metajournal):
     journal_fast.go      addEventLocked, applyUpdate (+ compactJournalEvent as a projection),
                          Save/save, load/loadImpl                  -> AddEvent, ApplyUpdate, Save, Restart
     journal_fast_rpc.go  getJournalDiffLocked3Limits                  -> Avail / Pull
     meta_metrics.go      MetricsStorage.ApplyEvent, calcGroupForMetricLocked -> ApplyOne, Rebuild, CalcGroup
   The property (separate section at the end) is stated on the source table `src` and on the
   replicas' observable state, not on the mechanism.

   An entity version ("event") is a record [t, id, ver, ut, name, c, d] (ut = update time, which the
   source sets together with the version and the compact form of a metric zeroes):
     t = "M" metric     c = payload kept by the compact form      d = payload dropped by it
     t = "G" group      c = 1 iff disabled                        d = other payload (weight)
     t = "N" namespace  c, d = payload
     t = "D" dashboard  c, d = payload (compact journals discard dashboards altogether)
   OrigNames = TRUE transcribes MetricsStorage.ApplyEvent of the pinned tree (unconditional delete of
   the old name, name index rebuilt from the id index in map order), FALSE the repaired code.
   OrigSkip = TRUE transcribes the pinned applyUpdate (a compact journal skips an incoming version
   whose compact form equals the stored event, even if the stored event was only reloaded from a
   possibly stale file), FALSE the repaired code (events read from the file are marked and the
   first version that arrives for them is always taken). *)
EXTENDS Integers, Sequences, FiniteSets, TLC, Json

CONSTANTS Ids,         \* [type -> set of ids]; ids are handed out in increasing order
          Names,       \* [type -> set of names]
          Chars,       \* [name -> sequence of character codes] (prefix test, ordering)
          Replicas,    \* the journals of this instance
          Up,          \* [replica -> "src" or the replica it pulls from]
          IsCompact,   \* [replica -> BOOLEAN]
          MaxBatch,    \* a delivery carries 1..MaxBatch events
          ChunkSizes,  \* events per file chunk tried by Restart
          MaxVer,      \* number of source edits
          MaxRestarts, \* number of restarts
          MaxOps,      \* bound on behaviour length (0 = unbounded)
          OrigNames, OrigSkip

VARIABLES src,     \* key -> latest version of the entity (the metadata DB's table)
          srcVer,  \* last version handed out
          jn,      \* replica -> [j, cur, lv, hs, saved, panic]   (JournalFast)
          st,      \* replica -> MetricsStorage
          file,    \* replica -> [lv, last, evs]  the journal file as last written / truncated
          nrest,
          hist

vars == <<src, srcVer, jn, st, file, nrest, hist>>
View == <<src, srcVer, jn, st, file, nrest>>

Types == {"M", "G", "N", "D"}
Key(e) == <<e.t, e.id>>
Content(e) == [e EXCEPT !.ver = 0]          \* equalWithoutVersionJournalEvent / hashWithoutVersion...
Range(f) == {f[x] : x \in DOMAIN f}
Upd(f, k, v) == [x \in DOMAIN f \cup {k} |-> IF x = k THEN v ELSE f[x]]
Del(f, k) == [x \in DOMAIN f \ {k} |-> f[x]]
SymDiff(A, B) == (A \ B) \cup (B \ A)        \* xor of hashes
Min(a, b) == IF a < b THEN a ELSE b
Take(s, n) == SubSeq(s, 1, Min(n, Len(s)))
Drop(s, n) == SubSeq(s, Min(n, Len(s)) + 1, Len(s))

IsPrefix(p, s) == LET a == Chars[p]  b == Chars[s]
                  IN Len(a) <= Len(b) /\ SubSeq(b, 1, Len(a)) = a      \* strings.HasPrefix(s, p)
RECURSIVE SeqLess(_, _)
SeqLess(a, b) == IF a = <<>> THEN b # <<>>
                 ELSE IF b = <<>> THEN FALSE
                 ELSE IF a[1] # b[1] THEN a[1] < b[1] ELSE SeqLess(Tail(a), Tail(b))
NameLess(x, y) == SeqLess(Chars[x], Chars[y])

RECURSIVE SortByVer(_)
SortByVer(S) == IF S = {} THEN <<>>
                ELSE LET m == CHOOSE e \in S : \A o \in S : e.ver <= o.ver
                     IN <<m>> \o SortByVer(S \ {m})
RECURSIVE SortById(_)
SortById(S) == IF S = {} THEN <<>>
               ELSE LET m == CHOOSE e \in S : \A o \in S : e.id <= o.id
                    IN <<m>> \o SortById(S \ {m})

-------------------------------------------------------------------------------
(* MetricsStorage *)
EmptyStorage == [mId |-> <<>>, mName |-> <<>>, gId |-> <<>>, gName |-> <<>>, gOrd |-> <<>>,
                 nId |-> <<>>, nName |-> <<>>, dId |-> <<>>]

(* calcGroupForMetricLocked: first group of the ordered list whose name is a prefix; 0 = default *)
RECURSIVE CalcGroup(_, _)
CalcGroup(gOrd, name) == IF gOrd = <<>> THEN 0
                         ELSE IF IsPrefix(gOrd[1].name, name) THEN gOrd[1].id
                         ELSE CalcGroup(Tail(gOrd), name)

(* the by-id / by-name pair of maps, common to metrics, groups and namespaces:
     valueOld, idExists := byID[id]; if idExists && valueOld.Name != value.Name { delete(byName, valueOld.Name) }
   the repaired code deletes only if byName[valueOld.Name] still is this id *)
NameAfterDelete(byId, byName, e) ==
    IF e.id \in DOMAIN byId /\ byId[e.id].name # e.name
       /\ (OrigNames \/ (byId[e.id].name \in DOMAIN byName /\ byName[byId[e.id].name].id = e.id))
    THEN Del(byName, byId[e.id].name) ELSE byName

(* one event of ApplyEvent's loop; chg = changedGroups *)
ApplyOne(S, e, chg) ==
    CASE e.t = "M" ->
           LET ex  == e.id \in DOMAIN S.mId
               grp == IF ex /\ S.mId[e.id].name = e.name THEN S.mId[e.id].grp ELSE CalcGroup(S.gOrd, e.name)
               v   == [t |-> "M", id |-> e.id, ver |-> e.ver, ut |-> e.ut, name |-> e.name, c |-> e.c, d |-> e.d, grp |-> grp]
           IN [S |-> [S EXCEPT !.mId = Upd(S.mId, e.id, v),
                               !.mName = Upd(NameAfterDelete(S.mId, S.mName, e), e.name, v)],
               chg |-> chg]
      [] e.t = "G" ->
           LET ex == e.id \in DOMAIN S.gId
           IN [S |-> [S EXCEPT !.gId = Upd(S.gId, e.id, e),
                               !.gName = Upd(NameAfterDelete(S.gId, S.gName, e), e.name, e)],
               chg |-> chg \/ ~ex \/ S.gId[e.id].name # e.name \/ S.gId[e.id].c # e.c]
      [] e.t = "N" ->
           [S |-> [S EXCEPT !.nId = Upd(S.nId, e.id, e),
                            !.nName = Upd(NameAfterDelete(S.nId, S.nName, e), e.name, e)],
            chg |-> chg]
      [] OTHER ->
           [S |-> [S EXCEPT !.dId = Upd(S.dId, e.id, e)], chg |-> chg]

(* groupsOrdered: user groups that are not disabled, sorted by name, reversed (longer first) *)
RECURSIVE SortDesc(_)
SortDesc(G) == IF G = {} THEN <<>>
               ELSE LET m == CHOOSE g \in G : \A o \in G : ~NameLess(g.name, o.name)
                    IN <<[id |-> m.id, name |-> m.name]>> \o SortDesc(G \ {m})

(* the `if changedGroups` block: every metric's group is recomputed and both maps are replaced.
   Pinned tree: metricsByName is filled while ranging over metricsByID, so of two metrics that
   (in this replica's view) carry the same name the one visited last wins: hi chooses.
   Repaired: a metric does not take a name that the index gives to another metric. *)
Rebuild(S, hi) ==
    LET gOrd == SortDesc({g \in Range(S.gId) : g.c = 0})
        mId  == [i \in DOMAIN S.mId |-> [S.mId[i] EXCEPT !.grp = CalcGroup(gOrd, S.mId[i].name)]]
        held == {mId[i].name : i \in DOMAIN mId}
        holders(n) == {i \in DOMAIN mId : mId[i].name = n}
        pick(n) == IF ~OrigNames /\ n \in DOMAIN S.mName /\ S.mName[n].id \in holders(n)
                   THEN S.mName[n].id
                   ELSE IF hi THEN CHOOSE i \in holders(n) : \A o \in holders(n) : o <= i
                        ELSE CHOOSE i \in holders(n) : \A o \in holders(n) : i <= o
    IN [S EXCEPT !.gOrd = gOrd, !.mId = mId, !.mName = [n \in held |-> mId[pick(n)]]]

RECURSIVE ApplyLoop(_, _, _)
ApplyLoop(S, evs, chg) == IF evs = <<>> THEN [S |-> S, chg |-> chg]
                          ELSE LET r == ApplyOne(S, Head(evs), chg)
                               IN ApplyLoop(r.S, Tail(evs), r.chg)
(* MetricsStorage.ApplyEvent(newEntries); JournalFast.applyEvents does not call it for an empty list *)
ApplyBatch(S, evs, hi) == IF evs = <<>> THEN S
                          ELSE LET r == ApplyLoop(S, evs, FALSE)
                               IN IF r.chg THEN Rebuild(r.S, hi) ELSE r.S

-------------------------------------------------------------------------------
(* JournalFast *)
EmptyJournal == [j |-> <<>>, cur |-> 0, lv |-> 0, hs |-> {}, saved |-> 0, re |-> {}, panic |-> FALSE]
\* re = keys whose event was read from the file at start and has not been replaced since (journalEvent.loaded)
NoFile == [lv |-> 0, last |-> 0, evs |-> <<>>]

Events(j) == Range(j)
ContentSet(j) == {<<k, Content(j[k])>>: k \in DOMAIN j}

(* addEventLocked: latest event per key, state hash ^= old hash ^ new hash, current version *)
AddEvent(J, e) ==
    IF e.ver <= J.cur THEN [J EXCEPT !.panic = TRUE]     \* "journal order invariant violated"
    ELSE LET k   == Key(e)
             old == IF k \in DOMAIN J.j THEN {<<k, Content(J.j[k])>>} ELSE {}
         IN [J EXCEPT !.j = Upd(J.j, k, e), !.cur = e.ver, !.re = J.re \ {k},
                      !.hs = SymDiff(SymDiff(J.hs, old), {<<k, Content(e)>>})]
RECURSIVE AddAll(_, _)
AddAll(J, evs) == IF evs = <<>> THEN J ELSE AddAll(AddEvent(J, Head(evs)), Tail(evs))

(* compactJournalEvent as a projection *)
CompactOne(e) == IF e.t = "M" THEN [e EXCEPT !.d = 0, !.ut = 0] ELSE e
(* the compact branch of applyUpdate: discard dashboards, project, drop what equals the stored event *)
RECURSIVE CompactBatch(_, _)
CompactBatch(J, b) ==
    IF b = <<>> THEN <<>>
    ELSE LET e == CompactOne(Head(b))
             k == Key(e)
         IN IF e.t = "D" \/ (k \in DOMAIN J.j /\ Content(J.j[k]) = Content(e) /\ (OrigSkip \/ k \notin J.re))
            THEN CompactBatch(J, Tail(b))
            ELSE <<e>> \o CompactBatch(J, Tail(b))

(* getJournalDiffLocked3Limits(from): events with version > from in version order (the item and
   byte limits cut this list after n >= 1 events; Pull chooses n).  The source answers the same
   way (metadata JournalEvents: WHERE version > $version ORDER BY version). *)
Avail(r) == LET from == jn[r].lv
            IN IF Up[r] = "src" THEN SortByVer({e \in Range(src) : e.ver > from})
               ELSE IF from >= jn[Up[r]].cur THEN <<>>
               ELSE SortByVer({e \in Events(jn[Up[r]].j) : e.ver > from})

(* applyUpdate(src, ...) *)
ApplyUpdateJ(r, batch) ==
    LET J  == jn[r]
        b2 == IF IsCompact[r] THEN CompactBatch(J, batch) ELSE batch
    IN [J |-> [AddAll(J, b2) EXCEPT !.lv = batch[Len(batch)].ver], b |-> b2]

PullCore(r, n, hi) ==
    /\ n >= 1 /\ n <= Len(Avail(r))
    /\ LET u == ApplyUpdateJ(r, Take(Avail(r), n))
       IN /\ jn' = [jn EXCEPT ![r] = u.J]
          /\ st' = [st EXCEPT ![r] = ApplyBatch(st[r], u.b, hi)]
    /\ UNCHANGED <<src, srcVer, file, nrest>>

(* Save: skipped when nothing was added since the last save; otherwise loader version, last event
   version and all events in version order *)
SaveCore(r) ==
    /\ jn[r].saved # jn[r].cur
    /\ file' = [file EXCEPT ![r] = [lv |-> jn[r].lv, last |-> jn[r].cur, evs |-> SortByVer(Events(jn[r].j))]]
    /\ jn' = [jn EXCEPT ![r].saved = jn[r].cur]
    /\ UNCHANGED <<src, srcVer, st, nrest>>

Sum(s) == LET RECURSIVE F(_)
              F(i) == IF i = 0 THEN 0 ELSE s[i] + F(i - 1)
          IN F(Len(s))
RECURSIVE LoadChunks(_, _, _, _)
LoadChunks(J, S, evs, cs) ==       \* loadImpl: per chunk addEventLocked*, finishUpdate, applyEvents
    IF cs = <<>> THEN [J |-> J, S |-> S]
    ELSE LoadChunks(AddAll(J, Take(evs, cs[1])), ApplyBatch(S, Take(evs, cs[1]), TRUE), Drop(evs, cs[1]), Tail(cs))

(* process restart: a new JournalFast and a new MetricsStorage are built from the file, of which
   only the first Sum(cs) events survive (whole chunks of cs[i] events; the header travels with
   the first chunk).  load(): the saved loader version is believed only if the file was read to
   its last event. *)
RestartCore(r, cs) ==
    /\ Sum(cs) <= Len(file[r].evs)
    /\ \A i \in 1..Len(cs) : cs[i] >= 1
    /\ LET F   == file[r]
           k   == Sum(cs)
           hdr == k >= 1
           ld  == LoadChunks(EmptyJournal, EmptyStorage, Take(F.evs, k), cs)
           hlv == IF hdr THEN F.lv ELSE 0
           hla == IF hdr THEN F.last ELSE 0
           lv  == IF hla = ld.J.cur /\ hlv >= ld.J.cur THEN hlv ELSE ld.J.cur
       IN /\ jn' = [jn EXCEPT ![r] = [ld.J EXCEPT !.lv = lv, !.re = DOMAIN ld.J.j]]
          /\ st' = [st EXCEPT ![r] = ld.S]
          /\ file' = [file EXCEPT ![r] = IF hdr THEN [F EXCEPT !.evs = Take(F.evs, k)] ELSE NoFile]
    /\ UNCHANGED <<src, srcVer>>

(* chunkings tried by the model: k events in chunks of `per` (the last one may be shorter) *)
Chunking(k, per) == [i \in 1..((k + per - 1) \div per) |-> IF i * per <= k THEN per ELSE k - (i - 1) * per]

-------------------------------------------------------------------------------
(* the source: every save gets the next global version; names are unique per type *)
SrcPutCore(e) == /\ srcVer < MaxVer
                 /\ srcVer' = srcVer + 1
                 /\ src' = Upd(src, Key(e), [e EXCEPT !.ver = srcVer + 1, !.ut = srcVer + 1])
                 /\ UNCHANGED <<jn, st, file, nrest>>
NameFree(t, n) == \A k \in DOMAIN src : k[1] = t => src[k].name # n
Unused(t) == {i \in Ids[t] : <<t, i>> \notin DOMAIN src}
SrcEdits ==
    UNION {
      {[t |-> t, id |-> i, ver |-> 0, ut |-> 0, name |-> n, c |-> 0, d |-> 0] :
           i \in {x \in Unused(t) : \A y \in Unused(t) : x <= y}, n \in {m \in Names[t] : NameFree(t, m)}}
      \cup UNION { LET e == src[k] IN
                     {[e EXCEPT !.c = 1 - e.c], [e EXCEPT !.d = 1 - e.d]}
                     \cup {[e EXCEPT !.name = n] : n \in {m \in Names[t] : NameFree(t, m)}}
                   : k \in {x \in DOMAIN src : x[1] = t} }
      : t \in Types }

-------------------------------------------------------------------------------
H(x) == hist' = IF MaxOps = 0 THEN hist ELSE Append(hist, x)
SrcPut(e)  == SrcPutCore(e) /\ H([a |-> "Src", e |-> [e EXCEPT !.ver = srcVer + 1, !.ut = srcVer + 1]])
Pull(r, n, hi) == PullCore(r, n, hi) /\ H([a |-> "Pull", r |-> r, n |-> n])
Save(r)    == SaveCore(r) /\ H([a |-> "Save", r |-> r])
Restart(r, cs) == /\ nrest < MaxRestarts /\ nrest' = nrest + 1
                  /\ RestartCore(r, cs) /\ H([a |-> "Restart", r |-> r, cs |-> cs])

Init == /\ src = <<>> /\ srcVer = 0
        /\ jn = [r \in Replicas |-> EmptyJournal]
        /\ st = [r \in Replicas |-> EmptyStorage]
        /\ file = [r \in Replicas |-> NoFile]
        /\ nrest = 0
        /\ hist = <<>>

Next == /\ (MaxOps = 0 \/ Len(hist) < MaxOps)
        /\ \/ \E e \in SrcEdits : SrcPut(e)
           \/ \E r \in Replicas, n \in 1..MaxBatch, hi \in (IF OrigNames THEN BOOLEAN ELSE {TRUE}) : Pull(r, n, hi)
           \/ \E r \in Replicas : Save(r)
           \/ \E r \in Replicas, per \in ChunkSizes : \E k \in 0..Len(file[r].evs) :
                 /\ (k = Len(file[r].evs) \/ k % per = 0)
                 /\ Restart(r, Chunking(k, per))

Spec == Init /\ [][Next]_vars

-------------------------------------------------------------------------------
(* Mechanism invariants *)
NoPanic          == \A r \in Replicas : ~jn[r].panic
LoaderAhead      == \A r \in Replicas : jn[r].lv >= jn[r].cur /\ jn[r].saved <= jn[r].cur
(* the incrementally kept hash is the hash of what the journal holds *)
HashConsistent   == \A r \in Replicas : jn[r].hs = ContentSet(jn[r].j)
VersionsDistinct == \A r \in Replicas : \A k1, k2 \in DOMAIN jn[r].j : k1 # k2 => jn[r].j[k1].ver # jn[r].j[k2].ver
(* the storage holds exactly what its journal holds *)
SameButGroup(v, e) == v.id = e.id /\ v.ver = e.ver /\ v.ut = e.ut /\ v.name = e.name /\ v.c = e.c /\ v.d = e.d
StorageMatchesJournal ==
    \A r \in Replicas :
      LET J == jn[r].j  S == st[r]
          ids(t) == {k[2] : k \in {x \in DOMAIN J : x[1] = t}}
      IN /\ DOMAIN S.mId = ids("M") /\ DOMAIN S.gId = ids("G")
         /\ DOMAIN S.nId = ids("N") /\ DOMAIN S.dId = ids("D")
         /\ \A i \in DOMAIN S.mId : SameButGroup(S.mId[i], J[<<"M", i>>])
         /\ \A i \in DOMAIN S.gId : S.gId[i] = J[<<"G", i>>]
         /\ \A i \in DOMAIN S.nId : S.nId[i] = J[<<"N", i>>]
         /\ \A i \in DOMAIN S.dId : S.dId[i] = J[<<"D", i>>]

-------------------------------------------------------------------------------
(* The property C20 *)

(* looking an entity up by name returns the entity that currently holds that name: every index
   entry is the by-id entry of an entity with that name, and every name held by some entity
   resolves to its most recent holder (between a rename and the delivery of it a replica may see
   two holders) *)
LookupOK(byId, byName) ==
    /\ \A n \in DOMAIN byName : /\ byName[n].name = n
                                /\ byName[n].id \in DOMAIN byId
                                /\ byId[byName[n].id] = byName[n]
    /\ \A i \in DOMAIN byId : /\ byId[i].name \in DOMAIN byName
                              /\ byName[byId[i].name].ver >= byId[i].ver
MetricLookupOK(S) == LookupOK(S.mId, S.mName)
GroupLookupOK(S)  == LookupOK(S.gId, S.gName)
NsLookupOK(S)     == LookupOK(S.nId, S.nName)
NameLookupCorrect == \A r \in Replicas : MetricLookupOK(st[r]) /\ GroupLookupOK(st[r]) /\ NsLookupOK(st[r])

(* each metric's group is the enabled user group with the longest matching name prefix *)
BestGroups(gId, name) ==
    LET cand == {g \in Range(gId) : g.c = 0 /\ IsPrefix(g.name, name)}
    IN {g \in cand : \A o \in cand : Len(Chars[o.name]) <= Len(Chars[g.name])}
GroupOK(S) == \A i \in DOMAIN S.mId :
                 LET best == BestGroups(S.gId, S.mId[i].name)
                 IN IF best = {} THEN S.mId[i].grp = 0 ELSE S.mId[i].grp \in {g.id : g \in best}
GroupAssignmentCorrect == \A r \in Replicas : GroupOK(st[r])

(* quiescence: nobody has anything left to fetch *)
HasAvail(r) == IF Up[r] = "src" THEN \E e \in Range(src) : e.ver > jn[r].lv
               ELSE jn[r].lv < jn[Up[r]].cur /\ \E e \in Events(jn[Up[r]].j) : e.ver > jn[r].lv
Quiescent == \A r \in Replicas : ~HasAvail(r)
RECURSIVE ChainCompact(_)
ChainCompact(r) == IsCompact[r] \/ (Up[r] # "src" /\ ChainCompact(Up[r]))
Expected(r) == LET cc == ChainCompact(r)
               IN [k \in {x \in DOMAIN src : ~(cc /\ x[1] = "D")} |-> IF cc THEN CompactOne(src[k]) ELSE src[k]]
(* every replica holds the source's latest version of every entity (compact form behind a compact
   journal, where the version number may be that of an earlier, compact-equal version) *)
ConvergedR(r) == LET X == Expected(r)  J == jn[r].j
                 IN /\ DOMAIN J = DOMAIN X
                    /\ \A k \in DOMAIN X : /\ Content(J[k]) = Content(X[k])
                                           /\ J[k].ver <= X[k].ver
                                           /\ (~ChainCompact(r) => J[k].ver = X[k].ver)
Converged == Quiescent => \A r \in Replicas : ConvergedR(r)
(* replicas of the same journal end with the same state hash *)
HashAgreement == Quiescent => \A r1, r2 \in Replicas : ChainCompact(r1) = ChainCompact(r2) => jn[r1].hs = jn[r2].hs

-------------------------------------------------------------------------------
(* behaviour export for the conformance driver *)
Export == (MaxOps > 0 /\ Len(hist') = MaxOps) => PrintT(<<"BEH", ToJson(hist')>>)
(* with OrigNames = TRUE: the histories after which the pinned tree's ApplyEvent breaks the name lookup *)
LookupBroken(r) == ~(MetricLookupOK(st[r]) /\ GroupLookupOK(st[r]) /\ NsLookupOK(st[r]))
ExportBroken == IF \E r \in Replicas : LookupBroken(r)'
                THEN PrintT(<<"BEH", ToJson(hist')>>) /\ FALSE      \* exported, not explored further
                ELSE TRUE
(* with OrigSkip = TRUE: the histories at whose end a replica behind the compact journal is stale *)
ExportStale == (Quiescent' /\ \E r \in Replicas : ~ConvergedR(r)') => PrintT(<<"BEH", ToJson(hist')>>)
===============================================================================
