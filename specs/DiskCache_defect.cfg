INIT Init
NEXT Next
CONSTANTS
  Shards <- MCShards1
  Secs = {7}
  Lens = {0, 3}
  HeaderSize = 20
  MagicLen = 4
  MagicCommon = 2
  RotateSize = 45
  HalfIsDeleted = FALSE
  TearKs <- AllKs
  WrongSecs <- NoWrong
  AllowCorrupt = FALSE
  MaxPuts = 3
  MaxRestarts = 2
  MaxOps = 6
VIEW View
INVARIANTS RereadExact TailOrder GetExact IdsUnique SizesMatch ErasedFileDeleted RefCounts KnownPointsAtRecord DiskOrdered
CHECK_DEADLOCK FALSE
