INIT Init
NEXT Next
CONSTANTS
  Ids <- IdsN
  Names <- NamesN
  Chars <- MCChars
  Replicas = {"n"}
  Up <- MCUp
  IsCompact <- MCIsCompact
  MaxBatch = 2
  ChunkSizes = {2}
  MaxVer = 4
  MaxRestarts = 1
  MaxOps = 0
  OrigNames = FALSE
  OrigSkip = FALSE
VIEW View
CHECK_DEADLOCK FALSE
INVARIANTS NoPanic LoaderAhead HashConsistent VersionsDistinct StorageMatchesJournal NameLookupCorrect GroupAssignmentCorrect Converged HashAgreement
