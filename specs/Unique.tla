------------------------------ MODULE Unique ------------------------------
(* The unique-value sketch of statshouse (internal/data_model/ch_unique.go, ChUnique; ported
   from ClickHouse's UniquesHashSet), property C04: the result of inserting and merging does
   not depend on order or grouping.

   A sketch keeps the 32-bit hashes that are divisible by 2^skipDegree; when more than
   uniquesHashMaxSize hashes are held, skipDegree is raised and the others are dropped
   ("thinning").  The open-addressing table, its resizing and the zero-item flag are storage
   details: the abstract state is [nil, skip, items].

   Transcribed: Insert/insertHash, shrinkIfNeed, rehash, Merge, MergeRead (= MarshallAppend on
   the sender, MergeRead/UmMarshall on the receiver), Size(asIs).
   Specified:   Canon(S), the sketch every order and every merge tree must end in: thinning at
   the least k with at most MAXSIZE hashes of S divisible by 2^k.

   FixMerge / FixMergeRead = FALSE give the code as it was found:
     * Merge filtered the right-hand items with rhs.good instead of ch.good, so an un-thinned
       sketch merged into a thinned one inserted hashes the receiver had already dropped;
     * MergeRead called rehash() when the incoming skip degree was larger but never raised
       its own skip degree first.                                                            *)
EXTENDS Integers, Sequences, FiniteSets, TLC, Json

CONSTANTS MAXSIZE,      \* uniquesHashMaxSize (65536 in the code)
          MaxSkip,      \* hashes are < 2^MaxSkip (32 in the code)
          Hashes,       \* alphabet of hash values that may be inserted
          NSk,          \* number of sketches in the pool
          MaxIns,       \* bound on the number of Insert steps
          MaxMrg,       \* bound on the number of Merge / MergeRead steps
          FixMerge, FixMergeRead

VARIABLES sk,     \* 1..NSk -> [nil, skip, items, all]; all = ghost: every hash that reached it
          nins, nmrg,
          hist

vars == <<sk, nins, nmrg, hist>>
View == <<sk, nins, nmrg>>

RECURSIVE Pow2(_)
Pow2(k) == IF k = 0 THEN 1 ELSE 2 * Pow2(k - 1)
Good(x, k) == x % Pow2(k) = 0                       \* ChUnique.good
Thin(S, k) == {x \in S : Good(x, k)}
SetMinU(S) == CHOOSE x \in S : \A y \in S : x <= y

(* --- the property-level definition ------------------------------------------------------ *)
CanonSkip(S) == CHOOSE k \in 0..MaxSkip : /\ Cardinality(Thin(S, k)) <= MAXSIZE
                                          /\ \A j \in 0..(k - 1) : Cardinality(Thin(S, j)) > MAXSIZE
Canon(S) == [skip |-> CanonSkip(S), items |-> Thin(S, CanonSkip(S))]
(* the same on counts n[k] = number of hashes divisible by 2^k (used by UniqueTrace) *)
CanonSkipN(n) == CHOOSE k \in DOMAIN n : n[k] <= MAXSIZE /\ \A j \in DOMAIN n : j < k => n[j] > MAXSIZE

(* --- the code --------------------------------------------------------------------------- *)
New == [nil |-> TRUE, skip |-> 0, items |-> {}, all |-> {}]

Rehash(s) == [s EXCEPT !.items = Thin(@, s.skip)]
RECURSIVE Shrink(_)        \* shrinkIfNeed: raise skipDegree until at most MAXSIZE items remain
Shrink(s) == IF Cardinality(s.items) > MAXSIZE THEN Shrink(Rehash([s EXCEPT !.skip = @ + 1])) ELSE s

InsertImpl(s, x) == Shrink([s EXCEPT !.items = @ \cup {x}])          \* insertImpl; shrinkIfNeed
InsertHash(s, x) == IF Good(x, s.skip) THEN InsertImpl(s, x) ELSE s  \* insertHash
Insert(s, x) == InsertHash([s EXCEPT !.nil = FALSE], x)              \* Insert (Reset if buf == nil)

(* the loop over rhs.buf of Merge: the table order is a storage detail, ascending is used *)
RECURSIVE MergeLoop(_, _, _)
MergeLoop(ch, todo, rskip) ==
    IF todo = {} THEN ch
    ELSE LET x == SetMinU(todo)
             ok == IF FixMerge THEN Good(x, ch.skip) ELSE Good(x, rskip)
         IN MergeLoop(IF ok THEN InsertImpl(ch, x) ELSE ch, todo \ {x}, rskip)

Merge(ch, rhs) ==
    IF rhs.nil THEN ch                                               \* merge with empty is NOP
    ELSE LET c0 == [ch EXCEPT !.nil = FALSE]
             c1 == IF rhs.skip > c0.skip THEN Rehash([c0 EXCEPT !.skip = rhs.skip]) ELSE c0
             c2 == IF 0 \notin c1.items /\ 0 \in rhs.items THEN InsertImpl(c1, 0) ELSE c1   \* hasZeroItem
         IN MergeLoop(c2, rhs.items \ {0}, rhs.skip)

RECURSIVE ReadLoop(_, _)
ReadLoop(ch, todo) == IF todo = {} THEN ch
                      ELSE LET x == SetMinU(todo) IN ReadLoop(InsertHash(ch, x), todo \ {x})

(* MarshallAppend(rhs) -> bytes -> ch.MergeRead *)
MergeRead(ch, rhs) ==
    IF ch.nil THEN [ch EXCEPT !.nil = FALSE, !.skip = rhs.skip, !.items = rhs.items]     \* UmMarshall
    ELSE LET c1 == IF rhs.skip > ch.skip
                   THEN Rehash(IF FixMergeRead THEN [ch EXCEPT !.skip = rhs.skip] ELSE ch)
                   ELSE ch
         IN ReadLoop(c1, rhs.items)

Size(s) == Cardinality(s.items) * Pow2(s.skip)                       \* Size(asIs = true)

-------------------------------------------------------------------------------
Init == /\ sk = [i \in 1..NSk |-> New]
        /\ nins = 0 /\ nmrg = 0
        /\ hist = <<>>

InsCore(i, x) == /\ nins < MaxIns
                 /\ nmrg = 0        \* contributions are built first, then merged (an insert after
                                    \* a merge is the merge of a one-element sketch)
                 /\ sk' = [sk EXCEPT ![i] = [Insert(@, x) EXCEPT !.all = @ \cup {x}]]
                 /\ nins' = nins + 1 /\ UNCHANGED nmrg
Ins(i, x) == InsCore(i, x) /\ hist' = Append(hist, [a |-> "Ins", i |-> i, x |-> x])

MrgCore(i, j) == /\ nmrg < MaxMrg /\ i # j
                 /\ sk' = [sk EXCEPT ![i] = [Merge(@, sk[j]) EXCEPT !.all = @ \cup sk[j].all]]
                 /\ nmrg' = nmrg + 1 /\ UNCHANGED nins
Mrg(i, j) == MrgCore(i, j) /\ hist' = Append(hist, [a |-> "Merge", i |-> i, j |-> j])

MrgReadCore(i, j) == /\ nmrg < MaxMrg /\ i # j
                     /\ sk' = [sk EXCEPT ![i] = [MergeRead(@, sk[j]) EXCEPT !.all = @ \cup sk[j].all]]
                     /\ nmrg' = nmrg + 1 /\ UNCHANGED nins
MrgRead(i, j) == MrgReadCore(i, j) /\ hist' = Append(hist, [a |-> "MergeRead", i |-> i, j |-> j])

Next == \/ \E i \in 1..NSk, x \in Hashes : Ins(i, x)
        \/ \E i, j \in 1..NSk : Mrg(i, j) \/ MrgRead(i, j)

Spec == Init /\ [][Next]_vars

-------------------------------------------------------------------------------
(* C04 for sketches: whatever the order of inserts and the shape of the merge tree, a sketch is
   the canonical thinning of everything that reached it - hence equal estimates. *)
Canonical == \A i \in 1..NSk :
                IF sk[i].nil THEN sk[i].all = {} /\ sk[i].items = {}
                ELSE /\ sk[i].skip = Canon(sk[i].all).skip
                     /\ sk[i].items = Canon(sk[i].all).items
SameEstimate == \A i, j \in 1..NSk : (sk[i].all = sk[j].all /\ ~sk[i].nil /\ ~sk[j].nil) => Size(sk[i]) = Size(sk[j])
Bounded == \A i \in 1..NSk : Cardinality(sk[i].items) <= MAXSIZE

Export == PrintT(<<"BEH", ToJson(hist')>>)
===============================================================================
