---------------------------- MODULE StringTopTrace ----------------------------
(* I->S: validates runs of the real data_model.MultiItem (harness
   internal/data_model/verif_c07_stringtop_test.go) against StringTop.  Eviction is random, so
   the driver only supplies the inputs (events, capacities) and records what the code did: Top,
   Tail and sampleFactorLog2 after every MapStringTop+Add and after FinishStringTop.  The state
   is taken from the trace; what is CHECKED on it:
     StepConforms    every recorded step is a successor the property allows (StringTop!StepOK /
                     FinishOK: retained values keep exactly their weight, everything that left
                     Top is in the tail, the event is in its entry or in the tail)
     Conservation, FinishBound, FinishHeaviest   the property invariants on the real values
   and, NOT as a verdict, whether the step is one the transcribed mechanism can make
   (StringTop!MechOK, whale weight): deviations are counted in TLC register 8 and printed as
   MECH_DRIFT - the model would then no longer describe the code, though the property holds.
   Several runs are concatenated, each starting with a Reset event.                          *)
EXTENDS StringTop
VARIABLES l, chk
Trace == ndJsonDeserialize("trace.ndjson")
ASSUME TLCSet(7, 0) /\ TLCSet(8, 0) /\ TLCSet(9, 0)

tvars == <<vars, l, chk>>
IsEvent(e) == l <= Len(Trace) /\ Trace[l].ev = e /\ l' = l + 1

AggOf(r) == [cnt |-> r.cnt, set |-> r.set, sum |-> r.sum, sq |-> r.sq, min |-> r.min, max |-> r.max]
ToSet(s) == {s[i] : i \in DOMAIN s}
(* the driver logs Top as a difference to the previous step: entries new or changed, keys gone *)
TopOf(t0, r) == LET U == {r.upd[i].v : i \in DOMAIN r.upd}
                    D == (DOMAIN t0 \ ToSet(r.del)) \cup U
                IN [v \in D |-> IF v \in U THEN AggOf(r.upd[CHOOSE j \in DOMAIN r.upd : r.upd[j].v = v]) ELSE t0[v]]

Drift == TLCSet(8, TLCGet(8) + 1) /\ (IF TLCGet(9) = 0 THEN TLCSet(9, l) ELSE TRUE)

TrInit == /\ cap = 0 /\ top = <<>> /\ tail = Agg0 /\ sfl = 0 /\ pend = <<>>
          /\ all = Agg0 /\ fin = NoFin /\ nops = 0 /\ hist = <<>>
          /\ l = 1 /\ chk = TRUE

TrReset == /\ IsEvent("Reset")
           /\ cap' = Trace[l].cap
           /\ top' = <<>> /\ tail' = Agg0 /\ sfl' = 0 /\ all' = Agg0 /\ fin' = NoFin
           /\ chk' = TRUE
           /\ UNCHANGED <<pend, nops, hist>>

TrMap == /\ IsEvent("Map")
         /\ ~fin.done
         /\ LET r  == Trace[l]
                e  == [kind |-> r.kind, c |-> r.c, x |-> r.x]
                t1 == TopOf(top, r)
                tl1 == AggOf(r.tail)
            IN /\ top' = t1 /\ tail' = tl1 /\ sfl' = r.sfl
               /\ all' = AddEvent(all, e)
               /\ chk' = StepOK(top, tail, r.v, e, t1, tl1)
               /\ IF MechOK(cap, top, sfl, r.v, e, t1, r.sfl) THEN TRUE ELSE Drift
         /\ UNCHANGED <<cap, pend, fin, nops, hist>>

TrFinish == /\ IsEvent("Finish")
            /\ ~fin.done
            /\ LET r  == Trace[l]
                   t1 == TopOf(top, r)
                   tl1 == AggOf(r.tail)
                   F  == DOMAIN top \ DOMAIN t1
               IN /\ top' = t1 /\ tail' = tl1
                  /\ fin' = [done |-> TRUE, cap |-> r.cap, folded |-> {top[k].cnt : k \in F}, whale |-> r.whale]
                  /\ chk' = FinishOK(r.cap, top, tail, t1, tl1)
                  /\ IF r.whale = Total(top, tail).cnt /\ r.sfl = sfl THEN TRUE ELSE Drift
            /\ UNCHANGED <<cap, sfl, pend, all, nops, hist>>

TrNext == TrReset \/ TrMap \/ TrFinish
TraceSpec == TrInit /\ [][TrNext]_tvars

StepConforms == chk

HighWater == TLCSet(7, IF l > TLCGet(7) THEN l ELSE TLCGet(7))
TraceAccepted == /\ PrintT(<<"MECH_DRIFT", TLCGet(8), TLCGet(9)>>)
                 /\ IF TLCGet(7) = Len(Trace) + 1 THEN TRUE
                    ELSE PrintT(<<"TRACE_REJECTED_AT_LINE", TLCGet(7)>>) /\ FALSE
TraceView == <<View, l, chk>>
===============================================================================
