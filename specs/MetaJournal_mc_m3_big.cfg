INIT Init
NEXT Next
CONSTANTS
  Ids <- IdsM3
  Names <- NamesM3
  Chars <- MCChars
  Replicas = {"n"}
  Up <- MCUp
  IsCompact <- MCIsCompact
  MaxBatch = 2
  ChunkSizes = {1}
  MaxVer = 5
  MaxRestarts = 0
  MaxOps = 0
  OrigNames = FALSE
  OrigSkip = FALSE
VIEW View
CHECK_DEADLOCK FALSE
INVARIANTS NoPanic LoaderAhead HashConsistent VersionsDistinct StorageMatchesJournal NameLookupCorrect GroupAssignmentCorrect Converged HashAgreement
