INIT Init
NEXT Next
CONSTANTS
  NS = 3
  NT = 2
  Vals <- MCValsTwo
  TagA <- MCTagA
  TagB <- MCTagB
  R = 2
  WMax = 2
  Tables <- TablesAll
  SelMod = 1
  Sel = 0
  PreAvg = TRUE
  PreCount = TRUE
  AnchorVals <- NoAnchor
INVARIANTS
  TypeOK
  DigestIsDefinition
  Rule0Exact
  Rule1Exact
  Rule2Exact
  Rule3Exact
  ReduciblePairs
  DefinitionsSane
  TopRanksByValue
  Export
CHECK_DEADLOCK FALSE
