------------------------------ MODULE TableAssembly ------------------------------
(* Row assembly of table queries, internal/api/table.go (property C25).

   The property is the relation Conforms(in, out) of TableRelation.tla.  This module
   transcribes the algorithm of getTableFromLODs / limitQueries / inRange / lessThan as it
   is coded (after the fixes recorded in known_findings.d/C25.json) and lets TLC check that
   for EVERY input of the bounded instance the transcription's output satisfies the relation.

   One behaviour = one call of getTableFromLODs:
     Init      picks the input (LOD split, storage output per handler-what, markers,
               direction, limit)
     Load      one iteration of the inner loop: one (handler-what, LOD) storage query,
               limitQueries on its result, the row loop (rowsIdx / queryRows / used / NaN
               prefix / appendRowValues), the break on hasMoreValues
     Pad       the padding pass after all LODs of one handler-what
     Finish    the final sort (by the rows' markers) and the cut at numResults
   Code variables keep their names: queryRows -> qr (rowsIdx is the index of a key in qr),
   used, rowsCount -> cnt, hasMore -> more.

   Storage contract (what cache2.Get delivers in production and the loadPoints stub of the
   driver imitates): one group per time slot of the LOD (possibly empty), every key at most once
   per query, rows of a group in the order the query asks for - the stub reads the ORDER BY
   clause of the real buildSeriesQuery, so the order is bound to the code, see StorageSortsAll. *)
EXTENDS TableRelation, TLC, Json

CONSTANTS Keys,     \* keys the storage may hold
          Splits,   \* set of LOD splits (sequences of <<fromSec, toSec>>)
          Width,    \* functions per handler-what, e.g. <<7, 2>>
          Limits,   \* set of numResults
          Markers,  \* set of markers besides NoMarker
          Export,   \* TRUE: print every finished case for the conformance driver
          StorageSortsAll, \* TRUE as coded now: the query orders every sort key in the requested
                    \* direction.  FALSE = writeOrderBy before the fix 367010a4 ("ORDER BY _time,
                    \* tag1,stag1 DESC": only the last key descending), i.e. the rows of a time slot
                    \* always come in ascending tag order (TableAssembly_bad_order.cfg: FinalFirst fails)
          CallerReverses \* FALSE as coded now.  TRUE = handleGetTable before the fix 2cf30576: it
                    \* reversed the LOD list for fromEnd although getTableFromLODs walks the list
                    \* from the end itself (TableAssembly_bad_caller.cfg: FinalFirst fails)

ASSUME \A s \in Splits : /\ Len(s) >= 1
                         /\ \A i \in 1..(Len(s) - 1) : s[i][2] = s[i + 1][1]
                         /\ \A k \in Keys : s[1][1] <= k[1] /\ k[1] < s[Len(s)][2]

VARIABLES inp,   \* the input (never changes)
          pc,    \* "load" | "pad" | "sort" | "done"
          qi,    \* index of the handler-what being processed (qIndex + 1)
          li,    \* iteration of the LOD loop (k + 1, before the fromEnd reversal)
          cnt,   \* rowsCount
          qr,    \* queryRows: sequence of [k |-> key, d |-> Data, repr |-> rowRepr]
          used,  \* indices of qr that got a value from the current handler-what
          more,  \* hasMore
          out    \* the result, set by Finish

vars == <<inp, pc, qi, li, cnt, qr, used, more, out>>

NW == Len(Width)
Inputs == [lods : Splits, st : [1..NW -> SUBSET Keys], w : {Width},
           from : Markers \cup {NoMarker}, to : Markers \cup {NoMarker},
           desc : BOOLEAN, limit : Limits]

Init == /\ inp \in Inputs
        /\ pc = "load" /\ qi = 1 /\ li = 1 /\ cnt = 0
        /\ qr = <<>> /\ used = {} /\ more = FALSE
        /\ out = [rows |-> <<>>, more |-> FALSE]

-------------------------------------------------------------------------------
(* helpers *)
Inf == 1000000                         \* math.MaxInt
\* the sequence of the elements of S sorted in the direction
SortKeys(S, desc) == [i \in 1..Cardinality(S) |->
                        CHOOSE k \in S : Cardinality({j \in S : Before(j, k, desc)}) = i - 1]
NaNs(n) == [j \in 1..n |-> 0]
Values(q) == [j \in 1..Width[q] |-> ColBase(inp, q) + j]    \* appendRowValues: one per function
IndexOf(rows, k) == IF \E i \in DOMAIN rows : rows[i].k = k
                    THEN CHOOSE i \in DOMAIN rows : rows[i].k = k ELSE 0

\* fromTime, toTime of getTableFromLODs
FromTime == IF inp.desc THEN inp.to[1] ELSE inp.from[1]
ToTime0  == IF inp.desc THEN inp.from[1] ELSE inp.to[1]
ToTime   == IF ToTime0 = 0 THEN Inf ELSE ToTime0

\* what the storage returns for handler-what q and a LOD: one group per time slot
StorageOutput(q, lod) ==
    [s \in 1..(lod[2] - lod[1]) |-> SortKeys({k \in inp.st[q] : k[1] = lod[1] + s - 1},
                                              inp.desc /\ StorageSortsAll)]

-------------------------------------------------------------------------------
(* handler.go lessThan(l RowMarker, r tsSelectRow, skey, orEq, fromEnd): time, then the
   marker's tags in order, then the string key, i.e. lexicographic on the key. *)
LessThan(l, r, orEq, desc) ==
    IF desc THEN LexLess(r, l) \/ (orEq /\ l = r)
            ELSE LexLess(l, r) \/ (orEq /\ l = r)

(* table.go inRange *)
InRange(row) ==
    /\ (inp.from[1] # 0) => LessThan(inp.from, row, FALSE, inp.desc)
    /\ (inp.to[1] # 0) => ~LessThan(inp.to, row, TRUE, inp.desc)

(* table.go limitQueries: groups in time order (reversed for fromEnd), the rows of a group in
   storage order; rows outside the window are passed over; has-more as soon as a row of the
   window does not fit. *)
RECURSIVE Flatten(_, _)
Flatten(m, i) == IF i > Len(m) THEN <<>>
                 ELSE m[IF inp.desc THEN Len(m) - i + 1 ELSE i] \o Flatten(m, i + 1)
RECURSIVE Take(_, _, _, _)
Take(F, i, acc, limit) ==
    IF i > Len(F) THEN [rows |-> acc, more |-> FALSE]
    ELSE IF ~InRange(F[i]) THEN Take(F, i + 1, acc, limit)
    ELSE IF Len(acc) = limit THEN [rows |-> acc, more |-> TRUE]
    ELSE Take(F, i + 1, Append(acc, F[i]), limit)
LimitQueries(m, limit) == Take(Flatten(m, 1), 1, <<>>, IF limit < 0 THEN 0 ELSE limit)

(* the row loop of getTableFromLODs over the rows limitQueries returned *)
RECURSIVE AddRows(_, _, _)
AddRows(rows, i, s) ==
    IF i > Len(rows) THEN s
    ELSE LET k == rows[i] IN
         IF ToTime < k[1] \/ k[1] < FromTime THEN AddRows(rows, i + 1, s)
         ELSE LET ix0 == IndexOf(s.qr, k)
                  ix  == IF ix0 = 0 THEN Len(s.qr) + 1 ELSE ix0
                  \* a new row starts with one NaN per function of every earlier handler-what
                  qr1 == IF ix0 = 0
                         THEN Append(s.qr, [k |-> k, d |-> NaNs(ColBase(inp, qi)), repr |-> k])
                         ELSE s.qr
                  qr2 == [qr1 EXCEPT ![ix].d = @ \o Values(qi)]
              IN AddRows(rows, i + 1, [qr |-> qr2, used |-> s.used \cup {ix}, cnt |-> s.cnt + 1])

-------------------------------------------------------------------------------
Load ==
    /\ pc = "load"
    /\ LET n   == Len(inp.lods)
           \* handleGetTable: data_model.GetLODs yields the LODs in ascending time order
           lods == IF CallerReverses /\ inp.desc THEN [i \in 1..n |-> inp.lods[n - i + 1]] ELSE inp.lods
           k   == IF inp.desc THEN n - li + 1 ELSE li      \* k = len(lods) - k - 1
           lod == lods[k]
           next == /\ pc' = (IF li < n THEN "load" ELSE "pad")
                   /\ li' = (IF li < n THEN li + 1 ELSE li)
       IN IF ToTime < lod[1] \/ lod[2] < FromTime
          THEN /\ next /\ UNCHANGED <<qr, used, cnt, more>>
          ELSE LET lq == LimitQueries(StorageOutput(qi, lod), inp.limit - cnt)
                   s  == AddRows(lq.rows, 1, [qr |-> qr, used |-> used, cnt |-> cnt])
               IN /\ qr' = s.qr /\ used' = s.used /\ cnt' = s.cnt
                  /\ IF lq.more
                     THEN more' = TRUE /\ pc' = "pad" /\ li' = li      \* break
                     ELSE more' = more /\ next
    /\ UNCHANGED <<inp, qi, out>>

Pad ==
    /\ pc = "pad"
    /\ qr' = [i \in DOMAIN qr |->
                IF i \in used THEN qr[i]
                ELSE [qr[i] EXCEPT !.d = @ \o NaNs(Width[qi])]]   \* one NaN per function
    /\ used' = {}
    /\ IF qi < NW THEN /\ qi' = qi + 1 /\ li' = 1 /\ cnt' = 0 /\ pc' = "load"
                  ELSE /\ pc' = "sort" /\ UNCHANGED <<qi, li, cnt>>
    /\ UNCHANGED <<inp, more, out>>

\* sort.Sort(queryRows) / sort.Reverse: by the rows' markers (time, tags, string key)
Sorted(rows, desc) ==
    [i \in 1..Len(rows) |->
        rows[CHOOSE x \in DOMAIN rows :
                Cardinality({y \in DOMAIN rows : Before(rows[y].repr, rows[x].repr, desc)}) = i - 1]]

ExportCase(o) ==
    Export => PrintT(<<"BEH", ToJson([lods |-> inp.lods,
                                      st |-> [q \in 1..NW |-> SortKeys(inp.st[q], FALSE)],
                                      from |-> inp.from, to |-> inp.to, desc |-> inp.desc,
                                      limit |-> inp.limit, exp |-> o])>>)

Finish ==
    /\ pc = "sort"
    /\ LET srt == Sorted(qr, inp.desc)
           n   == Lim(inp)
           cut == Len(srt) > n                              \* the union of the per-what pages
           res == IF cut THEN SubSeq(srt, 1, n) ELSE srt
           o   == [rows |-> [i \in DOMAIN res |-> [k |-> res[i].k, d |-> res[i].d]],
                   more |-> (more \/ cut)]
       IN /\ out' = o /\ more' = o.more /\ ExportCase(o)
    /\ pc' = "done"
    /\ UNCHANGED <<inp, qi, li, cnt, qr, used>>

Next == Load \/ Pad \/ Finish
Spec == Init /\ [][Next]_vars

-------------------------------------------------------------------------------
(* invariants of the mechanism *)
TypeOK == /\ pc \in {"load", "pad", "sort", "done"}
          /\ qi \in 1..NW /\ li \in 1..Len(inp.lods)
          /\ used \subseteq DOMAIN qr
\* every row is column-aligned at every point of the assembly (the multi-LOD bug broke this)
ColumnsDuring ==
    \A i \in DOMAIN qr :
        Len(qr[i].d) = CASE pc \in {"load", "pad"} -> ColBase(inp, qi) + (IF i \in used THEN Width[qi] ELSE 0)
                         [] OTHER -> NCols(inp)
RowsIdxUnique == \A i, j \in DOMAIN qr : i # j => qr[i].k # qr[j].k
CountBound == pc \in {"load", "pad"} => (cnt <= Lim(inp) /\ cnt = Cardinality(used))
MarkerIsKey == \A i \in DOMAIN qr : qr[i].repr = qr[i].k

(* the property: the finished call satisfies the relation, clause by clause *)
Done == pc = "done"
FinalAligned  == Done => Aligned(inp, out)
FinalUnique   == Done => Unique(out)
FinalOrdered  == Done => Ordered(inp, out)
FinalWindow   == Done => WindowRespected(inp, out)
FinalLimit    == Done => LimitRespected(inp, out)
FinalFirst    == Done => FirstRows(inp, out)
FinalHasMore  == Done => HasMoreExact(inp, out)
FinalIsSpecOut == Done => out = SpecOut(inp)      \* the relation leaves no freedom
===============================================================================
