SPECIFICATION Spec
CONSTANTS
  NReq = 3
  Hard = 2
  Soft = 1
  S0 = 0
  D = 1
  NInc = 2
  FixWake = TRUE
INVARIANTS TypeOK NoStuck
PROPERTIES AllDone
CHECK_DEADLOCK FALSE
