INIT Init
NEXT Next
CONSTANTS
  Ids <- IdsA
  Names <- NamesA
  Chars <- MCChars
  Replicas = {"n"}
  Up <- MCUp
  IsCompact <- MCIsCompact
  MaxBatch = 2
  ChunkSizes = {1}
  MaxVer = 4
  MaxRestarts = 1
  MaxOps = 7
  OrigNames = FALSE
  OrigSkip = FALSE
VIEW View
CHECK_DEADLOCK FALSE
ACTION_CONSTRAINT Export
