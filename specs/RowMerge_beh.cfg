INIT Init
NEXT Next
CONSTANTS
  DEN = 6
  AgentHost = 9
  FixMixedSum = TRUE
  FixEmptyHost = TRUE
  Shapes <- MCLeaves10
  Percs = {FALSE, TRUE}
  MaxLeaves = 3
VIEW View
ACTION_CONSTRAINT ExportMerges
INVARIANTS MergeCanonical MergeHosts TsCanonical
CHECK_DEADLOCK FALSE
