------------------------------ MODULE TagValue ------------------------------
(***************************************************************************)
(* C11 (string half): tag value normalisation of internal/format/format.go  *)
(*   appendValidStringValue(dst, src, maxLen, force)   the transducer        *)
(*   validStringValue(s, maxLen)                       the predicate         *)
(*   AppendValidStringValue  = append(..., MaxStringLen, force = false)      *)
(*   ForceValidStringValue(Bytes) = append(..., MaxStringLen, force = true)  *)
(*                                                                         *)
(* The input is a sequence of ITEMS [c |-> class, n |-> multiplicity].     *)
(* A class stands for all runes (or stray bytes) the code cannot tell      *)
(* apart: what utf8.DecodeRune returns for it (width, RuneError or not),    *)
(* what unicode.IsSpace / unicode.IsPrint / bytePrint answer, and how many  *)
(* bytes utf8.EncodeRune writes for the replacement.  n > 1 is only used    *)
(* for class "a" (a run of n ASCII printable bytes): the filler that lets   *)
(* TLC reach the 128 byte limit without 128 steps.                          *)
(*                                                                         *)
(*   class  bytes  DecodeRune            IsSpace IsPrint  bytePrint         *)
(*   a      1      ASCII 0x21..0x7e      no      yes      yes               *)
(*   s      1      0x20                  yes     yes      yes (the space)   *)
(*   t      1      \t \n \v \f \r        yes     no       no                *)
(*   c      1      other C0, 0x7f        no      no       no                *)
(*   u      2      U+0085, U+00A0        yes     no       no                *)
(*   U      3      U+2000.., U+3000 ..   yes     no       no                *)
(*   p2 p3 p4      printable 2/3/4 byte  no      yes      no                *)
(*   n2 n3 n4      Cc/Cf/Co/Cn 2/3/4 b.  no      no       no                *)
(*   R      3      U+FFFD (EF BF BD), RuneError with size 3: printable      *)
(*   x      1      byte that decodes to (RuneError, 1)                      *)
(*   y      2      truncated multi-byte prefix = 2 bytes each (RuneError,1) *)
(*   z      3      truncated 4-byte prefix / surrogate = 3 such bytes       *)
(*                                                                         *)
(* The state machine consumes one item per step and advances, side by side, *)
(* the fast-path scan and the slow-path loop of appendValidStringValue in   *)
(* both modes (force / strict), exactly as the code would on the input read *)
(* so far.  The theorems (invariants below) therefore hold for every input  *)
(* that TLC enumerates, i.e. all item sequences within the bounds.          *)
(***************************************************************************)
EXTENDS Integers, Sequences, FiniteSets, TLC

CONSTANTS MaxLen,      \* format.MaxStringLen (128)
          Classes,     \* classes explored (subset of AllClasses)
          Runs,        \* multiplicities > 1 of the "a" filler
          MaxItems,    \* bound on the number of items of an input
          MaxRuns      \* at most that many filler items per input

VARIABLES inp,         \* the input consumed so far (sequence of items)
          fast,        \* fast-path scan: [ok, prev]
          sf,          \* slow path, force = true : [w, prev, out, broke, err]
          ss           \* slow path, force = false

vars == <<inp, fast, sf, ss>>

AllClasses == {"a", "s", "t", "c", "u", "U", "p2", "p3", "p4", "n2", "n3", "n4", "R", "x", "y", "z"}

ASSUME Classes \subseteq AllClasses /\ MaxLen \in Nat /\ MaxLen >= 4

-----------------------------------------------------------------------------
(* the class table *)

\* (the tables are constant functions so that TLC evaluates them once)
InWT == [c \in AllClasses |->
           CASE c \in {"a", "s", "t", "c", "x"} -> 1
             [] c \in {"u", "p2", "n2", "y"}    -> 2
             [] c \in {"U", "p3", "n3", "R", "z"} -> 3
             [] c \in {"p4", "n4"}              -> 4]
InW(c) == InWT[c]

\* number of stray bytes an invalid class consists of; each is decoded separately as (RuneError, 1)
StrayBytes(c) == CASE c = "x" -> 1 [] c = "y" -> 2 [] c = "z" -> 3

KindT == [c \in AllClasses |->
            CASE c \in {"a", "p2", "p3", "p4", "R"} -> "print"
              [] c \in {"s", "t", "u", "U"}          -> "space"
              [] c \in {"c", "n2", "n3", "n4"}       -> "nonprint"
              [] c \in {"x", "y", "z"}               -> "invalid"]
Kind(c) == KindT[c]

BytePrint(c) == c = "a" \/ c = "s"          \* c >= 0x20 && c <= 0x7e

Item(c, n) == [c |-> c, n |-> n]

RECURSIVE Bytes(_)
Bytes(s) == IF s = <<>> THEN 0 ELSE InW(Head(s).c) * Head(s).n + Bytes(Tail(s))

HasInvalid(s) == \E i \in DOMAIN s : Kind(s[i].c) = "invalid"

-----------------------------------------------------------------------------
(* validStringValue(s, maxLen) *)

RECURSIVE ValidScan(_, _)
ValidScan(s, prev) ==
    IF s = <<>> THEN ~prev                               \* return !previousSpace (fail on last space)
    ELSE LET c == Head(s).c IN
         IF BytePrint(c)
         THEN IF c = "s" /\ prev THEN FALSE              \* isSpace && previousSpace
              ELSE ValidScan(Tail(s), c = "s")          \* a run of "a" leaves previousSpace false
         ELSE IF Kind(c) = "invalid" THEN FALSE          \* c == RuneError && nr <= 1
         ELSE IF Kind(c) = "space" THEN FALSE            \* only ascii spaces are allowed
         ELSE IF Kind(c) = "nonprint" THEN FALSE         \* !unicode.IsPrint(c)
         ELSE ValidScan(Tail(s), FALSE)

Valid(s) ==
    IF Bytes(s) > MaxLen THEN FALSE
    ELSE IF s = <<>> THEN TRUE
    ELSE ValidScan(s, TRUE)                              \* previousSpace := true (fail on first space)

-----------------------------------------------------------------------------
(* appendValidStringValue: fast path scan *)

FastInit == [ok |-> TRUE, prev |-> TRUE]

FastStep(f, it) ==
    IF ~f.ok THEN f                                      \* the scan stopped at the first offender
    ELSE IF ~BytePrint(it.c) THEN [f EXCEPT !.ok = FALSE]
    ELSE IF it.c = "s" /\ f.prev THEN [f EXCEPT !.ok = FALSE]
    ELSE [f EXCEPT !.prev = (it.c = "s")]

\* if len(src) <= maxLen { ... if fastPath && !previousSpace { return append(dst, src...) } }
FastTaken(s, f) == Bytes(s) <= MaxLen /\ f.ok /\ ~f.prev

(* appendValidStringValue: slow path loop, one decoded rune *)

SlowInit == [w |-> 0, prev |-> TRUE, out |-> <<>>, broke |-> FALSE, err |-> FALSE]

OutW(oc) == InW(oc)

\* kind is what the switch sees after DecodeRune: an invalid byte in force mode is RuneError,
\* for which IsSpace is false and IsPrint is true, so it is encoded as U+FFFD (class R).
SlowRune(st, force, c) ==
    IF st.broke \/ st.err THEN st                        \* loop already left
    ELSE IF Kind(c) = "invalid" /\ ~force
         THEN [st EXCEPT !.err = TRUE]                   \* return dst, errBadEncoding
    ELSE LET isSpace == Kind(c) = "space" IN
         IF isSpace /\ st.prev THEN st                   \* r += nr; continue
         ELSE LET oc == IF isSpace THEN "s"
                        ELSE IF Kind(c) = "nonprint" \/ Kind(c) = "invalid" THEN "R"
                        ELSE c
                  nw == OutW(oc)
              IN IF st.w + nw > MaxLen
                 THEN [st EXCEPT !.broke = TRUE]         \* break
                 ELSE [st EXCEPT !.prev = isSpace, !.w = @ + nw, !.out = Append(@, Item(oc, 1))]

\* a run of n ASCII printable bytes: n iterations folded into one step
SlowRun(st, n) ==
    IF st.broke \/ st.err THEN st
    ELSE LET room == MaxLen - st.w
             k == IF n <= room THEN n ELSE room
             s1 == IF k = 0 THEN st
                   ELSE [st EXCEPT !.prev = FALSE, !.w = @ + k, !.out = Append(@, Item("a", k))]
         IN IF k < n THEN [s1 EXCEPT !.broke = TRUE] ELSE s1

SlowStep(st, force, it) ==
    IF it.c = "a" THEN SlowRun(st, it.n)
    ELSE IF Kind(it.c) = "invalid"
         THEN CASE StrayBytes(it.c) = 1 -> SlowRune(st, force, "x")
                [] StrayBytes(it.c) = 2 -> SlowRune(SlowRune(st, force, "x"), force, "x")
                [] StrayBytes(it.c) = 3 -> SlowRune(SlowRune(SlowRune(st, force, "x"), force, "x"), force, "x")
    ELSE SlowRune(st, force, it.c)

\* if previousSpace && w != 0 { w-- } ; return append(dst, buf[:w]...)
SlowFinish(st) ==
    IF st.prev /\ st.w # 0
    THEN SubSeq(st.out, 1, Len(st.out) - 1)              \* TrimsOnlySpace below: the byte dropped is ' '
    ELSE st.out

\* result of appendValidStringValue(nil, s, MaxLen, force) given the scan states
Result(s, f, st) ==
    IF s = <<>> THEN <<>>                                \* len(src) == 0
    ELSE IF FastTaken(s, f) THEN s
    ELSE SlowFinish(st)

Failed(s, f, st) == s # <<>> /\ ~FastTaken(s, f) /\ st.err

-----------------------------------------------------------------------------
(* the machine: one action per kind of consumed item *)

Init == inp = <<>> /\ fast = FastInit /\ sf = SlowInit /\ ss = SlowInit

NRuns(s) == Cardinality({i \in DOMAIN s : s[i].n > 1})

ConsumeCore(it) ==
    /\ inp' = Append(inp, it)
    /\ fast' = FastStep(fast, it)
    /\ sf' = SlowStep(sf, TRUE, it)
    /\ ss' = SlowStep(ss, FALSE, it)

Consume(it) == Len(inp) < MaxItems /\ ConsumeCore(it)

ConsumeAsciiPrint == "a" \in Classes /\ Consume(Item("a", 1))
ConsumeRun        == \E n \in Runs : NRuns(inp) < MaxRuns /\ Consume(Item("a", n))
ConsumeAsciiSpace == "s" \in Classes /\ Consume(Item("s", 1))
ConsumeOtherSpace == \E c \in Classes \cap {"t", "u", "U"} : Consume(Item(c, 1))
ConsumeNonPrint   == \E c \in Classes \cap {"c", "n2", "n3", "n4"} : Consume(Item(c, 1))
ConsumePrintMulti == \E c \in Classes \cap {"p2", "p3", "p4", "R"} : Consume(Item(c, 1))
ConsumeInvalid    == \E c \in Classes \cap {"x", "y", "z"} : Consume(Item(c, 1))

Next == \/ ConsumeAsciiPrint \/ ConsumeRun \/ ConsumeAsciiSpace \/ ConsumeOtherSpace
        \/ ConsumeNonPrint \/ ConsumePrintMulti \/ ConsumeInvalid

Spec == Init /\ [][Next]_vars

-----------------------------------------------------------------------------
(* the functions as folds, for the laws that apply the function to its own output *)

RECURSIVE FoldFast(_, _)
FoldFast(f, s) == IF s = <<>> THEN f ELSE FoldFast(FastStep(f, Head(s)), Tail(s))
RECURSIVE FoldSlow(_, _, _)
FoldSlow(st, force, s) == IF s = <<>> THEN st ELSE FoldSlow(SlowStep(st, force, Head(s)), force, Tail(s))

Force(s) == Result(s, FoldFast(FastInit, s), FoldSlow(SlowInit, TRUE, s))
\* ForceValidStringValue(string): if ValidStringValue(src) { return src } else the transducer
ForceStr(s) == IF Valid(s) THEN s ELSE Force(s)

ForceOut  == Result(inp, fast, sf)
StrictOut == Result(inp, fast, ss)
StrictErr == Failed(inp, fast, ss)

-----------------------------------------------------------------------------
(* reference semantics: the four rules of the comment above ValidStringValue, stated without
   the loop.  1 trim white space, 2 collapse inner white space to one ASCII space,
   4 replace non-printables (and, when forcing, stray bytes) by U+FFFD, 3 cut at MaxLen on a
   rune boundary (and drop a space left dangling by the cut). *)

\* expand an item into single-rune items of the output alphabet ("" = white space)
Mapped(it) ==
    CASE Kind(it.c) = "space"    -> <<Item("s", 1)>>
      [] Kind(it.c) = "nonprint" -> <<Item("R", 1)>>
      [] Kind(it.c) = "invalid"  -> [i \in 1..StrayBytes(it.c) |-> Item("R", 1)]
      [] OTHER                   -> <<it>>

RECURSIVE MapAll(_)
MapAll(s) == IF s = <<>> THEN <<>> ELSE Mapped(Head(s)) \o MapAll(Tail(s))

RECURSIVE Collapse(_, _)
\* drop a space that follows a space (or the start)
Collapse(s, prev) ==
    IF s = <<>> THEN <<>>
    ELSE IF Head(s).c = "s" THEN (IF prev THEN Collapse(Tail(s), TRUE) ELSE <<Head(s)>> \o Collapse(Tail(s), TRUE))
    ELSE <<Head(s)>> \o Collapse(Tail(s), FALSE)

TrimRight(s) == IF s # <<>> /\ s[Len(s)].c = "s" THEN SubSeq(s, 1, Len(s) - 1) ELSE s

RECURSIVE CutAt(_, _)
\* longest prefix on a rune boundary that fits into room bytes (a run is cut inside)
CutAt(s, room) ==
    IF s = <<>> THEN <<>>
    ELSE LET it == Head(s) IN
         IF it.c = "a"
         THEN IF it.n <= room THEN <<it>> \o CutAt(Tail(s), room - it.n)
              ELSE IF room = 0 THEN <<>> ELSE <<Item("a", room)>>
         ELSE IF OutW(it.c) <= room THEN <<it>> \o CutAt(Tail(s), room - OutW(it.c))
              ELSE <<>>

RefForce(s) == TrimRight(CutAt(TrimRight(Collapse(MapAll(s), TRUE)), MaxLen))

\* position-wise: items are never merged, so a run keeps its place
-----------------------------------------------------------------------------
(* THE PROPERTY C11 (strings), for the input inp of the current state *)

\* forcing yields a valid value
ForceValid == Valid(ForceOut)
\* forcing is idempotent (also through the string wrapper that tests Valid first)
ForceIdempotent == Force(ForceOut) = ForceOut /\ ForceStr(ForceOut) = ForceOut
\* a valid input is left alone
ValidFixpoint == Valid(inp) => ForceOut = inp
ForceStrAgrees == ForceStr(inp) = ForceOut
\* strict normalisation fails only on invalid UTF-8 ...
StrictOnlyOnInvalid == StrictErr => HasInvalid(inp)
\* ... and otherwise agrees with forcing
StrictAgrees == ~StrictErr => StrictOut = ForceOut

(* finer statements about the mechanism *)

\* strict fails exactly when a stray byte is decoded before the loop is left at the limit
StrictExact ==
    StrictErr <=> \E i \in DOMAIN inp :
                     /\ Kind(inp[i].c) = "invalid"
                     /\ ~FoldSlow(SlowInit, TRUE, SubSeq(inp, 1, i - 1)).broke
\* the fast path is only an optimisation
FastAgrees == FastTaken(inp, fast) => SlowFinish(sf) = inp /\ ~ss.err
\* the incremental states are the folds
FoldAgrees == Force(inp) = ForceOut
\* the loop implements the documented rules
RefAgrees == ForceOut = RefForce(inp)
\* bookkeeping of the loop
SlowShape ==
    /\ sf.w = Bytes(sf.out) /\ sf.w <= MaxLen
    /\ (sf.prev /\ sf.w # 0) => sf.out[Len(sf.out)].c = "s"       \* w-- drops a space, never half a rune
    /\ (sf.prev /\ sf.w = 0) => sf.out = <<>>
    /\ ~sf.err
\* nothing is cut unless the limit is near
TruncationTight == sf.broke => Bytes(ForceOut) >= MaxLen - 4
NoCutWhenFits == Bytes(TrimRight(Collapse(MapAll(inp), TRUE))) <= MaxLen => ForceOut = TrimRight(Collapse(MapAll(inp), TRUE))

TypeOK ==
    /\ inp \in Seq([c : AllClasses, n : Nat])
    /\ fast \in [ok : BOOLEAN, prev : BOOLEAN]
    /\ sf.w \in 0..MaxLen /\ ss.w \in 0..MaxLen

-----------------------------------------------------------------------------
(* export of every explored input with what the specification says about it *)

RECURSIVE Toks(_)
Tok(it) == IF it.n = 1 THEN it.c ELSE it.c \o "*" \o ToString(it.n)
Toks(s) == IF s = <<>> THEN "" ELSE IF Len(s) = 1 THEN Tok(s[1]) ELSE Tok(Head(s)) \o "," \o Toks(Tail(s))

\* E: strict must fail; e: a stray byte exists only behind the cut (the property allows both
\* outcomes, the code does not fail); -: strict must succeed
StrictFlag == IF StrictErr THEN "E" ELSE IF HasInvalid(inp) THEN "e" ELSE "-"

\* one string per line (TLC wraps long tuples over several lines)
ExportLine == "C11S|" \o Toks(inp) \o "|" \o Toks(ForceOut) \o "|" \o (IF Valid(inp) THEN "V" ELSE "v") \o "|" \o StrictFlag
Export == PrintT(ExportLine)
=============================================================================
