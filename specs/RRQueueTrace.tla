---------------------------- MODULE RRQueueTrace ----------------------------
(* I->S: validates executions of the real round-robin Queue (harness
   internal/util/queue/verif_c29_queue_test.go) against the abstract layer of RRQueue.
   Every event was recorded at a linearization point under q.mx (hooks) and carries the
   queue's own decisions (fast path, which queries were woken - in order -, what the cancel
   path saw) plus a white-box snapshot (activeQuery, maxActiveQuery, the waiting queries).
   The trace spec feeds the decisions into the transformers of RRQueue, compares the snapshot
   and evaluates the property invariants after every event.  "Ret" (Acquire returned) and
   "RelIntent" (caller is about to call Release) are recorded by the driver outside the lock.
   Several runs are concatenated, each starting with a Reset event.

   The round-robin mechanism (order keys) is NOT replayed here: any implementation whose
   decisions keep the property is accepted.                                                *)
EXTENDS RRQueue
VARIABLE l
Trace == ndJsonDeserialize("trace.ndjson")
ASSUME TLCSet(7, 0)

tvars == <<vars, l>>
IsEvent(e) == l <= Len(Trace) /\ Trace[l].ev = e /\ l' = l + 1
Q(e) == <<e.u, e.i>>
Mechless == UNCHANGED <<ord, gorder, nadj, hist>>

(* white-box snapshot taken under q.mx at the end of the critical section *)
AllWaiting(x) == UNION {ToSet(x.wq[u]) : u \in DOMAIN x.wq}
Snap(x, e) == Flag(x, x.active # e.active \/ x.cap # e.cap \/ AllWaiting(x) # ToSet(e.waiting), "snapshot")
SnapshotAgrees == "snapshot" \notin s.bad

TrInit == /\ s = S0(0) /\ ord = <<>> /\ gorder = 0 /\ nadj = 0 /\ hist = <<>> /\ l = 1

TrReset == /\ IsEvent("Reset") /\ s' = S0(Trace[l].cap) /\ Mechless

TrAcq == /\ IsEvent("Acq")
         /\ LET e == Trace[l] IN
            /\ AcqOK(s, Q(e), e.fast, e.gs)
            /\ s' = Snap(AcqF(s, Q(e), e.fast, e.gs), e)
         /\ Mechless

TrCancel == /\ IsEvent("Cancel")
            /\ LET e == Trace[l] IN
               /\ CancelOK(s, Q(e))
               /\ s' = Snap(CancelF(s, Q(e), e.closed), e)
            /\ Mechless

TrRet == /\ IsEvent("Ret")
         /\ LET e == Trace[l] IN RetOK(s, Q(e)) /\ s' = RetF(s, Q(e), e.isnil)
         /\ Mechless

TrRelIntent == /\ IsEvent("RelIntent")
               /\ LET e == Trace[l] IN RelIntentOK(s, Q(e)) /\ s' = RelIntentF(s, Q(e))
               /\ Mechless

TrRelease == /\ IsEvent("Release")
             /\ LET e == Trace[l] IN ReleaseOK(s, e.gs) /\ s' = Snap(ReleaseF(s, e.gs), e)
             /\ Mechless

TrAdjust == /\ IsEvent("Adjust")
            /\ LET e == Trace[l] IN AdjustOK(s, e.v, e.gs) /\ s' = Snap(AdjustF(s, e.v, e.gs), e)
            /\ Mechless

TrNext == TrReset \/ TrAcq \/ TrCancel \/ TrRet \/ TrRelIntent \/ TrRelease \/ TrAdjust
TraceSpec == TrInit /\ [][TrNext]_tvars

HighWater == TLCSet(7, IF l > TLCGet(7) THEN l ELSE TLCGet(7))
TraceAccepted == IF TLCGet(7) = Len(Trace) + 1 THEN TRUE
                 ELSE PrintT(<<"TRACE_REJECTED_AT_LINE", TLCGet(7)>>) /\ FALSE
TraceView == <<s, l>>
===============================================================================
