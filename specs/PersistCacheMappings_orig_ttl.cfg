INIT Init
NEXT Next
CONSTANTS
  Batches <- MCBatchesSmall
  GetStrs <- MCGetStrs
  Nows = {10, 20}
  MaxSizes = {70, 105}
  TTLs = {0, 5}
  Counts = {1, 3}
  CapDiv = 1024
  TtlBumpsVersion = FALSE
  DedupBatch = TRUE
  MaxOps = 4
VIEW View
INVARIANTS ValueIsOffered CacheIsOffered NeverMarker SizeBound Accounting ReloadSame FileSync
CHECK_DEADLOCK FALSE
