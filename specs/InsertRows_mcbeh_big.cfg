INIT Init
NEXT Next
CONSTANTS
  Items <- MCItems
  BucketTimes <- MCBucketTimes
  Window = 100
  NShards = 4
  UniqLimit = 3
  MaxContrib = 3
  Bug = "none"
VIEW View
INVARIANTS InsertNoDup InsertKeys InsertMerged OneShardPerKey
ACTION_CONSTRAINT Export
CHECK_DEADLOCK FALSE
