\* C16: entities, mappings, flood limits, bootstrap and two snapshot points together.
INIT Init
NEXT Next
CONSTANTS
  Names <- NamesMix
  NsOf <- MCNsOf
  CreateTypes <- TypesMN
  MismatchTypes = {}
  TMetric = 0
  TGroup = 2
  TNs = 4
  PredefIds <- Predef
  Payloads <- Pay2
  RacePayloads = {}
  RaceNames = {}
  Keys <- K2
  MetricSeq <- M1
  PutArgs <- PutsMix
  BootSets <- BootS
  ResetLimits = {0, 3}
  MaxBudget = 1
  StepSec = 10
  BudgetBonus = 1
  GlobalBudget = 0
  MaxResetLimit = 10000
  U32Q = 429496729
  U32R = 6
  Ticks = {10}
  Clock0 = 1003
  DelMax = 2
  DelNewestOnly = FALSE
  MaxOps = 3
  MaxSnaps = 2
  MaxClock = 10
  ExportFrom = 0
  WithPost = FALSE
  Bugs = {}
VIEW View
INVARIANTS ReplayReproducesPrimary
CHECK_DEADLOCK FALSE
