INIT Init
NEXT Next
CONSTANTS
  Acqs <- A4
  W <- W4
  InitSizes = {2, 3}
  Sizes = {1, 2, 3}
  MaxSet = 1
  Forces = {1, 2}
  MaxForce = 1
  MaxOps = 0
  Bug = "none"
  KeepHist = TRUE
VIEW View
INVARIANTS TypeOK AdmitWithinSize FIFO NoLeak NoLostWakeup OutcomeOK
CHECK_DEADLOCK FALSE
