--------------------------- MODULE TimescaleTrace ---------------------------
(* I->S for C22: (args, result) pairs recorded from the real data_model.GetTimescale / GetLODs
   (harness internal/data_model/verif_c22_timescale_test.go: boundary grid x seeded random inputs,
   and the exhaustive small-table sweep) are judged by the contract of Timescale.tla.  One state per
   recorded call; every clause of the contract is an invariant, so a rejected call names the
   clause it breaks.  The same module judges the records of the lod.go helpers
   (harness internal/api/verif_c22_lod_test.go): ev = "Shift" / "Calc" / "Round". *)
EXTENDS Timescale, TLC, Json
VARIABLE l
Trace == ndJsonDeserialize("trace.ndjson")

Have == l <= Len(Trace)
Rec == Trace[l]
IsQ == Have /\ Rec.ev = "Q"

TrInit == l = 1
TrNext == l < Len(Trace) /\ l' = l + 1
TraceSpec == TrInit /\ [][TrNext]_l

TrErrorsAgree == IsQ => ErrorsAgree(Rec)
TrNoUnexpectedError == IsQ => NoUnexpectedError(Rec)
TrNonEmpty == IsQ => NonEmpty(Rec)
TrIncreasing == IsQ => Increasing(Rec)
TrLODSteps == IsQ => LODSteps(Rec)
TrLODFiner == IsQ => LODFiner(Rec)
TrLimit == IsQ => LimitOK(Rec)
TrLenSum == IsQ => LenSum(Rec)
TrDiffs == IsQ => Diffs(Rec)
TrAligned == IsQ => AlignedAll(Rec)
TrView == IsQ => View(Rec)
TrCoverStart == IsQ => CoverStart(Rec)
TrCoverEnd == IsQ => CoverEnd(Rec)
TrPointShape == IsQ => PointShape(Rec)
TrRanges == IsQ => Ranges(Rec)

(* ---- lod.go helpers ---- *)
Day == 86400
(* roundTime(t, step, utc): the largest instant <= t aligned to step under the offset *)
TrRound == Have /\ Rec.ev = "Round" =>
    /\ (Rec.out + Rec.utc) % Rec.step = 0
    /\ Rec.out <= Rec.t /\ Rec.t < Rec.out + Rec.step
(* shiftTimestamp: plain addition; for the monthly step a month start moves by whole months *)
TrShift == Have /\ Rec.ev = "Shift" =>
    IF Rec.step = Month
    THEN LET j == CHOOSE j \in DOMAIN Rec.months : Rec.months[j] = Rec.t
         IN /\ \E q \in DOMAIN Rec.months : Rec.months[q] = Rec.t
            /\ j + Rec.k \in DOMAIN Rec.months
            /\ Rec.out = Rec.months[j + Rec.k]
    ELSE Rec.out = Rec.t + Rec.shift
(* calcUTCOffset(location, week start): with the offset, weekly points are local midnights of the
   week's first day and daily points local midnights.  Unix day 0 is a Thursday (weekday 4), so
   off = zone + (4 - ws) days, modulo a week.  zone0 is the zone's offset at the epoch (what the
   code reads), zonenow its offset at the time of the query. *)
CalcOK(off, zone, ws) == (off - zone - (4 - ws) * Day) % Week = 0
TrCalcRange == Have /\ Rec.ev = "Calc" => -Week < Rec.out /\ Rec.out < Week
TrCalcFixedZone == Have /\ Rec.ev = "Calc" /\ Rec.zone0 = Rec.zonenow => CalcOK(Rec.out, Rec.zonenow, Rec.ws)
TrCalcEpochZone == Have /\ Rec.ev = "Calc" => CalcOK(Rec.out, Rec.zone0, Rec.ws)
TrCalcCurrentZone == Have /\ Rec.ev = "Calc" => CalcOK(Rec.out, Rec.zonenow, Rec.ws)

MCResolutions == {1, 5, 15, 60, 300, 900, 3600, 14400, 86400, 604800, 2678400}
===============================================================================
