--------------------------- MODULE TimescaleTrace ---------------------------
(* I->S for C22: (args, result) pairs recorded from the real data_model.GetTimescale / GetLODs
   (harness internal/data_model/verif_c22_timescale_test.go: boundary grid x seeded random inputs,
   and the exhaustive small-table sweep) are judged by the contract of Timescale.tla.  One state per
   recorded call; every clause of the contract is an invariant, so a rejected call names the
   clause it breaks.  The same module judges the records of the lod.go helpers
   (harness internal/api/verif_c22_lod_test.go): ev = "Shift" / "Calc" / "Round". *)
EXTENDS Timescale, TLC, Json
VARIABLE l
Trace == ndJsonDeserialize("trace.ndjson")

Have == l <= Len(Trace)
Rec == Trace[l]
IsQ == Have /\ Rec.ev = "Q"

TrInit == l = 1
TrNext == l < Len(Trace) /\ l' = l + 1
TraceSpec == TrInit /\ [][TrNext]_l

TrErrorsAgree == IsQ => ErrorsAgree(Rec)
TrNoUnexpectedError == IsQ => NoUnexpectedError(Rec)
TrNonEmpty == IsQ => NonEmpty(Rec)
TrIncreasing == IsQ => Increasing(Rec)
TrLODSteps == IsQ => LODSteps(Rec)
TrLODFiner == IsQ => LODFiner(Rec)
TrLimit == IsQ => LimitOK(Rec)
TrLenSum == IsQ => LenSum(Rec)
TrDiffs == IsQ => Diffs(Rec)
TrAligned == IsQ => AlignedAll(Rec)
TrView == IsQ => View(Rec)
TrCoverStart == IsQ => CoverStart(Rec)
TrCoverEnd == IsQ => CoverEnd(Rec)
TrPointShape == IsQ => PointShape(Rec)
TrRanges == IsQ => Ranges(Rec)

(* ---- lod.go helpers ---- *)
Day == 86400
(* roundTime(t, step, utc): the largest instant <= t aligned to step under the offset *)
TrRound == Have /\ Rec.ev = "Round" =>
    /\ (Rec.out + Rec.utc) % Rec.step = 0
    /\ Rec.out <= Rec.t /\ Rec.t < Rec.out + Rec.step
(* shiftTimestamp: plain addition; for the monthly step a month start moves by whole months *)
TrShift == Have /\ Rec.ev = "Shift" =>
    IF Rec.step = Month
    THEN /\ \E q \in DOMAIN Rec.months : Rec.months[q] = Rec.t
         /\ LET j == CHOOSE q \in DOMAIN Rec.months : Rec.months[q] = Rec.t
            IN /\ j + Rec.k \in DOMAIN Rec.months
               /\ Rec.out = Rec.months[j + Rec.k]
    ELSE Rec.out = Rec.t + Rec.shift
(* calcUTCOffset(location, week start): with the offset, weekly points are local midnights of the
   week's first day and daily points local midnights.  Unix day 0 is a Thursday (weekday 4), so
   off = zone + (4 - ws) days, modulo a week.  zone0 is the zone's offset at the epoch (what the
   code reads), zonenow its offset at the time of the query. *)
CalcOK(off, zone, ws) == (off - zone - (4 - ws) * Day) % Week = 0
TrCalcRange == Have /\ Rec.ev = "Calc" => -Week < Rec.out /\ Rec.out < Week
TrCalcFixedZone == Have /\ Rec.ev = "Calc" /\ Rec.zone0 = Rec.zonenow => CalcOK(Rec.out, Rec.zonenow, Rec.ws)
TrCalcSomeZone == Have /\ Rec.ev = "Calc" => CalcOK(Rec.out, Rec.zone0, Rec.ws) \/ CalcOK(Rec.out, Rec.zonenow, Rec.ws)
TrCalcCurrentZone == Have /\ Rec.ev = "Calc" => CalcOK(Rec.out, Rec.zonenow, Rec.ws)

(* ---- reporting mode ----
   With the invariants above TLC stops at the first rejected record.  The check normally runs the
   cfg with CONSTRAINT Report instead: every record is judged by every clause and each failure is
   printed as <<"REJ", line, clause>>, so that records reproducing a known finding do not hide
   others; a rejected record is then re-validated alone with the invariants (TimescaleTrace_inv.cfg). *)
Chk(name, ok) == ok \/ PrintT(<<"REJ", l, name>>)
Report == Have =>
    /\ Chk("ErrorsAgree", TrErrorsAgree) /\ Chk("NoUnexpectedError", TrNoUnexpectedError)
    /\ Chk("NonEmpty", TrNonEmpty) /\ Chk("LODSteps", TrLODSteps) /\ Chk("LODFiner", TrLODFiner)
    /\ Chk("Limit", TrLimit) /\ Chk("Increasing", TrIncreasing) /\ Chk("LenSum", TrLenSum)
    /\ Chk("PointShape", TrPointShape) /\ Chk("Diffs", TrDiffs) /\ Chk("Aligned", TrAligned)
    /\ Chk("View", TrView) /\ Chk("CoverStart", TrCoverStart) /\ Chk("CoverEnd", TrCoverEnd)
    /\ Chk("Ranges", TrRanges)
    /\ Chk("Round", TrRound) /\ Chk("Shift", TrShift) /\ Chk("CalcRange", TrCalcRange)
    /\ Chk("CalcFixedZone", TrCalcFixedZone) /\ Chk("CalcSomeZone", TrCalcSomeZone)
    /\ Chk("CalcCurrentZone", TrCalcCurrentZone)

MCResolutions == {1, 5, 15, 60, 300, 900, 3600, 14400, 86400, 604800, 2678400}
===============================================================================
