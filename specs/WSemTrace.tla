------------------------------ MODULE WSemTrace ------------------------------
(* I->S: validates executions of the real weighted semaphore (harness
   internal/vkgo/semaphore/verif_c29_sem_test.go) against the abstract layer of WSem.  Events
   are recorded under s.mu (hooks) with the semaphore's decisions (fast / doomed / queued,
   which waiters notifyWaiters admitted - in order -, what the cancel path saw, TryAcquire's
   answer) and a white-box snapshot (size, cur, the queued requests).  "Ret", "RelIntent" and
   "UnforceIntent" are recorded by the driver outside the lock.  Runs are separated by Reset. *)
EXTENDS WSem
VARIABLE l
Trace == ndJsonDeserialize("trace.ndjson")
ASSUME TLCSet(7, 0)

tvars == <<vars, l>>
IsEvent(e) == l <= Len(Trace) /\ Trace[l].ev = e /\ l' = l + 1
Mechless == UNCHANGED <<waiters, nset, nforce, hist>>

Snap(x, e) == Flag(x, x.size # e.size \/ x.cur # e.cur \/ ToSet(x.wl) # ToSet(e.waiting), "snapshot")
SnapshotAgrees == "snapshot" \notin s.bad

TrInit == /\ s = S0(0) /\ waiters = <<>> /\ nset = 0 /\ nforce = 0 /\ hist = <<>> /\ l = 1

TrReset == /\ IsEvent("Reset") /\ s' = S0(Trace[l].size) /\ Mechless

TrAcq == /\ IsEvent("Acq")
         /\ LET e == Trace[l] IN
            /\ AcqOK(s, e.id, e.wt, e.kind, e.gs)
            /\ s' = Snap(AcqF(s, e.id, e.wt, e.kind, e.gs), e)
         /\ Mechless

TrTry == /\ IsEvent("Try")
         /\ LET e == Trace[l] IN TryOK(s, e.id, e.wt) /\ s' = Snap(TryF(s, e.id, e.wt, e.ok), e)
         /\ Mechless

TrCancel == /\ IsEvent("Cancel")
            /\ LET e == Trace[l] IN
               /\ CancelOK(s, e.id, e.gs)
               /\ s' = Snap(CancelF(s, e.id, e.closed, e.gs), e)
            /\ Mechless

TrRet == /\ IsEvent("Ret")
         /\ LET e == Trace[l] IN RetOK(s, e.id) /\ s' = RetF(s, e.id, e.isnil)
         /\ Mechless

TrRelIntent == /\ IsEvent("RelIntent")
               /\ LET e == Trace[l] IN RelIntentOK(s, e.id) /\ s' = RelIntentF(s, e.id)
               /\ Mechless

TrUnforceIntent == /\ IsEvent("UnforceIntent")
                   /\ LET e == Trace[l] IN UnforceIntentOK(s, e.wt) /\ s' = UnforceIntentF(s, e.wt)
                   /\ Mechless

TrRelease == /\ IsEvent("Release")
             /\ LET e == Trace[l] IN ReleaseOK(s, e.wt, e.gs) /\ s' = Snap(ReleaseF(s, e.wt, e.gs), e)
             /\ Mechless

TrSetSize == /\ IsEvent("SetSize")
             /\ LET e == Trace[l] IN SetSizeOK(s, e.v, e.gs) /\ s' = Snap(SetSizeF(s, e.v, e.gs), e)
             /\ Mechless

TrForce == /\ IsEvent("Force")
           /\ LET e == Trace[l] IN s' = Snap(ForceF(s, e.wt), e)
           /\ Mechless

TrNext == TrReset \/ TrAcq \/ TrTry \/ TrCancel \/ TrRet \/ TrRelIntent \/ TrUnforceIntent
          \/ TrRelease \/ TrSetSize \/ TrForce
TraceSpec == TrInit /\ [][TrNext]_tvars

HighWater == TLCSet(7, IF l > TLCGet(7) THEN l ELSE TLCGet(7))
TraceAccepted == IF TLCGet(7) = Len(Trace) + 1 THEN TRUE
                 ELSE PrintT(<<"TRACE_REJECTED_AT_LINE", TLCGet(7)>>) /\ FALSE
TraceView == <<s, l>>
TrW == <<>>
===============================================================================
