------------------------- MODULE TimescaleSmallTrace -------------------------
(* C22, binding of the abstract model to the code: the real GetTimescale / GetLODs run with the
   tiny table of TimescaleMC (harness TestVerifC22Small swaps the package variable lodLevels;
   the point budget stays the real 7680) over the model's whole input grid; a seeded sample of
   the recorded (args, result) pairs is judged here
     - by the contract of Timescale.tla (invariants Sm<Clause>: these are the verdict), and
     - against the output TimescaleModel computes for the same arguments (SmModelAgrees: tells
       whether the model still describes the code; a planner that deviates from the model but
       keeps the contract keeps the property, so the check only reports a disagreement). *)
EXTENDS TimescaleMC, Json
VARIABLE l
Trace == ndJsonDeserialize("trace.ndjson")
Have == l <= Len(Trace)
Rec == Trace[l]

SmInit == l = 1 /\ args = NoCall /\ res = NoCall
SmNext == l < Len(Trace) /\ l' = l + 1 /\ UNCHANGED <<args, res>>
SmSpec == SmInit /\ [][SmNext]_<<l, args, res>>

SmErrorsAgree == Have => ErrorsAgree(Rec)
SmNoUnexpectedError == Have => NoUnexpectedError(Rec)
SmNonEmpty == Have => NonEmpty(Rec)
SmIncreasing == Have => Increasing(Rec)
SmLODSteps == Have => LODSteps(Rec)
SmLODFiner == Have => LODFiner(Rec)
SmLimit == Have => LimitOK(Rec)
SmLenSum == Have => LenSum(Rec)
SmDiffs == Have => Diffs(Rec)
SmAligned == Have => AlignedAll(Rec)
SmView == Have => View(Rec)
SmCoverStart == Have => CoverStart(Rec)
SmCoverEnd == Have => CoverEnd(Rec)
SmPointShape == Have => PointShape(Rec)
SmRanges == Have => Ranges(Rec)

ModelOut == LET a == [start |-> Rec.start, end |-> Rec.end, step |-> Rec.step, now |-> Rec.now, width |-> Rec.width,
                      utc |-> Rec.utc, res |-> Rec.res, off |-> Rec.off, maxoff |-> Rec.maxoff,
                      point |-> Rec.point, extend |-> Rec.extend]
            IN GetTimescale(a)
SmModelAgrees == Have =>
    LET m == ModelOut
    IN /\ m.err = Rec.err /\ m.time = Rec.time /\ m.lods = Rec.lods
       /\ m.startx = Rec.startx /\ m.vstartx = Rec.vstartx /\ m.vendx = Rec.vendx
       /\ ~Rec.point => m.ranges = Rec.ranges
(* reporting mode, see TimescaleTrace *)
Chk(name, ok) == ok \/ PrintT(<<"REJ", l, name>>)
Report == Have =>
    /\ Chk("ErrorsAgree", SmErrorsAgree) /\ Chk("NoUnexpectedError", SmNoUnexpectedError)
    /\ Chk("NonEmpty", SmNonEmpty) /\ Chk("LODSteps", SmLODSteps) /\ Chk("LODFiner", SmLODFiner)
    /\ Chk("Limit", SmLimit) /\ Chk("Increasing", SmIncreasing) /\ Chk("LenSum", SmLenSum)
    /\ Chk("PointShape", SmPointShape) /\ Chk("Diffs", SmDiffs) /\ Chk("Aligned", SmAligned)
    /\ Chk("View", SmView) /\ Chk("CoverStart", SmCoverStart) /\ Chk("CoverEnd", SmCoverEnd)
    /\ Chk("Ranges", SmRanges) /\ Chk("ModelAgrees", SmModelAgrees)
=============================================================================
