INIT Init
NEXT Next
CONSTANTS
  NChunks = 1
  CS = 2
  NGets = 2
  Ranges <- AllRanges
  Plays <- NoPlay
  Forces <- NoForce
  MaxInv = 1
  MaxTrim = 0
  MaxFail = 0
  Age <- AllOld
  FixAwait = FALSE
  FixPublish = FALSE
  MaxOps = 0
VIEW View
INVARIANTS TypeOK Placement Produced Freshness NoDoubleSend NoLostWakeup AwaitersServed Accounting LoadingCount
CHECK_DEADLOCK FALSE
