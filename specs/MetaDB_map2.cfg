\* C19: one metric, budget 2 with a bonus of 2 per step beyond a global budget of 1; no
\* PutMapping, so that the depth goes into creations, clock steps, resets and reopens.
INIT Init
NEXT Next
CONSTANTS
  Names = {}
  NsOf <- MCNsOf
  CreateTypes = {}
  MismatchTypes = {}
  TMetric = 0
  TGroup = 2
  TNs = 4
  PredefIds = {}
  Payloads <- Pay1
  RacePayloads = {}
  RaceNames = {}
  Keys <- K6
  MetricSeq <- M1
  PutArgs = {}
  BootSets = {}
  ResetLimits = {0, 1, 3}
  MaxBudget = 2
  StepSec = 10
  BudgetBonus = 2
  GlobalBudget = 1
  MaxResetLimit = 10000
  U32Q = 429496729
  U32R = 6
  Ticks = {7, 10}
  Clock0 = 1003
  MaxOps = 6
  MaxSnaps = 1
  MaxClock = 27
  ExportFrom = 0
  WithPost = FALSE
  Bugs = {}
VIEW View
INVARIANTS Bijection PositiveIds UsedComplete FloodBound FloodRowBelowCredit FloodTimesRounded ChargedWhenExhausted ReplayReproducesPrimary
PROPERTIES MappingStable GetOrCreateIdempotent DeadIdsNeverReissued
CHECK_DEADLOCK FALSE
