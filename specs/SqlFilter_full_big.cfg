INIT Init
NEXT Next
CONSTANTS
  Tags = {0, 1}
  Ints <- MCIntsFull
  Strs <- MCStrsFull
  FInts = {1, 2}
  FStrs <- MCFStrsSmall
  FBoth <- MCFBothSmall
  Res <- MCRes
  ReSet <- MCReSet
  Kinds = {"plain", "raw"}
  ValKinds = {"M", "S", "B", "E"}
  MaxOps = 2
  MaxVals = 2
  Break = "none"
  IntIdx <- MCIntIdx
  StrIdx <- MCStrIdx
VIEW View
INVARIANTS TypeOK WhereSelectsExactly PolaritiesComplement
CHECK_DEADLOCK FALSE
