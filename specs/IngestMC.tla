------------------------------ MODULE IngestMC ------------------------------
(* Instance of Ingest without scripted behaviours (the table and sequence blocks only).
   checks/C12.py writes a sibling module IngestRand with RandScript for the seeded random part. *)
EXTENDS Ingest
NoScript == <<>>
=============================================================================
