------------------------------- MODULE AccessMC -------------------------------
(* Bounded instances of Access (property C30): the token space around the validity edges
   with the code's real window (5000 ms), and the policy space (bit sets, protected prefixes,
   names, metric pairs built as "old with up to two attribute changes").                    *)
EXTENDS Access

MCConfigured == {"k1", "k2"}
RC1 == <<"statshouse_api_remote_config">>
RC2 == <<"statshouse_agent_remote_config">>
MCRemoteConfig == {RC1, RC2, <<"statshouse_aggregator_remote_config">>, <<"statshouse_journal_dump">>}

Bit(app, kind, arg) == [app |-> app, kind |-> kind, arg |-> arg]
B(kind, arg) == Bit("statshouse", kind, arg)

-------------------------------------------------------------------------------
(* tokens *)
Good == [alg |-> "EdDSA", kind |-> "token", kid |-> "k1", signer |-> "k1", tamper |-> "none",
         iss |-> "vkuth", user |-> "alice", service |-> FALSE,
         nbf |-> -1000, iat |-> -1000, exp |-> 60000,
         bits |-> {B("view_default", <<>>), B("edit_metric", <<"a">>)}]

AdminBits == {B("admin", <<>>)}
ForeignBits == {Bit("other", "admin", <<>>), Bit("-", "admin", <<>>), Bit("statshouse2", "view_default", <<>>),
                B("view_metric", <<"a">>)}

TokDims == [alg    |-> {"EdDSA", "HS256", "none"},
            kind   |-> {"token", "other", ""},
            kid    |-> {"k1", "k2", "kx", "", "#"},        \* "" absent, "#" not a string
            signer |-> {"k1", "k2", "kx"},
            tamper |-> {"none", "payload", "sig"},
            iss    |-> {"vkuth", "other", ""},          \* "" absent
            user   |-> {"alice", "svc", ""},
            nbf    |-> {NoTime, -1000, 0, 1000, 4000, 5000, 6000},
            iat    |-> {NoTime, -1000, 0, 4000, 5000, 6000},
            exp    |-> {NoTime, -6000, -5000, -4000, 0, 60000},
            bits   |-> {Good.bits, AdminBits, ForeignBits}]
Fix(t) == [t EXCEPT !.service = (t.user = "svc")]

(* every token that differs from Good in at most k dimensions *)
RECURSIVE Deviate(_, _)
Deviate(S, k) ==
    IF k = 0 THEN S
    ELSE Deviate(S \cup UNION {UNION {{[t EXCEPT ![f] = v] : v \in TokDims[f]} : f \in DOMAIN TokDims} : t \in S}, k - 1)

(* the validity window alone, everything else good *)
TokTimes == {[Good EXCEPT !.nbf = nb, !.iat = ia, !.exp = ex] :
             nb \in TokDims.nbf, ia \in TokDims.iat, ex \in TokDims.exp}

MCNows == {0, 500}
NHealth == <<"__agg_bucket_receive_delay_sec">>
TokSess(T, fam) == {[mode |-> "token", tok |-> t, prot |-> {}, now |-> nw, ep |-> "query", fam |-> fam] : t \in T, nw \in MCNows}
HealthSess(T, fam) == {[mode |-> "token", tok |-> t, prot |-> {}, now |-> 0, ep |-> "healthcheck", fam |-> fam] : t \in T}
ModeSess(fam) == {[mode |-> m, tok |-> Good, prot |-> {<<"p_">>}, now |-> 0, ep |-> e, fam |-> fam] :
                  m \in {"empty", "insecure", "local"}, e \in {"query", "healthcheck"}}

SessTok(k, fam) == TokSess({Fix(t) : t \in Deviate({Good}, k)} \cup TokTimes, fam) \cup ModeSess(fam)
                   \cup HealthSess({Fix(t) : t \in Deviate({Good}, 1)}, fam)

-------------------------------------------------------------------------------
(* policy *)
Na == <<"a">>     Nb == <<"b">>      Nab == <<"a", "b">>
Npa == <<"p_", "a">>                 Npb == <<"p_", "b">>
Nna == <<"n", ":", "a">>             Nnpa == <<"n", ":", "p_", "a">>
Nn == <<"n">>                        Nnat == <<"n", "@", "a">>
RC1x == <<"statshouse_api_remote_config", "a">>
MCNames == {Na, Nb, Nab, Npa, Npb, Nna, Nnpa, Nn, Nnat, RC1, RC2, RC1x}
MCNamesSmall == {Na, Nab, Npa, Nna, RC1, RC1x}
MCNamesOne == {Na}

MCProts == {{}, {<<"p_">>}, {<<"p_">>, <<"n", ":">>}}

ViewBits == {B("view_default", <<>>), B("admin", <<>>),
             B("view_prefix", <<>>), B("view_prefix", <<"a">>), B("view_prefix", <<"p_">>), B("view_prefix", <<"n", "@">>),
             B("view_metric", <<"a">>), B("view_metric", <<"p_", "a">>), B("view_metric", <<"n", "@", "a">>),
             B("view_metric", RC1), B("view_metric", <<"a", "b">>), B("view_namespace", <<"n">>),
             B("view_prefix", <<"statshouse_api_remote_config">>)}
EditBits == {B("edit_default", <<>>), B("admin", <<>>),
             B("edit_prefix", <<>>), B("edit_prefix", <<"a">>), B("edit_prefix", <<"p_">>), B("edit_prefix", <<"n", "@">>),
             B("edit_metric", <<"a">>), B("edit_metric", <<"p_", "a">>), B("edit_metric", <<"n", "@", "a">>),
             B("edit_metric", RC1), B("edit_metric", <<"a", "b">>), B("edit_namespace", <<"n">>)}
JunkBits == {Bit("other", "admin", <<>>), Bit("statshouse2", "edit_default", <<>>), Bit("-", "admin", <<>>),
             Bit("", "view_default", <<>>), B("admin.", <<>>), B("view_prefix_", <<"a">>), B("admin", <<"a">>),
             B("developer", <<>>), B("", <<>>), Bit("-", "edit_prefix", <<>>), Bit("other", "view_prefix", <<>>)}
AllBits == ViewBits \cup EditBits \cup JunkBits

RECURSIVE UpTo(_, _)
UpTo(S, k) == IF k = 0 THEN {{}} ELSE LET U == UpTo(S, k - 1) IN U \cup {x \cup {e} : x \in U, e \in S}
PolSess(bitsets, prots, fam) == {[mode |-> "token", tok |-> [Good EXCEPT !.bits = bs], prot |-> pr, now |-> 0, ep |-> "query", fam |-> fam] :
                                 bs \in bitsets, pr \in prots}

M0 == [name |-> Na, weight |-> 0, preFrom |-> 0, preTag |-> "", preOnly |-> FALSE,
       skipMax |-> FALSE, skipMin |-> FALSE, skipSum |-> FALSE,
       strategy |-> "", shardNum |-> 0, fixedKey |-> 0, fixedKey2 |-> 0, fk2ts |-> 0,
       raw |-> <<"", "uint">>, descr |-> "x"]
M1 == [name |-> Nna, weight |-> 1, preFrom |-> 7, preTag |-> "1", preOnly |-> TRUE,
       skipMax |-> TRUE, skipMin |-> FALSE, skipSum |-> TRUE,
       strategy |-> "fixed_shard", shardNum |-> 1, fixedKey |-> 1, fixedKey2 |-> 0, fk2ts |-> 0,
       raw |-> <<"hex">>, descr |-> "x"]
M2 == [M0 EXCEPT !.weight = 2, !.preTag = "1"]
AttrDims == [weight   |-> {0, 1, 2},
             preFrom  |-> {0, 7, 9},
             preTag   |-> {"", "1", "2"},
             preOnly  |-> BOOLEAN,
             skipMax  |-> BOOLEAN, skipMin |-> BOOLEAN, skipSum |-> BOOLEAN,
             strategy |-> {"", "fixed_shard", "tags_hash"},
             shardNum |-> {0, 1}, fixedKey |-> {0, 1}, fixedKey2 |-> {0, 1}, fk2ts |-> {0, 5},
             raw      |-> {<<>>, <<"">>, <<"uint">>, <<"", "uint">>, <<"hex", "uint">>, <<"", "hex">>, <<"", "", "int">>},
             descr    |-> {"x", "y"}]
RECURSIVE Change(_, _)
Change(S, k) ==
    IF k = 0 THEN S
    ELSE Change(S \cup UNION {UNION {{[m EXCEPT ![f] = v] : v \in AttrDims[f]} : f \in DOMAIN AttrDims} : m \in S}, k - 1)

AttrEdits(bases, k) == UNION {{[create |-> c, old |-> o, new |-> n] : n \in Change({o}, k), c \in BOOLEAN} : o \in bases}
NameEdits(names) == {[create |-> FALSE, old |-> [M0 EXCEPT !.name = a], new |-> [M0 EXCEPT !.name = b]] : a \in names, b \in names}
                    \cup {[create |-> FALSE, old |-> [M0 EXCEPT !.name = a], new |-> [M0 EXCEPT !.name = b, !.weight = 1]] : a \in names, b \in names}
                    \cup {[create |-> TRUE, old |-> [M1 EXCEPT !.name = a], new |-> [M1 EXCEPT !.name = a]] : a \in names}

EditorBitsets == {{B("edit_default", <<>>)}, {B("admin", <<>>)}, {B("edit_metric", <<"a">>)},
                  {B("edit_prefix", <<>>), B("developer", <<>>)}, {Bit("other", "admin", <<>>), B("edit_namespace", <<"n">>)}, {}}

(* Families of sessions, each with its own questions; a cfg names the families it wants in
   Fams (TLC evaluates every zero-arity definition of the model at start-up, so everything
   large takes a parameter). *)
CONSTANT Fams
VB == ViewBits \cup JunkBits
EB == EditBits \cup {Bit("other", "admin", <<>>)}
ViewSmallSets == UpTo(ViewBits, 1) \cup UpTo(JunkBits, 1) \cup {{B("view_default", <<>>), B("view_metric", RC1)}}
RenameSmallSets == UpTo(EditBits, 1) \cup {{B("edit_metric", <<"a">>), B("edit_metric", <<"a", "b">>)},
                                           {B("edit_metric", <<"a">>), B("edit_prefix", <<"p_">>)},
                                           {B("edit_default", <<>>), B("edit_metric", RC1)}}
Bases == {M0, M1, M2}
SessOf(f) ==
    CASE f = "tok"        -> SessTok(2, f)
      [] f = "tok_big"    -> SessTok(3, f)
      [] f = "view"       -> PolSess(ViewSmallSets, MCProts, f)
      [] f = "view_big"   -> PolSess(UpTo(VB, 2), MCProts, f)
      [] f = "rename"     -> PolSess(RenameSmallSets, MCProts, f)
      [] f = "rename_big" -> PolSess(UpTo(EB, 2), MCProts, f)
      [] f \in {"attr", "attr_big"} -> PolSess(EditorBitsets, {{}}, f)
      [] f = "all"        -> PolSess(UpTo(AllBits, 1) \cup UpTo(ViewBits, 2) \cup UpTo(EditBits, 2), {{<<"p_">>}}, f)
      [] f = "all_big"    -> PolSess(UpTo(AllBits, 2), MCProts, f)
      [] f = "all3_big"   -> PolSess(UpTo(ViewBits \cup EditBits, 3), {{<<"p_">>}}, f)
NamesOf(f) ==
    CASE f \in {"tok", "tok_big", "tok_full"} -> {Na, NHealth}
      [] f = "view" -> MCNamesSmall
      [] f \in {"view_big", "all", "all_big", "all3_big"} -> MCNames
      [] OTHER -> {}
EditsOf(f) ==
    CASE f \in {"tok", "tok_big"} -> {[create |-> FALSE, old |-> M0, new |-> M0], [create |-> TRUE, old |-> [M0 EXCEPT !.name = NHealth], new |-> [M0 EXCEPT !.name = NHealth]]}
      [] f = "rename" -> NameEdits(MCNamesSmall)
      [] f = "rename_big" -> NameEdits(MCNames)
      [] f = "attr" -> AttrEdits(Bases, 1)
      [] f = "attr_big" -> AttrEdits(Bases, 2)
      [] f \in {"all", "all_big"} -> NameEdits(MCNamesSmall) \cup AttrEdits(Bases, 1)
      [] f = "all3_big" -> NameEdits(MCNamesSmall)
      [] OTHER -> {}
MCSessions == UNION {SessOf(f) : f \in Fams}
(* explicit functions (:> @@) so that TLC holds the sets instead of re-evaluating a lambda at
   every application *)
RECURSIVE MkFun(_, _)
MkFun(S, names) == IF S = {} THEN <<>>
                   ELSE LET f == CHOOSE x \in S : TRUE
                        IN (f :> (IF names THEN NamesOf(f) ELSE EditsOf(f))) @@ MkFun(S \ {f}, names)
MCNamesByFam == MkFun(Fams \cup {"tok_full"}, TRUE)
MCEditsByFam == MkFun(Fams \cup {"tok_full"}, FALSE)
===============================================================================
