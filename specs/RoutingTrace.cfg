SPECIFICATION TraceSpec
CONSTANTS
  MaxN = 0
  Ids = {2}
  Hashes = {}
  KeyTimes <- MCKeyTimes
  Times = {}
  Olds = {}
  Lens = {}
  HWs = {}
  Span = 0
VIEW TraceView
CONSTRAINT HighWater
INVARIANTS ShardInRange TimeIndependent AgentApiAgree HelpersAgree UnshardedReadsAll SecondaryDiffers HashInRange ConfigConsistent PrimaryIsOwner ReplicaOfShardAlive SpareDiffers SpareShared NoneOnlyIfDown FiledOwnSoon TickOwn AddressedToMe
POSTCONDITION TraceAccepted
CHECK_DEADLOCK FALSE
