\* thorough: strings up to 4 tokens over 9 tokens, boundaries +-3, more leading zeros
SPECIFICATION Spec
CONSTANTS
  Inputs <- MCInputs
  ShortLen = 4
  ShortAlphabet = {0, 1, 5, 9, 10, 11, 12, 13, 14}
  Zeros = {0, 1, 2, 22}
  Deltas = 3
INVARIANTS TypeOK Accepts32 Accepts64 Stores32 Stores64 Widening Export
CHECK_DEADLOCK FALSE
