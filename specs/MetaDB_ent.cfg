\* C15 (and C16): entities only.  MaxOps = 3 quick; the thorough tier raises it.
INIT Init
NEXT Next
CONSTANTS
  Names <- NamesEnt
  NsOf <- MCNsOf
  CreateTypes <- TypesMN
  MismatchTypes <- TypesM
  TMetric = 0
  TGroup = 2
  TNs = 4
  PredefIds <- Predef
  Payloads <- Pay2
  RacePayloads <- RacePay
  RaceNames = {"a"}
  Keys = {}
  MetricSeq <- NoSeq
  PutArgs = {}
  BootSets = {}
  ResetLimits = {}
  MaxBudget = 2
  StepSec = 10
  BudgetBonus = 1
  GlobalBudget = 0
  MaxResetLimit = 10000
  U32Q = 429496729
  U32R = 6
  Ticks = {}
  Clock0 = 1003
  DelMax = 2
  DelNewestOnly = FALSE
  MaxOps = 3
  MaxSnaps = 1
  MaxClock = 30
  ExportFrom = 0
  WithPost = FALSE
  Bugs = {}
VIEW View
INVARIANTS VersionsUnique NameUnique NamespaceExists JournalOnceAscending ReplayReproducesPrimary
PROPERTIES EditNeedsCurrentVersion CurrentVersionAccepted VersionsIncrease RaceOneWinner NamespaceNeverRenamed
CHECK_DEADLOCK FALSE
