\* C19: flood limit against deletion of the NEWEST ids: one metric, budget 1 beyond a global
\* budget of 1, four keys; delete requests only remove an upper set of the present ids (so that
\* MAX(id) of the table drops, possibly back inside the global budget), then the metric asks again.
INIT Init
NEXT Next
CONSTANTS
  Names = {}
  NsOf <- MCNsOf
  CreateTypes = {}
  MismatchTypes = {}
  TMetric = 0
  TGroup = 2
  TNs = 4
  PredefIds = {}
  Payloads <- Pay1
  RacePayloads = {}
  RaceNames = {}
  Keys <- K4
  MetricSeq <- M1
  PutArgs = {}
  BootSets = {}
  ResetLimits = {}
  MaxBudget = 1
  StepSec = 10
  BudgetBonus = 1
  GlobalBudget = 1
  MaxResetLimit = 10000
  U32Q = 429496729
  U32R = 6
  Ticks = {}
  Clock0 = 1003
  DelMax = 3
  DelNewestOnly = TRUE
  MaxOps = 5
  MaxSnaps = 1
  MaxClock = 0
  ExportFrom = 0
  WithPost = FALSE
  Bugs = {}
VIEW View
INVARIANTS Bijection PositiveIds UsedComplete FloodBound FloodRowBelowCredit FloodTimesRounded ChargedWhenExhausted ReplayReproducesPrimary
PROPERTIES MappingStable GetOrCreateIdempotent DeadIdsNeverReissued
CHECK_DEADLOCK FALSE
