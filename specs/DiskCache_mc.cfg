INIT Init
NEXT Next
CONSTANTS
  Shards <- MCShards2
  Secs = {7}
  Lens = {0, 3}
  HeaderSize = 20
  MagicLen = 4
  MagicCommon = 2
  RotateSize = 45
  HalfIsDeleted = TRUE
  TearKs <- AllKs
  WrongSecs <- AnyWrong
  AllowCorrupt = TRUE
  MaxPuts = 3
  MaxRestarts = 2
  MaxOps = 5
VIEW View
INVARIANTS RereadExact TailOrder GetExact IdsUnique SizesMatch ErasedFileDeleted RefCounts KnownPointsAtRecord DiskOrdered
CHECK_DEADLOCK FALSE
