INIT Init
NEXT Next
CONSTANTS
  QLen = 8
  FutureSlots = 1
  Spread = 4
  NShards = 2
  Metrics <- D8Metrics
  TimingShard = 1
  T0 = 64
  Lags0 = {2}
  Fulls0 = {FALSE}
  Ticks <- D8Ticks
  TsOffs <- D8Offs
  Kinds = {"metric", "api"}
  SpreadOf <- EdgeSpread
  Variant = "code"
  MaxOps = 6
  MaxEvents = 2
VIEW View
INVARIANTS ExactlyOnce AllFlushed NotEarly RingOK Rounded Placement DropsJustified OutIncreasing SendBound ChanCap
PROPERTY Monotone
CHECK_DEADLOCK FALSE
