------------------------------- MODULE InsertRows -------------------------------
(* Aggregation of agent contributions into aggregator buckets and the rows the aggregator
   inserts (property C03).  Self-contained abstract multi-value (the transfer codec itself is
   RowAlgebra/RowTransfer, property C02; merge-order independence is C04).

   Transcribed from the code (one action per public step):
     AggMerge   aggregator_handlers.go handleSendSourceBucket, the loop over bucket.Metrics:
                KeyFromStatshouseMultiItem (timestamp clamping), shard = hash(key without time),
                GetOrCreateMultiItem, MultiItem.MergeWithTLMultiItem = per string-top entry
                MapStringTopBytes + MultiValue.MergeWithTL2, then the tail
                (transfer.go: counter 0 skips the whole value; missing hosts are the sender;
                AddCounterHost random pick; ChUnique.MergeRead; ItemValue.MergeWithTLItem2 with
                strict comparisons; centroids added to the digest)
     Insert     aggregator_insert.go rowDataMarshalAppendPositions when neither the insert
                budget nor the string-top limit binds: every item of every shard of every bucket
                is kept with SF = 1; insertItem writes the tail row if !Tail.Empty() and one row
                per non-empty Top entry; multiValueMarshal / appendHosts give the columns
   The property is stated separately (InsertSpec): it talks about the list of contributions
   received (ghost `contribs`) and the inserted body only, through order-free folds.

   Numbers are integers (sums, squares and centroid weights included), so every float
   operation of the code is exact.  Hosts: 0 = no host (the sender's host is substituted).
   Unique sketch: [skip, items] over small integer hashes, thinning above UniqLimit as
   ChUnique does (uniquesHashMaxSize = 65536 in the code).                                  *)
EXTENDS Integers, Sequences, FiniteSets, TLC, Json

CONSTANTS Items,        \* contributions: [agent, b, m, tag, t, parts]; parts: top value (0 = tail) -> wire multi-value
          BucketTimes,  \* sequence: time of aggregator bucket b (b = 1 recent, others historic)
          Window,       \* BelieveTimestampWindow
          NShards,      \* AggregationShardsPerSecond
          UniqLimit,    \* uniquesHashMaxSize
          MaxContrib,   \* bound on the number of contributions (model checking only)
          Bug           \* "none"; "dup" / "sum" / "host" break the mechanism on purpose (non-vacuity)

VARIABLES buckets,   \* b -> shard -> key -> [tail, top]          (aggregatorBucket.shards[].MultiItems)
          contribs,  \* ghost: contributions received, in arrival order, with resolved key
          body,      \* <<>> before Insert; afterwards the inserted rows (a sequence)
          done,
          hist

vars == <<buckets, contribs, body, done, hist>>
View == <<buckets, contribs, body, done>>

-------------------------------------------------------------------------------
(* helpers *)
SetMin(S) == CHOOSE x \in S : \A y \in S : x <= y
SetMax(S) == CHOOSE x \in S : \A y \in S : x >= y
RECURSIVE SumOver(_, _)          \* sum of f[x], x \in S
SumOver(f, S) == IF S = {} THEN 0 ELSE LET x == CHOOSE y \in S : TRUE IN f[x] + SumOver(f, S \ {x})
Pow2(n) == 2 ^ n

EmptyBag == <<>>
BagUnion(a, b) == [x \in DOMAIN a \cup DOMAIN b |->
                     (IF x \in DOMAIN a THEN a[x] ELSE 0) + (IF x \in DOMAIN b THEN b[x] ELSE 0)]
BagPairs(b) == {<<x, b[x]>> : x \in DOMAIN b}
BagWeight(b) == SumOver(b, DOMAIN b)

(* unique sketch *)
Sk0 == [skip |-> 0, items |-> {}]
Good(x, k) == x % Pow2(k) = 0
RECURSIVE Shrink(_)
Shrink(sk) == IF Cardinality(sk.items) > UniqLimit
              THEN Shrink([skip |-> sk.skip + 1, items |-> {x \in sk.items : Good(x, sk.skip + 1)}])
              ELSE sk
(* ChUnique.MergeRead of a sketch marshalled with skip degree 0 (what agents below the limit send) *)
SkMerge(sk, U) == Shrink([sk EXCEPT !.items = @ \cup {x \in U : Good(x, sk.skip)}])
(* the canonical sketch of a set of hashes: thinned at the least degree that fits *)
Canon(U) == Shrink([skip |-> 0, items |-> U])
(* ChUnique.Size: exact in exact mode, an estimate (not specified here) otherwise *)
SkExact(sk) == sk.skip = 0

-------------------------------------------------------------------------------
(* aggregator-side multi-value *)
MV0 == [cnt |-> 0, cntH |-> 0, set |-> FALSE, min |-> 0, max |-> 0, sum |-> 0, sq |-> 0,
        minH |-> 0, maxH |-> 0, sk |-> Sk0, dig |-> FALSE, cent |-> EmptyBag]

Sub(h, ah) == IF h = 0 THEN ah ELSE h

(* ItemCounter.AddCounterHost; `pick` = outcome of rng.Uint64n(totalWeight) >= weight *)
CounterAdd(s, c, h, pick) ==
    IF c <= 0 THEN s
    ELSE IF s.cnt <= 0 THEN [s EXCEPT !.cnt = c, !.cntH = h]
    ELSE IF s.cntH = h THEN [s EXCEPT !.cnt = @ + c]
    ELSE [s EXCEPT !.cnt = @ + c, !.cntH = IF pick THEN h ELSE @]
CounterDice(s, c, h) == c > 0 /\ s.cnt > 0 /\ s.cntH # h

(* MultiValue.MergeWithTL2 of the wire value w sent by the agent with host ah *)
MergeTL(s, w, ah, pick) ==
    IF w.cnt = 0 THEN s                   \* "Tail can have 0 count, while Top has some"
    ELSE
    LET s1 == CounterAdd(s, w.cnt, Sub(w.cntH, ah), pick)
        s2 == IF w.uniq = {} THEN s1 ELSE [s1 EXCEPT !.sk = SkMerge(@, w.uniq)]
    IN IF ~w.set THEN s2
       ELSE
       LET newMin == ~s2.set \/ w.min < s2.min
           newMax == ~s2.set \/ w.max > s2.max
       IN [s2 EXCEPT !.sum = IF Bug = "sum" /\ ~newMin /\ ~newMax THEN @ ELSE @ + w.sum,
                     !.sq = @ + w.sq,
                     !.min = IF newMin THEN w.min ELSE @,
                     !.minH = IF newMin THEN Sub(w.minH, ah) ELSE @,
                     !.max = IF newMax THEN w.max ELSE @,
                     !.maxH = IF newMax THEN Sub(IF Bug = "host" THEN w.minH ELSE w.maxH, ah) ELSE @,
                     !.set = TRUE,
                     !.dig = @ \/ DOMAIN w.cent # {},
                     !.cent = BagUnion(@, w.cent)]

-------------------------------------------------------------------------------
(* keys *)
AgentHost(a) == 90 + a

(* KeyFromStatshouseMultiItem: the item's own timestamp is believed inside the window *)
ResolveTime(t, bt) == IF t = 0 THEN bt
                      ELSE IF t > bt THEN bt
                      ELSE IF t < bt - Window THEN bt
                      ELSE t
KeyOf(it) == [t |-> ResolveTime(it.t, BucketTimes[it.b]), m |-> it.m, tag |-> it.tag]
(* Key.XXHash skips the timestamp; the shard is hash % AggregationShardsPerSecond.  Any function
   of (metric, tags) will do for the model; the mutation "dup" makes it depend on the sender. *)
ShardOf(k, a) == (k.m + k.tag + (IF Bug = "dup" THEN a ELSE 0)) % NShards

NoRow == [tail |-> MV0, top |-> <<>>]
Upd(f, x, v) == [y \in DOMAIN f \cup {x} |-> IF y = x THEN v ELSE f[y]]

-------------------------------------------------------------------------------
Init == /\ buckets = [b \in DOMAIN BucketTimes |-> [s \in 0..NShards - 1 |-> <<>>]]
        /\ contribs = <<>> /\ body = <<>> /\ done = FALSE /\ hist = <<>>

(* the loop body of handleSendSourceBucket for one item.  picks: top value -> BOOLEAN *)
RECURSIVE MergeParts(_, _, _, _, _)
MergeParts(row, parts, P, ah, picks) ==     \* string-top entries in any order (they are independent), then the tail
    IF P = {} THEN row
    ELSE LET p == IF P \ {0} # {} THEN CHOOSE x \in P \ {0} : TRUE ELSE 0
             r1 == IF p = 0
                   THEN [row EXCEPT !.tail = MergeTL(@, parts[0], ah, picks[0])]
                   ELSE LET old == IF p \in DOMAIN row.top THEN row.top[p] ELSE MV0    \* MapStringTopBytes
                        IN [row EXCEPT !.top = Upd(@, p, MergeTL(old, parts[p], ah, picks[p]))]
         IN MergeParts(r1, parts, P \ {p}, ah, picks)

RowAt(b, s, k) == IF k \in DOMAIN buckets[b][s] THEN buckets[b][s][k] ELSE NoRow
OldPart(row, p) == IF p = 0 THEN row.tail ELSE IF p \in DOMAIN row.top THEN row.top[p] ELSE MV0

AggMergeCore(it, picks) ==
    /\ ~done
    /\ LET k == KeyOf(it)
           s == ShardOf(k, it.agent)
           row == RowAt(it.b, s, k)
       IN /\ \A p \in DOMAIN it.parts :          \* no duplicate transitions: throw the dice only when the code does
                picks[p] => CounterDice(OldPart(row, p), it.parts[p].cnt, Sub(it.parts[p].cntH, AgentHost(it.agent)))
          \* the same key must not sit in two aggregator buckets inserted together (see design notes)
          /\ \A b2 \in DOMAIN BucketTimes \ {it.b} : \A s2 \in 0..NShards - 1 : k \notin DOMAIN buckets[b2][s2]
          /\ buckets' = [buckets EXCEPT ![it.b][s] =
                           Upd(@, k, MergeParts(row, it.parts, DOMAIN it.parts, AgentHost(it.agent), picks))]
          /\ contribs' = Append(contribs, [key |-> k, agent |-> it.agent, parts |-> it.parts])
    /\ UNCHANGED <<body, done>>

(* multiValueMarshal + appendHosts with sf = 1 *)
RowOf(k, p, v) ==
    [key |-> k, top |-> p, cnt |-> v.cnt, maxcnt |-> v.cnt,
     min |-> IF v.set THEN v.min ELSE 0, max |-> IF v.set THEN v.max ELSE 0,
     sum |-> IF v.set THEN v.sum ELSE 0, sq |-> IF v.set THEN v.sq ELSE 0,
     cent |-> IF v.dig THEN v.cent ELSE EmptyBag,
     sk |-> v.sk,
     ucnt |-> Cardinality(v.sk.items),                      \* items the marshalled state carries
     usize |-> Cardinality(v.sk.items) * Pow2(v.sk.skip),   \* ChUnique.Size (as is; exact in exact mode)
     minH |-> IF v.set THEN v.minH ELSE 0, maxH |-> IF v.set THEN v.maxH ELSE 0, cntH |-> v.cntH]

RECURSIVE SeqOfSet(_)
SeqOfSet(S) == IF S = {} THEN <<>> ELSE LET x == CHOOSE y \in S : TRUE IN <<x>> \o SeqOfSet(S \ {x})
RECURSIVE Flatten(_)
Flatten(ss) == IF ss = <<>> THEN <<>> ELSE Head(ss) \o Flatten(Tail(ss))

(* insertItem *)
ItemRows(k, row) ==
    (IF row.tail.cnt > 0 THEN << RowOf(k, 0, row.tail) >> ELSE <<>>)
    \o LET tops == SeqOfSet({p \in DOMAIN row.top : row.top[p].cnt > 0})
       IN [i \in DOMAIN tops |-> RowOf(k, tops[i], row.top[tops[i]])]

InsertCore ==
    /\ ~done
    /\ body' = Flatten([b \in DOMAIN BucketTimes |->
                  Flatten([s1 \in 1..NShards |->
                     LET m == buckets[b][s1 - 1]
                         ks == SeqOfSet(DOMAIN m)
                     IN Flatten([i \in DOMAIN ks |-> ItemRows(ks[i], m[ks[i]])])])])
    /\ done' = TRUE
    /\ UNCHANGED <<buckets, contribs>>

-------------------------------------------------------------------------------
(* THE PROPERTY: what the body must be, as a function of the contributions received only. *)
LivePieces(cs) == UNION {{<<i, p>> : p \in {q \in DOMAIN cs[i].parts : cs[i].parts[q].cnt > 0}} : i \in DOMAIN cs}
KeyTops(cs) == {<<cs[ip[1]].key, ip[2]>> : ip \in LivePieces(cs)}
Of(cs, kt) == {ip \in LivePieces(cs) : cs[ip[1]].key = kt[1] /\ ip[2] = kt[2]}
W(cs, ip) == cs[ip[1]].parts[ip[2]]
HostOf(cs, ip, h) == Sub(h, AgentHost(cs[ip[1]].agent))

RECURSIVE BagAll(_, _)
BagAll(cs, S) == IF S = {} THEN EmptyBag
                 ELSE LET ip == CHOOSE x \in S : TRUE IN BagUnion(W(cs, ip).cent, BagAll(cs, S \ {ip}))

Expected(cs, kt) ==
    LET P  == Of(cs, kt)
        VS == {ip \in P : W(cs, ip).set}
        mn == SetMin({W(cs, ip).min : ip \in VS})
        mx == SetMax({W(cs, ip).max : ip \in VS})
        U  == UNION {W(cs, ip).uniq : ip \in P}
    IN [key |-> kt[1], top |-> kt[2],
        cnt |-> SumOver([ip \in P |-> W(cs, ip).cnt], P),
        set |-> VS # {},
        min |-> IF VS = {} THEN 0 ELSE mn, max |-> IF VS = {} THEN 0 ELSE mx,
        sum |-> SumOver([ip \in VS |-> W(cs, ip).sum], VS),
        sq  |-> SumOver([ip \in VS |-> W(cs, ip).sq], VS),
        cent |-> BagAll(cs, VS),
        uniq |-> U,
        minHs |-> IF VS = {} THEN {0} ELSE {HostOf(cs, ip, W(cs, ip).minH) : ip \in {x \in VS : W(cs, x).min = mn}},
        maxHs |-> IF VS = {} THEN {0} ELSE {HostOf(cs, ip, W(cs, ip).maxH) : ip \in {x \in VS : W(cs, x).max = mx}},
        cntHs |-> {HostOf(cs, ip, W(cs, ip).cntH) : ip \in P}]

RowMatches(r, e) ==
    /\ r.cnt = e.cnt /\ r.maxcnt = e.cnt
    /\ r.min = e.min /\ r.max = e.max /\ r.sum = e.sum /\ r.sq = e.sq
    /\ r.cent = e.cent
    /\ r.minH \in e.minHs /\ r.maxH \in e.maxHs /\ r.cntH \in e.cntHs
    /\ r.sk = Canon(e.uniq)                                   \* C04's canonical form; implies the next line
    /\ (Cardinality(e.uniq) < UniqLimit => SkExact(r.sk) /\ r.sk.items = e.uniq)
    /\ r.ucnt = Cardinality(r.sk.items)                       \* the state written holds every hash once
    /\ (Cardinality(e.uniq) < UniqLimit => r.usize = Cardinality(e.uniq))   \* the count read back is exact

NoDuplicateKey(bd)  == \A i, j \in DOMAIN bd : i # j => <<bd[i].key, bd[i].top>> # <<bd[j].key, bd[j].top>>
KeysExact(bd, cs)   == {<<bd[i].key, bd[i].top>> : i \in DOMAIN bd} = KeyTops(cs)
RowsMerged(bd, cs)  == \A i \in DOMAIN bd : <<bd[i].key, bd[i].top>> \in KeyTops(cs) =>
                                            RowMatches(bd[i], Expected(cs, <<bd[i].key, bd[i].top>>))

InsertNoDup  == done => NoDuplicateKey(body)
InsertKeys   == done => KeysExact(body, contribs)
InsertMerged == done => RowsMerged(body, contribs)

(* mechanism facts (model checking only) *)
OneShardPerKey == \A b \in DOMAIN buckets : \A s1, s2 \in 0..NShards - 1 :
                     s1 # s2 => DOMAIN buckets[b][s1] \cap DOMAIN buckets[b][s2] = {}

-------------------------------------------------------------------------------
ProjW(w) == [cnt |-> w.cnt, set |-> w.set, min |-> w.min, max |-> w.max, sum |-> w.sum, sq |-> w.sq,
             minH |-> w.minH, maxH |-> w.maxH, cntH |-> w.cntH, uniq |-> w.uniq, cent |-> BagPairs(w.cent)]
ProjItem(it) == [agent |-> it.agent, b |-> it.b, m |-> it.m, tag |-> it.tag, t |-> it.t,
                 parts |-> {[top |-> p] @@ ProjW(it.parts[p]) : p \in DOMAIN it.parts}]

AggMerge(it, picks) == /\ Len(contribs) < MaxContrib /\ AggMergeCore(it, picks)
                       /\ hist' = Append(hist, [a |-> "Merge"] @@ ProjItem(it))
Insert == InsertCore /\ hist' = Append(hist, [a |-> "Insert"])

Next == \/ \E it \in Items : \E picks \in [DOMAIN it.parts -> BOOLEAN] : AggMerge(it, picks)
        \/ contribs # <<>> /\ Insert

Spec == Init /\ [][Next]_vars
Export == PrintT(<<"BEH", ToJson(hist')>>)
===============================================================================
