--------------------------- MODULE SeriesCacheShard ---------------------------
(* API series cache, property C23 - the SHARD level of tscache2.go: the list of buckets of one
   step shard (cache2BucketList: doubly linked, sentinel head), the two cursors the shard keeps for
   the walks that release the shard mutex between buckets (cache2Shard.invalidateIter for
   cache2Shard.invalidate, cache2Shard.trimIter for the trim goroutine), and
   removeBucketUnlocked, which has to move a cursor off the bucket it removes.

   Why it matters for the property: layer 1 (SeriesCacheAbs) forbids rows of a load that finished
   before an invalidation of the slot began which completed before the request began.  Layer 2
   (SeriesCache) shows that ONE bucket honours this once cache2Bucket.invalidate has run on it.
   This module shows the missing link: an invalidate call that returned has run
   cache2Bucket.invalidate on EVERY bucket that was in the shard during the whole call
   (InvReachesAll).  Buckets created during the call need no visit (their loads start after the
   call began), removed buckets hold nothing.

   Locks as in the code: iteratorStart / iteratorNext run under shard.mu and return a bucket; the
   visit (cache2Bucket.invalidate, or trim's look at the bucket) runs under that bucket's mutex
   with shard.mu released; removeBucket / reset hold shard.mu and then the bucket's mutex.  So
   one step = one of these critical sections.  The list is modelled with its pointers (nxt, prv,
   sentinel H) because the order of "unlink" and "move the cursors" inside removeBucketUnlocked is
   exactly what can go wrong: cache2BucketList.remove sets v.next = nil, and
   cache2BucketList.next(v) of an unlinked bucket is nil, not its old successor.

   UnlinkFirst = FALSE is the code (cursors moved, then unlink); TRUE is the what-if "unlink, then
   move the cursors", which ends a running walk early: must violate InvReachesAll.

   Assumptions as for the rest of C23: invalidate calls do not overlap (one invalidation
   goroutine), one trim goroutine; reset may come from anywhere.                              *)
EXTENDS Integers, FiniteSets, Sequences, TLC

CONSTANTS NB,           \* bucket objects 1..NB (an id is never reused: a new bucket is a new object)
          N0,           \* buckets in the shard at the start
          MaxInv,       \* invalidate calls (one after the other)
          MaxTrimWalks, \* walks of the trim goroutine (trimAged style: look at a bucket, maybe remove it)
          MaxEvict,     \* removals of a bucket collected earlier (reduceMemoryUsage style: any bucket, any time)
          MaxReset,     \* reset() calls
          UnlinkFirst

VARIABLES nxt, prv,     \* list pointers; H = sentinel, Nil = nil pointer (unlinked bucket)
          inmap,        \* shard.bucketM (as a set of buckets)
          made,         \* bucket objects created so far
          invIter, trimIter,  \* the cursors (Nil = nil)
          ipc, icur,    \* invalidate: "idle" | "visit" (holds icur, no lock) | "next";  icur = bucket being visited
          tpc, tcur,    \* trim walk, same shape
          must,         \* ghost: buckets in the shard since the running invalidate began
          seen,         \* ghost: buckets the running invalidate has visited while they were in the shard
          ninv, nwalk, nevict, nreset

vars == <<nxt, prv, inmap, made, invIter, trimIter, ipc, icur, tpc, tcur, must, seen, ninv, nwalk, nevict, nreset>>

H   == 0
Nil == -1
Buckets == 1..NB

(* cache2BucketList *)
ListNext(n, v) == IF n[v] = H THEN Nil ELSE n[v]          \* next(v): nil at the end - and n[v] itself when v is unlinked (= Nil)
First(n)       == ListNext(n, H)

Init == /\ nxt = [v \in {H} \cup Buckets |-> IF v = H THEN (IF N0 = 0 THEN H ELSE 1)
                                             ELSE IF v < N0 THEN v + 1 ELSE IF v = N0 THEN H ELSE Nil]
        /\ prv = [v \in {H} \cup Buckets |-> IF v = H THEN (IF N0 = 0 THEN H ELSE N0)
                                             ELSE IF v = 1 /\ v <= N0 THEN H ELSE IF v <= N0 THEN v - 1 ELSE Nil]
        /\ inmap = 1..N0 /\ made = 1..N0
        /\ invIter = Nil /\ trimIter = Nil
        /\ ipc = "idle" /\ icur = Nil /\ tpc = "idle" /\ tcur = Nil
        /\ must = {} /\ seen = {}
        /\ ninv = 0 /\ nwalk = 0 /\ nevict = 0 /\ nreset = 0

-------------------------------------------------------------------------------
(* removeBucketUnlocked(b), as a function of the state it changes: <<nxt, prv, inmap, invIter, trimIter>> *)
Unlink(n, p, b) == << [n EXCEPT ![p[b]] = n[b], ![b] = Nil], [p EXCEPT ![n[b]] = p[b], ![b] = Nil] >>
Removed(st, b) ==
    LET n == st[1]  p == st[2]  m == st[3]  ii == st[4]  ti == st[5]
    IN IF b \notin m THEN st                                   \* already removed
       ELSE IF ~UnlinkFirst
       THEN LET ti1 == IF ti = b THEN ListNext(n, b) ELSE ti   \* cursors first ...
                ii1 == IF ii = b THEN ListNext(n, b) ELSE ii
                u   == Unlink(n, p, b)                          \* ... then bucketL.remove(b)
            IN <<u[1], u[2], m \ {b}, ii1, ti1>>
       ELSE LET u   == Unlink(n, p, b)                          \* what-if: unlink first
                ti1 == IF ti = b THEN ListNext(u[1], b) ELSE ti
                ii1 == IF ii = b THEN ListNext(u[1], b) ELSE ii
            IN <<u[1], u[2], m \ {b}, ii1, ti1>>

ApplyRemoved(st) == /\ nxt' = st[1] /\ prv' = st[2] /\ inmap' = st[3] /\ invIter' = st[4] /\ trimIter' = st[5]
                    /\ must' = must \cap st[3]

(* getOrCreateLockedBucket: a new bucket goes to the tail *)
Create ==
    /\ \E b \in Buckets \ made :
          /\ b = 1 + Cardinality(made)
          /\ made' = made \cup {b} /\ inmap' = inmap \cup {b}
          /\ nxt' = [nxt EXCEPT ![prv[H]] = b, ![b] = H]
          /\ prv' = [prv EXCEPT ![H] = b, ![b] = prv[H]]
    /\ UNCHANGED <<invIter, trimIter, ipc, icur, tpc, tcur, must, seen, ninv, nwalk, nevict, nreset>>

(* cache2Shard.invalidate *)
InvStart ==      \* invalidateIteratorStart
    /\ ipc = "idle" /\ ninv < MaxInv
    /\ ninv' = ninv + 1
    /\ must' = inmap /\ seen' = {}
    /\ LET res == First(nxt)
       IN IF res = Nil THEN /\ ipc' = "idle" /\ icur' = Nil /\ UNCHANGED invIter
          ELSE /\ invIter' = ListNext(nxt, res) /\ icur' = res /\ ipc' = "visit"
    /\ UNCHANGED <<nxt, prv, inmap, made, trimIter, tpc, tcur, nwalk, nevict, nreset>>
InvVisit ==      \* cache2Bucket.invalidate under the bucket's mutex (a removed bucket has no chunks)
    /\ ipc = "visit"
    /\ seen' = IF icur \in inmap THEN seen \cup {icur} ELSE seen
    /\ ipc' = "next"
    /\ UNCHANGED <<nxt, prv, inmap, made, invIter, trimIter, icur, tpc, tcur, must, ninv, nwalk, nevict, nreset>>
InvNext ==       \* invalidateIteratorNext
    /\ ipc = "next"
    /\ IF invIter = Nil THEN /\ ipc' = "idle" /\ icur' = Nil /\ UNCHANGED invIter
       ELSE /\ icur' = invIter /\ invIter' = ListNext(nxt, invIter) /\ ipc' = "visit"
    /\ UNCHANGED <<nxt, prv, inmap, made, trimIter, tpc, tcur, must, seen, ninv, nwalk, nevict, nreset>>

(* the trim goroutine walking with trimIter (trimAged): looks at the bucket, removes it or not *)
TrimStart ==
    /\ tpc = "idle" /\ nwalk < MaxTrimWalks
    /\ nwalk' = nwalk + 1
    /\ LET res == First(nxt)
       IN IF res = Nil THEN /\ tpc' = "idle" /\ tcur' = Nil /\ UNCHANGED trimIter
          ELSE /\ trimIter' = ListNext(nxt, res) /\ tcur' = res /\ tpc' = "visit"
    /\ UNCHANGED <<nxt, prv, inmap, made, invIter, ipc, icur, must, seen, ninv, nevict, nreset>>
TrimVisit(rm) == \* removeBucket(tcur) or removeChunksNotUsedAfter (keeps the bucket)
    /\ tpc = "visit"
    /\ tpc' = "next"
    /\ IF rm THEN ApplyRemoved(Removed(<<nxt, prv, inmap, invIter, trimIter>>, tcur))
       ELSE UNCHANGED <<nxt, prv, inmap, invIter, trimIter, must>>
    /\ UNCHANGED <<made, ipc, icur, tcur, seen, ninv, nwalk, nevict, nreset>>
TrimNext ==
    /\ tpc = "next"
    /\ IF trimIter = Nil THEN /\ tpc' = "idle" /\ tcur' = Nil /\ UNCHANGED trimIter
       ELSE /\ tcur' = trimIter /\ trimIter' = ListNext(nxt, trimIter) /\ tpc' = "visit"
    /\ UNCHANGED <<nxt, prv, inmap, made, invIter, ipc, icur, must, seen, ninv, nwalk, nevict, nreset>>

(* reduceMemoryUsage removes buckets it collected earlier: any bucket object ever made, at any time *)
Evict(b) ==
    /\ nevict < MaxEvict /\ b \in made
    /\ nevict' = nevict + 1
    /\ ApplyRemoved(Removed(<<nxt, prv, inmap, invIter, trimIter>>, b))
    /\ UNCHANGED <<made, ipc, icur, tpc, tcur, seen, ninv, nwalk, nreset>>

(* cache2Shard.reset: every bucket of the map, under one hold of shard.mu *)
RECURSIVE RemoveAll(_, _)
RemoveAll(st, S) == IF S = {} THEN st ELSE LET b == CHOOSE x \in S : TRUE IN RemoveAll(Removed(st, b), S \ {b})
Reset ==
    /\ nreset < MaxReset
    /\ nreset' = nreset + 1
    /\ ApplyRemoved(RemoveAll(<<nxt, prv, inmap, invIter, trimIter>>, inmap))
    /\ UNCHANGED <<made, ipc, icur, tpc, tcur, seen, ninv, nwalk, nevict>>

Next == \/ Create \/ InvStart \/ InvVisit \/ InvNext
        \/ TrimStart \/ (\E rm \in BOOLEAN : TrimVisit(rm)) \/ TrimNext
        \/ (\E b \in Buckets : Evict(b)) \/ Reset
Spec == Init /\ [][Next]_vars

-------------------------------------------------------------------------------
(* the list is what the map says, in a consistent chain *)
RECURSIVE Chain(_, _)
Chain(v, k) == IF v = Nil \/ k = 0 THEN <<>> ELSE <<v>> \o Chain(ListNext(nxt, v), k - 1)
ListOK == LET c == Chain(First(nxt), NB + 1)
          IN /\ Len(c) = Cardinality(inmap) /\ {c[i] : i \in DOMAIN c} = inmap
             /\ \A b \in Buckets \ inmap : nxt[b] = Nil /\ prv[b] = Nil
             /\ \A b \in inmap : prv[nxt[b]] = b /\ nxt[prv[b]] = b
(* a cursor never rests on a removed bucket *)
CursorsOK == (invIter = Nil \/ invIter \in inmap) /\ (trimIter = Nil \/ trimIter \in inmap)
(* an invalidate call that returned has visited every bucket that was in the shard during the whole call *)
InvReachesAll == (ipc = "idle" /\ ninv > 0) => must \subseteq seen
(* and while it runs, what it still owes lies ahead of it: in hand, or reachable from the cursor *)
Ahead == IF invIter = Nil THEN {} ELSE LET c == Chain(invIter, NB + 1) IN {c[i] : i \in DOMAIN c}
InvOwesAhead == ipc # "idle" => (must \ seen) \subseteq (Ahead \cup (IF ipc = "visit" THEN {icur} ELSE {}))
===============================================================================
