\* MetaDBTrace: validation of recorded DBV2 executions; the check rewrites the budget
\* constants per group of runs and selects the C15 or the C19 properties.
SPECIFICATION TraceSpec
CONSTANTS
  Names = {}
  NsOf <- TraceNsOf
  CreateTypes = {}
  MismatchTypes = {}
  TMetric = 0
  TGroup = 2
  TNs = 4
  PredefIds = {}
  Payloads = {}
  RacePayloads = {}
  RaceNames = {}
  Keys = {}
  MetricSeq <- TraceMetrics
  PutArgs = {}
  BootSets = {}
  ResetLimits = {}
  MaxBudget = 3
  StepSec = 10
  BudgetBonus = 1
  GlobalBudget = 2
  MaxResetLimit = 10000
  U32Q = 429496729
  U32R = 6
  Ticks = {}
  Clock0 = 0
  DelMax = 2
  DelNewestOnly = FALSE
  MaxOps = 0
  MaxSnaps = 0
  MaxClock = 0
  ExportFrom = 0
  WithPost = FALSE
  Bugs = {}
VIEW TraceView
CONSTRAINT HighWater
POSTCONDITION TraceAccepted
CHECK_DEADLOCK FALSE
INVARIANTS VersionsUnique NameUnique NamespaceExists JournalOnceAscending Bijection PositiveIds UsedComplete FloodBound
PROPERTIES TEditNeedsCurrentVersion TEditHitsItsEntity TVersionsIncrease TRaceOneWinner TNamespaceNeverRenamed TMappingStable TGetOrCreateIdempotent TDeadIdsNeverReissued
