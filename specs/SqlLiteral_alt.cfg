INIT Init
NEXT Next
CONSTANTS
  Alphabet = {"q", "b", "n", "0", "x", "N", "d", "k", "w", "Z", "L", "C", "M"}
  MaxLen = 3
  Alphabet2 = {"q", "b", "n", "k", "w"}
  MaxLen2 = 1
  EscMap <- AltEscMap
INVARIANTS RoundTrip PairTheorem NeverEscapes
CHECK_DEADLOCK FALSE
