INIT Init
NEXT Next
CONSTANTS
  QLen = 16
  FutureSlots = 1
  Spread = 8
  NShards = 1
  Metrics <- S16Metrics
  TimingShard = 1
  T0 = 64
  Lags0 = {2}
  Fulls0 = {FALSE}
  Ticks <- S16Ticks
  TsOffs <- S16Offs
  Kinds = {"api"}
  SpreadOf <- AllSpread
  Variant = "code"
  MaxOps = 7
  MaxEvents = 2
VIEW View
INVARIANTS ExactlyOnce AllFlushed NotEarly RingOK Rounded Placement DropsJustified OutIncreasing SendBound ChanCap
PROPERTY Monotone
CHECK_DEADLOCK FALSE
