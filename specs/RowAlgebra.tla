------------------------------ MODULE RowAlgebra ------------------------------
(* The algebra of row aggregates of statshouse (properties C02 and C04).  Pure operators,
   no variables; the state machines are RowTransfer.tla (agent -> aggregator transfer, C02)
   and RowMerge.tla (merge order / grouping, C04).

   Transcribed from the code (one operator per function):
     CounterMerge    max_host_probability.go  ItemCounter.Merge / AddCounterHost
     ValueMerge      bucket.go                ItemValue.Merge (value part), addOnlyValue
     ApplyCounter    bucket.go                MultiValue.AddCounterHost     (agent.Shard.ApplyCounter)
     ApplyValues     bucket.go                MultiValue.ApplyValues        (agent.Shard.ApplyValues)
     ApplyUnique     bucket.go                MultiValue.ApplyUnique        (agent.Shard.ApplyUnique)
     MVMerge         bucket.go                MultiValue.Merge
     Encode          transfer.go              MultiValue.MultiValueToTL     (sampleBucket keepF)
     DecodeInto      transfer.go              MultiValue.MergeWithTL2 + ItemValue.MergeWithTLItem2
     EncodeKey/DecodeKey  transfer.go         TLMultiItemFromKey / KeyFromStatshouseMultiItem
     TsMerge         api/tscache.go           tsValues.merge (numeric part and min/max hosts)
   Specified by the properties (not transcribed):
     TransferSpec, KeySpec                    what C02 says the aggregator must reconstruct
     a multi-value's ghost fields aCnt/aMin/aMax   admissible hosts of C04

   Numbers.  TLC has integers only.  count, min, max are integers; sum, sum of squares and
   centroid weights are kept multiplied by DEN, so that the count/totalCount scaling of
   ApplyValues/ApplyUnique ("clean division by, for example, 3") is exact.
   Hosts.  0 is "no host tag" (TagUnion{}); the aggregator substitutes the sending agent's
   host (AgentHost) for it.  The code's random choice of the max-count host is a parameter
   `pick` of the operators; the actions of the state machines quantify over it.            *)
EXTENDS Integers, Sequences, FiniteSets, TLC

CONSTANTS DEN,           \* common denominator of sum / sumsquare / centroid weights
          AgentHost,     \* host tag of the sending agent (hostTag argument of MergeWithTL2)
          FixMixedSum,   \* TRUE: MultiValueToTL as repaired (sends sum when sum # min*count)
          FixEmptyHost   \* TRUE: an empty min / max-count host next to a non-empty max host is
                         \*       transported explicitly and replaced by the agent host

NoHost == 0

-------------------------------------------------------------------------------
(* small helpers *)
RECURSIVE SumTo(_, _)
SumTo(f, n) == IF n = 0 THEN 0 ELSE f[n] + SumTo(f, n - 1)
SeqSum(f) == SumTo(f, Len(f))
SetMin(S) == CHOOSE x \in S : \A y \in S : x <= y
SetMax(S) == CHOOSE x \in S : \A y \in S : x >= y
RECURSIVE SetSum(_, _)     \* sum of F[x] over x in S  (F a function)
SetSum(F, S) == IF S = {} THEN 0 ELSE LET x == CHOOSE y \in S : TRUE IN F[x] + SetSum(F, S \ {x})

(* bags of centroids: function value -> weight*DEN, only positive weights *)
EmptyBag == <<>>
BagAdd(b, v, w) == IF w <= 0 THEN b
                   ELSE [x \in DOMAIN b \cup {v} |->
                           (IF x \in DOMAIN b THEN b[x] ELSE 0) + (IF x = v THEN w ELSE 0)]
BagUnion(a, b) == [x \in DOMAIN a \cup DOMAIN b |->
                     (IF x \in DOMAIN a THEN a[x] ELSE 0) + (IF x \in DOMAIN b THEN b[x] ELSE 0)]
BagScale(b, k) == [x \in DOMAIN b |-> b[x] * k]
BagPairs(b) == {<<x, b[x]>> : x \in DOMAIN b}
BagWeight(b) == SetSum(b, DOMAIN b)

-------------------------------------------------------------------------------
(* A multi-value (data_model.MultiValue): ItemValue + TDigest + unique sketch.
   cnt/cntH        ItemCounter.counter / MaxCounterHostTag
   set,min,max,sum,sq,minH,maxH   ItemValue
   dig, cent       ValueTDigest # nil, its centroids as a bag
   uniq            the set of values inserted into HLL (below the sketch limit no thinning;
                   the sketch itself is Unique.tla)
   aCnt,aMin,aMax  ghost: hosts that contributed count / the minimum / the maximum          *)
MV0 == [cnt |-> 0, cntH |-> NoHost, set |-> FALSE, min |-> 0, max |-> 0, sum |-> 0, sq |-> 0,
        minH |-> NoHost, maxH |-> NoHost, dig |-> FALSE, cent |-> EmptyBag, uniq |-> {},
        aCnt |-> {}, aMin |-> {}, aMax |-> {}]

(* ItemCounter.Merge(other) == AddCounterHost(other.counter, other.host).  `pick` is the
   outcome of rng.Uint64n(totalWeight) >= weight; both weights are clamped to >= 1, so both
   outcomes are possible whenever the dice is thrown. *)
CounterMerge(s, oc, oh, oa, pick) ==
    IF oc <= 0 THEN s
    ELSE IF s.cnt <= 0 THEN [s EXCEPT !.cnt = oc, !.cntH = oh, !.aCnt = oa]
    ELSE IF s.cntH = oh THEN [s EXCEPT !.cnt = @ + oc, !.aCnt = @ \cup oa]
    ELSE [s EXCEPT !.cnt = @ + oc, !.cntH = IF pick THEN oh ELSE @, !.aCnt = @ \cup oa]

(* does the dice get thrown? (used to avoid duplicate transitions) *)
CounterDice(s, oc, oh) == oc > 0 /\ s.cnt > 0 /\ s.cntH # oh

(* value part of ItemValue.Merge: strict comparisons, the left side keeps ties *)
ValueMerge(s, o) ==
    IF ~o.set THEN s
    ELSE LET newMin == ~s.set \/ o.min < s.min
             newMax == ~s.set \/ o.max > s.max
         IN [s EXCEPT !.sum = @ + o.sum, !.sq = @ + o.sq,
                      !.min = IF newMin THEN o.min ELSE @,
                      !.minH = IF newMin THEN o.minH ELSE @,
                      !.max = IF newMax THEN o.max ELSE @,
                      !.maxH = IF newMax THEN o.maxH ELSE @,
                      !.set = TRUE,
                      !.aMin = IF newMin THEN o.aMin ELSE IF o.min = s.min THEN @ \cup o.aMin ELSE @,
                      !.aMax = IF newMax THEN o.aMax ELSE IF o.max = s.max THEN @ \cup o.aMax ELSE @]

-------------------------------------------------------------------------------
(* Events.  An event shape is a record
     [id, kind \in {"C","V","U"}, cnt, vals, hist, host, top]
   cnt = 0 means "counter not set" (the count is derived from the arrays); vals is a sequence
   of integers (values, or unique hashes for kind U); hist a sequence of <<value, count>>;
   top = 0 addresses the tail, otherwise a string-top key.                                   *)
Pairs(e) == [i \in 1..Len(e.vals) |-> <<e.vals[i], 1>>] \o e.hist
TotalCount(e) == LET p == Pairs(e) IN SeqSum([i \in DOMAIN p |-> p[i][2]])
EffCount(e) == IF e.kind = "C" THEN e.cnt ELSE IF e.cnt = 0 THEN TotalCount(e) ELSE e.cnt

(* tmp := SimpleItemCounter(count, host); addOnlyValue(...)...; scaling by count/totalCount *)
TmpValue(e) ==
    LET p     == Pairs(e)
        total == TotalCount(e)
        count == EffCount(e)
        raw   == SeqSum([i \in DOMAIN p |-> p[i][1] * p[i][2]])
        rawq  == SeqSum([i \in DOMAIN p |-> p[i][1] * p[i][1] * p[i][2]])
        vs    == {p[i][1] : i \in DOMAIN p}
    IN [set |-> TRUE, min |-> SetMin(vs), max |-> SetMax(vs),
        sum |-> (raw * count * DEN) \div total, sq |-> (rawq * count * DEN) \div total,
        minH |-> e.host, maxH |-> e.host, aMin |-> {e.host}, aMax |-> {e.host}]

(* the scaling must be exact in units of 1/DEN for every shape that is used *)
ShapeExact(e) == e.kind = "C" \/
    LET p == Pairs(e) total == TotalCount(e) count == EffCount(e) IN
      /\ total > 0
      /\ \A i \in DOMAIN p : (p[i][2] * count * DEN) % total = 0
      /\ (SeqSum([i \in DOMAIN p |-> p[i][1] * p[i][2]]) * count * DEN) % total = 0
      /\ (SeqSum([i \in DOMAIN p |-> p[i][1] * p[i][1] * p[i][2]]) * count * DEN) % total = 0

ApplyCounter(s, e, pick) == CounterMerge(s, e.cnt, e.host, {e.host}, pick)

RECURSIVE AddCentroids(_, _, _, _, _)
AddCentroids(b, p, n, count, total) ==
    IF n = 0 THEN b
    ELSE BagAdd(AddCentroids(b, p, n - 1, count, total), p[n][1], (p[n][2] * count * DEN) \div total)

ApplyValues(s, e, hasPerc, pick) ==
    LET count == EffCount(e)
        total == TotalCount(e)
    IN IF count <= 0 \/ total <= 0 THEN s
       ELSE LET s1 == ValueMerge(CounterMerge(s, count, e.host, {e.host}, pick), TmpValue(e))
            IN IF ~hasPerc \/ s1.min = s1.max THEN s1    \* all values still identical: no TDigest
               ELSE LET c0 == IF s.dig THEN s.cent
                              ELSE IF s.set THEN BagAdd(EmptyBag, s.max, s.cnt * DEN)  \* (wasValue, wasCount)
                              ELSE EmptyBag
                    IN [s1 EXCEPT !.dig = TRUE,
                                  !.cent = AddCentroids(c0, Pairs(e), Len(Pairs(e)), count, total)]

ApplyUnique(s, e, pick) ==
    LET count == EffCount(e)
        total == TotalCount(e)
    IN IF count <= 0 \/ total <= 0 THEN s
       ELSE LET s1 == ValueMerge(CounterMerge(s, count, e.host, {e.host}, pick), TmpValue(e))
            IN [s1 EXCEPT !.uniq = @ \cup {e.vals[i] : i \in 1..Len(e.vals)}]

ApplyEvent(s, e, hasPerc, pick) ==
    CASE e.kind = "C" -> ApplyCounter(s, e, pick)
      [] e.kind = "V" -> ApplyValues(s, e, hasPerc, pick)
      [] e.kind = "U" -> ApplyUnique(s, e, pick)

EventDice(s, e) == CounterDice(s, EffCount(e), e.host)

(* MultiValue.Merge: sketches, digests, then ItemValue.Merge *)
MVMerge(s, o, pick) ==
    LET s1 == [s EXCEPT !.uniq = @ \cup o.uniq,
                        !.dig = @ \/ o.dig,
                        !.cent = IF o.dig THEN (IF s.dig THEN BagUnion(@, o.cent) ELSE o.cent) ELSE @]
    IN ValueMerge(CounterMerge(s1, o.cnt, o.cntH, o.aCnt, pick), o)

-------------------------------------------------------------------------------
(* The wire form of one multi-value (tlstatshouse.MultiValue + fields mask).  `has` is the set
   of optional fields present; absent numeric fields read as 0 on the other side.           *)
EmptyWire == [has |-> {}, counter |-> 0, maxHost |-> 0, minHost |-> 0, cntHost |-> 0, uniq |-> {},
              cents |-> EmptyBag, vmin |-> 0, vmax |-> 0, vsum |-> 0, vsq |-> 0]

Encode(s, sf, hasPerc) ==
    LET cou == s.cnt * sf IN
    IF cou <= 0 THEN EmptyWire
    ELSE
    LET hMax == s.maxH # NoHost
        hMin == s.minH # s.maxH /\ (s.minH # NoHost \/ FixEmptyHost)
        hCnt == s.cntH # s.maxH /\ (s.cntH # NoHost \/ FixEmptyHost)
        (* original code: max, sum and sumsquare are sent only when min # max *)
        full == s.min # s.max \/ (FixMixedSum /\ s.sum # s.min * s.cnt * DEN)
        cc   == IF hasPerc /\ s.set /\ s.dig THEN BagScale(s.cent, sf) ELSE EmptyBag
    IN [has |-> (IF hMax THEN {"maxHost"} ELSE {}) \cup (IF hMin THEN {"minHost"} ELSE {})
                \cup (IF hCnt THEN {"cntHost"} ELSE {})
                \cup (IF s.uniq # {} THEN {"uniques"} ELSE {})
                \cup (IF cou = 1 THEN {"counterEq1"} ELSE {"counter"})
                \cup (IF s.set THEN {"valueSet"} ELSE {})
                \cup (IF s.set /\ hasPerc /\ s.dig /\ DOMAIN cc # {} THEN {"centroids"} ELSE {})
                \cup (IF s.set /\ hasPerc /\ ~s.dig THEN {"implicitCentroid"} ELSE {})
                \cup (IF s.set /\ s.min # 0 THEN {"valueMin"} ELSE {})
                \cup (IF s.set /\ full THEN {"valueMax", "valueSum", "valueSumSquare"} ELSE {}),
        counter |-> IF cou = 1 THEN 0 ELSE cou,
        maxHost |-> IF hMax THEN s.maxH ELSE 0,
        minHost |-> IF hMin THEN s.minH ELSE 0,
        cntHost |-> IF hCnt THEN s.cntH ELSE 0,
        uniq |-> s.uniq,
        cents |-> IF s.set THEN cc ELSE EmptyBag,
        vmin |-> IF s.set THEN s.min ELSE 0,
        vmax |-> IF s.set /\ full THEN s.max ELSE 0,
        vsum |-> IF s.set /\ full THEN s.sum * sf ELSE 0,
        vsq  |-> IF s.set /\ full THEN s.sq * sf ELSE 0]

(* MergeWithTL2 of wire w into the aggregator's multi-value a (a = MV0 for a fresh row).
   Ghost fields are not maintained on this side. *)
DecodeInto(a, w, pick) ==
    LET counter == IF "counterEq1" \in w.has THEN 1 ELSE w.counter IN
    IF counter = 0 THEN a
    ELSE
    LET sub(h)  == IF FixEmptyHost /\ h = NoHost THEN AgentHost ELSE h
        maxHost == IF "maxHost" \in w.has THEN w.maxHost ELSE AgentHost
        minHost == IF "minHost" \in w.has THEN sub(w.minHost) ELSE maxHost
        cntHost == IF "cntHost" \in w.has THEN sub(w.cntHost) ELSE maxHost
        a1 == [CounterMerge(a, counter, cntHost, {}, pick) EXCEPT !.uniq = @ \cup w.uniq]
    IN IF "valueSet" \notin w.has THEN a1
       ELSE
       LET hasMax == "valueMax" \in w.has
           vsum == IF hasMax THEN w.vsum ELSE w.vmin * counter * DEN
           vsq  == IF hasMax THEN w.vsq ELSE vsum * w.vmin
           vmax == IF hasMax THEN w.vmax ELSE w.vmin
           o == [set |-> TRUE, min |-> w.vmin, max |-> vmax, sum |-> vsum, sq |-> vsq,
                 minH |-> minHost, maxH |-> maxHost, aMin |-> {}, aMax |-> {}]
           a2 == ValueMerge(a1, o)
           c1 == IF "centroids" \in w.has THEN BagUnion(a2.cent, w.cents) ELSE a2.cent
           c2 == IF "implicitCentroid" \in w.has THEN BagAdd(c1, w.vmin, counter * DEN) ELSE c1
       IN [a2 EXCEPT !.dig = @ \/ "centroids" \in w.has \/ "implicitCentroid" \in w.has, !.cent = c2]

Decode(w) == DecodeInto(MV0, w, FALSE)

-------------------------------------------------------------------------------
(* What C02 says the aggregator must reconstruct from a multi-value sent with sample factor sf:
   count*sf, min, max, sum*sf, sumsquare*sf, the three host attributions (a missing host is the
   sending agent), the unique set, the centroids with weights*sf.  While all values of a
   percentile row are identical the agent keeps no digest and regards the row as the single
   centroid (max, count) (AddValueCounterHostPercentile / ApplyValues: wasValue, wasCount).  *)
Sub(h) == IF h = NoHost THEN AgentHost ELSE h

(* The centroids of a percentile row.  With a digest: its centroids.  Without one (all values
   identical so far - or values that came from unique events, which never feed the digest) the
   row stands for ONE centroid carrying the whole count; the agent itself places it at
   ValueMax when it later creates the digest (wasValue, wasCount), the wire format at ValueMin.
   The property does not say where between min and max it belongs, so the specification
   allows any position in [min, max]: imp = <<lo, hi, weight>>.                              *)
CentOf(s, hasPerc) == IF hasPerc /\ s.set /\ s.dig THEN s.cent ELSE EmptyBag
ImpOf(s, hasPerc)  == IF hasPerc /\ s.set /\ ~s.dig THEN <<s.min, s.max, s.cnt * DEN>> ELSE <<>>

TransferSpec(s, sf, hasPerc) ==
    IF s.cnt <= 0 THEN MV0 @@ [imp |-> <<>>]
    ELSE [MV0 EXCEPT !.cnt = s.cnt * sf, !.cntH = Sub(s.cntH),
                     !.set = s.set,
                     !.min = IF s.set THEN s.min ELSE 0, !.max = IF s.set THEN s.max ELSE 0,
                     !.sum = IF s.set THEN s.sum * sf ELSE 0, !.sq = IF s.set THEN s.sq * sf ELSE 0,
                     !.minH = IF s.set THEN Sub(s.minH) ELSE NoHost,
                     !.maxH = IF s.set THEN Sub(s.maxH) ELSE NoHost,
                     !.uniq = s.uniq,
                     !.cent = BagScale(CentOf(s, hasPerc), sf),
                     !.dig = hasPerc /\ s.set]
         @@ [imp |-> LET i == ImpOf(s, hasPerc) IN IF i = <<>> THEN <<>> ELSE <<i[1], i[2], i[3] * sf>>]

(* does the bag `got` agree with what t = TransferSpec(...) allows (k = 1, or 2 for Twice) *)
CentMatches(got, t, k) ==
    IF t.imp = <<>> THEN got = BagScale(t.cent, k)
    ELSE \E v \in t.imp[1]..t.imp[2] : got = BagAdd(EmptyBag, v, t.imp[3] * k)

(* two agents sending the same row: everything additive doubles *)
Twice(t) == [t EXCEPT !.cnt = 2 * @, !.sum = 2 * @, !.sq = 2 * @]

(* the observable part of a multi-value, centroids apart *)
Proj(s) == [cnt |-> s.cnt, cntH |-> s.cntH, set |-> s.set, min |-> s.min, max |-> s.max,
            sum |-> s.sum, sq |-> s.sq, minH |-> s.minH, maxH |-> s.maxH, uniq |-> s.uniq]
(* got (a decoded multi-value) is what t (a TransferSpec) demands, k-fold *)
Matches(got, t, k) == /\ Proj(got) = Proj(IF k = 1 THEN t ELSE Twice(t))
                      /\ CentMatches(got.cent, t, k)
(* the same plus the ghost sets, for export *)
ProjA(s) == [cnt |-> s.cnt, cntH |-> s.cntH, set |-> s.set, min |-> s.min, max |-> s.max,
             sum |-> s.sum, sq |-> s.sq, minH |-> s.minH, maxH |-> s.maxH, dig |-> s.dig,
             cent |-> BagPairs(s.cent), uniq |-> s.uniq,
             aCnt |-> s.aCnt, aMin |-> s.aMin, aMax |-> s.aMax,
             imp |-> IF "imp" \in DOMAIN s THEN s.imp ELSE <<>>]

(* C04 for one multi-value: the reported hosts are admissible *)
HostsAdmissible(s) == /\ s.cnt > 0 => s.cntH \in s.aCnt
                      /\ s.set => (s.minH \in s.aMin /\ s.maxH \in s.aMax)
                      /\ s.set => (s.aMin \subseteq s.aCnt /\ s.aMax \subseteq s.aCnt)

-------------------------------------------------------------------------------
(* Keys.  A key is [metric, tags, stags, ts]: tags / stags are functions from tag index to a
   non-zero value / non-empty string.  BucketTime is the second the bucket is sent for. *)
MaxIdx(S) == IF S = {} THEN -1 ELSE SetMax(S)

EncodeKey(k, bucketTime) ==
    [metric |-> k.metric,
     keys   |-> [i \in 0..MaxIdx(DOMAIN k.tags) |-> IF i \in DOMAIN k.tags THEN k.tags[i] ELSE 0],      \* TagSlice
     skeys  |-> [i \in 0..MaxIdx(DOMAIN k.stags) |-> IF i \in DOMAIN k.stags THEN k.stags[i] ELSE ""],  \* STagSlice
     hasT   |-> k.ts # 0 /\ k.ts # bucketTime,
     t      |-> IF k.ts # 0 /\ k.ts # bucketTime THEN k.ts ELSE 0]

(* KeyFromStatshouseMultiItem + the Skeys loop of handleSendSourceBucket (no mapping known) *)
DecodeKey(w, bucketTime, window) ==
    LET ts == IF ~w.hasT THEN bucketTime
              ELSE IF w.t > bucketTime THEN bucketTime
              ELSE IF w.t < bucketTime - window THEN bucketTime
              ELSE w.t
        warn == IF ~w.hasT THEN "" ELSE IF w.t > bucketTime THEN "future"
                ELSE IF w.t < bucketTime - window THEN "past" ELSE ""
    IN [key |-> [metric |-> w.metric,
                 tags  |-> [i \in {j \in DOMAIN w.keys : w.keys[j] # 0} |-> w.keys[i]],
                 stags |-> [i \in {j \in DOMAIN w.skeys : w.skeys[j] # ""} |-> w.skeys[i]],
                 ts |-> ts],
        warn |-> warn]

(* C02 for the key: identical, except that a timestamp outside [bucketTime - window, bucketTime]
   is replaced by the bucket's second and reported (the aggregator's documented clamping). *)
KeySpec(k, bucketTime, window) ==
    LET inWin == k.ts <= bucketTime /\ k.ts >= bucketTime - window
    IN [key |-> [k EXCEPT !.ts = IF inWin THEN @ ELSE bucketTime],
        warn |-> IF inWin THEN "" ELSE IF k.ts > bucketTime THEN "future" ELSE "past"]

-------------------------------------------------------------------------------
(* tsValues.merge of the API (numeric part and the int32 min/max host states).  A tsValues is
   [cnt, min, max, sum, sq, minH, minV, maxH, maxV]; ArgMin/ArgMax keep the left side on ties. *)
TsOf(s) == [cnt |-> s.cnt, min |-> s.min, max |-> s.max, sum |-> s.sum, sq |-> s.sq,
            minH |-> s.minH, minV |-> s.min, maxH |-> s.maxH, maxV |-> s.max]
TsMerge(v, r) ==
    [cnt |-> v.cnt + r.cnt, sum |-> v.sum + r.sum, sq |-> v.sq + r.sq,
     min |-> IF r.min < v.min THEN r.min ELSE v.min,
     max |-> IF v.max < r.max THEN r.max ELSE v.max,
     minH |-> IF r.minV < v.minV THEN r.minH ELSE v.minH,
     minV |-> IF r.minV < v.minV THEN r.minV ELSE v.minV,
     maxH |-> IF v.maxV < r.maxV THEN r.maxH ELSE v.maxH,
     maxV |-> IF v.maxV < r.maxV THEN r.maxV ELSE v.maxV]
===============================================================================
