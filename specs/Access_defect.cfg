INIT Init
NEXT Next
CONSTANTS
  App = "statshouse"
  Issuer = "vkuth"
  Tol = 5000
  Configured <- MCConfigured
  RemoteConfig <- MCRemoteConfig
  HealthMetric <- NHealth
  CheckTagId = FALSE
  Fams = {"attr"}
  Sessions <- MCSessions
  Names <- MCNamesByFam
  Edits <- MCEditsByFam
  ExtraBits <- AllBits
  Exporting = FALSE
  MaxOps = 2
VIEW View
INVARIANTS AcceptOnlyEdDSA AcceptOnlySignedByNamedKey AcceptOnlyIssuedByVkuth AcceptOnlyForUser
           AcceptOnlyUnexpired AcceptOnlyStarted AcceptValid OnlyCarriedBits HealthcheckFallback
           ViewNeedsRight ViewNeverRemoteConfig EditNeedsRightOnBothNames EditNeverRemoteConfig
           EditKeepsWeight EditKeepsPresort EditKeepsSharding EditKeepsSkips EditKeepsRawTags
           AdminEditsAll NoBitsNoRights ViewExact AIExact Monotone
CHECK_DEADLOCK FALSE
