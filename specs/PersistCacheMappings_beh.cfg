INIT Init
NEXT Next
CONSTANTS
  Batches <- MCBatchesSmall
  GetStrs <- MCGetStrs
  Nows = {10, 20}
  MaxSizes = {70}
  TTLs = {0, 5}
  Counts = {2}
  CapDiv = 1024
  TtlBumpsVersion = TRUE
  DedupBatch = TRUE
  MaxOps = 4
VIEW View
INVARIANTS ValueIsOffered CacheIsOffered NeverMarker SizeBound Accounting ReloadSame FileSync
ACTION_CONSTRAINT Export
CHECK_DEADLOCK FALSE
