SPECIFICATION LiveSpec
CONSTANTS
  Users <- U3
  NQ = 1
  InitCaps = {1, 2}
  Caps = {1, 2}
  MaxAdjust = 1
  MaxOps = 0
  Bug = "none"
  KeepHist = FALSE
  Recycle = TRUE
  Normalize = TRUE
INVARIANTS TypeOK CapacityAtGrant NoLostWakeup NoLeak OutcomeOK RoundRobinFair UserFIFO
PROPERTY EventuallyServed
CHECK_DEADLOCK FALSE
