------------------------------- MODULE ConveyorMC -------------------------------
(* DESIGN layer of the conveyor (property C01): computes, the way the code does, the
   decisions that the Core actions of Conveyor.tla take as parameters, and adds the
   environment (clock, network, faults).  TLC explores every interleaving.

   Transcribed from the code:
     agent      sendRecent's "too late" test, getShardReplicaForSecond (primary, spare,
                liveness view), goSendRecent's result handling (erase on discard, otherwise
                save + append to the historic conveyor), popOldestHistoricSecondLocked
                (oldest first, not while in the future), checkOutOfWindow, sendHistoric's
                retry loop;
     aggregator handleSendSourceBucket's filing rule (Conveyor!Filing), the sendMu barrier
                between filing and hand-off, goTicker (hand-off of our own buckets, conveyor
                full => keep), goInsert (one recent bucket + oldest historic buckets, stale
                historic => discard, replies only after the storage answered).
   Environment: Tick, insert failure, lost response / broken connection, aggregator crash and
   start of a fresh instance of the replica, agent's liveness view flipping.               *)
EXTENDS Conveyor

VARIABLES alive,   \* replica key -> the agent's liveness view
          net,     \* sec -> [st, inst, key]: where the request of the RPC in flight is
                   \*   st: "none" | "sent" | "filed" | "waiting" | "replied" | "broken"
          lastT,   \* inst -> last recent bucket time the ticker dealt with
          done     \* inst -> set of <<inserter id, sec>> long polls of the current batch already answered

mcvars == <<vars, alive, net, lastT, done>>

Reps == 1..3
MCRepOf == ("a1" :> 1 @@ "a2" :> 2 @@ "a3" :> 3 @@ "b2" :> 2 @@ "b1" :> 1)
NoNet == [st |-> "none", inst |-> "", key |-> <<"", 0>>, discard |-> FALSE]
MaxId == NIns

(* exactly one instance per replica is up at the start; the others are spares for restarts *)
InitUp == CHOOSE U \in SUBSET Insts : \A r \in Reps : Cardinality({i \in U : RepOf[i] = r}) = 1

MCInit == /\ now = 0 /\ ag = [s \in Secs |-> "none"] /\ disk = {} /\ rpc = [s \in Secs |-> Idle]
           /\ sentTo = [s \in Secs |-> {}] /\ marked = [s \in Secs |-> {}] /\ acked = {} /\ forgot = <<>>
           /\ up = [i \in Insts |-> i \in InitUp]
           /\ rows = [i \in Insts |-> <<>>] /\ polls = [i \in Insts |-> <<>>]
           /\ conv = [i \in Insts |-> {}] /\ batch = [i \in Insts |-> <<>>]
           /\ storedBy = [i \in Insts |-> {}] /\ replied = {} /\ rejected = <<>> /\ faults = 0
           /\ alive = [r \in Reps |-> TRUE]
           /\ net = [s \in Secs |-> NoNet]
           /\ lastT = [i \in Insts |-> 0]
           /\ done = [i \in Insts |-> {}]

Oldest == now - SW                \* window base of every running aggregator (tickers are in step)
Newest == Oldest + SW + FW - 1

--------------------------------------------------------------------------------
(* environment *)
\* the tickers run promptly: time does not pass while an instance still has a due bucket to deal with
TickersDone == \A i \in Insts : up[i] => ~(now > (IF lastT[i] = 0 THEN 1 ELSE lastT[i] + 1) + SW)
Tick == /\ now < MaxT
        /\ TickersDone
        /\ now' = now + 1
        /\ UNCHANGED <<ag, disk, rpc, sentTo, marked, acked, forgot, up, rows, polls, conv, batch, storedBy, replied, rejected, faults, alive, net, lastT, done>>

\* the live checker turns a replica "dead" in the agent's view (a fault: it needs failed keep-alives)
LivenessFlip(r) == /\ faults < MaxFaults /\ alive[r]
                   /\ alive' = [alive EXCEPT ![r] = FALSE]
                   /\ faults' = faults + 1
                   /\ UNCHANGED <<now, ag, disk, rpc, sentTo, marked, acked, forgot, up, rows, polls, conv, batch, storedBy, replied, rejected, net, lastT, done>>

\* ... and back to "alive" once keep-alives succeed again (goLiveChecker), which they do while an instance runs
LivenessRecover(r) == /\ ~alive[r] /\ \E i \in Insts : up[i] /\ RepOf[i] = r
                      /\ alive' = [alive EXCEPT ![r] = TRUE]
                      /\ UNCHANGED <<vars, net, lastT, done>>

--------------------------------------------------------------------------------
(* agent *)
Mark(s) == now = s /\ marked[s] = {} /\ MarkCore(s, {s}) /\ UNCHANGED <<alive, net, lastT, done>>

\* flushed once the second is over; every recent sender busy is modelled by the "hist" path
Produce(s, path) == /\ now > s /\ marked[s] # {}
                    /\ ToSendersCore(s, path) /\ UNCHANGED <<alive, net, lastT, done>>

ReplicaFor(s) == LET p == (s % 3) + 1
                     q == ((s + 1 + (s % 2)) % 3) + 1
                 IN IF alive[p] THEN <<p, FALSE>> ELSE IF alive[q] THEN <<q, TRUE>> ELSE <<0, FALSE>>

SavePut(s) == /\ s \notin disk /\ rpc[s] = Idle /\ s \notin acked
              /\ (ag[s] = "moving" \/ (ag[s] = "recent" /\ (sentTo[s] # {} \/ s + SW + FW < now \/ ReplicaFor(s)[1] = 0)))
              /\ PutCore(s) /\ UNCHANGED <<alive, net, lastT, done>>

\* sendRecent
RecentSend(s) == /\ ag[s] = "recent" /\ rpc[s] = Idle /\ net[s].st = "none" /\ s \notin acked
                 /\ s + SW + FW >= now
                 /\ ReplicaFor(s)[1] # 0
                 /\ sentTo[s] = {}                                  \* a recent sender tries once
                 /\ SendStartCore(s, ReplicaFor(s)[1], FALSE, ReplicaFor(s)[2])
                 /\ net' = [net EXCEPT ![s] = [NoNet EXCEPT !.st = "sent"]]
                 /\ UNCHANGED <<alive, lastT, done>>

\* goSendRecent after a failed / skipped / kept recent send: save, then append to the historic conveyor
RecentToHistoric(s) == /\ ag[s] \in {"recent", "moving"} /\ rpc[s] = Idle /\ net[s].st = "none" /\ s \notin acked
                       /\ ag[s] = "recent" => (sentTo[s] # {} \/ s + SW + FW < now \/ ReplicaFor(s)[1] = 0)
                       /\ s \in disk                               \* saved first (disk cache configured)
                       /\ HistAppendCore(s, TRUE)
                       /\ UNCHANGED <<alive, net, lastT, done>>

ForgetAcked(s) == /\ s \in acked /\ ag[s] \in {"recent", "popped"}
                  /\ ForgetCore(s, IF ag[s] = "recent" THEN "ack-recent" ELSE "ack-historic")
                  /\ UNCHANGED <<alive, net, lastT, done>>

\* popOldestHistoricSecondLocked: oldest first, never a second that is still in the future
HistPop(s) == /\ ag[s] = "histq" /\ s < now
              /\ \A t \in Secs : ag[t] = "histq" => s <= t
              /\ PopCore(s) /\ UNCHANGED <<alive, net, lastT, done>>

\* checkOutOfWindow
HistOutOfWindow(s) == /\ ag[s] = "popped" /\ rpc[s] = Idle /\ now >= HW /\ s < now - HW
                      /\ ForgetCore(s, "out-of-window") /\ UNCHANGED <<alive, net, lastT, done>>

HistSend(s) == /\ ag[s] = "popped" /\ rpc[s] = Idle /\ net[s].st = "none" /\ s \notin acked
               /\ ~(now >= HW /\ s < now - HW)
               /\ ReplicaFor(s)[1] # 0
               /\ SendStartCore(s, ReplicaFor(s)[1], TRUE, ReplicaFor(s)[2])
               /\ net' = [net EXCEPT ![s] = [NoNet EXCEPT !.st = "sent"]]
               /\ UNCHANGED <<alive, lastT, done>>

\* the reply reaches the agent
Deliver(s) == /\ net[s].st = "replied"
              /\ SendResCore(s, FALSE, net[s].discard)
              /\ net' = [net EXCEPT ![s] = NoNet]
              /\ UNCHANGED <<alive, lastT, done>>

\* the connection broke (reset, lost response, aggregator gone): the agent sees an error;
\* whatever the aggregator does with the request afterwards goes nowhere
ConnError(s) == /\ net[s].st \in {"sent", "filed", "waiting", "replied"}
                /\ faults < MaxFaults
                /\ faults' = faults + 1
                /\ net' = [net EXCEPT ![s] = NoNet]
                /\ rpc[s] # Idle
                /\ acked' = acked /\ rpc' = [rpc EXCEPT ![s] = Idle]
                /\ UNCHANGED <<now, ag, disk, sentTo, marked, forgot, up, rows, polls, conv, batch, storedBy, replied, rejected, alive, lastT, done>>

\* the request was sent to a replica with no running instance: the RPC fails by itself
\* (connection refused / FailIfNoConnection / deadline), no fault budget needed
DeadPeer(s) == /\ net[s].st = "sent" /\ rpc[s] # Idle
               /\ ~\E i \in Insts : up[i] /\ RepOf[i] = rpc[s].rep
               /\ net' = [net EXCEPT ![s].st = "broken"]
               /\ UNCHANGED <<vars, alive, lastT, done>>

\* the agent notices a broken connection
Broken(s) == /\ net[s].st = "broken" /\ rpc[s] # Idle
             /\ net' = [net EXCEPT ![s] = NoNet]
             /\ rpc' = [rpc EXCEPT ![s] = Idle]
             /\ UNCHANGED <<now, ag, disk, sentTo, marked, acked, forgot, up, rows, polls, conv, batch, storedBy, replied, rejected, faults, alive, lastT, done>>

--------------------------------------------------------------------------------
(* aggregator instance i *)
Handle(i, s) ==
    /\ up[i] /\ net[s].st = "sent" /\ RepOf[i] = rpc[s].rep
    /\ LET d == Filing(RepOf[i], s, rpc[s].hist, Oldest, Newest, HW) IN
       IF d.kind = "file"
       THEN /\ FileCore(i, s, d.q, d.T)
            /\ net' = [net EXCEPT ![s] = [st |-> "filed", inst |-> i, key |-> <<d.q, d.T>>, discard |-> FALSE]]
       ELSE /\ RejectCore(i, s, d.why, d.discard)
            /\ net' = [net EXCEPT ![s] = [st |-> "replied", inst |-> i, key |-> <<"", 0>>, discard |-> d.discard]]
    /\ UNCHANGED <<alive, lastT, done>>

Register(i, s) ==
    /\ up[i] /\ net[s].st = "filed" /\ net[s].inst = i
    /\ RegCore(i, s, net[s].key[1], net[s].key[2])
    /\ net' = [net EXCEPT ![s].st = "waiting"]
    /\ UNCHANGED <<alive, lastT, done>>

\* sendMu: nobody is between filing and registration for that bucket
Quiet(i, k) == ~\E s \in Secs : net[s].st = "filed" /\ net[s].inst = i /\ net[s].key = k

Busy(i) == Cardinality({id \in DOMAIN batch[i] : batch[i][id].st \in {"sending", "stored"}}) + Cardinality(conv[i])

\* goTicker: the next recent bucket that left the window
Due(i) == up[i] /\ now > (IF lastT[i] = 0 THEN 1 ELSE lastT[i] + 1) + SW
\* tickers of different instances commute (their state is disjoint), so they are explored in one
\* fixed order: a hand-made partial-order reduction
AggTick(i) ==
    /\ up[i]
    /\ \A j \in Insts : Due(j) => RepOf[i] <= RepOf[j]
    /\ LET T == IF lastT[i] = 0 THEN 1 ELSE lastT[i] + 1 IN
       /\ now > T + SW
       /\ Quiet(i, <<"recent", T>>)
       /\ lastT' = [lastT EXCEPT ![i] = T]
       /\ IF T % 3 # RepOf[i] - 1
          THEN /\ Get(rows[i], <<"recent", T>>) = {}       \* ForeignBucketsEmpty (the code panics otherwise)
               /\ UNCHANGED <<vars, alive, net, done>>
          ELSE IF Busy(i) < NIns
               THEN TickHandoffCore(i, T) /\ UNCHANGED <<alive, net, done>>
               ELSE TickFullCore(i, T) /\ UNCHANGED <<alive, net, done>>

\* conveyor full: answer the waiting long polls of a bucket that was dropped by the ticker
ReplyFull(i, s) ==
    /\ up[i] /\ net[s].st = "waiting" /\ net[s].inst = i /\ net[s].key[1] = "recent"
    /\ net[s].key[2] <= lastT[i] /\ net[s].key \notin conv[i]
    /\ ~\E id \in DOMAIN batch[i] : net[s].key \in batch[i][id].b
    /\ ReplyCore(i, s, FALSE, "conveyor-full")
    /\ net' = [net EXCEPT ![s].st = "replied", ![s].discard = FALSE]
    /\ UNCHANGED <<alive, lastT, done>>

HistKeys(i) == {k \in DOMAIN rows[i] : k[1] = "historic"}
\* goInsert: one recent bucket + (maybe) the oldest waiting historic bucket
InsertBegin(i, id) ==
    /\ up[i] /\ id \in 1..MaxId
    /\ \E b \in conv[i] :
       \* willInsertHistoric: with idle historic inserters the oldest waiting (non-stale) historic
       \* bucket always joins the batch
       LET live == {k \in HistKeys(i) : ~(Oldest >= HW /\ k[2] < Oldest - HW)}
           hs == {k \in live : \A k2 \in live : k[2] <= k2[2]}
       IN /\ \A k \in hs : Quiet(i, k)
          /\ InsertBeginCore(i, id, {b} \cup hs)
    /\ done' = [done EXCEPT ![i] = {x \in @ : x[1] # id}]
    /\ UNCHANGED <<alive, net, lastT>>

StorageAccepts(i, id) == /\ up[i] /\ id \in DOMAIN batch[i] /\ batch[i][id].st = "sending"
                         /\ StoredCore(i, id, RowIds(batch[i][id].rows))
                         /\ UNCHANGED <<alive, net, lastT, done>>

InsertOK(i, id) == /\ up[i] /\ id \in DOMAIN batch[i] /\ batch[i][id].st = "stored"
                   /\ InsertEndCore(i, id, TRUE) /\ UNCHANGED <<alive, net, lastT, done>>

InsertFail(i, id) == /\ up[i] /\ id \in DOMAIN batch[i] /\ batch[i][id].st = "sending"
                     /\ faults < MaxFaults
                     /\ InsertEndCore(i, id, FALSE)
                     /\ faults' = faults + 1
                     /\ UNCHANGED <<now, ag, disk, rpc, sentTo, marked, acked, forgot, up, rows, polls, conv, storedBy, replied, rejected, alive, net, lastT, done>>

\* replies of a finished batch, one per long poll
ReplyInsert(i, id, s) ==
    /\ up[i] /\ id \in DOMAIN batch[i] /\ batch[i][id].st \in {"ok", "failed"}
    /\ s \in batch[i][id].polls /\ <<id, s>> \notin done[i]
    /\ ReplyCore(i, s, batch[i][id].st = "ok", "insert")
    /\ done' = [done EXCEPT ![i] = @ \cup {<<id, s>>}]
    /\ net' = IF net[s].st = "waiting" /\ net[s].inst = i /\ net[s].key \in batch[i][id].b
              THEN [net EXCEPT ![s].st = "replied", ![s].discard = (batch[i][id].st = "ok")] ELSE net
    /\ UNCHANGED <<alive, lastT>>

\* goInsert, historic bucket older than the historic window: discard without inserting
ReplyStale(i, s) ==
    /\ up[i] /\ net[s].st = "waiting" /\ net[s].inst = i /\ net[s].key[1] = "historic"
    /\ Oldest >= HW /\ net[s].key[2] < Oldest - HW /\ Quiet(i, net[s].key)
    /\ ReplyCore(i, s, TRUE, "stale")
    /\ net' = [net EXCEPT ![s].st = "replied", ![s].discard = TRUE]
    /\ UNCHANGED <<alive, lastT, done>>

\* the instance dies (kill / restart): buckets, long polls and running inserts are gone
AggCrash(i) ==
    /\ up[i] /\ faults < MaxFaults
    /\ \E j \in Insts : ~up[j] /\ RepOf[j] = RepOf[i] /\ lastT[j] = 0      \* a fresh instance will take over
    /\ up' = [up EXCEPT ![i] = FALSE]
    /\ rows' = [rows EXCEPT ![i] = <<>>] /\ polls' = [polls EXCEPT ![i] = <<>>]
    /\ conv' = [conv EXCEPT ![i] = {}]
    /\ batch' = [batch EXCEPT ![i] = [id \in DOMAIN batch[i] |->
                     [batch[i][id] EXCEPT !.st = IF batch[i][id].st \in {"sending", "stored"} THEN "failed" ELSE batch[i][id].st]]]
    /\ net' = [s \in Secs |-> IF (net[s].inst = i /\ net[s].st \in {"filed", "waiting", "replied"})
                                 \/ (net[s].st = "sent" /\ rpc[s].rep = RepOf[i])
                              THEN [net[s] EXCEPT !.st = "broken"] ELSE net[s]]
    /\ faults' = faults + 1
    /\ UNCHANGED <<now, ag, disk, rpc, sentTo, marked, acked, forgot, storedBy, replied, rejected, alive, lastT, done>>

AggStart(j) ==
    /\ ~up[j] /\ lastT[j] = 0 /\ ~\E i \in Insts : up[i] /\ RepOf[i] = RepOf[j]
    /\ up' = [up EXCEPT ![j] = TRUE]
    /\ lastT' = [lastT EXCEPT ![j] = IF now - SW - 1 > 0 THEN now - SW - 1 ELSE 0]
    /\ UNCHANGED <<now, ag, disk, rpc, sentTo, marked, acked, forgot, rows, polls, conv, batch, storedBy, replied, rejected, faults, alive, net, done>>

--------------------------------------------------------------------------------
Agent == \/ \E r \in Reps : LivenessRecover(r)
         \/ \E s \in Secs : \/ Mark(s) \/ Produce(s, "chan") \/ Produce(s, "hist") \/ SavePut(s) \/ RecentSend(s)
                         \/ RecentToHistoric(s) \/ ForgetAcked(s) \/ HistPop(s) \/ HistOutOfWindow(s)
                         \/ HistSend(s) \/ Deliver(s) \/ DeadPeer(s) \/ Broken(s)
Aggregator == \E i \in Insts : \/ AggTick(i) \/ AggStart(i)
                               \/ \E s \in Secs : Handle(i, s) \/ Register(i, s) \/ ReplyFull(i, s) \/ ReplyStale(i, s)
                               \/ \E id \in 1..MaxId : \/ InsertBegin(i, id) \/ StorageAccepts(i, id) \/ InsertOK(i, id)
                                                       \/ \E s \in Secs : ReplyInsert(i, id, s)
Faults == \/ \E s \in Secs : ConnError(s)
          \/ \E i \in Insts : AggCrash(i) \/ \E id \in 1..MaxId : InsertFail(i, id)
          \/ \E r \in Reps : LivenessFlip(r)

MCNext == Tick \/ Agent \/ Aggregator \/ Faults

(* PROGRESS configuration: bounded liveness as an invariant.  Time is urgent (it advances only
   when neither the agent nor an aggregator can take a step: maximal progress), faults happen
   only during the first FaultsUntil seconds.  If some second could get stuck - nobody retries
   it, a wake-up is lost, a reply is never produced - the clock runs to the horizon with the
   second unsettled and SettledAtHorizon fails. *)
FaultsUntil == SW + FW + 2
UrgentTick == Tick /\ ~ENABLED (Agent \/ Aggregator)
EarlyFaults == now <= FaultsUntil /\ Faults
ProgressNext == UrgentTick \/ Agent \/ Aggregator \/ EarlyFaults
SettledAtHorizon == (now = MaxT /\ ~ENABLED (Agent \/ Aggregator)) => \A s \in Secs : Settled(s)
MCSpec == MCInit /\ [][MCNext]_mcvars

(* fairness for the liveness check: everything but the faults *)
MCFairSpec == MCSpec /\ WF_mcvars(Tick) /\ WF_mcvars(Agent) /\ WF_mcvars(Aggregator)
              /\ \A i \in Insts : WF_mcvars(AggStart(i))


--------------------------------------------------------------------------------
(* design-level properties in addition to Conveyor's invariants *)
\* a second the agent no longer holds anywhere was acknowledged or deliberately dropped
NeverSilentlyLost == \A s \in Secs : ag[s] = "gone" => (s \in acked \/ forgot[s] \in DropReasons)
\* recent buckets of other replicas' seconds stay empty
ForeignBucketsEmpty == \A i \in Insts : \A k \in DOMAIN rows[i] :
                          (k[1] = "recent" /\ rows[i][k] # {}) => k[2] % 3 = RepOf[i] - 1
\* every accepted recent second is filed into a bucket this replica inserts at most two seconds later
FiledWithinTwo == \A i \in Insts : \A k \in DOMAIN rows[i] : k[1] = "recent" => \A s \in rows[i][k] : k[2] - s \in 0..2
\* at most one long-poll answer per request reaches the agent (net is a function of sec): nothing to state
\* eventual delivery: every marked second ends up settled unless the clock horizon cut the run short
EventuallySettled == <>[](now = MaxT \/ \A s \in Secs : Settled(s))
AllSettledAtEnd == (now = MaxT /\ faults = MaxFaults) => TRUE

\* once every second is gone from the agent nothing the property talks about can change any more
StillInteresting == \E s \in Secs : ag[s] # "gone"
MCView == <<now, ag, disk, rpc, sentTo, marked, acked, forgot, up, rows, polls, conv, batch, storedBy, rejected, faults, alive, net, lastT, done>>
================================================================================
