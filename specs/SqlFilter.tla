------------------------------ MODULE SqlFilter ------------------------------
(***************************************************************************)
(* C26, part (b): the where-clause written for a set of tag filters        *)
(* selects exactly the rows matching the requested inclusion and exclusion *)
(* filters.  (Part (a), literals, is SqlLiteral.tla: it guarantees that a  *)
(* string leaf of the syntax tree below is one literal holding the string.)*)
(*                                                                         *)
(* State: the two filter sets of api.queryBuilder (filterIn, filterNotIn:  *)
(* data_model.TagFilters), per tag a list of values and an optional regex; *)
(* kind[tag] says whether the metric declares the tag raw.                 *)
(* Actions = the public operations that build the filters                  *)
(*   Add   - TagFilters.Append / AppendValue / AppendMapped (one value)    *)
(*   SetRe - assignment of TagFilter.Re2 (promql/engine.go)                *)
(* A value (data_model.TagValue) is one of                                 *)
(*   M n   NewTagValueM(n)     mapped only                                 *)
(*   S s   NewTagValueS(s)     string only (unmapped)                      *)
(*   B s n NewTagValue(s, n)   both representations of one value           *)
(*   E     NewTagValue("", 0)  the empty value                             *)
(* A row of the storage table has, per tag, an integer column tagN and a   *)
(* string column stagN, and `base` = it satisfies the conditions that do   *)
(* not come from tag filters (time range, metric, index_type, pre-key).    *)
(*                                                                         *)
(* Where(..) transcribes queryBuilder.writeWhere / writeTagFilter          *)
(* (internal/api/sql_query_series.go) into an abstract syntax tree;        *)
(* Matches(row) is the property, written from the meaning of the values.   *)
(***************************************************************************)
EXTENDS Integers, Sequences, FiniteSets, TLC, Json

CONSTANTS Tags,      \* tag indices, 0 .. n-1
          Ints,      \* tag -> integer column universe of the rows (0 = "no mapped value")
          Strs,      \* tag -> string column universe of the rows ("" = "no string value")
          FInts,     \* integers that may appear in filters (M values)
          FStrs,     \* strings that may appear in filters (S values)
          FBoth,     \* <<string, integer>> pairs that may appear in filters (B values)
          Res,       \* regex identifiers
          ReSet,     \* regex -> the strings of Strs it matches (the regex as the storage evaluates it)
          Kinds,     \* subset of {"plain", "raw"}
          ValKinds,  \* subset of {"M", "S", "B", "E"}
          MaxOps,    \* operations per behaviour
          MaxVals,   \* values per (polarity, tag)
          Break      \* "none" = transcription of the repository; other values break it on purpose

VARIABLES kind, fin, fnot, hist

vars == <<kind, fin, fnot, hist>>
View == <<kind, fin, fnot>>

None == "-"

MkVal(k, s, n) == [k |-> k, s |-> s, n |-> n]
Values == {MkVal("M", "", n) : n \in (IF "M" \in ValKinds THEN FInts ELSE {})}
    \cup {MkVal("S", s, 0) : s \in (IF "S" \in ValKinds THEN FStrs ELSE {})}
    \cup {MkVal("B", x[1], x[2]) : x \in {y \in (IF "B" \in ValKinds THEN FBoth ELSE {}) : ~(y[1] = "" /\ y[2] = 0)}}
    \cup (IF "E" \in ValKinds THEN {MkVal("E", "", 0)} ELSE {})

(* data_model.TagValue predicates *)
HasValue(v) == v.k \in {"S", "B", "E"}
IsMapped(v) == v.k \in {"M", "B", "E"}
IsEmpty(v)  == HasValue(v) /\ IsMapped(v) /\ v.s = "" /\ v.n = 0

EmptyFilter == [vals |-> <<>>, re |-> None]
FilterEmpty(f) == f.vals = <<>> /\ f.re = None          \* TagFilter.Empty()

TagSeq == [i \in 1..Cardinality(Tags) |-> i - 1]

IntRows == {f \in [Tags -> UNION {Ints[g] : g \in Tags}] : \A g \in Tags : f[g] \in Ints[g]}
StrRows == {f \in [Tags -> UNION {Strs[g] : g \in Tags}] : \A g \in Tags : f[g] \in Strs[g]}
TrueRows == [base : {TRUE}, t : IntRows, s : StrRows]
(* rows with the same column values in every tag (enough for per-tag statements) *)
AllInts == UNION {Ints[g] : g \in Tags}
AllStrs == UNION {Strs[g] : g \in Tags}
FlatRows == {[base |-> TRUE, t |-> [g \in Tags |-> n], s |-> [g \in Tags |-> z]] : n \in AllInts, z \in AllStrs}
(* a row that fails a condition outside the tag filters is never selected whatever its tags are: the
   model keeps only the flat ones of these (the harness evaluates all of them) *)
Rows == TrueRows \cup {[r EXCEPT !.base = FALSE] : r \in FlatRows}

---------------------------------------------------------------------------
(* THE PROPERTY.  What it means for a row to carry a requested value. *)
Raw(tag) == kind[tag] = "raw"      \* raw tags carry integers only; the string column is not consulted

Is(r, tag, v) ==
  CASE v.k = "M" -> r.t[tag] = v.n
    [] v.k = "S" -> ~Raw(tag) /\ r.s[tag] = v.s
    [] v.k = "B" -> r.t[tag] = v.n \/ (~Raw(tag) /\ r.s[tag] = v.s)
    [] v.k = "E" -> r.t[tag] = 0 /\ (Raw(tag) \/ r.s[tag] = "")

ReIs(r, tag, re) == ~Raw(tag) /\ r.s[tag] \in ReSet[re]

Selected(f, r, tag) ==
  \/ \E i \in DOMAIN f.vals : Is(r, tag, f.vals[i])
  \/ f.re # None /\ ReIs(r, tag, f.re)

Matches(r) ==
  /\ r.base
  /\ \A tag \in Tags : FilterEmpty(fin[tag]) \/ Selected(fin[tag], r, tag)
  /\ \A tag \in Tags : ~Selected(fnot[tag], r, tag)

(* Rows the property speaks about: a raw tag holds numbers, rows with a string value in the column
   of a raw tag do not exist in the storage; whether the code consults that column or not is not
   fixed by the property. *)
RowOK(r) == \A tag \in Tags : Raw(tag) => r.s[tag] = ""

(* Precondition kept by the only producer of regexes (promql/engine.go: the values added
   next to Re2 are those the regex matches): the regex covers every string value. *)
Covered(f) == IF f.re = None THEN TRUE ELSE \A i \in DOMAIN f.vals : HasValue(f.vals[i]) /\ ~IsEmpty(f.vals[i]) => f.vals[i].s \in ReSet[f.re]

---------------------------------------------------------------------------
(* THE MECHANISM.  Syntax tree of the written where-clause. *)
Node(op, tag, args, ints, strs, re, b) == [op |-> op, tag |-> tag, args |-> args, ints |-> ints, strs |-> strs, re |-> re, b |-> b]
NAnd(args)        == Node("and", 0, args, {}, {}, None, FALSE)
NOr(args)         == Node("or", 0, args, {}, {}, None, FALSE)
NNot(a)           == Node("not", 0, <<a>>, {}, {}, None, FALSE)
NConst(b)         == Node("const", 0, <<>>, {}, {}, None, b)         \* 0=0 / 0!=0
NBase             == Node("base", 0, <<>>, {}, {}, None, FALSE)      \* time, metric, index_type, pre-key
NIntIn(tag, ns)   == Node("iin", tag, <<>>, ns, {}, None, FALSE)     \* tagN IN (..)
NIntNotIn(tag, ns) == Node("inotin", tag, <<>>, ns, {}, None, FALSE) \* tagN NOT IN (..)
NStrIn(tag, ss)   == Node("sin", tag, <<>>, {}, ss, None, FALSE)     \* stagN IN ('..')
NStrNotIn(tag, ss) == Node("snotin", tag, <<>>, {}, ss, None, FALSE)
NMatch(tag, re)   == Node("match", tag, <<>>, {}, {}, re, FALSE)     \* match(stagN,'re')
NInt0(tag)        == Node("ieq0", tag, <<>>, {}, {}, None, FALSE)    \* tagN=0
NStrEmpty(tag)    == Node("seq0", tag, <<>>, {}, {}, None, FALSE)    \* stagN=''

RECURSIVE Eval(_, _)
Eval(e, r) ==
  CASE e.op = "and"    -> \A i \in DOMAIN e.args : Eval(e.args[i], r)
    [] e.op = "or"     -> \E i \in DOMAIN e.args : Eval(e.args[i], r)
    [] e.op = "not"    -> ~Eval(e.args[1], r)
    [] e.op = "const"  -> e.b
    [] e.op = "base"   -> r.base
    [] e.op = "iin"    -> r.t[e.tag] \in e.ints
    [] e.op = "inotin" -> r.t[e.tag] \notin e.ints
    [] e.op = "sin"    -> r.s[e.tag] \in e.strs
    [] e.op = "snotin" -> r.s[e.tag] \notin e.strs
    [] e.op = "match"  -> r.s[e.tag] \in ReSet[e.re]
    [] e.op = "ieq0"   -> r.t[e.tag] = 0
    [] e.op = "seq0"   -> r.s[e.tag] = ""

(* writeTagFilter, one iteration of `for tagX, filter := range f.Tags` for a non-empty filter.
   in = (op == filterOperatorIn): predicate " IN " joined by " OR ", else " NOT IN " joined by " AND ". *)
TagCond(tag, f, in) ==
  LET nonEmpty == SelectSeq(f.vals, LAMBDA v : ~IsEmpty(v))
      mapped   == {nonEmpty[i].n : i \in {j \in DOMAIN nonEmpty : IsMapped(nonEmpty[j])}}
      strs     == {nonEmpty[i].s : i \in {j \in DOMAIN nonEmpty : HasValue(nonEmpty[j])}}
      hasEmpty == \E i \in DOMAIN f.vals : IsEmpty(f.vals[i])
      raw      == Raw(tag)
      \* "mapped": the integer list, or a constant when there is none
      p1 == IF mapped # {}
            THEN <<IF in THEN NIntIn(tag, mapped) ELSE NIntNotIn(tag, mapped)>>
            ELSE <<NConst(IF Break = "const_flipped" THEN in ELSE ~in)>>
      \* "not mapped": regex wins over the string list; nothing for raw tags
      p2 == IF raw /\ Break # "raw_consults_str" THEN <<>>
            ELSE IF f.re # None THEN <<IF in \/ Break = "not_match_missing" THEN NMatch(tag, f.re) ELSE NNot(NMatch(tag, f.re))>>
            ELSE IF strs # {} THEN <<IF in THEN NStrIn(tag, strs) ELSE NStrNotIn(tag, strs)>>
            ELSE <<>>
      \* "empty"
      e0 == IF raw \/ Break = "empty_mapped_only" THEN NInt0(tag) ELSE NAnd(<<NInt0(tag), NStrEmpty(tag)>>)
      p3 == IF hasEmpty THEN <<IF in THEN e0 ELSE NNot(e0)>> ELSE <<>>
      parts == p1 \o p2 \o p3
  IN IF in \/ Break = "notin_or" THEN NOr(parts) ELSE NAnd(parts)

CondsOf(F, in) ==
  LET present == SelectSeq(TagSeq, LAMBDA tag : ~FilterEmpty(F[tag]))
  IN [i \in DOMAIN present |-> TagCond(present[i], F[present[i]], in)]

(* writeWhere: time AND key prefix AND metric, then every inclusion condition, then every
   exclusion condition, all joined by AND *)
Where == LET conds == <<NBase>> \o CondsOf(fin, TRUE) \o CondsOf(fnot, FALSE)
         IN IF Break = "or_between_tags" /\ Len(conds) > 2
            THEN NAnd(<<NBase, NOr(SubSeq(conds, 2, Len(conds)))>>) ELSE NAnd(conds)

---------------------------------------------------------------------------
(* mechanism implies property *)
WhereSelectsExactly == LET w == Where IN \A r \in Rows : RowOK(r) => Eval(w, r) = Matches(r)

(* the two polarities are complements of each other, tag by tag (De Morgan) *)
PolaritiesComplement ==
  \A tag \in Tags :
     ~FilterEmpty(fin[tag]) =>
        LET pos == TagCond(tag, fin[tag], TRUE)
            neg == TagCond(tag, fin[tag], FALSE)
        IN \A r \in FlatRows : Eval(neg, r) = ~Eval(pos, r)

(* shape of the state, incl. the precondition Covered kept by Add / SetRe *)
TypeOK ==
  /\ kind \in [Tags -> Kinds]
  /\ \A tag \in Tags : Len(fin[tag].vals) <= MaxVals /\ Len(fnot[tag].vals) <= MaxVals
  /\ \A tag \in Tags : Covered(fin[tag]) /\ Covered(fnot[tag])

---------------------------------------------------------------------------
Init ==
  /\ kind \in [Tags -> Kinds]
  /\ fin = [tag \in Tags |-> EmptyFilter]
  /\ fnot = [tag \in Tags |-> EmptyFilter]
  /\ hist = <<>>

AddCore(in, tag, v) ==
  LET F == IF in THEN fin ELSE fnot
      g == [F[tag] EXCEPT !.vals = Append(@, v)] IN
  /\ Len(F[tag].vals) < MaxVals
  /\ Covered(g)
  /\ IF in THEN fin' = [fin EXCEPT ![tag] = g] /\ UNCHANGED fnot
           ELSE fnot' = [fnot EXCEPT ![tag] = g] /\ UNCHANGED fin
  /\ UNCHANGED kind

SetReCore(in, tag, re) ==
  LET F == IF in THEN fin ELSE fnot
      g == [F[tag] EXCEPT !.re = re] IN
  /\ F[tag].re = None
  /\ Covered(g)
  /\ IF in THEN fin' = [fin EXCEPT ![tag] = g] /\ UNCHANGED fnot
           ELSE fnot' = [fnot EXCEPT ![tag] = g] /\ UNCHANGED fin
  /\ UNCHANGED kind

Add(in, tag, v) == AddCore(in, tag, v) /\ hist' = Append(hist, [a |-> "Add", in |-> in, tag |-> tag, k |-> v.k, s |-> v.s, n |-> v.n])
SetRe(in, tag, re) == SetReCore(in, tag, re) /\ hist' = Append(hist, [a |-> "SetRe", in |-> in, tag |-> tag, re |-> re])

Next ==
  /\ Len(hist) < MaxOps
  /\ \E in \in BOOLEAN, tag \in Tags :
       \/ \E v \in Values : Add(in, tag, v)
       \/ \E re \in Res : SetRe(in, tag, re)

Spec == Init /\ [][Next]_vars

---------------------------------------------------------------------------
(* Export for the binding.  A row is named by its index in a fixed mixed-radix order that the
   harness reproduces: digits (base, then per tag: integer, string), most significant first. *)
CONSTANTS IntIdx, StrIdx     \* position of a value in its universe, 0-based
RowIdx(r) ==
  LET RECURSIVE Acc(_, _)
      Acc(i, a) == IF i > Len(TagSeq) THEN a
                   ELSE Acc(i + 1, (a * Cardinality(Ints[TagSeq[i]]) + IntIdx[r.t[TagSeq[i]]]) * Cardinality(Strs[TagSeq[i]]) + StrIdx[r.s[TagSeq[i]]])
  IN Acc(1, IF r.base THEN 1 ELSE 0)

Want == {RowIdx(r) : r \in {x \in Rows : RowOK(x) /\ Matches(x)}}

Export ==
  LET n == Len(hist')
      last == [a |-> "Check", kind |-> [i \in DOMAIN TagSeq |-> kind'[TagSeq[i]]], want |-> Want', nrows |-> 2 * Cardinality(TrueRows), res |-> [x \in Res |-> ReSet[x]],
               radix |-> [i \in DOMAIN TagSeq |-> <<Cardinality(Ints[TagSeq[i]]), Cardinality(Strs[TagSeq[i]])>>]]
  IN PrintT(<<"BEH", ToJson(Append(hist', last))>>)
=============================================================================
