INIT Init
NEXT SimNext
CONSTANTS
  QLen = 128
  FutureSlots = 3
  Spread = 120
  NShards = 2
  Metrics <- RMetrics
  TimingShard = 1
  T0 <- R0
  Lags0 = {2, 2, 3, 5, 6, 40, 125}
  Fulls0 = {FALSE, TRUE}
  Ticks <- RTicks
  TsOffs <- ROffs
  Kinds = {"metric", "api"}
  SpreadOf <- AllSpread
  Variant = "code"
  MaxOps = 46
  MaxEvents = 30
ACTION_CONSTRAINT ExportEnd
CHECK_DEADLOCK FALSE
