INIT Init
NEXT Next
CONSTANTS
  Acqs <- A3
  W <- W3
  InitSizes = {2, 3}
  Sizes = {1, 3}
  MaxSet = 1
  Forces = {2}
  MaxForce = 1
  MaxOps = 0
  Bug = "none"
  KeepHist = TRUE
VIEW View
ACTION_CONSTRAINT Export
INVARIANTS TypeOK AdmitWithinSize FIFO NoLeak NoLostWakeup OutcomeOK
CHECK_DEADLOCK FALSE
