SPECIFICATION FairSpec
CONSTANTS
  BufLen = 10
  WaitPct = 20
  MaxPkts = 2
  MaxErrs = 1
  MaxSpur = 1
  PktLens <- Len1
  TimeoutSignals = TRUE
  SkipOnErr = TRUE
  ReportRetry = TRUE
  ReportClaim = "swap"
  DeadlineArmed = TRUE
  AllowClose = TRUE
  AllowRecon = TRUE
  RecordHist = FALSE
  MaxHist = 0
INVARIANTS NoStuck
PROPERTIES EventuallyWritten EventuallyReported CloseTerminates
CHECK_DEADLOCK FALSE
