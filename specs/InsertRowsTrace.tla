---------------------------- MODULE InsertRowsTrace ----------------------------
(* Binding of InsertRows to the real aggregator (harness
   internal/aggregator/verif_c03_insert_test.go).  The driver feeds contributions (TLC-exported
   behaviours and seeded random ones) through the real MergeWithTLMultiItem into real
   aggregatorBucket shards, lets the real rowDataMarshalAppendPositions produce the insert body
   and decodes it with the repository's own column decoders.  It logs what was contributed
   (Contrib) and what the decoded body holds (Insert); this module rebuilds the ghost list of
   contributions, takes the body from the trace and evaluates THE PROPERTY of InsertRows
   (InsertNoDup, InsertKeys, InsertMerged) on the real rows.  Runs are concatenated, each
   starting with Reset.  BigUniq events carry the numbers of a unique sketch too large to log
   (distinct hashes contributed, how many of them are divisible by 2^k, decoded skip degree /
   item count / Size()).                                                                     *)
EXTENDS InsertRows
VARIABLES l, bts, chk
Trace == ndJsonDeserialize("trace.ndjson")
ASSUME TLCSet(7, 0)

tvars == <<vars, l, bts, chk>>
IsEvent(e) == l <= Len(Trace) /\ Trace[l].ev = e /\ l' = l + 1
ToSet(s) == {s[i] : i \in DOMAIN s}

RECURSIVE BagOfPairs(_, _)
BagOfPairs(s, n) == IF n = 0 THEN EmptyBag ELSE BagUnion(BagOfPairs(s, n - 1), (s[n][1] :> s[n][2]))

WOf(p) == [cnt |-> p.cnt, set |-> p.set, min |-> p.min, max |-> p.max, sum |-> p.sum, sq |-> p.sq,
           minH |-> p.minH, maxH |-> p.maxH, cntH |-> p.cntH, uniq |-> ToSet(p.uniq),
           cent |-> BagOfPairs(p.cent, Len(p.cent))]
PartsOf(ps) == [top \in {ps[i].top : i \in DOMAIN ps} |-> WOf(ps[CHOOSE j \in DOMAIN ps : ps[j].top = top])]
RowOfTrace(r) == [key |-> [t |-> r.t, m |-> r.kid, tag |-> 0], top |-> r.top,
                  cnt |-> r.cnt, maxcnt |-> r.maxcnt, min |-> r.min, max |-> r.max, sum |-> r.sum, sq |-> r.sq,
                  cent |-> BagOfPairs(r.cent, Len(r.cent)),
                  sk |-> [skip |-> r.uskip, items |-> ToSet(r.uitems)],
                  ucnt |-> r.ucnt, usize |-> r.usize,
                  minH |-> r.minH, maxH |-> r.maxH, cntH |-> r.cntH]

TrInit == /\ buckets = <<>> /\ contribs = <<>> /\ body = <<>> /\ done = FALSE /\ hist = <<>>
          /\ l = 1 /\ bts = <<>> /\ chk = TRUE

TrReset == /\ IsEvent("Reset")
           /\ bts' = Trace[l].bts
           /\ contribs' = <<>> /\ body' = <<>> /\ done' = FALSE /\ chk' = TRUE
           /\ UNCHANGED <<buckets, hist>>

TrContrib == /\ IsEvent("Contrib") /\ ~done
             /\ LET e == Trace[l]
                    k == [t |-> ResolveTime(e.t, bts[e.b]), m |-> e.kid, tag |-> 0]
                IN contribs' = Append(contribs, [key |-> k, agent |-> e.agent, parts |-> PartsOf(e.parts)])
             /\ UNCHANGED <<buckets, body, done, hist, bts, chk>>

TrInsert == /\ IsEvent("Insert") /\ ~done
            /\ body' = [i \in DOMAIN Trace[l].rows |-> RowOfTrace(Trace[l].rows[i])]
            /\ done' = TRUE
            /\ UNCHANGED <<buckets, contribs, hist, bts, chk>>

(* a sketch too large to log: n distinct hashes were contributed, div[k+1] of them are divisible
   by 2^k; the decoded state has skip degree `skip`, `count` items and reports Size() = size *)
BigUniqOK(e) == /\ e.same                                             \* decoded state = state written (compared by the driver)
                /\ e.skip + 1 \in DOMAIN e.div /\ e.count = e.div[e.skip + 1]   \* exactly the hashes that survive the thinning
                /\ e.count <= e.limit
                /\ (e.n < e.limit => e.skip = 0 /\ e.size = e.n)       \* exact below the exact-mode limit
TrBigUniq == /\ IsEvent("BigUniq")
             /\ chk' = BigUniqOK(Trace[l])
             /\ UNCHANGED <<vars, bts>>

TrNext == TrReset \/ TrContrib \/ TrInsert \/ TrBigUniq
TraceSpec == TrInit /\ [][TrNext]_tvars

BigUniqConforms == chk

HighWater == TLCSet(7, IF l > TLCGet(7) THEN l ELSE TLCGet(7))
TraceAccepted == IF TLCGet(7) = Len(Trace) + 1 THEN TRUE
                 ELSE PrintT(<<"TRACE_REJECTED_AT_LINE", TLCGet(7)>>) /\ FALSE
TraceView == <<contribs, body, done, l, chk>>
===============================================================================
