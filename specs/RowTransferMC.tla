---------------------------- MODULE RowTransferMC ----------------------------
(* Bounded instance of RowTransfer: the event alphabet (30 shapes), key layouts and the
   real constants of the code (BelieveTimestampWindow = 93600). *)
EXTENDS RowTransfer, RowShapes

MCShapes == AllShapes

(* a smaller alphabet for the quick exhaustive run: one of each interesting class *)
MCShapesSmall == {e \in MCShapes : e.id \in {1, 3, 6, 7, 8, 9, 10, 11, 13, 15, 16, 18, 22, 23, 24, 29}}

MCBucket == 1700000000
MCWindow == 93600
K(id, metric, tags, stags, ts) == [id |-> id, metric |-> metric, tags |-> tags, stags |-> stags, ts |-> ts]
MCKeys ==
    {K(1, 7, (0 :> 5 @@ 1 :> 6), <<>>, MCBucket),
     K(2, 7, <<>>, <<>>, MCBucket - 1),
     K(3, 8, (3 :> 9), (1 :> "x"), MCBucket - MCWindow),
     K(4, 8, (0 :> 1 @@ 46 :> 4), (2 :> "y" @@ 46 :> "zz"), MCBucket - MCWindow - 1),
     K(5, 9, (15 :> -3), <<>>, MCBucket + 1),
     K(6, -999, (1 :> 2), (0 :> "env"), MCBucket - 3600)}
MCKeys1 == {k \in MCKeys : k.id = 3}

(* tables for the conformance driver *)
KeyTable == {[id |-> k.id, metric |-> k.metric, ts |-> k.ts,
              tags |-> {<<i, k.tags[i]>> : i \in DOMAIN k.tags},
              stags |-> {<<i, k.stags[i]>> : i \in DOMAIN k.stags}] : k \in MCKeys}
PrintTables == /\ PrintT(<<"SHAPES", ToJson(ShapeTable)>>)
               /\ PrintT(<<"KEYS", ToJson(KeyTable)>>)
(* the count/totalCount scaling of every shape is exact in units of 1/DEN *)
ASSUME ShapesAreExact == \A e \in AllShapes : ShapeExact(e)
===============================================================================
