----------------------------- MODULE MetaDBTrace -----------------------------
(* I->S for C15 and C19: validates what the real DBV2 answered (harness
   internal/metadata/verif_c15c16c19_db_test.go) against the *properties* of MetaDB, not
   against its mechanism.  The inputs of every run are a behaviour exported by TLC or a
   seeded random script; the replies (accepted / refused, id, version, namespace; get /
   created / flood-limit, id) and the tables read back after every step (journal since 0,
   mapping table) are taken from the trace.  The specification reconstructs the abstract
   state from the accepted requests alone, keeps the ghost state of MetaDB (issued versions,
   ids ever used, per-metric allowance), and evaluates the property invariants and action
   properties of MetaDB in every step; a table read back that differs from the
   reconstructed state ends the trace (rejected).  Anything the properties do not fix
   (which id or version number is chosen, how the budget is accounted internally, when
   within the bound a request is refused) is accepted as the code decided it.

   Runs are concatenated; each starts with a Begin event carrying the clock origin.  One
   TLC run validates the runs that share the budget constants.                          *)
EXTENDS MetaDB
VARIABLE l
Trace == ndJsonDeserialize("trace.ndjson")
ASSUME TLCSet(7, 0)

tvars == <<vars, l>>
TraceView == <<db, clock, issued, used, credit, exhausted, l>>
TraceNames == {"", "a", "b", "c", "n", "o", "n:a", "n:b", "n:c", "o:a"}
TraceNsOf == [x \in TraceNames |-> IF x \in {"n:a", "n:b", "n:c"} THEN "n" ELSE IF x = "o:a" THEN "o" ELSE ""]
TraceMetrics == <<"m1", "m2", "m3">>

E == Trace[l]
IsEvent(e) == l <= Len(Trace) /\ Trace[l].ev = e /\ l' = l + 1
Has(f) == f \in DOMAIN E
ToSet(s) == {s[i] : i \in DOMAIN s}
(* what the code served after the step must be the reconstructed state *)
ReadsAgree == /\ (Has("j") => E.j = Journal(db', 0))
              /\ (Has("m") => E.m = MapsAll(db'))
Same == UNCHANGED <<lastCreated, binlog, snaps>>
Rec(r) == hist' = << r @@ [n |-> l] >>

TrInit == Init /\ l = 1

TrBegin == /\ IsEvent("Begin")
           /\ db' = EmptyDB /\ clock' = E.clock0
           /\ issued' = {} /\ used' = {} /\ credit' = [m \in Metrics |-> MaxBudget] /\ exhausted' = FALSE
           /\ nops' = 0 /\ Same /\ Rec([a |-> "Begin"])

(* an accepted request takes effect exactly as requested, under the id / version / namespace
   the code replied; a refused one changes nothing *)
Accept(d, rq, rid, rver, rns) ==
    LET typ == IF rid \in DOMAIN d.ent THEN d.ent[rid].typ ELSE rq.typ
    IN [d EXCEPT !.ent = Upd(@, rid, [typ |-> typ, name |-> rq.name, ns |-> rns, ver |-> rver, data |-> rq.data,
                                      del |-> rq.del, ut |-> clock])]
(* an edit that cannot be refused for any reason but its version *)
Plain(rq) == /\ ~rq.create /\ rq.id \in DOMAIN db.ent /\ db.ent[rq.id].ver = rq.old
             /\ db.ent[rq.id].name = rq.name /\ db.ent[rq.id].typ = rq.typ

TrSave == /\ IsEvent("Save")
          /\ db' = IF E.ok THEN Accept(db, E.rq, E.rid, E.rver, E.rns) ELSE db
          /\ issued' = IF E.ok THEN issued \cup {E.rver} ELSE issued
          /\ ReadsAgree
          /\ UNCHANGED <<clock, used, credit, exhausted, nops>> /\ Same
          /\ Rec([a |-> "Save", rq |-> E.rq, ok |-> E.ok, created |-> (E.ok /\ E.rid \notin DOMAIN db.ent),
                  rid |-> E.rid, rver |-> E.rver, rns |-> E.rns])

TrRace == /\ IsEvent("Race")
          /\ LET first  == IF E.ok1 /\ (~E.ok2 \/ E.ver1 < E.ver2) THEN 1 ELSE 2
                 d1 == IF first = 1 THEN (IF E.ok1 THEN Accept(db, E.q1, E.id1, E.ver1, E.ns1) ELSE db)
                                    ELSE (IF E.ok2 THEN Accept(db, E.q2, E.id2, E.ver2, E.ns2) ELSE db)
                 d2 == IF first = 1 THEN (IF E.ok2 THEN Accept(d1, E.q2, E.id2, E.ver2, E.ns2) ELSE d1)
                                    ELSE (IF E.ok1 THEN Accept(d1, E.q1, E.id1, E.ver1, E.ns1) ELSE d1)
             IN db' = d2
          /\ issued' = issued \cup (IF E.ok1 THEN {E.ver1} ELSE {}) \cup (IF E.ok2 THEN {E.ver2} ELSE {})
          /\ ReadsAgree
          /\ UNCHANGED <<clock, used, credit, exhausted, nops>> /\ Same
          /\ Rec([a |-> "Race", q1 |-> E.q1, q2 |-> E.q2, ok1 |-> E.ok1, ok2 |-> E.ok2, ver1 |-> E.ver1, ver2 |-> E.ver2,
                  alone1 |-> Plain(E.q1), alone2 |-> Plain(E.q2)])

TrGoc == /\ IsEvent("Goc")
         /\ LET made == E.kind = "created" IN
            /\ db' = IF made THEN [db EXCEPT !.maps = @ \cup {[k |-> E.key, id |-> E.rid]}, !.mseq = Max2(@, E.rid)] ELSE db
            /\ used' = IF made THEN used \cup {E.rid} ELSE used
            /\ credit' = IF ~made THEN credit
                         ELSE IF exhausted THEN [credit EXCEPT ![E.metric] = @ - 1]
                         ELSE [credit EXCEPT ![E.metric] = Max2(@, MaxBudget)]
            /\ exhausted' = (exhausted \/ (made /\ E.rid > GlobalBudget))
         /\ ReadsAgree
         /\ UNCHANGED <<clock, issued, nops>> /\ Same
         /\ Rec([a |-> "Goc", metric |-> E.metric, key |-> E.key, kind |-> E.kind, rid |-> E.rid])

TrPut == /\ IsEvent("Put")
         /\ db' = IF E.ok THEN PutAll(db, E.ks, E.vs) ELSE db
         /\ used' = IF E.ok THEN used \cup ToSet(E.vs) ELSE used
         /\ ReadsAgree
         /\ UNCHANGED <<clock, issued, credit, exhausted, nops>> /\ Same
         /\ Rec([a |-> "Put", ks |-> E.ks, vs |-> E.vs])

TrDel == /\ IsEvent("Del")
         /\ db' = IF E.ok THEN [db EXCEPT !.maps = {p \in @ : p.id \notin ToSet(E.ids)}] ELSE db
         /\ ReadsAgree
         /\ UNCHANGED <<clock, issued, used, credit, exhausted, nops>> /\ Same
         /\ Rec([a |-> "Del", ids |-> E.ids])

TrRFlood == /\ IsEvent("RFlood")
            /\ credit' = IF E.ok THEN [credit EXCEPT ![E.metric] = ResetFloodF(EmptyDB, 0, E.metric, E.limit).after] ELSE credit
            /\ db' = db /\ ReadsAgree
            /\ UNCHANGED <<clock, issued, used, exhausted, nops>> /\ Same
            /\ Rec([a |-> "Reset", metric |-> E.metric, limit |-> E.limit])

TrTick == /\ IsEvent("Tick")
          /\ clock' = clock + E.d
          /\ credit' = [m \in Metrics |-> credit[m] + BudgetBonus * (((clock + E.d) \div StepSec) - (clock \div StepSec))]
          /\ UNCHANGED <<db, issued, used, exhausted, nops>> /\ Same
          /\ Rec([a |-> "Tick", d |-> E.d])

(* reopen and bootstrap change nothing the two properties talk about; the tables read back
   afterwards must still be the same *)
TrOther == /\ (IsEvent("Snap") \/ IsEvent("Boot"))
           /\ db' = db /\ ReadsAgree
           /\ UNCHANGED <<clock, issued, used, credit, exhausted, nops>> /\ Same
           /\ Rec([a |-> E.ev])

TrNext == TrBegin \/ TrSave \/ TrRace \/ TrGoc \/ TrPut \/ TrDel \/ TrRFlood \/ TrTick \/ TrOther
TraceSpec == TrInit /\ [][TrNext]_tvars

(* the properties of MetaDB; a Begin step starts a new database and is exempt *)
B == IsOp("Begin")
TEditNeedsCurrentVersion == [][B \/ EditNeedsCurrentVersionStep]_vars
TEditHitsItsEntity       == [][B \/ (IsSave /\ Op.ok /\ ~Op.created => Op.rid = Op.rq.id)]_vars
TVersionsIncrease        == [][B \/ VersionsIncreaseStep]_vars
TRaceOneWinner           == [][B \/ RaceOneWinnerStep]_vars
TNamespaceNeverRenamed   == [][B \/ NamespaceNeverRenamedStep]_vars
TMappingStable           == [][B \/ MappingStableStep]_vars
TGetOrCreateIdempotent   == [][B \/ GetOrCreateIdempotentStep]_vars
TDeadIdsNeverReissued    == [][B \/ DeadIdsNeverReissuedStep]_vars

HighWater == TLCSet(7, IF l > TLCGet(7) THEN l ELSE TLCGet(7))
TraceAccepted == IF TLCGet(7) = Len(Trace) + 1 THEN TRUE
                 ELSE PrintT(<<"TRACE_REJECTED_AT_LINE", TLCGet(7)>>) /\ FALSE
===============================================================================
