------------------------------- MODULE RRQueue -------------------------------
(* Per-user round-robin admission queue (internal/util/queue/round_robin_queue.go), property C29.

   Two layers in one module:

   * the ABSTRACT layer: record `s` (active, cap, per-user FIFO of waiting queries, per-query
     status, fairness ghost, flags) and pure state transformers  AcqF / CancelF / RetF /
     RelIntentF / ReleaseF / AdjustF.  They take the queue's *decisions* (fast path or not, which
     queries were woken, what the cancel path saw) as arguments, never enforce the property and
     only record breaches in `s.bad`.  The property is stated on this layer (section PROPERTY).

   * the MECHANISM as coded (Code* operators): addUserQueryLocked / nextQueryLocked /
     removeQueryLocked with the LLRB of users keyed by a global order counter, transcribed.
     One action per critical section of the code:
        Acquire(q)     q.mx section 1 of Queue.Acquire (addUserQueryLocked + nextQueryLocked)
        CancelWake(q)  the select in Acquire takes the ctx.Done() branch (no lock held)
        CancelCS(q)    q.mx section 2 of Queue.Acquire (isClosed / removeQueryLocked) and return
        Wake(q)        the select takes the <-qry.ch branch, Acquire returns nil
        Release(q)     Queue.Release
        Adjust(n)      Queue.AdjustCapacity
     The model checker feeds the mechanism's decisions into the abstract layer and checks the
     property for all interleavings.  RRQueueTrace feeds the decisions of the real code
     (recorded under q.mx) into the same abstract layer.

   Known, deliberate oddities of the code that are transcribed:
     - a user that already waits always enqueues behind its own queries (no fast path);
     - incOrder() is consumed on the fast path too;
     - Bug = "eq": the pinned revision tested  activeQuery == maxActiveQuery  (repaired: >=);
     - Bug = "noadj": the pinned revision's AdjustCapacity only stored the value (repaired:
       grants while capacity allows).                                                       *)
EXTENDS Integers, Sequences, FiniteSets, TLC, Json

CONSTANTS Users,      \* user tokens
          NQ,         \* queries per user: query = <<user, 1..NQ>>
          InitCaps,   \* initial capacities
          Caps,       \* values AdjustCapacity may set
          MaxAdjust,  \* bound on the number of capacity changes
          MaxOps,     \* bound on behaviour length (behaviour export only; 0 = unbounded)
          Bug,        \* "none" | "eq" | "noadj" | "same" | "lifo"  (defective variants, for vacuity checks)
          KeepHist,   \* TRUE: maintain hist (behaviour export); FALSE for liveness
          Recycle,    \* TRUE: finished queries can be issued again (liveness under steady load)
          Normalize   \* TRUE: order numbers are kept as ranks (finite state space with Recycle)

VARIABLES s,       \* abstract state (see Init)
          ord,     \* mechanism: waiting user -> order key in waitingUsersByPriority
          gorder,  \* mechanism: globalOrder
          nadj,    \* number of AdjustCapacity calls so far
          hist

vars == <<s, ord, gorder, nadj, hist>>
View == <<s, ord, gorder, nadj>>

Queries == Users \X (1..NQ)

Del(f, ks)   == [x \in DOMAIN f \ ks |-> f[x]]
Upd(f, k, v) == [x \in DOMAIN f \cup {k} |-> IF x = k THEN v ELSE f[x]]
RemoveQ(seq, q) == SelectSeq(seq, LAMBDA x : x # q)
Pos(seq, q)  == CHOOSE i \in 1..Len(seq) : seq[i] = q
ToSet(seq)   == {seq[i] : i \in 1..Len(seq)}

-------------------------------------------------------------------------------
(* ABSTRACT LAYER *)

S0(c) == [active |-> 0,      \* activeQuery
          cap    |-> c,      \* maxActiveQuery
          wq     |-> <<>>,   \* waiting user -> sequence of its waiting queries (arrival order)
          st     |-> <<>>,   \* query -> "wait" | "cwait" | "granted" | "cgranted" | "held" |
                             \*          "cancelled" | "released"   (absent = not issued)
          since  |-> <<>>,   \* fairness ghost: user -> users that waited when it was last granted
                             \*                 and have waited, unserved, ever since
          nrel   |-> 0,      \* releases announced by callers but not yet executed
          bad    |-> {}]     \* breaches recorded by the transformers

St(x, q)       == IF q \in DOMAIN x.st THEN x.st[q] ELSE "new"
SetSt(x, q, v) == [x EXCEPT !.st = Upd(x.st, q, v)]
Flag(x, c, f)  == IF c THEN [x EXCEPT !.bad = @ \cup {f}] ELSE x
IsWaiting(x, q) == St(x, q) \in {"wait", "cwait"}
IsGranted(x, q) == St(x, q) \in {"granted", "cgranted"}
Holders(x)     == {q \in DOMAIN x.st : x.st[q] \in {"granted", "cgranted", "held"}}

(* user u is no longer "still waiting since ..." for anybody *)
Unwait(x, u) == [x EXCEPT !.since = [w \in DOMAIN x.since |-> x.since[w] \ {u}]]

(* one unit of capacity is handed to user u (fast path or wake-up) *)
GrantGhost(x, u) ==
    LET x1 == Flag(x,  x.active >= x.cap, "over")
        x2 == Flag(x1, u \in DOMAIN x.since /\ x.since[u] # {}, "unfair")
        x3 == Unwait(x2, u)
    IN [x3 EXCEPT !.since = Upd(x3.since, u, DOMAIN x.wq \ {u}), !.active = @ + 1]

TakeFromWq(x, q) ==
    LET u == q[1]  rest == RemoveQ(x.wq[u], q)
    IN IF rest = <<>> THEN [x EXCEPT !.wq = Del(@, {u})] ELSE [x EXCEPT !.wq = Upd(@, u, rest)]

(* the waiting query q is woken *)
GrantOne(x, q) ==
    LET u  == q[1]
        x1 == Flag(x, Pos(x.wq[u], q) # 1, "userlifo")
        x2 == GrantGhost(x1, u)
        x3 == TakeFromWq(x2, q)
    IN SetSt(x3, q, IF St(x, q) = "cwait" THEN "cgranted" ELSE "granted")

RECURSIVE GrantAll(_, _)
GrantAll(x, gs) == IF gs = <<>> THEN x ELSE GrantAll(GrantOne(x, Head(gs)), Tail(gs))
RECURSIVE CanGrantAll(_, _)
CanGrantAll(x, gs) == IF gs = <<>> THEN TRUE   \* (IF, not \/: TLC explores both sides of a disjunction in an action)
                      ELSE IsWaiting(x, Head(gs)) /\ CanGrantAll(GrantOne(x, Head(gs)), Tail(gs))

(* Acquire, critical section 1: fast path, or enqueue and then wake the queries gs *)
AcqOK(x, q, fast, gs) ==
    /\ St(x, q) = "new"
    /\ fast => gs = <<>>
    /\ ~fast => CanGrantAll(SetSt([x EXCEPT !.wq = Upd(@, q[1], IF q[1] \in DOMAIN @ THEN Append(@[q[1]], q) ELSE <<q>>)], q, "wait"), gs)
AcqF(x, q, fast, gs) ==
    LET u == q[1] IN
    IF fast THEN SetSt(GrantGhost(x, u), q, "granted")
    ELSE LET x1 == [x EXCEPT !.wq = Upd(@, u, IF u \in DOMAIN @ THEN Append(@[u], q) ELSE <<q>>)]
         IN GrantAll(SetSt(x1, q, "wait"), gs)

(* the goroutine of q leaves the select through ctx.Done() *)
CancelWakeOK(x, q) == St(x, q) \in {"wait", "granted"}
CancelWakeF(x, q)  == SetSt(x, q, IF St(x, q) = "wait" THEN "cwait" ELSE "cgranted")

(* Acquire, critical section 2: sawClosed = the code found the channel closed *)
CancelOK(x, q) == St(x, q) \in {"wait", "cwait", "granted", "cgranted"}
CancelF(x, q, sawClosed) ==
    IF IsGranted(x, q)
    THEN IF sawClosed THEN SetSt(x, q, "granted")
         ELSE SetSt(Flag(x, TRUE, "outcome"), q, "cancelled")      \* capacity leaked
    ELSE IF sawClosed THEN SetSt(Flag(x, TRUE, "outcome"), q, "granted") \* phantom holder
         ELSE LET u  == q[1]
                  x1 == TakeFromWq(x, q)
                  x2 == IF u \in DOMAIN x1.wq THEN x1 ELSE Unwait(x1, u)
              IN SetSt(x2, q, "cancelled")

(* Acquire returns (nil or ctx.Err()) *)
RetOK(x, q) == St(x, q) \in {"granted", "cgranted", "cancelled"}
RetF(x, q, isnil) ==
    IF isnil THEN SetSt(Flag(x, ~IsGranted(x, q), "outcome"), q, "held")
    ELSE Flag(x, St(x, q) # "cancelled", "outcome")

(* a caller is about to call Release for the capacity of q *)
RelIntentOK(x, q) == St(x, q) = "held"
RelIntentF(x, q)  == [SetSt(x, q, "released") EXCEPT !.nrel = @ + 1]

ReleaseOK(x, gs) == x.nrel > 0 /\ CanGrantAll([x EXCEPT !.active = @ - 1], gs)
ReleaseF(x, gs)  == GrantAll([x EXCEPT !.active = @ - 1, !.nrel = @ - 1], gs)

AdjustOK(x, n, gs) == CanGrantAll([x EXCEPT !.cap = n], gs)
AdjustF(x, n, gs)  == GrantAll([x EXCEPT !.cap = n], gs)

-------------------------------------------------------------------------------
(* PROPERTY (on the abstract layer; evaluated by the model checker and on traces) *)

(* never more active than capacity at the moment capacity is handed out *)
CapacityAtGrant   == "over" \notin s.bad
(* capacity that frees (Release, capacity increase, cancellation) is handed to a waiter:
   after every critical section, somebody waits only if the queue is full *)
NoLostWakeup      == DOMAIN s.wq # {} => s.active >= s.cap
(* activeQuery is exactly the capacity held by somebody: nothing leaks (cancellation included),
   nothing is counted twice *)
NoLeak            == s.active = Cardinality(Holders(s)) + s.nrel
(* Acquire returns nil exactly for queries that were granted *)
OutcomeOK         == "outcome" \notin s.bad
(* no user is granted twice while another user that was already waiting still waits *)
RoundRobinFair    == "unfair" \notin s.bad
(* within one user queries are served in arrival order (mechanism detail, not part of the
   property statement: reported, not alarmed) *)
UserFIFO          == "userlifo" \notin s.bad
(* structure *)
TypeOK == /\ s.active \in Nat /\ s.cap \in Nat /\ s.nrel \in Nat
          /\ \A u \in DOMAIN s.wq : s.wq[u] # <<>> /\ \A i \in 1..Len(s.wq[u]) : IsWaiting(s, s.wq[u][i]) /\ s.wq[u][i][1] = u
          /\ \A q \in DOMAIN s.st : IsWaiting(s, q) => q[1] \in DOMAIN s.wq /\ q \in ToSet(s.wq[q[1]])
          /\ \A u \in DOMAIN s.since : s.since[u] \subseteq DOMAIN s.wq

-------------------------------------------------------------------------------
(* MECHANISM as coded.  c = the fields of Queue plus outputs of the critical section. *)

C == [active |-> s.active, cap |-> s.cap, wq |-> s.wq, ord |-> ord, g |-> gorder, gs |-> <<>>, fast |-> FALSE]

MinUser(c) == CHOOSE u \in DOMAIN c.wq : \A v \in DOMAIN c.wq : c.ord[u] <= c.ord[v]
MaxUser(c) == CHOOSE u \in DOMAIN c.wq : \A v \in DOMAIN c.wq : c.ord[u] >= c.ord[v]

Full(c) == IF Bug = "eq" THEN c.active = c.cap ELSE c.active >= c.cap

(* nextQueryLocked *)
CodeNextQuery(c) ==
    IF Full(c) \/ DOMAIN c.wq = {} THEN c
    ELSE LET u    == IF Bug = "same" THEN MaxUser(c) ELSE MinUser(c)        \* DeleteMin
             l    == c.wq[u]
             q    == IF Bug = "lifo" THEN l[Len(l)] ELSE Head(l)            \* qry.Front()
             rest == RemoveQ(l, q)
         IN [c EXCEPT !.g = @ + 1,                                          \* nextUser.order = incOrder()
                      !.ord = IF rest = <<>> THEN Del(@, {u}) ELSE Upd(@, u, c.g),
                      !.wq  = IF rest = <<>> THEN Del(@, {u}) ELSE Upd(@, u, rest),
                      !.active = @ + 1,
                      !.gs = Append(@, q)]

(* addUserQueryLocked *)
CodeAdd(c, q) ==
    LET u == q[1] IN
    IF u \in DOMAIN c.wq THEN [c EXCEPT !.wq = Upd(@, u, Append(@[u], q))]
    ELSE IF c.active < c.cap
         THEN [c EXCEPT !.g = @ + 1, !.active = @ + 1, !.fast = TRUE]
         ELSE [c EXCEPT !.g = @ + 1, !.wq = Upd(@, u, <<q>>), !.ord = Upd(@, u, c.g)]

CodeAcquire(c, q) == LET c1 == CodeAdd(c, q) IN IF c1.fast THEN c1 ELSE CodeNextQuery(c1)

(* removeQueryLocked *)
CodeRemove(c, q) ==
    LET u == q[1] IN
    IF u \notin DOMAIN c.wq THEN c
    ELSE LET rest == RemoveQ(c.wq[u], q)
         IN IF rest = <<>> THEN [c EXCEPT !.wq = Del(@, {u}), !.ord = Del(@, {u})]
            ELSE [c EXCEPT !.wq = Upd(@, u, rest)]

CodeRelease(c) == CodeNextQuery([c EXCEPT !.active = @ - 1])

RECURSIVE CodeGrantLoop(_)
CodeGrantLoop(c) == IF c.active < c.cap /\ DOMAIN c.wq # {} THEN CodeGrantLoop(CodeNextQuery(c)) ELSE c
CodeAdjust(c, n) == IF Bug = "noadj" THEN [c EXCEPT !.cap = n] ELSE CodeGrantLoop([c EXCEPT !.cap = n])

Norm(o) == IF Normalize THEN [u \in DOMAIN o |-> Cardinality({v \in DOMAIN o : o[v] < o[u]})] ELSE o
NormG(o, g) == IF Normalize THEN Cardinality(DOMAIN o) ELSE g

(* the mechanism's bookkeeping and the abstract state must describe the same queue *)
Agree(c, x) == Assert(c.active = x.active /\ c.cap = x.cap /\ c.wq = x.wq /\ DOMAIN c.ord = DOMAIN c.wq,
                      <<"mechanism and abstract state diverge", c, x>>)

Mech(c) == /\ Agree(c, s')
           /\ ord' = Norm(c.ord)
           /\ gorder' = NormG(c.ord, c.g)

Post(x) == [active |-> x.active, cap |-> x.cap, wq |-> x.wq]
Log(e) == /\ IF MaxOps = 0 THEN TRUE ELSE Len(hist) <= MaxOps   \* bound on exported behaviours
          /\ hist' = IF KeepHist THEN Append(hist, e @@ [post |-> Post(s')]) ELSE hist

Acquire(q) ==
    /\ St(s, q) = "new"
    /\ IF q[2] = 1 THEN TRUE ELSE St(s, <<q[1], q[2] - 1>>) # "new"   \* a user's queries are issued in index order
    /\ LET c == CodeAcquire(C, q) IN
       /\ s' = (IF c.fast THEN RetF(AcqF(s, q, TRUE, <<>>), q, TRUE) ELSE AcqF(s, q, FALSE, c.gs))
       /\ Mech(c)
       /\ Log([a |-> "Acq", u |-> q[1], i |-> q[2], fast |-> c.fast, gs |-> c.gs])
    /\ UNCHANGED nadj

CancelWake(q) ==
    /\ CancelWakeOK(s, q)
    /\ s' = CancelWakeF(s, q)
    /\ Log([a |-> "CancelWake", u |-> q[1], i |-> q[2], parked |-> St(s, q) = "wait"])
    /\ UNCHANGED <<ord, gorder, nadj>>

CancelCS(q) ==
    /\ St(s, q) \in {"cwait", "cgranted"}
    /\ LET closed == St(s, q) = "cgranted"                   \* isClosed(qry.ch)
           c      == IF closed THEN C ELSE CodeRemove(C, q)
       IN /\ s' = RetF(CancelF(s, q, closed), q, closed)
          /\ Mech(c)
          /\ Log([a |-> "CancelCS", u |-> q[1], i |-> q[2], isnil |-> closed])
    /\ UNCHANGED nadj

Wake(q) ==
    /\ St(s, q) = "granted"
    /\ s' = RetF(s, q, TRUE)
    /\ Log([a |-> "Wake", u |-> q[1], i |-> q[2]])
    /\ UNCHANGED <<ord, gorder, nadj>>

Release(q) ==
    /\ St(s, q) = "held"
    /\ LET c == CodeRelease(C) IN
       /\ s' = ReleaseF(RelIntentF(s, q), c.gs)
       /\ Mech(c)
       /\ Log([a |-> "Release", u |-> q[1], i |-> q[2], gs |-> c.gs])
    /\ UNCHANGED nadj

Adjust(n) ==
    /\ nadj < MaxAdjust
    /\ n # s.cap
    /\ LET c == CodeAdjust(C, n) IN
       /\ s' = AdjustF(s, n, c.gs)
       /\ Mech(c)
       /\ Log([a |-> "Adjust", n |-> n, gs |-> c.gs])
    /\ nadj' = nadj + 1

(* liveness models only: a finished query can be issued again *)
Reissue(q) ==
    /\ Recycle
    /\ St(s, q) \in {"released", "cancelled"}
    /\ s' = [s EXCEPT !.st = Del(@, {q})]
    /\ UNCHANGED <<ord, gorder, nadj, hist>>

Init == /\ \E c \in InitCaps : s = S0(c) /\ hist = << [a |-> "Init", cap |-> c] >>
        /\ ord = <<>>
        /\ gorder = 0
        /\ nadj = 0

Next == \/ \E q \in Queries : Acquire(q) \/ CancelWake(q) \/ CancelCS(q) \/ Wake(q) \/ Release(q)
        \/ \E n \in Caps : Adjust(n)

Spec == Init /\ [][Next]_vars

Export == PrintT(<<"BEH", ToJson(hist')>>)

-------------------------------------------------------------------------------
(* LIVENESS (configurations with KeepHist = FALSE). *)

LNext == \/ \E q \in Queries : Acquire(q) \/ CancelWake(q) \/ CancelCS(q) \/ Wake(q) \/ Release(q) \/ Reissue(q)
         \/ \E n \in Caps : Adjust(n)

(* callers return and release; the goroutine that saw ctx.Done() gets the mutex.  Issuing and
   cancelling queries and changing the capacity are the environment's choice (no fairness). *)
Fairness == \A q \in Queries : WF_vars(Wake(q)) /\ WF_vars(Release(q)) /\ WF_vars(CancelCS(q))

LiveSpec == Init /\ [][LNext]_vars /\ Fairness

(* every waiting query is eventually served or withdrawn - no lost wakeup, no starved user *)
EventuallyServed == \A q \in Queries : IsWaiting(s, q) ~> ~IsWaiting(s, q)
===============================================================================
