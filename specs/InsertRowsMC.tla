----------------------------- MODULE InsertRowsMC -----------------------------
(* Bounded instance of InsertRows: a table of contributions covering the value kinds (counter,
   value, unique, percentile), host attributions, string-top entries, zero-count values, explicit
   / clamped timestamps, two agents and a second (historic) aggregator bucket. *)
EXTENDS InsertRows

Wv(cnt, set, mn, mx, sum, sq, minH, maxH, cntH, uniq, cent) ==
    [cnt |-> cnt, set |-> set, min |-> mn, max |-> mx, sum |-> sum, sq |-> sq,
     minH |-> minH, maxH |-> maxH, cntH |-> cntH, uniq |-> uniq, cent |-> cent]

c1   == Wv(1, FALSE, 0, 0, 0, 0, 0, 0, 0, {}, <<>>)
c3h  == Wv(3, FALSE, 0, 0, 0, 0, 0, 0, 1, {}, <<>>)
c0   == Wv(0, TRUE, 9, 9, 9, 81, 2, 2, 2, {6}, <<>>)          \* counter 0: the whole value is ignored
v    == Wv(2, TRUE, 1, 4, 5, 17, 1, 2, 0, {}, <<>>)
v1   == Wv(1, TRUE, 1, 1, 1, 1, 0, 0, 0, {}, <<>>)            \* ties with v on the minimum
v4   == Wv(1, TRUE, 4, 4, 4, 16, 3, 3, 3, {}, <<>>)           \* ties with v on the maximum
vneg == Wv(2, TRUE, -3, 0, -3, 9, 2, 1, 1, {}, <<>>)
u12  == Wv(2, TRUE, 1, 2, 3, 5, 0, 0, 0, {1, 2}, <<>>)
u234 == Wv(3, TRUE, 2, 4, 9, 29, 1, 1, 1, {2, 3, 4}, <<>>)
u8   == Wv(1, TRUE, 8, 8, 8, 64, 0, 0, 2, {8}, <<>>)
p135 == Wv(3, TRUE, 1, 5, 9, 35, 1, 2, 2, {}, (1 :> 1) @@ (3 :> 1) @@ (5 :> 1))
p33  == Wv(2, TRUE, 3, 3, 6, 18, 0, 0, 0, {}, (3 :> 2))

Shapes == {c1, c3h, c0, v, v1, v4, vneg, u12, u234, u8, p135, p33}
ShapesSmall == {c1, c3h, v, v1, u12, u234, p135, p33}

It(a, b, m, tag, t, parts) == [agent |-> a, b |-> b, m |-> m, tag |-> tag, t |-> t, parts |-> parts]

Family(SS) ==
    {It(a, 1, 1, 5, 0, (p :> s)) : a \in {1, 2}, p \in {0, 1}, s \in SS}
    \cup {It(1, 1, 1, 6, 0, (0 :> v) @@ (1 :> c1)), It(1, 1, 1, 6, 0, (0 :> c0) @@ (1 :> u12)),
          It(2, 1, 1, 6, 0, (1 :> v4) @@ (2 :> c3h))}
    \cup {It(2, 1, 1, 5, t, (0 :> c1)) : t \in {999, 2000, 1}}     \* believed / future / too old
    \cup {It(1, 2, 1, 5, 0, (0 :> v)), It(2, 2, 1, 5, 0, (0 :> v1) @@ (1 :> c1))}   \* historic bucket

MCItems == Family(Shapes)
MCItemsSmall == Family(ShapesSmall)
MCBucketTimes == <<1000, 997>>
===============================================================================
