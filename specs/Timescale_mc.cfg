SPECIFICATION Spec
CONSTANTS
  Resolutions <- MCResolutions
  Month = 999
  Limit = 16
  Week = 15
  LevelRel <- MCLevelRel
  LevelSteps <- MCLevelSteps
  MaxPts = 12
  Starts <- MCStarts
  Durs <- MCDurs
  StepsAsked <- MCStepsAsked
  Nows <- MCNows
  Widths <- MCWidths
  Utcs <- MCUtcs
  MetricRes <- MCMetricRes
  Offs <- MCOffs
INVARIANTS MErrorsAgree MNoUnexpectedError MNonEmpty MLODSteps MLODFiner MLimit MIncreasing MLenSum
  MPointShape MDiffs MAligned MView MCoverStart MCoverEnd MRanges MBudget
CHECK_DEADLOCK FALSE
