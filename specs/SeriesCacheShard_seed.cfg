SPECIFICATION Spec
CONSTANTS
  NB = 4
  N0 = 3
  MaxInv = 1
  MaxTrimWalks = 1
  MaxEvict = 1
  MaxReset = 1
  UnlinkFirst = TRUE
INVARIANTS ListOK InvReachesAll
CHECK_DEADLOCK FALSE
