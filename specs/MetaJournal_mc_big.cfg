INIT Init
NEXT Next
CONSTANTS
  Ids <- IdsABig
  Names <- NamesABig
  Chars <- MCChars
  Replicas = {"n"}
  Up <- MCUp
  IsCompact <- MCIsCompact
  MaxBatch = 3
  ChunkSizes = {1, 2}
  MaxVer = 6
  MaxRestarts = 1
  MaxOps = 0
  OrigNames = FALSE
  OrigSkip = FALSE
VIEW View
CHECK_DEADLOCK FALSE
INVARIANTS NoPanic LoaderAhead HashConsistent VersionsDistinct StorageMatchesJournal NameLookupCorrect GroupAssignmentCorrect Converged HashAgreement
