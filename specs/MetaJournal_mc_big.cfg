INIT Init
NEXT Next
CONSTANTS
  Ids <- IdsA
  Names <- NamesA
  Chars <- MCChars
  Replicas = {"n"}
  Up <- MCUp
  IsCompact <- MCIsCompact
  MaxBatch = 3
  ChunkSizes = {1}
  MaxVer = 5
  MaxRestarts = 1
  MaxOps = 0
  OrigNames = FALSE
  OrigSkip = FALSE
VIEW View
CHECK_DEADLOCK FALSE
INVARIANTS NoPanic LoaderAhead HashConsistent VersionsDistinct StorageMatchesJournal NameLookupCorrect GroupAssignmentCorrect Converged HashAgreement
