SPECIFICATION Spec
CONSTANTS
  NReq = 3
  Hard = 3
  Soft = 2
  S0 = 2
  D = 1
  NInc = 2
  FixWake = FALSE
INVARIANTS TypeOK
PROPERTIES AllDone
CHECK_DEADLOCK FALSE
