-------------------------------- MODULE MetaDB --------------------------------
(* Metadata database of statshouse (internal/metadata: dbv2.go, binlog_event.go, rules.go,
   rpc_handler.go over internal/sqlite + fsbinlog).  Properties C15, C16, C19.

   The persistent state is one record `db` (the SQLite tables that matter: metrics_v5,
   entity_history, mappings + its AUTOINCREMENT counter, flood_limits, property/bootstrap).
   Every public write of DBV2 is an operator  XxxF(db, ...) -> [db, reply, ev]  that
   transcribes the statements of the corresponding `eng.Do` callback (one action per
   critical section; the engine serialises callbacks under its rw mutex and rolls a failed
   callback back to its savepoint, so a failing operator returns the unchanged state).
   `ev` is the binlog event exactly as the callback emits it.  The replay handlers of
   binlog_event.go (applyScanEvent) are transcribed *independently* as ApplyXxx(db, ev);
   C16 is the statement that folding them over the binlog from any snapshot reproduces
   the observable state of the primary.

   Deliberate oddities of the code that are transcribed (not repaired in the model):
   * ResetFlood changes flood_limits but emits no binlog event  (known finding of C16;
     the metrics whose flood row is therefore not a function of the binlog are tracked in
     the ghost `taint` of every snapshot and excluded from the comparison);
   * a namespace edit with a stale version fails with "namespace doesn't exist", because
     checkNamespace runs before the version check;
   * the first creation of a metric without a flood row is never refused (row inserted
     with MaxBudget-1 whatever the budget is), and a creation while the global budget is
     not exhausted rewrites the row to MaxBudget;
   * DBV2.lastMappingIDToInsert lives in memory only: it is 0 after every (re)open, so
     the first creation after an open is charged even inside the global budget.
   Four defects found with this model are kept as switchable deviations (`Bugs`), used to
   show that the invariants are live:  "replay-rename" (applyEditEntityEvent matched on
   the new name and never set it), "reset-unrounded" (ResetFlood stored the unrounded
   clock, so the uint32 subtraction in calcBudget wrapped and refilled the budget),
   "ns-typeconf" (an edit carrying another event type than the stored one bypassed
   checkNamespace and renamed a namespace), "ns-createflag" (a create-flagged request on an
   existing builtin namespace became an edit without the rename rule).  The repository
   carries the repairs.  "last-id-from-max" is a deviation that was never in the repository
   (an independently seeded change): the last created id is taken from MAX(id) of the
   mappings table, which drops when the newest mappings are deleted.                   *)
EXTENDS Integers, Sequences, FiniteSets, TLC, Json

CONSTANTS
    Names,          \* entity names clients use
    NsOf,           \* name -> namespace part ("" if none): format.SplitNamespace as a table
    CreateTypes,    \* event types clients create
    MismatchTypes,  \* extra event types an edit request may carry besides the stored one
    TMetric, TGroup, TNs,   \* format.MetricEvent = 0, MetricsGroupEvent = 2, NamespaceEvent = 4
    PredefIds,      \* negative (builtin) ids clients may address
    Payloads,       \* set of [data, del, meta] an edit can carry
    RacePayloads,   \* payloads used by racing edits
    RaceNames,      \* names used by racing edits (rename races)
    Keys,           \* mapping strings
    MetricSeq,      \* sequence of metric names (flood-limit rows), fixed order for projections
    PutArgs,        \* set of <<keys, ids>> offered to PutMapping (sequences of equal length)
    BootSets,       \* bootstrap lists offered to PutBootstrap (set of sequences of <<key, id>>)
    ResetLimits,    \* values offered to ResetFlood (<= 0 deletes the row)
    MaxBudget, StepSec, BudgetBonus, GlobalBudget, MaxResetLimit,   \* Options / maxResetLimit
    U32Q, U32R,     \* 2^32 = U32Q * StepSec + U32R   (uint32 wrap in calcBudget)
    Ticks, Clock0,  \* clock increments (the clock never steps back: "clock progression")
    DelMax,         \* largest number of ids in one DeleteMappings request
    DelNewestOnly,  \* TRUE: only requests that delete the newest ids (an upper set of the present ids)
    MaxOps, MaxSnaps, MaxClock,
    ExportFrom,     \* behaviours shorter than this are not printed by Export
    WithPost,       \* TRUE: every step of `hist` carries the projected state (behaviour export)
    Bugs            \* {} = the code as repaired; see above

ASSUME MaxBudget >= 1 /\ StepSec >= 1 /\ BudgetBonus >= 0 /\ GlobalBudget >= 0

VARIABLES
    db,           \* persistent state of the primary
    clock,        \* Options.Now (seconds)
    lastCreated,  \* DBV2.lastMappingIDToInsert (in memory, 0 after open)
    binlog,       \* sequence of events as emitted
    snaps,        \* sequence of [db, off, taint]; snaps[1] is the empty database at offset 0
    issued,       \* ghost: every entity version handed out so far
    used,         \* ghost: every mapping id that was ever present
    credit,       \* ghost: metric -> creations still allowed without time passing (C19)
    exhausted,    \* ghost: an id beyond the global budget was handed out
    nops,
    hist          \* behaviour export, not part of the view

vars == <<db, clock, lastCreated, binlog, snaps, issued, used, credit, exhausted, nops, hist>>
View == <<db, clock, lastCreated, binlog, snaps, issued, used, credit, exhausted, nops>>

Metrics == {MetricSeq[i] : i \in DOMAIN MetricSeq}
SetMax(S) == CHOOSE x \in S : \A y \in S : y <= x
Max2(a, b) == IF a >= b THEN a ELSE b
Upd(f, k, v) == [x \in DOMAIN f \cup {k} |-> IF x = k THEN v ELSE f[x]]
Rem(f, ks) == [x \in DOMAIN f \ ks |-> f[x]]
Last(s) == s[Len(s)]

EmptyDB == [ent |-> <<>>, eseq |-> 0, hrows |-> {}, maps |-> {}, mseq |-> 0,
            flood |-> <<>>, boot |-> <<>>, err |-> FALSE]

-------------------------------------------------------------------------------
(* ---------- entities: dbv2.go SaveEntity + rules.go ---------- *)
MaxVer(d) == SetMax({d.ent[i].ver : i \in DOMAIN d.ent} \cup {0})   \* SELECT IFNULL(MAX(version),0)
MaxEntId(d) == SetMax(DOMAIN d.ent \cup {0})

(* rules.go resolveNamespace *)
ResolveNs(d, name, typ) ==
    IF typ \notin {TMetric, TGroup} \/ NsOf[name] = "" THEN [ok |-> TRUE, ns |-> 0]
    ELSE LET c == {i \in DOMAIN d.ent : d.ent[i].typ = TNs /\ d.ent[i].name = NsOf[name]}
         IN IF c = {} THEN [ok |-> FALSE, ns |-> 0] ELSE [ok |-> TRUE, ns |-> CHOOSE i \in c : TRUE]

(* UNIQUE (namespace_id, type, name) against the other rows *)
NameTaken(d, self, ns, typ, name) ==
    \E j \in DOMAIN d.ent \ {self} : d.ent[j].ns = ns /\ d.ent[j].typ = typ /\ d.ent[j].name = name
VerTaken(d, self, v) == \E j \in DOMAIN d.ent \ {self} : d.ent[j].ver = v

HistRow(e) == [id |-> e.id, ver |-> e.ver, name |-> e.name, data |-> e.data, typ |-> e.typ,
               del |-> e.del, ns |-> e.ns, ut |-> e.ut, meta |-> e.meta]
(* binlog_event.go insertHistory: UNIQUE version, UNIQUE (entity_id, version); the metadata
   field mask is always set by SaveEntity, so the row is always written *)
HistTaken(d, e) == \E r \in d.hrows : r.ver = e.ver
InsertHistory(d, e) == IF HistTaken(d, e) THEN [d EXCEPT !.err = TRUE]
                       ELSE [d EXCEPT !.hrows = @ \cup {HistRow(e)}]

NoEv == [t |-> "none"]
SaveFail(d, why) == [db |-> d, ok |-> FALSE, why |-> why, ev |-> NoEv, created |-> FALSE,
                     rid |-> 0, rver |-> 0, rns |-> 0]

(* rq = [name, id, old, data, create, del, typ, meta] *)
SaveEntityF(d, clk, rq) ==
    LET nsRule ==   \* rules.go checkNamespace (runs first)
            IF rq.typ = TNs /\ ~rq.create
            THEN IF rq.id \in DOMAIN d.ent /\ d.ent[rq.id].typ = TNs /\ d.ent[rq.id].ver = rq.old
                 THEN (IF d.ent[rq.id].name # rq.name THEN "renamens" ELSE "ok")
                 ELSE "nsmissing"
            ELSE "ok"
        nsRule2 ==  \* SaveEntity: an existing builtin id turns a create-flagged request into an edit, the rule applies then
            IF "ns-createflag" \notin Bugs /\ rq.create /\ rq.typ = TNs /\ rq.id < 0 /\ rq.id \in DOMAIN d.ent
            THEN IF d.ent[rq.id].typ = TNs /\ d.ent[rq.id].ver = rq.old
                 THEN (IF d.ent[rq.id].name # rq.name THEN "renamens" ELSE "ok")
                 ELSE "nsmissing"
            ELSE "ok"
        rn == ResolveNs(d, rq.name, rq.typ)
        exists == \E j \in DOMAIN d.ent : d.ent[j].typ = rq.typ /\ d.ent[j].name = rq.name  \* checkCreateEntity
        fixed  == rq.id < 0 /\ rq.id \notin DOMAIN d.ent
        create == IF rq.id < 0 THEN fixed ELSE rq.create
        newver == MaxVer(d) + 1
    IN  IF nsRule # "ok" THEN SaveFail(d, nsRule)
        ELSE IF ~rn.ok THEN SaveFail(d, "nsmissing")
        ELSE IF rq.create /\ exists THEN SaveFail(d, "exists")
        ELSE IF nsRule2 # "ok" THEN SaveFail(d, nsRule2)
        ELSE IF ~create
        THEN IF ~(rq.id \in DOMAIN d.ent /\ d.ent[rq.id].ver = rq.old
                  /\ ("ns-typeconf" \in Bugs \/ d.ent[rq.id].typ = rq.typ))
             THEN SaveFail(d, "version")
             ELSE IF NameTaken(d, rq.id, rn.ns, d.ent[rq.id].typ, rq.name) THEN SaveFail(d, "unique")
             ELSE LET e == [id |-> rq.id, name |-> rq.name, typ |-> rq.typ, ver |-> newver, ut |-> clk,
                            data |-> rq.data, del |-> rq.del, ns |-> rn.ns, meta |-> rq.meta]
                      d1 == [d EXCEPT !.ent[rq.id] = [@ EXCEPT !.ver = newver, !.data = rq.data, !.ut = clk,
                                                              !.name = rq.name, !.del = rq.del, !.ns = rn.ns]]
                      d2 == InsertHistory(d1, e)
                  IN IF d2.err THEN SaveFail(d, "history")
                     ELSE [db |-> d2, ok |-> TRUE, why |-> "ok", ev |-> [t |-> "EditEntity", e |-> e, old |-> rq.old],
                           created |-> FALSE, rid |-> rq.id, rver |-> newver, rns |-> rn.ns]
        ELSE LET nid == IF fixed THEN rq.id ELSE Max2(d.eseq, MaxEntId(d)) + 1    \* AUTOINCREMENT
                 e == [id |-> nid, name |-> rq.name, typ |-> rq.typ, ver |-> newver, ut |-> clk,
                       data |-> rq.data, del |-> rq.del, ns |-> rn.ns, meta |-> rq.meta]
                 row == [typ |-> rq.typ, name |-> rq.name, ns |-> rn.ns, ver |-> newver, data |-> rq.data,
                         del |-> rq.del, ut |-> clk]
                 d1 == [d EXCEPT !.ent = Upd(@, nid, row), !.eseq = Max2(@, nid)]
                 d2 == InsertHistory(d1, e)
             IN IF NameTaken(d, nid, rn.ns, rq.typ, rq.name) THEN SaveFail(d, "unique")
                ELSE IF newver = rq.old THEN SaveFail(d, "other")      \* "can't update metric ... invalid version"
                ELSE IF d2.err THEN SaveFail(d, "history")
                ELSE [db |-> d2, ok |-> TRUE, why |-> "ok", ev |-> [t |-> "CreateEntity", e |-> e],
                      created |-> TRUE, rid |-> nid, rver |-> newver, rns |-> rn.ns]

(* ---------- entities: binlog_event.go replay handlers ---------- *)
ApplyCreateEntity(d, e) ==
    IF e.id \in DOMAIN d.ent \/ NameTaken(d, e.id, e.ns, e.typ, e.name) \/ VerTaken(d, e.id, e.ver)
    THEN [d EXCEPT !.err = TRUE]
    ELSE InsertHistory([d EXCEPT !.ent = Upd(@, e.id, [typ |-> e.typ, name |-> e.name, ns |-> e.ns, ver |-> e.ver,
                                                       data |-> e.data, del |-> e.del, ut |-> e.ut]),
                                 !.eseq = Max2(@, e.id)], e)

(* UPDATE ... WHERE version = $oldVersion AND id = $id: no matching row is not an error *)
ApplyEditEntity(d, e, old) ==
    LET hit == /\ e.id \in DOMAIN d.ent /\ d.ent[e.id].ver = old
               /\ ("replay-rename" \in Bugs => d.ent[e.id].name = e.name)
        nm  == IF "replay-rename" \in Bugs THEN d.ent[e.id].name ELSE e.name
    IN IF ~hit THEN InsertHistory(d, e)
       ELSE IF NameTaken(d, e.id, e.ns, d.ent[e.id].typ, nm) \/ VerTaken(d, e.id, e.ver)
       THEN [d EXCEPT !.err = TRUE]
       ELSE InsertHistory([d EXCEPT !.ent[e.id] = [@ EXCEPT !.ver = e.ver, !.data = e.data, !.ut = e.ut,
                                                            !.name = nm, !.del = e.del, !.ns = e.ns]], e)

-------------------------------------------------------------------------------
(* ---------- mappings and flood limits ---------- *)
IdOf(d, k)   == CHOOSE p \in d.maps : p.k = k
HasKey(d, k) == \E p \in d.maps : p.k = k
HasId(d, i)  == \E p \in d.maps : p.id = i
MaxMapId(d)  == SetMax({p.id : p \in d.maps} \cup {0})
RoundTime(t) == t - (t % StepSec)                                       \* dbv2.go roundTime

(* dbv2.go calcBudget; now and lastTimeUpdate are uint32, the subtraction wraps *)
ElapsedSteps(last, now) == IF now >= last THEN (now - last) \div StepSec
                           ELSE U32Q + ((U32R - (last - now)) \div StepSec)
CalcBudget(old, expense, last, now) ==
    IF old > MaxBudget THEN old - expense
    ELSE LET res == old - expense + ElapsedSteps(last, now) * BudgetBonus
         IN IF res >= MaxBudget THEN MaxBudget - expense ELSE res

GocReply(kind, id) == [kind |-> kind, id |-> id]
(* binlog_event.go getOrCreateMapping *)
GetOrCreateF(d, lastc, clk, metric, key) ==
    IF HasKey(d, key) THEN [db |-> d, rep |-> GocReply("get", IdOf(d, key).id), ev |-> NoEv]
    ELSE LET pred   == RoundTime(clk)
             exists == metric \in DOMAIN d.flood
             skip   == lastc > 0 /\ lastc <= GlobalBudget        \* skipFloodLimitModification
             cnt    == IF exists
                       THEN (IF skip THEN MaxBudget
                             ELSE CalcBudget(d.flood[metric].free, 1, d.flood[metric].last, pred))
                       ELSE MaxBudget - 1
             nid    == IF \A p \in d.maps : p.id <= d.mseq THEN d.mseq + 1     \* AUTOINCREMENT:
                       ELSE MaxMapId(d) + 1                                   \* max(seq, largest rowid) + 1
         IN IF exists /\ ~skip /\ cnt < 0 THEN [db |-> d, rep |-> GocReply("flood", 0), ev |-> NoEv]
            ELSE [db |-> [d EXCEPT !.flood = Upd(@, metric, [last |-> pred, free |-> cnt]),
                                   !.maps = @ \cup {[k |-> key, id |-> nid]}, !.mseq = nid],
                  rep |-> GocReply("created", nid),
                  ev |-> [t |-> "CreateMapping", id |-> nid, key |-> key, metric |-> metric, ut |-> pred,
                          budget |-> cnt, create |-> ~exists]]

(* INSERT OR REPLACE INTO mappings(id, name): rows conflicting on id or on name are removed first *)
PutOne(d, k, i) == [d EXCEPT !.maps = {p \in @ : p.k # k /\ p.id # i} \cup {[k |-> k, id |-> i]},
                             !.mseq = Max2(@, i)]
RECURSIVE PutAll(_, _, _)
PutAll(d, ks, vs) == IF ks = <<>> THEN d ELSE PutAll(PutOne(d, Head(ks), Head(vs)), Tail(ks), Tail(vs))
PutMappingF(d, ks, vs) == [db |-> PutAll(d, ks, vs), ev |-> [t |-> "PutMapping", ks |-> ks, vs |-> vs]]

(* dbv2.go deleteMappingsByIdBatched: only present ids are deleted and logged *)
DeleteMappingsF(d, ids) ==
    LET present == {i \in ids : HasId(d, i)}
    IN IF present = {} THEN [db |-> d, cnt |-> 0, ev |-> NoEv]
       ELSE [db |-> [d EXCEPT !.maps = {p \in @ : p.id \notin present}], cnt |-> Cardinality(present),
             ev |-> [t |-> "DeleteMappings", ids |-> present]]

(* dbv2.go ResetFlood: no binlog event *)
ResetFloodF(d, clk, metric, limit) ==
    IF limit <= 0 THEN [db |-> [d EXCEPT !.flood = Rem(@, {metric})], after |-> MaxBudget]
    ELSE LET after == IF limit > MaxResetLimit THEN MaxResetLimit ELSE limit
             t == IF "reset-unrounded" \in Bugs THEN clk ELSE RoundTime(clk)
         IN [db |-> [d EXCEPT !.flood = Upd(@, metric, [last |-> t, free |-> after])], after |-> after]

PutBootstrapF(d, ms) == [db |-> [d EXCEPT !.boot = ms], ev |-> [t |-> "PutBootstrap", ms |-> ms]]

(* replay handlers *)
ApplyCreateMapping(d, ev) ==
    LET d1 == [d EXCEPT !.flood = Upd(@, ev.metric, [last |-> ev.ut, free |-> ev.budget])]   \* INSERT OR REPLACE
    IN IF HasKey(d1, ev.key) \/ HasId(d1, ev.id) THEN [d1 EXCEPT !.err = TRUE]                \* plain INSERT
       ELSE [d1 EXCEPT !.maps = @ \cup {[k |-> ev.key, id |-> ev.id]}, !.mseq = Max2(@, ev.id)]
ApplyDeleteMappings(d, ev) == [d EXCEPT !.maps = {p \in @ : p.id \notin ev.ids}]

(* binlog_event.go applyScanEvent *)
ApplyEvent(d, ev) ==
    IF d.err THEN d
    ELSE CASE ev.t = "CreateEntity"   -> ApplyCreateEntity(d, ev.e)
           [] ev.t = "EditEntity"     -> ApplyEditEntity(d, ev.e, ev.old)
           [] ev.t = "CreateMapping"  -> ApplyCreateMapping(d, ev)
           [] ev.t = "PutMapping"     -> PutAll(d, ev.ks, ev.vs)
           [] ev.t = "DeleteMappings" -> ApplyDeleteMappings(d, ev)
           [] ev.t = "PutBootstrap"   -> [d EXCEPT !.boot = ev.ms]
RECURSIVE ReplayF(_, _)
ReplayF(d, evs) == IF evs = <<>> THEN d ELSE ReplayF(ApplyEvent(d, Head(evs)), Tail(evs))

-------------------------------------------------------------------------------
(* ---------- observable state (what the public reads return) ---------- *)
RECURSIVE JournalFrom(_, _, _)
JournalFrom(d, v, top) ==      \* JournalEvents: ... WHERE version > $v ORDER BY version
    IF v > top THEN <<>>
    ELSE LET c == {i \in DOMAIN d.ent : d.ent[i].ver = v}
         IN (IF c = {} THEN <<>>
             ELSE LET i == CHOOSE x \in c : TRUE
                  IN << <<i, d.ent[i].name, v, d.ent[i].data, d.ent[i].typ, d.ent[i].del, d.ent[i].ns, d.ent[i].ut>> >>)
            \o JournalFrom(d, v + 1, top)
Journal(d, since) == JournalFrom(d, since + 1, MaxVer(d))

RECURSIVE HistFrom(_, _, _)
HistFrom(d, v, top) ==
    IF v > top THEN <<>>
    ELSE LET c == {r \in d.hrows : r.ver = v}
         IN (IF c = {} THEN <<>>
             ELSE LET r == CHOOSE x \in c : TRUE
                  IN << <<r.id, r.ver, r.name, r.data, r.typ, r.del, r.ns, r.ut, r.meta>> >>)
            \o HistFrom(d, v + 1, top)
HistAll(d) == HistFrom(d, 1, SetMax({r.ver : r \in d.hrows} \cup {0}))

RECURSIVE MapsFrom(_, _, _)
MapsFrom(d, i, top) ==
    IF i > top THEN <<>>
    ELSE (IF HasId(d, i) THEN << <<(CHOOSE p \in d.maps : p.id = i).k, i>> >> ELSE <<>>) \o MapsFrom(d, i + 1, top)
MapsAll(d) == MapsFrom(d, 1, MaxMapId(d))

RECURSIVE FloodFrom(_, _, _)
FloodFrom(d, i, skip) ==
    IF i > Len(MetricSeq) THEN <<>>
    ELSE (IF MetricSeq[i] \in DOMAIN d.flood /\ MetricSeq[i] \notin skip
          THEN << <<MetricSeq[i], d.flood[MetricSeq[i]].last, d.flood[MetricSeq[i]].free>> >> ELSE <<>>)
         \o FloodFrom(d, i + 1, skip)

Obs(d, skip) == [j |-> Journal(d, 0), h |-> HistAll(d), m |-> MapsAll(d), seq |-> d.mseq, eseq |-> d.eseq,
                 f |-> FloodFrom(d, 1, skip), b |-> d.boot]

-------------------------------------------------------------------------------
Init == /\ db = EmptyDB /\ clock = Clock0 /\ lastCreated = 0 /\ binlog = <<>>
        /\ snaps = << [db |-> EmptyDB, off |-> 0, taint |-> {}] >>
        /\ issued = {} /\ used = {} /\ credit = [m \in Metrics |-> MaxBudget] /\ exhausted = FALSE
        /\ nops = 0 /\ hist = <<>>

RECURSIVE TaintSeq(_)
TaintSeq(i) == IF i > Len(MetricSeq) THEN <<>> ELSE <<MetricSeq[i]>> \o TaintSeq(i + 1)
TaintOf(s) == SelectSeq(TaintSeq(1), LAMBDA m : m \in s.taint)
Post(d, clk, sn) == IF WithPost THEN Obs(d, {}) @@ [clk |-> clk, taint |-> [i \in DOMAIN sn |-> TaintOf(sn[i])]] ELSE <<>>

Log(ev) == IF ev.t = "none" THEN binlog ELSE Append(binlog, ev)
SetTaint(sn, m, on) == [i \in DOMAIN sn |-> [sn[i] EXCEPT !.taint = IF on THEN @ \cup {m} ELSE @ \ {m}]]

Req(name, id, old, p, create, typ) ==
    [name |-> name, id |-> id, old |-> old, data |-> p.data, create |-> create, del |-> p.del, typ |-> typ, meta |-> p.meta]

SaveCore(rq, r) ==
    /\ db' = r.db
    /\ binlog' = Log(r.ev)
    /\ issued' = IF r.ok THEN issued \cup {r.rver} ELSE issued
    /\ UNCHANGED <<clock, lastCreated, snaps, used, credit, exhausted>>
Save(rq) ==
    LET r == SaveEntityF(db, clock, rq)
    IN /\ SaveCore(rq, r)
       /\ hist' = Append(hist, [a |-> "Save", rq |-> rq, ok |-> r.ok, why |-> r.why, created |-> r.created,
                                rid |-> r.rid, rver |-> r.rver, rns |-> r.rns, post |-> Post(r.db, clock, snaps)])

(* two clients read the entity at the same version and both edit; the engine serialises them *)
RaceOutcome(q1, q2) ==
    LET r1 == SaveEntityF(db, clock, q1)
        r2 == SaveEntityF(r1.db, clock, q2)
    IN [db |-> r2.db, ok1 |-> r1.ok, ok2 |-> r2.ok, ver1 |-> r1.rver, ver2 |-> r2.rver, ev1 |-> r1.ev, ev2 |-> r2.ev]
Race(q1, q2) ==
    LET o == RaceOutcome(q1, q2)
        x == RaceOutcome(q2, q1)     \* the other serialisation (ok1/ver1 there belong to q2)
        alone1 == SaveEntityF(db, clock, q1).ok
        alone2 == SaveEntityF(db, clock, q2).ok
    IN /\ db' = o.db
       /\ binlog' = (IF o.ev2.t = "none" THEN (IF o.ev1.t = "none" THEN binlog ELSE Append(binlog, o.ev1))
                     ELSE (IF o.ev1.t = "none" THEN Append(binlog, o.ev2) ELSE Append(Append(binlog, o.ev1), o.ev2)))
       /\ issued' = issued \cup (IF o.ok1 THEN {o.ver1} ELSE {}) \cup (IF o.ok2 THEN {o.ver2} ELSE {})
       /\ UNCHANGED <<clock, lastCreated, snaps, used, credit, exhausted>>
       /\ hist' = Append(hist, [a |-> "Race", q1 |-> q1, q2 |-> q2, ok1 |-> o.ok1, ok2 |-> o.ok2,
                                ver1 |-> o.ver1, ver2 |-> o.ver2, alone1 |-> alone1, alone2 |-> alone2,
                                post |-> Post(o.db, clock, snaps),
                                alt |-> [ok1 |-> x.ok2, ok2 |-> x.ok1, ver1 |-> x.ver2, ver2 |-> x.ver1,
                                         post |-> Post(x.db, clock, snaps)]])

GetOrCreate(metric, key) ==
    LET r == GetOrCreateF(db, IF "last-id-from-max" \in Bugs THEN MaxMapId(db) ELSE lastCreated, clock, metric, key)
        made == r.rep.kind = "created"
    IN /\ db' = r.db
       /\ binlog' = Log(r.ev)
       /\ lastCreated' = IF made THEN r.rep.id ELSE lastCreated
       /\ used' = IF made THEN used \cup {r.rep.id} ELSE used
       /\ snaps' = IF made THEN SetTaint(snaps, metric, FALSE) ELSE snaps
       (* ghost allowance: inside the global budget a creation is free and the metric starts
          over with (at least) the maximum budget; beyond it every creation costs one *)
       /\ credit' = IF ~made THEN credit
                    ELSE IF exhausted THEN [credit EXCEPT ![metric] = @ - 1]
                    ELSE [credit EXCEPT ![metric] = Max2(@, MaxBudget)]
       /\ exhausted' = (exhausted \/ (made /\ r.rep.id > GlobalBudget))
       /\ UNCHANGED <<clock, issued>>
       /\ hist' = Append(hist, [a |-> "Goc", metric |-> metric, key |-> key, kind |-> r.rep.kind, rid |-> r.rep.id,
                                charged |-> exhausted, post |-> Post(r.db, clock, snaps')])

PutMapping(ks, vs) ==
    LET r == PutMappingF(db, ks, vs)
    IN /\ db' = r.db
       /\ binlog' = Log(r.ev)
       /\ used' = used \cup {vs[i] : i \in DOMAIN vs}
       /\ UNCHANGED <<clock, lastCreated, snaps, issued, credit, exhausted>>
       /\ hist' = Append(hist, [a |-> "Put", ks |-> ks, vs |-> vs, post |-> Post(r.db, clock, snaps)])

RECURSIVE SetToSeq(_)
SetToSeq(S) == IF S = {} THEN <<>> ELSE LET x == SetMax(S) IN SetToSeq(S \ {x}) \o <<x>>
DeleteMappings(ids) ==
    LET r == DeleteMappingsF(db, ids)
    IN /\ db' = r.db
       /\ binlog' = Log(r.ev)
       /\ UNCHANGED <<clock, lastCreated, snaps, issued, used, credit, exhausted>>
       /\ hist' = Append(hist, [a |-> "Del", ids |-> SetToSeq(ids), cnt |-> r.cnt, post |-> Post(r.db, clock, snaps)])

ResetFlood(metric, limit) ==
    LET r == ResetFloodF(db, clock, metric, limit)
    IN /\ db' = r.db
       /\ snaps' = SetTaint(snaps, metric, TRUE)
       /\ credit' = [credit EXCEPT ![metric] = r.after]
       /\ UNCHANGED <<clock, lastCreated, binlog, issued, used, exhausted>>
       /\ hist' = Append(hist, [a |-> "Reset", metric |-> metric, limit |-> limit, after |-> r.after,
                                post |-> Post(r.db, clock, snaps')])

PutBootstrap(ms) ==
    LET r == PutBootstrapF(db, ms)
    IN /\ db' = r.db
       /\ binlog' = Log(r.ev)
       /\ UNCHANGED <<clock, lastCreated, snaps, issued, used, credit, exhausted>>
       /\ hist' = Append(hist, [a |-> "Boot", ms |-> ms, post |-> Post(r.db, clock, snaps)])

Advance(t) ==
    /\ clock + t <= Clock0 + MaxClock
    /\ clock' = clock + t
    /\ credit' = [m \in Metrics |-> credit[m] + BudgetBonus * (((clock + t) \div StepSec) - (clock \div StepSec))]
    /\ UNCHANGED <<db, lastCreated, binlog, snaps, issued, used, exhausted>>
    /\ hist' = Append(hist, [a |-> "Tick", d |-> t, post |-> Post(db, clock + t, snaps)])

(* close, copy the database file, reopen the same file: a snapshot at exactly this point *)
TakeSnapshot ==
    /\ Len(snaps) <= MaxSnaps
    /\ snaps' = Append(snaps, [db |-> db, off |-> Len(binlog), taint |-> {}])
    /\ lastCreated' = 0
    /\ UNCHANGED <<db, clock, binlog, issued, used, credit, exhausted>>
    /\ hist' = Append(hist, [a |-> "Snap", post |-> Post(db, clock, snaps')])

-------------------------------------------------------------------------------
(* request alphabets *)
CreateReqs == {Req(n, i, 0, p, TRUE, t) : n \in Names, i \in {0} \cup PredefIds, p \in {CHOOSE q \in Payloads : q.del = 0}, t \in CreateTypes}
(* a create-flagged request that names an existing builtin entity and its current version *)
CreateOverReqs == {Req(n, i, db.ent[i].ver, CHOOSE q \in Payloads : q.del = 0, TRUE, db.ent[i].typ) :
                   n \in Names, i \in PredefIds \cap DOMAIN db.ent}
OldChoices(i) == IF i \in DOMAIN db.ent THEN {db.ent[i].ver, db.ent[i].ver - 1} ELSE {0}
TypChoices(i) == IF i \in DOMAIN db.ent THEN {db.ent[i].typ} \cup MismatchTypes ELSE CreateTypes
EditReqs == UNION {{Req(n, i, o, p, FALSE, t) : n \in Names, o \in OldChoices(i), p \in Payloads, t \in TypChoices(i)}
                   : i \in DOMAIN db.ent \cup PredefIds}
RaceReqs(i) == {Req(n, i, db.ent[i].ver, p, FALSE, db.ent[i].typ) : n \in {db.ent[i].name} \cup RaceNames, p \in RacePayloads}

Core == <<db, clock, lastCreated, binlog, snaps, issued, used, credit, exhausted>>
(* MaxOps bounds the number of *effective* operations: a request that changes nothing (a
   refused edit, a lookup of an existing key, ...) is tried in every reachable state but
   does not count, so the exhaustive search covers every history of MaxOps effective
   operations with every refused request in between. *)
Next == /\ nops < MaxOps
        /\ \/ \E rq \in CreateReqs \cup CreateOverReqs \cup EditReqs : Save(rq)
           \/ \E i \in DOMAIN db.ent : \E q1 \in RaceReqs(i), q2 \in RaceReqs(i) : q1 # q2 /\ Race(q1, q2)
           \/ \E m \in Metrics, k \in Keys : GetOrCreate(m, k)
           \/ \E a \in PutArgs : PutMapping(a[1], a[2])
           \/ \E ids \in (SUBSET (1..MaxMapId(db))) \ {{}} :
                 /\ Cardinality(ids) <= DelMax
                 /\ (DelNewestOnly => \A i \in ids : HasId(db, i) /\ \A p \in db.maps : p.id > i => p.id \in ids)
                 /\ DeleteMappings(ids)
           \/ \E m \in Metrics, l \in ResetLimits : ResetFlood(m, l)
           \/ \E ms \in BootSets : PutBootstrap(ms)
           \/ \E t \in Ticks : Advance(t)
           \/ TakeSnapshot
        /\ nops' = IF Core' # Core THEN nops + 1 ELSE nops

Spec == Init /\ [][Next]_vars

-------------------------------------------------------------------------------
(* ======================= C15 ======================= *)
(* The action properties talk about the request and reply logged by the step (Last(hist'))
   and the states before and after it; the ...Step bodies are reused by MetaDBTrace. *)
Op == Last(hist')
IsOp(a) == hist' # hist /\ Op.a = a
IsSave == IsOp("Save")

(* an edit succeeds only when it names the entity's current version *)
EditNeedsCurrentVersionStep ==
    IsSave /\ Op.ok /\ ~Op.created => (Op.rq.id \in DOMAIN db.ent /\ db.ent[Op.rq.id].ver = Op.rq.old)
EditNeedsCurrentVersion == [][EditNeedsCurrentVersionStep]_vars
(* ... and an edit that names it and changes neither name nor type is accepted (mechanism) *)
CurrentVersionAccepted ==
    [][IsSave /\ ~Op.rq.create /\ Op.rq.id \in DOMAIN db.ent /\ db.ent[Op.rq.id].ver = Op.rq.old
       /\ db.ent[Op.rq.id].name = Op.rq.name /\ db.ent[Op.rq.id].typ = Op.rq.typ => Op.ok]_vars
(* every successful create or edit gets a new version greater than all previous ones, and
   that is the version the entity carries afterwards *)
VersionsIncreaseStep ==
    IsSave /\ Op.ok => /\ \A v \in issued : Op.rver > v
                       /\ Op.rid \in DOMAIN db'.ent /\ db'.ent[Op.rid].ver = Op.rver
                       /\ \A j \in DOMAIN db.ent \ {Op.rid} : j \in DOMAIN db'.ent /\ db'.ent[j] = db.ent[j]
VersionsIncrease == [][VersionsIncreaseStep]_vars
VersionsUnique ==
    /\ \A i, j \in DOMAIN db.ent : i # j => db.ent[i].ver # db.ent[j].ver
    /\ \A r1, r2 \in db.hrows : r1.ver = r2.ver => r1 = r2
    /\ \A i \in DOMAIN db.ent : db.ent[i].ver \in issued
    /\ \A r \in db.hrows : r.ver \in issued
(* of racing edits from the same version at most one succeeds, and exactly one when each of
   them would have been accepted alone *)
RaceOneWinnerStep ==
    IsOp("Race") => /\ ~(Op.ok1 /\ Op.ok2)
                    /\ (Op.alone1 /\ Op.alone2 => (Op.ok1 \/ Op.ok2))
                    /\ (Op.ok1 => \A v \in issued : Op.ver1 > v)
                    /\ (Op.ok2 => \A v \in issued : Op.ver2 > v)
RaceOneWinner == [][RaceOneWinnerStep]_vars
NameUnique == \A i, j \in DOMAIN db.ent : i # j => ~(db.ent[i].typ = db.ent[j].typ /\ db.ent[i].name = db.ent[j].name)
NamespaceNeverRenamedStep ==
    \A i \in DOMAIN db.ent : i \in DOMAIN db'.ent /\ db'.ent[i].typ = db.ent[i].typ
                             /\ (db.ent[i].typ = TNs => db'.ent[i].name = db.ent[i].name)
NamespaceNeverRenamed == [][NamespaceNeverRenamedStep]_vars
NamespaceExists ==
    \A i \in DOMAIN db.ent :
        LET e == db.ent[i] IN
        /\ (e.typ \in {TMetric, TGroup} /\ NsOf[e.name] # "" => e.ns # 0)
        /\ (e.ns # 0 => e.ns \in DOMAIN db.ent /\ db.ent[e.ns].typ = TNs /\ db.ent[e.ns].name = NsOf[e.name])
(* the journal returns each entity's latest version exactly once, ascending *)
JournalOnceAscending ==
    \A since \in 0..MaxVer(db) :
        LET J == Journal(db, since) IN
        /\ \A i \in DOMAIN db.ent : db.ent[i].ver > since =>
              Cardinality({x \in DOMAIN J : J[x][1] = i}) = 1 /\ \E x \in DOMAIN J : J[x][1] = i /\ J[x][3] = db.ent[i].ver
        /\ \A x \in DOMAIN J : J[x][1] \in DOMAIN db.ent /\ J[x][3] > since
        /\ \A x, y \in DOMAIN J : x < y => J[x][3] < J[y][3]

(* ======================= C16 ======================= *)
ObsEq(r, d, skip) == ~r.err /\ Obs(r, skip) = Obs(d, skip)
ReplayFrom(s) == ReplayF(s.db, SubSeq(binlog, s.off + 1, Len(binlog)))
(* from the empty file and from every snapshot; flood rows changed by an unlogged ResetFlood
   since the snapshot are the known divergence and are left out *)
ReplayReproducesPrimary == \A i \in DOMAIN snaps : ObsEq(ReplayFrom(snaps[i]), db, snaps[i].taint)
(* the same without the exception: violated only through ResetFlood *)
ReplayExact == \A i \in DOMAIN snaps : ObsEq(ReplayFrom(snaps[i]), db, {})

(* ======================= C19 ======================= *)
Bijection == \A p, q \in db.maps : (p.k = q.k \/ p.id = q.id) => p = q
PositiveIds == \A p \in db.maps : p.id > 0
(* a mapping never changes until it is explicitly deleted / overwritten by PutMapping *)
MappingStableStep ==
    /\ (~IsOp("Put") /\ ~IsOp("Del") => db.maps \subseteq db'.maps)
    /\ (IsOp("Del") => \A p \in db.maps : p.id \notin {Op.ids[x] : x \in DOMAIN Op.ids} => p \in db'.maps)
    /\ (IsOp("Put") => \A p \in db.maps : (\A x \in DOMAIN Op.ks : Op.ks[x] # p.k /\ Op.vs[x] # p.id) => p \in db'.maps)
MappingStable == [][MappingStableStep]_vars
GetOrCreateIdempotentStep ==
    IsOp("Goc") => /\ (HasKey(db, Op.key) => Op.kind = "get" /\ Op.rid = IdOf(db, Op.key).id /\ db'.maps = db.maps)
                   /\ (Op.kind \in {"get", "created"} => [k |-> Op.key, id |-> Op.rid] \in db'.maps)
                   /\ (Op.kind = "get" => [k |-> Op.key, id |-> Op.rid] \in db.maps)
                   /\ (Op.kind = "flood" => db' = db)
GetOrCreateIdempotent == [][GetOrCreateIdempotentStep]_vars
DeadIdsNeverReissuedStep == IsOp("Goc") /\ Op.kind = "created" => Op.rid \notin used /\ Op.rid > 0
DeadIdsNeverReissued == [][DeadIdsNeverReissuedStep]_vars
UsedComplete == \A p \in db.maps : p.id \in used
(* flood limit: beyond the global budget a metric never creates more than its allowance *)
FloodBound == \A m \in Metrics : credit[m] >= 0
(* mechanism facts the bound rests on *)
FloodRowBelowCredit == /\ \A m \in DOMAIN db.flood : db.flood[m].free <= credit[m]
                       /\ \A m \in Metrics \ DOMAIN db.flood : MaxBudget <= credit[m]
FloodTimesRounded == \A m \in DOMAIN db.flood : db.flood[m].last <= RoundTime(clock)
ChargedWhenExhausted == exhausted => ~(lastCreated > 0 /\ lastCreated <= GlobalBudget)

Export == Len(hist') >= ExportFrom => PrintT(<<"BEH", ToJson(hist')>>)
===============================================================================
