------------------------------ MODULE AccessMCBig ------------------------------
(* The full product of the token dimensions (about 1e6 sessions); kept apart because TLC
   evaluates every constant definition of the root module at start-up. *)
EXTENDS AccessMC
TokFull == {Fix([alg |-> a, kind |-> kd, kid |-> ki, signer |-> sg, tamper |-> tp, iss |-> is, user |-> us,
                 service |-> FALSE, nbf |-> nb, iat |-> ia, exp |-> ex, bits |-> Good.bits]) :
            a \in TokDims.alg, kd \in TokDims.kind, ki \in TokDims.kid, sg \in TokDims.signer,
            tp \in TokDims.tamper, is \in TokDims.iss, us \in TokDims.user,
            nb \in TokDims.nbf, ia \in TokDims.iat, ex \in TokDims.exp}
MCSessionsFull == TokSess(TokFull, "tok_full")
===============================================================================
