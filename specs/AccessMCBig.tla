------------------------------ MODULE AccessMCBig ------------------------------
(* The full product of the token dimensions at their decisive values (103 680 sessions); kept
   apart because TLC evaluates every constant definition of the root module at start-up.  The
   finer time grid (every edge -6/-5/-4/0/+4/+5/+6 s x clock fraction) is crossed with every
   deviation of up to three dimensions in the families tok / tok_big of AccessMC. *)
EXTENDS AccessMC
FullDims == [alg    |-> {"EdDSA", "HS256", "none"},
             kind   |-> {"token", ""},
             kid    |-> {"k1", "k2", "kx", "", "#"},
             signer |-> {"k1", "k2", "kx"},
             tamper |-> {"none", "payload"},
             iss    |-> {"vkuth", "other", ""},
             user   |-> {"alice", "svc", ""},
             nbf    |-> {NoTime, 0, 5000, 6000},
             iat    |-> {NoTime, 0, 5000, 6000},
             exp    |-> {NoTime, -5000, -4000, 60000}]
TokFull == {Fix([alg |-> a, kind |-> kd, kid |-> ki, signer |-> sg, tamper |-> tp, iss |-> is, user |-> us,
                 service |-> FALSE, nbf |-> nb, iat |-> ia, exp |-> ex, bits |-> Good.bits]) :
            a \in FullDims.alg, kd \in FullDims.kind, ki \in FullDims.kid, sg \in FullDims.signer,
            tp \in FullDims.tamper, is \in FullDims.iss, us \in FullDims.user,
            nb \in FullDims.nbf, ia \in FullDims.iat, ex \in FullDims.exp}
MCSessionsFull == {[mode |-> "token", tok |-> t, prot |-> {}, now |-> 0, ep |-> "query", fam |-> "tok_full"] : t \in TokFull}
===============================================================================
