--------------------------- MODULE SqliteEngineMC ---------------------------
(* Bounded instances of SqliteEngine.  Sizes are the real ones of the harness events
   (8 bytes header + 4 bytes id + filler, padded to 4), the LevStart record (24) and the
   crc32 record (20).  *)
EXTENDS SqliteEngine
MCSize(w) == 12 + 4 * w
MCW3 == {1, 2, 3}
MCW4 == {1, 2, 3, 4}
MCW5 == {1, 2, 3, 4, 5}
MCF3 == {3}
MCF4 == {4}
MCNone == {}
MCSvc == {20}
===============================================================================
