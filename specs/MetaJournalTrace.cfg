SPECIFICATION TraceSpec
CONSTANTS
  Ids <- TrNone
  Names <- TrNone
  Chars <- TrChars
  Replicas <- TrReplicas
  Up <- TrUp
  IsCompact <- TrIsCompact
  MaxBatch = 1
  ChunkSizes = {}
  MaxVer = 1000000
  MaxRestarts = 0
  MaxOps = 0
  OrigNames = FALSE
  OrigSkip = FALSE
VIEW TraceView
CONSTRAINT HighWater
INVARIANTS NoPanic NameLookupCorrect GroupAssignmentCorrect Converged HashAgreement
POSTCONDITION TraceAccepted
CHECK_DEADLOCK FALSE
