INIT Init
NEXT Next
CONSTANTS
  Shards <- MCShards1
  Secs = {7}
  Lens <- BigLens
  HeaderSize = 20
  MagicLen = 4
  MagicCommon = 2
  RotateSize = 52428800
  HalfIsDeleted = TRUE
  TearKs <- BigKs
  WrongSecs <- NoWrong
  AllowCorrupt = FALSE
  MaxPuts = 4
  MaxRestarts = 1
  MaxOps = 5
VIEW View
ACTION_CONSTRAINT Export
CHECK_DEADLOCK FALSE
