SPECIFICATION FairSpec
CONSTANTS
  Writes <- MCW3
  FailW <- MCF3
  Readers = {}
  Role = "master"
  Dur = "wait"
  SvcSizes <- MCNone
  StartSize = 24
  Size <- MCSize
  MaxCrash = 1
  MaxReads = 1
  MaxClose = 0
  AllowDesync = FALSE
  MaxOps = 0
PROPERTY WaitersServed
CHECK_DEADLOCK FALSE
