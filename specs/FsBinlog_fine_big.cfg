INIT Init
NEXT Next
CONSTANTS
  StartSize = 24
  TagSize = 20
  CrcSize = 20
  RotSize = 36
  EvHdr = 8
  CrcEvery = 64
  Chunks <- MCChunksFine
  Lens <- MCLensFine
  MaxOps = 6
  MaxRuns = 1
  Fine = TRUE
  CheckRotTo = TRUE
  CommitAfterSync = TRUE
  MaxTears = 0
  TornMode = "refuse"
  Asaps = {TRUE, FALSE}
VIEW View
INVARIANTS OffsetsChain CommitMonotone CommitAtBoundary CommitDurable StopCommitsAll ReplayExact
CHECK_DEADLOCK FALSE
