SPECIFICATION TraceSpec
CONSTANTS
  BufLen = 200
  WaitPct = 20
  MaxPkts = 0
  MaxErrs = 0
  MaxSpur = 0
  PktLens = {}
  TimeoutSignals = TRUE
  SkipOnErr = TRUE
  ReportRetry = TRUE
  ReportClaim = "swap"
  DeadlineArmed = TRUE
  AllowClose = TRUE
  AllowRecon = TRUE
  RecordHist = FALSE
  MaxHist = 0
VIEW TraceView
CONSTRAINT HighWater
INVARIANTS TrInOrder TrAccounting TrDropOnlyWhenFull TrCounted TrReports Prompt DeadlineHonoured EndStreams EndCounts
POSTCONDITION TraceAccepted
CHECK_DEADLOCK FALSE
