------------------------------ MODULE SamplerMC ------------------------------
(* Bounded instances of Sampler: every input of a family is an initial state.

   A family fixes the SHAPE of the hierarchy (which metric lives in which namespace / group,
   how many fair-key levels it has, which row slots exist) and lets TLC choose everything else
   exhaustively: the size of every slot (or its absence), whale weights, metric / group /
   namespace weights, fixed per-metric budgets, noSampleAgent flags, the option set and the
   budget.  Duplicates by symmetry (identical slots in a different order, attributes of
   metrics without rows) are pruned by Canon. *)
EXTENDS Sampler

CONSTANTS MetricDefs,  \* sequence of [id, ns, grp, fkl]
          SlotDefs,    \* sequence of [m, key, single]
          Sizes,       \* sizes a slot may take; -1 = slot absent, 0 = row of size 0 (discarded by Add)
          WWs,         \* whale weights
          MWs, NWs, GWs, \* effective weights of metrics, namespaces, groups
          Buds,        \* fixed per-metric budgets (0 = none)
          BudAllowed,  \* metrics that may have a fixed budget (the others always have 0)
          NSAs,        \* noSampleAgent values
          OptSets,     \* option records
          Budgets      \* budgets given to Run

MIds == {MetricDefs[k].id : k \in DOMAIN MetricDefs}
NsIds == {MetricDefs[k].ns : k \in DOMAIN MetricDefs}
GrpIds == {MetricDefs[k].grp : k \in DOMAIN MetricDefs}
Def(m) == MetricDefs[CHOOSE k \in DOMAIN MetricDefs : MetricDefs[k].id = m]
NSlots == Len(SlotDefs)
MinOf(S) == CHOOSE x \in S : \A y \in S : x <= y
FalseFirst(S) == IF FALSE \in S THEN FALSE ELSE TRUE

Present(sz, m) == \E k \in 1..NSlots : SlotDefs[k].m = m /\ sz[k] # -1

\* metrics / namespaces / groups without rows have default attributes
AttrCanon(sz, mw, bud, nsa, nw, gw) ==
  /\ \A m \in MIds : ~Present(sz, m) => mw[m] = MinOf(MWs) /\ bud[m] = MinOf(Buds) /\ nsa[m] = FalseFirst(NSAs)
  /\ \A n \in NsIds : (\A m \in MIds : Def(m).ns = n => ~Present(sz, m)) => nw[n] = MinOf(NWs)
  /\ \A g \in GrpIds : (\A m \in MIds : Def(m).grp = g => ~Present(sz, m)) => gw[g] = MinOf(GWs)

MkItems(sz, ww) ==
  LET all == [k \in 1..NSlots |-> [m |-> SlotDefs[k].m, size |-> sz[k], ww |-> ww[k], key |-> SlotDefs[k].key,
                                    single |-> SlotDefs[k].single]]
  IN SelectSeq(all, LAMBDA x : x.size # -1)

\* options that do not matter for the chosen attributes are not varied twice
OptRelevant(o, nsa) ==
  /\ (\A m \in MIds : ~nsa[m]) => (~o.agent /\ ~o.nonsa)
  /\ ~o.agent => ~o.nonsa

\* Staged so that the workers share the enumeration: the initial states fix options, budget and
\* attributes (NewSampler's arguments and the metric storage); MCSlot decides one row slot at a
\* time (canonical order among identical slots), MCNew hands the finished bucket to the sampler.
VARIABLE gen      \* slots decided so far: sequence of [size, ww]
mcvars == <<vars, gen>>
MCView == <<input, phase, nadd, out, ro, plan, todo, gen>>

MCInit ==
  \E mw \in [MIds -> MWs], bud \in [MIds -> Buds], nsa \in [MIds -> NSAs] :
  (\A m \in MIds \ BudAllowed : bud[m] = 0) /\
  \E nw \in [NsIds -> NWs], gw \in [GrpIds -> GWs] :
  \E o \in OptSets, b \in Budgets :
     /\ OptRelevant(o, nsa)
     /\ input = [opts |-> o, nsW |-> nw, grpW |-> gw,
                 meta |-> [m \in MIds |-> [ns |-> Def(m).ns, grp |-> Def(m).grp, w |-> mw[m], nsa |-> nsa[m],
                                           fkl |-> Def(m).fkl, bud |-> bud[m]]],
                 items |-> <<>>, budget |-> b]
     /\ phase = "new" /\ nadd = 0 /\ out = <<>> /\ ro = <<>> /\ plan = {} /\ todo = {} /\ gen = <<>>

MCSlot ==
  /\ phase = "new" /\ Len(gen) < NSlots
  /\ LET k == Len(gen) + 1 IN
     \E s \in Sizes, w \in WWs :
       /\ s < 1 => w = MinOf(WWs)
       /\ (k > 1 /\ SlotDefs[k - 1] = SlotDefs[k]) =>
             \/ gen[k - 1].size > s
             \/ (gen[k - 1].size = s /\ gen[k - 1].ww >= w)
       /\ gen' = Append(gen, [size |-> s, ww |-> w])
  /\ UNCHANGED vars

MCNew ==
  /\ phase = "new" /\ Len(gen) = NSlots
  /\ LET sz == [k \in 1..NSlots |-> gen[k].size]
         ww == [k \in 1..NSlots |-> gen[k].ww]
     IN /\ \E k \in 1..NSlots : sz[k] # -1
        /\ AttrCanon(sz, [m \in MIds |-> input.meta[m].w], [m \in MIds |-> input.meta[m].bud],
                     [m \in MIds |-> input.meta[m].nsa], input.nsW, input.grpW)
        /\ input' = [input EXCEPT !.items = MkItems(sz, ww)]
        /\ out' = [i \in 1..Len(MkItems(sz, ww)) |-> <<>>]
  /\ phase' = "add" /\ gen' = <<>>
  /\ UNCHANGED <<nadd, ro, plan, todo>>

MCNext == MCSlot \/ MCNew \/ (Next /\ UNCHANGED gen)
MCNextFast == MCSlot \/ MCNew \/ (NextFast /\ UNCHANGED gen)

-------------------------------------------------------------------------------
(* Export for the S->I replay: one line per final state (input + what the model fixes). *)
LeafRec(L) == [items |-> L.items, b |-> L.b, d |-> L.d, size |-> L.size, fn |-> LeafFn(L), fd |-> LeafFd(L),
               pos |-> WhalePos(L), uniform |-> UniformLeaf(L), unitclamp |-> ~NoUnitClamp(L), single |-> LeafSingle(L)]
\* Rows the PROPERTY obliges to be kept with factor 1, computed from the node records with MustFit (the
\* least fixpoint of "fits its weight-proportional share of what the kept siblings left"), i.e. without
\* the running (budget, sumWeight) bookkeeping of the transcribed loops; plus fixed-budget metrics within
\* their budget and noSampleAgent rows.  (FairShareRemaining / FitIsJustified state that the mechanism's
\* keep records coincide with it.)
MustRows ==
  UNION {UNION {c.items : c \in {c \in n.kids :
                   \/ (~c.fixed /\ c.id \in MustFit({k \in n.kids : ~k.fixed}, n.B, n.W))
                   \/ (c.fixed /\ c.size <= c.b)}} : n \in Nodes(plan)}
  \cup UNION {x.items : x \in {y \in Keeps(plan) : y.why = "nsa"}}
MustMatchesMechanism == Done => MustRows = UNION {x.items : x \in Keeps(plan)}
ExportRec ==
  [input |-> input, rmode |-> RoundMode, smode |-> IF IsDet THEN "det" ELSE SelectMode,
   must |-> MustRows,
   nsakeep |-> UNION {x.items : x \in {y \in Keeps(plan) : y.why = "nsa"}},
   leaves |-> {LeafRec(L) : L \in Leaves(plan)},
   forced |-> Forced,
   out |-> [i \in 1..N |-> <<IF out[i][1].d = "keep" THEN 1 ELSE 0, out[i][1].fn, out[i][1].fd, out[i][1].q>>]]
ExportDone == Done => PrintT(<<"BEH", ToJson(ExportRec)>>)

-------------------------------------------------------------------------------
(* Shapes *)
Sz124 == {-1, 1, 2, 4}
Sz123 == {-1, 1, 2, 3}
Sz12 == {-1, 1, 2}
Sz13 == {-1, 1, 3}
Sz14 == {-1, 1, 4}
Sz0123 == {-1, 0, 1, 2, 3}
Sz1234 == {-1, 1, 2, 3, 4}
Sz23 == {-1, 2, 3}
Sz2 == {-1, 2}
Sz3 == {-1, 3}
Sz234 == {-1, 2, 3, 4}
O(agent, single, nonsa, budgets, ns, grp, keys, quota) ==
  [agent |-> agent, single |-> single, nonsa |-> nonsa, budgets |-> budgets, ns |-> ns, grp |-> grp,
   keys |-> keys, quota |-> quota]
T == TRUE
F == FALSE
MD(id, ns, grp, fkl) == [id |-> id, ns |-> ns, grp |-> grp, fkl |-> fkl]
SD(m, key) == [m |-> m, key |-> key, single |-> TRUE]
SDn(m, key) == [m |-> m, key |-> key, single |-> FALSE]

\* flat: metric level + leaf sampling (whales, doubling, selection)
FlatMetrics == <<MD(1, 0, 0, 0), MD(2, 0, 0, 0)>>
FlatSlots == <<SD(1, <<>>), SD(1, <<>>), SD(1, <<>>), SD(2, <<>>), SD(2, <<>>), SD(2, <<>>)>>
FlatSlots5 == <<SD(1, <<>>), SD(1, <<>>), SD(1, <<>>), SD(2, <<>>), SD(2, <<>>)>>
FlatSlotsBig == <<SD(1, <<>>), SD(1, <<>>), SD(1, <<>>), SD(1, <<>>), SD(2, <<>>), SD(2, <<>>), SD(2, <<>>), SD(3, <<>>)>>
Flat3Metrics == <<MD(1, 0, 0, 0), MD(2, 0, 0, 0), MD(3, 0, 0, 0)>>
WideSlots == <<SD(1, <<>>), SD(1, <<>>), SD(1, <<>>), SD(1, <<>>), SD(1, <<>>), SD(1, <<>>), SD(1, <<>>), SD(1, <<>>), SD(2, <<>>)>>
OptsPlain == {O(F, F, F, F, F, F, F, F)}

\* tree: namespaces x groups x metrics
TreeMetrics == <<MD(1, 1, 11, 0), MD(2, 1, 11, 0), MD(3, 1, 12, 0), MD(4, 2, 21, 0), MD(5, 2, 22, 0)>>
TreeSlots == <<SD(1, <<>>), SD(1, <<>>), SD(2, <<>>), SD(3, <<>>), SD(4, <<>>), SD(4, <<>>), SD(5, <<>>)>>
TreeSlots5 == <<SD(1, <<>>), SD(1, <<>>), SD(3, <<>>), SD(4, <<>>), SD(5, <<>>)>>
TreeSlots4 == <<SD(1, <<>>), SD(1, <<>>), SD(3, <<>>), SD(4, <<>>)>>
OptsTree == {O(F, F, F, F, T, T, F, F), O(F, F, F, F, T, F, F, F), O(F, F, F, F, F, T, F, F)}
OptsTreeFull == {O(F, F, F, F, T, T, F, F)}

\* keys: fair keys (one and two levels) next to a plain metric
KeyMetrics == <<MD(1, 0, 0, 1), MD(2, 0, 0, 2), MD(3, 0, 0, 0)>>
KeySlots == <<SD(1, <<1>>), SD(1, <<1>>), SD(1, <<2>>), SD(2, <<1, 1>>), SD(2, <<1, 2>>), SD(2, <<2, 1>>), SD(3, <<>>)>>
KeySlots6 == <<SD(1, <<1>>), SD(1, <<1>>), SD(1, <<2>>), SD(2, <<1, 1>>), SD(2, <<1, 2>>), SD(2, <<2, 1>>)>>
OptsKeysOn == {O(F, F, F, F, F, F, T, F)}
OptsKeys == {O(F, F, F, F, F, F, T, F), O(F, F, F, F, F, F, F, F)}

\* budgets: fixed per-metric budgets, noSampleAgent, agent mode, SampleKeepSingle
BudMetrics == <<MD(1, 1, 0, 0), MD(2, 1, 0, 0), MD(3, 2, 0, 0)>>
BudSlots == <<SD(1, <<>>), SD(1, <<>>), SDn(2, <<>>), SD(2, <<>>), SD(3, <<>>), SD(3, <<>>)>>
BudSlots5 == <<SD(1, <<>>), SD(1, <<>>), SDn(2, <<>>), SD(3, <<>>), SD(3, <<>>)>>
OptsBud == {O(F, F, F, T, F, F, F, F), O(F, F, F, T, T, F, F, F), O(F, F, F, F, T, F, F, F)}
AgentMetrics == <<MD(1, 1, 0, 0), MD(2, 2, 0, 0)>>
AgentSlots == <<SD(1, <<>>), SD(1, <<>>), SDn(2, <<>>), SD(2, <<>>)>>
\* fixfirst: an over-budget fixed-budget metric (metric 1) that can sort before >= 2 regular siblings whose
\* sizes / weights sit around the share boundary (3 regular metrics, equal and unequal weights)
FixMetrics == <<MD(1, 0, 0, 0), MD(2, 0, 0, 0), MD(3, 0, 0, 0), MD(4, 0, 0, 0)>>
FixSlots == <<SD(1, <<>>), SD(2, <<>>), SD(2, <<>>), SD(3, <<>>), SD(4, <<>>)>>
FixSlotsBig == <<SD(1, <<>>), SD(2, <<>>), SD(2, <<>>), SD(3, <<>>), SD(3, <<>>), SD(4, <<>>)>>
Sz34 == {-1, 3, 4}
Sz345 == {-1, 3, 4, 5}
OnlyMetric1 == {1}
AllMetrics == MIds
OptsBud2 == {O(F, F, F, T, F, F, F, F), O(F, F, F, F, T, F, F, F)}
OptsBudOnly == {O(F, F, F, T, F, F, F, F)}
OptsAgent3 == {O(T, F, F, T, F, F, F, F), O(T, T, F, F, F, F, F, F), O(T, F, T, F, T, F, F, F)}
OptsAgent == {O(T, F, F, T, F, F, F, F), O(T, F, T, T, F, F, F, F), O(T, T, F, F, F, F, F, F), O(F, T, F, F, F, F, F, F),
              O(T, F, F, F, T, F, F, F)}

\* quota: SampleQuota with namespaces and groups (aggregator: keys off)
OptsQuota == {O(F, F, F, F, T, T, F, T), O(F, F, F, F, F, F, F, T)}
===============================================================================
