SPECIFICATION Spec
CONSTANTS
  BufLen = 10
  WaitPct = 20
  MaxPkts = 3
  MaxErrs = 1
  MaxSpur = 0
  PktLens <- Len1
  TimeoutSignals = TRUE
  SkipOnErr = TRUE
  ReportRetry = TRUE
  ReportClaim = "swap"
  DeadlineArmed = TRUE
  AllowClose = FALSE
  AllowRecon = FALSE
  RecordHist = FALSE
  MaxHist = 0
VIEW View
INVARIANTS InOrderNoLoss
CHECK_DEADLOCK FALSE
