INIT Init
NEXT Next
CONSTANTS
  MaxN = 6
  Ids <- MCIds
  Hashes <- MCHashes
  KeyTimes <- MCKeyTimes
  Times <- MCTimes
  Olds <- MCOlds
  Lens <- MCLens
  HWs <- MCHWs
  Span = 4
VIEW View
INVARIANTS ShardInRange TimeIndependent AgentApiAgree HelpersAgree UnshardedReadsAll SecondaryDiffers HashInRange ConfigConsistent PrimaryIsOwner ReplicaOfShardAlive SpareDiffers SpareShared NoneOnlyIfDown FiledOwnSoon TickOwn AddressedToMe Theorems
ACTION_CONSTRAINT Export
CHECK_DEADLOCK FALSE
