-------------------------------- MODULE Ingest --------------------------------
(* Agent ingestion of one metric event (property C12).

   Code transcribed (pinned tree):
     cmd/statshouse/worker.go         HandleMetrics, fillMetricMeta       -> MetricOf(m).lookup / Decide
     internal/agent/agent_mapping.go  Agent.Map, mapAllTags               -> MapTags / MapStep
     internal/data_model/validation.go MapValidateTag, ValidateMetricData -> MapStep / ValidateData
     internal/format/format.go        ValidateCounter, ValidateValue      -> ValidateCounter/Value
     internal/agent/agent.go          Agent.ApplyMetric, Agent.shard      -> Decide (status routing)
     internal/agent/agent_shard.go    Shard.ApplyValues/Unique/Counter,
                                      resolutionShardFromHashLocked       -> Contrib / RowTs
     internal/data_model/bucket.go    MultiValue.ApplyValues/ApplyUnique,
                                      ItemValue.Merge                     -> Contrib / MergeAgg

   An event is a tuple of *classes*: metric description, counter, payload (values, uniques,
   histogram), tag list, timestamp.  The classes are defined below by name; products of subsets
   of them form the blocks (Block) that the cfg files select for enumeration.  Numbers are records [k, n, d]: k = "fin" is the rational
   n/d, every other k is a special float class (nan, pinf, ninf, big = finite above
   MaxFloat32, nbig = finite below -MaxFloat32, maxf = exactly MaxFloat32, nmaxf).

   State: the agent's shard buckets projected to `rows` (metric rows with their aggregates)
   and `stats` (ingestion-status rows with their counts); Ingest is the only action (one call
   of worker.HandleMetrics).  Blocks of length 1 enumerate the decision table; longer blocks
   and the scripted (seeded random) behaviours also check that rows and status records
   accumulate.

   The PROPERTY section states C12 from its text, independently of the order in which the
   code checks things (Valid, TrueReasons, DocSemantics); the invariants say that the
   transcribed mechanism satisfies it.                                                    *)
EXTENDS Integers, Sequences, FiniteSets, TLC, Json

CONSTANTS Blocks,    \* names of the blocks of the input space to enumerate (see Block below)
          Script,    \* sequence of scripted behaviours, each a sequence of <<m, c, p, t, s>> class names
                     \* (seeded random samples of the full product, written by checks/C12.py)
          T0,        \* shard.CurrentTime of the test agent (seconds)
          FutureSlots, \* superQueueFutureSlots = 3
          TagShift   \* format.TagIDShift = 100

VARIABLES rows,   \* row key -> aggregate
          stats,  \* status key -> count
          nAcc, nRej,   \* ghost: events accepted / rejected so far
          gcnt,   \* ghost: sum of the exact counts contributed so far
          last,   \* ghost: the last event with its decision (what the invariants look at)
          first,  \* <<block, metric class, counter class, <<>> >> of the behaviour's first event, or
                  \* <<"script", "", "", sc>>: the scripted behaviour sc; chosen initially (an input;
                  \* it also lets TLC's workers share the enumeration)
          hist

vars == <<rows, stats, nAcc, nRej, gcnt, last, first, hist>>
View == <<rows, stats, nAcc, nRej, gcnt, last, first>>

-------------------------------------------------------------------------------
(* Numbers *)
F(n)    == [k |-> "fin", n |-> n, d |-> 1]
X(kind) == [k |-> kind, n |-> 0, d |-> 1]
Abs(x)  == IF x < 0 THEN -x ELSE x
RECURSIVE Gcd(_, _)
Gcd(a, b) == IF b = 0 THEN a ELSE Gcd(b, a % b)
Q(n, d) == IF n = 0 THEN F(0) ELSE LET g == Gcd(Abs(n), d) IN [k |-> "fin", n |-> n \div g, d |-> d \div g]

IsFin(x)  == x.k = "fin"
IsNaN(x)  == x.k = "nan"
IsZero(x) == x.k = "fin" /\ x.n = 0                           \* also -0.0
IsNeg(x)  == x.k \in {"ninf", "nbig", "nmaxf"} \/ (x.k = "fin" /\ x.n < 0)
AboveMax(x)    == x.k \in {"pinf", "big"}                      \* f > MaxFloat32
BelowNegMax(x) == x.k \in {"ninf", "nbig"}                     \* f < -MaxFloat32

RAdd(a, b) == Q(a.n * b.d + b.n * a.d, a.d * b.d)
RMul(a, b) == Q(a.n * b.n, a.d * b.d)
RDiv(a, b) == Q(a.n * b.d, a.d * b.n)                          \* b > 0
REq(a, b)  == a.n * b.d = b.n * a.d
RLt(a, b)  == a.n * b.d < b.n * a.d
Ord(x) == CASE x.k = "nmaxf" -> 0 [] x.k = "fin" -> 1 [] x.k = "maxf" -> 2 [] OTHER -> 3
NumLt(a, b) == IF IsFin(a) /\ IsFin(b) THEN RLt(a, b) ELSE Ord(a) < Ord(b)

RECURSIVE RSum(_, _)
RSum(s, i) == IF i > Len(s) THEN F(0) ELSE RAdd(s[i], RSum(s, i + 1))

MinOf(S) == CHOOSE x \in S : \A y \in S : x <= y

-------------------------------------------------------------------------------
(* The classes.  Counter classes. *)
CtrOf(c) ==
  CASE c = "c0"    -> F(0)          \* absent (or 0, or -0.0)
    [] c = "c1"    -> F(1)
    [] c = "c2"    -> F(2)
    [] c = "c3"    -> F(3)
    [] c = "c6"    -> F(6)
    [] c = "c5h"   -> Q(5, 2)
    [] c = "cneg"  -> F(-1)
    [] c = "cnegh" -> Q(-1, 2)
    [] c = "cnan"  -> X("nan")
    [] c = "cpinf" -> X("pinf")
    [] c = "cninf" -> X("ninf")
    [] c = "cbig"  -> X("big")
    [] c = "cnbig" -> X("nbig")
    [] c = "cmaxf" -> X("maxf")
AllCounters == {"c0", "c1", "c2", "c3", "c6", "c5h", "cneg", "cnegh", "cnan", "cpinf", "cninf",
                "cbig", "cnbig", "cmaxf"}

(* Payload classes: values, uniques (int64, always finite), histogram <<value, weight>> *)
P(v, u, h) == [v |-> v, u |-> u, h |-> h]
E(v, w) == [v |-> v, w |-> w]
PayloadOf(p) ==
  CASE p = "none"   -> P(<<>>, <<>>, <<>>)
    [] p = "v2"     -> P(<<F(2)>>, <<>>, <<>>)
    [] p = "v123"   -> P(<<F(1), F(2), F(3)>>, <<>>, <<>>)
    [] p = "v55"    -> P(<<F(5), F(5)>>, <<>>, <<>>)
    [] p = "vneg"   -> P(<<F(-3), F(4)>>, <<>>, <<>>)
    [] p = "vfrac"  -> P(<<Q(3, 2)>>, <<>>, <<>>)
    [] p = "vzero"  -> P(<<F(0)>>, <<>>, <<>>)
    [] p = "vmaxf"  -> P(<<X("maxf")>>, <<>>, <<>>)
    [] p = "vnmaxf" -> P(<<X("nmaxf"), F(1)>>, <<>>, <<>>)
    [] p = "vnan"   -> P(<<X("nan")>>, <<>>, <<>>)
    [] p = "v1nan"  -> P(<<F(1), X("nan")>>, <<>>, <<>>)
    [] p = "vnan1"  -> P(<<X("nan"), F(1)>>, <<>>, <<>>)
    [] p = "vpinf"  -> P(<<X("pinf")>>, <<>>, <<>>)
    [] p = "vninf"  -> P(<<F(2), X("ninf")>>, <<>>, <<>>)
    [] p = "vbig"   -> P(<<X("big")>>, <<>>, <<>>)
    [] p = "vnbig"  -> P(<<X("nbig")>>, <<>>, <<>>)
    [] p = "vnanbig" -> P(<<X("nan"), X("big")>>, <<>>, <<>>)
    [] p = "vbignan" -> P(<<X("big"), X("nan")>>, <<>>, <<>>)
    [] p = "u7"     -> P(<<>>, <<7>>, <<>>)
    [] p = "u3"     -> P(<<>>, <<17, 25, 37>>, <<>>)
    [] p = "udup"   -> P(<<>>, <<5, 5, 9>>, <<>>)
    [] p = "uneg"   -> P(<<>>, <<-4>>, <<>>)
    [] p = "h23"    -> P(<<>>, <<>>, <<E(F(2), F(3))>>)
    [] p = "h2"     -> P(<<>>, <<>>, <<E(F(1), F(2)), E(F(4), F(1))>>)
    [] p = "hz"     -> P(<<>>, <<>>, <<E(F(5), F(0))>>)
    [] p = "hz2"    -> P(<<>>, <<>>, <<E(F(5), F(0)), E(F(1), F(2))>>)
    [] p = "hhalf"  -> P(<<>>, <<>>, <<E(F(3), Q(1, 2))>>)
    [] p = "hmaxfw" -> P(<<>>, <<>>, <<E(F(2), X("maxf"))>>)
    [] p = "hnanv"  -> P(<<>>, <<>>, <<E(X("nan"), F(1))>>)
    [] p = "hbigv"  -> P(<<>>, <<>>, <<E(X("big"), F(1))>>)
    [] p = "hnbigv" -> P(<<>>, <<>>, <<E(X("nbig"), F(1))>>)
    [] p = "hnanw"  -> P(<<>>, <<>>, <<E(F(1), X("nan"))>>)
    [] p = "hnegw"  -> P(<<>>, <<>>, <<E(F(1), F(-1))>>)
    [] p = "hbigw"  -> P(<<>>, <<>>, <<E(F(1), X("big"))>>)
    [] p = "hpinfw" -> P(<<>>, <<>>, <<E(F(1), X("pinf"))>>)
    [] p = "hokbad" -> P(<<>>, <<>>, <<E(F(2), F(3)), E(F(1), F(-1))>>)
    [] p = "hnanvnegw" -> P(<<>>, <<>>, <<E(X("nan"), F(-1))>>)
    [] p = "v2h"    -> P(<<F(2)>>, <<>>, <<E(F(4), F(2))>>)
    [] p = "v123hz" -> P(<<F(1), F(2), F(3)>>, <<>>, <<E(F(5), F(0))>>)
    [] p = "vnanhnan" -> P(<<X("nan")>>, <<>>, <<E(F(1), X("nan"))>>)
    [] p = "v2hneg" -> P(<<F(2)>>, <<>>, <<E(F(1), F(-1))>>)
    [] p = "vu"     -> P(<<F(2)>>, <<7>>, <<>>)
    [] p = "vnanu"  -> P(<<X("nan")>>, <<7>>, <<>>)
    [] p = "hu"     -> P(<<>>, <<7>>, <<E(F(2), F(3))>>)
    [] p = "vhu"    -> P(<<F(1)>>, <<7, 8>>, <<E(F(2), F(3))>>)
AllPayloads == {"none", "v2", "v123", "v55", "vneg", "vfrac", "vzero", "vmaxf", "vnmaxf", "vnan",
                "v1nan", "vnan1", "vpinf", "vninf", "vbig", "vnbig", "vnanbig", "vbignan", "u7", "u3", "udup",
                "uneg", "h23", "h2", "hz", "hz2", "hhalf", "hmaxfw", "hnanv", "hbigv", "hnbigv",
                "hnanw", "hnegw", "hbigw", "hpinfw", "hokbad", "hnanvnegw", "v2h", "v123hz",
                "vnanhnan", "v2hneg", "vu", "vnanu", "hu", "vhu"}

(* Tag lists: sequences of [n |-> name atom, v |-> value atom].
   Name atoms (against the user metric layout of the harness):
     env=tag 0, t1=tag 1, t1legacy="key1", raw=tag 2 (raw int32), raw64=tag 3 (raw int64, high
     half goes to tag 4), hi64=tag 4, named=tag 5 addressed by its custom name, top="_s"
     (tag 47), host="_h", unknown (no such tag), draft (a draft tag name), badutf (not UTF-8).
   Value atoms: plain, plain2 (unmapped strings), mapped (string present in the mappings
     cache), empty, spacey (needs normalisation), long (> 128 bytes), badutf, corrupt (valid
     UTF-8 containing the corrupted-balancer marker), corruptbad (marker + bad UTF-8); for raw
     tags rawok, rawneg, rawzero, rawbad; for the raw64 tag r64big (high half # 0), r64small
     (high half = 0), rawbad. *)
T(n, v) == [n |-> n, v |-> v]
TagsOf(t) ==
  CASE t = "none"      -> <<>>
    [] t = "t1"        -> <<T("t1", "plain")>>
    [] t = "t1mapped"  -> <<T("t1", "mapped")>>
    [] t = "env"       -> <<T("env", "mapped")>>
    [] t = "t1empty"   -> <<T("t1", "empty")>>
    [] t = "t1spacey"  -> <<T("t1", "spacey")>>
    [] t = "t1long"    -> <<T("t1", "long")>>
    [] t = "named"     -> <<T("named", "plain")>>
    [] t = "legacy"    -> <<T("t1legacy", "plain")>>
    [] t = "unknown"   -> <<T("unknown", "plain")>>
    [] t = "unkbadval" -> <<T("unknown", "badutf")>>
    [] t = "draft"     -> <<T("draft", "plain")>>
    [] t = "badname"   -> <<T("badutf", "plain")>>
    [] t = "badval"    -> <<T("t1", "badutf")>>
    [] t = "corrupt"   -> <<T("t1", "corrupt")>>
    [] t = "corruptbad" -> <<T("t1", "corruptbad")>>
    [] t = "rawok"     -> <<T("raw", "rawok")>>
    [] t = "rawneg"    -> <<T("raw", "rawneg")>>
    [] t = "rawzero"   -> <<T("raw", "rawzero")>>
    [] t = "rawbad"    -> <<T("raw", "rawbad")>>
    [] t = "rawempty"  -> <<T("raw", "empty")>>
    [] t = "rawbadutf" -> <<T("raw", "badutf")>>
    [] t = "r64big"    -> <<T("raw64", "r64big")>>
    [] t = "r64small"  -> <<T("raw64", "r64small")>>
    [] t = "r64bad"    -> <<T("raw64", "rawbad")>>
    [] t = "r64twice"  -> <<T("raw64", "r64big"), T("hi64", "plain")>>
    [] t = "twice"     -> <<T("t1", "plain"), T("t1", "plain2")>>
    [] t = "twiceempty" -> <<T("t1", "plain"), T("t1", "empty")>>
    [] t = "twicelegacy" -> <<T("t1", "plain"), T("t1legacy", "plain2")>>
    [] t = "top"       -> <<T("top", "plain")>>
    [] t = "topmapped" -> <<T("top", "mapped")>>
    [] t = "host"      -> <<T("host", "plain")>>
    [] t = "hosttwice" -> <<T("host", "plain"), T("host", "plain2")>>
    [] t = "goodbad"   -> <<T("t1", "plain"), T("badutf", "plain")>>
    [] t = "badbad"    -> <<T("t1", "badutf"), T("named", "corrupt")>>
    [] t = "unkbad"    -> <<T("unknown", "plain"), T("t1", "corrupt")>>
    [] t = "draftbad"  -> <<T("draft", "plain"), T("badutf", "plain")>>
    [] t = "legacybad" -> <<T("t1legacy", "badutf")>>
    [] t = "rawbadthenbad" -> <<T("raw", "rawbad"), T("t1", "corrupt")>>
    [] t = "many"      -> <<T("env", "mapped"), T("t1", "plain"), T("named", "plain2"), T("raw", "rawok"), T("top", "plain")>>
    [] t = "manywarn"  -> <<T("unknown", "plain"), T("draft", "plain"), T("t1legacy", "plain"), T("t1", "plain2"), T("raw", "rawbad")>>
AllTagLists == {"none", "t1", "t1mapped", "env", "t1empty", "t1spacey", "t1long", "named", "legacy",
                "unknown", "unkbadval", "draft", "badname", "badval", "corrupt", "corruptbad", "rawok",
                "rawneg", "rawzero", "rawbad", "rawempty", "rawbadutf", "r64big", "r64small", "r64bad",
                "r64twice", "twice", "twiceempty", "twicelegacy", "top", "topmapped", "host", "hosttwice",
                "goodbad", "badbad", "unkbad", "draftbad", "legacybad", "rawbadthenbad", "many", "manywarn"}
GenericNames == {"env", "top", "host", "unknown", "badutf"}   \* mean the same for every metric (builtin
                                                               \* metrics declare nearly all other tags raw)
GenericList(t) == \A i \in DOMAIN TagsOf(t) : TagsOf(t)[i].n \in GenericNames

HostIdx == -2
NameInfo(n) ==    \* Name2TagAgentFastBytes + GetTagDraft for the harness' user metric
  CASE n = "env"      -> [cls |-> "known", idx |-> 0, legacy |-> FALSE, kind |-> "plain"]
    [] n = "t1"       -> [cls |-> "known", idx |-> 1, legacy |-> FALSE, kind |-> "plain"]
    [] n = "t1legacy" -> [cls |-> "known", idx |-> 1, legacy |-> TRUE, kind |-> "plain"]
    [] n = "raw"      -> [cls |-> "known", idx |-> 2, legacy |-> FALSE, kind |-> "raw"]
    [] n = "raw64"    -> [cls |-> "known", idx |-> 3, legacy |-> FALSE, kind |-> "raw64"]
    [] n = "hi64"     -> [cls |-> "known", idx |-> 4, legacy |-> FALSE, kind |-> "plain"]
    [] n = "named"    -> [cls |-> "known", idx |-> 5, legacy |-> FALSE, kind |-> "plain"]
    [] n = "top"      -> [cls |-> "known", idx |-> 47, legacy |-> FALSE, kind |-> "plain"]
    [] n = "host"     -> [cls |-> "known", idx |-> HostIdx, legacy |-> FALSE, kind |-> "plain"]
    [] n = "unknown"  -> [cls |-> "unknown", idx |-> 0, legacy |-> FALSE, kind |-> "plain"]
    [] n = "draft"    -> [cls |-> "draft", idx |-> 0, legacy |-> FALSE, kind |-> "plain"]
    [] n = "badutf"   -> [cls |-> "bad", idx |-> 0, legacy |-> FALSE, kind |-> "plain"]

(* Metric description classes.
   found: the name resolves (journal or builtin table); meta: MetricMeta is set in the header;
   recv: receivable (not disabled, builtin allowed); shard: "p" sharding works, "fail" it does
   not; dual: second fixed shard configured, written from timestamp dualFrom on. *)
MetricOf(m) ==
  LET base == [found |-> TRUE, badname |-> FALSE, lookup |-> "ok", shard |-> TRUE, pct |-> FALSE,
               res |-> 1, rich |-> TRUE, dual |-> FALSE, dualFrom |-> 0] IN
  CASE m = "plain"      -> base
    [] m = "pct"        -> [base EXCEPT !.pct = TRUE]
    [] m = "res5"       -> [base EXCEPT !.res = 5]
    [] m = "disabled"   -> [base EXCEPT !.lookup = "ErrMetricDisabled"]
    [] m = "shardoor"   -> [base EXCEPT !.shard = FALSE]                 \* fixed shard out of range
    [] m = "dual"       -> [base EXCEPT !.dual = TRUE, !.dualFrom = T0]  \* shard + shard2 from T0
    [] m = "builtinok"  -> [base EXCEPT !.rich = FALSE, !.res = 60]      \* __usage_mem
    [] m = "builtinno"  -> [base EXCEPT !.rich = FALSE, !.lookup = "ErrMetricBuiltin"]   \* __agg_keep_alive
    [] m = "builtindist" -> [base EXCEPT !.rich = FALSE, !.lookup = "ErrMetricBuiltin", !.shard = FALSE] \* __src_ingestion_status
    [] m = "notfound"   -> [base EXCEPT !.found = FALSE, !.lookup = "ErrMetricNotFound"]
    [] m = "badname"    -> [base EXCEPT !.found = FALSE, !.badname = TRUE, !.lookup = "ErrMetricNameEncoding"]
AllMetrics == {"plain", "pct", "res5", "disabled", "shardoor", "dual", "builtinok", "builtinno",
               "builtindist", "notfound", "badname"}

StampOf(s) ==
  CASE s = "none" -> 0                \* absent: the worker takes time.Now()
    [] s = "cur"  -> T0
    [] s = "past" -> T0 - 1
    [] s = "old"  -> T0 - 3000
    [] s = "fut3" -> T0 + FutureSlots
    [] s = "fut4" -> T0 + FutureSlots + 1
    [] s = "far"  -> T0 + 100000
AllStamps == {"none", "cur", "past", "old", "fut3", "fut4", "far"}

(* Blocks of the input space.  A behaviour draws all its events from one block: the product
   of the block's class sets, up to `ops` events long.  Blocks with ops = 1 enumerate the
   decision table; the others check accumulation of rows and status records. *)
B(ms, cs, ps, ts, ss, n) == [metrics |-> ms, counters |-> cs, payloads |-> ps, taglists |-> ts, stamps |-> ss, ops |-> n]
Block(b) ==
  CASE b = "data"  -> B({"plain", "pct"}, AllCounters, AllPayloads, {"none", "t1"}, {"cur"}, 1)
    [] b = "tags"  -> B({"plain"}, {"c0", "c3", "cnan"}, {"none", "v123", "u3", "vnan"}, AllTagLists, {"cur"}, 1)
    [] b = "meta"  -> B(AllMetrics, {"c0", "c1", "cneg"}, {"none", "v123"},
                        {"none", "unknown", "badname", "top", "host", "env"}, AllStamps, 1)
    [] b = "dataq" -> B({"plain"}, AllCounters, AllPayloads, {"none", "t1"}, {"cur"}, 1)            \* quick tier
    [] b = "metaq" -> B(AllMetrics, {"c0", "c1", "cneg"}, {"none", "v123"},
                        {"none", "unknown", "badname", "top"}, {"none", "cur", "fut4"}, 1)            \* quick tier
    [] b = "cross" -> B({"plain", "pct", "res5", "dual"}, {"c0", "c2", "c6", "c5h", "cneg", "cmaxf"},
                        {"none", "v123", "v55", "vneg", "vfrac", "vmaxf", "v1nan", "u3", "udup", "h2", "hz2", "hhalf", "v2h", "vu"},
                        {"none", "t1mapped", "named", "legacy", "unknown", "draft", "corrupt", "rawbad", "r64big", "twice", "topmapped", "manywarn"},
                        {"none", "cur", "fut4"}, 1)
    [] b = "seq"   -> B({"plain", "notfound"}, {"c0", "c6"}, {"none", "v123", "u3"}, {"none", "badname"}, {"cur"}, 2)
    [] b = "seq3"  -> B({"plain"}, {"c0", "c6"}, {"none", "v123", "u3"}, {"none"}, {"cur"}, 3)
    [] b = "seqbig" -> B({"plain", "dual", "notfound"}, {"c0", "c6", "cnan"}, {"none", "v123", "u3", "h2"},
                         {"none", "top"}, {"cur"}, 2)
    [] b = "seqts" -> B({"dual", "res5"}, {"c0"}, {"v123", "u3"}, {"top"}, {"cur", "past", "fut4"}, 2)
AllBlocks == {"data", "tags", "meta", "dataq", "metaq", "cross", "seq", "seq3", "seqbig", "seqts"}
ASSUME /\ Blocks \subseteq AllBlocks
       /\ \A b \in AllBlocks : /\ Block(b).metrics \subseteq AllMetrics /\ Block(b).counters \subseteq AllCounters
                               /\ Block(b).payloads \subseteq AllPayloads /\ Block(b).taglists \subseteq AllTagLists
                               /\ Block(b).stamps \subseteq AllStamps

Ev(m, c, p, t, s) == [m |-> m, c |-> c, p |-> p, t |-> t, s |-> s,
                      ctr |-> CtrOf(c), v |-> PayloadOf(p).v, u |-> PayloadOf(p).u,
                      h |-> PayloadOf(p).h, tags |-> TagsOf(t), ts |-> StampOf(s)]

-------------------------------------------------------------------------------
(* THE PROPERTY, from its text. *)
InRange(x)   == x.k \in {"fin", "maxf", "nmaxf"}          \* finite and within +/-MaxFloat32
NumbersOf(e) == {e.ctr} \cup {e.v[i] : i \in DOMAIN e.v}
                \cup {e.h[i].v : i \in DOMAIN e.h} \cup {e.h[i].w : i \in DOMAIN e.h}
CountersOf(e) == {e.ctr} \cup {e.h[i].w : i \in DOMAIN e.h}
BothSet(e)   == Len(e.v) + Len(e.h) # 0 /\ Len(e.u) # 0
Empty(e)     == Len(e.v) + Len(e.h) = 0 /\ Len(e.u) = 0 /\ IsZero(e.ctr)
(* a tag is valid when its name is UTF-8 and, if the name denotes a tag of the metric, its
   value is UTF-8 without the corruption marker (values of tags the metric does not have are
   dropped, so they cannot make the event invalid) *)
TagValid(t)  == /\ NameInfo(t.n).cls # "bad"
                /\ NameInfo(t.n).cls = "known" => t.v \notin {"badutf", "corrupt", "corruptbad"}
Valid(e) == /\ MetricOf(e.m).lookup = "ok" /\ MetricOf(e.m).shard
            /\ \A x \in NumbersOf(e) : InRange(x)
            /\ \A x \in CountersOf(e) : ~IsNeg(x)
            /\ ~BothSet(e) /\ ~Empty(e)
            /\ \A i \in DOMAIN e.tags : TagValid(e.tags[i])

(* every reason that is true of the event, as <<status, tag key>>; an ingestion-status
   record of a rejected event must name one of them *)
CounterReasons(x) == (IF IsNaN(x) THEN {"ErrNanInfCounter"} ELSE {})
                     \cup (IF IsNeg(x) THEN {"ErrNegativeCounter"} ELSE {})
                     \cup (IF AboveMax(x) THEN {"ErrTooBigCounter"} ELSE {})
ValueReasons(x)   == (IF IsNaN(x) THEN {"ErrNanInfValue"} ELSE {})
                     \cup (IF AboveMax(x) \/ BelowNegMax(x) THEN {"ErrTooBigValue"} ELSE {})
TagReasons(t) ==
  LET ni == NameInfo(t.n) IN
  (IF ni.cls = "bad" THEN {<<"ErrMapTagNameEncoding", 0>>} ELSE {})
  \cup (IF ni.cls = "known" /\ t.v \in {"badutf", "corruptbad"} THEN {<<"ErrMapTagValueEncoding", ni.idx + TagShift>>} ELSE {})
  \cup (IF ni.cls = "known" /\ t.v \in {"corrupt", "corruptbad"} THEN {<<"ErrMapTagValueCorrupted", ni.idx + TagShift>>} ELSE {})
TrueReasons(e) ==
  LET md == MetricOf(e.m) IN
  (IF md.lookup # "ok" THEN {<<md.lookup, 0>>} ELSE {})
  \cup (IF md.found /\ ~md.shard THEN {<<"ErrShardingFailed", 0>>} ELSE {})
  \cup (IF md.found THEN UNION {TagReasons(e.tags[i]) : i \in DOMAIN e.tags} ELSE {})
  \cup (IF BothSet(e) THEN {<<"ErrValueUniqueBothSet", 0>>} ELSE {})
  \cup (IF Empty(e) THEN {<<"ErrZeroCounter", 0>>} ELSE {})
  \cup {<<r, 0>> : r \in UNION {CounterReasons(x) : x \in CountersOf(e)}}
  \cup {<<r, 0>> : r \in UNION ({ValueReasons(e.v[i]) : i \in DOMAIN e.v} \cup {ValueReasons(e.h[i].v) : i \in DOMAIN e.h})}

(* documented counter semantics of an accepted event whose numbers are all ordinary:
   entries = its values with weight 1 and its histogram entries (or its uniques with weight 1);
   absent counter: count = total weight; present counter: count = counter and the value
   aggregates are scaled so that the average stays the weighted average of the entries *)
Entries(e) == IF Len(e.u) # 0 THEN [i \in DOMAIN e.u |-> E(F(e.u[i]), F(1))]
              ELSE [i \in DOMAIN e.v |-> E(e.v[i], F(1))] \o e.h
AllFinW(e) == IsFin(e.ctr) /\ \A i \in DOMAIN Entries(e) : IsFin(Entries(e)[i].w)
AllFinV(e) == \A i \in DOMAIN Entries(e) : IsFin(Entries(e)[i].v)
Total(e)   == RSum([i \in DOMAIN Entries(e) |-> Entries(e)[i].w], 1)
WSum(e)    == RSum([i \in DOMAIN Entries(e) |-> RMul(Entries(e)[i].v, Entries(e)[i].w)], 1)
WSumSq(e)  == RSum([i \in DOMAIN Entries(e) |-> RMul(RMul(Entries(e)[i].v, Entries(e)[i].v), Entries(e)[i].w)], 1)
DocSemantics(e, c) ==   \* c: the contribution computed by the transcription
  c.present =>
     /\ AllFinW(e) =>
          /\ IsZero(e.ctr) => REq(c.cnt, Total(e))                 \* one event per value / the histogram weight
          /\ ~IsZero(e.ctr) => REq(c.cnt, e.ctr)                   \* counter = true number of events
          /\ (c.hasVal /\ AllFinV(e)) =>
               /\ REq(RMul(c.sum, Total(e)), RMul(WSum(e), c.cnt)) \* sum/count = weighted average
               /\ REq(RMul(c.sq, Total(e)), RMul(WSumSq(e), c.cnt))
     /\ c.hasVal = (Len(Entries(e)) # 0)
     /\ c.hasVal =>
          /\ \E i \in DOMAIN Entries(e) : Entries(e)[i].v = c.min
          /\ \A i \in DOMAIN Entries(e) : ~NumLt(Entries(e)[i].v, c.min) /\ ~NumLt(c.max, Entries(e)[i].v)
          /\ \E i \in DOMAIN Entries(e) : Entries(e)[i].v = c.max

-------------------------------------------------------------------------------
(* THE MECHANISM, in the order of the code. *)
ValidateCounter(x) == IF IsNaN(x) THEN "ErrNanInfCounter"
                      ELSE IF IsNeg(x) THEN "ErrNegativeCounter"
                      ELSE IF AboveMax(x) THEN "ErrTooBigCounter" ELSE "ok"
ValidateValue(x)   == IF IsNaN(x) THEN "ErrNanInfValue"
                      ELSE IF AboveMax(x) THEN "ErrTooBigValue"
                      ELSE IF BelowNegMax(x) THEN "ErrTooBigValue" ELSE "ok"
FirstBad(s) == LET bad == {i \in DOMAIN s : s[i] # "ok"} IN IF bad = {} THEN "ok" ELSE s[MinOf(bad)]

ValidateData(e) ==      \* data_model.ValidateMetricData
  IF Len(e.v) + Len(e.h) # 0 /\ Len(e.u) # 0 THEN "ErrValueUniqueBothSet"
  ELSE IF Len(e.v) + Len(e.h) = 0 /\ Len(e.u) = 0 /\ IsZero(e.ctr) THEN "ErrZeroCounter"
  ELSE FirstBad(<<ValidateCounter(e.ctr)>>
                \o [i \in DOMAIN e.v |-> ValidateValue(e.v[i])]
                \o [j \in 1..(2 * Len(e.h)) |-> IF j % 2 = 1 THEN ValidateValue(e.h[(j + 1) \div 2].v)
                                                  ELSE ValidateCounter(e.h[j \div 2].w)])

(* mapped header *)
H0 == [tg |-> <<>>, set |-> {}, hostSet |-> FALSE, nf |-> FALSE, dr |-> FALSE,
       twice |-> 0, rawk |-> 0, leg |-> 0, st |-> "ok", key |-> 0]
St(t, a) == [t |-> t, a |-> a]     \* stored tag value: S string, I mapped id, raw, lo, hi
Zero == St("Z", "")
SetTag(h, idx, val, key) ==        \* MappedMetricHeader.SetTag
  IF idx = HostIdx
  THEN [h EXCEPT !.twice = IF h.hostSet THEN key ELSE @, !.hostSet = TRUE]
  ELSE [h EXCEPT !.tg = IF val = Zero THEN [x \in DOMAIN @ \ {idx} |-> @[x]]
                        ELSE [x \in DOMAIN @ \cup {idx} |-> IF x = idx THEN val ELSE @[x]],
                 !.twice = IF idx \in h.set THEN key ELSE @,
                 !.set = @ \cup {idx}]
MapStep(h, t) ==                   \* MapValidateTag + the body of mapAllTags' loop
  LET ni == NameInfo(t.n) IN
  IF ni.cls = "bad" THEN [h EXCEPT !.st = "ErrMapTagNameEncoding", !.key = 0]
  ELSE IF ni.cls = "unknown" THEN [h EXCEPT !.nf = TRUE]          \* value is not looked at
  ELSE IF ni.cls = "draft" THEN [h EXCEPT !.dr = TRUE]
  ELSE LET key == ni.idx + TagShift
           h1  == IF ni.legacy THEN [h EXCEPT !.leg = key] ELSE h IN
       IF t.v \in {"badutf", "corruptbad"} THEN [h1 EXCEPT !.st = "ErrMapTagValueEncoding", !.key = key]
       ELSE IF t.v = "corrupt" THEN [h1 EXCEPT !.st = "ErrMapTagValueCorrupted", !.key = key]
       ELSE IF t.v = "empty" THEN SetTag(h1, ni.idx, Zero, key)
       ELSE IF ni.kind = "raw64" THEN
              IF t.v = "rawbad" THEN [h1 EXCEPT !.rawk = key]
              ELSE SetTag(SetTag(h1, ni.idx + 1, IF t.v = "r64small" THEN Zero ELSE St("hi", t.v), key + 1),
                          ni.idx, St("lo", t.v), key)
       ELSE IF ni.kind = "raw" THEN
              IF t.v = "rawbad" THEN [h1 EXCEPT !.rawk = key]
              ELSE SetTag(h1, ni.idx, IF t.v = "rawzero" THEN Zero ELSE St("raw", t.v), key)
       ELSE SetTag(h1, ni.idx, IF t.v = "mapped" THEN St("I", t.v) ELSE St("S", t.v), key)
RECURSIVE MapFrom(_, _, _)
MapFrom(h, tags, i) == IF i > Len(tags) \/ h.st # "ok" THEN h ELSE MapFrom(MapStep(h, tags[i]), tags, i + 1)
MapTags(e) == MapFrom(H0, e.tags, 1)

(* what the row receives.  passed = the count handed to the shard (0 => nothing happens at
   all); total = 0 with a present counter creates an empty item and returns. *)
NoContrib == [present |-> FALSE, cexact |-> TRUE, vexact |-> TRUE, hasVal |-> FALSE, cnt |-> F(0),
              sum |-> F(0), sq |-> F(0), min |-> F(0), max |-> F(0), uniq |-> {}, emitted |-> FALSE]
Contrib(e) ==
  LET ents == Entries(e)
      vals == {ents[i].v : i \in DOMAIN ents}
      mn   == CHOOSE x \in vals : \A y \in vals : ~NumLt(y, x)
      mx   == CHOOSE x \in vals : \A y \in vals : ~NumLt(x, y)
      wfin == \A i \in DOMAIN ents : IsFin(ents[i].w)
      inexact == \* the counter or a weight is exactly MaxFloat32: a row appears; its count and sums
                 \* are not modelled (cexact, vexact = FALSE), min and max are
         [NoContrib EXCEPT !.present = TRUE, !.cexact = FALSE, !.vexact = FALSE, !.hasVal = Len(ents) # 0,
                           !.min = IF Len(ents) # 0 THEN mn ELSE F(0), !.max = IF Len(ents) # 0 THEN mx ELSE F(0),
                           !.emitted = TRUE, !.uniq = {e.u[i] : i \in DOMAIN e.u}] IN
  IF ~wfin THEN inexact                                       \* total weight > 0, count > 0
  ELSE LET total  == Total(e)
           passed == IF IsZero(e.ctr) THEN total ELSE e.ctr   \* Shard.Apply*: if count == 0 { count = total }
           pos    == ~IsFin(passed) \/ RLt(F(0), passed) IN   \* (a validated counter that is not "fin" is MaxFloat32)
       IF ~pos THEN NoContrib                                                  \* count <= 0: return
       ELSE IF Len(ents) = 0 THEN (IF IsFin(passed) THEN [NoContrib EXCEPT !.present = TRUE, !.cnt = passed, !.emitted = TRUE]
                                   ELSE inexact)
       ELSE IF ~RLt(F(0), total) THEN [NoContrib EXCEPT !.emitted = TRUE]      \* MultiValue.Apply*: totalCount <= 0: return
       ELSE IF ~IsFin(passed) THEN inexact
       ELSE LET fin  == AllFinV(e)
                scale(x) == IF REq(passed, total) THEN x ELSE RDiv(RMul(x, passed), total) IN
            [present |-> TRUE, cexact |-> TRUE, vexact |-> fin, hasVal |-> TRUE, cnt |-> passed,
             sum |-> IF fin THEN scale(WSum(e)) ELSE F(0), sq |-> IF fin THEN scale(WSumSq(e)) ELSE F(0),
             min |-> mn, max |-> mx, uniq |-> {e.u[i] : i \in DOMAIN e.u}, emitted |-> TRUE]

(* resolutionShardFromHashLocked: clamp to CurrentTime + future slots, then round *)
RowTs(e, md) ==
  IF e.ts = 0 THEN [now |-> TRUE, t |-> 0, clamped |-> FALSE]
  ELSE LET c == IF e.ts > T0 + FutureSlots THEN T0 + FutureSlots ELSE e.ts IN
       [now |-> FALSE, t |-> (c \div md.res) * md.res, clamped |-> e.ts > T0 + FutureSlots]

SK(sm, sh, m, st, k) == [sm |-> sm, sh |-> sh, m |-> m, st |-> st, k |-> k]
(* sm: "ns" = __src_ingestion_status_no_shard, "st" = __src_ingestion_status;
   sh: "z" = shard 0, "p" = the metric's shard, "s" = its second fixed shard *)
Decide(e) ==
  LET md == MetricOf(e.m)
      rej(sm, sh, m, st, k) == [accept |-> FALSE, reason |-> st, key |-> k,
                                emit |-> {SK(sm, sh, m, st, k)} \cup (IF sh = "p" /\ md.dual THEN {SK(sm, "s", m, st, k)} ELSE {}),
                                contrib |-> NoContrib, rowkeys |-> {}] IN
  IF ~md.found THEN rej("ns", "z", "", md.lookup, 0)               \* h.MetricMeta == nil
  ELSE IF ~md.shard THEN rej("ns", "z", e.m, "ErrShardingFailed", 0)   \* checked before the status
  ELSE IF md.lookup # "ok" THEN rej("st", "p", e.m, md.lookup, 0)  \* disabled / builtin
  ELSE LET h == MapTags(e) IN
       IF h.st # "ok" THEN rej("st", "p", e.m, h.st, h.key)
       ELSE LET vd == ValidateData(e) IN
            IF vd # "ok" THEN rej("st", "p", e.m, vd, 0)
            ELSE LET c   == Contrib(e)
                     rt  == RowTs(e, md)
                     shs == {"p"} \cup (IF md.dual THEN {"s"} ELSE {})
                     \* the second shard drops rows whose (clamped, rounded) time is before dualFrom
                     rowshs == {"p"} \cup (IF md.dual /\ ~rt.now /\ rt.t >= md.dualFrom THEN {"s"} ELSE {})
                     warn == {<<"OKCached", 0>>}
                             \cup (IF h.nf THEN {<<"WarnMapTagNameNotFound", 0>>} ELSE {})
                             \cup (IF h.dr THEN {<<"WarnMapTagNameFoundDraft", 0>>} ELSE {})
                             \cup (IF h.twice # 0 THEN {<<"WarnMapTagSetTwice", h.twice>>} ELSE {})
                             \cup (IF h.rawk # 0 THEN {<<"WarnMapInvalidRawTagValue", h.rawk>>} ELSE {})
                             \cup (IF h.leg # 0 THEN {<<"WarnDeprecatedKeyName", h.leg>>} ELSE {}) IN
                 [accept |-> TRUE, reason |-> "ok", key |-> 0,
                  emit |-> {SK("st", sh, e.m, w[1], w[2]) : sh \in shs, w \in warn}
                           \cup (IF c.emitted /\ rt.clamped
                                 THEN {SK("st", sh, e.m, "WarnTimestampClampedFuture", 0) : sh \in rowshs} ELSE {}),
                  contrib |-> c,
                  rowkeys |-> IF c.present
                              THEN {[sh |-> sh, m |-> e.m, now |-> rt.now, ts |-> rt.t,
                                     tags |-> {[i |-> i, t |-> h.tg[i].t, a |-> h.tg[i].a] : i \in DOMAIN h.tg}] : sh \in rowshs}
                              ELSE {}]

(* ItemValue.Merge / ItemCounter.Merge of a contribution into a row *)
Agg0 == [cexact |-> TRUE, vexact |-> TRUE, hasVal |-> FALSE, cnt |-> F(0), sum |-> F(0), sq |-> F(0),
         min |-> F(0), max |-> F(0), uniq |-> {}, pct |-> FALSE]
MergeAgg(a, c, pct) ==
  [cexact |-> a.cexact /\ c.cexact,
   vexact |-> a.vexact /\ c.vexact,
   hasVal |-> a.hasVal \/ c.hasVal,
   cnt    |-> IF c.cexact THEN RAdd(a.cnt, c.cnt) ELSE a.cnt,
   sum    |-> IF c.hasVal /\ c.vexact THEN RAdd(a.sum, c.sum) ELSE a.sum,
   sq     |-> IF c.hasVal /\ c.vexact THEN RAdd(a.sq, c.sq) ELSE a.sq,
   min    |-> IF c.hasVal /\ (~a.hasVal \/ NumLt(c.min, a.min)) THEN c.min ELSE a.min,
   max    |-> IF c.hasVal /\ (~a.hasVal \/ NumLt(a.max, c.max)) THEN c.max ELSE a.max,
   uniq   |-> a.uniq \cup c.uniq,
   pct    |-> pct]

IsErr(st) == st \notin {"OKCached", "WarnMapTagNameNotFound", "WarnMapTagNameFoundDraft", "WarnMapTagSetTwice",
                         "WarnMapInvalidRawTagValue", "WarnDeprecatedKeyName", "WarnTimestampClampedFuture"}

Init == /\ rows = <<>> /\ stats = <<>> /\ nAcc = 0 /\ nRej = 0 /\ gcnt = F(0)
        /\ last = [any |-> FALSE] /\ hist = <<>>
        /\ first \in UNION {{<<b, m, c, <<>> >> : m \in Block(b).metrics, c \in Block(b).counters} : b \in Blocks}
                      \cup {<<"script", "", "", Script[j]>> : j \in DOMAIN Script}

(* The decision is computed once, into last'; the other variables are updated from it.
   (TLC re-evaluates an action-level LET at every use, a primed variable is a lookup.) *)
MkLast(e) == LET d == Decide(e) IN
             [any |-> TRUE, ev |-> e, dec |-> d, valid |-> Valid(e), true |-> TrueReasons(e),
              dual |-> MetricOf(e.m).dual]
ApplyRows(r, d, pct) == [k \in DOMAIN r \cup d.rowkeys |->
                           IF k \in d.rowkeys THEN MergeAgg(IF k \in DOMAIN r THEN r[k] ELSE Agg0, d.contrib, pct)
                           ELSE r[k]]
ApplyStats(st, emit) == [k \in DOMAIN st \cup emit |->
                           (IF k \in DOMAIN st THEN st[k] ELSE 0) + (IF k \in emit THEN 1 ELSE 0)]
IngestCore(m, c, p, t, s) ==
  /\ last' = MkLast(Ev(m, c, p, t, s))
  /\ rows' = ApplyRows(rows, last'.dec, MetricOf(m).pct)
  /\ stats' = ApplyStats(stats, last'.dec.emit)
  /\ nAcc' = nAcc + (IF last'.dec.accept THEN 1 ELSE 0)
  /\ nRej' = nRej + (IF last'.dec.accept THEN 0 ELSE 1)
  /\ gcnt' = IF last'.dec.contrib.present /\ last'.dec.contrib.cexact
             THEN RAdd(gcnt, RMul(last'.dec.contrib.cnt, F(Cardinality(last'.dec.rowkeys)))) ELSE gcnt

RowsOut(r)  == {[key |-> k, agg |-> r[k]] : k \in DOMAIN r}
StatsOut(s) == {[key |-> k, n |-> s[k]] : k \in DOMAIN s}
Ingest(m, c, p, t, s) ==
  /\ IngestCore(m, c, p, t, s)
  /\ hist' = Append(hist, [a |-> "Ingest", b |-> first[1], m |-> m, c |-> c, p |-> p, t |-> t, s |-> s,
                           ev |-> [ctr |-> last'.ev.ctr, v |-> last'.ev.v, u |-> last'.ev.u, h |-> last'.ev.h,
                                   tags |-> last'.ev.tags, ts |-> last'.ev.ts],
                           md |-> MetricOf(m),
                           dec |-> [accept |-> last'.dec.accept, reason |-> last'.dec.reason, key |-> last'.dec.key,
                                    emit |-> last'.dec.emit, contrib |-> last'.dec.contrib,
                                    rowkeys |-> last'.dec.rowkeys],
                           valid |-> last'.valid,
                           true |-> {[r |-> x[1], k |-> x[2]] : x \in last'.true},
                           post |-> [rows |-> RowsOut(rows'), stats |-> StatsOut(stats')]])

Applicable(m, t) == MetricOf(m).rich \/ ~MetricOf(m).found \/ GenericList(t)
TableNext ==
  LET b == Block(first[1]) IN
  /\ Len(hist) < b.ops
  /\ \E m \in (IF hist = <<>> THEN {first[2]} ELSE b.metrics),
        c \in (IF hist = <<>> THEN {first[3]} ELSE b.counters),
        p \in b.payloads, t \in b.taglists, s \in b.stamps :
        /\ Applicable(m, t)
        /\ (hist # <<>> => s # "none")       \* rows of different wall-clock seconds do not merge
        /\ Ingest(m, c, p, t, s)
ScriptNext ==
  LET sc == first[4] IN
  /\ Len(hist) < Len(sc)
  /\ LET x == sc[Len(hist) + 1] IN
       /\ Assert(x[1] \in AllMetrics /\ x[2] \in AllCounters /\ x[3] \in AllPayloads /\ x[4] \in AllTagLists
                 /\ x[5] \in AllStamps /\ Applicable(x[1], x[4]) /\ (hist # <<>> => x[5] # "none"), <<"bad script", x>>)
       /\ Ingest(x[1], x[2], x[3], x[4], x[5])
Next == /\ IF first[1] = "script" THEN ScriptNext ELSE TableNext
        /\ UNCHANGED first
Spec == Init /\ [][Next]_vars

-------------------------------------------------------------------------------
(* Invariants: the mechanism satisfies the property *)
OnlyIf        == last.any => (last.dec.accept => last.valid)            \* contributes only if valid
Total_        == last.any => (last.valid => last.dec.accept)            \* and nothing valid is refused
NoRowIfReject == last.any => (~last.dec.accept => last.dec.rowkeys = {})
NoRowIfRejectAct == [][~last'.dec.accept => rows' = rows]_vars     \* a rejected event changes no row
OneRecord     == last.any => (~last.dec.accept =>
                    /\ Cardinality(last.dec.emit) = (IF last.dual /\ \E k \in last.dec.emit : k.sh = "p" THEN 2 ELSE 1)
                    /\ \A k \in last.dec.emit : <<k.st, k.k>> \in last.true /\ IsErr(k.st))
NoErrIfAccept == last.any => (last.dec.accept => \A k \in last.dec.emit : ~IsErr(k.st))
Semantics     == last.any => (last.dec.accept => DocSemantics(last.ev, last.dec.contrib))
RECURSIVE SumOver(_, _)
SumOver(f, S) == IF S = {} THEN 0 ELSE LET x == CHOOSE y \in S : TRUE IN f[x] + SumOver(f, S \ {x})
RECURSIVE RSumOver(_, _)
RSumOver(f, S) == IF S = {} THEN F(0) ELSE LET x == CHOOSE y \in S : TRUE IN RAdd(f[x].cnt, RSumOver(f, S \ {x}))
Accounting    == /\ SumOver(stats, {k \in DOMAIN stats : IsErr(k.st) /\ k.sh # "s"}) = nRej
                 /\ SumOver(stats, {k \in DOMAIN stats : k.st = "OKCached" /\ k.sh # "s"}) = nAcc
CountConserved == REq(RSumOver(rows, DOMAIN rows), gcnt)
TypeOK == /\ \A k \in DOMAIN rows : RLt(F(0), rows[k].cnt) \/ ~rows[k].cexact
          /\ \A k \in DOMAIN stats : stats[k] > 0

Export == PrintT(<<"BEH", ToJson(hist')>>)
===============================================================================
