INIT Init
NEXT Next
CONSTANTS
  Blocks = {"dataq", "tags", "metaq", "seq", "seq3"}
  Script <- RandScript
  T0 = 2000000043
  FutureSlots = 3
  TagShift = 100
VIEW View
INVARIANTS OnlyIf Total_ NoRowIfReject OneRecord NoErrIfAccept Semantics Accounting CountConserved TypeOK
PROPERTIES NoRowIfRejectAct
ACTION_CONSTRAINT Export
CHECK_DEADLOCK FALSE
