INIT Init
NEXT Next
CONSTANTS
  Alphabet = {"q", "b", "n", "k", "w"}
  MaxLen = 3
  Alphabet2 = {"q", "b", "n", "k", "w"}
  MaxLen2 = 2
  EscMap <- RepoEscMap
INVARIANTS RoundTrip PairTheorem
CHECK_DEADLOCK FALSE
