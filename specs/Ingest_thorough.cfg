INIT Init
NEXT Next
CONSTANTS
  Blocks = {"data", "tags", "meta", "cross", "seq", "seq3", "seqbig", "seqts"}
  Script <- RandScript
  T0 = 2000000043
  FutureSlots = 3
  TagShift = 100
VIEW View
INVARIANTS OnlyIf Total_ NoRowIfReject OneRecord NoErrIfAccept Semantics Accounting CountConserved TypeOK
PROPERTIES NoRowIfRejectAct
ACTION_CONSTRAINT Export
CHECK_DEADLOCK FALSE
