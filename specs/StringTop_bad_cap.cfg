INIT Init
NEXT Next
CONSTANTS
  Values = {1, 2, 3}
  Counts = {1, 2}
  Xs = {1, 4}
  Kinds = {"V"}
  Caps = {1, 2}
  DefaultCap = 2
  FinCaps <- MCFinCapsSmall
  MaxOps = 3
  WordBits = 0
  Bug = "cap"
  MaxLog2 = 6
VIEW View
INVARIANTS Conservation FinishBound FinishHeaviest CapacityRespected TopNonEmpty WhaleIsTotal TypeOK
CHECK_DEADLOCK FALSE
