---------------------------- MODULE SqlFilterMC ----------------------------
(* constants of SqlFilter that a cfg file cannot express *)
EXTENDS SqlFilter

(* rows: tag 0 has the full universe (an integer and a string no filter mentions: 3, "c"),
   tag 1 a small one; values must be prefixes of 0..3 / "", a, b, c for the row index *)
MCInts == (0 :> {0, 1, 2, 3}) @@ (1 :> {0, 1})
MCStrs == (0 :> {"", "a", "b", "c"}) @@ (1 :> {"", "a"})
MCIntsFull == (0 :> {0, 1, 2, 3}) @@ (1 :> {0, 1, 2, 3})
MCStrsFull == (0 :> {"", "a", "b", "c"}) @@ (1 :> {"", "a", "b", "c"})
MCFStrs == {"", "a", "b"}
MCFStrsSmall == {"a", "b"}
MCFStrsEmptyA == {"", "a"}
(* B values: two ordinary ones, and the odd ones NewTagValue permits *)
MCFBoth == {<<"a", 1>>, <<"b", 2>>, <<"", 1>>, <<"a", 0>>}
MCFBothSmall == {<<"a", 1>>, <<"b", 2>>}
(* values no producer makes (NewTagValueS(""), NewTagValueM(0), NewTagValue("", n), NewTagValue(s, 0)):
   model checked to document what the code does with them, not replayed on the code *)
MCFStrsOdd == {"", "a"}
MCFBothOdd == {<<"", 1>>, <<"a", 0>>, <<"a", 1>>}
(* regexes as the sets they match: one value, two values, the empty string and a value *)
MCRes == {"ra", "rab", "rea"}
MCResSmall == {"rab"}
MCResTwo == {"rab", "rea"}
MCReSet == ("ra" :> {"a"}) @@ ("rab" :> {"a", "b"}) @@ ("rea" :> {"", "a"})
MCIntIdx == [i \in 0..3 |-> i]
MCStrIdx == ("" :> 0) @@ ("a" :> 1) @@ ("b" :> 2) @@ ("c" :> 3)
=============================================================================
