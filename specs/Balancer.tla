------------------------------- MODULE Balancer -------------------------------
(* statshouse balancer egress (internal/balancer/egress.go, handler.go), property C31.

   The handler (one goroutine at a time, under handler.mu) frames a packet and hands it to
   tcpPool.writeLocked, which pushes it into the primary sender's pktBuffer, else into the
   secondary's (and then exchanges the primary/secondary pointers), else drops it and counts
   the drop.  Each of the two tcpSender goroutines runs sendLoop: (re)connect, pop a batch
   (pktBuffer.pop -> swap, which waits for a 20 % batch or swapWaitMax), write it with one
   net.Buffers.WriteTo, report dropped bytes upstream.

   One action per critical section of pktBuffer.mu / per step of sendLoop, the code's index
   arithmetic transcribed.  Deliberate oddities of the code are switched by constants so that
   TLC shows what each of them costs:

     TimeoutSignals  FALSE = swap()'s timer callback only sets the flag (code as found),
                     TRUE  = it also wakes the waiting sender (code after the fix)
     SkipOnErr       TRUE  = after a failed WriteTo pop() skips the first unsent packet
                             ("not resend for last", code as it is)
     ReportRetry     FALSE = a failed write of the would-block report loses the amount
                             (code as found), TRUE = the amount is added back (after the fix)
     DeadlineArmed   FALSE = SetWriteDeadline is never called on a fresh connection
                             (code as found: WriteTimeout - time.Until(zero time) overflows),
                             TRUE = a write to an upstream that stopped reading fails after
                             WriteTimeout (after the fix)

   The property is stated on ghost state (acc, done, up, drops ...) below the actions.

   Time is abstract: TimeoutFires(s) is "swapWaitMax elapsed since this swap() started",
   DialOK/DialFail are "ReconnectDelay elapsed and the dial returned".                      *)
EXTENDS Integers, Sequences, FiniteSets, TLC, Json

CONSTANTS BufLen,          \* bufferLen (200 in the code)
          WaitPct,         \* 20: swap waits until wi >= bufferLen*20/100
          MaxPkts,         \* bound: number of handler calls
          MaxErrs,         \* bound: injected failures (write / dial / report write)
          MaxSpur,         \* bound: late timer callbacks of finished swaps (only wake)
          PktLens,         \* framed packet lengths the handler may see
          TimeoutSignals, SkipOnErr, ReportRetry, DeadlineArmed,
          ReportClaim,     \* "swap" (the code) | "load" (read, write, then Store(0))
          AllowClose,      \* Egress.Close may happen
          AllowRecon,      \* the stuck-reconnect branch of sendLoop may close the connection
          RecordHist,      \* keep the action history (behaviour export)
          MaxHist          \* bound on the history length when it is kept

Senders == {1, 2}          \* 1 = pool.primary, 2 = pool.secondary (objects, not roles)
Other(s) == 3 - s
Thresh == (BufLen * WaitPct) \div 100

VARIABLES
  w,        \* [s -> write slice b.w[0..wi-1]] as a sequence of packet ids; wi = Len(w[s])
  r,        \* [s -> read slice b.r[0..rm-1]];                            rm = Len(r[s])
  ri,       \* [s -> b.ri]
  closedB,  \* [s -> b.closed]
  cv,       \* [s -> "none" | "asleep" (in cond.Wait) | "woken" (signalled, lock not yet retaken)]
  tmr,      \* [s -> "off" | "armed"]  the AfterFunc timer of the swap() in progress
  tmo,      \* [s -> the local `timeout` of the swap() in progress]
  pc,       \* [s -> sendLoop position]
  conn,     \* [s -> 0 (nil) | index into up]
  recon,    \* [s -> a token sits in reconCh]
  wb,       \* [s -> wouldBlockBytes]
  rh,       \* [s -> amount the report being written carries (0 = no report in progress)]
  prim,     \* the sender *primPtr points to (*secPtr is the other one)
  hpc,      \* handler: "idle" | "sec" (primary push failed, about to try the secondary)
  hpkt,     \* packet id in flight in the handler
  hfull,    \* ghost: the primary's buffer really was full when it refused hpkt
  shut,     \* pool.closed is closed
  closing,  \* Egress.Close progress: 0 not started, s = closing sender s, 3 = returned
  stopReq,  \* [s -> closeCh closed]
  fwd, drp, werrs, rerrs,      \* stats: forwardedPackets, droppedPackets, writeErrors, reconnectErrors
  \* ---- ghost / bookkeeping
  nextId,   \* packets are numbered in handler-call order
  plen,     \* id -> framed length
  acc,      \* [s -> ids accepted into sender s's buffer, in acceptance order]
  done,     \* [s -> ids taken out of the buffer (written, or skipped after an error)]
  up,       \* sequence of upstream connections, each a sequence of <<"p", id>> / <<"r", bytes>>
  upOf,     \* upOf[c] = sender that owns connection c
  stc,      \* connections whose upstream has stopped reading (a write to them never completes)
  skipped,  \* ids pop() skipped after a write error
  drops,    \* packets rejected by both buffers, with what was true of the buffers when each refused
  dropBytes, closedRej,        \* sum of framed lengths of drops; calls rejected because closed
  reported, repLost,           \* would-block bytes written upstream / lost by a failed report
  errs, spur,
  hist

bufv  == <<w, r, ri, closedB, cv, tmr, tmo>>
sndv  == <<pc, conn, recon, wb, rh>>
hndv  == <<prim, hpc, hpkt, hfull, nextId, plen>>
clsv  == <<shut, closing, stopReq>>
statv == <<fwd, drp, werrs, rerrs>>
ghov  == <<acc, done, up, upOf, stc, skipped, drops, dropBytes, closedRej, reported, repLost, errs, spur>>
vars  == <<bufv, sndv, hndv, clsv, statv, ghov, hist>>
View  == <<bufv, sndv, hndv, clsv, statv, ghov>>

Rec(x) == IF RecordHist THEN Append(hist, x) ELSE hist

Init == /\ w = [s \in Senders |-> <<>>] /\ r = [s \in Senders |-> <<>>]
        /\ ri = [s \in Senders |-> 0]
        /\ closedB = [s \in Senders |-> FALSE]
        /\ cv = [s \in Senders |-> "none"]
        /\ tmr = [s \in Senders |-> "off"]
        /\ tmo = [s \in Senders |-> FALSE]
        /\ pc = [s \in Senders |-> "top"]
        /\ conn = [s \in Senders |-> 0]
        /\ recon = [s \in Senders |-> FALSE]
        /\ wb = [s \in Senders |-> 0] /\ rh = [s \in Senders |-> 0]
        /\ prim = 1 /\ hpc = "idle" /\ hpkt = 0 /\ hfull = TRUE
        /\ shut = FALSE /\ closing = 0 /\ stopReq = [s \in Senders |-> FALSE]
        /\ fwd = 0 /\ drp = 0 /\ werrs = 0 /\ rerrs = 0
        /\ nextId = 1 /\ plen = <<>>
        /\ acc = [s \in Senders |-> <<>>] /\ done = [s \in Senders |-> <<>>]
        /\ up = <<>> /\ upOf = <<>> /\ stc = {}
        /\ skipped = {} /\ drops = <<>> /\ dropBytes = 0 /\ closedRej = 0
        /\ reported = 0 /\ repLost = 0 /\ errs = 0 /\ spur = 0
        /\ hist = <<>>

-------------------------------------------------------------------------------
(* pktBuffer *)

\* b.cond.Signal(): the only possible waiter is the sender inside swap()
Signal(c, s) == IF c[s] = "asleep" THEN [c EXCEPT ![s] = "woken"] ELSE c

\* loop condition of swap(): wait for 20% full (or swapWaitMax)
WaitCond(s, t) == Len(w[s]) < Thresh /\ ~closedB[s] /\ ~t

(* pktBuffer.push under b.mu.  ok is the decision taken (the model takes CanPush, the trace
   spec takes what the code did and lets the invariants judge it).  Both outcomes signal. *)
CanPush(s) == Len(w[s]) < BufLen          \* !(b.wi >= bufferLen)
PushBufCore(s, id, ok) ==
    /\ w' = IF ok THEN [w EXCEPT ![s] = Append(@, id)] ELSE w
    /\ cv' = Signal(cv, s)
    /\ acc' = IF ok THEN [acc EXCEPT ![s] = Append(@, id)] ELSE acc
    /\ UNCHANGED <<r, ri, closedB, tmr, tmo>>

(* swap(): from b.mu.Lock() to either cond.Wait() (sleep) or the exchange of the slices.
   `t` is the timeout flag the loop sees; pcSleep/pcAfter say where sendLoop is meanwhile. *)
SwapFinishCore(s) ==             \* the tail of swap(), after the wait loop
    /\ cv' = [cv EXCEPT ![s] = "none"]
    /\ tmr' = [tmr EXCEPT ![s] = "off"]                     \* defer timer.Stop()
    /\ IF closedB[s]
       THEN UNCHANGED <<w, r, ri>>                          \* if b.closed { return }
       ELSE /\ r' = [r EXCEPT ![s] = w[s]]                  \* b.rm = b.wi; b.r, b.w = b.w, b.r
            /\ w' = [w EXCEPT ![s] = <<>>]                  \* b.wi = 0
            /\ ri' = [ri EXCEPT ![s] = 0]                   \* b.ri = 0
SwapSleepCore(s) ==
    /\ cv' = [cv EXCEPT ![s] = "asleep"]
    /\ UNCHANGED <<w, r, ri>>

SwapStep(s, t, pcSleep, pcAfterEmpty, pcAfterData) ==
    IF WaitCond(s, t)
    THEN /\ SwapSleepCore(s) /\ UNCHANGED tmr
         /\ pc' = [pc EXCEPT ![s] = pcSleep]
    ELSE /\ SwapFinishCore(s)
         /\ pc' = [pc EXCEPT ![s] = IF ri'[s] >= Len(r'[s]) THEN pcAfterEmpty ELSE pcAfterData]

\* the timer callback: b.mu.Lock(); timeout = true [; b.cond.Broadcast()]
TimeoutCore(s) ==
    /\ tmr[s] = "armed"
    /\ cv[s] \in {"asleep", "woken"}        \* the lock is free only while the sender waits
    /\ tmr' = [tmr EXCEPT ![s] = "off"]
    /\ tmo' = [tmo EXCEPT ![s] = TRUE]
    /\ cv' = IF TimeoutSignals THEN Signal(cv, s) ELSE cv
    /\ UNCHANGED <<w, r, ri, closedB>>

-------------------------------------------------------------------------------
(* handler.HandleMetricsBatchRaw -> Egress.WritePacketLocked -> tcpPool.writeLocked.
   The ...Eff operators are the effects without the sendLoop position, shared with the trace
   specification; the senders tried are parameters (the model passes *primPtr, then *secPtr). *)

PushClosedEff ==          \* select { case <-p.closed: return pkt, errWouldBlock }
    /\ hpc = "idle" /\ shut
    /\ drp' = drp + 1 /\ closedRej' = closedRej + 1
    /\ UNCHANGED <<bufv, conn, recon, wb, rh, prim, hpc, hpkt, hfull, plen, clsv, fwd, werrs, rerrs,
                   acc, done, up, upOf, stc, skipped, drops, dropBytes, reported, repLost, errs, spur>>

PushFirstEff(s, id, ln, ok) ==      \* (*p.primPtr).buf.push(pkt)
    /\ hpc = "idle" /\ ~shut
    /\ PushBufCore(s, id, ok)
    /\ prim' = s
    /\ plen' = [x \in DOMAIN plen \cup {id} |-> IF x = id THEN ln ELSE plen[x]]
    /\ IF ok THEN /\ fwd' = fwd + 1 /\ UNCHANGED <<hpc, hpkt, hfull>>
             ELSE /\ hpc' = "sec" /\ hpkt' = id /\ hfull' = ~CanPush(s) /\ UNCHANGED fwd
    /\ UNCHANGED <<conn, recon, wb, rh, clsv, drp, werrs, rerrs, done, up, upOf, stc, skipped, drops,
                   dropBytes, closedRej, reported, repLost, errs, spur>>

PushSecondEff(s2, ok) ==            \* (*p.secPtr).buf.push(pkt), pointer exchange, or the drop
    /\ hpc = "sec"
    /\ PushBufCore(s2, hpkt, ok)
    /\ hpc' = "idle" /\ hpkt' = 0
    /\ IF ok
       THEN /\ recon' = [recon EXCEPT ![prim] = TRUE]     \* non-blocking send into reconCh (cap 1)
            /\ prim' = s2                                   \* p.primPtr, p.secPtr = p.secPtr, p.primPtr
            /\ fwd' = fwd + 1
            /\ UNCHANGED <<wb, drp, drops, dropBytes>>
       ELSE /\ wb' = [wb EXCEPT ![1] = @ + plen[hpkt]]      \* p.primary.wouldBlockBytes (the object, not the role)
            /\ drp' = drp + 1
            /\ drops' = Append(drops, [id |-> hpkt, primFull |-> hfull, secFull |-> ~CanPush(s2),
                                        distinct |-> s2 # prim, bothNow |-> ~CanPush(1) /\ ~CanPush(2)])
            /\ dropBytes' = dropBytes + plen[hpkt]
            /\ UNCHANGED <<recon, prim, fwd>>
    /\ UNCHANGED <<conn, rh, hfull, plen, clsv, werrs, rerrs, done, up, upOf, stc, skipped,
                   closedRej, reported, repLost, errs, spur>>

-------------------------------------------------------------------------------
(* tcpSender.sendLoop *)

TopCore(s, br) ==         \* the select at the top of the loop; br = branch taken
    /\ pc[s] = "top"
    /\ \/ /\ br = "close" /\ stopReq[s]                         \* case <-s.closeCh: break loop
          /\ pc' = [pc EXCEPT ![s] = "done"]
          /\ conn' = [conn EXCEPT ![s] = 0]
          /\ UNCHANGED recon
       \/ /\ br = "reconSkip" /\ recon[s]                       \* case <-s.reconCh, StuckReconDelay not over: continue
          /\ recon' = [recon EXCEPT ![s] = FALSE]
          /\ UNCHANGED <<pc, conn>>
       \/ /\ br = "reconClose" /\ recon[s] /\ AllowRecon        \* case <-s.reconCh: close the connection
          /\ recon' = [recon EXCEPT ![s] = FALSE]
          /\ conn' = [conn EXCEPT ![s] = 0]
          /\ pc' = [pc EXCEPT ![s] = "dial"]
       \/ /\ br = "default" /\ ~stopReq[s] /\ ~recon[s]
          /\ pc' = [pc EXCEPT ![s] = IF conn[s] = 0 THEN "dial" ELSE "pop"]
          /\ UNCHANGED <<conn, recon>>
    /\ UNCHANGED <<bufv, wb, rh, hndv, clsv, statv, ghov>>

DialOKEff(s) ==           \* conn, err = s.reconnect() (handshake written) succeeded
    /\ up' = Append(up, <<>>) /\ upOf' = Append(upOf, s)
    /\ conn' = [conn EXCEPT ![s] = Len(up) + 1]
    /\ UNCHANGED <<bufv, recon, wb, rh, hndv, clsv, statv, acc, done, stc, skipped, drops, dropBytes,
                   closedRej, reported, repLost, errs, spur>>
DialOKCore(s) == pc[s] = "dial" /\ DialOKEff(s) /\ pc' = [pc EXCEPT ![s] = "pop"]

DialFailCore(s) ==
    /\ pc[s] = "dial" /\ errs < MaxErrs
    /\ errs' = errs + 1 /\ rerrs' = rerrs + 1
    /\ pc' = [pc EXCEPT ![s] = "top"]
    /\ UNCHANGED <<bufv, conn, recon, wb, rh, hndv, clsv, fwd, drp, werrs, acc, done, up, upOf, stc,
                   skipped, drops, dropBytes, closedRej, reported, repLost, spur>>

(* pop(): `if b.ri >= b.rm { b.swap() }` ... *)
PopBeginCore(s) ==
    /\ pc[s] = "pop"
    /\ IF ri[s] >= Len(r[s])
       THEN /\ tmo' = [tmo EXCEPT ![s] = FALSE]               \* timeout := false; timer := AfterFunc(...)
            /\ IF WaitCond(s, FALSE)
               THEN /\ SwapSleepCore(s) /\ tmr' = [tmr EXCEPT ![s] = "armed"]
                    /\ pc' = [pc EXCEPT ![s] = "sw1"]
               ELSE /\ SwapFinishCore(s)
                    /\ pc' = [pc EXCEPT ![s] = IF ri'[s] >= Len(r'[s]) THEN "report" ELSE "write"]
            /\ UNCHANGED closedB
       ELSE /\ pc' = [pc EXCEPT ![s] = "write"]               \* unsent rest of the batch after an error
            /\ UNCHANGED bufv
    /\ UNCHANGED <<conn, recon, wb, rh, hndv, clsv, statv, ghov>>

(* cond.Wait() returned: the loop condition is evaluated again under the lock *)
WakeCore(s) ==
    /\ cv[s] = "woken" /\ pc[s] \in {"sw1", "sw2"}
    /\ IF pc[s] = "sw1" THEN SwapStep(s, tmo[s], "sw1", "report", "write")
                        ELSE SwapStep(s, tmo[s], "sw2", "report", "report")
    /\ UNCHANGED <<closedB, tmo, conn, recon, wb, rh, hndv, clsv, statv, ghov>>

Items(ids) == [i \in 1..Len(ids) |-> <<"p", ids[i]>>]

(* f(b.r[b.ri:b.rm]) wrote everything: b.ri = b.rm *)
WriteOKEff(s) ==
    /\ conn[s] # 0
    /\ LET batch == SubSeq(r[s], ri[s] + 1, Len(r[s])) IN
       /\ up' = [up EXCEPT ![conn[s]] = @ \o Items(batch)]
       /\ done' = [done EXCEPT ![s] = @ \o batch]
    /\ ri' = [ri EXCEPT ![s] = Len(r[s])]
    /\ UNCHANGED <<w, r, closedB, cv, tmr, tmo, conn, recon, wb, rh, hndv, clsv, statv, acc, upOf, stc,
                   skipped, drops, dropBytes, closedRej, reported, repLost, errs, spur>>
WriteOKCore(s) == pc[s] = "write" /\ conn[s] \notin stc /\ WriteOKEff(s) /\ pc' = [pc EXCEPT ![s] = "sw2e"]

(* WriteTo failed after k packets were written completely (the next one partly or not at all).
   len(bufs) is then (rm-ri)-k, f returns n = len(bufs)-1 and pop() sets b.ri = b.rm - n:
   the packet at which the write failed is not sent again.  sendLoop closes the connection.
   newri is the value b.ri gets (CodedNewRi in the model, the observed one in a trace). *)
CodedNewRi(s, k) == LET rm == Len(r[s])
                        n  == (rm - ri[s]) - k - 1
                    IN IF SkipOnErr THEN rm - n ELSE rm - n - 1
WriteErrEff(s, k, newri) ==
    /\ conn[s] # 0
    /\ k >= 0 /\ k < Len(r[s]) - ri[s]
    /\ newri >= 0 /\ newri <= Len(r[s])
    /\ LET wrote == SubSeq(r[s], ri[s] + 1, ri[s] + k)
           gone  == SubSeq(r[s], ri[s] + 1, newri)
       IN /\ up' = [up EXCEPT ![conn[s]] = @ \o Items(wrote)]
          /\ done' = [done EXCEPT ![s] = @ \o gone]
          /\ skipped' = skipped \cup {r[s][i] : i \in (ri[s] + k + 1)..newri}
          /\ ri' = [ri EXCEPT ![s] = newri]
    /\ werrs' = werrs + 1
    /\ conn' = [conn EXCEPT ![s] = 0]
    /\ UNCHANGED <<w, r, closedB, cv, tmr, tmo, recon, wb, rh, hndv, clsv, fwd, drp, rerrs, acc, upOf, stc,
                   drops, dropBytes, closedRej, reported, repLost, spur>>
WriteErrCore(s, k) == pc[s] = "write" /\ WriteErrEff(s, k, CodedNewRi(s, k)) /\ pc' = [pc EXCEPT ![s] = "top"]

(* ... `b.ri = b.rm; b.swap()` after the successful write *)
SwapEnter2Core(s) ==
    /\ pc[s] = "sw2e"
    /\ tmo' = [tmo EXCEPT ![s] = FALSE]
    /\ IF WaitCond(s, FALSE)
       THEN /\ SwapSleepCore(s) /\ tmr' = [tmr EXCEPT ![s] = "armed"]
            /\ pc' = [pc EXCEPT ![s] = "sw2"]
       ELSE /\ SwapFinishCore(s)
            /\ pc' = [pc EXCEPT ![s] = "report"]
    /\ UNCHANGED <<closedB, conn, recon, wb, rh, hndv, clsv, statv, ghov>>

(* reportWouldBlockIfAny, as one step (used by the trace specification, where the Report hook marks
   the instant the amount is claimed): n is claimed from the counter and one metric packet
   carrying n is written.  ok = the write succeeded; retry = a failed write puts n back *)
ReportEff(s, n, ok, retry) ==
    /\ IF n = 0
       THEN /\ ok /\ UNCHANGED <<wb, up, reported, repLost, werrs>>
       ELSE /\ conn[s] # 0 /\ n <= wb[s]
            /\ IF ok
               THEN /\ wb' = [wb EXCEPT ![s] = @ - n]
                    /\ up' = [up EXCEPT ![conn[s]] = Append(@, <<"r", n>>)]
                    /\ reported' = reported + n
                    /\ UNCHANGED <<repLost, werrs>>
               ELSE /\ werrs' = werrs + 1
                    /\ IF retry THEN UNCHANGED <<wb, repLost>>
                                ELSE wb' = [wb EXCEPT ![s] = @ - n] /\ repLost' = repLost + n
                    /\ UNCHANGED <<up, reported>>
    /\ UNCHANGED <<bufv, conn, recon, rh, hndv, clsv, fwd, drp, rerrs, acc, done, upOf, stc, skipped,
                   drops, dropBytes, closedRej, spur>>

(* The model takes it in two steps, because tcpPool.writeLocked adds dropped bytes to the counter
   concurrently with the sender: ReportBegin reads the counter (ReportClaim = "swap": Swap(0), the
   amount now belongs to this report; "load": Load(), the counter keeps it), ReportEnd is the end
   of conn.Write ("swap": a failure adds the amount back if ReportRetry; "load": Store(0) after a
   success - which also erases whatever was dropped in between). *)
ReportBeginCore(s) ==
    /\ pc[s] = "report"
    /\ IF wb[s] = 0
       THEN /\ pc' = [pc EXCEPT ![s] = "top"] /\ UNCHANGED <<wb, rh>>
       ELSE /\ rh' = [rh EXCEPT ![s] = wb[s]]
            /\ wb' = IF ReportClaim = "swap" THEN [wb EXCEPT ![s] = 0] ELSE wb
            /\ pc' = [pc EXCEPT ![s] = "report2"]
    /\ UNCHANGED <<bufv, conn, recon, hndv, clsv, statv, ghov>>
ReportEndCore(s, ok) ==
    /\ pc[s] = "report2"
    /\ LET n == rh[s] IN
       IF ok
       THEN /\ up' = [up EXCEPT ![conn[s]] = Append(@, <<"r", n>>)]
            /\ reported' = reported + n
            /\ IF ReportClaim = "swap"
               THEN UNCHANGED <<wb, repLost>>
               ELSE wb' = [wb EXCEPT ![s] = 0] /\ repLost' = repLost + (wb[s] - n)   \* Store(0)
            /\ UNCHANGED werrs
       ELSE /\ werrs' = werrs + 1
            /\ IF ReportClaim = "swap"
               THEN IF ReportRetry THEN wb' = [wb EXCEPT ![s] = @ + n] /\ UNCHANGED repLost
                                   ELSE repLost' = repLost + n /\ UNCHANGED wb
               ELSE UNCHANGED <<wb, repLost>>
            /\ UNCHANGED <<up, reported>>
    /\ rh' = [rh EXCEPT ![s] = 0]
    /\ pc' = [pc EXCEPT ![s] = "top"]
    /\ UNCHANGED <<bufv, conn, recon, hndv, clsv, fwd, drp, rerrs, acc, done, upOf, stc, skipped,
                   drops, dropBytes, closedRej, spur>>

-------------------------------------------------------------------------------
(* Egress.Close: close(pool.closed); primary.close(); secondary.close()
   tcpSender.close: close(closeCh); buf.close() (closed = true, Broadcast); wait for sendLoop *)
CloseBeginCore ==
    /\ AllowClose /\ closing = 0
    /\ shut' = TRUE /\ closing' = 1
    /\ UNCHANGED <<bufv, sndv, hndv, stopReq, statv, ghov>>
CloseSenderCore ==
    /\ closing \in Senders /\ ~stopReq[closing]
    /\ stopReq' = [stopReq EXCEPT ![closing] = TRUE]
    /\ closedB' = [closedB EXCEPT ![closing] = TRUE]
    /\ cv' = Signal(cv, closing)
    /\ UNCHANGED <<w, r, ri, tmr, tmo, sndv, hndv, shut, closing, statv, ghov>>
CloseWaitCore ==
    /\ closing \in Senders /\ stopReq[closing] /\ pc[closing] = "done"
    /\ closing' = closing + 1
    /\ UNCHANGED <<bufv, sndv, hndv, shut, stopReq, statv, ghov>>

-------------------------------------------------------------------------------
(* actions of the model (with history) *)
H(x) == hist' = Rec(x)

Push == /\ nextId <= MaxPkts /\ hpc = "idle"
        /\ nextId' = nextId + 1
        /\ UNCHANGED pc
        /\ IF shut
           THEN PushClosedEff /\ H([a |-> "Push", id |-> nextId, res |-> "closed"])
           ELSE \E ln \in PktLens :
                  /\ PushFirstEff(prim, nextId, ln, CanPush(prim))
                  /\ H([a |-> "Push", id |-> nextId, ln |-> ln, s |-> prim,
                        res |-> IF CanPush(prim) THEN "ok" ELSE "full"])
PushSec == /\ PushSecondEff(Other(prim), CanPush(Other(prim)))
           /\ UNCHANGED <<pc, nextId>>
           /\ H([a |-> "PushSec", id |-> hpkt, s |-> Other(prim),
                 res |-> IF CanPush(Other(prim)) THEN "ok" ELSE "drop"])
Top(s) == \E br \in {"close", "reconSkip", "reconClose", "default"} :
            TopCore(s, br) /\ H([a |-> "Top", s |-> s, br |-> br])
DialOK(s) == DialOKCore(s) /\ H([a |-> "DialOK", s |-> s])
DialFail(s) == DialFailCore(s) /\ H([a |-> "DialFail", s |-> s])
PopBegin(s) == PopBeginCore(s) /\ H([a |-> "PopBegin", s |-> s])
Wake(s) == WakeCore(s) /\ H([a |-> "Wake", s |-> s])
TimeoutFires(s) == /\ TimeoutCore(s)
                   /\ UNCHANGED <<sndv, hndv, clsv, statv, ghov>>
                   /\ H([a |-> "TimeoutFires", s |-> s])
(* a timer callback of an earlier swap() that Stop() came too late for: with the fix it
   broadcasts, which can only wake the sender for nothing *)
LateTimer(s) == /\ TimeoutSignals /\ spur < MaxSpur /\ cv[s] = "asleep"
                /\ cv' = [cv EXCEPT ![s] = "woken"] /\ spur' = spur + 1
                /\ UNCHANGED <<w, r, ri, closedB, tmr, tmo, sndv, hndv, clsv, statv, acc, done, up,
                               upOf, stc, skipped, drops, dropBytes, closedRej, reported, repLost, errs>>
                /\ H([a |-> "LateTimer", s |-> s])
WriteOK(s) == WriteOKCore(s) /\ H([a |-> "WriteOK", s |-> s])
WriteErr(s) == /\ errs < MaxErrs /\ errs' = errs + 1
               /\ \E k \in 0..BufLen : WriteErrCore(s, k) /\ H([a |-> "WriteErr", s |-> s, k |-> k])
(* the upstream of s's connection stops reading: from now on a write to it blocks *)
UpstreamStalls(s) == /\ conn[s] # 0 /\ conn[s] \notin stc /\ errs < MaxErrs
                     /\ stc' = stc \cup {conn[s]} /\ errs' = errs + 1
                     /\ UNCHANGED <<bufv, sndv, hndv, clsv, statv, acc, done, up, upOf, skipped, drops,
                                    dropBytes, closedRej, reported, repLost, spur>>
                     /\ H([a |-> "UpstreamStalls", s |-> s])
(* the blocked write hits the write deadline (if one was set) and fails like any other write *)
WriteDeadline(s) == /\ DeadlineArmed /\ conn[s] \in stc
                    /\ \E k \in 0..BufLen : WriteErrCore(s, k) /\ H([a |-> "WriteDeadline", s |-> s, k |-> k])
                    /\ UNCHANGED errs
SwapEnter2(s) == SwapEnter2Core(s) /\ H([a |-> "SwapEnter2", s |-> s])
ReportBegin(s) == ReportBeginCore(s) /\ H([a |-> "ReportBegin", s |-> s, n |-> wb[s]])
ReportOK(s) == ReportEndCore(s, TRUE) /\ UNCHANGED errs /\ H([a |-> "ReportEnd", s |-> s, n |-> rh[s]])
ReportErr(s) == /\ errs < MaxErrs /\ errs' = errs + 1
                /\ ReportEndCore(s, FALSE) /\ H([a |-> "ReportErr", s |-> s, n |-> rh[s]])
CloseBegin == CloseBeginCore /\ H([a |-> "Close"])
CloseSender == CloseSenderCore /\ H([a |-> "CloseSender", s |-> closing])
CloseWait == CloseWaitCore /\ H([a |-> "CloseWait", s |-> closing])

SenderProgress(s) == Top(s) \/ DialOK(s) \/ PopBegin(s) \/ Wake(s) \/ WriteOK(s) \/ WriteDeadline(s) \/ SwapEnter2(s) \/ ReportBegin(s) \/ ReportOK(s)
SenderFault(s) == DialFail(s) \/ WriteErr(s) \/ ReportErr(s) \/ LateTimer(s) \/ UpstreamStalls(s)

Next == /\ RecordHist => Len(hist) < MaxHist
        /\ \/ Push \/ PushSec
           \/ \E s \in Senders : SenderProgress(s) \/ SenderFault(s) \/ TimeoutFires(s)
           \/ CloseBegin \/ CloseSender \/ CloseWait

Spec == Init /\ [][Next]_vars

(* Fairness: the sender goroutines, the timers and a handler call in progress keep running;
   no fairness on Push (traffic may stop at any moment) nor on the faults. *)
Fair == /\ \A s \in Senders : WF_vars(SenderProgress(s)) /\ WF_vars(TimeoutFires(s))
        /\ WF_vars(PushSec) /\ WF_vars(CloseSender \/ CloseWait)
FairSpec == Spec /\ Fair

-------------------------------------------------------------------------------
(* The property *)
IsPrefix(a, b) == Len(a) <= Len(b) /\ SubSeq(b, 1, Len(a)) = a
Range(q) == {q[i] : i \in 1..Len(q)}

RECURSIVE WrittenFrom(_, _)
WrittenFrom(s, c) ==         \* packet ids sender s wrote on connections c..Len(up), in order
    IF c > Len(up) THEN <<>>
    ELSE (IF upOf[c] = s
          THEN LET ps == SelectSeq(up[c], LAMBDA it : it[1] = "p") IN [i \in 1..Len(ps) |-> ps[i][2]]
          ELSE <<>>) \o WrittenFrom(s, c + 1)
Written(s) == WrittenFrom(s, 1)

(* Every accepted packet is written with nothing before it missing: per sender, the packets on
   its connections (in connection order) are the accepted ones in acceptance order. *)
InOrderNoLoss == \A s \in Senders : IsPrefix(Written(s), acc[s])
(* what the code guarantees while it skips after a write error *)
InOrderModuloSkip == \A s \in Senders :
                        IsPrefix(Written(s), SelectSeq(acc[s], LAMBDA id : id \notin skipped))
SkipBound == Cardinality(skipped) <= werrs
NoSkip == skipped = {}
(* nothing is lost or reordered inside a buffer *)
BufferAccounting == \A s \in Senders :
                       /\ ri[s] <= Len(r[s]) /\ Len(w[s]) <= BufLen /\ Len(r[s]) <= BufLen
                       /\ acc[s] = done[s] \o SubSeq(r[s], ri[s] + 1, Len(r[s])) \o w[s]
                       /\ Written(s) = SelectSeq(done[s], LAMBDA id : id \notin skipped)
(* a packet is dropped only when both send buffers are full, every drop is counted ... *)
DropOnlyWhenFull == \A i \in 1..Len(drops) : drops[i].primFull /\ drops[i].secFull /\ drops[i].distinct
(* the reading "both full at the same instant" is NOT guaranteed: the primary can swap between
   the two attempts of one call (kept to show it; not part of the checked property) *)
DropInstantBothFull == \A i \in 1..Len(drops) : drops[i].bothNow
DropsCounted == /\ drp = Len(drops) + closedRej
                /\ fwd = Len(acc[1]) + Len(acc[2])
                /\ fwd + drp = (nextId - 1) - (IF hpc = "sec" THEN 1 ELSE 0)
(* ... and reported upstream: every dropped byte is either still to be reported or was written *)
ReportsConserved == wb[1] + wb[2] + (IF ReportClaim = "swap" THEN rh[1] + rh[2] ELSE 0) + reported + repLost = dropBytes
NoReportLost == repLost = 0
(* bounded delay, safety half: a sender never sleeps on although its swapWaitMax is over *)
NoStuck == \A s \in Senders : ~(cv[s] = "asleep" /\ tmo[s])
(* timers exist only inside swap() *)
TimerSane == \A s \in Senders : (tmr[s] = "armed" => cv[s] \in {"asleep", "woken"})
                               /\ (cv[s] # "none" <=> pc[s] \in {"sw1", "sw2"})
ConnSane == \A s \in Senders : /\ conn[s] # 0 => (conn[s] <= Len(up) /\ upOf[conn[s]] = s)
                               /\ pc[s] \in {"pop", "sw1", "write", "sw2e", "sw2", "report", "report2"} => conn[s] # 0

AccIds == Range(acc[1]) \cup Range(acc[2])
DoneIds == Range(done[1]) \cup Range(done[2])
(* bounded delay, liveness half: even if no further packet arrives, everything accepted is
   eventually written (handler calls are bounded, so "eventually always" says it per packet) *)
EventuallyWritten == <>[](AccIds \subseteq DoneIds \/ shut)
EventuallyReported == <>[]((wb[1] = 0 /\ rh[1] = 0) \/ shut)
CloseTerminates == (closing = 1) ~> (closing = 3)

(* behaviour export (simulation): print a behaviour when it is complete *)
Export == (Len(hist') = MaxHist \/ closing' = 3) => PrintT(<<"BEH", ToJson(hist')>>)
===============================================================================
