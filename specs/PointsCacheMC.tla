---------------------------- MODULE PointsCacheMC ----------------------------
(* Bounded instance of PointsCache with the code's real constants (3600/60/1, -48h, 15 s)
   over a boundary alphabet of seconds around an hour edge H that the window edge crosses. *)
EXTENDS PointsCache
H == 1080000000            \* hour aligned
R(f, t) == [f |-> f, t |-> t]
MCRanges == { R(H - 1, H + 1), R(H, H + 60), R(H + 59, H + 61), R(H + 1, H + 3601),
              R(H - 3601, H - 1), R(H + 61, H + 3599), R(H + 1, H + 181), R(H + 1, H + 7201) }
MCRangesSmall == { R(H - 1, H + 1), R(H + 1, H + 181), R(H + 1, H + 7201), R(H - 3601, H - 3) }
MCSecs == { H - 2, H, H + 1, H + 59, H + 60, H + 3600, H + 3601 }
MCSecsSmall == { H - 2, H, H + 60, H + 3601 }
MCNow0 == H + 172800 - 3   \* Imm = H - 3
MCTicks == { 1, 15, 16 }
MCFrom == -172800
===============================================================================
