INIT Init
NEXT Next
CONSTANTS
  NChunks = 2
  CS = 2
  NGets = 3
  Ranges <- AllRanges
  Plays <- NoPlay
  Forces <- NoForce
  MaxInv = 1
  MaxTrim = 1
  MaxFail = 1
  Age <- AllOld
  FixAwait = TRUE
  FixPublish = TRUE
  FixInvMax = FALSE
  AnyTakesAwaiters = FALSE
  SeqInv = TRUE
  MaxOps = 16
VIEW View
ACTION_CONSTRAINT Export
CHECK_DEADLOCK FALSE
