------------------------------ MODULE TableRelation ------------------------------
(* Property C25, stated as a relation between the INPUT of a table query's row assembly
   (internal/api/table.go: getTableFromLODs) and its OUTPUT.  No mechanism here: the
   transcription of the code lives in TableAssembly.tla, and both TLC (on the transcription)
   and the conformance driver (on the real code, via TableAssemblyTrace.tla) are checked
   against the operators of this module.

   Vocabulary
     key     <<time, tag_1, .., tag_n>> (integers; a string top is encoded by its rank):
             what makes a table row unique.
     in      [lods  |-> sequence of <<fromSec, toSec>>  (ascending, adjacent: the LOD split),
              st    |-> sequence over the handler-whats (storage queries; each serves up to
                        seven of the requested functions) of the SET of keys the storage
                        returns a value for,
              w     |-> sequence: number of requested functions served by each handler-what,
              from, to |-> row markers (a key; time 0 = no marker), both exclusive,
              desc  |-> direction (fromEnd), limit |-> numResults]
     out     [rows |-> sequence of [k |-> key, d |-> columns], more |-> has-more flag]
             a column holds 0 for NaN, or c for "the value of requested function c for this
             row's key" (the driver gives every (function, key) its own value and projects
             the real numbers back to this form, -1 for a value that belongs nowhere).      *)
EXTENDS Integers, Sequences, FiniteSets

NoMarker == <<0>>
HasMarker(m) == m[1] # 0

\* lexicographic order of keys (keys of one case have the same length)
LexLess(a, b) == \E i \in 1..Len(a) : /\ i <= Len(b)
                                      /\ a[i] < b[i]
                                      /\ \A j \in 1..(i - 1) : a[j] = b[j]
\* a comes strictly before b in the requested direction
Before(a, b, desc) == IF desc THEN LexLess(b, a) ELSE LexLess(a, b)

NWhats(in) == Len(in.st)
RECURSIVE SumTo(_, _)
SumTo(w, n) == IF n = 0 THEN 0 ELSE w[n] + SumTo(w, n - 1)
ColBase(in, q) == SumTo(in.w, q - 1)          \* columns before handler-what q
NCols(in) == SumTo(in.w, Len(in.w))           \* = number of requested functions
WhatOfCol(in, c) == CHOOSE q \in 1..NWhats(in) : ColBase(in, q) < c /\ c <= ColBase(in, q) + in.w[q]

\* the requested row window: strictly after `from`, strictly before `to`, in direction order
InWindow(k, in) == /\ HasMarker(in.from) => Before(in.from, k, in.desc)
                   /\ HasMarker(in.to) => Before(k, in.to, in.desc)
StoredKeys(in) == UNION {in.st[q] : q \in 1..NWhats(in)}
WindowKeys(in) == {k \in StoredKeys(in) : InWindow(k, in)}
Lim(in) == IF in.limit < 0 THEN 0 ELSE in.limit
Page(out) == {out.rows[i].k : i \in DOMAIN out.rows}

-------------------------------------------------------------------------------
(* The clauses of the property. *)

\* exactly one column per requested function; NaN exactly where the storage had no value
Aligned(in, out) ==
    \A i \in DOMAIN out.rows :
        /\ Len(out.rows[i].d) = NCols(in)
        /\ \A c \in 1..NCols(in) :
              out.rows[i].d[c] = IF out.rows[i].k \in in.st[WhatOfCol(in, c)] THEN c ELSE 0

\* rows unique by (time, tags)
Unique(out) == \A i, j \in DOMAIN out.rows : i # j => out.rows[i].k # out.rows[j].k

\* sorted in the requested direction
Ordered(in, out) ==
    \A i \in 1..(Len(out.rows) - 1) : Before(out.rows[i].k, out.rows[i + 1].k, in.desc)

\* only rows of the requested window (and only rows the storage has)
WindowRespected(in, out) == Page(out) \subseteq WindowKeys(in)

\* at most `limit` rows
LimitRespected(in, out) == Len(out.rows) <= Lim(in)

\* the page is the beginning of the window: nothing left out comes before a row of the page,
\* and the page is only short when the window is exhausted
FirstRows(in, out) ==
    /\ \A k \in WindowKeys(in) \ Page(out) : \A p \in Page(out) : Before(p, k, in.desc)
    /\ Cardinality(Page(out)) < Lim(in) => WindowKeys(in) \subseteq Page(out)

\* has-more exactly when rows beyond the limit exist
HasMoreExact(in, out) == out.more <=> (Cardinality(WindowKeys(in)) > Lim(in))

-------------------------------------------------------------------------------
(* The clauses determine the output: SpecOut(in) is the only output that conforms (TLC checks
   FinalIsSpecOut in TableAssembly and ConformsSpecOut in TablePaging). *)
SortSeq(S, desc) == [i \in 1..Cardinality(S) |->
                       CHOOSE k \in S : Cardinality({j \in S : Before(j, k, desc)}) = i - 1]
SpecOut(in) ==
    LET srt == SortSeq(WindowKeys(in), in.desc)
        n   == IF Lim(in) < Len(srt) THEN Lim(in) ELSE Len(srt)
    IN [rows |-> [i \in 1..n |->
                    [k |-> srt[i],
                     d |-> [c \in 1..NCols(in) |-> IF srt[i] \in in.st[WhatOfCol(in, c)] THEN c ELSE 0]]],
        more |-> Len(srt) > Lim(in)]

Conforms(in, out) == /\ Aligned(in, out) /\ Unique(out) /\ Ordered(in, out)
                     /\ WindowRespected(in, out) /\ LimitRespected(in, out)
                     /\ FirstRows(in, out) /\ HasMoreExact(in, out)
===============================================================================
