------------------------------ MODULE PromAgg ------------------------------
(***************************************************************************)
(* C27 - PromQL evaluation matches operator definitions; rewrites          *)
(* (reductions) preserve results.                                          *)
(*                                                                         *)
(* internal/promql evaluates an expression over series returned by a       *)
(* storage Handler.  This module specifies, over small integer data with   *)
(* missing points,                                                         *)
(*   1. the DEFINITIONS of the aggregation operators (sum min max avg      *)
(*      count group stddev stdvar quantile topk bottomk, by / without) and *)
(*      of the *_over_time functions over a window, as exact integer       *)
(*      relations  value * den = num  (no division, no square root);       *)
(*   2. the STORAGE CONTRACT: what a series query with a pushed-down       *)
(*      `what`, group-by and range returns (raw points pooled into a       *)
(*      mergeable digest per bucket, `what` projected from the digest);    *)
(*   3. the REDUCTION RULES of reductions.go (rules #0..#3, reduceWhat)    *)
(*      transcribed, and the REDUCTION THEOREMS: the storage value the     *)
(*      engine substitutes for the expression equals the definition        *)
(*      applied to the raw points - unconditionally for sum/min/max and    *)
(*      the one-level rules, under the stated side condition for avg of    *)
(*      avg and count of count (the engine deliberately pools events).     *)
(* TLC checks the theorems for every data set of the instance and exports  *)
(* the specified results; the Go driver evaluates the same expressions     *)
(* with the real Engine.Exec (reduced and unreduced) and compares.         *)
(*                                                                         *)
(* A value is a record [n, d, q]: the specified number is n/d (d > 0), or  *)
(* its square is n/d when q = 1 (stddev).  d = 0 means "not constrained"   *)
(* (the operator is applied to no point: PromQL produces no sample there;  *)
(* the engine produces NaN, 0 or 1 depending on the operator).             *)
(***************************************************************************)
EXTENDS Integers, Sequences, FiniteSets, TLC, Json

CONSTANTS NS,       \* number of series
          NT,       \* number of raw time slots
          Vals,     \* integer values a point may take
          TagA, TagB, \* series -> value of label a / b
          R,        \* bucket width (slots) of the coarse storage query = range of the reduced selector
          WMax,     \* largest over-time window (slots) at raw resolution
          Tables,   \* which result tables are exported: subset of {"agg", "ot", "red"}
          SelMod, Sel, \* export the data sets with Hash % SelMod = Sel (all theorems are checked on every data set)
          PreAvg, PreCount, \* TRUE: theorem side conditions as stated; FALSE: dropped (must be refuted)
          AnchorVals \* if not empty: every series has a point in the last slot, with a value from this set
                     \* (a series with no point at all does not exist for the engine; the anchor makes
                     \* "missing point of an existing series" frequent in small instances)

VARIABLE data       \* data[s] : partial function slot -> value (slot absent = missing point)

Series == 1..NS
Slots  == 1..NT
NB     == (NT + R - 1) \div R                  \* number of coarse buckets
Bucket(b) == {i \in Slots : (i - 1) \div R = b - 1}
Window(t, w) == {i \in Slots : t - w < i /\ i <= t}     \* PromQL (t - w, t] on the raw grid

Partial == {f \in UNION {[D -> Vals] : D \in SUBSET Slots} : AnchorVals # {} => (NT \in DOMAIN f /\ f[NT] \in AnchorVals)}
TypeOK == data \in [Series -> Partial]

----------------------------------------------------------------------------
(* Points and bags.  A bag of values is a set P of points <<s, i>>.        *)
Pts(G, I) == UNION {{<<s, i>> : i \in I \cap DOMAIN data[s]} : s \in G}
OfSeries(P, s) == {p \in P : p[1] = s}        \* the points of P that belong to series s
AtSlot(P, t)   == {p \in P : p[2] = t}        \* the points of P at slot t
Val(p) == data[p[1]][p[2]]
Card(P) == Cardinality(P)

RECURSIVE SumP(_), SumSqP(_), SortP(_), DevP(_, _, _)
SumP(P)   == IF P = {} THEN 0 ELSE LET p == CHOOSE x \in P : TRUE IN Val(p) + SumP(P \ {p})
SumSqP(P) == IF P = {} THEN 0 ELSE LET p == CHOOSE x \in P : TRUE IN Val(p) * Val(p) + SumSqP(P \ {p})
MinP(P)   == CHOOSE v \in {Val(p) : p \in P} : \A q \in P : v <= Val(q)
MaxP(P)   == CHOOSE v \in {Val(p) : p \in P} : \A q \in P : v >= Val(q)
\* the nondecreasing arrangement of the bag
SortP(P)  == IF P = {} THEN <<>>
             ELSE LET p == CHOOSE x \in P : \A q \in P : Val(x) <= Val(q) IN <<Val(p)>> \o SortP(P \ {p})
\* sum over the bag of (n*x - S)^2  =  n^2 * sum (x - mean)^2
DevP(P, n, S) == IF P = {} THEN 0
                 ELSE LET p == CHOOSE x \in P : TRUE IN (n * Val(p) - S) * (n * Val(p) - S) + DevP(P \ {p}, n, S)

Q(n, d)  == [n |-> n, d |-> d, q |-> 0]
None     == [n |-> 0, d |-> 0, q |-> 0]
Absent   == [n |-> 0, d |-> 0, q |-> 2]     \* the result must have no sample here
Known(x) == x.d > 0
Eq(x, y) == x.d > 0 /\ y.d > 0 /\ x.q = y.q /\ x.n * y.d = y.n * x.d

(* quantile a/b by linear interpolation between closest ranks (Prometheus):  *)
(* rank = (a/b)(n-1); value * b = v[lo] * (b - rem) + v[hi] * rem            *)
QuantileP(a, b, P) ==
    LET v == SortP(P)  n == Len(v)
        pos == a * (n - 1)
        lo == pos \div b   rem == pos % b
        hi == IF lo + 1 < n - 1 THEN lo + 1 ELSE n - 1
    IN Q(v[lo + 1] * (b - rem) + v[hi + 1] * rem, b)

(* THE DEFINITIONS, applied to a bag of points (missing points are simply not in the bag) *)
Def(op, P) ==
    IF P = {} THEN None
    ELSE LET n == Card(P)  S == SumP(P) IN
      CASE op = "sum"    -> Q(S, 1)
        [] op = "count"  -> Q(n, 1)
        [] op = "group"  -> Q(1, 1)
        [] op = "present" -> Q(1, 1)                             \* present_over_time: 1 iff the window holds a point
        [] op = "min"    -> Q(MinP(P), 1)
        [] op = "max"    -> Q(MaxP(P), 1)
        [] op = "avg"    -> Q(S, n)                              \* avg * n = sum
        [] op = "stdvar" -> Q(DevP(P, n, S), n * n * n)          \* population variance: var * n = sum (x - mean)^2
        [] op = "stddev" -> [n |-> DevP(P, n, S), d |-> n * n * n, q |-> 1]   \* its square root
        [] op = "q0"     -> QuantileP(0, 1, P)
        [] op = "q25"    -> QuantileP(1, 4, P)
        [] op = "q50"    -> QuantileP(1, 2, P)
        [] op = "q75"    -> QuantileP(3, 4, P)
        [] op = "q100"   -> QuantileP(1, 1, P)
        [] op = "last"   -> LET i == CHOOSE i \in {p[2] : p \in P} : \A q \in P : q[2] <= i
                                p == CHOOSE x \in P : x[2] = i
                            IN Q(Val(p), 1)

AggOps  == {"sum", "count", "group", "min", "max", "avg", "stdvar", "stddev", "q25", "q50", "q75", "q100"}
OTOps   == {"sum", "count", "min", "max", "avg", "stdvar", "stddev", "q0", "q25", "q50", "q75", "last", "present"}

----------------------------------------------------------------------------
(* Grouping: by (ls) keeps the labels ls, without (ls) keeps the others.   *)
Labels == {"a", "b"}
Groupings == [w : BOOLEAN, ls : SUBSET Labels]
Keep(g) == IF g.w THEN Labels \ g.ls ELSE g.ls
Tag(l, s) == IF l = "a" THEN TagA[s] ELSE TagB[s]
Key(g, s) == <<IF "a" \in Keep(g) THEN TagA[s] ELSE 0, IF "b" \in Keep(g) THEN TagB[s] ELSE 0>>
Groups(g) == {{s \in Series : Key(g, s) = k} : k \in {Key(g, s) : s \in Series}}
KeyOf(g, G) == Key(g, CHOOSE s \in G : TRUE)

(* aggregation operator at one slot *)
AggAt(op, G, t) == Def(op, Pts(G, {t}))
(* over-time function of one series at slot t with window w (t may lie after the last point) *)
OverTime(op, s, t, w) == Def(op, Pts({s}, Window(t, w)))

(* topk / bottomk of this engine select whole SERIES by a weight over the   *)
(* visible range (engine.go weight): sum of v^2 times the step, or, when all *)
(* series of the group are non-decreasing, the last value.  Ties are broken *)
(* arbitrarily, so the specification is relational: the admissible results. *)
NonEmpty(G) == {s \in G : DOMAIN data[s] # {}}
NonDec(s)   == \A i, j \in DOMAIN data[s] : i < j => data[s][i] <= data[s][j]
Weight(G, s) == IF \A x \in NonEmpty(G) : NonDec(x)
                THEN Def("last", Pts({s}, Slots)).n
                ELSE SumSqP(Pts({s}, Slots))
TopAdmissible(G, k, desc) ==
    LET E == NonEmpty(G)
        m == IF k < Card(E) THEN k ELSE Card(E)
    IN {T \in SUBSET E : /\ Card(T) = m
                         /\ \A x \in T, y \in E \ T :
                               IF desc THEN Weight(G, x) >= Weight(G, y) ELSE Weight(G, x) <= Weight(G, y)}

----------------------------------------------------------------------------
(* STORAGE CONTRACT.  A series query (what, group-by, range) pools the raw  *)
(* points of the series that agree on the group-by labels per bucket into a *)
(* digest built by merging single points (api tsValues.merge), and projects *)
(* `what` (api tsValues.value): count and sum are scaled to the query step  *)
(* (range if set), *sec variants are per second of the bucket.              *)
Single(v) == [cnt |-> 1, sum |-> v, sumsq |-> v * v, min |-> v, max |-> v]
Merge(x, y) == [cnt |-> x.cnt + y.cnt, sum |-> x.sum + y.sum, sumsq |-> x.sumsq + y.sumsq,
                min |-> IF x.min < y.min THEN x.min ELSE y.min,
                max |-> IF x.max > y.max THEN x.max ELSE y.max]
RECURSIVE Digest(_)
Digest(P) == LET p == CHOOSE x \in P : TRUE IN
             IF P = {p} THEN Single(Val(p)) ELSE Merge(Single(Val(p)), Digest(P \ {p}))

What(w, dg, qstep, lstep) ==
    CASE w = "count"    -> Q(dg.cnt * qstep, lstep)
      [] w = "countsec" -> Q(dg.cnt, lstep)
      [] w = "sum"      -> Q(dg.sum * qstep, lstep)
      [] w = "sumsec"   -> Q(dg.sum, lstep)
      [] w = "avg"      -> Q(dg.sum, dg.cnt)
      [] w = "min"      -> Q(dg.min, 1)
      [] w = "max"      -> Q(dg.max, 1)
      [] w = "stdvar"   -> Q(dg.cnt * dg.sumsq - dg.sum * dg.sum, dg.cnt * dg.cnt)
      [] w = "stddev"   -> [n |-> dg.cnt * dg.sumsq - dg.sum * dg.sum, d |-> dg.cnt * dg.cnt, q |-> 1]

\* P = the raw points of the group's series in the bucket
Storage(w, P, qstep, lstep) == IF P = {} THEN None ELSE What(w, Digest(P), qstep, lstep)

----------------------------------------------------------------------------
(* REDUCTION RULES (reductions.go transcribed).                            *)
AggWhat(op) == CASE op = "avg" -> "avg" [] op = "min" -> "min" [] op = "max" -> "max"
                 [] op = "sum" -> "sumsec" [] op = "count" -> "countsec" [] OTHER -> "-"
OTWhat(op)  == CASE op = "avg" -> "avg" [] op = "min" -> "min" [] op = "max" -> "max"
                 [] op = "sum" -> "sum" [] op = "count" -> "count"
                 [] op = "stddev" -> "stddev" [] op = "stdvar" -> "stdvar" [] OTHER -> "-"
\* reduceWhat(a, b): a = what accumulated so far ("" = the selector's default), b = what of this node
ReduceWhat(a, b) ==
    IF b = "-" \/ a = "-" THEN "-"
    ELSE IF a = "" \/ (a = "sumsec" /\ b = "sum") \/ (a = "countsec" /\ b = "count") THEN b
    ELSE IF a = b \/ (a = "sum" /\ b = "sumsec") \/ (a = "count" /\ b = "countsec") THEN a
    ELSE "-"
Rule0What(agg)     == ReduceWhat("", AggWhat(agg))                         \* agg(m)
Rule1What(f)       == ReduceWhat("", OTWhat(f))                            \* f_over_time(m[r])
Rule2What(agg, f)  == ReduceWhat(Rule1What(f), AggWhat(agg))               \* agg(f_over_time(m[r]))
Rule3What(f, agg)  == ReduceWhat(Rule0What(agg), OTWhat(f))                \* f_over_time(agg(m)[r:])
Agg5 == {"sum", "count", "min", "max", "avg"}
OT7  == {"sum", "count", "min", "max", "avg", "stdvar", "stddev"}
OT5  == {"sum", "count", "min", "max", "avg"}

(* Two-level definitions on the raw points (what the expression MEANS).    *)
(* Inner results are rationals; the outer operator needs +, <, count.      *)
QAdd(x, y) == Q(x.n * y.d + y.n * x.d, x.d * y.d)
QLess(x, y) == x.n * y.d < y.n * x.d
RECURSIVE QSum(_)
QSum(sq) == IF Len(sq) = 1 THEN sq[1] ELSE QAdd(sq[1], QSum(Tail(sq)))
QMin(sq) == LET i == CHOOSE i \in 1..Len(sq) : \A j \in 1..Len(sq) : ~QLess(sq[j], sq[i]) IN sq[i]
QMax(sq) == LET i == CHOOSE i \in 1..Len(sq) : \A j \in 1..Len(sq) : ~QLess(sq[i], sq[j]) IN sq[i]
Outer(op, sq) ==
    IF Len(sq) = 0 THEN None
    ELSE CASE op = "sum" -> QSum(sq) [] op = "min" -> QMin(sq) [] op = "max" -> QMax(sq)
           [] op = "count" -> Q(Len(sq), 1)
           [] op = "avg" -> LET s == QSum(sq) IN Q(s.n, s.d * Len(sq))
RECURSIVE Inner2(_, _, _), Inner3(_, _, _)
\* P = Pts(G, I).  The Known values f(points of s), s in G, as a sequence (order irrelevant)
Inner2(f, G, P) == IF G = {} THEN <<>>
                   ELSE LET s == CHOOSE y \in G : TRUE
                            v == Def(f, OfSeries(P, s))
                        IN (IF Known(v) THEN <<v>> ELSE <<>>) \o Inner2(f, G \ {s}, P)
\* the Known values agg(points at t), t in I
Inner3(agg, P, I) == IF I = {} THEN <<>>
                     ELSE LET t == CHOOSE y \in I : TRUE
                              v == Def(agg, AtSlot(P, t))
                          IN (IF Known(v) THEN <<v>> ELSE <<>>) \o Inner3(agg, P, I \ {t})

\* agg over the series of G of f over the slots I          (P = Pts(G, I))
TwoLevel2(agg, f, G, P) == Outer(agg, Inner2(f, G, P))
\* f over the slots I of agg over the series of G
TwoLevel3(f, agg, P, I) == Outer(f, Inner3(agg, P, I))

(* side conditions under which pooling equals the two-level definition *)
Pre2(agg, f, G, P) ==
    CASE agg = "avg"   -> ~PreAvg \/ \A s1, s2 \in G : OfSeries(P, s1) # {} /\ OfSeries(P, s2) # {} => Card(OfSeries(P, s1)) = Card(OfSeries(P, s2))
      [] agg = "count" -> ~PreCount \/ \A s \in G : Card(OfSeries(P, s)) <= 1
      [] OTHER -> TRUE
Pre3(f, agg, P, I) ==
    CASE f = "avg"   -> ~PreAvg \/ \A t1, t2 \in I : AtSlot(P, t1) # {} /\ AtSlot(P, t2) # {} => Card(AtSlot(P, t1)) = Card(AtSlot(P, t2))
      [] f = "count" -> ~PreCount \/ \A t \in I : Card(AtSlot(P, t)) <= 1
      [] OTHER -> TRUE

----------------------------------------------------------------------------
(* THEOREMS (checked as invariants on every data set).                     *)
AllGroups == UNION {Groups(g) : g \in Groupings}     \* Groupings is constant: the distinct label-induced series sets
SlotSets == {{t} : t \in Slots} \cup {Bucket(b) : b \in 1..NB}
Pairs2 == {pr \in Agg5 \X OT7 : Rule2What(pr[1], pr[2]) # "-"}      \* <<agg, f>>
Pairs3 == {pr \in OT7 \X Agg5 : Rule3What(pr[1], pr[2]) # "-"}      \* <<f, agg>>

\* the mergeable digest carries exactly the definitions (in particular the
\* variance from count/sum/sum of squares equals the definition from deviations)
DigestIsDefinition ==
    \A G \in AllGroups \cup {{s} : s \in Series}, I \in SlotSets :
        LET P == Pts(G, I) IN
        P # {} =>
            LET dg == Digest(P) IN
            /\ \A w \in {"avg", "min", "max", "stdvar", "stddev"} : Eq(What(w, dg, 1, 1), Def(w, P))
            /\ Eq(What("sum", dg, R, R), Def("sum", P))
            /\ Eq(What("count", dg, R, R), Def("count", P))

\* rule #0  agg(m)  at the raw resolution (bucket = one slot = one second)
Rule0Exact ==
    \A G \in AllGroups, t \in Slots :
        LET P == Pts(G, {t}) IN
        P # {} => \A agg \in Agg5 : Eq(Storage(Rule0What(agg), P, 1, 1), Def(agg, P))

\* rule #1  f_over_time(m[r]), r = step
Rule1Exact ==
    \A s \in Series, b \in 1..NB :
        LET P == Pts({s}, Bucket(b)) IN
        P # {} => \A f \in OT7 : Eq(Storage(Rule1What(f), P, R, R), Def(f, P))

\* rule #2  agg(f_over_time(m[r]))
Rule2Exact ==
    \A G \in AllGroups, b \in 1..NB :
        LET P == Pts(G, Bucket(b)) IN
        P # {} => \A pr \in Pairs2 :
            Pre2(pr[1], pr[2], G, P) => Eq(Storage(Rule2What(pr[1], pr[2]), P, R, R), TwoLevel2(pr[1], pr[2], G, P))

\* rule #3  f_over_time(agg(m)[r:])
Rule3Exact ==
    \A G \in AllGroups, b \in 1..NB :
        LET P == Pts(G, Bucket(b)) IN
        P # {} => \A pr \in Pairs3 :
            Pre3(pr[1], pr[2], P, Bucket(b)) => Eq(Storage(Rule3What(pr[1], pr[2]), P, R, R), TwoLevel3(pr[1], pr[2], P, Bucket(b)))

\* the rule table accepts exactly these pairs (a change of the table must be looked at)
Same5 == {<<"sum", "sum">>, <<"count", "count">>, <<"min", "min">>, <<"max", "max">>, <<"avg", "avg">>}
ReduciblePairs ==
    /\ Pairs2 = Same5 /\ Pairs3 = Same5
    /\ \A agg \in Agg5 : Rule0What(agg) = AggWhat(agg)
    /\ \A f \in OT7 : Rule1What(f) = OTWhat(f)

\* sanity of the definitions themselves (independent characterisations)
DefinitionsSane ==
    \A G \in AllGroups, I \in SlotSets :
        LET P == Pts(G, I) IN P # {} =>
            /\ 2 * Def("min", P).n <= Def("q50", P).n /\ Def("q50", P).n <= 2 * Def("max", P).n
            /\ Def("q0", P).n = Def("min", P).n /\ Def("q100", P).n = Def("max", P).n
            /\ 4 * Def("min", P).n <= Def("q25", P).n /\ 2 * Def("q25", P).n <= 4 * Def("q50", P).n /\ 4 * Def("q50", P).n <= 2 * Def("q75", P).n
            /\ Def("min", P).n * Card(P) <= SumP(P) /\ SumP(P) <= Def("max", P).n * Card(P)
            /\ Def("stdvar", P).n >= 0
            /\ (Def("stdvar", P).n = 0 <=> Def("min", P).n = Def("max", P).n)
            /\ Len(SortP(P)) = Card(P)
            /\ \A k \in 1..3 : \A d \in BOOLEAN : TopAdmissible(G, k, d) # {}

\* topk/bottomk/sort agree with the VALUES where that is unambiguous: in a group of constant series
\* (negative ones included) the ranking key orders the series as their values do, and in a group of
\* non-decreasing series (plateaus allowed: counters, constant gauges) as their last values do
Constant(s) == \A i, j \in DOMAIN data[s] : data[s][i] = data[s][j]
LastVal(s)  == Def("last", Pts({s}, Slots)).n
TopRanksByValue ==
    \A G \in AllGroups :
        LET E == NonEmpty(G) IN
        /\ (\A s \in E : NonDec(s)) =>
              \A x, y \in E : (LastVal(x) < LastVal(y) <=> Weight(G, x) < Weight(G, y))
        /\ (\A s \in E : Constant(s)) =>
              \A x, y \in E : LastVal(x) < LastVal(y) =>
                  /\ \A T \in TopAdmissible(G, 1, TRUE) : x \notin T        \* topk(1) never returns the smaller constant
                  /\ \A T \in TopAdmissible(G, 1, FALSE) : y \notin T       \* bottomk(1) never the larger

----------------------------------------------------------------------------
(* EXPORT of the specified results for the Go driver.  Results are listed   *)
(* per distinct series set (group); every grouping refers to its groups.    *)
V(x) == <<x.n, x.d, x.q>>
GroupingSeq == << [w |-> FALSE, ls |-> {}], [w |-> FALSE, ls |-> {"a"}], [w |-> FALSE, ls |-> {"b"}], [w |-> FALSE, ls |-> {"a", "b"}],
                  [w |-> TRUE, ls |-> {}], [w |-> TRUE, ls |-> {"a"}], [w |-> TRUE, ls |-> {"b"}], [w |-> TRUE, ls |-> {"a", "b"}] >>
GName(g) == (IF g.w THEN "without" ELSE "by") \o " (" \o
            (IF g.ls = {} THEN "" ELSE IF g.ls = {"a"} THEN "a" ELSE IF g.ls = {"b"} THEN "b" ELSE "a, b") \o ")"
RECURSIVE SetToSeq(_)
SetToSeq(S) == IF S = {} THEN <<>> ELSE LET x == CHOOSE y \in S : TRUE IN <<x>> \o SetToSeq(S \ {x})
AggOpSeq == SetToSeq(AggOps)
OTOpSeq  == SetToSeq(OTOps)
GroupSeq == SetToSeq(AllGroups)
GroupIx(G) == CHOOSE i \in 1..Len(GroupSeq) : GroupSeq[i] = G
\* grouping -> its groups: label key <<a, b>> (0 = label dropped) and index of the series set
GroupingTable == [gi \in 1..Len(GroupingSeq) |->
                    LET g == GroupingSeq[gi]  GS == SetToSeq(Groups(g)) IN
                    [g |-> GName(g), groups |-> [x \in 1..Len(GS) |-> [key |-> KeyOf(g, GS[x]), ix |-> GroupIx(GS[x])]]]]
MembersTable == [i \in 1..Len(GroupSeq) |-> SetToSeq(GroupSeq[i])]

DataOut == [s \in Series |-> [t \in Slots |-> IF t \in DOMAIN data[s] THEN <<1, data[s][t]>> ELSE <<0, 0>>]]

AggTable ==
    [i \in 1..Len(GroupSeq) |->
        LET G == GroupSeq[i] IN
        [ops |-> IF "agg" \notin Tables THEN <<>> ELSE
                 LET PT == [t \in Slots |-> Pts(G, {t})] IN
                 [oi \in 1..Len(AggOpSeq) |-> [op |-> AggOpSeq[oi], v |-> [t \in Slots |-> V(Def(AggOpSeq[oi], PT[t]))]]],
         \* ranking key of every series within this group (<<0, 0>> = the series has no point): sort / sort_desc
         wt |-> [s \in Series |-> IF s \in NonEmpty(G) THEN <<1, Weight(G, s)>> ELSE <<0, 0>>],
         top |-> [k \in 1..2 |-> [desc |-> SetToSeq({SetToSeq(T) : T \in TopAdmissible(G, k, TRUE)}),
                                  asc  |-> SetToSeq({SetToSeq(T) : T \in TopAdmissible(G, k, FALSE)})]]]]

OTTable ==
    LET PW == [w \in 1..WMax |-> [s \in Series |-> [t \in 1..(NT + w - 1) |-> Pts({s}, Window(t, w))]]] IN
    [oi \in 1..Len(OTOpSeq) |->
        [op |-> OTOpSeq[oi],
         w |-> [w \in 1..WMax |-> [s \in Series |-> [t \in 1..(NT + w - 1) |->
                  V(IF OTOpSeq[oi] = "present" /\ PW[w][s][t] = {} THEN Absent ELSE Def(OTOpSeq[oi], PW[w][s][t]))]]]]]

Agg5Seq == SetToSeq(Agg5)
OT7Seq  == SetToSeq(OT7)
OT6Seq  == SetToSeq(OT7 \ {"stddev"})
OT5Seq  == SetToSeq(OT5)
RedTable ==
    [\* rule #1: the storage value per series and bucket
     r1 |-> [fi \in 1..Len(OT7Seq) |->
                [f |-> OT7Seq[fi], what |-> Rule1What(OT7Seq[fi]),
                 v |-> [s \in Series |-> [b \in 1..NB |-> V(Storage(Rule1What(OT7Seq[fi]), Pts({s}, Bucket(b)), R, R))]]]],
     \* rules #2, #3: per distinct group, the pooled storage value the reduced evaluation must return
     \* and whether it equals the two-level definition on this data (side condition)
     r2 |-> [i \in 1..Len(GroupSeq) |-> [ai \in 1..Len(Agg5Seq) |->
                LET G == GroupSeq[i]  op == Agg5Seq[ai]  PB == [b \in 1..NB |-> Pts(G, Bucket(b))] IN
                [op |-> op, what2 |-> Rule2What(op, op), what3 |-> Rule3What(op, op),
                 s2 |-> [b \in 1..NB |-> V(Storage(Rule2What(op, op), PB[b], R, R))],
                 s3 |-> [b \in 1..NB |-> V(Storage(Rule3What(op, op), PB[b], R, R))],
                 x2 |-> [b \in 1..NB |-> Pre2(op, op, G, PB[b])],
                 x3 |-> [b \in 1..NB |-> Pre3(op, op, PB[b], Bucket(b))]]]],
     \* two-level definitions on the raw points for every pair (also the irreducible ones), per distinct group:
     \* d2[agg][f] = agg over series of f over the bucket, d3[f][agg] = f over the bucket of agg over series
     \* full2 / full3: every series has a point in the bucket / every slot of the bucket has a point
     \* (count_over_time and count give 0, not "missing", on nothing, so the composition is only fixed when full)
     d2 |-> [i \in 1..Len(GroupSeq) |-> LET PB == [b \in 1..NB |-> Pts(GroupSeq[i], Bucket(b))] IN
                [agg \in 1..Len(Agg5Seq) |-> [f \in 1..Len(OT6Seq) |-> [b \in 1..NB |->
                    V(TwoLevel2(Agg5Seq[agg], OT6Seq[f], GroupSeq[i], PB[b]))]]]],
     d3 |-> [i \in 1..Len(GroupSeq) |-> LET PB == [b \in 1..NB |-> Pts(GroupSeq[i], Bucket(b))] IN
                [f \in 1..Len(OT5Seq) |-> [agg \in 1..Len(Agg5Seq) |-> [b \in 1..NB |->
                    V(TwoLevel3(OT5Seq[f], Agg5Seq[agg], PB[b], Bucket(b)))]]]],
     full2 |-> [i \in 1..Len(GroupSeq) |-> [b \in 1..NB |-> \A s \in GroupSeq[i] : Pts({s}, Bucket(b)) # {}]],
     full3 |-> [i \in 1..Len(GroupSeq) |-> [b \in 1..NB |-> \A t \in Bucket(b) : Pts(GroupSeq[i], {t}) # {}]],
     agg5 |-> Agg5Seq, ot6 |-> OT6Seq, ot5 |-> OT5Seq]

RECURSIVE HashSeq(_)
HashSeq(sq) == IF sq = <<>> THEN 0 ELSE (sq[1] + 7 * HashSeq(Tail(sq))) % 1009
Hash == HashSeq([s \in Series |-> HashSeq([t \in Slots |-> IF t \in DOMAIN data[s] THEN data[s][t] + 3 ELSE 1])])

Case == [a |-> "Case", ns |-> NS, nt |-> NT, r |-> R, wmax |-> WMax,
         tags |-> [s \in Series |-> <<TagA[s], TagB[s]>>],
         data |-> DataOut,
         groupings |-> GroupingTable, members |-> MembersTable,
         agg |-> IF "agg" \in Tables \/ "top" \in Tables THEN AggTable ELSE <<>>,
         ot  |-> IF "ot" \in Tables THEN OTTable ELSE <<>>,
         red |-> IF "red" \in Tables THEN <<RedTable>> ELSE <<>>]

Export == (Hash % SelMod = Sel) => PrintT(<<"BEH", ToJson(<<Case>>)>>)

----------------------------------------------------------------------------
(* The state is the stored data; to let TLC spread the data sets over its   *)
(* workers the first series is chosen in Init and the others by Fill.       *)
Blank == IF AnchorVals = {} THEN [i \in {} |-> 0] ELSE [i \in {NT} |-> CHOOSE v \in AnchorVals : TRUE]
Init == data \in {d \in [Series -> Partial] : \A s \in Series : s > 1 => d[s] = Blank}
Fill == /\ \A s \in Series : s > 1 => data[s] = Blank
        /\ data' \in {d \in [Series -> Partial] : d[1] = data[1]}
Next == Fill
=============================================================================
