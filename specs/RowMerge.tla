------------------------------ MODULE RowMerge ------------------------------
(* C04 - aggregation results do not depend on merge order or grouping (value aggregates and
   host attributions; the unique sketch is Unique.tla).

   A pool of partial aggregates.  Leaf(e) adds the multi-value of one event (built by the
   transcribed MultiValue.ApplyValues etc.); Merge(i, j) merges pool[j] into pool[i] with the transcribed
   MultiValue.Merge (= ItemValue.Merge = ItemCounter.Merge + value part) and removes it.  Every
   order and every binary tree of merges is a behaviour.  Each pool element carries the list of
   its leaves; the invariants compare the element with aggregates computed directly from that
   list (sums, minima, maxima, unions - independent of any order), and its reported hosts with
   the hosts that really contributed.  `ts` is the same element as an API tsValues, merged by
   the transcribed tsValues.merge (only for elements all of whose leaves carry values).

   hist is exported to the conformance drivers (harness/internal/data_model/verif_c04_merge_test.go,
   harness/internal/api/verif_c04_tsvalues_test.go).                                        *)
EXTENDS RowAlgebra, Json

CONSTANTS Shapes,      \* event shapes (see RowAlgebra); `top` is ignored here
          Percs,       \* subset of BOOLEAN
          MaxLeaves    \* size of the multiset of contributions

VARIABLES pool,   \* sequence of [mv, ts, leaves]; leaves = sequence of [id, mv] (the leaf multi-values)
          perc,
          merging,  \* FALSE while contributions are added, TRUE once merging started
          hist

vars == <<pool, perc, merging, hist>>
View == <<pool, perc, merging>>

ShapeOf(id) == CHOOSE e \in Shapes : e.id = id
LeafMV(id) == ApplyEvent(MV0, ShapeOf(id), perc, FALSE)
NoTs == <<>>
LeafTs(id) == LET m == LeafMV(id) IN IF m.set /\ m.minH # NoHost THEN TsOf(m) ELSE NoTs

Init == /\ pool = <<>>
        /\ perc \in Percs
        /\ merging = FALSE
        /\ hist = << [a |-> "Init", perc |-> perc] >>

(* contributions in non-decreasing id order: the multiset matters, Merge explores the orders *)
LeafCore(e) ==
    /\ ~merging
    /\ Len(pool) < MaxLeaves
    /\ EffCount(e) > 0
    /\ pool # <<>> => e.id >= pool[Len(pool)].leaves[1].id
    /\ pool' = Append(pool, [mv |-> LeafMV(e.id), ts |-> LeafTs(e.id), leaves |-> << [id |-> e.id, mv |-> LeafMV(e.id)] >>])
    /\ UNCHANGED <<perc, merging>>
Leaf(e) == LeafCore(e) /\ hist' = Append(hist, [a |-> "Leaf", s |-> e.id])

Remove(s, j) == [k \in 1..(Len(s) - 1) |-> IF k < j THEN s[k] ELSE s[k + 1]]

Merged(i, j, pick) ==
    [mv |-> MVMerge(pool[i].mv, pool[j].mv, pick),
     ts |-> IF pool[i].ts # NoTs /\ pool[j].ts # NoTs THEN TsMerge(pool[i].ts, pool[j].ts) ELSE NoTs,
     leaves |-> pool[i].leaves \o pool[j].leaves]

MergeCore(i, j, pick) ==
    /\ i \in DOMAIN pool /\ j \in DOMAIN pool /\ i # j
    /\ pool' = Remove([pool EXCEPT ![i] = Merged(i, j, pick)], j)
    /\ merging' = TRUE
    /\ UNCHANGED perc
MergeAct(i, j, pick) ==
    /\ MergeCore(i, j, pick)
    /\ LET k == IF j < i THEN i - 1 ELSE i      \* where the merged element now is
       IN hist' = Append(hist, [a |-> "Merge", i |-> i, j |-> j,
                                post |-> ProjA(pool'[k].mv), ts |-> pool'[k].ts])

Next == \/ \E e \in Shapes : Leaf(e)
        \/ \E i, j \in DOMAIN pool :
              \E pick \in (IF i # j /\ CounterDice(pool[i].mv, pool[j].mv.cnt, pool[j].mv.cntH) THEN BOOLEAN ELSE {FALSE}) :
                 MergeAct(i, j, pick)

Spec == Init /\ [][Next]_vars

-------------------------------------------------------------------------------
(* The aggregates of a list of leaves, by definition (no merge involved) *)
SetLeaves(ls) == {k \in DOMAIN ls : ls[k].mv.set}
CanonCnt(ls) == SeqSum([k \in DOMAIN ls |-> ls[k].mv.cnt])
CanonSum(ls) == SeqSum([k \in DOMAIN ls |-> ls[k].mv.sum])
CanonSq(ls)  == SeqSum([k \in DOMAIN ls |-> ls[k].mv.sq])
CanonMin(ls) == SetMin({ls[k].mv.min : k \in SetLeaves(ls)})
CanonMax(ls) == SetMax({ls[k].mv.max : k \in SetLeaves(ls)})
CanonUniq(ls) == UNION {ls[k].mv.uniq : k \in DOMAIN ls}
MinHosts(ls) == LET m == CanonMin(ls) IN {ls[k].mv.minH : k \in {x \in SetLeaves(ls) : ls[x].mv.min = m}}
MaxHosts(ls) == LET m == CanonMax(ls) IN {ls[k].mv.maxH : k \in {x \in SetLeaves(ls) : ls[x].mv.max = m}}
CntHosts(ls) == {ls[k].mv.cntH : k \in {x \in DOMAIN ls : ls[x].mv.cnt > 0}}

(* C04: count, min, max, sum, sum of squares and the unique set are those of the multiset *)
MergeCanonical ==
    \A p \in DOMAIN pool :
       LET m == pool[p].mv  ls == pool[p].leaves IN
         /\ m.cnt = CanonCnt(ls)
         /\ m.set = (SetLeaves(ls) # {})
         /\ m.sum = CanonSum(ls) /\ m.sq = CanonSq(ls)
         /\ m.set => (m.min = CanonMin(ls) /\ m.max = CanonMax(ls))
         /\ m.uniq = CanonUniq(ls)

(* C04: the min (max) host contributed the min (max); the max-count host contributed count *)
MergeHosts ==
    \A p \in DOMAIN pool :
       LET m == pool[p].mv  ls == pool[p].leaves IN
         /\ m.cnt > 0 => m.cntH \in CntHosts(ls)
         /\ m.set => (m.minH \in MinHosts(ls) /\ m.maxH \in MaxHosts(ls))
         (* and the ghost sets of RowAlgebra are exactly those sets *)
         /\ m.aCnt = CntHosts(ls)
         /\ m.set => (m.aMin = MinHosts(ls) /\ m.aMax = MaxHosts(ls))

(* the API's tsValues.merge agrees *)
TsCanonical ==
    \A p \in DOMAIN pool :
       LET t == pool[p].ts  ls == pool[p].leaves IN
         t # NoTs =>
           /\ t.cnt = CanonCnt(ls) /\ t.sum = CanonSum(ls) /\ t.sq = CanonSq(ls)
           /\ t.min = CanonMin(ls) /\ t.max = CanonMax(ls)
           /\ t.minV = t.min /\ t.maxV = t.max
           /\ t.minH \in MinHosts(ls) /\ t.maxH \in MaxHosts(ls)

Export == PrintT(<<"BEH", ToJson(hist')>>)
===============================================================================
