SPECIFICATION Spec
CONSTANTS
  BufLen = 10
  WaitPct = 20
  MaxPkts = 2
  MaxErrs = 0
  MaxSpur = 0
  PktLens <- Len1
  TimeoutSignals = FALSE
  SkipOnErr = TRUE
  ReportRetry = TRUE
  ReportClaim = "swap"
  DeadlineArmed = TRUE
  AllowClose = FALSE
  AllowRecon = FALSE
  RecordHist = FALSE
  MaxHist = 0
VIEW View
INVARIANTS NoStuck
CHECK_DEADLOCK FALSE
