INIT Init
NEXT Next
CONSTANTS
  Values = {1, 2, 3}
  Counts = {1, 8}
  Xs = {0}
  Kinds = {"C"}
  Caps = {1, 2}
  DefaultCap = 2
  FinCaps <- MCFinCapsSmall
  MaxOps = 3
  WordBits = 5
  Bug = "none"
  MaxLog2 = 8
VIEW View
INVARIANTS Conservation NeverStuck
CHECK_DEADLOCK FALSE
