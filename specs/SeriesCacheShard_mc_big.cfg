SPECIFICATION Spec
CONSTANTS
  NB = 6
  N0 = 4
  MaxInv = 2
  MaxTrimWalks = 2
  MaxEvict = 2
  MaxReset = 1
  UnlinkFirst = FALSE
INVARIANTS ListOK CursorsOK InvReachesAll InvOwesAhead
CHECK_DEADLOCK FALSE
