----------------------------- MODULE StringTopMC -----------------------------
(* Bounded instances of StringTop (a cfg file cannot hold negative numbers). *)
EXTENDS StringTop
MCFinCaps == {-1, 0, 1, 2, 3}
MCFinCapsSmall == {-1, 1, 2}
MCCaps0 == {0, 1, 2, 3}        \* 0: the default capacity is used
===============================================================================
