---------------------------- MODULE MetaJournalMC ----------------------------
(* Bounded instances of MetaJournal.  Names are chosen so that the group prefixes nest:
   groups "a" < "ab"; metric "abx" matches both, "ay" only "a", "b" none. *)
EXTENDS MetaJournal
MCChars == [abx |-> <<97, 98, 120>>, ay |-> <<97, 121>>, b |-> <<98>>, a |-> <<97>>, ab |-> <<97, 98>>,
            na |-> <<110, 97>>, nb |-> <<110, 98>>, da |-> <<100, 97>>]
MCUp == [n |-> "src", c |-> "src", an |-> "n", ac |-> "c", ac2 |-> "c"]
MCIsCompact == [n |-> FALSE, c |-> TRUE, an |-> FALSE, ac |-> FALSE, ac2 |-> FALSE]
\* name index and group assignment: one plain journal fed by the source
IdsA      == [M |-> {1, 2}, G |-> {1, 2}, N |-> {}, D |-> {}]
NamesA    == [M |-> {"abx", "ay"}, G |-> {"a", "ab"}, N |-> {}, D |-> {}]
\* three metrics competing for three names, one group
IdsM3     == [M |-> {1, 2, 3}, G |-> {1}, N |-> {}, D |-> {}]
NamesM3   == [M |-> {"abx", "ay", "b"}, G |-> {"a"}, N |-> {}, D |-> {}]
\* smallest universe in which a group change rebuilds the name index while two metrics carry one name
IdsR      == [M |-> {1, 2}, G |-> {1}, N |-> {}, D |-> {}]
NamesR    == [M |-> {"abx", "ay"}, G |-> {"a"}, N |-> {}, D |-> {}]
\* namespaces and groups renamed and their names reused
IdsN      == [M |-> {1}, G |-> {1, 2}, N |-> {1, 2}, D |-> {}]
NamesN    == [M |-> {"abx"}, G |-> {"a", "ab"}, N |-> {"na", "nb"}, D |-> {}]
\* the chain: compaction, dashboards, restarts with truncated files
IdsC      == [M |-> {1, 2}, G |-> {}, N |-> {}, D |-> {1}]
NamesC    == [M |-> {"abx", "ay"}, G |-> {}, N |-> {}, D |-> {"da"}]
\* long random behaviours (simulation)
IdsS      == [M |-> {1, 2, 3}, G |-> {1, 2}, N |-> {1, 2}, D |-> {1}]
NamesS    == [M |-> {"abx", "ay", "b"}, G |-> {"a", "ab"}, N |-> {"na", "nb"}, D |-> {"da"}]
===============================================================================
