INIT Init
NEXT Next
CONSTANTS
  Items <- MCItemsSmall
  BucketTimes <- MCBucketTimes
  Window = 100
  NShards = 4
  UniqLimit = 3
  MaxContrib = 2
  Bug = "none"
VIEW View
ACTION_CONSTRAINT Export
CHECK_DEADLOCK FALSE
