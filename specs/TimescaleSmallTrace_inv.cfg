SPECIFICATION SmSpec
CONSTANTS
  Resolutions <- MCResolutions
  Month = 999
  Limit = 8192
  Week = 15
  LevelRel <- MCLevelRel
  LevelSteps <- MCLevelSteps
  MaxPts = 7680
  Starts = {}
  Durs = {}
  StepsAsked = {}
  Nows = {}
  Widths = {}
  Utcs = {}
  MetricRes = {}
  Offs = {}
INVARIANTS SmErrorsAgree SmNoUnexpectedError SmNonEmpty SmLODSteps SmLODFiner SmLimit SmIncreasing SmLenSum
  SmPointShape SmDiffs SmAligned SmView SmCoverStart SmCoverEnd SmRanges
CHECK_DEADLOCK FALSE
