------------------------------ MODULE SqlLiteral ------------------------------
(***************************************************************************)
(* C26, part (a): a user string written into a storage query occupies      *)
(* exactly one string literal which decodes back to the string.            *)
(*                                                                         *)
(* Two independent halves:                                                 *)
(*   Esc  - transcription of internal/api/sql_query_series.go              *)
(*            escapeReplacer = strings.NewReplacer(`'`, `\'`, `\`, `\\`)   *)
(*          a per-byte transducer (all old strings are one byte long).     *)
(*   Lex / Dec - the string-literal rules of the storage dialect           *)
(*          (ClickHouse), written from the dialect, NOT from the code:     *)
(*          Lex finds the token boundaries (Lexer.cpp quotedString: inside *)
(*          '...' a backslash skips the next byte, '' continues, a single  *)
(*          ' ends), Dec decodes the token body (readQuotedStringWithSQL-  *)
(*          Style / parseComplexEscapeSequence: \x.. hex, \N nothing,      *)
(*          \n \t \0 .. control characters, \\ \' \" .. the character      *)
(*          itself, backslash before a control character is dropped, any   *)
(*          other \c stays as the two characters \c, '' is one quote).     *)
(*                                                                         *)
(* Characters are abstracted to classes, each named by one representative  *)
(* the dialect treats specially (the harness concretises every class with  *)
(* several real characters):                                               *)
(*   q  '        b  \        n  letter naming a control escape (n t r ..)  *)
(*   0  digit 0 (escape letter AND hex digit)     x  letter x (\x..)       *)
(*   N  letter N (\N)        d  " (and ` / =: backslash is dropped)        *)
(*   k  comma (the separator the code writes between literals)             *)
(*   w  any other printable ASCII (space, parentheses, %, letters)         *)
(*   Z  NUL byte   L  newline / tab / CR    C  other control character     *)
(*   M  multi-byte UTF-8 character (or stray byte >= 0x80)                 *)
(* Decoding can in addition yield "?" (a byte made by a hex escape that    *)
(* is not the NUL byte).                                                   *)
(***************************************************************************)
EXTENDS Integers, Sequences, FiniteSets, TLC, Json

CONSTANTS Alphabet,   \* classes the enumerated user strings are made of
          MaxLen,     \* longest user string
          Alphabet2,  \* classes of the second string (pair theorem)
          MaxLen2,    \* longest second string (0: single-string theorem only)
          EscMap      \* the escaper: class -> replacement; identity elsewhere

VARIABLES s, s2

vars == <<s, s2>>

AllClasses == {"q", "b", "n", "0", "x", "N", "d", "k", "w", "Z", "L", "C", "M"}

(* the repository's table *)
RepoEscMap == ("q" :> <<"b", "q">>) @@ ("b" :> <<"b", "b">>)
(* another table with the property (SQL-style quote doubling): a refactor to it must pass *)
AltEscMap == ("q" :> <<"q", "q">>) @@ ("b" :> <<"b", "b">>)
(* tables without the property, used to show that the theorem is live *)
BadNoBackslash == ("q" :> <<"b", "q">>)
BadDoubledQuoteOnly == ("q" :> <<"q", "q">>)
BadNoQuote == ("b" :> <<"b", "b">>)

---------------------------------------------------------------------------
(* Esc: the transducer *)
EscChar(c) == IF c \in DOMAIN EscMap THEN EscMap[c] ELSE <<c>>

RECURSIVE Esc(_)
Esc(str) == IF str = <<>> THEN <<>> ELSE EscChar(Head(str)) \o Esc(Tail(str))

---------------------------------------------------------------------------
(* Lex: token boundaries.  Tokens: [t |-> "lit", v |-> raw body] for a string
   literal, [t |-> "ch", v |-> <<c>>] for every character outside a literal. *)
LexInit == [mode |-> "out", toks |-> <<>>, cur |-> <<>>]

LexStep(st, c) ==
  CASE st.mode = "out" ->
         IF c = "q" THEN [st EXCEPT !.mode = "lit", !.cur = <<>>]
         ELSE [st EXCEPT !.toks = Append(@, [t |-> "ch", v |-> <<c>>])]
    [] st.mode = "lit" ->
         IF c = "b" THEN [st EXCEPT !.mode = "esc"]
         ELSE IF c = "q" THEN [st EXCEPT !.mode = "q1"]
         ELSE [st EXCEPT !.cur = Append(@, c)]
    [] st.mode = "esc" ->  \* the byte after a backslash never ends the literal
         [st EXCEPT !.mode = "lit", !.cur = @ \o <<"b", c>>]
    [] st.mode = "q1" ->   \* a quote inside the literal: doubled, or the end
         IF c = "q" THEN [st EXCEPT !.mode = "lit", !.cur = @ \o <<"q", "q">>]
         ELSE [mode |-> "out", cur |-> <<>>,
               toks |-> st.toks \o <<[t |-> "lit", v |-> st.cur], [t |-> "ch", v |-> <<c>>]>>]

RECURSIVE LexFrom(_, _, _)
LexFrom(st, inp, i) == IF i > Len(inp) THEN st ELSE LexFrom(LexStep(st, inp[i]), inp, i + 1)

Lex(inp) ==
  LET st == LexFrom(LexInit, inp, 1) IN
  CASE st.mode = "out" -> [ok |-> TRUE, toks |-> st.toks]
    [] st.mode = "q1" -> [ok |-> TRUE, toks |-> Append(st.toks, [t |-> "lit", v |-> st.cur])]
    [] OTHER -> [ok |-> FALSE, toks |-> st.toks]   \* literal not closed

(* Dec: the value of a literal body *)
HexVal(h1, h2) == IF h1 = "0" /\ h2 = "0" THEN "Z" ELSE "?"

RECURSIVE Dec(_)
Dec(r) ==
  IF r = <<>> THEN <<>>
  ELSE IF r[1] = "q" THEN <<"q">> \o Dec(SubSeq(r, 3, Len(r)))   \* '' (a body holds quotes only doubled)
  ELSE IF r[1] = "b" THEN
    LET c == r[2]
        rest == SubSeq(r, 3, Len(r)) IN
    CASE c = "x" -> IF Len(rest) >= 2 THEN <<HexVal(rest[1], rest[2])>> \o Dec(SubSeq(rest, 3, Len(rest)))
                    ELSE <<"?">>
      [] c = "N" -> Dec(rest)
      [] c = "n" -> <<"L">> \o Dec(rest)
      [] c = "0" -> <<"Z">> \o Dec(rest)
      [] c \in {"b", "q", "d"} -> <<c>> \o Dec(rest)
      [] c \in {"Z", "L", "C"} -> <<c>> \o Dec(rest)
      [] OTHER -> <<"b", c>> \o Dec(rest)
  ELSE <<r[1]>> \o Dec(Tail(r))

DecToks(toks) == [i \in DOMAIN toks |-> IF toks[i].t = "lit" THEN [t |-> "lit", v |-> Dec(toks[i].v)] ELSE toks[i]]

---------------------------------------------------------------------------
(* The property *)
Quoted(str) == <<"q">> \o Esc(str) \o <<"q">>

OneLiteral(str) ==
  LET r == Lex(Quoted(str)) IN
  /\ r.ok
  /\ Len(r.toks) = 1
  /\ r.toks[1].t = "lit"
  /\ Dec(r.toks[1].v) = str

RoundTrip == OneLiteral(s)

(* the context the code writes:  ...('s1','s2')...  *)
PairText == <<"w", "q">> \o Esc(s) \o <<"q", "k", "q">> \o Esc(s2) \o <<"q", "w">>
PairTheorem ==
  LET r == Lex(PairText) IN
  /\ r.ok
  /\ DecToks(r.toks) = <<[t |-> "ch", v |-> <<"w">>], [t |-> "lit", v |-> s], [t |-> "ch", v |-> <<"k">>],
                         [t |-> "lit", v |-> s2], [t |-> "ch", v |-> <<"w">>]>>

(* Esc never leaves a quote that could end the literal: every q of the output is
   preceded by an odd run of b, or is half of a doubled pair; stated through Lex. *)
NeverEscapes == Lex(<<"q">> \o Esc(s)).ok = FALSE   \* without the closing quote the literal stays open

---------------------------------------------------------------------------
Init == s = <<>> /\ s2 = <<>>

Grow1 == /\ Len(s) < MaxLen
         /\ s2 = <<>>
         /\ \E c \in Alphabet : s' = Append(s, c)
         /\ UNCHANGED s2

Grow2 == /\ Len(s2) < MaxLen2
         /\ \E c \in Alphabet2 : s2' = Append(s2, c)
         /\ UNCHANGED s

Next == Grow1 \/ Grow2

Spec == Init /\ [][Next]_vars

(* Export for the binding: the class string, the transcription's output, and what the
   dialect's lexer makes of the UNESCAPED string between quotes (conformance of the
   harness lexer with Lex/Dec on arbitrary input). *)
LexView(inp) == LET r == Lex(inp) IN [ok |-> r.ok, toks |-> DecToks(r.toks)]
Export == PrintT(<<"BEH", ToJson(<<[a |-> "Str", s |-> s', esc |-> Esc(s'),
                                    raw |-> LexView(<<"q">> \o s' \o <<"q">>)]>>)>>)
=============================================================================
