----------------------------- MODULE MetaDBScript -----------------------------
(* Seeded random long histories for MetaDB.  The check generates operation *inputs*
   (scripts.ndjson, one script per line: [ops |-> <<op, ...>>]); this module makes the
   specification follow every script, resolving the symbolic arguments against the current
   state (which entity, its current or a stale version, its stored type), so that TLC
   computes the expected replies and projected states (exported like every other
   behaviour) and checks all invariants and action properties along the way.

   Symbolic arguments of an entity request:
     idk   0: let the database choose (create), < 0: that builtin id, k > 0: the k-th entity
           created so far (modulo their number)
     oldk  0: the entity's current version, k > 0: k versions behind, < 0: version 0
     typk  >= 0: that event type, < 0: the stored type
     name  "": keep the current name
   and of a mapping deletion:  DelTop n  = the n newest ids, n = 0: every id above the
   global budget.                                                                      *)
EXTENDS MetaDB
VARIABLE script      \* the operations still to run
Scripts == ndJsonDeserialize("scripts.ndjson")    \* read once, in SInit

svars == <<vars, script>>
(* format.SplitNamespace for the names the script generator uses (checks/metadb_common.py ENT_NAMES) *)
ScriptNames == {"", "a", "b", "c", "n", "o", "n:a", "n:b", "n:c", "o:a"}
ScriptNsOf == [x \in ScriptNames |-> IF x \in {"n:a", "n:b", "n:c"} THEN "n" ELSE IF x = "o:a" THEN "o" ELSE ""]
ScriptMetrics == <<"m1", "m2", "m3">>

EntId(k) == IF k <= 0 THEN k ELSE IF db.eseq = 0 THEN 1 ELSE ((k - 1) % db.eseq) + 1
CurVer(i) == IF i \in DOMAIN db.ent THEN db.ent[i].ver ELSE 0
OldOf(i, k) == IF k < 0 \/ CurVer(i) - k < 0 THEN 0 ELSE CurVer(i) - k
TypOf(i, k) == IF k >= 0 THEN k ELSE IF i \in DOMAIN db.ent THEN db.ent[i].typ ELSE 0
NameOf(i, n) == IF n = "" /\ i \in DOMAIN db.ent THEN db.ent[i].name ELSE n
SReq(o) == LET i == EntId(o.idk)
           IN [name |-> NameOf(i, o.name), id |-> i, old |-> OldOf(i, o.oldk), data |-> o.data, create |-> o.create,
               del |-> o.del, typ |-> TypOf(i, o.typk), meta |-> o.meta]
ToSet(s) == {s[i] : i \in DOMAIN s}
(* "delete the newest mappings": the n largest ids present; n = 0 means every id above the global budget *)
PresentIds == {p.id : p \in db.maps}
TopIds(n) == IF n = 0 THEN {i \in PresentIds : i > GlobalBudget}
             ELSE {i \in PresentIds : Cardinality({j \in PresentIds : j > i}) < n}

SInit == /\ Init
         /\ LET S == Scripts IN script \in {S[s].ops : s \in DOMAIN S}
SNext == /\ script # <<>>
         /\ LET o == Head(script) IN
            CASE o.a = "Save"  -> Save(SReq(o))
              [] o.a = "Race"  -> Race(SReq(o.q1), SReq(o.q2))
              [] o.a = "Goc"   -> GetOrCreate(o.metric, o.key)
              [] o.a = "Put"   -> PutMapping(o.ks, o.vs)
              [] o.a = "Del"   -> DeleteMappings(ToSet(o.ids))
              [] o.a = "DelTop" -> DeleteMappings(TopIds(o.n))
              [] o.a = "Reset" -> ResetFlood(o.metric, o.limit)
              [] o.a = "Boot"  -> PutBootstrap(o.ms)
              [] o.a = "Tick"  -> Advance(o.d)
              [] o.a = "Snap"  -> TakeSnapshot
         /\ nops' = nops + 1
         /\ script' = Tail(script)
SSpec == SInit /\ [][SNext]_svars
(* only the complete behaviour of every script is printed *)
SExport == script' = <<>> => PrintT(<<"BEH", ToJson(hist')>>)
===============================================================================
