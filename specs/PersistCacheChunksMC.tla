------------------------- MODULE PersistCacheChunksMC -------------------------
(* Bounded instances of PersistCacheChunks.  Half/Max keep the code's ratio
   (flush at ChunkSize/2, hard limit ChunkSize); item sizes include the largest legal item
   (Max, alone in a chunk) and one that overflows a non-empty chunk. *)
EXTENDS PersistCacheChunks
(* simulation: export the walk once, when it is 30 operations long (run with -depth 31) *)
ExportAt30 == Len(hist) # 30 \/ PrintT(<<"BEH", ToJson(hist)>>)
===============================================================================
