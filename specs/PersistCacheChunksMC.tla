------------------------- MODULE PersistCacheChunksMC -------------------------
(* Bounded instances of PersistCacheChunks.  Half/Max keep the code's ratio
   (flush at ChunkSize/2, hard limit ChunkSize); item sizes include the largest legal item
   (Max, alone in a chunk) and one that overflows a non-empty chunk. *)
EXTENDS PersistCacheChunks
(* simulation: export the walk once, when it is 30 operations long (run with -depth 31) *)
ExportAt30 == Len(hist) # 30 \/ PrintT(<<"BEH", ToJson(hist)>>)
(* directed exploration: every behaviour starts by saving two 2-cell chunks and closing, so that the
   bounded search reaches rewrites, crashes inside a rewrite, appends and reloads of that file *)
DirPrefix == <<"Open", "Start", "Item", "Item", "Finish", "Close">>
Directed == LET n == Len(hist') IN
            n > Len(DirPrefix) \/ (hist'[n].a = DirPrefix[n] /\ (hist'[n].a = "Item" => hist'[n].sz = 2))
===============================================================================
