INIT Init
NEXT Next
CONSTANTS
  Ids <- IdsR
  Names <- NamesR
  Chars <- MCChars
  Replicas = {"n"}
  Up <- MCUp
  IsCompact <- MCIsCompact
  MaxBatch = 2
  ChunkSizes = {1}
  MaxVer = 5
  MaxRestarts = 0
  MaxOps = 8
  OrigNames = TRUE
  OrigSkip = FALSE
VIEW View
CHECK_DEADLOCK FALSE
ACTION_CONSTRAINT ExportBroken
