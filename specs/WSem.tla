-------------------------------- MODULE WSem --------------------------------
(* Weighted semaphore with runtime size changes (internal/vkgo/semaphore/semaphore.go), property C29.

   Same two layers as RRQueue:

   * ABSTRACT layer: record `s` (size, cur, ghost arrival order of the waiting acquirers,
     per-acquirer status and weight, forced weight, flags) and pure transformers
     AcqF / TryF / CancelF / RetF / RelIntentF / ReleaseF / SetSizeF / ForceF that take the
     semaphore's decisions as arguments and record breaches in `s.bad`.  The property is stated
     on this layer.

   * MECHANISM as coded (the Code.. operators): Acquire's fast path / doomed path / PushBack, notifyWaiters,
     the cancellation path (ready already closed, or remove + conditional notify), TryAcquire,
     Release, SetSize, ForceAcquire.  One action per critical section under s.mu:
        Acquire(a)      section 1 of Weighted.Acquire
        CancelWake(a)   the select takes ctx.Done()
        CancelCS(a)     section 2 of Weighted.Acquire and return
        Wake(a)         the select takes <-ready, Acquire returns nil
        Try(a)          Weighted.TryAcquire
        Release(a)      Weighted.Release(weight of a)
        SetSize(n)      Weighted.SetSize
        Force(n) / Unforce(n)   Weighted.ForceAcquire(n) and the Release(n) that gives it back

   Transcribed oddities: a request larger than the *current* size is "doomed" (never queued,
   waits for its context only), even if the size grows later; a queued request is never
   re-examined when the size shrinks below its weight (it then blocks the queue until the size
   grows or it is cancelled); the cancel path notifies only if the cancelled waiter was at the
   front and size > cur.  Weights are >= 1 (Acquire(0) behind a cancelled front waiter is not
   re-notified by the code, as in golang.org/x/sync; not used by the repository).          *)
EXTENDS Integers, Sequences, FiniteSets, TLC, Json

CONSTANTS Acqs,       \* acquirer ids (each issues one Acquire or TryAcquire)
          W,          \* acquirer -> weight
          InitSizes,  \* initial sizes
          Sizes,      \* values SetSize may set
          MaxSet,     \* bound on the number of SetSize calls
          Forces,     \* weights ForceAcquire may take
          MaxForce,   \* bound on the number of ForceAcquire calls
          MaxOps,     \* bound on behaviour length (0 = unbounded)
          Bug,        \* "none" | "lifo" | "nonotify" | "skip" | "cancelkeep"  (defective variants, vacuity checks)
          KeepHist

VARIABLES s,        \* abstract state
          waiters,  \* mechanism: s.waiters (list.List of waiter), front first
          nset, nforce,
          hist

vars == <<s, waiters, nset, nforce, hist>>
View == <<s, waiters, nset, nforce>>

Del(f, ks)   == [x \in DOMAIN f \ ks |-> f[x]]
Upd(f, k, v) == [x \in DOMAIN f \cup {k} |-> IF x = k THEN v ELSE f[x]]
RemoveA(seq, a) == SelectSeq(seq, LAMBDA x : x # a)
ToSet(seq)   == {seq[i] : i \in 1..Len(seq)}

-------------------------------------------------------------------------------
(* ABSTRACT LAYER *)

S0(n) == [size   |-> n,
          cur    |-> 0,
          wl     |-> <<>>,   \* ghost: waiting acquirers in arrival order
          st     |-> <<>>,   \* acquirer -> "wait" | "cwait" | "ready" | "cready" | "held" | "doomed" |
                             \*             "cancelled" | "failed" | "released"
          w      |-> <<>>,   \* acquirer -> weight it asked for
          forced |-> 0,      \* weight taken by ForceAcquire and not yet given back
          nrel   |-> 0,      \* weight whose Release was announced but not yet executed
          bad    |-> {}]

St(x, a)       == IF a \in DOMAIN x.st THEN x.st[a] ELSE "new"
SetSt(x, a, v) == [x EXCEPT !.st = Upd(x.st, a, v)]
Flag(x, c, f)  == IF c THEN [x EXCEPT !.bad = @ \cup {f}] ELSE x
IsWaiting(x, a) == St(x, a) \in {"wait", "cwait"}
IsReady(x, a)   == St(x, a) \in {"ready", "cready"}
Holders(x)      == {a \in DOMAIN x.st : x.st[a] \in {"ready", "cready", "held"}}

RECURSIVE SumW(_, _)
SumW(x, A) == IF A = {} THEN 0 ELSE LET a == CHOOSE b \in A : TRUE IN x.w[a] + SumW(x, A \ {a})

(* weight n is admitted *)
AdmitGhost(x, n) == [Flag(x, x.size - x.cur < n, "over") EXCEPT !.cur = @ + n]

(* admission without queueing (fast path, TryAcquire): must not overtake a waiter *)
AdmitDirect(x, n) == AdmitGhost(Flag(x, x.wl # <<>>, "fifo"), n)

(* the waiting acquirer a is admitted by notifyWaiters: must be the longest waiting one *)
AdmitWaiter(x, a) ==
    LET x1 == Flag(x, x.wl = <<>> \/ Head(x.wl) # a, "fifo")
        x2 == AdmitGhost(x1, x.w[a])
    IN SetSt([x2 EXCEPT !.wl = RemoveA(@, a)], a, IF St(x, a) = "cwait" THEN "cready" ELSE "ready")

RECURSIVE AdmitAll(_, _)
AdmitAll(x, gs) == IF gs = <<>> THEN x ELSE AdmitAll(AdmitWaiter(x, Head(gs)), Tail(gs))
RECURSIVE CanAdmitAll(_, _)
CanAdmitAll(x, gs) == IF gs = <<>> THEN TRUE   \* (IF, not \/: TLC explores both sides of a disjunction in an action)
                      ELSE IsWaiting(x, Head(gs)) /\ CanAdmitAll(AdmitWaiter(x, Head(gs)), Tail(gs))

(* Acquire, critical section 1.  kind = "fast" | "doomed" | "wait" *)
AcqOK(x, a, n, kind, gs) ==
    /\ St(x, a) = "new" /\ n >= 1
    /\ kind \in {"fast", "doomed", "wait"}
    /\ kind # "wait" => gs = <<>>
    /\ kind = "wait" => CanAdmitAll(SetSt([x EXCEPT !.wl = Append(@, a), !.w = Upd(@, a, n)], a, "wait"), gs)
AcqF(x, a, n, kind, gs) ==
    LET x0 == [x EXCEPT !.w = Upd(@, a, n)] IN
    CASE kind = "fast"   -> SetSt(AdmitDirect(x0, n), a, "ready")
      [] kind = "doomed" -> SetSt(Flag(x0, n <= x0.size, "lost"), a, "doomed")   \* a request that fits must be served
      [] kind = "wait"   -> AdmitAll(SetSt([x0 EXCEPT !.wl = Append(@, a)], a, "wait"), gs)

TryOK(x, a, n) == St(x, a) = "new" /\ n >= 1
TryF(x, a, n, ok) ==
    LET x0 == [x EXCEPT !.w = Upd(@, a, n)] IN
    IF ok THEN SetSt(AdmitDirect(x0, n), a, "held") ELSE SetSt(x0, a, "failed")

CancelWakeOK(x, a) == St(x, a) \in {"wait", "ready"}
CancelWakeF(x, a)  == SetSt(x, a, IF St(x, a) = "wait" THEN "cwait" ELSE "cready")

(* Acquire, critical section 2: sawReady = the code found `ready` closed; gs = waiters it notified *)
CancelOK(x, a, gs) == St(x, a) \in {"wait", "cwait", "ready", "cready"} /\ (IsReady(x, a) => gs = <<>>)
                      /\ (IsWaiting(x, a) => CanAdmitAll(SetSt([x EXCEPT !.wl = RemoveA(@, a)], a, "cancelled"), gs))
CancelF(x, a, sawReady, gs) ==
    IF IsReady(x, a)
    THEN IF sawReady THEN SetSt(x, a, "ready")
         ELSE SetSt(Flag(x, TRUE, "outcome"), a, "cancelled")            \* weight leaked
    ELSE IF sawReady THEN SetSt(Flag([x EXCEPT !.wl = RemoveA(@, a)], TRUE, "outcome"), a, "ready")
         ELSE AdmitAll(SetSt([x EXCEPT !.wl = RemoveA(@, a)], a, "cancelled"), gs)

(* Acquire returns *)
RetOK(x, a) == St(x, a) \in {"ready", "cready", "cancelled", "doomed"}
RetF(x, a, isnil) ==
    IF isnil THEN SetSt(Flag(x, ~IsReady(x, a), "outcome"), a, "held")
    ELSE SetSt(Flag(x, St(x, a) \notin {"cancelled", "doomed"}, "outcome"), a, "cancelled")

RelIntentOK(x, a) == St(x, a) = "held"
RelIntentF(x, a)  == [SetSt(x, a, "released") EXCEPT !.nrel = @ + x.w[a]]

ReleaseOK(x, n, gs) == x.nrel >= n /\ CanAdmitAll([x EXCEPT !.cur = @ - n], gs)
ReleaseF(x, n, gs)  == AdmitAll([x EXCEPT !.cur = @ - n, !.nrel = @ - n], gs)

SetSizeOK(x, n, gs) == CanAdmitAll([x EXCEPT !.size = n], gs)
SetSizeF(x, n, gs)  == AdmitAll([x EXCEPT !.size = n], gs)

ForceF(x, n)   == [x EXCEPT !.cur = @ + n, !.forced = @ + n]
UnforceIntentOK(x, n) == x.forced >= n
UnforceIntentF(x, n)  == [x EXCEPT !.forced = @ - n, !.nrel = @ + n]

-------------------------------------------------------------------------------
(* PROPERTY *)

(* no admission takes the admitted weight above the size (ForceAcquire is exempt by contract) *)
AdmitWithinSize == "over" \notin s.bad
(* waiters are served in arrival order and nobody is admitted past a waiter *)
FIFO            == "fifo" \notin s.bad
(* cur is exactly the weight held by somebody: a cancelled waiter leaves nothing behind *)
NoLeak          == s.cur = SumW(s, Holders(s)) + s.forced + s.nrel
(* freed weight (Release, SetSize, cancellation of the front waiter) reaches the queue:
   after every critical section the longest waiting request does not fit *)
NoLostWakeup    == /\ s.wl # <<>> => s.size - s.cur < s.w[Head(s.wl)]
                   /\ "lost" \notin s.bad
OutcomeOK       == "outcome" \notin s.bad
TypeOK == /\ s.size \in Nat /\ s.cur \in Nat /\ s.forced \in Nat /\ s.nrel \in Nat
          /\ ToSet(s.wl) = {a \in DOMAIN s.st : IsWaiting(s, a)}
          /\ Len(s.wl) = Cardinality(ToSet(s.wl))

-------------------------------------------------------------------------------
(* MECHANISM as coded.  c = fields of Weighted plus the outputs of the critical section. *)
C == [size |-> s.size, cur |-> s.cur, ws |-> waiters, gs |-> <<>>, kind |-> "", ok |-> FALSE]

Wt(a) == IF a \in DOMAIN s.w THEN s.w[a] ELSE W[a]

(* notifyWaiters *)
RECURSIVE CodeNotify(_)
CodeNotify(c) ==
    IF c.ws = <<>> THEN c
    ELSE LET a == Head(c.ws) IN
         IF c.size - c.cur < Wt(a)
         THEN (IF Bug = "skip" /\ Len(c.ws) > 1 /\ c.size - c.cur >= Wt(c.ws[2])    \* defective: serve a smaller later request
               THEN CodeNotify([c EXCEPT !.cur = @ + Wt(c.ws[2]), !.ws = RemoveA(@, c.ws[2]), !.gs = Append(@, c.ws[2])])
               ELSE c)
         ELSE CodeNotify([c EXCEPT !.cur = @ + Wt(a), !.ws = Tail(@), !.gs = Append(@, a)])

CodeAcquire(c, a) ==
    LET n == W[a] IN
    IF c.size - c.cur >= n /\ c.ws = <<>> THEN [c EXCEPT !.cur = @ + n, !.kind = "fast"]
    ELSE IF n > c.size THEN [c EXCEPT !.kind = "doomed"]
    ELSE [c EXCEPT !.ws = IF Bug = "lifo" THEN <<a>> \o @ ELSE Append(@, a), !.kind = "wait"]

CodeTry(c, a) ==
    LET n == W[a] IN
    IF c.size - c.cur >= n /\ c.ws = <<>> THEN [c EXCEPT !.cur = @ + n, !.ok = TRUE] ELSE c

CodeCancel(c, a) ==
    LET isFront == Head(c.ws) = a
        c1 == [c EXCEPT !.ws = IF Bug = "cancelkeep" THEN @ ELSE RemoveA(@, a)]
    IN IF isFront /\ c1.size > c1.cur /\ Bug # "nonotify" THEN CodeNotify(c1) ELSE c1

CodeRelease(c, n) == CodeNotify([c EXCEPT !.cur = @ - n])
CodeSetSize(c, n) == CodeNotify([c EXCEPT !.size = n])

Agree(c, x) == Assert(c.size = x.size /\ c.cur = x.cur /\ (Bug = "none" => c.ws = x.wl),
                      <<"mechanism and abstract state diverge", c, x>>)
Mech(c) == Agree(c, s') /\ waiters' = c.ws

Post(x) == [size |-> x.size, cur |-> x.cur, wl |-> x.wl]
Log(e) == /\ IF MaxOps = 0 THEN TRUE ELSE Len(hist) <= MaxOps   \* bound on exported behaviours
          /\ hist' = IF KeepHist THEN Append(hist, e @@ [post |-> Post(s')]) ELSE hist

Acquire(a) ==
    /\ St(s, a) = "new"
    /\ LET c == CodeAcquire(C, a) IN
       /\ s' = (IF c.kind = "fast" THEN RetF(AcqF(s, a, W[a], "fast", <<>>), a, TRUE)
                ELSE AcqF(s, a, W[a], c.kind, <<>>))
       /\ Mech(c)
       /\ Log([a |-> "Acq", id |-> a, n |-> W[a], kind |-> c.kind])
    /\ UNCHANGED <<nset, nforce>>

Try(a) ==
    /\ St(s, a) = "new"
    /\ LET c == CodeTry(C, a) IN
       /\ s' = TryF(s, a, W[a], c.ok)
       /\ Mech(c)
       /\ Log([a |-> "Try", id |-> a, n |-> W[a], ok |-> c.ok])
    /\ UNCHANGED <<nset, nforce>>

CancelWake(a) ==
    /\ St(s, a) \in {"wait", "ready", "doomed"}
    /\ s' = (IF St(s, a) = "doomed" THEN RetF(s, a, FALSE) ELSE CancelWakeF(s, a))
    /\ Log([a |-> "CancelWake", id |-> a, was |-> St(s, a)])
    /\ UNCHANGED <<waiters, nset, nforce>>

CancelCS(a) ==
    /\ St(s, a) \in {"cwait", "cready"}
    /\ LET ready == St(s, a) = "cready"
           c     == IF ready THEN C ELSE CodeCancel(C, a)
       IN /\ s' = RetF(CancelF(s, a, ready, c.gs), a, ready)
          /\ Mech(c)
          /\ Log([a |-> "CancelCS", id |-> a, isnil |-> ready, gs |-> c.gs])
    /\ UNCHANGED <<nset, nforce>>

Wake(a) ==
    /\ St(s, a) = "ready"
    /\ s' = RetF(s, a, TRUE)
    /\ Log([a |-> "Wake", id |-> a])
    /\ UNCHANGED <<waiters, nset, nforce>>

Release(a) ==
    /\ St(s, a) = "held"
    /\ LET c == CodeRelease(C, s.w[a]) IN
       /\ s' = ReleaseF(RelIntentF(s, a), s.w[a], c.gs)
       /\ Mech(c)
       /\ Log([a |-> "Release", id |-> a, n |-> s.w[a], gs |-> c.gs])
    /\ UNCHANGED <<nset, nforce>>

SetSize(n) ==
    /\ nset < MaxSet /\ n # s.size
    /\ LET c == CodeSetSize(C, n) IN
       /\ s' = SetSizeF(s, n, c.gs)
       /\ Mech(c)
       /\ Log([a |-> "SetSize", n |-> n, gs |-> c.gs])
    /\ nset' = nset + 1 /\ UNCHANGED nforce

Force(n) ==
    /\ nforce < MaxForce
    /\ s' = ForceF(s, n)
    /\ Log([a |-> "Force", n |-> n])
    /\ nforce' = nforce + 1 /\ UNCHANGED <<waiters, nset>>

Unforce ==
    /\ s.forced > 0
    /\ LET n == s.forced  c == CodeRelease(C, n) IN
       /\ s' = ReleaseF(UnforceIntentF(s, n), n, c.gs)
       /\ Mech(c)
       /\ Log([a |-> "Unforce", n |-> n, gs |-> c.gs])
    /\ UNCHANGED <<nset, nforce>>

Init == /\ \E n \in InitSizes : s = S0(n) /\ hist = << [a |-> "Init", size |-> n] >>
        /\ waiters = <<>>
        /\ nset = 0 /\ nforce = 0

Next == \/ \E a \in Acqs : Acquire(a) \/ Try(a) \/ CancelWake(a) \/ CancelCS(a) \/ Wake(a) \/ Release(a)
        \/ \E n \in Sizes : SetSize(n)
        \/ \E n \in Forces : Force(n)
        \/ Unforce

Spec == Init /\ [][Next]_vars
Export == PrintT(<<"BEH", ToJson(hist')>>)

-------------------------------------------------------------------------------
(* LIVENESS (KeepHist = FALSE): holders return and release, forced weight is given back, the
   goroutine that saw ctx.Done() gets the mutex.  A waiter is eventually admitted or withdrawn
   provided every queued request fits the size from now on (a queued request larger than a
   shrunken size blocks the queue by design - head-of-line blocking, see the oddities above). *)
Fairness == /\ \A a \in Acqs : WF_vars(Wake(a)) /\ WF_vars(Release(a)) /\ WF_vars(CancelCS(a))
            /\ WF_vars(Unforce)
LiveSpec == Init /\ [][Next]_vars /\ Fairness
AllFit == \A b \in ToSet(s.wl) : s.size >= s.w[b]
EventuallyServed == \A a \in Acqs : (IsWaiting(s, a) /\ []AllFit) ~> ~IsWaiting(s, a)
===============================================================================
