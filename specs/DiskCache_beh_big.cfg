INIT Init
NEXT Next
CONSTANTS
  Shards <- MCShards2
  Secs = {7}
  Lens = {0, 3}
  HeaderSize = 20
  MagicLen = 4
  MagicCommon = 2
  RotateSize = 52428800
  HalfIsDeleted = TRUE
  TearKs <- ReprKs
  WrongSecs <- AnyWrong
  AllowCorrupt = TRUE
  MaxPuts = 3
  MaxRestarts = 2
  MaxOps = 5
VIEW View
ACTION_CONSTRAINT Export
CHECK_DEADLOCK FALSE
