INIT Init
NEXT Next
CONSTANTS
  MAXSIZE = 2
  MaxSkip = 4
  Hashes = {0, 1, 2, 4, 8}
  NSk = 3
  MaxIns = 4
  MaxMrg = 2
  FixMerge = FALSE
  FixMergeRead = TRUE
VIEW View
INVARIANTS Canonical SameEstimate Bounded
CHECK_DEADLOCK FALSE
