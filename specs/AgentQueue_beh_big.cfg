INIT Init
NEXT BehNext
CONSTANTS
  QLen = 128
  FutureSlots = 3
  Spread = 120
  NShards = 2
  Metrics <- BMetrics2
  TimingShard = 1
  T0 <- R0
  Lags0 = {2, 5, 6, 64, 125}
  Fulls0 = {FALSE, TRUE}
  Ticks <- BTicks2
  TsOffs <- BOffs2
  Kinds = {"metric", "api"}
  SpreadOf <- EdgeSpread
  Variant = "code"
  MaxOps = 5
  MaxEvents = 2
VIEW View
INVARIANTS ExactlyOnce AllFlushed NotEarly RingOK Rounded Placement DropsJustified OutIncreasing SendBound ChanCap
ACTION_CONSTRAINT ExportEnd
CHECK_DEADLOCK FALSE
