------------------------------- MODULE Routing -------------------------------
(* C10 - shard and replica routing is deterministic and consistent end to end.

   The routing of statshouse is a set of pure functions spread over five packages.  This
   module transcribes each of them, states the property on their *results*, and enumerates a
   finite grid of inputs that is exhaustive for the arithmetic involved (shard counts,
   configured by-metric counts, every strategy, fixed keys inside and outside the cluster,
   metric ids of both signs, hash values on every bucket edge, seconds over two periods of the
   replica rotation, every alive pattern, every send time around a recent window).

     code                                                    here
     ------------------------------------------------------  -----------------------------
     sharding.Shard (sharding.go)                            ShardingShard
     sharding.shardByMappedTags                              ByMappedTags
     data_model.Key.XXHash (skips the 4 timestamp bytes)     KeyHash
     Agent.shard (agent.go)                                  AgentShard
     MetricMetaValue.Sharded / .Shard (format.go)            MetaSharded / MetaShard
     aggregator.go MakeAggregator: ShardByMetricShards 0->N  AggEffective
     chutil.selectCH shard choice                            ApiCount / ApiShard
     Agent.getShardReplicaForSecond                          Primary / Spare / SelectReplica
     aggregator_handlers.go roundedToOurTime loop            RoundLoop (= Conveyor!RoundUp)
     aggregator_handlers.go window filing                    Conveyor!Filing (reused)
     aggregator.go goTicker "only own seconds"               TickHandoff
     aggregator.go checkShardConfiguration                   AcceptsSender

   One state variable pt holds one evaluated grid point (inputs and outputs).  Next picks any
   grid point once (depth 1), so TLC visits the whole grid; the property invariants read only
   pt.  RoutingTrace sets pt from what the real code returned for the same inputs, so the very
   same invariants judge the implementation.  hist carries the point for behaviour export. *)
EXTENDS Integers, Sequences, FiniteSets, TLC, Json

CONSTANTS MaxN,      \* shard counts 1..MaxN
          Ids,       \* metric ids (by-metric sharding)
          Hashes,    \* <<hi16, lo16>>: the top 32 bits of a key hash as two 16-bit halves
          KeyTimes,  \* sequence of key timestamps (the shard must not depend on them)
          Times,     \* seconds for replica selection / rounding
          Olds, Lens, HWs, Span   \* recent windows: oldest second, length, historic window; send times reach Span outside

VARIABLES pt, hist
vars == <<pt, hist>>

\* The filing rule lives in Conveyor (C01); it has no free variables of its own, so the
\* instantiation of Conveyor's state is immaterial.
Cv == INSTANCE Conveyor WITH Secs <- {}, Insts <- {}, RepOf <- <<>>, SW <- 0, FW <- 0, HW <- 0, MaxT <- 0,
        MaxFaults <- 0, NIns <- 0, now <- 0, ag <- 0, disk <- 0, rpc <- 0, sentTo <- 0, marked <- 0,
        acked <- 0, forgot <- 0, up <- 0, rows <- 0, polls <- 0, conv <- 0, batch <- 0, storedBy <- 0,
        replied <- 0, rejected <- 0, faults <- 0
RoundUp(t, r) == Cv!RoundUp(t, r)
Filing(r, s, h, oldest, newest, hw) == Cv!Filing(r, s, h, oldest, newest, hw)

--------------------------------------------------------------------------------
(* Sharding strategies: the strings of format.go *)
ByTagsHash == "tags_hash"
Fixed      == "fixed_shard"
ByMetricID == ""
Builtin    == "builtin"
Strategies == {ByTagsHash, Fixed, ByMetricID, Builtin, "bogus"}

U16 == 65536
\* uint32(x) % n for an int32 x (builtin metrics have negative ids): 2^32 = U16 * U16
U32Mod(x, n) == IF x >= 0 THEN x % n ELSE ((((U16 % n) * (U16 % n)) % n) + (x % n)) % n

\* shardByMappedTags: ((keyHash >> 32) * numShards) >> 32 in 32.32 fixed point; the high word is
\* h[1] * 2^16 + h[2] (TLC integers are 32 bit, hence the two halves)
ByMappedTags(h, n) == ((h[1] * n) + ((h[2] * n) \div U16)) \div U16

\* key = [metric, ts, hash]; XXHash is taken over the marshalled key without its first four
\* bytes, which hold the timestamp: the hash is a function of the other fields only
KeyHash(key) == key.hash

\* meta = [fk, strat, num, fk2, id]: ShardFixedKey (1-based, 0 unset), ShardStrategy, ShardNum
\* (0-based), ShardFixedKey2 (1-based, 0 unset), MetricID
ShardingShard(meta, key, cnt) ==
    IF meta.fk > 0 THEN [shard |-> meta.fk - 1, ok |-> TRUE]
    ELSE CASE meta.strat = Fixed      -> [shard |-> meta.num, ok |-> TRUE]
           [] meta.strat = ByMetricID -> [shard |-> U32Mod(key.metric, cnt), ok |-> TRUE]
           [] meta.strat = ByTagsHash -> [shard |-> ByMappedTags(KeyHash(key), cnt), ok |-> TRUE]
           [] OTHER                   -> [shard |-> 0, ok |-> FALSE]

\* Agent.shard: overflow check against the number of shards, fallback to shard 0 with ok = FALSE;
\* the secondary shard is used only if inside the cluster and different from the first
AgentShard(meta, key, N, cnt) ==
    LET r   == ShardingShard(meta, key, cnt)
        bad == ~r.ok \/ r.shard >= N
        s1  == IF bad THEN 0 ELSE r.shard
        s2  == IF meta.fk2 > 0 /\ meta.fk2 - 1 < N /\ meta.fk2 - 1 # s1 THEN meta.fk2 - 1 ELSE -1
    IN [shard |-> s1, ok |-> ~bad, shard2 |-> s2]

MetaSharded(meta) == meta.fk > 0 \/ meta.strat \in {Fixed, ByMetricID}
MetaShard(meta, n) ==
    IF meta.fk > 0 THEN meta.fk - 1
    ELSE CASE meta.strat = Fixed      -> meta.num
           [] meta.strat = ByMetricID -> U32Mod(meta.id, n)
           [] OTHER                   -> -1

\* the aggregator replaces a configured 0 by the number of shards and hands the result to agents
AggEffective(S, N) == IF S = 0 THEN N ELSE S
\* the API is started with a copy S of the aggregator's flag; chutil applies the same default
ApiCount(S, N) == IF S = 0 THEN N ELSE S
\* -1: any server, distributed table
ApiShard(meta, N, S) ==
    IF ~MetaSharded(meta) THEN -1
    ELSE LET sh == MetaShard(meta, ApiCount(S, N)) IN IF sh >= N THEN -1 ELSE sh

--------------------------------------------------------------------------------
(* Replicas: 0-based replica index inside the shard *)
Primary(t) == t % 3
Spare(t)   == (t + 1 + (t % 2)) % 3
\* alive: sequence of BOOLEAN over all 3 * N shard replicas
SelectReplica(shn, t, alive) ==
    LET p == shn * 3 + Primary(t)
        s == shn * 3 + Spare(t)
    IN IF alive[p + 1] THEN [idx |-> p, spare |-> FALSE]
       ELSE IF alive[s + 1] THEN [idx |-> s, spare |-> TRUE]
       ELSE [idx |-> -1, spare |-> FALSE]

\* the handler's loop: for roundedToOurTime%3 != replicaKey-1 { roundedToOurTime++ }
RECURSIVE RoundLoop(_, _)
RoundLoop(t, r) == IF t % 3 = r - 1 THEN t ELSE RoundLoop(t + 1, r)
\* goTicker hands a bucket that left the window to the inserters iff it is an own second
\* (any other bucket must be empty, the code panics otherwise)
TickHandoff(r, T) == T % 3 = r - 1

\* checkShardConfiguration: the aggregator of shard key sk, replica key r (both 1-based) takes a
\* bucket only if the sender addressed it: header.ShardReplica = (sk-1)*3 + (r-1).  Agents fill the
\* header with the index of the ShardReplica they chose (fillProxyHeader).
AcceptsSender(sk, r, sr) == sr = (sk - 1) * 3 + (r - 1)

--------------------------------------------------------------------------------
(* Grid points.  Every constructor returns inputs and the specification's outputs. *)
None == [a |-> "none"]

ShardOut(N, S, meta, hash, ts) ==
    LET key(i) == [metric |-> meta.id, ts |-> ts[i], hash |-> hash]
        cnt    == AggEffective(S, N)
    IN [sh  |-> [i \in 1..Len(ts) |-> AgentShard(meta, key(i), N, cnt)],
        raw |-> [i \in 1..Len(ts) |-> ShardingShard(meta, key(i), cnt)],
        msharded |-> MetaSharded(meta),
        mshard   |-> MetaShard(meta, ApiCount(S, N)),
        api      |-> ApiShard(meta, N, S)]
ShardPt(N, S, meta, hash, ts) ==
    LET o == ShardOut(N, S, meta, hash, ts)
    IN [a |-> "shard", N |-> N, S |-> S, fk |-> meta.fk, strat |-> meta.strat, num |-> meta.num,
        fk2 |-> meta.fk2, id |-> meta.id, hi |-> hash[1], lo |-> hash[2], ts |-> ts,
        sh |-> o.sh, raw |-> o.raw, msharded |-> o.msharded, mshard |-> o.mshard, api |-> o.api]

HashPt(n, hash) == [a |-> "hash", n |-> n, hi |-> hash[1], lo |-> hash[2], out |-> ByMappedTags(hash, n)]

ReplicaPt(N, shn, t, alive) ==
    [a |-> "replica", N |-> N, shn |-> shn, t |-> t, alive |-> alive,
     out |-> SelectReplica(shn, t, alive), out3 |-> SelectReplica(shn, t + 3, alive)]

FilePt(r, s, h, oldest, newest, hw) ==
    [a |-> "file", r |-> r, s |-> s, hist |-> h, oldest |-> oldest, newest |-> newest, hw |-> hw,
     out |-> Filing(r, s, h, oldest, newest, hw)]

TickPt(r, T) == [a |-> "tick", r |-> r, T |-> T, handoff |-> TickHandoff(r, T)]

AddrPt(sk, r, sr) == [a |-> "addr", sk |-> sk, r |-> r, sr |-> sr, accepted |-> AcceptsSender(sk, r, sr)]

ConfigPt(N, S) == [a |-> "config", N |-> N, S |-> S, eff |-> AggEffective(S, N)]

\* the canonical metas: only the fields a strategy reads are varied; a case is <<meta, hash>>
Meta(fk, strat, num, fk2, id) == [fk |-> fk, strat |-> strat, num |-> num, fk2 |-> fk2, id |-> id]
NoHash == <<0, 0>>
AnId == CHOOSE i \in Ids : i > 1
ShardCases(N) ==
    LET F2 == 0..(N + 1) IN
         {<<Meta(fk, st, 1, f2, AnId), NoHash>> : fk \in 1..(N + 1), st \in Strategies, f2 \in F2}
    \cup {<<Meta(0, Fixed, num, f2, AnId), NoHash>> : num \in 0..N, f2 \in F2}
    \cup {<<Meta(0, ByMetricID, 0, f2, id), NoHash>> : id \in Ids, f2 \in F2}
    \cup {<<Meta(0, ByTagsHash, 0, f2, AnId), h>> : h \in Hashes, f2 \in {0, 1, N}}
    \cup {<<Meta(0, st, 0, f2, AnId), NoHash>> : st \in {Builtin, "bogus"}, f2 \in F2}
\* S ranges over 0..N only: the aggregator refuses to start with more by-metric shards than shards
Configs == {c \in (1..MaxN) \X (0..MaxN) : c[2] <= c[1]}

\* every pattern of the shard's own replicas x {all others alive, all others dead}
AlivePatterns(N, shn) ==
    {[i \in 1..(3 * N) |-> IF (i - 1) \div 3 = shn THEN ((i - 1) % 3) \in own ELSE oth] :
        own \in SUBSET {0, 1, 2}, oth \in BOOLEAN}
ShardOfCluster == {d \in (1..(IF MaxN < 3 THEN MaxN ELSE 3)) \X (0..2) : d[2] < d[1]}   \* <<N, shard number>>

Max(a, b) == IF a > b THEN a ELSE b
WindowCases == {[oldest |-> o, newest |-> o + len - 1, hw |-> hw] : o \in Olds, len \in Lens, hw \in HWs}
SendTimes(w) == Max(0, w.oldest - w.hw - Span)..(w.newest + Span)

Init == pt = None /\ hist = <<>>
Pick(p) == pt' = p /\ hist' = <<p>>
Next == /\ pt = None      \* depth 1: every grid point is a successor of the initial state
        /\ \/ \E c \in Configs : \E m \in ShardCases(c[1]) : Pick(ShardPt(c[1], c[2], m[1], m[2], KeyTimes))
           \/ \E n \in 1..MaxN, h \in Hashes : Pick(HashPt(n, h))
           \/ \E c \in ShardOfCluster : \E al \in AlivePatterns(c[1], c[2]), t \in Times : Pick(ReplicaPt(c[1], c[2], t, al))
           \/ \E w \in WindowCases : \E s \in SendTimes(w), r \in 1..3, h \in BOOLEAN : Pick(FilePt(r, s, h, w.oldest, w.newest, w.hw))
           \/ \E r \in 1..3, T \in Times : Pick(TickPt(r, T))
           \/ \E c \in Configs : Pick(ConfigPt(c[1], c[2]))
           \/ \E sk \in 1..2, r \in 1..3, sr \in 0..6 : Pick(AddrPt(sk, r, sr))
Spec == Init /\ [][Next]_vars
View == pt

--------------------------------------------------------------------------------
(* THE PROPERTY, on the results in pt (the specification's in Routing, the code's in RoutingTrace) *)
Is(a) == pt.a = a
Idx(s) == 1..Len(s)

\* the shard an agent writes to is within the configured shard count
ShardInRange == Is("shard") =>
    \A i \in Idx(pt.sh) : pt.sh[i].shard \in 0..(pt.N - 1) /\ pt.sh[i].shard2 \in -1..(pt.N - 1)
\* ... does not depend on the event timestamp
TimeIndependent == Is("shard") =>
    \A i, j \in Idx(pt.sh) : pt.sh[i] = pt.sh[j] /\ pt.raw[i] = pt.raw[j]
\* ... for fixed or by-metric sharding equals the shard the API reads that metric from
AgentApiAgree == Is("shard") =>
    \A i \in Idx(pt.sh) : (pt.msharded /\ pt.sh[i].ok) => pt.api = pt.sh[i].shard
\* the two helpers (sharding.Shard on the write side, MetricMetaValue.Shard on the read side) agree
HelpersAgree == Is("shard") =>
    \A i \in Idx(pt.raw) : pt.msharded => (pt.raw[i].ok /\ pt.raw[i].shard = pt.mshard)
\* a metric that is not pinned to one shard is read through the distributed table
UnshardedReadsAll == Is("shard") => (~pt.msharded => pt.api = -1)
\* a secondary shard, when configured, differs from the primary
SecondaryDiffers == Is("shard") =>
    \A i \in Idx(pt.sh) : pt.sh[i].shard2 # -1 => pt.sh[i].shard2 # pt.sh[i].shard
\* the hash strategy maps every hash into the configured count
HashInRange == Is("hash") => pt.out \in 0..(pt.n - 1)
\* the count the aggregator hands to agents is a valid count, the one the API applies
ConfigConsistent == Is("config") => (pt.eff \in 1..pt.N /\ pt.eff = ApiCount(pt.S, pt.N))

\* the replica that inserts second T on its own (goTicker): 0-based
OwnerOf(T) == T % 3
\* each second goes to one primary replica (the one that inserts it), of the right shard, alive
PrimaryIsOwner == Is("replica") =>
    LET p == pt.shn * 3 + OwnerOf(pt.t)
    IN /\ pt.alive[p + 1] => pt.out = [idx |-> p, spare |-> FALSE]
       /\ (pt.out.idx # -1 /\ ~pt.out.spare) => pt.out.idx = p
ReplicaOfShardAlive == Is("replica") =>
    \A o \in {pt.out, pt.out3} : o.idx # -1 => (o.idx \div 3 = pt.shn /\ pt.alive[o.idx + 1])
\* its spare is always a different replica
SpareDiffers == Is("replica") =>
    /\ pt.out.spare  => pt.out.idx  # pt.shn * 3 + OwnerOf(pt.t)
    /\ pt.out3.spare => pt.out3.idx # pt.shn * 3 + OwnerOf(pt.t + 3)
\* the two remaining replicas share spare traffic: seconds t and t+3 have the same primary; when it
\* is down and the others are up, they go to different spares
SpareShared == Is("replica") =>
    LET p == pt.shn * 3 + OwnerOf(pt.t)
        others == {pt.shn * 3 + k : k \in 0..2} \ {p}
    IN (~pt.alive[p + 1] /\ \A q \in others : pt.alive[q + 1]) =>
          (pt.out.spare /\ pt.out3.spare /\ {pt.out.idx, pt.out3.idx} = others)
\* nothing is returned only if the primary and at least one more replica are down
NoneOnlyIfDown == Is("replica") =>
    (pt.out.idx = -1 => (~pt.alive[pt.shn * 3 + OwnerOf(pt.t) + 1] /\ \E k \in 0..2 : k # OwnerOf(pt.t) /\ ~pt.alive[pt.shn * 3 + k + 1]))

\* every accepted second is filed into a bucket the replica will itself insert at most two
\* seconds later, or into its historic queue
FiledOwnSoon == Is("file") =>
    (pt.out.kind = "file" =>
        \/ pt.out.q = "historic"
        \/ /\ pt.out.q = "recent"
           /\ pt.out.T \in pt.s..(pt.s + 2)
           /\ OwnerOf(pt.out.T) = pt.r - 1
           /\ pt.out.T \in pt.oldest..pt.newest)
\* an aggregator takes only what was addressed to its own shard replica
AddressedToMe == Is("addr") => (pt.accepted => pt.sr = (pt.sk - 1) * 3 + pt.r - 1)
\* only own seconds are handed to the inserters
TickOwn == Is("tick") => (pt.handoff => OwnerOf(pt.T) = pt.r - 1)

--------------------------------------------------------------------------------
(* Theorems about the transcribed functions (model only, evaluated once in the initial state) *)
Theorems == Is("none") =>
    /\ \A t \in Times :
         /\ Primary(t) \in 0..2 /\ Spare(t) \in 0..2 /\ Primary(t) = OwnerOf(t)
         /\ Spare(t) # Primary(t)
         /\ Primary(t + 3) = Primary(t) /\ {Primary(t), Spare(t), Spare(t + 3)} = {0, 1, 2}
         \* the primary files second t into bucket t, the spare into t+1 (even t) or t+2 (odd t)
         /\ RoundLoop(t, Primary(t) + 1) = t
         /\ RoundLoop(t, Spare(t) + 1) = t + 1 + (t % 2)
         /\ \A r \in 1..3 : /\ RoundLoop(t, r) = RoundUp(t, r)
                            /\ RoundLoop(t, r) \in t..(t + 2) /\ TickHandoff(r, RoundLoop(t, r))
    \* rounding never pushes a second of the window (minus the two youngest) out of it, and what is
    \* filed as recent is handed to the inserters by the same replica when it leaves the window
    /\ \A w \in WindowCases : \A s \in SendTimes(w), r \in 1..3, h \in BOOLEAN :
         LET p == FilePt(r, s, h, w.oldest, w.newest, w.hw) IN
         /\ (p.s \in p.oldest..(p.newest - 2) => (p.out.kind = "file" /\ p.out.q = "recent"))
         /\ (p.out.kind = "file" /\ p.out.q = "recent") => TickHandoff(p.r, p.out.T)
         /\ (p.out.kind = "file" /\ p.out.q = "historic") => (p.hist /\ p.out.T = p.s)
         /\ (p.out.kind = "reject" /\ ~p.out.discard) => ~p.hist   \* "late": resend through the historic conveyor
    \* what an agent sends to ShardReplicas[i] (ShardKey i/3+1, ReplicaKey i%3+1) is taken by that aggregator only
    /\ \A i \in 0..(3 * MaxN - 1) : \A sk \in 1..MaxN, r \in 1..3 :
         AcceptsSender(sk, r, i) <=> (sk = (i \div 3) + 1 /\ r = (i % 3) + 1)
    \* uint32 arithmetic on negative ids
    /\ U32Mod(-1, 3) = 0 /\ U32Mod(-1, 5) = 0 /\ U32Mod(-2, 5) = 4 /\ U32Mod(-1, 6) = 3 /\ U32Mod(-7, 4) = 1
    /\ ByMappedTags(<<65535, 65535>>, 6) = 5 /\ ByMappedTags(<<32768, 0>>, 2) = 1 /\ ByMappedTags(<<32767, 65535>>, 2) = 0

Export == PrintT(<<"BEH", ToJson(hist')>>)
===============================================================================
