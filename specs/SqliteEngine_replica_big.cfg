INIT Init
NEXT Next
CONSTANTS
  Writes <- MCW3
  FailW <- MCNone
  Readers = {r1}
  Role = "replica"
  Dur = "wait"
  SvcSizes <- MCSvc
  StartSize = 24
  Size <- MCSize
  MaxCrash = 2
  MaxReads = 1
  MaxClose = 0
  AllowDesync = FALSE
  MaxOps = 0
VIEW View
CHECK_DEADLOCK FALSE
INVARIANTS TypeOK DbIsPrefix DbNotAheadOfFile DbNotAheadOfSync TxMirrorsBinlog TxMirrorsRead TxOffIsBoundary RecoveredAll RecoveredExact AckedDurable AckedRecovered FailedNowhere ViewWithinBinlog ReadWithinBinlog CommitInfoSound
PROPERTY Monotone
