------------------------------ MODULE PointsCache ------------------------------
(* API points cache (internal/api/pcache.go), property C24.

   Two layers in one module:
   * the code's mechanism transcribed: three-level invalidation map (hour/minute/second),
     pruning, per-range loadedAt, size accounting and LRU eviction  (Code* operators);
   * the property stated on ghost state `ghost` (second -> instant of its latest
     invalidation): MustMiss / MustHit.
   TLC checks that the mechanism implies the property for every history over a boundary
   alphabet of seconds.  The trace spec (PointsCacheTrace) reuses GetCore/Invalidate/Tick
   and accepts any outcome of the real code that the property allows.

   Time unit: seconds (the code compares nanoseconds; the harness clock only takes whole
   seconds, so every comparison scales by 1e9 on both sides).                              *)
EXTENDS Integers, Sequences, FiniteSets, TLC, Json

CONSTANTS Keys,        \* cache keys (query identities)
          Ranges,      \* set of [f |-> from, t |-> to] requested ranges
          Secs,        \* seconds that can be invalidated
          Ticks,       \* clock increments
          StepH, StepM, \* 3600, 60  (third level is 1)
          From,        \* invalidateFrom in seconds (negative: -172800)
          Linger,      \* invalidateLinger in seconds (15)
          MaxSize,     \* approxMaxSize
          NRows,       \* rows returned by one load
          Now0,        \* initial clock
          MaxOps       \* bound on behaviour length (model checking only)

VARIABLES now,     \* clock
          lv,      \* <<hourMap, minuteMap, secondMap>>: rounded second -> invalidatedAt
          ghost,   \* second -> latest invalidation instant (never pruned)
          cache,   \* key -> [range -> [gen, at]]
          meta,    \* key -> [lru, rowsSize]
          size,    \* c.size
          gen,     \* number of loads so far; a load returns rows tagged with its number
          pending, \* <<>> or <<[k, r, at, gen]>>: a load in flight (between loader start and store)
          served,  \* outcome of the last completed Get (observation)
          hist

vars == <<now, lv, ghost, cache, meta, size, gen, pending, served, hist>>
View == <<now, lv, ghost, cache, meta, size, gen, pending, served>>

Steps == <<StepH, StepM, 1>>
Round(t, step) == (t \div step) * step
Imm == now + From          \* seconds before Imm are immutable

NoServed == [hit |-> FALSE, gen |-> 0, mustMiss |-> FALSE, mustHit |-> FALSE, k |-> "", valid |-> TRUE]

Init == /\ now = Now0
        /\ lv = << <<>>, <<>>, <<>> >>
        /\ ghost = <<>>
        /\ cache = <<>>
        /\ meta = <<>>
        /\ size = 0
        /\ gen = 0
        /\ pending = <<>>
        /\ served = NoServed
        /\ hist = <<>>

-------------------------------------------------------------------------------
(* The property, on ghost state.  A cached result loaded at `at` for [f, t) must not be
   served if some second of the range that is inside the mutable window was invalidated
   at or after at - Linger.  A cached result entirely before the window must be served. *)
MustMiss(at, r) == \E s \in DOMAIN ghost : s >= r.f /\ s < r.t /\ s >= Imm /\ at <= ghost[s] + Linger
MustHit(r)      == r.t < Imm

-------------------------------------------------------------------------------
(* The mechanism as coded. *)
Bad(m, i, at) == i \in DOMAIN m /\ at <= m[i] + Linger

RECURSIVE CheckMap(_, _, _, _)
CheckMap(ix, at, f, t) ==
    IF ix = 3
    THEN \A i \in DOMAIN lv[3] : (i >= f /\ i <= t) => ~Bad(lv[3], i, at)
    ELSE LET step     == Steps[ix]
             fromR    == Round(f, step)
             toR      == Round(t, step)
             fromNext == IF t < fromR + step THEN t ELSE fromR + step
             toPrev   == IF f > toR THEN f ELSE toR
         IN /\ CheckMap(ix + 1, at, f, fromNext)
            /\ CheckMap(ix + 1, at, toPrev, t)
            /\ \A i \in DOMAIN lv[ix] : (i > fromR /\ i < toR) => ~Bad(lv[ix], i, at)

CodeValid(at, r) ==
    IF r.t < Imm THEN TRUE
    ELSE CheckMap(1, at, IF r.f < Imm THEN Imm ELSE r.f, r.t)

Present(k, r) == k \in DOMAIN cache /\ r \in DOMAIN cache[k]

Upd(m, key, val) == [x \in DOMAIN m \cup {key} |-> IF x = key THEN val ELSE m[x]]
Del(m, ks) == [x \in DOMAIN m \ ks |-> m[x]]

EntrySize(k) == meta[k].rowsSize + Cardinality(DOMAIN cache[k])
(* what the cache really holds: one unit per key, per range and per row *)
ActualSize == Cardinality(DOMAIN cache)
              + Cardinality(UNION {{<<k, r>> : r \in DOMAIN cache[k]} : k \in DOMAIN cache}) * (1 + NRows)

-------------------------------------------------------------------------------
TickCore(d) == /\ now' = now + d
               /\ UNCHANGED <<lv, ghost, cache, meta, size, gen, pending, served>>
Tick(d) == TickCore(d) /\ hist' = Append(hist, [a |-> "Tick", d |-> d])

Prune(m, lim) == [x \in {y \in DOMAIN m : y >= lim} |-> m[x]]

InvalidateCore(S) ==
    LET put(m, step) == [x \in DOMAIN m \cup {Round(s, step) : s \in S} |->
                           IF x \in {Round(s, step) : s \in S}
                           THEN (IF x \in DOMAIN m /\ m[x] >= now THEN m[x] ELSE now)
                           ELSE m[x]]
    IN /\ lv' = << Prune(put(lv[1], StepH), Imm), Prune(put(lv[2], StepM), Imm), Prune(put(lv[3], 1), Imm) >>
       /\ ghost' = [x \in DOMAIN ghost \cup S |-> IF x \in S THEN now ELSE ghost[x]]
       /\ UNCHANGED <<now, cache, meta, size, gen, pending, served>>
Invalidate(S) == InvalidateCore(S) /\ hist' = Append(hist, [a |-> "Inval", secs |-> S])

(* Get, first half.  `hit` is the cache's decision.  On a hit the call completes; on a miss the
   loader starts (loadedAt is taken before the loader runs) and the store happens in GetStore,
   so clock steps and invalidations can fall inside the load. *)
GetCore(k, r, hit) ==
    /\ pending = <<>>
    /\ hit => Present(k, r)
    /\ IF hit
       THEN /\ served' = [hit |-> TRUE, gen |-> cache[k][r].gen, k |-> k,
                          mustMiss |-> MustMiss(cache[k][r].at, r), mustHit |-> MustHit(r),
                          valid |-> CodeValid(cache[k][r].at, r)]
            /\ meta' = [meta EXCEPT ![k].lru = now]
            /\ UNCHANGED <<gen, pending>>
       ELSE /\ gen' = gen + 1
            /\ pending' = << [k |-> k, r |-> r, at |-> now, gen |-> gen + 1] >>
            /\ served' = [hit |-> FALSE, gen |-> gen + 1, k |-> k, mustMiss |-> FALSE,
                          mustHit |-> Present(k, r) /\ MustHit(r),
                          valid |-> IF Present(k, r) THEN CodeValid(cache[k][r].at, r) ELSE FALSE]
            /\ meta' = IF k \in DOMAIN meta THEN [meta EXCEPT ![k].lru = now] ELSE meta
    /\ UNCHANGED <<now, lv, ghost, cache, size>>

(* Get, second half: evict the keys in `ev`, then store the loaded rows. *)
GetStore(ev) ==
    /\ pending # <<>>
    /\ LET p   == pending[1]
           c1  == Del(cache, ev)
           m1  == Del(meta, ev)
           freed == IF ev = {} THEN 0 ELSE
                    LET RECURSIVE Sum(_)
                        Sum(S) == IF S = {} THEN 0 ELSE LET x == CHOOSE y \in S : TRUE IN EntrySize(x) + Sum(S \ {x})
                    IN Sum(ev)
           had == p.k \in DOMAIN c1 /\ p.r \in DOMAIN c1[p.k]
           old == IF p.k \in DOMAIN c1 THEN c1[p.k] ELSE <<>>
           oldRS == IF p.k \in DOMAIN m1 THEN m1[p.k].rowsSize ELSE 0
       IN /\ cache' = Upd(c1, p.k, Upd(old, p.r, [gen |-> p.gen, at |-> p.at]))
          /\ meta'  = Upd(m1, p.k, [lru |-> now, rowsSize |-> oldRS + NRows])
          /\ size'  = size - freed + (IF had THEN NRows ELSE 1 + NRows)
    /\ pending' = <<>>
    /\ UNCHANGED <<now, lv, ghost, gen, served>>

(* eviction as coded: while size+len(cache) >= MaxSize evict the least recently used key
   (all keys are sampled while there are at most 100 of them) *)
RECURSIVE CodeEvictOK(_, _, _)
CodeEvictOK(ev, keys, sz) ==
    IF sz + Cardinality(keys) < MaxSize \/ keys = {}
    THEN ev = {}
    ELSE \E v \in keys \cap ev :
            /\ \A o \in keys : meta[v].lru <= meta[o].lru
            /\ CodeEvictOK(ev \ {v}, keys \ {v}, sz - EntrySize(v))

CodeGet(k, r) ==
    /\ LET hit == Present(k, r) /\ CodeValid(cache[k][r].at, r) IN
       /\ GetCore(k, r, hit)
       /\ hist' = Append(hist, [a |-> "Get", k |-> k, f |-> r.f, t |-> r.t])

CodeStore ==
    /\ \E ev \in SUBSET (DOMAIN cache) :
         /\ CodeEvictOK(ev, DOMAIN cache, size)
         /\ GetStore(ev)
    /\ hist' = Append(hist, [a |-> "Store"])

Next == /\ Len(hist) < MaxOps
        /\ \/ \E d \in Ticks : Tick(d)
           \/ \E s \in Secs : Invalidate({s})
           \/ \E k \in Keys, r \in Ranges : CodeGet(k, r)
           \/ CodeStore

Spec == Init /\ [][Next]_vars

-------------------------------------------------------------------------------
(* Properties *)
NeverServeStale   == ~(served.hit /\ served.mustMiss)
ServeImmutable    == ~(~served.hit /\ served.mustHit)
(* c.size over-counts after a range is re-stored, never under-counts *)
SizeAccounting    == size >= ActualSize - Cardinality(DOMAIN cache)
SizeBound         == ActualSize <= MaxSize + NRows + 1
(* every level-map entry is backed by a real invalidation no older than what the map says *)
LevelsSound       == \A i \in 1..3 : \A x \in DOMAIN lv[i] : \E s \in DOMAIN ghost : Round(s, Steps[i]) = x /\ ghost[s] = lv[i][x]
(* every invalidated second still in the window is remembered at the finest level *)
LevelsComplete    == \A s \in DOMAIN ghost : s >= Imm => (s \in DOMAIN lv[3] /\ lv[3][s] = ghost[s])

Export == PrintT(<<"BEH", ToJson(hist')>>)
===============================================================================
