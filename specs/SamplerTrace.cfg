SPECIFICATION TraceSpec
CONSTANTS
  RoundMode = "trace"
  SelectMode = "trace"
  LegacyBreak = FALSE
VIEW TraceView
CONSTRAINT HighWater
INVARIANTS AtMostOnce ExactlyOnce TrUnbiased KeptRowsFactorGE1 NoSampleAgentKept FitsNothingSampled FairShare
  FixedWithinBudget FairShareRemaining SelectorConsistent TrKeptWithinBudget TrMonotone
  QuotaProportional QuotaFitIsSize TrQuotaWithinTotal
POSTCONDITION TraceAccepted
CHECK_DEADLOCK FALSE
