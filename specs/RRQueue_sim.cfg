INIT Init
NEXT Next
CONSTANTS
  Users <- U4
  NQ = 3
  InitCaps = {1, 2, 3}
  Caps = {0, 1, 2, 3}
  MaxAdjust = 3
  MaxOps = 60
  Bug = "none"
  KeepHist = TRUE
  Recycle = FALSE
  Normalize = FALSE
ACTION_CONSTRAINT Export
INVARIANTS TypeOK CapacityAtGrant NoLostWakeup NoLeak OutcomeOK RoundRobinFair UserFIFO
CHECK_DEADLOCK FALSE
