INIT Init
NEXT Next
CONSTANTS
  MAXSIZE = 2
  MaxSkip = 4
  Hashes = {0, 1, 2, 3, 4, 8}
  NSk = 3
  MaxIns = 5
  MaxMrg = 2
  FixMerge = TRUE
  FixMergeRead = TRUE
VIEW View
INVARIANTS Canonical SameEstimate Bounded
CHECK_DEADLOCK FALSE
