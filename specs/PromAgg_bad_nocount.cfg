INIT Init
NEXT Next
CONSTANTS
  NS = 2
  NT = 2
  Vals <- MCValsTwo
  TagA <- MCTagA
  TagB <- MCTagB
  R = 2
  WMax = 2
  Tables <- TablesNone
  SelMod = 1
  Sel = 0
  PreAvg = TRUE
  PreCount = FALSE
  AnchorVals <- NoAnchor
INVARIANTS
  Rule2Exact
  Rule3Exact
CHECK_DEADLOCK FALSE
