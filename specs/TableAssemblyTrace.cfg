SPECIFICATION TraceSpec
CONSTRAINT HighWater
INVARIANTS TrInputOK TrAligned TrUnique TrOrdered TrWindow TrLimit TrFirst TrHasMore
POSTCONDITION TraceAccepted
CHECK_DEADLOCK FALSE
