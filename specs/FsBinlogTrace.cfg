SPECIFICATION TraceSpec
CONSTANTS
  StartSize = 24
  TagSize = 20
  CrcSize = 20
  RotSize = 36
  EvHdr = 8
  CrcEvery = 65536
  Chunks <- TrChunks
  Lens = {}
  MaxOps = 0
  MaxRuns = 1000000
  Fine = FALSE
  CheckRotTo = TRUE
  CommitAfterSync = TRUE
  MaxTears = 0
  TornMode = "refuse"
  Asaps = {}
VIEW TraceView
CONSTRAINT HighWater
INVARIANTS AppendOffsets LayoutAsSpecified ReplayExactObs TruncSafeObs FlipDetectedObs CommitMonotone CommitValidObs CommitDurableObs CommitsAtBounds RefusalJustified StopCleanObs
POSTCONDITION TraceAccepted
CHECK_DEADLOCK FALSE
