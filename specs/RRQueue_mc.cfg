INIT Init
NEXT Next
CONSTANTS
  Users <- U2
  NQ = 2
  InitCaps = {1, 2}
  Caps = {1, 2}
  MaxAdjust = 1
  MaxOps = 0
  Bug = "none"
  KeepHist = TRUE
  Recycle = FALSE
  Normalize = FALSE
VIEW View
INVARIANTS TypeOK CapacityAtGrant NoLostWakeup NoLeak OutcomeOK RoundRobinFair UserFIFO
CHECK_DEADLOCK FALSE
