SPECIFICATION Spec
CONSTANTS
  BufLen = 10
  WaitPct = 20
  MaxPkts = 3
  MaxErrs = 1
  MaxSpur = 0
  PktLens <- Len1
  TimeoutSignals = TRUE
  SkipOnErr = TRUE
  ReportRetry = TRUE
  ReportClaim = "swap"
  DeadlineArmed = TRUE
  AllowClose = TRUE
  AllowRecon = FALSE
  RecordHist = FALSE
  MaxHist = 0
VIEW View
INVARIANTS InOrderModuloSkip SkipBound BufferAccounting DropOnlyWhenFull DropsCounted ReportsConserved NoReportLost NoStuck TimerSane ConnSane
CHECK_DEADLOCK FALSE
