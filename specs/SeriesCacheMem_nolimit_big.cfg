SPECIFICATION Spec
CONSTANTS
  NReq = 2
  Hard = 0
  Soft = 0
  S0 = 2
  D = 1
  NInc = 2
  FixWake = TRUE
INVARIANTS TypeOK NoStuck
PROPERTIES AllDone
CHECK_DEADLOCK FALSE
