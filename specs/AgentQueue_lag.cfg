INIT Init
NEXT BehNext
CONSTANTS
  QLen = 128
  FutureSlots = 3
  Spread = 120
  NShards = 2
  Metrics <- LMetrics
  TimingShard = 1
  T0 <- B0
  Lags0 = {5, 6, 7, 8, 9}
  Fulls0 = {FALSE, TRUE}
  Ticks = {0, 1}
  TsOffs <- LOffs
  Kinds = {"metric"}
  SpreadOf <- LastSpread
  Variant = "code"
  MaxOps = 6
  MaxEvents = 2
VIEW View
ACTION_CONSTRAINT ExportBeh
CHECK_DEADLOCK FALSE
