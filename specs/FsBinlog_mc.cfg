INIT Init
NEXT Next
CONSTANTS
  StartSize = 24
  TagSize = 20
  CrcSize = 20
  RotSize = 36
  EvHdr = 8
  CrcEvery = 64
  Chunks <- MCChunksSmall
  Lens <- MCLensSmall
  MaxOps = 5
  MaxRuns = 2
  Fine = FALSE
  CheckRotTo = TRUE
  CommitAfterSync = TRUE
  MaxTears = 1
  TornMode = "refuse"
  Asaps = {TRUE, FALSE}
VIEW View
INVARIANTS OffsetsChain ReplayExact TruncSafe FlipDetected CommitMonotone CommitAtBoundary CommitDurable StopCommitsAll
CHECK_DEADLOCK FALSE
