INIT Init
NEXT Next
CONSTANTS
  MAXSIZE = 4
  MaxSkip = 6
  Hashes = {0, 1, 2, 3, 4, 6, 8, 16}
  NSk = 2
  MaxIns = 6
  MaxMrg = 2
  FixMerge = TRUE
  FixMergeRead = TRUE
VIEW View
INVARIANTS Canonical SameEstimate Bounded
CHECK_DEADLOCK FALSE
