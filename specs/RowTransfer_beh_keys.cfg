INIT Init
NEXT Next
CONSTANTS
  DEN = 6
  AgentHost = 9
  FixMixedSum = TRUE
  FixEmptyHost = TRUE
  Shapes <- MCShapes
  TopKeys = {1, 2}
  SFs = {1, 2, 4}
  Percs = {FALSE, TRUE}
  KeyShapes <- MCKeys
  BucketTime <- MCBucket
  Window <- MCWindow
  MaxCnt = 24
  MinEv = 1
  MaxEv = 1
VIEW View
ACTION_CONSTRAINT Export
INVARIANTS CodecMatchesSpec CodecAdditive KeyCodec RowHostsAdmissible RowSane
CHECK_DEADLOCK FALSE
