SPECIFICATION Spec
CONSTANTS
  Keys <- MCKeys31
  Splits <- MCSplits3
  Width <- MCWidth3
  Limits = {0, 1, 2, 3}
  Markers <- MCMarkers31Small
  Export = FALSE
INVARIANTS TypeOK ColumnsDuring RowsIdxUnique CountBound MarkerIsKey
  FinalAligned FinalUnique FinalOrdered FinalWindow FinalLimit FinalFirst FinalHasMore
CHECK_DEADLOCK FALSE
