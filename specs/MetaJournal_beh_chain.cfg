INIT Init
NEXT Next
CONSTANTS
  Ids <- IdsC
  Names <- NamesC
  Chars <- MCChars
  Replicas = {"c", "ac"}
  Up <- MCUp
  IsCompact <- MCIsCompact
  MaxBatch = 2
  ChunkSizes = {1}
  MaxVer = 3
  MaxRestarts = 1
  MaxOps = 7
  OrigNames = FALSE
  OrigSkip = FALSE
VIEW View
CHECK_DEADLOCK FALSE
ACTION_CONSTRAINT Export
