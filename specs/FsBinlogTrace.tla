---------------------------- MODULE FsBinlogTrace ----------------------------
(* I->S: validates what the real fsbinlog did (harness
   internal/vkgo/binlog/fsbinlog/verif_c18_fsbinlog_test.go) against FsBinlog.

   The writer part of the trace (Open, AppendCall/AppendRet, Commit, Stop, Restart) is replayed
   through AppendCore/RestartCore: the offsets Append returned, the record layout parsed from
   the real files and every Engine.Commit must be the specification's.  The nondeterminism of
   the writer goroutine (how appends are batched, when it commits) is taken from the trace.
   The audit part (Dmg, Read) reports what a real ReadAll delivered to the recording engine
   on a (damaged) copy of the files; ReadModel says what it had to be.  Each class of
   observation is judged by its own invariant, so that a rejection names the broken clause
   of the property.  Several runs are concatenated, each starting with Open.              *)
EXTENDS FsBinlog
VARIABLES l, obs, pend
Trace == ndJsonDeserialize("trace.ndjson")
ASSUME TLCSet(7, 0)

tvars == <<vars, l, obs, pend>>
IsEvent(e) == l <= Len(Trace) /\ Trace[l].ev = e /\ l' = l + 1
NoObs == [t |-> "none"]
ToSet(s) == {s[i] : i \in DOMAIN s}

InitWith(c) ==
    /\ chunk' = c
    /\ recs' = << Rec("start", 0, StartSize, 0, 1), Rec("tag", StartSize, TagSize, 0, 1) >>
    /\ offG' = Hdr /\ crcAt' = Hdr /\ fileStart' = 0
    /\ nextId' = 1 /\ appended' = <<>> /\ bounds' = {Hdr}
    /\ phase' = "run" /\ accept' = TRUE /\ stopReq' = FALSE /\ asapPend' = FALSE
    /\ taken' = Hdr /\ ops' = <<>> /\ pc' = "idle" /\ it' = [cause |-> "none", asap |-> FALSE]
    /\ dirty' = FALSE /\ fw' = <<Hdr>> /\ fsy' = <<Hdr>>
    /\ commits' = <<>>
    /\ runs' = 1 /\ torn' = 0 /\ tears' = 0

NoPend == [n |-> 0, asap |-> FALSE]
TrInit == Init /\ l = 1 /\ obs = NoObs /\ pend = NoPend

TrOpen == /\ IsEvent("Open")
          /\ InitWith(Trace[l].chunk)
          /\ obs' = NoObs /\ pend' = NoPend /\ hist' = hist

(* Append is observed in two halves (the writer goroutine may commit in between).  The offset it
   returned says which service records followed the event: none, a crc32 record (+20), a
   rotateTo/rotateFrom pair (+72), or both (+92). *)
TrAppendCall == /\ IsEvent("AppendCall")
                /\ pend = NoPend
                /\ pend' = [n |-> Trace[l].len, asap |-> Trace[l].asap]
                /\ obs' = NoObs
                /\ UNCHANGED vars

Extras == {0, CrcSize, 2 * RotSize, CrcSize + 2 * RotSize}
Cand == IF pend = NoPend THEN {} ELSE {offG + Pad(pend.n) + x : x \in Extras}

TrAppendRet == /\ IsEvent("AppendRet")
               /\ pend # NoPend
               /\ LET x == Trace[l].ret - offG - Pad(pend.n)
                      ok == x \in Extras
                      needCrc == x \in {CrcSize, CrcSize + 2 * RotSize}
                      needRot == x \in {2 * RotSize, CrcSize + 2 * RotSize}
                  IN /\ AppendCoreD(pend.n, pend.asap, ok /\ needCrc, ok /\ needRot)
                     /\ obs' = [t |-> "ret", ok |-> ok, ret |-> Trace[l].ret]
                     /\ IF needCrc = CodedCrc(pend.n) /\ needRot = CodedRot(pend.n, needCrc) THEN TRUE
                        ELSE PrintT(<<"CADENCE_DEVIATION", l>>)
               /\ pend' = NoPend
               /\ UNCHANGED <<phase, accept, stopReq, taken, ops, pc, it, dirty, fw, fsy, commits, runs, torn, tears, hist>>

(* Engine.Commit(pos, meta, safe): src = "w" from the writer loop, "r" from the reader during
   replay.  dirty = smallest stream position found not fsynced at the moment of the callback
   (-1: none), metaok = the snapshot meta carries pos and the crc32 of the real bytes [0,pos). *)
TrCommit == /\ IsEvent("Commit")
            /\ commits' = Append(commits, Trace[l].pos)
            /\ pend' = pend /\ obs' = [t |-> "commit", pos |-> Trace[l].pos, src |-> Trace[l].src, dirty |-> Trace[l].dirty,
                       metaok |-> Trace[l].metaok, safe |-> Trace[l].safe, size |-> Trace[l].size]
            /\ UNCHANGED <<wvars, phase, accept, stopReq, asapPend, taken, ops, pc, it, dirty, fw, fsy, runs, torn, tears, hist>>

TrStop == /\ IsEvent("Stop")
          /\ phase = "run"
          /\ phase' = "stopped" /\ accept' = FALSE
          /\ pend' = pend /\ obs' = [t |-> "stop", err |-> Trace[l].err]
          /\ UNCHANGED <<wvars, stopReq, asapPend, taken, ops, pc, it, dirty, fw, fsy, commits, runs, torn, tears, hist>>

TrLayout == /\ IsEvent("Layout")
            /\ pend' = pend /\ obs' = [t |-> "layout", got |-> Trace[l].recs]
            /\ UNCHANGED vars

(* Run(from, meta) on the stopped binlog.  It either comes up as master (Started; cut = the file ends
   exactly at the replayed offset, i.e. a torn tail was cut off) or fails (Refused). *)
TrRestart == /\ IsEvent("Restart")
             /\ RestartCore(Trace[l].from)
             /\ commits' = <<>>
             /\ pend' = pend /\ obs' = NoObs /\ hist' = hist
             /\ UNCHANGED <<recs, torn>>

TrStarted == /\ IsEvent("Started")
             /\ StartedCore(Trace[l].cut)
             /\ pend' = pend /\ obs' = NoObs
             /\ UNCHANGED <<chunk, offG, crcAt, fileStart, nextId, appended, bounds, phase, accept, stopReq, asapPend,
                            taken, ops, pc, it, dirty, fw, fsy, commits, runs, tears, hist>>

TrRefused == /\ IsEvent("Refused")
             /\ phase = "run"
             /\ phase' = "stopped" /\ accept' = FALSE
             /\ commits' = << offG >>
             /\ pend' = pend /\ obs' = [t |-> "refused", torn |-> torn, msg |-> Trace[l].msg]
             /\ UNCHANGED <<wvars, stopReq, asapPend, taken, ops, pc, it, dirty, fw, fsy, runs, torn, tears, hist>>

(* the harness cut the last file at stream position `at` *)
TrTear == /\ IsEvent("Tear")
          /\ TearCore(Trace[l].at)
          /\ pend' = pend /\ obs' = NoObs /\ hist' = hist

(* one ReadAll(from, meta) on a copy of the current files damaged by [dt, at] (dt = "none": intact;
   also the replay at the start of a Run): the recording engine saw `cnt` records of the layout
   starting with record lo, in order, each at its offset and with the bytes that are on disk
   (shape = "ok"), or something else. *)
TrRead == /\ IsEvent("Read")
          /\ pend' = pend /\ obs' = [t |-> "read", meta |-> Trace[l].meta, d |-> [t |-> Trace[l].dt, at |-> Trace[l].at], from |-> Trace[l].from,
                     got |-> [err |-> Trace[l].err, lo |-> Trace[l].lo, n |-> Trace[l].cnt, end |-> Trace[l].end,
                              shape |-> Trace[l].shape, dmgd |-> Trace[l].dmgd, ck |-> ToSet(Trace[l].ck)],
                     want |-> ReadModel(Trace[l].from, Trace[l].meta, [t |-> Trace[l].dt, at |-> Trace[l].at])]
          /\ UNCHANGED vars

TrNext == TrOpen \/ TrAppendCall \/ TrAppendRet \/ TrCommit \/ TrStop \/ TrLayout \/ TrRestart \/ TrStarted \/ TrRefused \/ TrTear \/ TrRead
TraceSpec == TrInit /\ [][TrNext]_tvars

-------------------------------------------------------------------------------
(* the property, evaluated on the observations *)
Agree(got, want, d) ==
    CASE want.err = "none" -> /\ got.err = "none" /\ got.shape = "ok"
                              /\ got.n = want.hi - want.lo /\ (got.n > 0 => got.lo = want.lo)
                              /\ got.end = want.end /\ got.dmgd = Dmgd(want, d)
      [] want.err = "crc"  -> /\ got.err = "crc" /\ got.shape = "ok"
                              /\ got.n = want.hi - want.lo /\ (got.n > 0 => got.lo = want.lo)
                              /\ got.dmgd = Dmgd(want, d)
      [] want.err = "seek" -> got.err # "none"
      [] want.err = "weak" -> got.ck \cap Forbidden(d) = {}
      [] want.err = "torn" -> FALSE     \* events were appended after a torn tail: no replay can be right any more

AppendOffsets    == obs.t = "ret" => obs.ok
LayoutAsSpecified == obs.t = "layout" => obs.got = recs
ReplayExactObs   == (obs.t = "read" /\ obs.d.t = "none")  => Agree(obs.got, obs.want, obs.d)
TruncSafeObs     == (obs.t = "read" /\ obs.d.t = "trunc") => Agree(obs.got, obs.want, obs.d)
(* a flipped byte before the resume position, in the file the reader has to seek in: with the
   snapshot meta the coded reader rejects it while seeking; the property is also kept by a reader
   that behaves as without meta, or that trusts the meta and does not read those bytes at all *)
FlipDetectedObs  == (obs.t = "read" /\ obs.d.t = "flip") =>
                       \/ Agree(obs.got, obs.want, obs.d)
                       \/ /\ obs.meta /\ obs.d.at < obs.from
                          /\ \/ Agree(obs.got, ReadModel(obs.from, FALSE, obs.d), obs.d)
                             \/ Agree(obs.got, ReadModel(obs.from, FALSE, NoDmg), NoDmg)
CommitValidObs   == obs.t = "commit" => /\ (obs.src = "w" => obs.pos \in bounds \cup Cand)
                                        /\ (IsBoundary(obs.pos) \/ obs.pos \in Cand)
                                        /\ obs.metaok
                                        /\ obs.safe <= obs.pos
CommitDurableObs == obs.t = "commit" => /\ (obs.dirty = -1 \/ obs.dirty >= obs.pos)
                                        /\ obs.pos <= obs.size
CommitsAtBounds  == pend = NoPend => \A j \in DOMAIN commits : IsBoundary(commits[j])
(* Run may only refuse to start when the tail of the binlog is torn *)
RefusalJustified == obs.t = "refused" => obs.torn > 0
StopCleanObs     == obs.t = "stop" => obs.err = "" /\ commits # <<>> /\ commits[Len(commits)] = offG

HighWater == TLCSet(7, IF l > TLCGet(7) THEN l ELSE TLCGet(7))
TraceAccepted == IF TLCGet(7) = Len(Trace) + 1 THEN TRUE
                 ELSE PrintT(<<"TRACE_REJECTED_AT_LINE", TLCGet(7)>>) /\ FALSE
(* every step is a function of the trace line, so the line number identifies the state *)
TraceView == <<l>>
TrChunks == {0}
===============================================================================
