SPECIFICATION TraceSpec
VIEW TraceView
CONSTRAINT HighWater
INVARIANTS Placement Produced Freshness Termination AccountingZero
POSTCONDITION TraceAccepted
CHECK_DEADLOCK FALSE
