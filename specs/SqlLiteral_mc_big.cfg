INIT Init
NEXT Next
CONSTANTS
  Alphabet = {"q", "b", "n", "0", "x", "N", "d", "k", "w", "Z", "L", "C", "M"}
  MaxLen = 5
  Alphabet2 = {}
  MaxLen2 = 0
  EscMap <- RepoEscMap
INVARIANTS RoundTrip NeverEscapes
CHECK_DEADLOCK FALSE
