SPECIFICATION FairSpec
CONSTANTS
  NChunks = 2
  CS = 2
  NGets = 3
  Ranges <- WholeChunkRanges
  Plays <- NoPlay
  Forces <- NoForce
  MaxInv = 1
  MaxTrim = 1
  MaxFail = 1
  Age <- AllOld
  FixAwait = TRUE
  FixPublish = TRUE
  FixInvMax = FALSE
  SeqInv = TRUE
  MaxOps = 0
VIEW View
INVARIANTS TypeOK
PROPERTIES AllReturn
CHECK_DEADLOCK FALSE
