INIT Init
NEXT Next
CONSTANTS
  Magic = 7
  OtherMagic = 8
  Half = 100
  Max = 200
  SizeAlts = {0, 1, 2, 3, 5, 200, 201}
  ItemSizes = {1, 2, 3}
  MaxItems = 8
  MaxOpens = 8
  MaxDamage = 2
  MaxOps = 40
INVARIANTS PrefixOfSaved NoDamagedItem ExactReload WriterPosition CommittedInFile NoEmptyChunk ExportAt30
CHECK_DEADLOCK FALSE
