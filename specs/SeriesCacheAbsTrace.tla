------------------------- MODULE SeriesCacheAbsTrace -------------------------
(* I->S, layer 1: validates the boundary events recorded from the real cache2
   (harness internal/api/verif_c23_*_test.go; one global emitter, Begin logged before the call,
   End after it returned, LoadBegin/LoadEnd inside the loader stub) against SeriesCacheAbs.
   The trace fixes every argument, so validation is linear; the property invariants are
   evaluated after every event.  Several runs (cache instances) are concatenated, each starting
   with Reset.  Note events (limits, trims, resets of the cache, gates of the driver) carry no
   obligation: the cache may drop data at any time.                                         *)
EXTENDS SeriesCacheAbs
VARIABLE l
Trace == ndJsonDeserialize("trace.ndjson")
ASSUME TLCSet(7, 0)

tvars == <<avars, l>>
E == Trace[l]
IsEvent(e) == l <= Len(Trace) /\ Trace[l].ev = e /\ l' = l + 1

TrInit == AInit /\ l = 1

TrReset == /\ IsEvent("Reset")
           /\ aLoads' = <<>> /\ aFin' = {} /\ aInv' = <<>> /\ aDead' = <<>> /\ aGets' = <<>>
           /\ aRet' = NoRet /\ aQui' = {} /\ aEmp' = NoEmp
TrNote      == IsEvent("Note") /\ UNCHANGED avars
TrGetBegin  == IsEvent("GetBegin")  /\ AGetBegin(E.g, E.k, E.play, E.slots)
TrGetEnd    == IsEvent("GetEnd")    /\ AGetEnd(E.g, E.ok, E.rows)
TrLoadBegin == IsEvent("LoadBegin") /\ ALoadBegin(E.l, E.k, E.slots)
TrLoadEnd   == IsEvent("LoadEnd")   /\ ALoadEnd(E.l, E.ok, E.cnt)
TrInvBegin  == IsEvent("InvBegin")  /\ AInvBegin(E.i, SeqSet(E.slots))
TrInvEnd    == IsEvent("InvEnd")    /\ AInvEnd(E.i)
TrQuiesce   == IsEvent("Quiesce")   /\ AQuiesce
TrEmptied   == IsEvent("Emptied")   /\ AEmptied([size |-> E.size, chunks |-> E.chunks, len |-> E.len, buckets |-> E.buckets])

TrNext == \/ TrReset \/ TrNote \/ TrGetBegin \/ TrGetEnd \/ TrLoadBegin \/ TrLoadEnd
          \/ TrInvBegin \/ TrInvEnd \/ TrQuiesce \/ TrEmptied
TraceSpec == TrInit /\ [][TrNext]_tvars

HighWater == TLCSet(7, IF l > TLCGet(7) THEN l ELSE TLCGet(7))
TraceAccepted == IF TLCGet(7) = Len(Trace) + 1 THEN TRUE
                 ELSE PrintT(<<"TRACE_REJECTED_AT_LINE", TLCGet(7)>>) /\ FALSE
TraceView == <<l>>
===============================================================================
