------------------------------ MODULE TablePaging ------------------------------
(* What the relation of TableRelation.tla is for: a client pages through a table by sending
   the marker of the last row it received as the next from-marker (GetTableResp.ToRow ->
   from_row), until has-more is false.  If every page conforms to the relation, the pages
   partition the requested window: every row exactly once, in order, and the walk ends.

   One behaviour = one walk; a page is SpecOut of the relation (the only conforming output).
   The walks are exported and replayed on the real getTableFromLODs (driver
   TestVerifC25Paging), where the next marker is taken from the real row (rowRepr). *)
EXTENDS TableRelation, TLC, Json

CONSTANTS Keys, Width, Limits, Markers, Export

VARIABLES q,      \* the query: [st, w, to, desc, limit]  (never changes)
          from,   \* the marker the next page is requested from
          acc,    \* keys received so far
          pages,  \* the pages so far: sequence of [from, keys, more]
          done

vars == <<q, from, acc, pages, done>>
NW == Len(Width)
Req == [lods |-> <<>>, st |-> q.st, w |-> q.w, from |-> from, to |-> q.to, desc |-> q.desc, limit |-> q.limit]
Whole == [lods |-> <<>>, st |-> q.st, w |-> q.w, from |-> NoMarker, to |-> q.to, desc |-> q.desc, limit |-> q.limit]

Init == /\ q \in [st : [1..NW -> SUBSET Keys], w : {Width}, to : Markers \cup {NoMarker},
                  desc : BOOLEAN, limit : Limits]
        /\ from = NoMarker /\ acc = <<>> /\ pages = <<>> /\ done = FALSE

NextPage == /\ ~done
        /\ LET o  == SpecOut(Req)
               ks == [i \in DOMAIN o.rows |-> o.rows[i].k]
               ps == Append(pages, [from |-> from, keys |-> ks, more |-> o.more])
           IN /\ acc' = acc \o ks
              /\ pages' = ps
              /\ done' = ~o.more
              /\ from' = IF o.more THEN ks[Len(ks)] ELSE from
              /\ (Export /\ ~o.more) =>
                    PrintT(<<"BEH", ToJson([st |-> [w \in 1..NW |-> SortSeq(q.st[w], FALSE)], to |-> q.to,
                                            desc |-> q.desc, limit |-> q.limit, pages |-> ps])>>)
        /\ UNCHANGED q

Spec == Init /\ [][NextPage]_vars /\ WF_vars(NextPage)
SpecSafety == Init /\ [][NextPage]_vars    \* for the export run (ENABLED would print walks again)

\* every page conforms (SpecOut is a conforming output)
ConformsSpecOut == Conforms(Req, SpecOut(Req))
\* no row twice, rows in order across pages
InOrder == \A i \in 1..(Len(acc) - 1) : Before(acc[i], acc[i + 1], q.desc)
\* nothing outside the window, and at the end nothing missing
Inside == \A i \in DOMAIN acc : acc[i] \in WindowKeys(Whole)
Complete == done => {acc[i] : i \in DOMAIN acc} = WindowKeys(Whole)
\* a page that announces more rows is full, so the walk makes progress
FullPages == \A i \in DOMAIN pages : pages[i].more => Len(pages[i].keys) = q.limit
Terminates == <>done
===============================================================================
