---------------------------- MODULE DiskCacheMC ----------------------------
(* Bounded instances of DiskCache.  HeaderSize/MagicLen/MagicCommon/RotateSize are the code's
   constants (checks/C09.py compares them with the values the Go harness reads from the
   package); the *_mc configurations shrink RotateSize so that rotation by size happens with
   tiny bodies. *)
EXTENDS DiskCache
MCShards1 == {0}
MCShards2 == {0, 1}
MCShards3 == {0, 1, 2}
AllKs   == 0..23          \* every byte of a put of <= 3 body bytes, every byte of an erase
ReprKs  == {0, 1, 2, 3, 4, 19, 20, 22, 23}
SimKs   == {0, 1, 2, 3, 4, 7, 19, 20, 21, 25, 29, 30, 119, 120}
NoWrong == {FALSE}
AnyWrong == {FALSE, TRUE}
BigLens == {17825792}     \* 17 MiB: three of them pass the real 50 MiB rotation threshold
BigKs   == {0, 3, 20, 17825811, 17825812}
===============================================================================
