\* Random long behaviours (tlc -simulate) over the large alphabets; the check rewrites the
\* budget constants, the clock origin and the family switches per run.
INIT Init
NEXT Next
CONSTANTS
  Names <- NamesSim
  NsOf <- MCNsOf
  CreateTypes <- TypesAll
  MismatchTypes = {0, 1}
  TMetric = 0
  TGroup = 2
  TNs = 4
  PredefIds <- Predef2
  Payloads <- Pay3
  RacePayloads <- RacePay
  RaceNames = {"a", "n:b"}
  Keys <- K9
  MetricSeq <- M3
  PutArgs <- PutsSim
  BootSets <- BootM
  ResetLimits = {0, 1, 3, 20000}
  MaxBudget = 3
  StepSec = 10
  BudgetBonus = 1
  GlobalBudget = 2
  MaxResetLimit = 10000
  U32Q = 429496729
  U32R = 6
  Ticks = {1, 9, 10, 35}
  Clock0 = 1003
  MaxOps = 1000
  MaxSnaps = 3
  MaxClock = 100000
  ExportFrom = 0
  WithPost = TRUE
  Bugs = {}
ACTION_CONSTRAINT Export
CHECK_DEADLOCK FALSE
