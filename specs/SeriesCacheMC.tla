---------------------------- MODULE SeriesCacheMC ----------------------------
EXTENDS SeriesCache
(* all sub-intervals of the slots *)
AllRanges == {<<a, b>> : a \in 1..(NChunks * CS), b \in 1..(NChunks * CS)} \cap {r \in (1..(NChunks * CS)) \X (1..(NChunks * CS)) : r[1] <= r[2]}
(* one representative per combination of (first chunk, last chunk, partial at the left, partial at the right) *)
EdgeRanges == {r \in AllRanges : r[1] \in {(PosOf(r[1]) - 1) * CS + 1, PosOf(r[1]) * CS} /\ r[2] \in {(PosOf(r[2]) - 1) * CS + 1, PosOf(r[2]) * CS}}
WholeChunkRanges == {r \in AllRanges : r[1] = (PosOf(r[1]) - 1) * CS + 1 /\ r[2] = PosOf(r[2]) * CS}
(* the ranges that make a gap chunk: a single chunk in the middle, everything, one side *)
GapRanges == {<<2, 2>>, <<1, 3>>, <<1, 1>>}
AllOld == [p \in Poss |-> "old"]
LastOpen == [p \in Poss |-> IF p = NChunks THEN "open" ELSE "old"]
LastLinger == [p \in Poss |-> IF p = NChunks THEN "linger" ELSE "old"]
NoPlay == {0}
PlayMix == {0, 1}
NoForce == {FALSE}
ForceMix == {FALSE, TRUE}
===============================================================================
