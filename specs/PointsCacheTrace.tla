--------------------------- MODULE PointsCacheTrace ---------------------------
(* I->S: validates traces recorded from the real pointsCache (harness
   internal/api/verif_c24_test.go) against PointsCache.  The cache's own decisions (hit or
   load, which keys it evicted) are taken from the trace; the spec reconstructs the abstract
   state and evaluates the property invariants in every step.  Several runs are concatenated,
   each starting with a Reset event. *)
EXTENDS PointsCache
VARIABLE l
Trace == ndJsonDeserialize("trace.ndjson")
ASSUME TLCSet(7, 0)

tvars == <<vars, l>>
IsEvent(e) == l <= Len(Trace) /\ Trace[l].ev = e /\ l' = l + 1
ToSet(s) == {s[i] : i \in 1..Len(s)}

TrInit == Init /\ l = 1

TrReset == /\ IsEvent("Reset")
           /\ now' = Trace[l].now
           /\ lv' = << <<>>, <<>>, <<>> >> /\ ghost' = <<>> /\ cache' = <<>> /\ meta' = <<>>
           /\ size' = 0 /\ gen' = 0 /\ pending' = <<>> /\ served' = NoServed /\ hist' = hist

TrTick == /\ IsEvent("Tick")
          /\ TickCore(Trace[l].d)
          /\ now' = Trace[l].now
          /\ hist' = hist

TrInval == /\ IsEvent("Inval")
           /\ Trace[l].now = now
           /\ InvalidateCore(ToSet(Trace[l].secs))
           /\ hist' = hist

TrGet == /\ IsEvent("Get")
         /\ Trace[l].now = now
         /\ LET e == Trace[l]
                r == [f |-> e.f, t |-> e.t]
            IN /\ Present(e.k, r) = e.present
               /\ GetCore(e.k, r, e.hit)
               /\ served'.gen = e.gen
         /\ hist' = hist

TrStore == /\ IsEvent("Store")
           /\ GetStore(ToSet(Trace[l].evicted))
           /\ ActualSize' = Trace[l].actual
           /\ Cardinality(DOMAIN cache') = Trace[l].nkeys
           /\ hist' = hist

TrNext == TrReset \/ TrTick \/ TrInval \/ TrGet \/ TrStore
TraceSpec == TrInit /\ [][TrNext]_tvars

HighWater == TLCSet(7, IF l > TLCGet(7) THEN l ELSE TLCGet(7))
TraceAccepted == IF TLCGet(7) = Len(Trace) + 1 THEN TRUE
                 ELSE PrintT(<<"TRACE_REJECTED_AT_LINE", TLCGet(7)>>) /\ FALSE
TraceView == <<View, l>>
TrFrom == -172800
===============================================================================
