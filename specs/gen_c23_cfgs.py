"""Generates the TLC configurations of C23 (SeriesCache*.cfg, SeriesCacheMem*.cfg): python3 gen_c23_cfgs.py [dir]"""
import sys
def cfg(name, NChunks, CS, NGets, Ranges, Plays="NoPlay", Forces="NoForce", MaxInv=1, MaxTrim=0, MaxFail=0, Age="AllOld",
        FixAwait="TRUE", FixPublish="TRUE", FixInvMax="FALSE", SeqInv="TRUE", MaxOps=0, AnyTakesAwaiters="FALSE", inv=None, props=None, spec=None, extra=""):
    inv = inv or "TypeOK Placement Produced Freshness NoDoubleSend NoLostWakeup AwaitersServed Accounting LoadingCount"
    head = "SPECIFICATION %s\n" % spec if spec else "INIT Init\nNEXT Next\n"
    s = head + """CONSTANTS
  NChunks = %s
  CS = %s
  NGets = %s
  Ranges <- %s
  Plays <- %s
  Forces <- %s
  MaxInv = %s
  MaxTrim = %s
  MaxFail = %s
  Age <- %s
  FixAwait = %s
  FixPublish = %s
  FixInvMax = %s
  AnyTakesAwaiters = %s
  SeqInv = %s
  MaxOps = %s
VIEW View
""" % (NChunks, CS, NGets, Ranges, Plays, Forces, MaxInv, MaxTrim, MaxFail, Age, FixAwait, FixPublish, FixInvMax, AnyTakesAwaiters, SeqInv, MaxOps)
    if inv != "-": s += "INVARIANTS %s\n" % inv
    if props: s += "PROPERTIES %s\n" % props
    s += extra + "CHECK_DEADLOCK FALSE\n"
    open(name, "w").write(s)
out = sys.argv[1] if len(sys.argv) > 1 else "."
import os; os.chdir(out)
# exhaustive, repaired code: quick
cfg("SeriesCache_mc.cfg", 2, 2, 2, "AllRanges", MaxInv=1, MaxTrim=0, MaxFail=0)
cfg("SeriesCache_mc1.cfg", 1, 2, 2, "AllRanges", MaxInv=1, MaxTrim=1, MaxFail=1)
cfg("SeriesCache_mcp.cfg", 1, 1, 2, "AllRanges", Plays="PlayMix", Forces="ForceMix", MaxInv=1, MaxTrim=0, MaxFail=0)
cfg("SeriesCache_live.cfg", 2, 1, 2, "AllRanges", MaxInv=1, MaxTrim=0, MaxFail=1, spec="FairSpec", props="AllReturn", inv="TypeOK")
# thorough
cfg("SeriesCache_mc2_big.cfg", 2, 2, 2, "AllRanges", MaxInv=1, MaxTrim=1, MaxFail=1)
cfg("SeriesCache_mc1g3_big.cfg", 1, 2, 3, "AllRanges", MaxInv=1, MaxTrim=1, MaxFail=1)
cfg("SeriesCache_mc_big.cfg", 2, 2, 3, "WholeChunkRanges", MaxInv=1, MaxTrim=0, MaxFail=0)
cfg("SeriesCache_mc_gap_big.cfg", 3, 1, 3, "GapRanges", MaxInv=1, MaxTrim=0, MaxFail=0)
cfg("SeriesCache_mc_inv2_big.cfg", 1, 2, 3, "AllRanges", MaxInv=2, MaxTrim=0, MaxFail=0)
cfg("SeriesCache_mc_play_big.cfg", 1, 2, 2, "AllRanges", Plays="PlayMix", Forces="ForceMix", MaxInv=2, MaxTrim=0, MaxFail=1)
cfg("SeriesCache_mc_open_big.cfg", 2, 1, 2, "AllRanges", MaxInv=1, MaxTrim=1, MaxFail=1, Age="LastOpen")
cfg("SeriesCache_mc_linger_big.cfg", 2, 1, 2, "AllRanges", MaxInv=1, MaxTrim=1, MaxFail=1, Age="LastLinger")
cfg("SeriesCache_live_big.cfg", 2, 1, 2, "AllRanges", MaxInv=1, MaxTrim=1, MaxFail=1, spec="FairSpec", props="AllReturn", inv="TypeOK")
# the code before its repair: must fail (and export the schedule)
cfg("SeriesCache_orig_await.cfg", 1, 2, 2, "AllRanges", MaxInv=1, FixAwait="FALSE", FixPublish="FALSE", inv="CexExport")
cfg("SeriesCache_half_await.cfg", 1, 2, 3, "AllRanges", MaxInv=1, FixAwait="TRUE", FixPublish="FALSE", inv="CexExport")
cfg("SeriesCache_anyaw.cfg", 1, 2, 3, "WholeChunkRanges", MaxInv=1, AnyTakesAwaiters="TRUE", inv="CexExport")
cfg("SeriesCache_overlap_inv.cfg", 1, 2, 2, "AllRanges", MaxInv=2, SeqInv="FALSE", inv="CexExport")
# behaviours for the schedule driver (simulation)
cfg("SeriesCache_beh.cfg", 2, 2, 3, "AllRanges", MaxInv=1, MaxTrim=1, MaxFail=1, MaxOps=16, inv="-", extra="ACTION_CONSTRAINT Export\n")
cfg("SeriesCache_beh3.cfg", 3, 1, 4, "AllRanges", MaxInv=2, MaxTrim=1, MaxFail=1, MaxOps=20, inv="-", extra="ACTION_CONSTRAINT Export\n")


def mem(name, NReq, Hard, Soft, S0, D, NInc, Fix, props="AllDone", inv="TypeOK NoStuck"):
    open(name, "w").write("""SPECIFICATION Spec
CONSTANTS
  NReq = %s
  Hard = %s
  Soft = %s
  S0 = %s
  D = %s
  NInc = %s
  FixWake = %s
INVARIANTS %s
PROPERTIES %s
CHECK_DEADLOCK FALSE
""" % (NReq, Hard, Soft, S0, D, NInc, Fix, inv, props))
mem("SeriesCacheMem_mc.cfg", 2, 3, 2, 1, 2, 1, "TRUE")
mem("SeriesCacheMem_mc2.cfg", 3, 3, 2, 2, 1, 2, "TRUE")
mem("SeriesCacheMem_mc3_big.cfg", 3, 4, 2, 1, 2, 2, "TRUE")
mem("SeriesCacheMem_mc4_big.cfg", 3, 2, 1, 0, 1, 2, "TRUE")
mem("SeriesCacheMem_nolimit_big.cfg", 2, 0, 0, 2, 1, 2, "TRUE")
mem("SeriesCacheMem_orig.cfg", 2, 3, 2, 1, 2, 1, "FALSE")
mem("SeriesCacheMem_orig2.cfg", 3, 3, 2, 2, 1, 2, "FALSE", inv="TypeOK")


def shard(name, NB, N0, MaxInv, MaxTrimWalks, MaxEvict, MaxReset, UnlinkFirst, inv="ListOK CursorsOK InvReachesAll InvOwesAhead"):
    open(name, "w").write("""SPECIFICATION Spec
CONSTANTS
  NB = %s
  N0 = %s
  MaxInv = %s
  MaxTrimWalks = %s
  MaxEvict = %s
  MaxReset = %s
  UnlinkFirst = %s
INVARIANTS %s
CHECK_DEADLOCK FALSE
""" % (NB, N0, MaxInv, MaxTrimWalks, MaxEvict, MaxReset, UnlinkFirst, inv))
shard("SeriesCacheShard_mc.cfg", 4, 3, 1, 1, 1, 1, "FALSE")
shard("SeriesCacheShard_seed.cfg", 4, 3, 1, 1, 1, 1, "TRUE", inv="ListOK InvReachesAll")
shard("SeriesCacheShard_mc_big.cfg", 6, 4, 2, 2, 2, 1, "FALSE")
