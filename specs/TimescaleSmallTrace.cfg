SPECIFICATION SmSpec
CONSTANTS
  Resolutions <- MCResolutions
  Month = 999
  Limit = 8192
  Week = 15
  LevelRel <- MCLevelRel
  LevelSteps <- MCLevelSteps
  MaxPts = 7680
  Starts = {}
  Durs = {}
  StepsAsked = {}
  Nows = {}
  Widths = {}
  Utcs = {}
  MetricRes = {}
  Offs = {}
CONSTRAINT Report
CHECK_DEADLOCK FALSE
