------------------------------ MODULE RoutingMC ------------------------------
(* The grid of C10: boundary values of every argument the routing functions read. *)
EXTENDS Routing
\* both signs (builtin metrics are negative), multiples and neighbours of every count 1..6, extremes
MCIds == {0, 1, 2, 5, 6, 7, 11, 12, 60, 1000123, 2147483647, -1, -2, -5, -6, -7, -12, -1000, -2147483647}
MCIdsSmall == {0, 2, 7, 12, 2147483647, -1, -6, -7, -2147483647}
\* both sides of every bucket edge k * 2^32 / n for n in 1..6, extremes, one arbitrary value
MCHashes == { <<0, 0>>, <<0, 1>>, <<65535, 65534>>, <<65535, 65535>>,
              <<32767, 65535>>, <<32768, 0>>,
              <<21845, 21845>>, <<21845, 21846>>, <<43690, 43690>>, <<43690, 43691>>,
              <<16383, 65535>>, <<16384, 0>>, <<49151, 65535>>, <<49152, 0>>,
              <<13107, 13107>>, <<13107, 13108>>, <<26214, 26214>>, <<26214, 26215>>,
              <<39321, 39321>>, <<39321, 39322>>, <<52428, 52428>>, <<52428, 52429>>,
              <<10922, 43690>>, <<10922, 43691>>, <<54613, 21845>>, <<54613, 21846>>,
              <<12345, 6789>> }
MCHashesSmall == { <<0, 0>>, <<65535, 65535>>, <<32767, 65535>>, <<32768, 0>>, <<21845, 21845>>, <<21845, 21846>>,
                   <<10922, 43690>>, <<10922, 43691>>, <<12345, 6789>> }
MCKeyTimes == <<0, 1, 1700000001, 1700000005, 2147483647>>
\* two periods of the rotation at 0 and at a realistic clock value
MCTimes == (0..11) \cup (1700000000..1700000011)
MCTimesSmall == (0..5) \cup (1700000000..1700000005)
MCOlds == 100..105
MCOldsSmall == 100..102
MCLens == {7, 8, 9}       \* ShortWindow 3..5 + FutureWindow 4
MCLensSmall == {7, 9}
MCHWs == {0, 2, 6, 200}    \* 200: window reaches before the epoch (the code's oldest >= hw guard)
MCHWsSmall == {2, 200}
===============================================================================
