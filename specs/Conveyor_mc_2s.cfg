INIT MCInit
NEXT MCNext
CONSTANTS
  Secs = {1, 2}
  Insts = {"a1", "a2", "a3", "b2"}
  RepOf <- MCRepOf
  SW = 2
  FW = 1
  HW = 6
  MaxT = 9
  MaxFaults = 1
  NIns = 1
VIEW MCView
CONSTRAINT StillInteresting
INVARIANTS TypeOK ForgetOnlyAfterAck AckOnlyAfterInsertOrReject NoSilentLoss NeverSilentlyLost ForeignBucketsEmpty FiledWithinTwo
CHECK_DEADLOCK FALSE
