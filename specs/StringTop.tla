------------------------------- MODULE StringTop -------------------------------
(* String-top rows of statshouse (property C07): data_model.MultiItem = a map Top from
   string-top value to MultiValue plus the 'other' Tail.

   Transcribed from internal/data_model/bucket.go (one action per function / loop round):
     Map      MultiItem.MapStringTop / MapStringTopBytes (lookup, probabilistic routing of a new
              value to the tail once sampleFactorLog2 > 0, wait for a free slot) followed by the
              caller's Add (agent.Shard.ApplyCounter/AddValueCounterHost…, MergeWithTLMultiItem)
     Resample MultiItem.resample: one round of the `for len(s.Top) >= capacity` loop; the entries
              folded are a NONDETERMINISTIC choice among those the RNG can fold
     Place    end of that loop: the new value gets its slot and the caller adds the event
     Finish   MultiItem.FinishStringTop(capacity): sort by count, fold everything behind the
              first `capacity` entries into the tail (ties: any order, sort.Slice is not stable)
   The property is stated separately on the ghost variable `all` (aggregate of every event
   written) and on `fin` (what the last Finish folded): Conservation, FinishBound,
   FinishHeaviest.

   Numbers: counts and values are integers (every float operation of the code is exact on
   them), so merging into the tail is commutative and the order in which Go iterates the map
   does not matter.                                                                         *)
EXTENDS Integers, Sequences, FiniteSets, TLC, Json

CONSTANTS Values,      \* string-top values (non-empty tags); 0 is the empty tag (-> Tail)
          Counts,      \* event counts (positive)
          Xs,          \* event values
          Kinds,       \* subset of {"C", "V"}: counter event / value event
          Caps,        \* capacities MapStringTop is called with (fixed per row; < 1 means DefaultCap)
          DefaultCap,  \* DefaultStringTopCapacity (100 in the code)
          FinCaps,     \* capacities FinishStringTop may be called with (negative -> 0)
          MaxOps,      \* bound on the number of events (model checking only)
          MaxLog2,     \* bound on sampleFactorLog2 (model checking only)
          Bug,         \* "none"; "drop" / "light" / "cap" break the mechanism on purpose (non-vacuity runs)
          WordBits     \* 0: the sample factor 2^sampleFactorLog2 is computed without overflow (the code as
                       \* repaired: math.Ldexp); n > 0: `1 << sampleFactorLog2` in an n-bit signed int as the
                       \* code did originally (n = 64 there; small n shows the same wrap-around in the model)

VARIABLES cap,    \* capacity argument used for this row
          top,    \* s.Top:  value -> aggregate
          tail,   \* s.Tail
          sfl,    \* s.sampleFactorLog2
          pend,   \* <<>> or <<[v, e, top0, sfl0]>>: a new value waiting in the resample loop
          all,    \* ghost: aggregate of all events written so far
          fin,    \* ghost: outcome of FinishStringTop
          nops,
          hist

vars == <<cap, top, tail, sfl, pend, all, fin, nops, hist>>
View == <<cap, top, tail, sfl, pend, all, fin, nops>>

NoTag == 0
Pow2(n) == 2 ^ n
(* sf := 1 << sampleFactorLog2.  In an n-bit int the shift gives 2^(n-1) negated for s = n-1 and 0 beyond. *)
Sf(s) == IF WordBits = 0 \/ s < WordBits - 1 THEN Pow2(s)
         ELSE IF s = WordBits - 1 THEN 0 - Pow2(s) ELSE 0
Max2(a, b) == IF a > b THEN a ELSE b

-------------------------------------------------------------------------------
(* aggregates: ItemValue without hosts *)
Agg0 == [cnt |-> 0, set |-> FALSE, sum |-> 0, sq |-> 0, min |-> 0, max |-> 0]

(* the caller's Add after MapStringTop: AddCounterHost ("C") / AddValueCounterHost ("V") *)
AddEvent(a, e) ==
    IF e.c <= 0 THEN a        \* AddCounterHost ignores count <= 0; callers never pass it
    ELSE IF e.kind = "C" THEN [a EXCEPT !.cnt = @ + e.c]
    ELSE [a EXCEPT !.cnt = @ + e.c, !.sum = @ + e.x * e.c, !.sq = @ + e.x * e.x * e.c,
                   !.min = IF ~a.set \/ e.x < a.min THEN e.x ELSE @,
                   !.max = IF ~a.set \/ e.x > a.max THEN e.x ELSE @,
                   !.set = TRUE]

(* MultiValue.Merge -> ItemValue.Merge (ItemCounter.Merge ignores counter <= 0) *)
AggMerge(a, b) ==
    LET a1 == IF b.cnt <= 0 THEN a ELSE [a EXCEPT !.cnt = @ + b.cnt]
    IN IF ~b.set THEN a1
       ELSE [a1 EXCEPT !.sum = @ + b.sum, !.sq = @ + b.sq,
                       !.min = IF ~a.set \/ b.min < a.min THEN b.min ELSE @,
                       !.max = IF ~a.set \/ b.max > a.max THEN b.max ELSE @,
                       !.set = TRUE]

RECURSIVE MergeAll(_, _, _)     \* merge the entries m[k], k \in S, into a (order irrelevant on integers)
MergeAll(a, m, S) == IF S = {} THEN a
                     ELSE LET k == CHOOSE x \in S : TRUE IN MergeAll(AggMerge(a, m[k]), m, S \ {k})

Restrict(m, S) == [k \in S |-> m[k]]
Total(t, tl) == MergeAll(tl, t, DOMAIN t)          \* what the row holds: top + tail

(* the observable part of an aggregate: min/max/sum mean nothing while no value was set *)
Obs(a) == IF a.set THEN a ELSE [Agg0 EXCEPT !.cnt = a.cnt]

EffCap(c) == IF c < 1 THEN DefaultCap ELSE c

-------------------------------------------------------------------------------
NoFin == [done |-> FALSE, cap |-> 0, folded |-> {}, whale |-> 0]

Init == /\ cap \in Caps
        /\ top = <<>> /\ tail = Agg0 /\ sfl = 0 /\ pend = <<>>
        /\ all = Agg0 /\ fin = NoFin /\ nops = 0
        /\ hist = << [a |-> "Reset", cap |-> cap] >>

(* rng.Float64()*sf >= count  with rng.Float64() in [0,1): possible iff count < sf;
   the opposite outcome is possible iff count > 0 *)
CanRouteTail(c, s) == s # 0 /\ c < Sf(s)
CanRouteTop(c, s)  == s = 0 \/ c > 0

(* MapStringTop + Add.  `route` is the RNG's decision for a value not in Top. *)
MapCore(v, e, route) ==
    /\ pend = <<>> /\ ~fin.done
    /\ IF v = NoTag
       THEN /\ tail' = AddEvent(tail, e) /\ all' = AddEvent(all, e)
            /\ UNCHANGED <<top, sfl, pend>>
       ELSE IF v \in DOMAIN top
       THEN /\ top' = [top EXCEPT ![v] = AddEvent(@, e)] /\ all' = AddEvent(all, e)
            /\ UNCHANGED <<tail, sfl, pend>>
       ELSE IF route = "tail"
       THEN /\ CanRouteTail(e.c, sfl)
            /\ tail' = AddEvent(tail, e) /\ all' = AddEvent(all, e)
            /\ UNCHANGED <<top, sfl, pend>>
       ELSE /\ CanRouteTop(e.c, sfl)
            /\ IF Cardinality(DOMAIN top) < EffCap(cap)
               THEN /\ top' = top @@ (v :> AddEvent(Agg0, e)) /\ all' = AddEvent(all, e)
                    /\ UNCHANGED <<tail, sfl, pend>>
               ELSE /\ pend' = << [v |-> v, e |-> e, top0 |-> top, tail0 |-> tail, sfl0 |-> sfl] >>
                    /\ UNCHANGED <<top, tail, sfl, all>>
    /\ UNCHANGED <<cap, fin>>

(* resample: sampleFactorLog2++; an entry with Count() >= sf stays; otherwise rv = rng.Intn(sf)
   and it stays iff Count() > rv.  rv ranges over 0..sf-1, hence: *)
MayFold(c, s)  == c < Sf(s) /\ c <= Sf(s) - 1     \* not skipped by `Count() >= sf`, and some rv folds it
MustFold(c, s) == c < Sf(s) /\ c <= 0             \* every rv folds it

ResampleCore(F) ==
    /\ pend # <<>> /\ Cardinality(DOMAIN top) >= EffCap(cap)
    /\ sfl < MaxLog2
    /\ F \subseteq {k \in DOMAIN top : MayFold(top[k].cnt, sfl + 1)}
    /\ {k \in DOMAIN top : MustFold(top[k].cnt, sfl + 1)} \subseteq F
    /\ sfl' = sfl + 1
    /\ tail' = IF Bug = "drop" THEN tail ELSE MergeAll(tail, top, F)
    /\ top' = Restrict(top, DOMAIN top \ F)
    /\ UNCHANGED <<cap, pend, all, fin>>

PlaceCore ==
    /\ pend # <<>> /\ Cardinality(DOMAIN top) < EffCap(cap)
    /\ top' = top @@ (pend[1].v :> AddEvent(Agg0, pend[1].e))
    /\ all' = AddEvent(all, pend[1].e)
    /\ pend' = <<>>
    /\ UNCHANGED <<cap, tail, sfl, fin>>

(* FinishStringTop(c): `ord` is the slice after sort.Slice by descending Count() *)
SortedDesc(ord) == \A i, j \in DOMAIN ord : i < j => IF Bug = "light" THEN top[ord[i]].cnt <= top[ord[j]].cnt
                                                             ELSE top[ord[i]].cnt >= top[ord[j]].cnt
Perms(S) == {f \in [1..Cardinality(S) -> S] : \A i, j \in 1..Cardinality(S) : i # j => f[i] # f[j]}

FinishCore(c, ord) ==
    /\ pend = <<>> /\ ~fin.done
    /\ ord \in Perms(DOMAIN top) /\ SortedDesc(ord)
    /\ LET whale == Total(top, tail).cnt
           c0 == IF c < 0 THEN 0 ELSE c
           F  == {ord[i] : i \in {j \in DOMAIN ord : j > (IF Bug = "cap" THEN c0 + 1 ELSE c0)}}
       IN /\ tail' = MergeAll(tail, top, F)
          /\ top' = Restrict(top, DOMAIN top \ F)
          /\ fin' = [done |-> TRUE, cap |-> c, folded |-> {top[k].cnt : k \in F}, whale |-> whale]
    /\ UNCHANGED <<cap, sfl, pend, all>>

-------------------------------------------------------------------------------
ProjAgg(a) == Obs(a)
ProjTop(t) == {[v |-> k] @@ ProjAgg(t[k]) : k \in DOMAIN t}
Post == [top |-> ProjTop(top'), tail |-> ProjAgg(tail'), sfl |-> sfl']

Events == {[kind |-> k, c |-> c, x |-> IF k = "C" THEN 0 ELSE x] : k \in Kinds, c \in Counts, x \in Xs}

Map(v, e, route) == /\ nops < MaxOps /\ MapCore(v, e, route) /\ nops' = nops + 1
                    /\ hist' = Append(hist, [a |-> "Map", v |-> v, kind |-> e.kind, c |-> e.c, x |-> e.x])
Resample(F) == ResampleCore(F) /\ UNCHANGED <<nops, hist>>
Place == PlaceCore /\ UNCHANGED <<nops, hist>>
Finish(c, ord) == /\ FinishCore(c, ord) /\ UNCHANGED nops
                  /\ hist' = Append(hist, [a |-> "Finish", cap |-> c])

Next == \/ \E v \in Values \cup {NoTag}, e \in Events, r \in {"top", "tail"} :
             /\ (r = "tail" => v # NoTag /\ v \notin DOMAIN top)      \* avoid duplicate transitions
             /\ Map(v, e, r)
        \/ \E F \in SUBSET DOMAIN top : Resample(F)
        \/ Place
        \/ \E c \in FinCaps : \E ord \in Perms(DOMAIN top) : Finish(c, ord)

Spec == Init /\ [][Next]_vars

-------------------------------------------------------------------------------
(* THE PROPERTY *)

(* counts, sums, mins and maxes over top + tail equal those of all events written, in every
   state (also between the rounds of the resample loop and after finalisation) *)
Conservation == Obs(Total(top, tail)) = Obs(all)

(* after finalisation at most the configured number of top values remain ... *)
FinishBound == fin.done => Cardinality(DOMAIN top) <= Max2(fin.cap, 0)
(* ... and every retained value is at least as heavy as every value folded into the tail *)
FinishHeaviest == fin.done => \A k \in DOMAIN top : \A w \in fin.folded : top[k].cnt >= w

(* Mechanism facts the code relies on (model checking only; not demanded from the code). *)
CapacityRespected == Cardinality(DOMAIN top) <= EffCap(cap)
TopNonEmpty == \A k \in DOMAIN top : top[k].cnt > 0        \* insertItem's "must be never" check
WhaleIsTotal == fin.done => fin.whale = all.cnt
TypeOK == /\ sfl \in 0..MaxLog2 /\ NoTag \notin DOMAIN top /\ Len(pend) <= 1
(* MapStringTop returns: while a value waits for a slot, some later round can still fold something.
   (With `1 << sampleFactorLog2` in a machine int the factor wraps to <= 0 and entries whose count
   reached 2^(bits-2) can never be folded: the loop `for len(s.Top) >= capacity` spins forever.) *)
NeverStuck == pend # <<>> /\ Cardinality(DOMAIN top) >= EffCap(cap) =>
                 \E s \in sfl + 1 .. sfl + 40 : \E k \in DOMAIN top : MayFold(top[k].cnt, s)

-------------------------------------------------------------------------------
(* One whole MapStringTop+Add call as a relation between the states before and after it; the
   trace specification uses these because the real call is atomic.

   StepOK is what the property fixes: every retained value keeps exactly its own weight, the
   event lands in its value's entry or in the tail, and whatever left Top went into the tail. *)
StepOK(t0, tl0, v, e, t1, tl1) ==
    LET F == DOMAIN t0 \ DOMAIN t1 IN
    /\ DOMAIN t1 \subseteq DOMAIN t0 \cup {v} /\ NoTag \notin DOMAIN t1
    /\ \A k \in DOMAIN t1 : Obs(t1[k]) = Obs(IF k = v THEN AddEvent(IF k \in DOMAIN t0 THEN t0[k] ELSE Agg0, e)
                                               ELSE t0[k])
    /\ Obs(tl1) = Obs(IF v \in DOMAIN t1 THEN MergeAll(tl0, t0, F) ELSE AddEvent(MergeAll(tl0, t0, F), e))

(* MechOK is what the transcribed mechanism (Map, Resample*, Place) can do in one call: closed
   form, checked against the small-step actions by the invariant AtomicMatches. *)
MechOK(c, t0, s0, v, e, t1, s1) ==
    LET F == DOMAIN t0 \ DOMAIN t1 IN
    IF v = NoTag \/ v \in DOMAIN t0 THEN F = {} /\ s1 = s0
    ELSE IF v \notin DOMAIN t1 THEN F = {} /\ s1 = s0 /\ CanRouteTail(e.c, s0)
    ELSE /\ CanRouteTop(e.c, s0)
         /\ Cardinality(DOMAIN t1) <= EffCap(c)
         /\ IF Cardinality(DOMAIN t0) < EffCap(c) THEN F = {} /\ s1 = s0
            ELSE /\ s1 > s0 /\ F # {}
                 /\ \A k \in F : MayFold(t0[k].cnt, s1)
                 /\ \A k \in DOMAIN t0 \ F : ~MustFold(t0[k].cnt, s1)

(* evaluated in the state right after Place: pend was just cleared, so compare with hist *)
AtomicMatches ==
    pend # <<>> =>
      LET p == pend[1] IN
      Cardinality(DOMAIN top) < EffCap(cap) =>
        LET t1 == top @@ (p.v :> AddEvent(Agg0, p.e)) IN
        /\ MechOK(cap, p.top0, p.sfl0, p.v, p.e, t1, sfl)
        /\ StepOK(p.top0, p.tail0, p.v, p.e, t1, tail)

(* FinishStringTop as a relation (property level) *)
FinishOK(c, t0, tl0, t1, tl1) ==
    LET F == DOMAIN t0 \ DOMAIN t1 IN
    /\ DOMAIN t1 \subseteq DOMAIN t0
    /\ \A k \in DOMAIN t1 : Obs(t1[k]) = Obs(t0[k])
    /\ Obs(tl1) = Obs(MergeAll(tl0, t0, F))
    /\ Cardinality(DOMAIN t1) <= Max2(c, 0)
    /\ \A k \in DOMAIN t1 : \A f \in F : t0[k].cnt >= t0[f].cnt

-------------------------------------------------------------------------------
Export == PrintT(<<"BEH", ToJson(hist')>>)
===============================================================================
