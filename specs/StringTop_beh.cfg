INIT Init
NEXT Next
CONSTANTS
  Values = {1, 2, 3}
  Counts = {1, 5}
  Xs = {4}
  Kinds = {"V"}
  Caps = {1, 2}
  DefaultCap = 2
  FinCaps <- MCFinCapsSmall
  MaxOps = 4
  WordBits = 0
  Bug = "none"
  MaxLog2 = 6
VIEW View
ACTION_CONSTRAINT Export
CHECK_DEADLOCK FALSE
