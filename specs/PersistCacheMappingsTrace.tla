----------------------- MODULE PersistCacheMappingsTrace -----------------------
(* I->S: validates executions of the real MappingsCache (harness
   internal/pcache/verif_c21_mappings_test.go) against PersistCacheMappings.

   Every event carries the operation's arguments, what the code decided where the code is
   free (evicted keys, keys removed by a TTL pass - found by diffing c.cache white-box), what
   it returned, and the state observed afterwards (`post`: the map, sumSize, sumTS,
   version, lastSavedVersion, limits; for Save also `fdump`, what the written file loads to).

   Strict = TRUE: the observed state must be exactly what the transcribed operator yields for
   an allowed decision (mechanism conformance).  In both modes the specification state
   follows the OBSERVED state and the property invariants of PersistCacheMappings are
   evaluated on it in every step, so Strict = FALSE judges the execution by the property
   alone (used to tell a property violation from a mere change of mechanism).  Runs are
   concatenated, each starting with a Reset event. *)
EXTENDS PersistCacheMappings
CONSTANT Strict
VARIABLE l
Trace == ndJsonDeserialize("trace.ndjson")
ASSUME TLCSet(7, 0)

tvars == <<vars, l>>
IsEvent(e) == l <= Len(Trace) /\ Trace[l].ev = e /\ l' = l + 1
ToSet(s) == {s[i] : i \in 1..Len(s)}
ToFn(d) == [x \in {d[i].s : i \in 1..Len(d)} |->
              LET i == CHOOSE j \in 1..Len(d) : d[j].s = x IN [v |-> d[i].v, ts |-> d[i].ts]]
ObsM(p, f, d) == [cache |-> ToFn(p.cache), sumSize |-> p.sumSize, sumTS |-> p.sumTS, maxSize |-> p.maxSize,
                  ttl |-> p.ttl, version |-> p.version, saved |-> p.saved, file |-> f, dmg |-> d]
Pairs(ps) == [i \in 1..Len(ps) |-> [s |-> ps[i].s, v |-> ps[i].v]]

TrInit == Init /\ l = 1

TrReset == /\ IsEvent("Reset")
           /\ m' = EmptyM(Trace[l].maxSize, Trace[l].ttl, <<>>, FALSE)
           /\ offered' = <<>> /\ lastGet' = NoGet /\ lastAdd' = NoAdd /\ lastReload' = NoReload
           /\ savedKV' = <<>> /\ savedFull' = <<>> /\ hist' = hist

TrAdd == /\ IsEvent("Add")
         /\ LET e == Trace[l]
                ps == Pairs(e.pairs)
                E == ToSet(e.evicted)
                o == ObsM(e.post, m.file, m.dmg)
            IN /\ Strict => /\ IF NeedsEviction(m, ps)
                               THEN E \in AllowedVictims(m, e.now, SeqMem(Filtered(m, ps)))
                               ELSE E = {}
                            /\ AddF(m, e.now, ps, E) = o
               /\ m' = o
               /\ AddGhost(e.now, ps, o)
         /\ hist' = hist

TrGet == /\ IsEvent("Get")
         /\ LET e == Trace[l]
                o == ObsM(e.post, m.file, m.dmg)
            IN /\ Strict => \E refresh \in BOOLEAN :
                               LET r == GetF(m, e.ts, e.s, refresh) IN
                               r.ok = e.ok /\ (r.ok => r.v = e.v) /\ r.m = o
               /\ m' = o
               /\ GetGhost(e.s, e.ok, e.v)
         /\ hist' = hist

TrTtl == /\ IsEvent("Ttl")
         /\ LET e == Trace[l]
                R == ToSet(e.removed)
                o == ObsM(e.post, m.file, m.dmg)
            IN /\ Strict => R \in AllowedTtl(m, e.cnt, e.now) /\ TtlF(m, R) = o
               /\ m' = o
               /\ NoGhost
         /\ hist' = hist

TrSet == /\ IsEvent("Set")
         /\ LET e == Trace[l]
                o == ObsM(e.post, m.file, m.dmg)
            IN /\ Strict => SetF(m, e.ms, e.ttl) = o
               /\ m' = o
               /\ NoGhost
         /\ hist' = hist

TrSave == /\ IsEvent("Save")
          /\ LET e == Trace[l]
                 f == ToFn(e.fdump)
                 o == ObsM(e.post, f, IF e.ok THEN FALSE ELSE m.dmg)
                 r == SaveF(m)
             IN /\ Strict => r.ok = e.ok /\ r.m = o
                /\ m' = o
                /\ SaveGhost(e.ok, o)
          /\ hist' = hist

(* the harness created a new cache object from (a copy of) the file; e.dmg = it damaged the copy first *)
TrReload == /\ IsEvent("Reload")
            /\ LET e == Trace[l]
                   d == m.dmg \/ e.dmg
                   c == ToFn(e.post.cache)
                   o == ObsM(e.post, c, d)      \* the file now loads to what was just loaded
               IN /\ Strict => /\ DOMAIN c \subseteq DOMAIN m.file
                               /\ (~d => DOMAIN c = DOMAIN m.file)
                               /\ ReloadF([m EXCEPT !.dmg = d], DOMAIN c, e.post.maxSize, e.post.ttl) = o
                  /\ m' = o
                  /\ ReloadGhost(o, d)
            /\ hist' = hist

(* concurrent phase of the harness (getters racing with one modifier): no order of the individual
   operations is recorded.  Offer = pairs that are about to be added; GetC = a result some getter
   saw; Sync = the state after all goroutines were joined.  Only the property is judged: returned
   values were offered and are no markers, and the accounting of the joined state is exact. *)
TrOffer == /\ IsEvent("Offer")
           /\ offered' = Offer(offered, Pairs(Trace[l].pairs))
           /\ UNCHANGED <<m, lastGet, lastAdd, savedKV, savedFull, lastReload, hist>>
TrGetC == /\ IsEvent("GetC")
          /\ GetGhost(Trace[l].s, Trace[l].ok, Trace[l].v)
          /\ UNCHANGED <<m, hist>>
TrSync == /\ IsEvent("Sync")
          /\ m' = ObsM(Trace[l].post, m.file, m.dmg)
          /\ lastGet' = NoGet /\ lastAdd' = NoAdd
          /\ UNCHANGED <<offered, savedKV, savedFull, lastReload, hist>>

TrNext == TrReset \/ TrAdd \/ TrGet \/ TrTtl \/ TrSet \/ TrSave \/ TrReload \/ TrOffer \/ TrGetC \/ TrSync
TraceSpec == TrInit /\ [][TrNext]_tvars

HighWater == TLCSet(7, IF l > TLCGet(7) THEN l ELSE TLCGet(7))
TraceAccepted == IF TLCGet(7) = Len(Trace) + 1 THEN TRUE
                 ELSE PrintT(<<"TRACE_REJECTED_AT_LINE", TLCGet(7)>>) /\ FALSE
TraceView == <<View, l>>
===============================================================================
