-------------------------- MODULE PersistCacheMappings --------------------------
(* C21, second half: the agent's string -> int32 mapping cache
   (internal/pcache/mappings_cache.go) with its save file.

   The mechanism state is ONE record `m`
       cache      string -> [v, ts]        c.cache (value, accessTS)
       sumSize    c.sumSize                sumTS   c.sumTS
       maxSize    c.maxSize                ttl     c.maxTTL
       version    c.version                saved   c.lastSavedVersion
       file       string -> [v, ts]        what the save file holds (PersistCacheChunks shows
                                           that an undamaged chunk file loads to exactly what was
                                           written, and a damaged one to whole chunks of it)
       dmg        the file was damaged at rest
   and every public operation is an operator  XxxF(m, args, decision) -> new record, a
   transcription of the Go function.  `decision` is what the code leaves to chance: the
   victims of an eviction (Go map iteration order + unstable sort) and the entries a
   RemoveByTTL pass happens to visit.  AllowedVictims / AllowedTtl are the sets of decisions
   the code can take.  The model-checking actions (Add, Get, ...) quantify over them; the
   trace specification (PersistCacheMappingsTrace) takes them from the real execution.

   The property is stated on ghost state only (offered, lastGet, lastAdd, savedKV,
   lastReload) so that it does not depend on the mechanism.                              *)
EXTENDS Integers, Sequences, FiniteSets, TLC, Json

CONSTANTS Batches,     \* set of sequences of [s |-> string, v |-> int]: the AddValues arguments
          GetStrs,     \* strings looked up
          Nows,        \* timestamps (seconds) used as nowUnix / accessTS
          MaxSizes, TTLs, Counts,   \* SetSizeTTL / RemoveByTTL arguments
          CapDiv,      \* 1024 in the code: at most sumSize/1024 is freed when the limit was lowered
          TtlBumpsVersion,  \* TRUE = RemoveByTTL bumps c.version when it removed something (the repaired code)
          DedupBatch,       \* TRUE = a string repeated inside one batch is added once (the repaired code)
          MaxOps

VARIABLES m,
          offered,     \* ghost: string -> set of values ever passed to AddValues for it
          lastGet,     \* observation of the last GetValue
          lastAdd,     \* observation of the last AddValues: sumSize before/after, maxSize
          savedKV,     \* ghost: string -> value, the memory contents when Save last returned (or at load)
          savedFull,   \* ghost: cache (with access times) when Save last returned true (or at load)
          lastReload,  \* observation of the last reload
          hist

vars == <<m, offered, lastGet, lastAdd, savedKV, savedFull, lastReload, hist>>
View == <<m, offered, lastGet, lastAdd, savedKV, savedFull, lastReload>>

Markers == {0, -1, -2}       \* 0, format.TagValueIDMappingFlood, format.TagValueIDDoesNotExist
Size(s) == (Len(s) * 5) \div 4 + 32      \* elementSizeMem

Max2(a, b) == IF a > b THEN a ELSE b
Min2(a, b) == IF a < b THEN a ELSE b
Restrict(f, S) == [x \in S |-> f[x]]
KV(c) == [x \in DOMAIN c |-> c[x].v]
RECURSIVE SumSize(_)
SumSize(S) == IF S = {} THEN 0 ELSE LET x == CHOOSE y \in S : TRUE IN Size(x) + SumSize(S \ {x})
RECURSIVE SumTSOf(_, _)
SumTSOf(c, S) == IF S = {} THEN 0 ELSE LET x == CHOOSE y \in S : TRUE IN c[x].ts + SumTSOf(c, S \ {x})
SumTS(c) == SumTSOf(c, DOMAIN c)

Expired(its, now, ttl) == ttl > 0 /\ its + ttl < now      \* expiredTTLLocked

EmptyM(ms, ttl, f, d) == [cache |-> <<>>, sumSize |-> 0, sumTS |-> 0, maxSize |-> ms, ttl |-> ttl,
                          version |-> 0, saved |-> 0, file |-> f, dmg |-> d]

-------------------------------------------------------------------------------
(* GetValue(accessTS, str).  refresh = FALSE: TryLock failed (an update is running) *)
GetF(st, ts, s, refresh) ==
    IF s \notin DOMAIN st.cache THEN [m |-> st, ok |-> FALSE, v |-> 0]
    ELSE IF st.cache[s].ts >= ts \/ ~refresh THEN [m |-> st, ok |-> TRUE, v |-> st.cache[s].v]
    ELSE [m |-> [st EXCEPT !.cache[s].ts = ts, !.sumTS = st.sumTS - st.cache[s].ts + ts],
          ok |-> TRUE, v |-> st.cache[s].v]

(* addItem / removeItem *)
PutItem(st, s, v, ts) ==
    [st EXCEPT !.cache = [x \in DOMAIN st.cache \cup {s} |-> IF x = s THEN [v |-> v, ts |-> ts] ELSE st.cache[x]],
               !.sumSize = st.sumSize + Size(s), !.sumTS = st.sumTS + ts]
RECURSIVE RemoveSet(_, _)
RemoveSet(st, E) ==
    IF E = {} THEN st
    ELSE LET k == CHOOSE y \in E : TRUE IN
         RemoveSet([st EXCEPT !.cache = Restrict(st.cache, DOMAIN st.cache \ {k}),
                              !.sumSize = st.sumSize - Size(k), !.sumTS = st.sumTS - st.cache[k].ts], E \ {k})

(* first loop of AddValues: pairs that are already cached, empty strings and marker values are skipped *)
Filtered(st, pairs) == SelectSeq(pairs, LAMBDA p : p.s \notin DOMAIN st.cache /\ Len(p.s) # 0 /\ p.v \notin Markers)
RECURSIVE SeqMem(_)
SeqMem(ps) == IF ps = <<>> THEN 0 ELSE Size(Head(ps).s) + SeqMem(Tail(ps))

(* the insertion loops; limited = "break when the next element does not fit" (second branch) *)
RECURSIVE AddLoop(_, _, _, _)
AddLoop(st, ps, now, limited) ==
    IF ps = <<>> THEN st
    ELSE LET p == Head(ps) IN
         IF DedupBatch /\ p.s \in DOMAIN st.cache THEN AddLoop(st, Tail(ps), now, limited)
         ELSE IF limited /\ st.sumSize + Size(p.s) > st.maxSize THEN st
         ELSE AddLoop(PutItem(st, p.s, p.v, now), Tail(ps), now, limited)

RemoveSizeOf(st, newMem) ==
    LET r0 == st.sumSize + newMem - st.maxSize IN
    IF r0 > newMem /\ r0 > st.sumSize \div CapDiv THEN st.sumSize \div CapDiv ELSE r0

(* --- what the eviction can pick, literally as coded (small caches only) --- *)
Perms(S) == {f \in [1..Cardinality(S) -> S] : \A i, j \in 1..Cardinality(S) : i # j => f[i] # f[j]}
RECURSIVE ScanLen(_, _, _, _, _)
ScanLen(pi, i, found, foundCount, rs) ==      \* how many items `for k, p := range c.cache` collects
    IF i > Len(pi) THEN Len(pi)
    ELSE LET f1 == found + Size(pi[i]) IN
         IF f1 < rs THEN ScanLen(pi, i + 1, f1, foundCount, rs)
         ELSE LET fc == IF found < rs THEN i ELSE foundCount IN
              IF i >= 2 * fc THEN i ELSE ScanLen(pi, i + 1, f1, fc, rs)
RECURSIVE RemLoop(_, _, _, _, _, _)
RemLoop(st, ord, i, now, newMem, ss) ==       \* the removal loop over the sorted items
    IF i > Len(ord) THEN {}
    ELSE LET k == ord[i] IN
         IF st.cache[k].ts >= now THEN {}
         ELSE IF ~Expired(st.cache[k].ts, now, st.ttl) /\ ss + newMem <= st.maxSize THEN {}
         ELSE {k} \cup RemLoop(st, ord, i + 1, now, newMem, ss - Size(k))
VictimsLiteral(st, now, newMem) ==
    LET rs == RemoveSizeOf(st, newMem) IN
    { RemLoop(st, ord, 1, now, newMem, st.sumSize) :
        ord \in UNION { { o \in Perms({pi[j] : j \in 1..ScanLen(pi, 1, 0, 0, rs)}) :
                             \A a, b \in 1..Len(o) : a < b => st.cache[o[a]].ts <= st.cache[o[b]].ts }
                        : pi \in Perms(DOMAIN st.cache) } }

(* --- the same set characterised without enumerating orders (used for validation) --- *)
CandSets(st, rs) ==
    LET keys == DOMAIN st.cache
        n == Cardinality(keys)
        Crossing(A) == \E x \in A : SumSize(A) - Size(x) < rs /\ rs <= SumSize(A)
    IN IF n = 0 THEN {{}}
       ELSE IF rs = 0 THEN {{k} : k \in keys}
       ELSE IF SumSize(keys) < rs THEN {keys}
       ELSE UNION { { A \cup B : B \in {X \in SUBSET (keys \ A) :
                                          Cardinality(X) = Min2(2 * Cardinality(A), n) - Cardinality(A)} }
                    : A \in {X \in SUBSET keys : X # {} /\ Crossing(X)} }
RECURSIVE VictimSets(_, _, _, _, _)
VictimSets(st, R, now, newMem, ss) ==
    IF R = {} THEN {{}}
    ELSE LET t == CHOOSE x \in {st.cache[k].ts : k \in R} : \A k \in R : x <= st.cache[k].ts
             G == {k \in R : st.cache[k].ts = t}
             rest == {G \cup V : V \in VictimSets(st, R \ G, now, newMem, ss - SumSize(G))}
         IN IF t >= now THEN {{}}
            ELSE IF Expired(t, now, st.ttl) THEN rest
            ELSE IF ss + newMem <= st.maxSize THEN {{}}
            ELSE UNION { IF X = G /\ ss - SumSize(G) + newMem > st.maxSize THEN rest ELSE {X}
                         : X \in {Y \in SUBSET G : /\ Y # {}
                                                   /\ \E x \in Y : ss - SumSize(Y \ {x}) + newMem > st.maxSize
                                                   /\ (Y = G \/ ss - SumSize(Y) + newMem <= st.maxSize)} }
AllowedVictims(st, now, newMem) ==
    UNION { VictimSets(st, C, now, newMem, st.sumSize) : C \in CandSets(st, RemoveSizeOf(st, newMem)) }

NeedsEviction(st, pairs) ==
    Filtered(st, pairs) # <<>> /\ st.sumSize + SeqMem(Filtered(st, pairs)) > st.maxSize

(* AddValues(nowUnix, pairs); E = the victims (used only when eviction is needed) *)
AddF(st, now, pairs, E) ==
    LET fl == Filtered(st, pairs) IN
    IF fl = <<>> THEN st
    ELSE IF ~NeedsEviction(st, pairs)
         THEN [AddLoop(st, fl, now, FALSE) EXCEPT !.version = st.version + 1]
         ELSE [AddLoop(RemoveSet(st, E), fl, now, TRUE) EXCEPT !.version = st.version + 1]

(* RemoveByTTL(maxCount, nowUnix): the first maxCount entries of the map iteration are examined *)
AllowedTtl(st, maxCount, now) ==
    LET keys == DOMAIN st.cache
        exp  == {k \in keys : Expired(st.cache[k].ts, now, st.ttl)}
        mc   == Min2(Max2(maxCount, 0), Cardinality(keys))
    IN {R \in SUBSET exp : Cardinality(R) <= mc /\ mc - Cardinality(R) <= Cardinality(keys \ exp)}
TtlF(st, R) ==
    IF R = {} THEN st
    ELSE [RemoveSet(st, R) EXCEPT !.version = IF TtlBumpsVersion THEN st.version + 1 ELSE st.version]

SetF(st, ms, ttl) == [st EXCEPT !.maxSize = ms, !.ttl = ttl]

(* Save(): skipped when nothing changed since the last save *)
SaveF(st) ==
    IF st.version = st.saved THEN [m |-> st, ok |-> FALSE]
    ELSE [m |-> [st EXCEPT !.file = st.cache, !.saved = st.version, !.dmg = FALSE], ok |-> TRUE]

(* LoadMappingsCacheFile/Slice: a new object; S = the entries of the chunks that load (all of
   them unless the file is damaged; a damaged file keeps loading the same part) *)
ReloadF(st, S, ms, ttl) ==
    [EmptyM(ms, ttl, Restrict(st.file, S), st.dmg) EXCEPT !.cache = Restrict(st.file, S), !.sumSize = SumSize(S),
                                                           !.sumTS = SumTSOf(st.file, S)]

-------------------------------------------------------------------------------
NoGet    == [ok |-> FALSE, s |-> "", v |-> 0]
NoAdd    == [pre |-> 0, post |-> 0, max |-> 0]
NoReload == [kv |-> <<>>, expect |-> <<>>, full |-> <<>>, expectFull |-> <<>>, dmg |-> FALSE]

Init == /\ m \in {EmptyM(ms, t, <<>>, FALSE) : ms \in MaxSizes, t \in TTLs}
        /\ offered = <<>>
        /\ lastGet = NoGet /\ lastAdd = NoAdd /\ lastReload = NoReload
        /\ savedKV = <<>> /\ savedFull = <<>>
        /\ hist = <<>>

Offer(off, pairs) ==
    LET strs == {pairs[i].s : i \in 1..Len(pairs)} IN
    [x \in DOMAIN off \cup strs |->
        (IF x \in DOMAIN off THEN off[x] ELSE {}) \cup {pairs[i].v : i \in {j \in 1..Len(pairs) : pairs[j].s = x}}]

(* ghost bookkeeping shared by the model-checking actions and the trace specification *)
AddGhost(now, pairs, m1) ==
    /\ offered' = Offer(offered, pairs)
    /\ lastAdd' = [pre |-> m.sumSize, post |-> m1.sumSize, max |-> m.maxSize]
    /\ UNCHANGED <<lastGet, savedKV, savedFull, lastReload>>
GetGhost(s, ok, v) ==
    /\ lastGet' = [ok |-> ok, s |-> s, v |-> v]
    /\ UNCHANGED <<offered, lastAdd, savedKV, savedFull, lastReload>>
SaveGhost(ok, m1) ==
    /\ savedKV' = KV(m1.cache)
    /\ savedFull' = IF ok THEN m1.cache ELSE savedFull
    /\ UNCHANGED <<offered, lastGet, lastAdd, lastReload>>
ReloadGhost(m1, dmg) ==
    /\ lastReload' = [kv |-> KV(m1.cache), expect |-> savedKV, full |-> m1.cache, expectFull |-> savedFull, dmg |-> dmg]
    /\ savedKV' = KV(m1.cache) /\ savedFull' = m1.cache
    /\ lastGet' = NoGet /\ lastAdd' = NoAdd
    /\ UNCHANGED offered
NoGhost == UNCHANGED <<offered, lastGet, lastAdd, savedKV, savedFull, lastReload>>

Log(rec) == hist' = Append(hist, rec)

Add(now, pairs) ==
    /\ \E E \in (IF NeedsEviction(m, pairs) THEN AllowedVictims(m, now, SeqMem(Filtered(m, pairs))) ELSE {{}}) :
          m' = AddF(m, now, pairs, E)
    /\ AddGhost(now, pairs, m')
    /\ Log([a |-> "Add", now |-> now, pairs |-> pairs])
Get(ts, s) ==
    /\ \E refresh \in BOOLEAN :
          LET r == GetF(m, ts, s, refresh) IN m' = r.m /\ GetGhost(s, r.ok, r.v)
    /\ Log([a |-> "Get", ts |-> ts, s |-> s])
Ttl(cnt, now) ==
    /\ \E R \in AllowedTtl(m, cnt, now) : m' = TtlF(m, R)
    /\ NoGhost
    /\ Log([a |-> "Ttl", cnt |-> cnt, now |-> now])
SetSizeTTL(ms, ttl) ==
    /\ m' = SetF(m, ms, ttl) /\ NoGhost
    /\ Log([a |-> "Set", ms |-> ms, ttl |-> ttl])
Save ==
    /\ LET r == SaveF(m) IN m' = r.m /\ SaveGhost(r.ok, r.m)
    /\ Log([a |-> "Save"])
Damage ==
    /\ ~m.dmg /\ DOMAIN m.file # {}
    /\ m' = [m EXCEPT !.dmg = TRUE] /\ NoGhost
    /\ Log([a |-> "Damage"])
Reload ==
    /\ \E S \in (IF m.dmg THEN SUBSET (DOMAIN m.file) ELSE {DOMAIN m.file}) :
          m' = ReloadF(m, S, m.maxSize, m.ttl)
    /\ ReloadGhost(m', m.dmg)
    /\ Log([a |-> "Reload"])

Next == /\ Len(hist) < MaxOps
        /\ \/ \E now \in Nows, b \in Batches : Add(now, b)
           \/ \E ts \in Nows, s \in GetStrs : Get(ts, s)
           \/ \E c \in Counts, now \in Nows : Ttl(c, now)
           \/ \E ms \in MaxSizes, t \in TTLs : SetSizeTTL(ms, t)
           \/ Save \/ Damage \/ Reload

Spec == Init /\ [][Next]_vars

-------------------------------------------------------------------------------
(* Properties *)
(* "never returns a value for a string other than the value added for it" *)
ValueIsOffered == lastGet.ok => (lastGet.s \in DOMAIN offered /\ lastGet.v \in offered[lastGet.s])
CacheIsOffered == \A k \in DOMAIN m.cache : k \in DOMAIN offered /\ m.cache[k].v \in offered[k]
(* "never returns marker values" *)
NeverMarker    == /\ lastGet.ok => lastGet.v \notin Markers
                  /\ \A k \in DOMAIN m.cache : m.cache[k].v \notin Markers /\ k # ""
(* "never grows beyond its configured size": an add never leaves the cache above the limit
   unless it already was (limit lowered at run time / by a restart), and then it does not grow *)
SizeBound      == lastAdd.post <= Max2(lastAdd.pre, lastAdd.max)
(* "keeps its size and access-time accounting exact" *)
Accounting     == m.sumSize = SumSize(DOMAIN m.cache) /\ m.sumTS = SumTS(m.cache)
(* "reloads from its saved file to the same contents": an undamaged file loads to the
   string -> value contents the cache had when Save last returned, with the access times
   of the last Save that wrote; a damaged file loads to a part of them *)
IsSubFn(f, g)  == DOMAIN f \subseteq DOMAIN g /\ \A x \in DOMAIN f : f[x] = g[x]
ReloadSame     == IF lastReload.dmg
                  THEN IsSubFn(lastReload.kv, lastReload.expect)
                  ELSE lastReload.kv = lastReload.expect /\ lastReload.full = lastReload.expectFull
(* the same seen from the mechanism: whenever the file is intact it holds the contents at the last Save return *)
FileSync       == ~m.dmg => KV(m.file) = savedKV /\ m.file = savedFull
(* the fast characterisation of the eviction equals the literal transcription *)
VictimsAgree   == \A now \in Nows, b \in Batches :
                     NeedsEviction(m, b) =>
                        AllowedVictims(m, now, SeqMem(Filtered(m, b))) = VictimsLiteral(m, now, SeqMem(Filtered(m, b)))

Export == PrintT(<<"BEH", ToJson(hist')>>)
===============================================================================
