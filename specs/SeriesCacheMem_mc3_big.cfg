SPECIFICATION Spec
CONSTANTS
  NReq = 3
  Hard = 4
  Soft = 2
  S0 = 1
  D = 2
  NInc = 2
  FixWake = TRUE
INVARIANTS TypeOK NoStuck
PROPERTIES AllDone
CHECK_DEADLOCK FALSE
