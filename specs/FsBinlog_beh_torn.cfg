INIT Init
NEXT Next
CONSTANTS
  StartSize = 24
  TagSize = 20
  CrcSize = 20
  RotSize = 36
  EvHdr = 8
  CrcEvery = 65536
  Chunks <- MCChunksTorn
  Lens <- MCLensTorn
  MaxOps = 8
  MaxRuns = 2
  Fine = FALSE
  CheckRotTo = TRUE
  CommitAfterSync = TRUE
  MaxTears = 1
  TornMode = "cut"
  Asaps = {FALSE}
ACTION_CONSTRAINT ExportTorn
CHECK_DEADLOCK FALSE
