INIT Init
NEXT Next
CONSTANTS
  Users <- U3
  NQ = 1
  InitCaps = {1, 2}
  Caps = {1, 2}
  MaxAdjust = 1
  MaxOps = 0
  Bug = "none"
  KeepHist = TRUE
  Recycle = FALSE
  Normalize = FALSE
VIEW View
ACTION_CONSTRAINT Export
INVARIANTS TypeOK CapacityAtGrant NoLostWakeup NoLeak OutcomeOK RoundRobinFair UserFIFO
CHECK_DEADLOCK FALSE
