---------------------------- MODULE RowMergeMC ----------------------------
(* Bounded instances of RowMerge over the shared event alphabet (tail shapes only). *)
EXTENDS RowMerge, RowShapes
TailShapes == {e \in AllShapes : e.top = 0}
(* every kind, hosts 0 to 3, equal and different minima and maxima, scaled counts *)
MCLeaves10 == {e \in TailShapes : e.id \in {1, 3, 4, 7, 8, 9, 11, 13, 15, 24}}
MCLeaves14 == {e \in TailShapes : e.id \in {1, 3, 4, 7, 8, 9, 10, 11, 13, 15, 16, 21, 24, 29}}
MCLeaves6  == {e \in TailShapes : e.id \in {3, 7, 8, 9, 13, 24}}
PrintTables == PrintT(<<"SHAPES", ToJson(ShapeTable)>>)
ExportMerges == IF merging' THEN PrintT(<<"BEH", ToJson(hist')>>) ELSE TRUE
(* the count/totalCount scaling of every shape is exact in units of 1/DEN *)
ASSUME ShapesAreExact == \A e \in AllShapes : ShapeExact(e)
===============================================================================
