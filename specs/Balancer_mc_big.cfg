SPECIFICATION Spec
CONSTANTS
  BufLen = 10
  WaitPct = 20
  MaxPkts = 4
  MaxErrs = 2
  MaxSpur = 1
  PktLens <- Len1
  TimeoutSignals = TRUE
  SkipOnErr = TRUE
  ReportRetry = TRUE
  ReportClaim = "swap"
  DeadlineArmed = TRUE
  AllowClose = TRUE
  AllowRecon = TRUE
  RecordHist = FALSE
  MaxHist = 0
VIEW View
INVARIANTS InOrderModuloSkip SkipBound BufferAccounting DropOnlyWhenFull DropsCounted ReportsConserved NoReportLost NoStuck TimerSane ConnSane
CHECK_DEADLOCK FALSE
