------------------------------ MODULE AgentQueue ------------------------------
(* Agent shard "super queue" (internal/agent/agent_shard.go, agent_shard_send.go, agent.go),
   property C08: every event a shard accepts is delivered to sending in exactly one bucket,
   never earlier than its clamped timestamp, low-resolution timestamps rounded down, placement
   a function of (metric, original tag values, timestamp) when the row is not late, drops only
   while the receive queue has a gap / after stop / before the start of a secondary shard.

   Mechanism transcribed (one operator per critical section of the code, all of them pure
   functions of the queue state G so that the composite public calls can chain them):
     Place     resolutionShardFromHashLocked  (ts 0 -> now, future clamp, "late => send at
               once", rounding, spreading of an X-second metric over the next X seconds)
     Ins       Shard.ApplyCounter/ApplyValues/ApplyUnique/AddCounterHost/AddValueCounterHost/
               MergeItemValue/AddCounterHostStringBytesSrcIngestionStatus - they all share one
               shape: discard?  place  dropIfBeforeTimestamp?  insert
     FlushOne  Shard.flushBuckets (clock forward / pause / back, gap, jump-ahead formula,
               AgentWindow, capacity-1 channel, "do not send empty buckets after a pause")
     Event     Agent.ApplyMetric (ingestion status, main row on shard and on shard2 with its own
               copy of the key, clamped-future status) and the Agent.Add*/Merge* API (one key for
               both shards, so shard2 sees the timestamp as shard 1 clamped and rounded it)
     FlushAll  Agent.goFlushIteration (all shards in order, __timing_errors row on a gap)
     Consume   the preprocessor taking a bucket from BucketsToPreprocess
     Stop / FlushAllData   Agent.ShutdownFlusher / Agent.FlushAllData

   Time unit: seconds.  The wall clock is (clock, half): half = the fraction of the second is
   at least AgentWindow - 1 s (0.3 s), so that floor(now - AgentWindow) = clock - 2 + half.

   An item in the ring is [id, ts, i, at, sh, late, res, h, snd, raw]:
     id   > 0 event, < 0 rows the code adds itself (-m ingestion status of metric m,
          -(100+m) clamped-future status, -200 __timing_errors); rows with one key merge
     ts   key.Timestamp as stored (clamped, rounded)
     i    index of the SuperQueue bucket holding it
     at   GHOST absolute second the slot stands for; sh GHOST number of ring lengths it was
          moved by jump-aheads; late, res, h, snd (SendTime), raw (clamped timestamp before
          rounding) GHOST facts of the moment of acceptance                                *)
EXTENDS Integers, Sequences, FiniteSets, TLC, Json

CONSTANTS QLen,          \* superQueueLen (128)
          FutureSlots,   \* superQueueFutureSlots (3)
          Spread,        \* the literal 120 in gapInReceivingQueueLocked (2 * max resolution)
          NShards,       \* shards are 1..NShards
          Metrics,       \* set of [id, res, sh, sh2, from2]; sh2 = 0: no secondary shard
          TimingShard,   \* shard receiving __timing_errors (1)
          T0,            \* start instant: CurrentTime = T0
          Lags0, Fulls0, \* start states: SendTime = T0 - lag for a lag in Lags0 ({2}: MakeAgent), channel
                         \* holding an (empty) bucket or not; other lags stand for an agent whose
                         \* preprocessor has been stuck for a while (export configs only)
          Ticks,         \* wall clock increments between operations (0 pause, negative back)
          TsOffs,        \* event timestamps are wall clock + offset
          Kinds,         \* subset of {"metric", "api"}
          SpreadOf(_),   \* spread indexes explored for a resolution (subset of 0..res-1)
          Variant,       \* "code": as written.  Anything else is a deliberately wrong design used to
                         \* show that the invariants are live: "nolate" (no `slot < sendTime` branch),
                         \* "ceil" (rounding up), "roundfirst" (rounding before the future clamp),
                         \* "jumpexact" (jump-ahead straight to the limit, not by whole ring lengths)
          MaxOps, MaxEvents

VARIABLES clock, half,   \* wall clock
          cur, send,     \* per shard CurrentTime, SendTime
          slots,         \* per shard: set of items, each with its ring index i  (SuperQueue; sparse: the
                         \* bucket at index x is {it \in slots[s] : it.i = x})
          chan,          \* per shard: <<>> or <<bucket>>                   (BucketsToPreprocess)
          stopped,       \* per shard stopReceivingIncomingData
          closed,        \* FlushAllData done
          out,           \* per shard: sequence of buckets taken by the preprocessor
          acc,           \* GHOST set of <<shard, id>> accepted
          drops,         \* GHOST set of drop records
          nid,           \* events so far
          hist

vars == <<clock, half, cur, send, slots, chan, stopped, closed, out, acc, drops, nid, hist>>
(* hist is not part of the state, but its length bounds the behaviours (MaxOps): keep it in the view so
   that what is explored does not depend on which path reaches a state first *)
View == <<clock, half, cur, send, slots, chan, stopped, closed, out, acc, drops, nid, Len(hist)>>

Shards == 1..NShards
Ring   == 0..(QLen - 1)
G0 == [cur |-> cur, send |-> send, slots |-> slots, chan |-> chan, stopped |-> stopped]

-------------------------------------------------------------------------------
(* agent_shard.go *)
Gap(G, s)     == G.cur[s] - (G.send[s] + (QLen - FutureSlots) - Spread)    \* gapInReceivingQueueLocked
Discard(G, s) == G.stopped[s] \/ Gap(G, s) > 0                             \* shouldDiscardIncomingData

(* what all agents must agree on: the send second as a function of resolution, spread index
   (original-values hash) and (clamped, rounded) timestamp *)
NominalSec(res, h, ts) == IF res = 1 THEN ts ELSE ts + res + h

Place(G, s, tsIn, res, h) ==                                               \* resolutionShardFromHashLocked
    LET c   == G.cur[s]
        sd  == G.send[s]
        t0  == IF tsIn = 0 THEN c ELSE tsIn
        t1  == IF Variant = "roundfirst" THEN (t0 \div res) * res ELSE t0
        cl  == t1 > c + FutureSlots
        t2  == IF cl THEN c + FutureSlots ELSE t1
        fix == Variant # "nolate"
    IN IF res = 1
       THEN [ts |-> t2, raw |-> t2, at |-> IF t2 < sd /\ fix THEN sd ELSE t2, late |-> t2 < sd, clamped |-> cl]
       ELSE LET t3 == IF Variant = "ceil" THEN ((t2 + res - 1) \div res) * res
                      ELSE IF Variant = "roundfirst" THEN t2 ELSE (t2 \div res) * res
                sl == t3 + res + h
            IN [ts |-> t3, raw |-> t2,
                at |-> IF sl < sd /\ fix THEN sl + ((sd - sl + res - 1) \div res) * res ELSE sl,
                late |-> sl < sd, clamped |-> cl]

Item(id, p, res, h, sd) == [id |-> id, ts |-> p.ts, i |-> p.at % QLen, at |-> p.at, sh |-> 0, late |-> p.late,
                            res |-> res, h |-> h, snd |-> sd, raw |-> p.raw]
Bucket(G, s, x) == {it \in G.slots[s] : it.i = x}                          \* SuperQueue[x]

(* the common body of the Apply*/Add*/Merge* methods of Shard.  `from` is dropIfBeforeTimestamp.
   Returns the new queue state, the key timestamp as the caller sees it afterwards (the key is
   passed by pointer and mutated only if the row was not discarded), and what happened. *)
Ins(G, s, id, tsIn, res, h, from) ==
    IF Discard(G, s)
    THEN [G |-> G, ts |-> tsIn, ok |-> FALSE, clamped |-> FALSE, late |-> FALSE,
          why |-> IF G.stopped[s] THEN "stopped" ELSE "gap"]
    ELSE LET p == Place(G, s, tsIn, res, h) IN
         IF p.ts < from
         THEN [G |-> G, ts |-> p.ts, ok |-> FALSE, clamped |-> p.clamped, late |-> p.late, why |-> "before"]
         ELSE [G |-> [G EXCEPT !.slots[s] = @ \cup {Item(id, p, res, h, G.send[s])}],
               ts |-> p.ts, ok |-> TRUE, clamped |-> p.clamped, late |-> p.late, why |-> "ok"]

Keep(G, ts) == [G |-> G, ts |-> ts, ok |-> FALSE, clamped |-> FALSE, late |-> FALSE, why |-> "none"]

-------------------------------------------------------------------------------
(* agent_shard_send.go *)
ShiftItem(it, k) == [it EXCEPT !.at = @ + k * QLen, !.sh = @ + k]

(* the for-loop of flushBuckets; one iteration = FlushAllDataSingleStep(gap <= 0).
   noisy = ring indexes holding rows outside the model, which make a bucket non-empty (always {}
   here: every row the driven code inserts is modelled) *)
RECURSIVE FlushLoop(_, _, _, _)
FlushLoop(G, s, upTo, noisy) ==
    IF upTo <= G.send[s] \/ G.chan[s] # <<>> THEN G
    ELSE IF G.send[s] >= G.cur[s] THEN G
    ELSE LET st == G.send[s]
             i  == st % QLen
             b  == Bucket(G, s, i)
             sendEmpty == Gap(G, s) <= 0
         IN IF b = {} /\ i \notin noisy /\ ~sendEmpty
            THEN FlushLoop([G EXCEPT !.send[s] = st + 1], s, upTo, noisy)
            ELSE FlushLoop([G EXCEPT !.send[s] = st + 1, !.slots[s] = @ \ b,
                                     !.chan[s] = << [time |-> st, items |-> b] >>], s, upTo, noisy \ {i})

FlushOne(G, s, now, hf, noisy) ==                                          \* flushBuckets(now)
    LET fwd  == now > G.cur[s]
        G1   == IF fwd THEN [G EXCEPT !.cur[s] = now] ELSE G
        gap  == IF fwd /\ Gap(G1, s) > 0 THEN Gap(G1, s) ELSE 0
        st0  == G.send[s]
        lim  == G1.cur[s] - (QLen - FutureSlots)
        k    == IF G1.send[s] < lim THEN (lim - G1.send[s] + QLen - 1) \div QLen ELSE 0   \* jump ahead
        G2   == IF k = 0 THEN G1
                ELSE IF Variant = "jumpexact" THEN [G1 EXCEPT !.send[s] = lim]
                ELSE [G1 EXCEPT !.send[s] = @ + k * QLen,
                                !.slots[s] = {ShiftItem(it, k) : it \in @}]
        upTo == now - 2 + (IF hf THEN 1 ELSE 0)                            \* floor(now - AgentWindow)
    IN [G |-> FlushLoop(G2, s, upTo, noisy), gap |-> gap, st |-> st0]

(* goFlushIteration: shards in order; a gap is reported as a __timing_errors row stamped with the
   SendTime of the stuck shard, which goes through the ordinary insertion into TimingShard *)
RECURSIVE FlushIter(_, _, _, _)
FlushIter(G, s, now, hf) ==
    IF s > NShards THEN G
    ELSE LET r  == FlushOne(G, s, now, hf, {})
             G1 == IF r.gap > 0 THEN Ins(r.G, TimingShard, 0 - 200, r.st, 1, 0, 0).G ELSE r.G
         IN FlushIter(G1, s + 1, now, hf)

(* FlushAllData: QLen single steps per shard with sendEmpty = FALSE, blocking on the channel while
   the preprocessor drains it.  Result per shard: what the preprocessor receives, in order. *)
RECURSIVE Drain(_, _, _, _)
Drain(G, s, n, o) ==
    IF n = 0 THEN o
    ELSE LET st == G.send[s] + (QLen - n)
             b  == Bucket(G, s, st % QLen)
         IN Drain(G, s, n - 1, IF b = {} THEN o ELSE Append(o, [time |-> st, items |-> b]))

-------------------------------------------------------------------------------
Init == /\ clock = T0 /\ half = FALSE
        /\ cur = [s \in Shards |-> T0]
        /\ slots = [s \in Shards |-> {}]
        /\ stopped = [s \in Shards |-> FALSE]
        /\ closed = FALSE
        /\ out = [s \in Shards |-> <<>>]
        /\ acc = {} /\ drops = {} /\ nid = 0
        /\ \E lag \in Lags0, f \in Fulls0 :
             /\ send = [s \in Shards |-> T0 - lag]
             /\ chan = [s \in Shards |-> IF f THEN << [time |-> T0 - lag - 1, items |-> {}] >> ELSE <<>>]
             /\ hist = << [a |-> "Init", lag |-> lag, full |-> f] >>

SetG(G) == /\ cur' = G.cur /\ send' = G.send /\ slots' = G.slots /\ chan' = G.chan
           /\ stopped' = G.stopped

RingProj(G) == UNION { { <<s, it.i, it.id, it.ts>> : it \in G.slots[s] } : s \in Shards }
Proj(G) == [cur |-> G.cur, send |-> G.send,
            ch |-> [s \in Shards |-> IF G.chan[s] = <<>> THEN 0 - 1 ELSE G.chan[s][1].time],
            ring |-> RingProj(G)]
BucketProj(b) == [time |-> b.time, items |-> { <<it.id, it.ts>> : it \in b.items }]

TickCore(d, hf) == /\ clock' = clock + d /\ half' = hf
                   /\ UNCHANGED <<cur, send, slots, chan, stopped, closed, out, acc, drops, nid>>
Tick(d, hf) == TickCore(d, hf) /\ hist' = Append(hist, [a |-> "Tick", sec |-> clock + d, half |-> hf])

FlushApply(G) ==
    /\ ~closed
    /\ SetG(G)
    /\ UNCHANGED <<clock, half, closed, out, acc, drops, nid>>
FlushCore(s, noisy) == FlushApply(FlushOne(G0, s, clock, half, noisy).G)
Flush(s) == LET G == FlushOne(G0, s, clock, half, {}).G IN
            FlushApply(G) /\ hist' = Append(hist, [a |-> "Flush", s |-> s, post |-> Proj(G)])

FlushAllCore == FlushApply(FlushIter(G0, 1, clock, half))
FlushAll == LET G == FlushIter(G0, 1, clock, half) IN
            FlushApply(G) /\ hist' = Append(hist, [a |-> "FlushAll", post |-> Proj(G)])

(* One public call.  kind = "metric": Agent.ApplyMetric (after the real mapping);
   kind = "api": Agent.AddCounter... / AddValueCounter... / MergeItemValue (no statuses, hash 0). *)
EventResult(kind, m, tsIn, h, id) ==
    LET s1  == m.sh
        s2  == m.sh2
        two == s2 # 0 /\ s2 # s1
        st  == kind = "metric"
        r1  == IF st THEN Ins(G0, s1, 0 - m.id, 0, 1, 0, 0) ELSE Keep(G0, 0)
        r2  == IF st /\ two THEN Ins(r1.G, s2, 0 - m.id, 0, 1, 0, m.from2) ELSE Keep(r1.G, 0)
        r3  == Ins(r2.G, s1, id, tsIn, m.res, h, 0)
        r4  == IF st /\ r3.ok /\ r3.clamped THEN Ins(r3.G, s1, 0 - (100 + m.id), r3.ts, 1, 0, 0) ELSE Keep(r3.G, 0)
        \* ApplyMetric gives the second shard its own copy of the key (original timestamp); the Add*/Merge*
        \* API passes the key the first shard has already clamped and rounded (a discarded row leaves it as is)
        r5  == IF two THEN Ins(r4.G, s2, id, IF st THEN tsIn ELSE r3.ts, m.res, h, m.from2) ELSE Keep(r4.G, r3.ts)
        r6  == IF st /\ two /\ r5.ok /\ r5.clamped THEN Ins(r5.G, s2, 0 - (100 + m.id), r5.ts, 1, 0, m.from2) ELSE Keep(r5.G, 0)
    IN [G |-> r6.G, two |-> two, p |-> r3, q |-> r5]

DropRec(id, s, r, sec, from) ==
    [id |-> id, s |-> s, why |-> r.why, gap |-> Gap(G0, s), stopped |-> stopped[s], ts |-> r.ts,
     secondary |-> sec, from |-> from]

EventApply(m, id, e) ==
    /\ SetG(e.G)
    /\ nid' = id
    /\ acc' = acc \cup (IF e.p.ok THEN {<<m.sh, id>>} ELSE {}) \cup (IF e.two /\ e.q.ok THEN {<<m.sh2, id>>} ELSE {})
    /\ drops' = drops \cup (IF e.p.ok THEN {} ELSE {DropRec(id, m.sh, e.p, FALSE, 0)})
                      \cup (IF e.two /\ ~e.q.ok THEN {DropRec(id, m.sh2, e.q, TRUE, m.from2)} ELSE {})
    /\ UNCHANGED <<clock, half, closed, out>>
EventCore(kind, m, tsIn, h) == EventApply(m, nid + 1, EventResult(kind, m, tsIn, h, nid + 1))
Event(kind, m, tsIn, h) ==
    LET e == EventResult(kind, m, tsIn, h, nid + 1) IN
    /\ EventApply(m, nid + 1, e)
    /\ hist' = Append(hist, [a |-> "Event", kind |-> kind, m |-> m.id, ts |-> tsIn, h |-> h, id |-> nid + 1,
                             ok1 |-> e.p.ok, ok2 |-> e.two /\ e.q.ok,
                             cls |-> <<e.p.why, e.p.late, e.p.clamped, e.q.why, e.q.late, e.q.clamped>>,
                             post |-> Proj(e.G)])

ConsumeCore(s) ==
    /\ chan[s] # <<>>
    /\ out' = [out EXCEPT ![s] = Append(@, chan[s][1])]
    /\ chan' = [chan EXCEPT ![s] = <<>>]
    /\ UNCHANGED <<clock, half, cur, send, slots, stopped, closed, acc, drops, nid>>
Consume(s) == ConsumeCore(s) /\ hist' = Append(hist, [a |-> "Consume", s |-> s, b |-> BucketProj(chan[s][1])])

StopCore == /\ \E s \in Shards : ~stopped[s]
            /\ stopped' = [s \in Shards |-> TRUE]
            /\ UNCHANGED <<clock, half, cur, send, slots, chan, closed, out, acc, drops, nid>>
Stop == StopCore /\ hist' = Append(hist, [a |-> "Stop"])

Drained(s) == chan[s] \o Drain(G0, s, QLen, <<>>)
FlushAllDataCore ==
    /\ ~closed /\ \A s \in Shards : stopped[s]
    /\ out' = [s \in Shards |-> out[s] \o Drained(s)]
    /\ send' = [s \in Shards |-> send[s] + QLen]
    /\ slots' = [s \in Shards |-> {}]
    /\ chan' = [s \in Shards |-> <<>>]
    /\ closed' = TRUE
    /\ UNCHANGED <<clock, half, cur, stopped, acc, drops, nid>>
FlushAllData == /\ FlushAllDataCore
                /\ hist' = Append(hist, [a |-> "FlushAllData",
                                         outs |-> [s \in Shards |-> [j \in 1..Len(Drained(s)) |-> BucketProj(Drained(s)[j])]],
                                         send |-> [s \in Shards |-> send[s] + QLen]])

EventChoice ==
    /\ nid < MaxEvents
    /\ \E kind \in Kinds, m \in Metrics :
         \E ts \in {clock + o : o \in TsOffs} \cup (IF kind = "api" THEN {0} ELSE {}) :
           \E h \in (IF kind = "api" \/ m.res = 1 THEN {0} ELSE SpreadOf(m.res)) :
             Event(kind, m, ts, h)

Next == /\ Len(hist) < MaxOps
        /\ \/ \E d \in Ticks, hf \in BOOLEAN : Tick(d, hf)
           \/ \E s \in Shards : Flush(s)
           \/ (NShards > 1 /\ FlushAll)
           \/ EventChoice
           \/ \E s \in Shards : Consume(s)
           \/ Stop
           \/ FlushAllData

Spec == Init /\ [][Next]_vars

-------------------------------------------------------------------------------
(* Properties *)
Buckets(s)  == out[s] \o chan[s]
RingItems(s) == slots[s]
AllItems(s) == RingItems(s) \cup UNION { Buckets(s)[j].items : j \in 1..Len(Buckets(s)) }

Occ(s, id) == Cardinality({ it \in slots[s] : it.id = id })
              + Cardinality({ j \in 1..Len(Buckets(s)) : \E it \in Buckets(s)[j].items : it.id = id })

(* every accepted event sits in exactly one place, everything else nowhere *)
ExactlyOnce == \A s \in Shards : \A id \in 1..nid : Occ(s, id) = (IF <<s, id>> \in acc THEN 1 ELSE 0)
(* ... and after the shutdown flush that place is a bucket handed to the preprocessor *)
AllFlushed  == closed => \A s \in Shards : RingItems(s) = {} /\ chan[s] = <<>>

(* a bucket never carries a row stamped later than the bucket; the bucket is the second the slot stood for *)
NotEarly == \A s \in Shards : \A j \in 1..Len(Buckets(s)) : \A it \in Buckets(s)[j].items :
               it.ts <= Buckets(s)[j].time /\ Buckets(s)[j].time = it.at

(* the ring-wrap hazard: a slot stands for one second only, inside the window the sender will walk next *)
RingOK == \A s \in Shards : \A it \in slots[s] :
             /\ it.at % QLen = it.i /\ it.i \in Ring
             /\ it.at >= send[s] /\ it.at < send[s] + QLen
             /\ it.ts <= it.at

(* multiples of the resolution, rounded DOWN from the clamped timestamp *)
Rounded == \A s \in Shards : \A it \in AllItems(s) : it.ts % it.res = 0 /\ it.ts <= it.raw /\ it.raw < it.ts + it.res

(* not late: the second is NominalSec(resolution, spread index, timestamp) and nothing else (moved only by
   whole ring lengths when the agent slept through more than a ring);  late: the first second not yet
   sent that keeps the resolution alignment *)
Placement == \A s \in Shards : \A it \in AllItems(s) :
                LET at0 == it.at - it.sh * QLen
                    nom == NominalSec(it.res, it.h, it.ts)
                IN IF it.late THEN /\ nom < it.snd /\ at0 >= it.snd /\ at0 < it.snd + it.res
                                   /\ (at0 - nom) % it.res = 0
                   ELSE at0 = nom

DropsJustified == \A d \in drops : \/ d.why = "gap" /\ d.gap > 0 /\ ~d.stopped
                                   \/ d.why = "stopped" /\ d.stopped
                                   \/ d.why = "before" /\ d.secondary /\ d.ts < d.from

(* bucket times handed to the preprocessor strictly increase and are behind SendTime *)
OutIncreasing == \A s \in Shards : /\ \A j \in 1..(Len(Buckets(s)) - 1) : Buckets(s)[j].time < Buckets(s)[j + 1].time
                                   /\ \A j \in 1..Len(Buckets(s)) : Buckets(s)[j].time < send[s]

SendBound == closed \/ \A s \in Shards : send[s] < cur[s] + FutureSlots
ChanCap   == \A s \in Shards : Len(chan[s]) <= 1

Monotone == [][\A s \in Shards : cur'[s] >= cur[s] /\ send'[s] >= send[s]]_vars

(* which property-level invariants the current state breaks (export configurations run without INVARIANTS so
   that a model instantiated with constants read from the code is explored completely; a behaviour ending in
   a state that breaks the property is tagged and replayed on the real code first) *)
Broken == (IF ExactlyOnce THEN {} ELSE {"ExactlyOnce"}) \cup (IF AllFlushed THEN {} ELSE {"AllFlushed"})
          \cup (IF NotEarly THEN {} ELSE {"NotEarly"}) \cup (IF RingOK THEN {} ELSE {"RingOK"})
          \cup (IF Rounded THEN {} ELSE {"Rounded"}) \cup (IF Placement THEN {} ELSE {"Placement"})
          \cup (IF DropsJustified THEN {} ELSE {"DropsJustified"}) \cup (IF OutIncreasing THEN {} ELSE {"OutIncreasing"})
          \cup (IF SendBound THEN {} ELSE {"SendBound"}) \cup (IF ChanCap THEN {} ELSE {"ChanCap"})
PrintBeh == /\ PrintT(<<"BEH", ToJson(hist')>>)
            /\ (Broken' = {} \/ PrintT(<<"BAD", ToJson([broken |-> Broken', beh |-> hist'])>>))

(* the instance, for the driver (which builds its agents and metrics from it) *)
ASSUME PrintT(<<"CFG", ToJson([qlen |-> QLen, future |-> FutureSlots, spread |-> Spread, nshards |-> NShards,
                               t0 |-> T0, timing_shard |-> TimingShard, metrics |-> Metrics])>>)

Export    == PrintBeh
ExportEnd == IF Len(hist') >= MaxOps THEN PrintBeh ELSE TRUE
===============================================================================
