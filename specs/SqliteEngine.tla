------------------------------ MODULE SqliteEngine ------------------------------
(* Binlog-backed SQLite engine (internal/sqlite/engine.go, binlog_engine.go, conn.go,
   payload_queue.go) over fsbinlog (internal/vkgo/binlog/fsbinlog/writer.go, reader.go),
   property C17.

   Two layers in one module:
   * the mechanism transcribed, one action per critical section of the code:
       master   Do (callback in a savepoint, offset row updated in the same write
                transaction, Append/AppendASAP, wait queue), failing callback (savepoint
                rollback, nothing appended), Do without event (read), View, the binlog
                writer loop at system-call granularity (write / fsync / Engine.Commit),
                the timer commit of txLoop (only after binlogWaitDBSync), the
                commit-now path of NoWaitCommit (Do keeps the connection lock until the
                binlog commit arrives, then COMMITs itself), Close;
       reading  (restart re-read and replica mode share the code) Engine.Apply with the
                switch to the apply queue, apply() with its skip of already applied
                bytes, Skip, Commit (stores committedInfo, wakes waiters, commits the
                write transaction and drains the queue);
       Crash    = process kill: what reached the binlog file with write(2) and what
                SQLite committed survive; user-space buffers, the open write
                transaction and all in-memory state do not;
       Restart  = re-read from the offset stored in the database.
   * the property, stated separately on what an observer can see after a kill
     (database file, binlog files) and on ghost sets of acknowledgements (section
     PROPERTY).

   Offsets are bytes.  A binlog record is [id, sz, end]: id = 0 for the binlog's own
   records (LevStart, crc32, rotate), end = offset just after the record.

   Deliberate oddities of the code that are transcribed, not repaired:
   * Do stores the PREDICTED offset (offsetBefore + padded event size) in the database
     while e.dbOffset takes the offset returned by Append, which also covers a service
     record the binlog inserted after the event.  The stored offset may therefore point
     in front of trailing service records; replay skips them again.
   * apply(): when the whole payload lies below the stored offset it returns without
     advancing (newOffset = offset).  fsbinlog treats that as an error; the engine
     never starts a binlog below its stored offset, so the branch is only reachable in
     the Desync scenario of the S->I configuration.
   * Commit() returns early, before waking waiters, when its offset is below the stored
     committedInfo.                                                                     *)
EXTENDS Integers, Sequences, FiniteSets, TLC, Json

CONSTANTS Writes,     \* write identities (positive integers)
          FailW,      \* writes whose callback fails after executing its statement
          Readers,    \* View callers
          Role,       \* "master" | "replica"
          Dur,        \* "wait" (WaitCommit) | "nowait" (NoWaitCommit)
          SvcSizes,   \* sizes of service records the binlog may add after an event
          StartSize,  \* size of the LevStart record
          Size(_),    \* padded size of the event of a write
          MaxCrash, MaxReads, MaxClose,
          AllowDesync,\* S->I only: start applying below the stored offset
          MaxOps      \* > 0: record hist and bound its length (behaviour export)

VARIABLES blog,      \* records appended to the binlog (buffer and file), in order
          written,   \* number of records that reached the file (survive a process kill)
          synced,    \* number of records fsynced
          cinfo,     \* e.committedInfo.offset
          dbC,       \* committed database  [app: sequence of applied ids, off: __binlog_offset]
          tx,        \* what the write connection sees (committed + open write transaction)
          dbOffset,  \* e.dbOffset
          up,        \* "down" | "replay" | "up"
          lock,      \* 0, or the write whose Do holds the write connection across steps
          waitQ,     \* e.waitQ: [off, w, rd, obs]
          rst,       \* binlogEngineReplicaImpl.state: "none" | "wtc" (waitToCommit)
          queue,     \* applyQueue.q: [body, skip]
          qOff,      \* applyQueue.dbOffset
          rpos,      \* records handed to the engine by the reader so far
          rcommit,   \* reader's commitPos (records)
          cl,        \* per write: "new" | "appended" | "waiting" | "done" | "failed" | "lost"
          acked,     \* ghost: writes acknowledged to their caller in wait mode
          failedW,   \* ghost: writes whose Do returned the callback's error
          seen,      \* ghost: reader -> last View result
          readRet,   \* ghost: results of Do-reads that returned to their caller in wait mode
          nreads, crashes, closes,
          durable,   \* ghost: binlog file content at the last crash / close
          hist

vars == <<blog, written, synced, cinfo, dbC, tx, dbOffset, up, lock, waitQ, rst, queue, qOff,
          rpos, rcommit, cl, acked, failedW, seen, readRet, nreads, crashes, closes, durable, hist>>
View == <<blog, written, synced, cinfo, dbC, tx, dbOffset, up, lock, waitQ, rst, queue, qOff,
          rpos, rcommit, cl, acked, failedW, seen, readRet, nreads, crashes, closes, durable>>

-------------------------------------------------------------------------------
(* records and offsets *)
Rec(id, sz, prevEnd) == [id |-> id, sz |-> sz, end |-> prevEnd + sz]
EndOff(log, k) == IF k = 0 THEN 0 ELSE log[k].end
LogEnd(log) == EndOff(log, Len(log))
IsBoundary(log, off) == off = 0 \/ \E k \in 1..Len(log) : log[k].end = off
CountAt(log, off) == IF off = 0 THEN 0 ELSE CHOOSE k \in 1..Len(log) : log[k].end = off
Prefix(s, k) == SubSeq(s, 1, k)
IdsOf(s) == [i \in 1..Len(s) |-> s[i].id]
UserIds(s) == SelectSeq(IdsOf(s), LAMBDA x : x # 0)
IsPrefix(a, b) == Len(a) <= Len(b) /\ a = SubSeq(b, 1, Len(a))
ToSet(s) == {s[i] : i \in 1..Len(s)}
RECURSIVE SumSz(_)
SumSz(s) == IF s = <<>> THEN 0 ELSE s[1].sz + SumSz(Tail(s))
Min(a, b) == IF a < b THEN a ELSE b
Max(a, b) == IF a > b THEN a ELSE b

Record(h) == IF MaxOps > 0 THEN Append(hist, h) ELSE hist
NoDb == [app |-> <<>>, off |-> 0]

Init == /\ blog = << Rec(0, StartSize, 0) >>      \* CreateEmptyFsBinlog: LevStart, fsynced
        /\ written = 1 /\ synced = 1
        /\ cinfo = 0
        /\ dbC = NoDb /\ tx = NoDb /\ dbOffset = 0
        /\ up = "down" /\ lock = 0 /\ waitQ = <<>>
        /\ rst = "none" /\ queue = <<>> /\ qOff = 0 /\ rpos = 0 /\ rcommit = 0
        /\ cl = [w \in Writes |-> "new"]
        /\ acked = {} /\ failedW = {} /\ seen = [r \in Readers |-> <<>>] /\ readRet = {}
        /\ nreads = 0 /\ crashes = 0 /\ closes = 0
        /\ durable = blog
        /\ hist = <<>>

-------------------------------------------------------------------------------
(* binlog_engine.go: apply() -- one payload of complete events starting at e.dbOffset.
   chunk: the records of the payload (their .end are absolute offsets).               *)
RECURSIVE DropBytes(_, _)
DropBytes(chunk, k) == IF k <= 0 \/ chunk = <<>> THEN chunk ELSE DropBytes(Tail(chunk), k - chunk[1].sz)

ApplyRes(txv, dbo, chunk) ==
  LET len == SumSz(chunk)
      ahead == IF txv.off > dbo THEN txv.off - dbo ELSE 0          \* dbOffset (stored) > offset
      skipLen == Min(ahead, len)                                   \* shouldSkipLen
      rest == DropBytes(chunk, skipLen)                            \* payload[shouldSkipLen:]
  IN IF ahead > 0 /\ skipLen = len
       THEN [tx |-> txv, dbo |-> dbo]                               \* oddity: no progress reported
       ELSE [tx |-> [app |-> txv.app \o IdsOf(rest), off |-> dbo + len], dbo |-> dbo + len]

\* binlog_engine.go: skip()
SkipRes(txv, dbo, n) == [tx |-> [app |-> txv.app, off |-> dbo + n], dbo |-> dbo + n]

\* payload_queue.go: applyAllChanges
RECURSIVE DrainRes(_, _, _)
DrainRes(txv, dbo, q) ==
  IF q = <<>> THEN [tx |-> txv, dbo |-> dbo]
  ELSE LET r == IF q[1].skip > 0 THEN SkipRes(txv, dbo, q[1].skip) ELSE ApplyRes(txv, dbo, q[1].body)
       IN DrainRes(r.tx, r.dbo, Tail(q))

\* engine.go: binlogNotifyWaited -- number of entries released from the head of waitQ
RECURSIVE Leading(_, _)
Leading(q, c) == IF q = <<>> THEN 0
                 ELSE IF ~q[1].rd /\ q[1].off > c THEN 0 ELSE 1 + Leading(Tail(q), c)

(* binlog_engine.go: Commit(offset), in the three pieces a process kill can separate:
   CommitStore  committedInfo.Store + binlogNotifyWaited (early return when the offset is
                below the stored one),
   CommitTx     commitTXAndStartNew(true, false) when the engine was waiting for this commit,
   Drain        applyQueue.applyAllChanges.                                             *)
Released(off) == IF cinfo > off THEN <<>> ELSE Prefix(waitQ, Leading(waitQ, off))
RelW(off) == LET rel == Released(off) IN {rel[i].w : i \in {j \in 1..Len(rel) : ~rel[j].rd}}
RelR(off) == LET rel == Released(off) IN {rel[i].obs : i \in {j \in 1..Len(rel) : rel[j].rd}}

CommitStoreBase(off) ==
  IF cinfo > off
  THEN UNCHANGED <<cinfo, waitQ, cl>>
  ELSE /\ cinfo' = off
       /\ waitQ' = SubSeq(waitQ, Len(Released(off)) + 1, Len(waitQ))
       \* a released commit-now Do (lock = w) continues in DoNowFinish, the others return
       /\ cl' = [w \in Writes |-> IF w \in RelW(off) /\ lock # w THEN "done" ELSE cl[w]]

CommitStore(off) ==
  /\ CommitStoreBase(off)
  /\ acked' = IF Dur = "wait" THEN acked \cup RelW(off) ELSE acked
  /\ readRet' = readRet \cup RelR(off)

DrainEnabled(off) == cinfo <= off /\ rst = "wtc" /\ off >= dbOffset
CommitTxEffect == dbC' = tx
DrainEffect == LET r == DrainRes(tx, dbOffset, queue)
               IN tx' = r.tx /\ dbOffset' = r.dbo /\ rst' = "none" /\ queue' = <<>>

CommitCore(off) ==
  /\ CommitStore(off)
  /\ IF DrainEnabled(off) THEN CommitTxEffect /\ DrainEffect
                           ELSE UNCHANGED <<dbC, tx, dbOffset, rst, queue>>

-------------------------------------------------------------------------------
(* MASTER: Do / View *)
Serving == up = "up" /\ lock = 0

\* fsbinlog.putLevToBuffer: the event, optionally followed by a record of the binlog's own
AppendRecs(w, sz, svc) ==
  LET e == Rec(w, sz, LogEnd(blog))
  IN IF svc = 0 THEN <<e>> ELSE <<e, Rec(0, svc, e.end)>>

(* engine.go doWithoutWait, successful callback that returns an event, in its two sections:
   DoAppend  callback inside the savepoint, binlogUpdateOffset with the predicted offset in the
             same write transaction, Append / AppendASAP, e.dbOffset = returned offset.  The Do
             keeps the connection (lock = w);
   DoQueue   the section under waitQMx: the binlog writer runs concurrently and may have
             committed the event already (alreadyCommitted) -- then the Do returns at once, in
             NoWaitCommit without the COMMIT it was about to make; otherwise it enters the wait
             queue and (WaitCommit) releases the connection and waits outside, or (NoWaitCommit,
             commit-now) keeps the connection until the channel is closed.                     *)
DoAppendBase(w, sz, svc, kind) ==
  /\ Serving /\ Role = "master"
  /\ Dur = (IF kind = "wait" THEN "wait" ELSE "nowait")
  /\ cl[w] = "new"
  /\ dbOffset = LogEnd(blog)                                   \* else Append refuses the offset
  /\ LET recs == AppendRecs(w, sz, svc)
     IN /\ tx' = [app |-> Append(tx.app, w), off |-> dbOffset + sz]
        /\ blog' = blog \o recs
        /\ dbOffset' = recs[Len(recs)].end
  /\ IF kind = "lazy"                                          \* NoWaitCommit, timer not due: plain Append, return
       THEN lock' = 0 /\ cl' = [cl EXCEPT ![w] = "done"]
       ELSE lock' = w /\ cl' = [cl EXCEPT ![w] = "appended"]
  /\ UNCHANGED <<written, synced, cinfo, dbC, up, waitQ, rst, queue, qOff, rpos, rcommit, acked, failedW,
                 seen, readRet, nreads, crashes, closes, durable>>

DoQueueEffect(w, waits) ==
  /\ up = "up" /\ lock = w /\ cl[w] = "appended"
  /\ IF waits
       THEN /\ waitQ' = Append(waitQ, [off |-> tx.off, w |-> w, rd |-> FALSE, obs |-> <<>>])
            /\ cl' = [cl EXCEPT ![w] = "waiting"]
            /\ lock' = IF Dur = "wait" THEN 0 ELSE w
       ELSE /\ waitQ' = waitQ
            /\ cl' = [cl EXCEPT ![w] = "done"]
            /\ lock' = 0
  /\ UNCHANGED <<blog, written, synced, cinfo, dbC, tx, dbOffset, up, rst, queue, qOff, rpos, rcommit, failedW,
                 seen, readRet, nreads, crashes, closes, durable>>

DoQueueCore(w) ==
  /\ DoQueueEffect(w, ~(tx.off <= cinfo))                       \* alreadyCommitted
  /\ acked' = IF Dur = "wait" /\ tx.off <= cinfo THEN acked \cup {w} ELSE acked

DoWriteCore(w, svc) == w \notin FailW /\ DoAppendBase(w, Size(w), svc, "wait")
DoWriteLazyCore(w, svc) == w \notin FailW /\ DoAppendBase(w, Size(w), svc, "lazy")
DoNowBeginCore(w, svc) == w \notin FailW /\ DoAppendBase(w, Size(w), svc, "now")

\* ... the channel was closed: commitRWTXAndStartNewLocked(c, true, false, false)
DoNowFinishCore(w) ==
  /\ up = "up" /\ lock = w /\ cl[w] = "waiting"
  /\ \A i \in 1..Len(waitQ) : waitQ[i].w # w
  /\ dbC' = tx
  /\ lock' = 0
  /\ cl' = [cl EXCEPT ![w] = "done"]
  /\ UNCHANGED <<blog, written, synced, cinfo, tx, dbOffset, up, waitQ, rst, queue, qOff, rpos, rcommit,
                 acked, failedW, seen, readRet, nreads, crashes, closes, durable>>

\* failing callback: its statement ran inside the savepoint, then ROLLBACK TO; no event
DoWriteFailBase(w) ==
  /\ Serving /\ Role = "master"
  /\ cl[w] = "new"
  /\ LET inSavepoint == [app |-> Append(tx.app, w), off |-> tx.off]
         rolledBack == tx
     IN tx' = rolledBack
  /\ cl' = [cl EXCEPT ![w] = "failed"]
  /\ failedW' = failedW \cup {w}
  /\ UNCHANGED <<blog, written, synced, cinfo, dbC, dbOffset, up, lock, waitQ, rst, queue, qOff, rpos,
                 rcommit, acked, seen, readRet, nreads, crashes, closes, durable>>

DoWriteFailCore(w) == w \in FailW /\ DoWriteFailBase(w)

\* Do on a replica with an event: "failed to write binlog in replica mode", rolled back
DoWriteReplicaCore(w) ==
  /\ Serving /\ Role = "replica"
  /\ cl[w] = "new"
  /\ cl' = [cl EXCEPT ![w] = "failed"]
  /\ failedW' = failedW \cup {w}
  /\ UNCHANGED <<blog, written, synced, cinfo, dbC, tx, dbOffset, up, lock, waitQ, rst, queue, qOff, rpos,
                 rcommit, acked, seen, readRet, nreads, crashes, closes, durable>>

\* Do whose callback returns no event (a read through the write connection)
DoReadCore ==
  /\ Serving
  /\ nreads < MaxReads
  /\ nreads' = nreads + 1
  /\ IF Dur = "wait" /\ waitQ # <<>>                     \* uncommittedWriteExists
       THEN /\ waitQ' = Append(waitQ, [off |-> 0, w |-> 0, rd |-> TRUE, obs |-> tx.app])
            /\ readRet' = readRet
       ELSE /\ waitQ' = waitQ
            /\ readRet' = IF Dur = "wait" THEN readRet \cup {tx.app} ELSE readRet
  /\ UNCHANGED <<blog, written, synced, cinfo, dbC, tx, dbOffset, up, lock, rst, queue, qOff, rpos, rcommit,
                 cl, acked, failedW, seen, crashes, closes, durable>>

\* View: a read-only connection sees the committed database
ViewCore(r) ==
  /\ up = "up"
  /\ seen' = [seen EXCEPT ![r] = dbC.app]
  /\ UNCHANGED <<blog, written, synced, cinfo, dbC, tx, dbOffset, up, lock, waitQ, rst, queue, qOff, rpos,
                 rcommit, cl, acked, failedW, readRet, nreads, crashes, closes, durable>>

\* engine.go txLoop -> commitTXAndStartNew(true, true): binlogWaitDBSync, then COMMIT; BEGIN
TxCommitEffect ==
  /\ dbC' = tx                                               \* COMMIT; BEGIN IMMEDIATE
  /\ UNCHANGED <<blog, written, synced, cinfo, tx, dbOffset, up, lock, waitQ, rst, queue, qOff, rpos, rcommit,
                 cl, acked, failedW, seen, readRet, nreads, crashes, closes, durable>>
TxCommitCore ==
  /\ Serving /\ Role = "master" /\ Dur = "wait"
  /\ cinfo >= dbOffset                                       \* binlogWaitDBSync
  /\ TxCommitEffect
-------------------------------------------------------------------------------
(* fsbinlog writer loop (writer.go loop): replaceBuff+write, fsync, Engine.Commit *)
BlWriteCore ==
  /\ up = "up" /\ Role = "master"
  /\ written < Len(blog)
  /\ written' = Len(blog)
  /\ UNCHANGED <<blog, synced, cinfo, dbC, tx, dbOffset, up, lock, waitQ, rst, queue, qOff, rpos, rcommit,
                 cl, acked, failedW, seen, readRet, nreads, crashes, closes, durable>>

BlSyncCore ==
  /\ up = "up" /\ Role = "master"
  /\ synced < written
  /\ synced' = written
  /\ UNCHANGED <<blog, written, cinfo, dbC, tx, dbOffset, up, lock, waitQ, rst, queue, qOff, rpos, rcommit,
                 cl, acked, failedW, seen, readRet, nreads, crashes, closes, durable>>

BlCommitCore ==
  /\ up = "up" /\ Role = "master"
  /\ cinfo < EndOff(blog, synced)
  /\ CommitCore(EndOff(blog, synced))
  /\ UNCHANGED <<blog, written, synced, up, lock, qOff, rpos, rcommit, failedW, seen, nreads, crashes,
                 closes, durable>>

-------------------------------------------------------------------------------
(* READING: restart re-read (master and replica) and the endless read of a replica *)
Reading == up = "replay" \/ (Role = "replica" /\ up = "up")

\* the replica's master, another process: records appear in the file
ExtAppendCore(w, svc) ==
  /\ Role = "replica" /\ up # "down"
  /\ cl[w] = "new" /\ w \notin FailW
  /\ blog' = blog \o AppendRecs(w, Size(w), svc)
  /\ written' = Len(blog') /\ synced' = Len(blog')
  /\ cl' = [cl EXCEPT ![w] = "done"]
  /\ UNCHANGED <<cinfo, dbC, tx, dbOffset, up, lock, waitQ, rst, queue, qOff, rpos, rcommit, acked, failedW,
                 seen, readRet, nreads, crashes, closes, durable>>

\* reader.go default branch -> Engine.Apply(payload) with n complete events; `elapsed` is
\* the clock condition time.Since(lastCommitTime) > CommitEvery
(* `tail` is what follows the n complete events in the payload: "none"; "partial" = the first
   bytes of an event whose rest is not in the buffer / not in the file yet (chunk boundary of
   the reader, a master that is writing, a torn tail) -- the apply callback consumes the n
   events and reports ErrorNotEnoughData; "svc" = a record of the binlog's own -- the callback
   reports ErrorUnknownMagic.  In both cases apply() still stores offset + n in the same
   transaction and advances e.dbOffset, and the error goes back to the binlog, which calls
   again with more data.  (Not combined with the Desync move: there the skip arithmetic would
   cut inside the tail.)                                                                   *)
ReadApplyCore(n, elapsed, tail) ==
  /\ Reading
  /\ n >= 0 /\ (n = 0 => tail # "none") /\ rpos + n <= written
  /\ \A i \in (rpos + 1)..(rpos + n) : blog[i].id # 0
  /\ tail = "svc" => (rpos + n < written /\ blog[rpos + n + 1].id = 0)
  /\ tail # "none" => tx.off <= dbOffset
  \* (bound of the model: a payload without a complete event is queued as an empty body each
  \* time the binlog retries; one such entry in a row is enough)
  /\ (n = 0 /\ queue # <<>>) => queue[Len(queue)].body # <<>> \/ queue[Len(queue)].skip > 0
  /\ LET chunk == SubSeq(blog, rpos + 1, rpos + n)
     IN IF (elapsed \/ rst = "wtc") /\ dbOffset > cinfo
          THEN /\ rst' = "wtc"
               /\ queue' = Append(queue, [body |-> chunk, skip |-> 0])           \* addNewBody
               /\ qOff' = (IF rst = "none" THEN dbOffset ELSE qOff) + SumSz(chunk)
               /\ UNCHANGED <<tx, dbOffset>>
               /\ rpos' = rpos + n
          ELSE LET r == ApplyRes(tx, dbOffset, chunk)
               IN /\ tx' = r.tx /\ dbOffset' = r.dbo
                  /\ UNCHANGED <<rst, queue, qOff>>
                  \* no progress reported (whole payload below the stored offset): fsbinlog
                  \* gives up ("didnt read any bytes nor return any error")
                  /\ rpos' = IF r.dbo = dbOffset THEN rpos ELSE rpos + n
  /\ UNCHANGED <<blog, written, synced, cinfo, dbC, up, lock, waitQ, rcommit, cl, acked, failedW, seen,
                 readRet, nreads, crashes, closes, durable>>

\* reader.go service record -> Engine.Skip(len)
ReadSkipCore ==
  /\ Reading
  /\ rpos < written /\ blog[rpos + 1].id = 0
  /\ LET n == blog[rpos + 1].sz
     IN IF rst = "wtc"
          THEN /\ queue' = Append(queue, [body |-> <<>>, skip |-> n])             \* addNewSkip
               /\ qOff' = qOff + n
               /\ UNCHANGED <<tx, dbOffset>>
          ELSE LET r == SkipRes(tx, dbOffset, n)
               IN /\ tx' = r.tx /\ dbOffset' = r.dbo
                  /\ UNCHANGED <<queue, qOff>>
  /\ rpos' = rpos + 1
  /\ UNCHANGED <<blog, written, synced, cinfo, dbC, up, lock, waitQ, rst, rcommit, cl, acked, failedW, seen,
                 readRet, nreads, crashes, closes, durable>>

\* reader.go makeCommit: fsync of the file being read, then Engine.Commit(curPos)
ReadCommitCore ==
  /\ Reading
  /\ rcommit' = rpos
  /\ synced' = Max(synced, rpos)
  /\ CommitCore(EndOff(blog, rpos))
  /\ UNCHANGED <<blog, written, up, lock, qOff, rpos, failedW, seen, nreads, crashes, closes, durable>>

\* S->I only: a binlog other than fsbinlog may report a commit below the position it has
\* delivered (Commit's early return and its "offset >= e.dbOffset" test)
ReadCommitLowCore(k) ==
  /\ AllowDesync /\ Reading
  /\ k >= 1 /\ k < rpos
  /\ CommitCore(EndOff(blog, k))
  /\ UNCHANGED <<blog, written, synced, up, lock, qOff, rpos, rcommit, failedW, seen, nreads, crashes, closes, durable>>

\* end of the re-read of a master: final makeCommit, WriteLoop's Commit(ri.Offset),
\* ChangeRole(ready), binlogWaitReady drains what is still queued; txLoop starts
ReplayDoneCore ==
  /\ up = "replay" /\ Role = "master"
  /\ rpos = written /\ rcommit = rpos
  /\ LET r == IF rst = "wtc" THEN DrainRes(tx, dbOffset, queue) ELSE [tx |-> tx, dbo |-> dbOffset]
     IN /\ tx' = r.tx /\ dbOffset' = r.dbo
  /\ rst' = "none" /\ queue' = <<>>
  /\ up' = "up"
  /\ UNCHANGED <<blog, written, synced, cinfo, dbC, lock, waitQ, qOff, rpos, rcommit, cl, acked, failedW, seen,
                 readRet, nreads, crashes, closes, durable>>

\* S->I only: the binlog is started below the offset stored in the database
DesyncCore(k) ==
  /\ AllowDesync /\ Reading /\ rst = "none" /\ queue = <<>>
  /\ k >= 1 /\ k < rpos /\ rcommit = rpos
  /\ cinfo >= EndOff(blog, rpos)          \* nothing is queued while the engine is behind its database
  \* only events are re-delivered: skip() does not consult the stored offset (apply() does)
  /\ \A i \in (k + 1)..rpos : blog[i].id # 0
  /\ rpos' = k /\ rcommit' = k
  /\ dbOffset' = EndOff(blog, k)
  /\ UNCHANGED <<blog, written, synced, cinfo, dbC, tx, up, lock, waitQ, rst, queue, qOff, cl, acked, failedW,
                 seen, readRet, nreads, crashes, closes, durable>>

-------------------------------------------------------------------------------
(* Crash (SIGKILL), Restart, Close *)
CrashCore ==
  /\ up # "down"
  /\ crashes < MaxCrash
  /\ crashes' = crashes + 1
  /\ blog' = IF Role = "master" THEN Prefix(blog, written) ELSE blog
  /\ durable' = blog'
  /\ up' = "down" /\ lock' = 0 /\ waitQ' = <<>>
  /\ tx' = dbC /\ dbOffset' = 0 /\ cinfo' = 0
  /\ rst' = "none" /\ queue' = <<>> /\ qOff' = 0 /\ rpos' = 0 /\ rcommit' = 0
  /\ cl' = [w \in Writes |-> IF cl[w] \in {"waiting", "appended"} THEN "lost" ELSE cl[w]]
  /\ UNCHANGED <<written, synced, dbC, acked, failedW, seen, readRet, nreads, closes>>

\* OpenEngine: binlogLoadOrCreatePosition, binlog.Run(offset, ...)
RestartCore ==
  /\ up = "down"
  /\ IsBoundary(blog, dbC.off)                    \* else the reader starts inside a record
  /\ up' = IF Role = "master" THEN "replay" ELSE "up"
  /\ tx' = dbC /\ dbOffset' = dbC.off
  /\ rpos' = CountAt(blog, dbC.off) /\ rcommit' = rpos'
  /\ cinfo' = 0
  /\ UNCHANGED <<blog, written, synced, dbC, lock, waitQ, rst, queue, qOff, cl, acked, failedW, seen, readRet,
                 nreads, crashes, closes, durable>>

\* Engine.Close on a master: RequestShutdown (the writer flushes, fsyncs, commits), then
\* commitTXAndStartNew(true, true)
CloseCore ==
  /\ Serving /\ Role = "master"
  /\ closes < MaxClose
  /\ closes' = closes + 1
  /\ written' = Len(blog) /\ synced' = Len(blog)
  /\ LET n == Len(waitQ)
         relW == {waitQ[i].w : i \in {j \in 1..n : ~waitQ[j].rd}}
         relR == {waitQ[i].obs : i \in {j \in 1..n : waitQ[j].rd}}
     IN /\ acked' = IF Dur = "wait" THEN acked \cup relW ELSE acked
        /\ readRet' = readRet \cup relR
        /\ cl' = [w \in Writes |-> IF w \in relW THEN "done" ELSE cl[w]]
  /\ waitQ' = <<>>
  /\ cinfo' = 0
  /\ dbC' = tx
  /\ up' = "down" /\ dbOffset' = 0
  /\ durable' = blog
  /\ rpos' = 0 /\ rcommit' = 0
  /\ UNCHANGED <<blog, tx, lock, rst, queue, qOff, failedW, seen, nreads, crashes>>

-------------------------------------------------------------------------------
(* actions with history *)
Post == [dbo |-> dbOffset', rst |-> rst', qlen |-> Len(queue'), qoff |-> qOff', cinfo |-> cinfo',
         txapp |-> tx'.app, txoff |-> tx'.off, dbapp |-> dbC'.app, dboff |-> dbC'.off]

\* bound on the behaviour length (export only); inside the actions so that TLC's coverage is per action
Bound == MaxOps > 0 => Len(hist) < MaxOps

DoWrite(w, s) == Bound /\ DoWriteCore(w, s) /\ hist' = Record([a |-> "DoWrite", w |-> w, svc |-> s])
DoWriteLazy(w, s) == Bound /\ DoWriteLazyCore(w, s) /\ hist' = Record([a |-> "DoWriteLazy", w |-> w, svc |-> s])
DoNowBegin(w, s) == Bound /\ DoNowBeginCore(w, s) /\ hist' = Record([a |-> "DoNowBegin", w |-> w, svc |-> s])
DoQueue(w) == Bound /\ DoQueueCore(w) /\ hist' = Record([a |-> "DoQueue", w |-> w])
DoNowFinish(w) == Bound /\ DoNowFinishCore(w) /\ hist' = Record([a |-> "DoNowFinish", w |-> w])
DoWriteFail(w) == Bound /\ DoWriteFailCore(w) /\ hist' = Record([a |-> "DoWriteFail", w |-> w])
DoWriteReplica(w) == Bound /\ DoWriteReplicaCore(w) /\ hist' = Record([a |-> "DoWriteReplica", w |-> w, post |-> Post])
DoRead == Bound /\ DoReadCore /\ hist' = Record([a |-> "DoRead"])
ViewA(r) == Bound /\ ViewCore(r) /\ hist' = Record([a |-> "View", r |-> r])
TxCommit == Bound /\ TxCommitCore /\ hist' = Record([a |-> "TxCommit"])
BlWrite == Bound /\ BlWriteCore /\ hist' = Record([a |-> "BlWrite"])
BlSync == Bound /\ BlSyncCore /\ hist' = Record([a |-> "BlSync"])
BlCommit == Bound /\ BlCommitCore /\ hist' = Record([a |-> "BlCommit"])
ExtAppend(w, s) == Bound /\ ExtAppendCore(w, s) /\ hist' = Record([a |-> "ExtAppend", w |-> w, svc |-> s])
ReadApply(n, el, tl) == Bound /\ ReadApplyCore(n, el, tl)
                        /\ hist' = Record([a |-> "Apply", ids |-> IdsOf(SubSeq(blog, rpos + 1, rpos + n)),
                                           szs |-> [i \in 1..n |-> blog[rpos + i].sz], elapsed |-> el,
                                           tail |-> tl, post |-> Post])
ReadSkip == Bound /\ ReadSkipCore /\ hist' = Record([a |-> "Skip", n |-> blog[rpos + 1].sz, post |-> Post])
ReadCommit == Bound /\ rcommit # rpos /\ ReadCommitCore /\ hist' = Record([a |-> "Commit", off |-> EndOff(blog, rpos), post |-> Post])
ReadCommitLow(k) == Bound /\ ReadCommitLowCore(k) /\ hist' = Record([a |-> "Commit", off |-> EndOff(blog, k), post |-> Post])
ReplayDone == Bound /\ ReplayDoneCore /\ hist' = Record([a |-> "ReplayDone"])
Desync(k) == Bound /\ DesyncCore(k) /\ hist' = Record([a |-> "Desync", off |-> EndOff(blog, k), post |-> Post])
Crash == Bound /\ CrashCore /\ hist' = Record([a |-> "Crash"])
Restart == Bound /\ RestartCore /\ hist' = Record([a |-> "Restart", post |-> Post])
Close == Bound /\ CloseCore /\ hist' = Record([a |-> "Close"])

Svc == {0} \cup SvcSizes

Next == \/ \E w \in Writes, s \in Svc : DoWrite(w, s) \/ DoWriteLazy(w, s) \/ DoNowBegin(w, s) \/ ExtAppend(w, s)
        \/ \E w \in Writes : DoQueue(w) \/ DoNowFinish(w) \/ DoWriteFail(w) \/ DoWriteReplica(w)
        \/ DoRead
        \/ \E r \in Readers : ViewA(r)
        \/ TxCommit \/ BlWrite \/ BlSync \/ BlCommit
        \/ \E n \in 0..Cardinality(Writes), el \in BOOLEAN, tl \in {"none", "partial", "svc"} : ReadApply(n, el, tl)
        \/ ReadSkip \/ ReadCommit \/ ReplayDone
        \/ \E k \in 1..Len(blog) : Desync(k) \/ ReadCommitLow(k)
        \/ Crash \/ Restart \/ Close

Spec == Init /\ [][Next]_vars
\* the binlog writer keeps running (for the liveness property below)
FairSpec == Spec /\ WF_vars(BlWrite) /\ WF_vars(BlSync) /\ WF_vars(BlCommit) /\ WF_vars(\E w \in Writes : DoQueue(w))

-------------------------------------------------------------------------------
(* PROPERTY *)

TypeOK == /\ written \in 0..Len(blog) /\ synced \in 0..written
          /\ up \in {"down", "replay", "up"}
          /\ rst \in {"none", "wtc"}

(* "At every moment the database reflects exactly the application of a prefix of the
   binlog, and its stored binlog offset marks the end of that prefix."  The committed
   database is what a process kill leaves behind.                                        *)
DbIsPrefix == /\ IsBoundary(blog, dbC.off)
              /\ dbC.app = UserIds(Prefix(blog, CountAt(blog, dbC.off)))

(* ... of the DURABLE binlog: the stored offset never points beyond what the binlog file
   holds (process kill) -- per the mechanism not beyond what was fsynced either.           *)
DbNotAheadOfFile == dbC.off <= EndOff(blog, written)
DbNotAheadOfSync == dbC.off <= EndOff(blog, synced)

(* the write connection between operations: exactly the whole binlog (buffer included) *)
TxMirrorsBinlog == (up = "up" /\ lock = 0 /\ Role = "master") =>
                      /\ tx.app = UserIds(blog)
                      /\ dbOffset = LogEnd(blog)
                      /\ IsBoundary(blog, tx.off)
                      /\ tx.app = UserIds(Prefix(blog, CountAt(blog, tx.off)))
(* while reading (restart, replica): exactly the records handed over and not queued *)
TxMirrorsRead == (up # "down" /\ IsBoundary(blog, tx.off)) =>
                      tx.app = UserIds(Prefix(blog, CountAt(blog, tx.off)))
TxOffIsBoundary == up # "down" => IsBoundary(blog, tx.off) /\ IsBoundary(blog, dbOffset)

(* "after a crash at any point and a restart, the state equals the application of every
   event in the durable binlog" *)
RecoveredAll == (up = "up" /\ Role = "master") => IsPrefix(UserIds(durable), tx.app)
RecoveredExact == (up = "up" /\ Role = "master" /\ Len(blog) = Len(durable) /\ lock = 0) =>
                      tx.app = UserIds(durable)

(* "so every write acknowledged in wait-for-commit mode is present" *)
AckedDurable == \A w \in acked : w \in ToSet(UserIds(Prefix(blog, synced)))
AckedRecovered == (up = "up" /\ Role = "master") => \A w \in acked : w \in ToSet(tx.app)

(* "A write whose callback fails leaves neither a database change nor a binlog record" *)
FailedNowhere == \A w \in failedW : /\ w \notin ToSet(IdsOf(blog))
                                   /\ w \notin ToSet(tx.app)
                                   /\ w \notin ToSet(dbC.app)

(* "readers never observe effects of events not yet in the binlog" *)
ViewWithinBinlog == \A r \in Readers : IsPrefix(seen[r], UserIds(Prefix(blog, synced)))
ReadWithinBinlog == \A o \in readRet : IsPrefix(o, UserIds(Prefix(blog, synced)))

(* committedInfo never ahead of fsync; the stored offsets and commits never go backwards *)
CommitInfoSound == cinfo <= EndOff(blog, synced)
Monotone == [][ /\ dbC'.off >= dbC.off
                /\ IsPrefix(dbC.app, dbC'.app)
                /\ (up = "up" /\ up' = "up" => cinfo' >= cinfo) ]_vars

(* liveness (WaitCommit): a Do that waits for the binlog commit is eventually acknowledged,
   unless the process is killed first *)
WaitersServed == \A w \in Writes : (cl[w] = "waiting") ~> (cl[w] \in {"done", "lost"})
\* (DoQueue must also be fair for it: a Do does not stop between its two sections)

Export == PrintT(<<"BEH", ToJson(hist')>>)
ExportEnd == IF Len(hist') >= MaxOps THEN PrintT(<<"BEH", ToJson(hist')>>) ELSE TRUE
===============================================================================
