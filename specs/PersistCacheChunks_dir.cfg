INIT Init
NEXT Next
CONSTANTS
  Magic = 7
  OtherMagic = 8
  Half = 2
  Max = 4
  SizeAlts = {0, 1, 2, 3, 4, 5}
  ItemSizes = {1, 2}
  MaxItems = 4
  MaxOpens = 3
  MaxDamage = 0
  MaxOps = 14
VIEW View
INVARIANTS PrefixOfSaved NoDamagedItem ExactReload WriterPosition CommittedInFile NoEmptyChunk
ACTION_CONSTRAINT Directed Export
CHECK_DEADLOCK FALSE
