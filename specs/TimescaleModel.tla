---------------------------- MODULE TimescaleModel ----------------------------
(* C22 - a SMALL abstract model of the level-of-detail planner of
   data_model.GetTimescale / Timescale.GetLODs (internal/data_model/timescale.go), checked
   exhaustively against the contract of Timescale.tla for tiny constants.

   Transcribed (in outline, same order of decisions as the code):
     - the table levels (lodLevels): level i serves data older than now - LevelRel[i] with the
       steps LevelSteps[i] (coarsest first; every list extends the previous one);
     - the outer loop over levels with the running start, the "edge" of a level, point queries
       taking the whole range from the first applicable level;
     - the inner loop over steps: "a step can not grow", rounding of the first level's start,
       endOfLOD up to the edge, the point budget (MaxPts) with fall-back to the previous step,
       stopping at the requested step / metric resolution or when the screen width is exceeded;
     - appendLOD merging equal steps; a level that contributes no point is skipped (the code
       after "fix: a level that begins exactly at the query start");
     - the offsets check; generation of the axis with the one/two extra points before the start,
       StartX / ViewStartX / ViewEndX, the extra point after the end for Extend; the two-point
       axis of point queries; GetLODs.
   Abstracted: calendar months (no monthly step here), versions, pre-key flags; endOfLOD is the
   closed form of the code's loop; one metric (offs = <<off>>). *)
EXTENDS Timescale, TLC

CONSTANTS LevelRel,     \* sequence of relSwitch, oldest level first, the last is 0
          LevelSteps,   \* sequence of sequences of steps
          MaxPts,       \* maxPoints
          Starts, Durs, StepsAsked, Nows, Widths, Utcs, MetricRes, Offs

VARIABLES args, res

RoundTime(t, st, utc) == ((t + utc) \div st) * st - utc      \* roundTime/mathDiv: floor division

(* endOfLOD(start, step, end, le): [pos, n] *)
EndOfLOD(start, st, end, le) ==
    LET n == IF start >= end THEN 0
             ELSE IF le THEN (end - start) \div st
             ELSE ((end - start) + st - 1) \div st
    IN [pos |-> start + n * st, n |-> n]

AppendLOD(lods, lod) ==
    IF Len(lods) # 0 /\ lods[Len(lods)].step = lod.step
    THEN [lods EXCEPT ![Len(lods)].len = @ + lod.len]
    ELSE Append(lods, lod)

(* inner loop over the steps of one level; c = context of the level *)
RECURSIVE Inner(_, _, _, _)
Inner(c, j, lod, lodEnd) ==
    IF j > Len(c.steps) THEN [lod |-> lod, lodEnd |-> lodEnd, err |-> FALSE]
    ELSE LET step == c.steps[j] IN
      IF 0 < lod.step /\ lod.step < step THEN Inner(c, j + 1, lod, lodEnd)   \* step can not grow
      ELSE LET lodStart == IF c.first THEN RoundTime(c.start, step, c.utc) ELSE c.start
               e1 == EndOfLOD(lodStart, step, c.edge, FALSE)
               m  == EndOfLOD(e1.pos, step, c.end, FALSE).n
               n  == IF c.point THEN 0 ELSE c.resLen + e1.n + m
           IN IF ~c.point /\ MaxPts < n
              THEN IF lod.step = 0
                   THEN [lod |-> lod, lodEnd |-> lodEnd, err |-> TRUE]       \* errQueryOutOfRange
                   ELSE LET ls == IF c.first THEN RoundTime(c.start, lod.step, c.utc) ELSE lodStart
                            e2 == EndOfLOD(ls, lod.step, c.end, FALSE)
                        IN [lod |-> [step |-> lod.step, len |-> e2.n], lodEnd |-> e2.pos, err |-> FALSE]
              ELSE IF step <= c.minStep \/ (c.width # 0 /\ c.width < n)
                   THEN LET e3 == EndOfLOD(e1.pos, step, c.end, FALSE)
                        IN [lod |-> [step |-> step, len |-> e1.n + e3.n], lodEnd |-> e3.pos, err |-> FALSE]
                   ELSE Inner(c, j + 1, [step |-> step, len |-> e1.n], e1.pos)

(* outer loop over the levels; s = [start, resLen, lod, lods, err] *)
RECURSIVE Outer(_, _, _)
Outer(a, i, s) ==
    LET end == a.end - a.maxoff IN
    IF i > Len(LevelRel) \/ ~(s.start < end) \/ s.err # "none" THEN s
    ELSE LET edge0 == a.now - LevelRel[i] IN
      IF edge0 < s.start THEN Outer(a, i + 1, s)
      ELSE LET edge == IF end < edge0 \/ a.point THEN end ELSE edge0
               c == [steps |-> LevelSteps[i], first |-> Len(s.lods) = 0, start |-> s.start, utc |-> a.utc,
                     edge |-> edge, end |-> end, point |-> a.point, resLen |-> s.resLen,
                     minStep |-> IF a.point \/ a.step < a.res THEN a.res ELSE a.step, width |-> a.width]
               r == Inner(c, 1, [step |-> s.lod.step, len |-> 0], 0)
           IN IF r.err THEN [s EXCEPT !.err = "range"]
              ELSE IF r.lod.step <= 0 \/ r.lod.len < 0 \/ ~(a.point \/ r.lod.len <= MaxPts)
                   THEN [s EXCEPT !.err = "other"]
                   ELSE Outer(a, i + 1, [start |-> r.lodEnd, resLen |-> s.resLen + r.lod.len, lod |-> r.lod,
                                         lods |-> IF r.lod.len # 0 THEN AppendLOD(s.lods, r.lod) ELSE s.lods,
                                         err |-> "none"])

RECURSIVE Gen(_, _, _)
Gen(lods, k, t) ==
    IF k > Len(lods) THEN <<>>
    ELSE [i \in 1..lods[k].len |-> t + (i - 1) * lods[k].step] \o Gen(lods, k + 1, t + lods[k].len * lods[k].step)
RECURSIVE Span(_, _)
Span(lods, k) == IF k = 0 THEN 0 ELSE Span(lods, k - 1) + lods[k].len * lods[k].step

Empty(a, err) == [time |-> <<>>, lods |-> <<>>, startx |-> 0, vstartx |-> 0, vendx |-> 0, ranges |-> <<>>,
                  err |-> err, rerr |-> err]

(* Timescale.GetLODs(metric, offset) *)
RangesOf(a, time, lods) ==
    LET s0 == IF a.off # 0 THEN RoundTime(time[1] - a.off, lods[1].step, a.utc) ELSE time[1]
    IN [k \in 1..Len(lods) |-> [from |-> s0 + Span(lods, k - 1), to |-> s0 + Span(lods, k), step |-> lods[k].step]]

GetTimescale(a) ==
    IF a.end <= a.start \/ a.step < 0 THEN Empty(a, "none")
    ELSE LET s == Outer(a, 1, [start |-> a.start - a.maxoff, resLen |-> 0, lod |-> [step |-> 0, len |-> 0],
                               lods |-> <<>>, err |-> "none"])
         IN IF s.err # "none" THEN Empty(a, s.err)
            ELSE IF Len(s.lods) = 0 THEN Empty(a, "none")
            ELSE IF a.off % s.lods[1].step # 0 THEN Empty(a, "offset")
            ELSE LET st1 == s.lods[1].step
                     t0 == RoundTime(a.start, st1, a.utc)
                 IN IF a.point
                    THEN LET t == IF t0 < a.start /\ ~a.extend THEN t0 + st1 ELSE t0
                             b == EndOfLOD(t, st1, a.end, ~a.extend).pos
                         IN IF t = b THEN Empty(a, "none")
                            ELSE [time |-> <<t, b>>, lods |-> s.lods, startx |-> 0, vstartx |-> 0, vendx |-> 1,
                                  ranges |-> <<>>, err |-> "none", rerr |-> "none"]
                    ELSE LET before == t0 < a.start
                             sx1 == IF before /\ ~a.extend THEN 1 ELSE 0
                             vs1 == IF before \/ a.extend THEN 1 ELSE 0
                             x1 == IF ~before /\ a.extend THEN 1 ELSE 0          \* extra points in front
                             x2 == IF sx1 = 0 THEN 1 ELSE 0
                             t == t0 - (x1 + x2) * st1
                             vs == vs1 + x2
                             lods1 == [s.lods EXCEPT ![1].len = @ + x1 + x2]
                             time1 == Gen(lods1, 1, t)
                             ve == IF vs < Len(time1) THEN Len(time1) ELSE vs
                             lods2 == IF a.extend THEN [lods1 EXCEPT ![Len(lods1)].len = @ + 1] ELSE lods1
                             time2 == IF a.extend THEN Append(time1, t + Span(lods1, Len(lods1))) ELSE time1
                         IN [time |-> time2, lods |-> lods2, startx |-> 1, vstartx |-> vs, vendx |-> ve,
                             ranges |-> RangesOf(a, time2, lods2), err |-> "none", rerr |-> "none"]

(* the record the contract speaks about *)
Call(a) == LET r == GetTimescale(a)
           IN [start |-> a.start, end |-> a.end, step |-> a.step, now |-> a.now, width |-> a.width,
               point |-> a.point, extend |-> a.extend, utc |-> a.utc, res |-> a.res, offs |-> <<a.off>>,
               maxoff |-> a.maxoff, off |-> a.off, err |-> r.err, rerr |-> r.rerr, time |-> r.time, lods |-> r.lods,
               startx |-> r.startx, vstartx |-> r.vstartx, vendx |-> r.vendx, ranges |-> r.ranges, months |-> <<>>]

(* The state space: Init picks the range (so that TLC spreads the work over its workers), the
   one step enumerates everything else and performs the call. *)
Rest == [step : StepsAsked, now : Nows, width : Widths, utc : Utcs,
         res : MetricRes, off : Offs, point : BOOLEAN, extend : BOOLEAN]
ArgsOf(start, dur, x) ==
    [start |-> start, end |-> start + dur, step |-> x.step, now |-> x.now, width |-> x.width,
     utc |-> x.utc, res |-> x.res, off |-> x.off, maxoff |-> IF x.off > 0 THEN x.off ELSE 0,
     point |-> x.point, extend |-> x.extend, err |-> "called"]

NoCall == [err |-> "init"]
Init == /\ args \in {[err |-> "pre", start |-> s, dur |-> d] : s \in Starts, d \in Durs}
        /\ res = NoCall
Query == \E x \in Rest : LET a == ArgsOf(args.start, args.dur, x)
                         IN args' = a /\ res' = Call(a)
Next == args.err = "pre" /\ Query
Spec == Init /\ [][Next]_<<args, res>>

Called == res # NoCall
(* ---- the property: every clause of the contract, for every call ---- *)
MErrorsAgree == Called => ErrorsAgree(res)
MNoUnexpectedError == Called => NoUnexpectedError(res)
MNonEmpty == Called => NonEmpty(res)
MIncreasing == Called => Increasing(res)
MLODSteps == Called => LODSteps(res)
MLODFiner == Called => LODFiner(res)
MLimit == Called => LimitOK(res)
MLenSum == Called => LenSum(res)
MDiffs == Called => Diffs(res)
MAligned == Called => AlignedAll(res)
MView == Called => View(res)
MCoverStart == Called => CoverStart(res)
MCoverEnd == Called => CoverEnd(res)
MPointShape == Called => PointShape(res)
MRanges == Called => Ranges(res)
(* what the planner itself promises on top of the contract: the budget plus the three extra points *)
MBudget == Called /\ ~res.point => Len(res.time) <= MaxPts + 3

(* non-vacuity probes (used with expect_violation configs only) *)
ProbeMultiLOD == Called => Len(res.lods) < 3
ProbeFallback == Called => ~(res.err = "none" /\ ~res.point /\ Len(res.time) = MaxPts + 3)
===============================================================================
