\* generated by gen_sampler_cfgs.py
INIT MCInit
NEXT MCNextFast
CONSTANTS
  RoundMode = "floor"
  SelectMode = "det"
  LegacyBreak = FALSE
  MetricDefs <- FlatMetrics
  SlotDefs <- FlatSlots5
  Sizes <- Sz13
  WWs = {1, 2}
  MWs = {1}
  NWs = {1}
  GWs = {1}
  Buds = {0}
  BudAllowed <- AllMetrics
  NSAs = {FALSE}
  OptSets <- OptsPlain
  Budgets = {5}
VIEW MCView
INVARIANTS TypeOK AtMostOnce ExactlyOnce Unbiased KeptRowsFactorGE1 NoSampleAgentKept SameFactorInLeaf FitsNothingSampled FairShare FixedWithinBudget FairShareRemaining FitIsJustified Monotone KeptWithinBudget QuotaWithinTotal QuotaProportional QuotaFitIsSize QuotaWithinTotalAnyRounding MustMatchesMechanism ExportDone
CHECK_DEADLOCK FALSE
