------------------------------ MODULE RawTagMC ------------------------------
(* Inputs for RawTag: every token string up to a small length over a reduced alphabet, and the
   boundary neighbourhood of -2^31, 2^32-1, -2^63, 2^64-1 (and a few small / huge magnitudes)
   decorated with signs, leading zeros and junk. *)
EXTENDS RawTag

CONSTANTS ShortLen,       \* exhaustive strings up to this length ...
          ShortAlphabet,  \* ... over these tokens
          Zeros,          \* numbers of leading zeros
          Deltas          \* offsets around each power of two (0..Deltas below and above)

RECURSIVE Rep(_, _)
Rep(t, n) == IF n = 0 THEN <<>> ELSE <<t>> \o Rep(t, n - 1)

RECURSIVE Small(_)
\* digit sequence of a small natural number
Small(k) == IF k = 0 THEN <<>> ELSE Small(k \div 10) \o <<k % 10>>

Powers == {P31, P32, P63, P64}
Mags ==
    UNION {{Add(p, Small(d)) : d \in 0..Deltas} \cup {Sub(p, Small(d)) : d \in 1..Deltas} : p \in Powers}
    \cup {<<>>, <<1>>, <<7>>, <<1,0>>, <<9,9>>, <<6,5,5,3,6>>}
    \cup {<<1>> \o Rep(0, 19), <<2>> \o Rep(0, 19), Rep(9, 20), <<1>> \o Rep(0, 20), Rep(9, 19),
          <<1,8,4,4,6,7,4,4,0,7,3,7,0,9,5,5,1,6,2>>, <<3>> \o Rep(1, 29)}

Signs == {<<>>, <<MINUS>>, <<PLUS>>}

Plain == {sg \o Rep(0, z) \o m : sg \in Signs, z \in Zeros, m \in Mags}

Junked(str) ==
    {<<SP>> \o str, str \o <<SP>>, str \o <<X>>, str \o <<US>>, <<MINUS>> \o str, <<PLUS>> \o str,
     str \o <<MINUS>>, str \o <<PLUS>>}
    \cup (IF Len(str) >= 2 THEN {SubSeq(str, 1, Len(str) - 1) \o <<US>> \o SubSeq(str, Len(str), Len(str)),
                                  SubSeq(str, 1, Len(str) - 1) \o <<SP>> \o SubSeq(str, Len(str), Len(str)),
                                  SubSeq(str, 1, 1) \o <<X>> \o SubSeq(str, 2, Len(str))}
          ELSE {})

RECURSIVE Strings(_)
Strings(n) == IF n = 0 THEN {<<>>} ELSE LET sh == Strings(n - 1) IN sh \cup {Append(x, t) : x \in sh, t \in ShortAlphabet}

MCInputs == Strings(ShortLen) \cup Plain \cup UNION {Junked(p) : p \in {q \in Plain : Len(q) <= 24}}
=============================================================================
