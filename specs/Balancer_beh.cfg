SPECIFICATION Spec
CONSTANTS
  BufLen = 10
  WaitPct = 20
  MaxPkts = 4
  MaxErrs = 1
  MaxSpur = 0
  PktLens <- Len1
  TimeoutSignals = TRUE
  SkipOnErr = TRUE
  ReportRetry = TRUE
  ReportClaim = "swap"
  DeadlineArmed = TRUE
  AllowClose = FALSE
  AllowRecon = FALSE
  RecordHist = TRUE
  MaxHist = 36
VIEW View
ACTION_CONSTRAINT Export
CHECK_DEADLOCK FALSE
