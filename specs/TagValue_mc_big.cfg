\* thorough: all 16 classes, inputs of up to 4 items one of which may be a filler run; all laws + export
SPECIFICATION Spec
CONSTANTS
  MaxLen = 128
  Classes = {"a", "s", "t", "c", "u", "U", "p2", "p3", "p4", "n2", "n3", "n4", "R", "x", "y", "z"}
  Runs = {120, 124, 125, 126, 127, 128, 129}
  MaxItems = 4
  MaxRuns = 1
INVARIANTS
  TypeOK ForceValid ForceIdempotent ValidFixpoint ForceStrAgrees StrictOnlyOnInvalid StrictAgrees
  StrictExact FastAgrees FoldAgrees RefAgrees SlowShape TruncationTight NoCutWhenFits Export
CHECK_DEADLOCK FALSE
