SPECIFICATION Spec
CONSTANTS
  Resolutions <- MCResolutions
  Month = 999
  Limit = 16
  Week = 15
  LevelRel <- MCLevelRel
  LevelSteps <- MCLevelSteps
  MaxPts = 12
  Starts <- MCStartsBig
  Durs <- MCDursBig
  StepsAsked <- MCStepsAskedBig
  Nows <- MCNowsBig
  Widths <- MCWidthsBig
  Utcs <- MCUtcsBig
  MetricRes <- MCMetricRes
  Offs <- MCOffsBig
INVARIANTS MErrorsAgree MNoUnexpectedError MNonEmpty MLODSteps MLODFiner MLimit MIncreasing MLenSum
  MPointShape MDiffs MAligned MView MCoverStart MCoverEnd MRanges MBudget
CHECK_DEADLOCK FALSE
