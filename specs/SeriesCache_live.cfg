SPECIFICATION FairSpec
CONSTANTS
  NChunks = 2
  CS = 1
  NGets = 2
  Ranges <- AllRanges
  Plays <- NoPlay
  Forces <- NoForce
  MaxInv = 1
  MaxTrim = 0
  MaxFail = 1
  Age <- AllOld
  FixAwait = TRUE
  FixPublish = TRUE
  FixInvMax = FALSE
  AnyTakesAwaiters = FALSE
  SeqInv = TRUE
  MaxOps = 0
VIEW View
INVARIANTS TypeOK
PROPERTIES AllReturn
CHECK_DEADLOCK FALSE
