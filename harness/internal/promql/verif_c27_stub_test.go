package promql

// C27 harness: a storage stub implementing the series-query contract of PromAgg.tla.
//
// The stub holds raw points (series = tag values, one point = (second, integer value)) and
// answers QuerySeries the way the specification's Storage operator does: the raw points of all
// series that agree on the group-by tags are pooled per time bucket of the query's timescale
// into a digest (count, sum, min, max, sum of squares) and the requested `what` is projected
// from the digest.  It is trusted harness code (about 150 lines).

import (
	"context"
	"fmt"
	"math"
	"sort"
	"strconv"

	"github.com/VKCOM/statshouse/internal/data_model"
	"github.com/VKCOM/statshouse/internal/format"
)

type verifC27Pt struct {
	Sec int64
	Val int64
}

type verifC27Q struct {
	What    string `json:"what"`
	GroupBy []int  `json:"by"`
	Range   int64  `json:"range"`
	LodStep int64  `json:"lod"`
}

type verifC27Store struct {
	metric *format.MetricMetaValue
	tags   [][]int64      // per series: values of tags 1..len-1 (index 0 = environment, always 0)
	pts    [][]verifC27Pt // per series raw points
	log    []verifC27Q
	err    error
}

func verifC27NewMetric(kind string) *format.MetricMetaValue {
	m := &format.MetricMetaValue{
		MetricID: 1000,
		Name:     "m",
		Kind:     kind,
		Tags:     []format.MetricMetaTag{{Name: "env"}, {Name: "a"}, {Name: "b"}},
	}
	_ = m.RestoreCachedInfo()
	for i := range m.Tags {
		m.Tags[i].Index = int32(i)
	}
	return m
}

func (s *verifC27Store) GetHostName(hostID int32) string   { return "" }
func (s *verifC27Store) GetHostName64(hostID int64) string { return "" }
func (s *verifC27Store) GetTagValue(qry TagValueQuery) string {
	return "v" + strconv.FormatInt(qry.TagValueID, 10)
}
func (s *verifC27Store) GetTagValueID(qry TagValueIDQuery) (int64, error) {
	return 0, fmt.Errorf("verifC27: GetTagValueID not supported")
}
func (s *verifC27Store) GetTagFilter(metric *format.MetricMetaValue, tagIndex int, tagValue string) (data_model.TagValue, error) {
	return data_model.TagValue{}, fmt.Errorf("verifC27: GetTagFilter not supported")
}
func (s *verifC27Store) MatchMetrics(f *data_model.QueryFilter) error {
	if f.MetricMatcher.Matches(s.metric.Name) {
		f.MatchingMetrics = append(f.MatchingMetrics, s.metric)
	}
	return nil
}
func (s *verifC27Store) QueryTagValueIDs(ctx context.Context, qry TagValuesQuery) ([]int64, error) {
	return nil, fmt.Errorf("verifC27: QueryTagValueIDs not supported")
}
func (s *verifC27Store) Alloc(n int) *[]float64 { v := make([]float64, n); return &v }
func (s *verifC27Store) Free(*[]float64)        {}
func (s *verifC27Store) Tracef(string, ...any)  {}

type verifC27Digest struct {
	cnt, sum, sumsq, min, max int64
}

func (d *verifC27Digest) add(v int64) {
	if d.cnt == 0 || v < d.min {
		d.min = v
	}
	if d.cnt == 0 || v > d.max {
		d.max = v
	}
	d.cnt++
	d.sum += v
	d.sumsq += v * v
}

// what projection of PromAgg!What: exact for the integer instances used by the check
func (d *verifC27Digest) what(w DigestWhat, queryStep, lodStep int64) (float64, error) {
	n := float64(d.cnt)
	switch w {
	case DigestCount:
		return n * float64(queryStep) / float64(lodStep), nil
	case DigestCountSec:
		return n / float64(lodStep), nil
	case DigestCountRaw:
		return n, nil
	case DigestSum:
		return float64(d.sum) * float64(queryStep) / float64(lodStep), nil
	case DigestSumSec:
		return float64(d.sum) / float64(lodStep), nil
	case DigestSumRaw:
		return float64(d.sum), nil
	case DigestAvg:
		return float64(d.sum) / n, nil
	case DigestMin:
		return float64(d.min), nil
	case DigestMax:
		return float64(d.max), nil
	case DigestStdVar: // population variance, as PromQL stdvar_over_time
		return float64(d.cnt*d.sumsq-d.sum*d.sum) / (n * n), nil
	case DigestStdDev:
		return math.Sqrt(float64(d.cnt*d.sumsq-d.sum*d.sum) / (n * n)), nil
	}
	return 0, fmt.Errorf("verifC27: what %v not supported by the stub", w)
}

func (s *verifC27Store) QuerySeries(ctx context.Context, qry *SeriesQuery) (Series, func(), error) {
	fail := func(err error) (Series, func(), error) {
		s.err = err
		return Series{}, func() {}, err
	}
	if qry.Metric != s.metric || len(qry.Whats) != 1 || qry.Offset != 0 {
		return fail(fmt.Errorf("verifC27: unexpected query %+v", qry.Whats))
	}
	t := qry.Timescale
	steps := make([]int64, 0, len(t.Time))
	for _, lod := range t.LODs {
		for i := 0; i < lod.Len; i++ {
			steps = append(steps, lod.Step)
		}
	}
	if len(steps) != len(t.Time) {
		return fail(fmt.Errorf("verifC27: timescale has %d points, LODs cover %d", len(t.Time), len(steps)))
	}
	queryStep := qry.Range
	if queryStep == 0 {
		queryStep = t.Step
	}
	s.log = append(s.log, verifC27Q{What: qry.Whats[0].Digest.String(), GroupBy: append([]int(nil), qry.GroupBy...),
		Range: qry.Range, LodStep: steps[len(steps)-1]})
	// pool series by the group-by tags
	type group struct {
		key []int64
		ds  []verifC27Digest
	}
	groups := map[string]*group{}
	var order []string
	for x := range s.pts {
		key := make([]int64, len(qry.GroupBy))
		for i, tx := range qry.GroupBy {
			if 0 < tx && tx < len(s.tags[x]) {
				key[i] = s.tags[x][tx]
			}
		}
		k := fmt.Sprint(key)
		g := groups[k]
		if g == nil {
			g = &group{key: key, ds: make([]verifC27Digest, len(t.Time))}
			groups[k] = g
			order = append(order, k)
		}
		for _, p := range s.pts[x] {
			for i := range t.Time {
				if t.Time[i] <= p.Sec && p.Sec < t.Time[i]+steps[i] {
					g.ds[i].add(p.Val)
				}
			}
		}
	}
	sort.Strings(order)
	res := Series{Meta: SeriesMeta{Metric: s.metric}}
	for _, k := range order {
		g := groups[k]
		vs := make([]float64, len(t.Time))
		any := false
		for i := range vs {
			if g.ds[i].cnt == 0 {
				vs[i] = NilValue
				continue
			}
			v, err := g.ds[i].what(qry.Whats[0].Digest, queryStep, steps[i])
			if err != nil {
				return fail(err)
			}
			vs[i] = v
			any = true
		}
		if !any {
			continue // the storage has no rows for this group
		}
		x := len(res.Data)
		res.Data = append(res.Data, SeriesData{Values: &vs, What: qry.Whats[0]})
		for i, tx := range qry.GroupBy {
			if 0 <= tx && tx < len(s.metric.Tags) {
				res.AddTagAt(x, &SeriesTag{
					Metric: s.metric,
					Index:  tx + SeriesTagIndexOffset,
					ID:     format.TagID(tx),
					Name:   s.metric.Tags[tx].Name,
					Value:  g.key[i],
				})
			}
		}
	}
	res.Meta.Total = len(res.Data)
	return res, func() {}, nil
}
