package promql

import (
	"context"
	"fmt"
	"os"
	"sort"
	"strings"
	"testing"
	"time"
)

func TestVerifC27Probe(t *testing.T) {
	if os.Getenv("VERIF_PROBE") == "" {
		t.Skip()
	}
	const T = int64(1700000000)
	st := &verifC27Store{metric: verifC27NewMetric("value"),
		tags: [][]int64{{0, 1, 1}, {0, 1, 2}, {0, 2, 1}},
		pts: [][]verifC27Pt{
			{{T + 5, 3}, {T + 6, -1}, {T + 10, 2}},
			{{T + 5, 1}, {T + 11, 2}},
			{{T + 6, 2}, {T + 7, 2}, {T + 10, 0}},
		}}
	ng := NewEngine(time.UTC, 0)
	for _, q := range strings.Split(os.Getenv("VERIF_PROBE"), ";") {
		var step int64 = 1
		if strings.HasPrefix(q, "5|") {
			step, q = 5, q[2:]
		}
		st.log = nil
		v, cancel, err := ng.Exec(context.Background(), st, Query{Start: T, End: T + 15, Step: step, Expr: q,
			Options: Options{TimeNow: T + 1000}})
		fmt.Printf("== step %d  %s\n   err=%v log=%+v\n", step, q, err, st.log)
		if err != nil {
			continue
		}
		ts := v.(*TimeSeries)
		fmt.Printf("   time=%v\n", ts.Time)
		var lines []string
		for _, d := range ts.Series.Data {
			var tg []string
			for id, tag := range d.Tags.ID2Tag {
				tg = append(tg, fmt.Sprintf("%s/%s=%s", id, tag.Name, tag.SValue))
			}
			sort.Strings(tg)
			lines = append(lines, fmt.Sprintf("   %v %v", tg, *d.Values))
		}
		sort.Strings(lines)
		fmt.Println(strings.Join(lines, "\n"))
		cancel()
	}
}
