package promql

// C27 driver: every case exported by TLC from PromAgg.tla (data set + specified results) is
// evaluated with the real Engine.Exec over the storage stub
//   * at the raw resolution (1 s step): aggregation operators with every by/without grouping,
//     reduced (rule #0 pushes sum/min/max/avg/count into the storage query) and unreduced
//     (the selector is wrapped as +m, which no reduction rule matches); topk/bottomk;
//     the *_over_time functions with every window, as range selector and as subquery;
//   * at a coarse step (5 s LOD, range = step): f_over_time(m[5s]), agg(f_over_time(m[5s])) and
//     f_over_time(agg(m)[5s:]) reduced (rules #1..#3), and the same expressions unreduced at the
//     1 s step sampled at the last second of every bucket.
// Results are compared with the specification as exact integer relations value*den = num
// (tolerance 1e-9 only absorbs float rounding; float accuracy is not claimed).

import (
	"context"
	"encoding/json"
	"fmt"
	"math"
	"os"
	"sort"
	"strconv"
	"strings"
	"testing"
	"time"

	"github.com/VKCOM/statshouse/internal/verifkit"
)

type verifC27V [3]int64 // n, d, q

type verifC27Case struct {
	NS        int          `json:"ns"`
	NT        int          `json:"nt"`
	R         int          `json:"r"`
	WMax      int          `json:"wmax"`
	Tags      [][2]int64   `json:"tags"`
	Data      [][][2]int64 `json:"data"`
	Groupings []struct {
		G      string `json:"g"`
		Groups []struct {
			Key [2]int64 `json:"key"`
			Ix  int      `json:"ix"`
		} `json:"groups"`
	} `json:"groupings"`
	Members [][]int `json:"members"`
	Agg     []struct {
		Ops []struct {
			Op string      `json:"op"`
			V  []verifC27V `json:"v"`
		} `json:"ops"`
		Top []struct {
			Desc [][]int `json:"desc"`
			Asc  [][]int `json:"asc"`
		} `json:"top"`
		Wt [][2]int64 `json:"wt"` // per series: [has points, ranking key within this group]
	} `json:"agg"`
	OT []struct {
		Op string          `json:"op"`
		W  [][][]verifC27V `json:"w"` // [w][series][t]
	} `json:"ot"`
	Red []struct {
		R1 []struct {
			F    string        `json:"f"`
			What string        `json:"what"`
			V    [][]verifC27V `json:"v"` // [series][bucket]
		} `json:"r1"`
		R2 [][]struct {
			Op    string      `json:"op"`
			What2 string      `json:"what2"`
			What3 string      `json:"what3"`
			S2    []verifC27V `json:"s2"`
			S3    []verifC27V `json:"s3"`
			X2    []bool      `json:"x2"`
			X3    []bool      `json:"x3"`
		} `json:"r2"` // [group][agg5]
		D2    [][][][]verifC27V `json:"d2"` // [group][agg][f][bucket]
		D3    [][][][]verifC27V `json:"d3"` // [group][f][agg][bucket]
		Full2 [][]bool          `json:"full2"`
		Full3 [][]bool          `json:"full3"`
		Agg5  []string          `json:"agg5"`
		OT6   []string          `json:"ot6"`
		OT5   []string          `json:"ot5"`
	} `json:"red"`
}

const verifC27Base = int64(1700000000) // multiple of 5

type verifC27Series struct {
	key [2]int64
	v   map[int64]float64 // second -> value
}

type verifC27Run struct {
	t      *testing.T
	res    *verifkit.Result
	ng     Engine
	c      *verifC27Case
	raw    json.RawMessage
	nexec  int
	nbad   int
	index  int
	layout string
}

var verifC27Agg5 = map[string]bool{"sum": true, "count": true, "min": true, "max": true, "avg": true}

func verifC27AggExpr(op, grouping, arg string) string {
	if strings.HasPrefix(op, "q") {
		return fmt.Sprintf("quantile %s (%s, %s)", grouping, verifC27Quantile(op), arg)
	}
	return fmt.Sprintf("%s %s (%s)", op, grouping, arg)
}

func verifC27Quantile(op string) string {
	switch op {
	case "q0":
		return "0"
	case "q25":
		return "0.25"
	case "q50":
		return "0.5"
	case "q75":
		return "0.75"
	}
	return "1"
}

func verifC27OTExpr(op, arg string) string {
	if strings.HasPrefix(op, "q") {
		return fmt.Sprintf("quantile_over_time(%s, %s)", verifC27Quantile(op), arg)
	}
	return fmt.Sprintf("%s_over_time(%s)", op, arg)
}

func (r *verifC27Run) store(sec func(slot int) int64) *verifC27Store {
	st := &verifC27Store{metric: verifC27NewMetric("value")}
	for s := 0; s < r.c.NS; s++ {
		st.tags = append(st.tags, []int64{0, r.c.Tags[s][0], r.c.Tags[s][1]})
		var pts []verifC27Pt
		for i := 0; i < r.c.NT; i++ {
			if r.c.Data[s][i][0] == 1 {
				pts = append(pts, verifC27Pt{Sec: sec(i + 1), Val: r.c.Data[s][i][1]})
			}
		}
		st.pts = append(st.pts, pts)
	}
	return st
}

// eval runs the real engine; the result series are keyed by the values of labels a, b (0 = absent)
func (r *verifC27Run) eval(st *verifC27Store, expr string, start, end, step int64) ([]verifC27Series, error) {
	r.nexec++
	st.log = st.log[:0]
	st.err = nil
	v, cancel, err := r.ng.Exec(context.Background(), st, Query{Start: start, End: end, Step: step, Expr: expr,
		Options: Options{TimeNow: verifC27Base + 7200}})
	if err != nil {
		return nil, err
	}
	defer cancel()
	ts, ok := v.(*TimeSeries)
	if !ok {
		return nil, fmt.Errorf("result is %T", v)
	}
	var out []verifC27Series
	for _, d := range ts.Series.Data {
		sr := verifC27Series{v: map[int64]float64{}}
		for i, name := range []string{"a", "b"} {
			if tg, ok := d.Tags.Get(name); ok {
				x, err := strconv.ParseInt(strings.TrimPrefix(tg.SValue, "v"), 10, 64)
				if err != nil {
					return nil, fmt.Errorf("label %s=%q", name, tg.SValue)
				}
				sr.key[i] = x
			}
		}
		if d.Values == nil || len(*d.Values) != len(ts.Time) {
			return nil, fmt.Errorf("series without values")
		}
		for i, t := range ts.Time {
			sr.v[t] = (*d.Values)[i]
		}
		out = append(out, sr)
	}
	return out, nil
}

func verifC27Match(got float64, want verifC27V) bool {
	if want[1] == 0 {
		if want[2] == 2 {
			return math.IsNaN(got) // the specification says: no sample here
		}
		return true // not constrained
	}
	if math.IsNaN(got) || math.IsInf(got, 0) {
		return false
	}
	n, d := float64(want[0]), float64(want[1])
	lhs := got * d
	if want[2] == 1 {
		if got < 0 {
			return false
		}
		lhs = got * got * d
	}
	return math.Abs(lhs-n) <= 1e-9*math.Max(1, math.Abs(n))
}

func verifC27Known(vs []verifC27V) bool {
	for _, v := range vs {
		if v[1] != 0 || v[2] == 2 {
			return true
		}
	}
	return false
}

func (r *verifC27Run) bad(sig, expr string, step int64, want, got any, note string) {
	r.nbad++
	r.res.Count("bad:"+sig, 1)
	r.res.Mismatch(verifkit.Mismatch{
		Beh:  map[string]any{"expr": expr, "step": step, "layout": r.layout, "tags": r.c.Tags, "data": r.c.Data, "r": r.c.R},
		Want: want, Got: got, Sig: sig, Note: note,
	})
}

func verifC27Show(v float64) any {
	if math.IsNaN(v) {
		return "NaN"
	}
	return v
}

// expectation for one result series: key and the specified value at some seconds
type verifC27Want struct {
	key [2]int64
	at  map[int64]verifC27V
}

// check compares a result with the expected series; extra = result series whose key is not expected at all
func (r *verifC27Run) check(sig, expr string, step int64, got []verifC27Series, err error, wants []verifC27Want) {
	if err != nil {
		r.bad(sig, expr, step, "evaluation", err.Error(), "engine error")
		return
	}
	byKey := map[[2]int64]*verifC27Series{}
	for i := range got {
		if byKey[got[i].key] != nil {
			r.bad(sig, expr, step, "one series per label set", fmt.Sprint(got[i].key), "duplicate result series")
			return
		}
		byKey[got[i].key] = &got[i]
	}
	expected := map[[2]int64]bool{}
	for _, w := range wants {
		expected[w.key] = true
		g := byKey[w.key]
		secs := make([]int64, 0, len(w.at))
		for sec := range w.at {
			secs = append(secs, sec)
		}
		sort.Slice(secs, func(i, j int) bool { return secs[i] < secs[j] })
		for _, sec := range secs {
			want := w.at[sec]
			if want[1] == 0 && want[2] != 2 {
				continue
			}
			gv := math.NaN()
			if g != nil {
				if x, ok := g.v[sec]; ok {
					gv = x
				}
			}
			if !verifC27Match(gv, want) {
				r.bad(sig, expr, step, map[string]any{"key": w.key, "sec": sec - verifC27Base, "n_d_q": want},
					map[string]any{"value": verifC27Show(gv), "series_present": g != nil}, "value differs from the definition")
				return
			}
			r.res.Steps++
		}
	}
	for k := range byKey {
		if !expected[k] {
			r.bad(sig, expr, step, "only the specified label sets", fmt.Sprint(k), "unexpected result series")
			return
		}
	}
}

func (r *verifC27Run) raw1s() {
	c := r.c
	shift := int64(verifkit.Seed()%5) + int64(len(c.Data[0]))%3
	t0 := verifC27Base + shift
	sec := func(slot int) int64 { return t0 + int64(slot) - 1 }
	st := r.store(sec)
	end := t0 + int64(c.NT+c.WMax)
	r.layout = fmt.Sprintf("contiguous from +%d", shift)
	// aggregation operators
	if len(c.Agg) != 0 {
		for _, g := range c.Groupings {
			for oi := range c.Agg[0].Ops {
				op := c.Agg[0].Ops[oi].Op
				var wants []verifC27Want
				for _, gr := range g.Groups {
					w := verifC27Want{key: gr.Key, at: map[int64]verifC27V{}}
					for t, v := range c.Agg[gr.Ix-1].Ops[oi].V {
						w.at[sec(t+1)] = v
					}
					wants = append(wants, w)
				}
				args := []string{"m"}
				if verifC27Agg5[op] {
					args = append(args, "+m") // m: reduced by rule #0, +m: evaluated by the engine
					// an explicit storage function seeds the rule (reducible or not, depending on the pair);
					// with one point per series and second sum/avg/min/max of a series are its value, count is 1
					what := []string{"sum", "avg", "min", "max", "count"}[(r.index+oi+len(g.G))%5]
					opw := op
					if what == "count" {
						opw = map[string]string{"sum": "count", "count": "count", "min": "group", "max": "group", "avg": "group"}[op]
					}
					var wantsW []verifC27Want
					for _, gr := range g.Groups {
						w := verifC27Want{key: gr.Key, at: map[int64]verifC27V{}}
						for _, o := range c.Agg[gr.Ix-1].Ops {
							if o.Op == opw {
								for t, v := range o.V {
									w.at[sec(t+1)] = v
								}
							}
						}
						wantsW = append(wantsW, w)
					}
					expr := verifC27AggExpr(op, g.G, fmt.Sprintf(`m{__what__="%s"}`, what))
					got, err := r.eval(st, expr, t0, end, 1)
					r.check("agg:"+op+":what="+what, expr, 1, got, err, wantsW)
					r.res.Seen("agg:" + op + ":what=" + what)
				}
				for _, arg := range args {
					expr := verifC27AggExpr(op, g.G, arg)
					got, err := r.eval(st, expr, t0, end, 1)
					kind := "engine"
					if arg == "m" && verifC27Agg5[op] {
						kind = "reduced"
						if err == nil && (len(st.log) != 1 || st.log[0].What != verifC27Rule0What(op)) {
							r.res.Count("rule0_not_applied", 1)
						} else {
							r.res.Count("rule0_applied", 1)
						}
					}
					r.check("agg:"+op+":"+kind, expr, 1, got, err, wants)
					r.res.Seen("agg:" + op + ":" + kind + ":" + g.G)
				}
			}
			// topk / bottomk: whole series selected by weight, ties arbitrary -> admissible sets
			for k := 1; k <= 2; k++ {
				for _, fn := range []string{"topk", "bottomk"} {
					expr := fmt.Sprintf("%s %s (%d, m)", fn, g.G, k)
					got, err := r.eval(st, expr, t0, end, 1)
					r.checkTop(fn, expr, got, err, g.Groups, k, sec)
					r.res.Seen("agg:" + fn + ":" + g.G)
				}
			}
		}
	}
	// sort / sort_desc: every series with a point, ordered by the ranking key of the group of all series
	if len(c.Agg) != 0 {
		for gx := range c.Members {
			if len(c.Members[gx]) != c.NS {
				continue
			}
			for _, fn := range []string{"sort", "sort_desc"} {
				expr := fn + "(m)"
				got, err := r.eval(st, expr, t0, end, 1)
				r.checkSort(fn, expr, got, err, c.Agg[gx].Wt)
				r.res.Seen("agg:" + fn)
			}
		}
	}
	// over-time functions
	for _, ot := range c.OT {
		for w := 1; w <= c.WMax; w++ {
			var wants []verifC27Want
			for s := 0; s < c.NS; s++ {
				wt := verifC27Want{key: c.Tags[s], at: map[int64]verifC27V{}}
				for t, v := range ot.W[w-1][s] {
					wt.at[sec(t+1)] = v
				}
				if verifC27Known(ot.W[w-1][s]) {
					wants = append(wants, wt)
				}
			}
			for _, arg := range []string{fmt.Sprintf("m[%ds]", w), fmt.Sprintf("(+m)[%ds:]", w)} {
				expr := verifC27OTExpr(ot.Op, arg)
				got, err := r.eval(st, expr, t0, end, 1)
				kind := "engine"
				if w == 1 && arg[0] == 'm' && len(st.log) == 1 && st.log[0].Range == 1 {
					kind = "reduced"
				}
				r.check("ot:"+ot.Op+":"+kind, expr, 1, got, err, wants)
				r.res.Seen(fmt.Sprintf("ot:%s:%s:%d", ot.Op, kind, w))
			}
		}
	}
}

// verifC27Rule0What: name of the storage `what` rule #0 must request (stub log uses DigestWhat.String())
func verifC27Rule0What(op string) string {
	switch op {
	case "sum":
		return DigestSumSec.String()
	case "count":
		return DigestCountSec.String()
	case "min":
		return DigestMin.String()
	case "max":
		return DigestMax.String()
	}
	return DigestAvg.String()
}

func (r *verifC27Run) checkTop(fn, expr string, got []verifC27Series, err error, groups []struct {
	Key [2]int64 `json:"key"`
	Ix  int      `json:"ix"`
}, k int, sec func(int) int64) {
	c := r.c
	sig := "agg:" + fn
	if err != nil {
		r.bad(sig, expr, 1, "evaluation", err.Error(), "engine error")
		return
	}
	idOf := map[[2]int64]int{}
	for s := range c.Tags {
		idOf[c.Tags[s]] = s + 1
	}
	chosen := map[int]bool{}
	for _, g := range got {
		id, ok := idOf[g.key]
		if !ok || chosen[id] {
			r.bad(sig, expr, 1, "series of the input", fmt.Sprint(g.key), "unexpected or duplicate result series")
			return
		}
		chosen[id] = true
		// the selected series keep their points
		for i := 0; i < c.NT; i++ {
			v, present := g.v[sec(i+1)]
			if c.Data[id-1][i][0] == 1 {
				if !present || v != float64(c.Data[id-1][i][1]) {
					r.bad(sig, expr, 1, c.Data[id-1], verifC27Show(v), "selected series changed")
					return
				}
			} else if present && !math.IsNaN(v) {
				r.bad(sig, expr, 1, "missing point", v, "selected series changed")
				return
			}
		}
	}
	for _, gr := range groups {
		var sel []int
		for _, id := range c.Members[gr.Ix-1] {
			if chosen[id] {
				sel = append(sel, id)
			}
		}
		sort.Ints(sel)
		adm := c.Agg[gr.Ix-1].Top[k-1].Desc
		if fn == "bottomk" {
			adm = c.Agg[gr.Ix-1].Top[k-1].Asc
		}
		ok := false
		for _, a := range adm {
			b := append([]int(nil), a...)
			sort.Ints(b)
			if fmt.Sprint(b) == fmt.Sprint(sel) {
				ok = true
			}
		}
		if !ok {
			r.bad(sig, expr, 1, map[string]any{"group": c.Members[gr.Ix-1], "admissible": adm}, sel, "selection is not admissible")
			return
		}
		r.res.Steps++
	}
}

func (r *verifC27Run) checkSort(fn, expr string, got []verifC27Series, err error, wt [][2]int64) {
	c := r.c
	sig := "agg:" + fn
	if err != nil {
		r.bad(sig, expr, 1, "evaluation", err.Error(), "engine error")
		return
	}
	idOf := map[[2]int64]int{}
	for s := range c.Tags {
		idOf[c.Tags[s]] = s + 1
	}
	var order []int
	seen := map[int]bool{}
	for _, g := range got {
		id, ok := idOf[g.key]
		if !ok || seen[id] || wt[id-1][0] == 0 {
			r.bad(sig, expr, 1, "each series with a point once", fmt.Sprint(g.key), "unexpected or duplicate result series")
			return
		}
		seen[id] = true
		order = append(order, id)
	}
	for s := range wt {
		if wt[s][0] == 1 && !seen[s+1] {
			r.bad(sig, expr, 1, "each series with a point once", fmt.Sprintf("series %d absent", s+1), "result series missing")
			return
		}
	}
	for i := 1; i < len(order); i++ {
		a, b := wt[order[i-1]-1][1], wt[order[i]-1][1]
		if (fn == "sort" && a > b) || (fn == "sort_desc" && a < b) {
			r.bad(sig, expr, 1, map[string]any{"ranking_keys": wt}, order, "result is not ordered by the ranking key")
			return
		}
	}
	r.res.Steps++
}

func (r *verifC27Run) coarse() {
	c := r.c
	if len(c.Red) == 0 {
		return
	}
	red := &c.Red[0]
	R := c.R
	nb := (c.NT + R - 1) / R
	shift := int64(0)
	if R < 5 {
		shift = (verifkit.Seed() + int64(c.Data[0][0][1]) + 7) % int64(5-R+1)
	}
	tb := verifC27Base + 600
	sec := func(slot int) int64 { return tb + 5*int64((slot-1)/R) + int64((slot-1)%R) + shift }
	st := r.store(sec)
	end := tb + 5*int64(nb)
	r.layout = fmt.Sprintf("%d slots per 5 s bucket from +%d", R, shift)
	bucketAt := func(step int64, b int) int64 {
		if step == 5 {
			return tb + 5*int64(b)
		}
		return tb + 5*int64(b) + 4 // window (t-5, t] at the 1 s step = bucket b
	}
	for _, step := range []int64{5, 1} {
		kind := "engine"
		if step == 5 {
			kind = "reduced"
		}
		// rule #1: f_over_time(m[5s])
		for _, f := range red.R1 {
			var wants []verifC27Want
			for s := 0; s < c.NS; s++ {
				if !verifC27Known(f.V[s]) {
					continue
				}
				w := verifC27Want{key: c.Tags[s], at: map[int64]verifC27V{}}
				for b, v := range f.V[s] {
					w.at[bucketAt(step, b)] = v
				}
				wants = append(wants, w)
			}
			expr := verifC27OTExpr(f.F, "m[5s]")
			got, err := r.eval(st, expr, tb, end, step)
			if step == 5 && err == nil {
				if len(st.log) == 1 && st.log[0].Range == 5 && st.log[0].What == f.What {
					r.res.Count("rule1_applied", 1)
				} else {
					r.res.Count("rule1_not_applied", 1)
				}
			}
			r.check("red1:"+f.F+":"+kind, expr, step, got, err, wants)
			r.res.Seen("red1:" + f.F + ":" + kind)
		}
		// rules #2 and #3
		for _, g := range c.Groupings {
			for ai, agg := range red.Agg5 {
				if step == 5 {
					// reducible pairs: the engine must return the pooled storage value
					for rule := 2; rule <= 3; rule++ {
						var wants []verifC27Want
						for _, gr := range g.Groups {
							e := red.R2[gr.Ix-1][ai]
							vs := e.S2
							if rule == 3 {
								vs = e.S3
							}
							if !verifC27Known(vs) {
								continue
							}
							w := verifC27Want{key: gr.Key, at: map[int64]verifC27V{}}
							for b, v := range vs {
								w.at[bucketAt(step, b)] = v
							}
							wants = append(wants, w)
						}
						var expr string
						if rule == 2 {
							expr = verifC27AggExpr(agg, g.G, verifC27OTExpr(agg, "m[5s]"))
						} else {
							expr = verifC27OTExpr(agg, verifC27AggExpr(agg, g.G, "m")+"[5s:]")
						}
						got, err := r.eval(st, expr, tb, end, step)
						if err == nil {
							if len(st.log) == 1 && st.log[0].Range == 5 {
								r.res.Count(fmt.Sprintf("rule%d_applied", rule), 1)
							} else {
								r.res.Count(fmt.Sprintf("rule%d_not_applied", rule), 1)
							}
						}
						sig := fmt.Sprintf("red%d:%s:reduced", rule, agg)
						r.check(sig, expr, step, got, err, wants)
						r.res.Seen(sig + ":" + g.G)
					}
					// every other pair agg(f_over_time(m[5s])): whatever the engine pushes down (rule #1 for f,
					// nothing more according to the rule table), the result is the two-level definition
					for fi, f := range red.OT6 {
						if f == agg {
							continue
						}
						var wants []verifC27Want
						for _, gr := range g.Groups {
							vs := red.D2[gr.Ix-1][ai][fi]
							w := verifC27Want{key: gr.Key, at: map[int64]verifC27V{}}
							for b, v := range vs {
								if f == "count" && !red.Full2[gr.Ix-1][b] {
									continue
								}
								w.at[bucketAt(step, b)] = v
							}
							if verifC27Known(vs) {
								wants = append(wants, w)
							}
						}
						expr := verifC27AggExpr(agg, g.G, verifC27OTExpr(f, "m[5s]"))
						got, err := r.eval(st, expr, tb, end, step)
						sig := fmt.Sprintf("two2:%s:%s:coarse", agg, f)
						r.check(sig, expr, step, got, err, wants)
						r.res.Seen(sig)
					}
					continue
				}
				// 1 s step: every pair against the two-level definition on the raw points
				for fi, f := range red.OT6 {
					var wants []verifC27Want
					for _, gr := range g.Groups {
						vs := red.D2[gr.Ix-1][ai][fi]
						w := verifC27Want{key: gr.Key, at: map[int64]verifC27V{}}
						for b, v := range vs {
							if f == "count" && !red.Full2[gr.Ix-1][b] {
								continue // count_over_time of nothing is 0, not "no sample"
							}
							w.at[bucketAt(step, b)] = v
						}
						if verifC27Known(vs) {
							wants = append(wants, w)
						}
					}
					expr := verifC27AggExpr(agg, g.G, verifC27OTExpr(f, "m[5s]"))
					got, err := r.eval(st, expr, tb, end, step)
					sig := fmt.Sprintf("two2:%s:%s", agg, f)
					r.check(sig, expr, step, got, err, wants)
					r.res.Seen(sig)
				}
				for fi, f := range red.OT5 {
					var wants []verifC27Want
					for _, gr := range g.Groups {
						vs := red.D3[gr.Ix-1][fi][ai]
						w := verifC27Want{key: gr.Key, at: map[int64]verifC27V{}}
						for b, v := range vs {
							if agg == "count" && !(red.Full3[gr.Ix-1][b] && R == 5) {
								continue // count of nothing is 0, not "no sample"
							}
							w.at[bucketAt(step, b)] = v
						}
						if verifC27Known(vs) {
							wants = append(wants, w)
						}
					}
					expr := verifC27OTExpr(f, verifC27AggExpr(agg, g.G, "m")+"[5s:]")
					got, err := r.eval(st, expr, tb, end, step)
					sig := fmt.Sprintf("two3:%s:%s", f, agg)
					r.check(sig, expr, step, got, err, wants)
					r.res.Seen(sig)
				}
			}
		}
	}
}

func TestVerifC27(t *testing.T) {
	verifkit.Gate(t)
	res := verifkit.NewResult()
	defer res.Write(t)
	ng := NewEngine(time.UTC, 0)
	verifkit.ForEachLine(t, os.Getenv("VERIF_IN"), func(line []byte) {
		var cs []verifC27Case
		if err := json.Unmarshal(line, &cs); err != nil || len(cs) != 1 {
			t.Fatalf("bad case line: %v", err)
		}
		r := &verifC27Run{t: t, res: res, ng: ng, c: &cs[0], index: res.Replayed}
		r.raw1s()
		r.coarse()
		res.Replayed++
		res.Count("exec", r.nexec)
		if r.nbad != 0 {
			res.Count("cases_with_mismatch", 1)
		} else if len(res.Samples) < 3 {
			res.Sample(map[string]any{"tags": cs[0].Tags, "data": cs[0].Data, "engine_evaluations": r.nexec})
		}
	})
}
