package pcache

// C21 conformance driver for MappingsCache (injected by /verif/tools via -overlay).
// Executes operation sequences (behaviours exported by TLC from specs/PersistCacheMappings.tla
// plus seeded random ones with longer histories, more strings and the real constants) on the
// real MappingsCache and records, per operation, the arguments, what the code decided where it
// is free (evicted / TTL-removed keys, found by diffing c.cache), what it returned and the
// state afterwards.  specs/PersistCacheMappingsTrace.tla validates the trace.

import (
	"fmt"
	"math/rand"
	"path/filepath"
	"sort"
	"strings"
	"sync"
	"sync/atomic"
	"testing"

	"github.com/VKCOM/statshouse/internal/verifkit"
)

type verifC21Pair struct {
	S string `json:"s"`
	V int32  `json:"v"`
}

type verifC21Op struct {
	a     string
	now   uint32
	pairs []verifC21Pair
	s     string
	cnt   int
	ms    int64
	ttl   int
}

type verifC21Item struct {
	S  string `json:"s"`
	V  int32  `json:"v"`
	TS uint32 `json:"ts"`
}

func verifC21Dump(c *MappingsCache) []verifC21Item {
	items := make([]verifC21Item, 0, len(c.cache))
	for k, v := range c.cache {
		items = append(items, verifC21Item{S: k, V: v.value, TS: v.accessTS})
	}
	sort.Slice(items, func(i, j int) bool { return items[i].S < items[j].S })
	return items
}

func verifC21Post(c *MappingsCache) map[string]any {
	return map[string]any{
		"cache": verifC21Dump(c), "sumSize": c.sumSize, "sumTS": c.sumTS,
		"version": c.version, "saved": c.lastSavedVersion,
		"maxSize": c.maxSize.Load(), "ttl": c.maxTTL.Load(),
	}
}

func verifC21Snapshot(c *MappingsCache) map[string]cacheValue {
	m := make(map[string]cacheValue, len(c.cache))
	for k, v := range c.cache {
		m[k] = v
	}
	return m
}

// keys of before that are gone (or were replaced) in the cache now
func verifC21Gone(before map[string]cacheValue, c *MappingsCache) []string {
	gone := []string{}
	for k := range before {
		if _, ok := c.cache[k]; !ok {
			gone = append(gone, k)
		}
	}
	sort.Strings(gone)
	return gone
}

func verifC21OpsFromSteps(b []verifkit.Step) []verifC21Op {
	var ops []verifC21Op
	for _, s := range b {
		op := verifC21Op{a: s.Act(), s: s.Str("s"), cnt: s.Int("cnt"), ms: int64(s.Int("ms")), ttl: s.Int("ttl")}
		switch op.a {
		case "Add", "Ttl":
			op.now = uint32(s.Int("now"))
		case "Get":
			op.now = uint32(s.Int("ts"))
		}
		if l, ok := s["pairs"].([]any); ok {
			for _, x := range l {
				m := x.(map[string]any)
				op.pairs = append(op.pairs, verifC21Pair{S: m["s"].(string), V: int32(m["v"].(float64))})
			}
		}
		ops = append(ops, op)
	}
	return ops
}

type verifC21Runner struct {
	tr   *verifkit.Trace
	res  *verifkit.Result
	rnd  interface{ Intn(int) int }
	mode int // 0: as in production; 1: deterministic + testMode (the code's own assertions on)
}

func (r *verifC21Runner) newCache(fp *[]byte, ms int64, ttl int) (*MappingsCache, error) {
	c, err := LoadMappingsCacheSlice(fp, ms)
	c.SetSizeTTL(ms, ttl)
	if r.mode == 1 {
		c.deterministic = true
		c.testMode = true
	}
	return c, err
}

// run executes one sequence on a fresh cache with an empty file.
func (r *verifC21Runner) run(ops []verifC21Op, ms0 int64, ttl0 int) (err error) {
	fp := []byte{}
	tr := r.tr
	defer func() {
		if p := recover(); p != nil {
			err = fmt.Errorf("panic in MappingsCache: %v", p)
		}
	}()
	c, _ := r.newCache(&fp, ms0, ttl0)
	tr.Emit("Reset", "maxSize", ms0, "ttl", ttl0, "mode", r.mode)
	damage := false
	nget := 0
	for _, op := range ops {
		switch op.a {
		case "Add":
			before := verifC21Snapshot(c)
			arg := make([]MappingPair, len(op.pairs))
			for i, p := range op.pairs {
				arg[i] = MappingPair{Str: p.S, Value: p.V}
			}
			c.AddValues(op.now, arg) // filters arg in place, the trace keeps op.pairs
			pairs := op.pairs
			if pairs == nil {
				pairs = []verifC21Pair{}
			}
			tr.Emit("Add", "now", op.now, "pairs", pairs, "evicted", verifC21Gone(before, c), "post", verifC21Post(c))
		case "Get":
			var v int32
			var ok bool
			if nget++; nget%2 == 0 {
				v, ok = c.GetValueBytes(op.now, []byte(op.s))
			} else {
				v, ok = c.GetValue(op.now, op.s)
			}
			tr.Emit("Get", "ts", op.now, "s", op.s, "ok", ok, "v", v, "post", verifC21Post(c))
		case "Ttl":
			before := verifC21Snapshot(c)
			c.RemoveByTTL(op.cnt, op.now)
			tr.Emit("Ttl", "cnt", op.cnt, "now", op.now, "removed", verifC21Gone(before, c), "post", verifC21Post(c))
		case "Set":
			c.SetSizeTTL(op.ms, op.ttl)
			tr.Emit("Set", "ms", op.ms, "ttl", op.ttl, "post", verifC21Post(c))
		case "Save":
			ok, serr := c.Save()
			if serr != nil {
				return fmt.Errorf("Save failed: %v", serr)
			}
			cp := append([]byte(nil), fp...)
			probe, lerr := LoadMappingsCacheSlice(&cp, 1<<40)
			if lerr != nil && !damage {
				r.res.Note("file written by Save does not load: %v", lerr)
			}
			tr.Emit("Save", "ok", ok, "fdump", verifC21Dump(probe), "post", verifC21Post(c), "flen", len(fp))
		case "Damage":
			damage = len(fp) > 0
		case "Reload":
			nf := append([]byte(nil), fp...)
			dmg := false
			if damage && len(nf) > 0 {
				dmg = true
				if r.rnd.Intn(2) == 0 {
					nf = nf[:r.rnd.Intn(len(nf))]
				} else {
					nf[r.rnd.Intn(len(nf))] ^= 1 << uint(r.rnd.Intn(8))
				}
				damage = false
			}
			fp = nf
			ms, ttl := c.maxSize.Load(), int(c.maxTTL.Load())
			c, _ = r.newCache(&fp, ms, ttl)
			tr.Emit("Reload", "dmg", dmg, "post", verifC21Post(c), "flen", len(fp))
		default:
			return fmt.Errorf("unknown op %q", op.a)
		}
	}
	return nil
}

func verifC21RandomOps(rnd interface{ Intn(int) int }, n int) ([]verifC21Op, int64, int) {
	strs := []string{"", "a", "b", "cc", "dddd", "eeeeeeee", "ffffffffffffffff",
		strings.Repeat("g", 400), strings.Repeat("h", 800)}
	val := func(s string) int32 { return int32(100 + len(s)) }
	bad := []int32{0, -1, -2}
	sizes := []int64{0, 40, 70, 105, 140, 200, 600, 1200, 2400}
	ttls := []int{0, 0, 3, 10}
	now := uint32(1000)
	clock := func() uint32 {
		switch rnd.Intn(6) {
		case 0:
			now += 10
		case 1, 2:
			now++
		case 3:
			return now - uint32(rnd.Intn(5))
		}
		return now
	}
	var ops []verifC21Op
	for i := 0; i < n; i++ {
		switch x := rnd.Intn(20); {
		case x < 8:
			k := 1 + rnd.Intn(4)
			var ps []verifC21Pair
			for j := 0; j < k; j++ {
				s := strs[rnd.Intn(len(strs))]
				v := val(s)
				switch rnd.Intn(12) {
				case 0:
					v = bad[rnd.Intn(3)]
				case 1:
					v += 1000 // the same string offered with another value
				}
				ps = append(ps, verifC21Pair{S: s, V: v})
				if rnd.Intn(10) == 0 {
					ps = append(ps, verifC21Pair{S: s, V: v}) // repeated inside one batch
				}
			}
			ops = append(ops, verifC21Op{a: "Add", now: clock(), pairs: ps})
		case x < 13:
			ops = append(ops, verifC21Op{a: "Get", now: clock(), s: strs[rnd.Intn(len(strs))]})
		case x < 15:
			ops = append(ops, verifC21Op{a: "Ttl", now: clock(), cnt: rnd.Intn(6)})
		case x < 16:
			ops = append(ops, verifC21Op{a: "Set", ms: sizes[rnd.Intn(len(sizes))], ttl: ttls[rnd.Intn(len(ttls))]})
		case x < 18:
			ops = append(ops, verifC21Op{a: "Save"})
		case x < 19:
			if rnd.Intn(3) == 0 {
				ops = append(ops, verifC21Op{a: "Damage"})
			}
			ops = append(ops, verifC21Op{a: "Reload"})
		default:
			ops = append(ops, verifC21Op{a: "Save"}, verifC21Op{a: "Reload"})
		}
	}
	return ops, sizes[2+rnd.Intn(len(sizes)-2)], ttls[rnd.Intn(len(ttls))]
}

// runConcurrent: getters race with one goroutine that adds, expires and changes limits.  Only
// unordered facts are recorded (see TrOffer/TrGetC/TrSync of the trace specification).
func (r *verifC21Runner) runConcurrent(seed int64, iters int) (err error) {
	defer func() {
		if p := recover(); p != nil {
			err = fmt.Errorf("panic in MappingsCache: %v", p)
		}
	}()
	fp := []byte{}
	r.mode = 0
	c, _ := r.newCache(&fp, 200, 5)
	r.tr.Emit("Reset", "maxSize", 200, "ttl", 5, "mode", 2)
	strs := []string{"a", "b", "cc", "dddd", "eeeeeeee", "ffffffffffffffff", "g0", "g1", "g2", "g3"}
	var all []verifC21Pair
	for i, s := range strs {
		all = append(all, verifC21Pair{S: s, V: int32(200 + i)})
	}
	r.tr.Emit("Offer", "pairs", all)
	type got struct {
		s  string
		ok bool
		v  int32
	}
	const getters = 4
	results := make([][]got, getters)
	var wg sync.WaitGroup
	var stop atomic.Bool
	var clock atomic.Uint32
	clock.Store(1000)
	for g := 0; g < getters; g++ {
		wg.Add(1)
		go func(g int) {
			defer wg.Done()
			rnd := rand.New(rand.NewSource(seed*31 + int64(g)))
			for n := 0; !stop.Load() || n < 50; n++ {
				s := strs[rnd.Intn(len(strs))]
				var v int32
				var ok bool
				if n%2 == 0 {
					v, ok = c.GetValue(clock.Load()+uint32(rnd.Intn(3)), s)
				} else {
					v, ok = c.GetValueBytes(clock.Load()+uint32(rnd.Intn(3)), []byte(s))
				}
				if len(results[g]) < 40 || !ok && len(results[g]) < 60 || ok && v != int32(200+verifC21Index(strs, s)) {
					results[g] = append(results[g], got{s, ok, v})
				}
			}
		}(g)
	}
	rnd := rand.New(rand.NewSource(seed))
	for i := 0; i < iters; i++ {
		now := clock.Add(uint32(rnd.Intn(3)))
		switch rnd.Intn(8) {
		case 0:
			c.RemoveByTTL(rnd.Intn(5), now)
		case 1:
			c.SetSizeTTL([]int64{70, 140, 200, 400}[rnd.Intn(4)], []int{0, 3, 5}[rnd.Intn(3)])
		default:
			k := 1 + rnd.Intn(3)
			arg := make([]MappingPair, 0, k)
			for j := 0; j < k; j++ {
				p := all[rnd.Intn(len(all))]
				arg = append(arg, MappingPair{Str: p.S, Value: p.V})
			}
			c.AddValues(now, arg)
		}
	}
	stop.Store(true)
	wg.Wait()
	for _, rs := range results {
		for _, x := range rs {
			r.tr.Emit("GetC", "s", x.s, "ok", x.ok, "v", x.v)
		}
	}
	r.tr.Emit("Sync", "post", verifC21Post(c))
	return nil
}

func verifC21Index(strs []string, s string) int {
	for i, x := range strs {
		if x == s {
			return i
		}
	}
	return -1
}

func TestVerifC21Mappings(t *testing.T) {
	verifkit.Gate(t)
	res := verifkit.NewResult()
	defer res.Write(t)
	rnd := verifkit.Rand(21)
	r := &verifC21Runner{tr: verifkit.NewTrace(), res: res, rnd: rnd}
	fail := func(ops []verifC21Op, err error) {
		res.Mismatch(verifkit.Mismatch{Beh: fmt.Sprintf("%+v", ops), Want: "no panic / error", Got: err.Error(), Sig: "panic"})
	}
	ms0 := int64(verifkit.EnvInt("VERIF_MS0", 70))
	for i, b := range verifkit.LoadBehaviours(t) {
		ops := verifC21OpsFromSteps(b)
		r.mode = i % 2
		ms := ms0
		if i%4 >= 2 {
			ms = 105
		}
		if err := r.run(ops, ms, 0); err != nil {
			fail(ops, err)
		}
		res.Replayed++
		res.Steps += len(ops)
	}
	nrand := verifkit.EnvInt("VERIF_NRANDOM", 0)
	for n := 0; n < nrand; n++ {
		ops, ms, ttl := verifC21RandomOps(rnd, 6+rnd.Intn(25))
		r.mode = 0
		if n%3 == 2 {
			r.mode = 1
		}
		if err := r.run(ops, ms, ttl); err != nil {
			fail(ops, err)
		}
		res.Replayed++
		res.Steps += len(ops)
	}
	nconc := verifkit.EnvInt("VERIF_NCONCURRENT", 0)
	for n := 0; n < nconc; n++ {
		if err := r.runConcurrent(verifkit.Seed()*1000+int64(n), 300); err != nil {
			fail(nil, err)
		}
		res.Replayed++
		res.Count("concurrent_runs", 1)
		res.Steps += 300
	}
	out := filepath.Join(verifkit.TmpDir(t, "c21-"), "trace.ndjson")
	if err := r.tr.WriteFile(out); err != nil {
		t.Fatal(err)
	}
	res.Files = append(res.Files, out)
	res.Consts["elementSizeMem_a"] = elementSizeMem("a")
	res.Consts["elementSizeMem_8"] = elementSizeMem("eeeeeeee")
	evs := r.tr.Events()
	for i := 0; i < len(evs) && i < 4; i++ {
		res.Sample(evs[i])
	}
}
