package metajournal

// C20 conformance driver (injected by /verif/tools via -overlay; see /verif/DESIGN.md and
// /verif/specs/MetaJournal.tla).  It runs edit / delivery / save / restart histories on the real
// JournalFast + MetricsStorage chain
//
//	source stub -> n (plain aggregator journal) -> an (agent)
//	source stub -> c (compact aggregator journal) -> ac, ac2 (agents)
//
// and records, after every step, the projection of the touched replica (journal in version order,
// versions, storage indexes, group of every metric, replicas with the same state hash) as an
// ndjson trace that specs/MetaJournalTrace.tla validates step by step.  The histories come from
// TLC (behaviours of MetaJournal.tla) and from a seeded random generator.  The property-level
// predicates (name lookup, group assignment, convergence, hash agreement) are evaluated on the
// real state here as well, which gives a violation its signature.

import (
	"context"
	"encoding/binary"
	"fmt"
	"math"
	"path/filepath"
	"sort"
	"strings"
	"testing"

	"github.com/VKCOM/statshouse/internal/data_model"
	"github.com/VKCOM/statshouse/internal/data_model/gen2/tlmetadata"
	"github.com/VKCOM/statshouse/internal/format"
	"github.com/VKCOM/statshouse/internal/verifkit"
	"github.com/VKCOM/statshouse/internal/vkgo/basictl"
)

type verifC20Ev struct {
	T    string `json:"t"`
	Id   int    `json:"id"`
	Ver  int    `json:"ver"`
	Ut   int    `json:"ut"`
	Name string `json:"name"`
	C    int    `json:"c"`
	D    int    `json:"d"`
}

type verifC20Op struct {
	A  string
	E  verifC20Ev
	R  string
	N  int
	Cs []int
	// random mode only
	Frac int // Restart: truncate the file as written at Frac/1000 of its length (-1: re-chunk by Cs)
	Mode int // Pull from a journal: 0 item limit, 1 byte limit, 2 the production limits
}

var verifC20Order = []string{"ac", "ac2", "an", "c", "n"}
var verifC20Up = map[string]string{"n": "src", "c": "src", "an": "n", "ac": "c", "ac2": "c"}
var verifC20Compact = map[string]bool{"c": true}

func verifC20ChainCompact(r string) bool {
	for r != "src" {
		if verifC20Compact[r] {
			return true
		}
		r = verifC20Up[r]
	}
	return false
}

var verifC20BigDescription = strings.Repeat("long description ", 20000) // 340 KB: two events fill a file chunk

// the event the metadata engine would return for this entity version (JournalEvents in
// internal/metadata/dbv2.go: no metadata, namespace id always set)
func verifC20MakeEvent(e verifC20Ev, big bool) tlmetadata.Event {
	ev := tlmetadata.Event{Id: int64(e.Id), Name: e.Name, Version: int64(e.Ver), UpdateTime: uint32(e.Ut)}
	switch e.T {
	case "M":
		v := format.MetricMetaValue{Name: e.Name, MetricID: int32(e.Id), Weight: float64(2 + e.C),
			Tags: []format.MetricMetaTag{{}, {Name: "env"}}, Resolution: 5}
		if e.D != 0 {
			v.Description = "some description"
			if big {
				v.Description = verifC20BigDescription
			}
		}
		x, err := EventFromMetricMeta(v, "")
		if err != nil {
			panic(err)
		}
		ev.EventType, ev.Data = format.MetricEvent, x.Data
	case "G":
		x, err := EventFromGroupMeta(format.MetricsGroup{ID: int32(e.Id), Name: e.Name, Disable: e.C != 0, Weight: float64(1 + e.D)}, "")
		if err != nil {
			panic(err)
		}
		ev.EventType, ev.Data = format.MetricsGroupEvent, x.Data
	case "N":
		x, err := EventFromNamespaceMeta(format.NamespaceMeta{ID: int32(e.Id), Name: e.Name, Weight: float64(1 + e.C), Disable: e.D != 0}, "")
		if err != nil {
			panic(err)
		}
		ev.EventType, ev.Data = format.NamespaceEvent, x.Data
	case "D":
		ev.EventType, ev.Data = format.DashboardEvent, fmt.Sprintf(`{"c":%d,"d":%d}`, e.C, e.D)
	default:
		panic("bad type " + e.T)
	}
	ev.SetNamespaceId(0)
	return ev
}

func verifC20Bool(b bool) int {
	if b {
		return 1
	}
	return 0
}

// abstract view of a real event
func verifC20Decode(ev tlmetadata.Event) map[string]any {
	m := map[string]any{"id": int(ev.Id), "ver": int(ev.Version), "ut": int(ev.UpdateTime), "name": ev.Name}
	switch ev.EventType {
	case format.MetricEvent:
		v, err := MetricMetaFromEvent(ev)
		if err != nil {
			panic(err)
		}
		m["t"], m["c"], m["d"] = "M", int(v.Weight)-2, verifC20Bool(v.Description != "")
	case format.MetricsGroupEvent:
		v, err := GroupMetaFromEvent(ev)
		if err != nil {
			panic(err)
		}
		m["t"], m["c"], m["d"] = "G", verifC20Bool(v.Disable), int(v.Weight)-1
	case format.NamespaceEvent:
		v, err := NamespaceMetaFromEvent(ev)
		if err != nil {
			panic(err)
		}
		m["t"], m["c"], m["d"] = "N", int(v.Weight)-1, verifC20Bool(v.Disable)
	case format.DashboardEvent:
		v, err := DashboardMetaFromEvent(ev)
		if err != nil {
			panic(err)
		}
		c, _ := v.JSONData["c"].(float64)
		d, _ := v.JSONData["d"].(float64)
		m["t"], m["c"], m["d"] = "D", int(c), int(d)
	default:
		m["t"] = fmt.Sprintf("?%d", ev.EventType)
	}
	return m
}

type verifC20Rep struct {
	name    string
	j       *JournalFast
	ms      *MetricsStorage
	file    []byte
	pullN   int
	pullMod int
	lastN   int // events returned by the loader in the last pull
}

type verifC20World struct {
	big  bool
	src  map[string]tlmetadata.Event // key -> latest
	srcA map[string]verifC20Ev
	reps map[string]*verifC20Rep
	tr   *verifkit.Trace
}

func verifC20NewWorld(tr *verifkit.Trace, big bool) *verifC20World {
	w := &verifC20World{big: big, src: map[string]tlmetadata.Event{}, srcA: map[string]verifC20Ev{}, reps: map[string]*verifC20Rep{}, tr: tr}
	for _, n := range verifC20Order {
		r := &verifC20Rep{name: n}
		w.reps[n] = r
		w.boot(r)
	}
	return w
}

func (w *verifC20World) boot(r *verifC20Rep) {
	r.ms = MakeMetricsStorage(nil)
	r.j, _ = LoadJournalFastSlice(&r.file, 0, verifC20Compact[r.name], []ApplyEvent{r.ms.ApplyEvent})
	up := verifC20Up[r.name]
	if up == "src" {
		r.j.metaLoader = func(_ context.Context, from int64, _ bool) ([]tlmetadata.Event, int64, error) {
			var res []tlmetadata.Event
			var last int64
			for _, e := range w.src {
				if e.Version > from {
					res = append(res, e)
				}
				if e.Version > last {
					last = e.Version
				}
			}
			sort.Slice(res, func(a, b int) bool { return res[a].Version < res[b].Version })
			if len(res) > r.pullN {
				res = res[:r.pullN]
			}
			r.lastN = len(res)
			return res, last, nil
		}
		return
	}
	r.j.metaLoader = func(_ context.Context, from int64, _ bool) ([]tlmetadata.Event, int64, error) {
		u := w.reps[up].j // the upstream journal as it is now (it may have restarted)
		var resp tlmetadata.GetJournalResponsenew
		u.mu.RLock()
		defer u.mu.RUnlock()
		switch r.pullMod {
		case 2:
			u.getJournalDiffLocked3(from, &resp)
		case 1:
			var all tlmetadata.GetJournalResponsenew
			u.getJournalDiffLocked3Limits(from, &all, math.MaxInt, math.MaxInt)
			maxBytes := 1
			for i := 0; i < r.pullN-1 && i < len(all.Events); i++ {
				maxBytes += len(all.Events[i].Name) + len(all.Events[i].Data) + 60
			}
			u.getJournalDiffLocked3Limits(from, &resp, math.MaxInt, maxBytes)
		default:
			u.getJournalDiffLocked3Limits(from, &resp, r.pullN, math.MaxInt)
		}
		r.lastN = len(resp.Events)
		return append([]tlmetadata.Event(nil), resp.Events...), resp.CurrentVersion, nil
	}
}

func verifC20SortBy(l []map[string]any, key string) {
	sort.Slice(l, func(a, b int) bool {
		switch x := l[a][key].(type) {
		case int:
			return x < l[b][key].(int)
		case string:
			return x < l[b][key].(string)
		}
		return false
	})
}

// projection of one replica, in the shape MetaJournalTrace.tla's Proj(r) has
func (w *verifC20World) proj(r *verifC20Rep) map[string]any {
	o := map[string]any{}
	jl := []map[string]any{}
	r.j.order.Ascend(func(ord journalOrder) bool {
		ev, ok := r.j.journal[ord.key]
		if !ok {
			jl = append(jl, map[string]any{"t": "missing", "id": int(ord.key.id), "ver": int(ord.version), "ut": 0, "name": "", "c": 0, "d": 0})
			return true
		}
		jl = append(jl, verifC20Decode(ev.Event))
		return true
	})
	if len(jl) != len(r.j.journal) {
		jl = append(jl, map[string]any{"t": "order-size", "id": len(r.j.journal), "ver": 0, "ut": 0, "name": "", "c": 0, "d": 0})
	}
	o["j"] = jl
	cur, hash := r.j.VersionHash()
	o["cur"] = int(cur)
	o["lv"] = int(r.j.loaderVersion)
	heq := []string{}
	for _, q := range verifC20Order {
		if q == r.name {
			continue
		}
		if _, h := w.reps[q].j.VersionHash(); h == hash {
			heq = append(heq, q)
		}
	}
	o["heq"] = heq
	ms := r.ms
	ms.mu.RLock()
	defer ms.mu.RUnlock()
	grp := func(id int32) (string, int) {
		if id == format.BuiltinGroupIDDefault {
			return "", 0
		}
		g := ms.groupsByID[id]
		if g == nil || g.ID <= 0 {
			return fmt.Sprintf("?%d", id), 0
		}
		return g.Name, verifC20Bool(g.Disable)
	}
	mId, mName := []map[string]any{}, []map[string]any{}
	for id, m := range ms.metricsByID {
		gn, gd := grp(m.GroupID)
		mId = append(mId, map[string]any{"id": int(m.MetricID), "ver": int(m.Version), "ut": int(m.UpdateTime), "name": m.Name,
			"c": int(m.Weight) - 2, "d": verifC20Bool(m.Description != ""), "gn": gn, "gd": gd, "key": int(id)})
	}
	for n, m := range ms.metricsByName {
		mName = append(mName, map[string]any{"n": n, "id": int(m.MetricID), "ver": int(m.Version)})
	}
	gId, gName := []map[string]any{}, []map[string]any{}
	for id, g := range ms.groupsByID {
		if id > 0 {
			gId = append(gId, map[string]any{"id": int(g.ID), "ver": int(g.Version), "ut": int(g.UpdateTime), "name": g.Name,
				"c": verifC20Bool(g.Disable), "d": int(g.Weight) - 1, "key": int(id)})
		}
	}
	for n, g := range ms.groupsByName {
		if g.ID > 0 || !strings.HasPrefix(n, "__") {
			gName = append(gName, map[string]any{"n": n, "id": int(g.ID), "ver": int(g.Version)})
		}
	}
	nId, nName := []map[string]any{}, []map[string]any{}
	for id, g := range ms.namespaceByID {
		if id > 0 {
			nId = append(nId, map[string]any{"id": int(g.ID), "ver": int(g.Version), "ut": int(g.UpdateTime), "name": g.Name,
				"c": int(g.Weight) - 1, "d": verifC20Bool(g.Disable), "key": int(id)})
		}
	}
	for n, g := range ms.namespaceByName {
		if g.ID > 0 || !strings.HasPrefix(n, "__") {
			nName = append(nName, map[string]any{"n": n, "id": int(g.ID), "ver": int(g.Version)})
		}
	}
	dId := []map[string]any{}
	for id, d := range ms.dashboardByID {
		c, _ := d.JSONData["c"].(float64)
		dd, _ := d.JSONData["d"].(float64)
		dId = append(dId, map[string]any{"id": int(d.DashboardID), "ver": int(d.Version), "ut": int(d.UpdateTime), "name": d.Name,
			"c": int(c), "d": int(dd), "key": int(id)})
	}
	for _, l := range [][]map[string]any{mId, gId, nId, dId} {
		verifC20SortBy(l, "key")
	}
	for _, l := range [][]map[string]any{mName, gName, nName} {
		verifC20SortBy(l, "n")
	}
	o["mId"], o["mName"], o["gId"], o["gName"], o["nId"], o["nName"], o["dId"] = mId, mName, gId, gName, nId, nName, dId
	return o
}

// ---- the property, evaluated on the projection of the real state

func verifC20Lookup(kind string, byId, byName []map[string]any) string {
	ids := map[int]map[string]any{}
	for _, v := range byId {
		if v["key"].(int) != v["id"].(int) {
			return fmt.Sprintf("%s: id index %d holds entity %d", kind, v["key"], v["id"])
		}
		ids[v["id"].(int)] = v
	}
	names := map[string]map[string]any{}
	for _, e := range byName {
		v := ids[e["id"].(int)]
		if v == nil || v["name"].(string) != e["n"].(string) || v["ver"].(int) != e["ver"].(int) {
			return fmt.Sprintf("%s: looking up %q returns entity %d version %d, which is not what the id index holds (%v)", kind, e["n"], e["id"], e["ver"], v)
		}
		names[e["n"].(string)] = e
	}
	for _, v := range byId {
		e := names[v["name"].(string)]
		if e == nil {
			return fmt.Sprintf("%s: entity %d holds name %q but looking the name up returns nothing", kind, v["id"], v["name"])
		}
		if e["ver"].(int) < v["ver"].(int) {
			return fmt.Sprintf("%s: looking up %q returns entity %d (version %d) although entity %d took the name later (version %d)", kind, v["name"], e["id"], e["ver"], v["id"], v["ver"])
		}
	}
	return ""
}

func verifC20Groups(o map[string]any) string {
	for _, m := range o["mId"].([]map[string]any) {
		best := ""
		found := false
		for _, g := range o["gId"].([]map[string]any) {
			gn := g["name"].(string)
			if g["c"].(int) == 0 && strings.HasPrefix(m["name"].(string), gn) && (!found || len(gn) > len(best)) {
				best, found = gn, true
			}
		}
		if m["gn"].(string) != best || m["gd"].(int) != 0 {
			return fmt.Sprintf("metric %d %q is in group %q (disabled=%d), the longest enabled prefix group is %q", m["id"], m["name"], m["gn"], m["gd"], best)
		}
	}
	return ""
}

func (w *verifC20World) checkState(r *verifC20Rep, o map[string]any) (string, string) {
	for _, k := range [][3]string{{"M", "mId", "mName"}, {"G", "gId", "gName"}, {"N", "nId", "nName"}} {
		if s := verifC20Lookup(k[0], o[k[1]].([]map[string]any), o[k[2]].([]map[string]any)); s != "" {
			return "name-lookup", r.name + ": " + s
		}
	}
	if s := verifC20Groups(o); s != "" {
		return "group-assignment", r.name + ": " + s
	}
	return "", ""
}

// convergence and hash agreement once nobody has anything left to fetch
func (w *verifC20World) checkQuiescent() (string, string) {
	hashes := map[bool]string{}
	for _, n := range verifC20Order {
		r := w.reps[n]
		cc := verifC20ChainCompact(n)
		want := map[string]verifC20Ev{}
		for k, e := range w.srcA {
			if cc && e.T == "D" {
				continue
			}
			if cc && e.T == "M" {
				e.D, e.Ut = 0, 0
			}
			want[k] = e
		}
		o := w.proj(r)
		got := o["j"].([]map[string]any)
		if len(got) != len(want) {
			return "not-converged", fmt.Sprintf("%s holds %d entities, the source %d", n, len(got), len(want))
		}
		for _, g := range got {
			k := fmt.Sprintf("%s%d", g["t"], g["id"])
			e, ok := want[k]
			if !ok || e.Name != g["name"].(string) || e.C != g["c"].(int) || e.D != g["d"].(int) || e.Ut != g["ut"].(int) ||
				g["ver"].(int) > e.Ver || (!cc && g["ver"].(int) != e.Ver) {
				return "not-converged", fmt.Sprintf("%s holds %v, the source's latest is %+v", n, g, e)
			}
		}
		for _, t := range []string{"mId", "gId", "nId", "dId"} {
			for _, v := range o[t].([]map[string]any) {
				e := want[fmt.Sprintf("%s%d", strings.ToUpper(t[:1]), v["id"])]
				if e.Name != v["name"].(string) || e.C != v["c"].(int) || e.D != v["d"].(int) || v["ver"].(int) > e.Ver {
					return "not-converged", fmt.Sprintf("%s storage holds %v, the source's latest is %+v", n, v, e)
				}
			}
		}
		nm := 0
		for _, e := range want {
			if e.T == "M" {
				nm++
			}
		}
		if len(o["mId"].([]map[string]any)) != nm {
			return "not-converged", fmt.Sprintf("%s storage holds %d metrics, the source %d", n, len(o["mId"].([]map[string]any)), nm)
		}
		_, h := r.j.VersionHash()
		if prev, ok := hashes[cc]; ok && prev != h {
			return "hash-disagree", fmt.Sprintf("%s has state hash %s, another replica of the same journal %s", n, h, prev)
		}
		hashes[cc] = h
	}
	return "", ""
}

// ---- file helpers

type verifC20Chunk struct {
	end    int // offset of the first byte after the chunk
	events []tlmetadata.Event
}

// chunk layout of an intact journal file ([magic][body size][body][hash])
func verifC20ParseFile(b []byte) (lv, last int64, chunks []verifC20Chunk) {
	off := 0
	for off+8+16 <= len(b) {
		if binary.LittleEndian.Uint32(b[off:]) != data_model.ChunkedMagicJournal {
			break
		}
		size := int(binary.LittleEndian.Uint32(b[off+4:]))
		end := off + 8 + size + 16
		if end > len(b) {
			break
		}
		body := b[off+8 : off+8+size]
		var err error
		if off == 0 {
			if body, err = basictl.LongRead(body, &lv); err != nil {
				break
			}
			if body, err = basictl.LongRead(body, &last); err != nil {
				break
			}
		}
		ch := verifC20Chunk{end: end}
		for len(body) != 0 {
			var ev tlmetadata.Event
			if body, err = ev.ReadTL1Boxed(body); err != nil {
				panic(err)
			}
			ch.events = append(ch.events, ev)
		}
		chunks = append(chunks, ch)
		off = end
	}
	return
}

// the same file with other chunk boundaries: cs[i] events in chunk i, the rest dropped; tail > 0
// leaves the first bytes of the following chunk behind (a torn write)
func verifC20Rechunk(b []byte, cs []int, tail int) []byte {
	lv, last, chunks := verifC20ParseFile(b)
	var evs []tlmetadata.Event
	for _, c := range chunks {
		evs = append(evs, c.events...)
	}
	var out []byte
	st := data_model.NewChunkedStorage2Slice(&out)
	writeChunk := func(first bool, l []tlmetadata.Event) {
		chunk := st.StartWriteChunk(data_model.ChunkedMagicJournal, 0)
		if first {
			chunk = basictl.LongWrite(chunk, lv)
			chunk = basictl.LongWrite(chunk, last)
		}
		for _, e := range l {
			chunk = e.WriteTL1Boxed(chunk)
		}
		if err := st.FinishWriteChunk(chunk); err != nil {
			panic(err)
		}
	}
	pos := 0
	for i, n := range cs {
		writeChunk(i == 0, evs[pos:pos+n])
		pos += n
	}
	keep := len(out)
	if tail > 0 && pos < len(evs) {
		writeChunk(pos == 0, evs[pos:pos+1])
		if keep+tail < len(out) {
			out = out[:keep+tail]
		} else {
			out = out[:len(out)-1]
		}
	}
	return out
}

// ---- executing one history

type verifC20Fail struct {
	sig, what string
	step      int
}

func (w *verifC20World) emit(ev string, r *verifC20Rep, kv ...any) (string, string) {
	o := w.proj(r)
	sig, what := w.checkState(r, o)
	w.tr.Emit(ev, append([]any{"r", r.name, "obs", verifC20Strip(o)}, kv...)...)
	return sig, what
}

// the "key" fields only serve the checks above
func verifC20Strip(o map[string]any) map[string]any {
	for _, t := range []string{"mId", "gId", "nId", "dId"} {
		for _, v := range o[t].([]map[string]any) {
			delete(v, "key")
		}
	}
	return o
}

func (w *verifC20World) step(op verifC20Op, rnd func(int) int) (sig, what string) {
	switch op.A {
	case "Src":
		ev := verifC20MakeEvent(op.E, w.big)
		k := fmt.Sprintf("%s%d", op.E.T, op.E.Id)
		w.src[k], w.srcA[k] = ev, op.E
		w.tr.Emit("Src", "e", op.E)
		return "", ""
	case "Pull":
		r := w.reps[op.R]
		r.pullN, r.pullMod = op.N, op.Mode
		if verifC20Up[op.R] != "src" && op.Mode == 0 && rnd(2) == 1 {
			r.pullMod = 1 // the same cut reached through the byte limit
		}
		if _, err := r.j.updateJournalIsFinished(nil); err != nil {
			return "driver", err.Error()
		}
		if r.lastN == 0 {
			w.tr.Emit("Idle", "r", r.name)
			return "", ""
		}
		return w.emit("Pull", r, "k", r.lastN)
	case "Save":
		r := w.reps[op.R]
		ok, _, err := r.j.Save()
		if err != nil {
			return "driver", err.Error()
		}
		w.tr.Emit("Save", "r", r.name, "ok", ok)
		return "", ""
	case "Restart":
		r := w.reps[op.R]
		if op.Frac >= 0 { // the file as the journal wrote it, cut at a byte
			_, _, chunks := verifC20ParseFile(r.file)
			cut := len(r.file) * op.Frac / 1000
			if len(chunks) > 0 && rnd(3) == 0 {
				cut = chunks[rnd(len(chunks))].end - rnd(2) // exactly at / one byte before a chunk end
			}
			op.Cs = []int{}
			for _, c := range chunks {
				if c.end <= cut {
					op.Cs = append(op.Cs, len(c.events))
				}
			}
			r.file = r.file[:cut]
		} else {
			r.file = verifC20Rechunk(r.file, op.Cs, rnd(3)*(1+rnd(40)))
		}
		w.boot(r)
		if op.Cs == nil {
			op.Cs = []int{}
		}
		return w.emit("Restart", r, "cs", op.Cs)
	}
	return "driver", "unknown op " + op.A
}

// everybody fetches until nothing is left, then the end-of-history part of the property is checked
func (w *verifC20World) drain(rnd func(int) int) (string, string) {
	for _, n := range []string{"n", "c", "an", "ac", "ac2"} {
		for i := 0; ; i++ {
			if i > 10000 {
				return "not-converged", n + " never stops fetching"
			}
			if sig, what := w.step(verifC20Op{A: "Pull", R: n, N: 1 + rnd(3), Mode: rnd(3)}, rnd); sig != "" {
				return sig, what
			}
			if w.reps[n].lastN == 0 {
				break
			}
		}
	}
	return w.checkQuiescent()
}

func verifC20Run(tr *verifkit.Trace, ops []verifC20Op, big bool, seed int64) (fail *verifC20Fail) {
	x := uint64(seed)*2862933555777941757 + 3037000493
	rnd := func(n int) int {
		x = x*6364136223846793005 + 1442695040888963407
		return int((x >> 33) % uint64(n))
	}
	tr.Emit("Reset")
	w := verifC20NewWorld(tr, big)
	i := 0
	defer func() {
		if p := recover(); p != nil {
			fail = &verifC20Fail{sig: "panic", what: fmt.Sprint(p), step: i}
		}
	}()
	for i = 0; i < len(ops); i++ {
		if sig, what := w.step(ops[i], rnd); sig != "" {
			return &verifC20Fail{sig, what, i}
		}
	}
	i = len(ops)
	if sig, what := w.drain(rnd); sig != "" {
		return &verifC20Fail{sig, what, i}
	}
	return nil
}

func verifC20OpsOf(b []verifkit.Step) []verifC20Op {
	var ops []verifC20Op
	for _, s := range b {
		op := verifC20Op{A: s.Act(), R: s.Str("r"), N: s.Int("n"), Frac: -1}
		if e, ok := s["e"].(map[string]any); ok {
			es := verifkit.Step(e)
			op.E = verifC20Ev{T: es.Str("t"), Id: es.Int("id"), Ver: es.Int("ver"), Ut: es.Int("ut"), Name: es.Str("name"), C: es.Int("c"), D: es.Int("d")}
		}
		if l, ok := s["cs"].([]any); ok {
			op.Cs = []int{}
			for _, x := range l {
				op.Cs = append(op.Cs, int(x.(float64)))
			}
		}
		ops = append(ops, op)
	}
	return ops
}

func verifC20Describe(ops []verifC20Op) []string {
	var l []string
	for _, op := range ops {
		switch op.A {
		case "Src":
			l = append(l, fmt.Sprintf("Src %+v", op.E))
		case "Pull":
			l = append(l, fmt.Sprintf("Pull %s n=%d", op.R, op.N))
		case "Save":
			l = append(l, "Save "+op.R)
		case "Restart":
			l = append(l, fmt.Sprintf("Restart %s cs=%v frac=%d", op.R, op.Cs, op.Frac))
		}
	}
	return l
}

// ---- random histories

var verifC20Names = map[string][]string{
	"M": {"abx", "ay", "b", "abc", "a_q", "bz", "ab", "c1"},
	"G": {"a", "ab", "b", "abc"},
	"N": {"na", "nb", "nc"},
	"D": {"da", "db"},
}
var verifC20Ids = map[string]int{"M": 6, "G": 3, "N": 2, "D": 2}

func verifC20Random(rnd func(int) int, big bool) []verifC20Op {
	src := map[string]verifC20Ev{}
	ver := 0
	var ops []verifC20Op
	l := 15 + rnd(70)
	for len(ops) < l {
		switch x := rnd(100); {
		case x < 35:
			t := []string{"M", "M", "M", "G", "G", "N", "D"}[rnd(7)]
			used := map[string]bool{}
			var have []verifC20Ev
			for _, e := range src {
				if e.T == t {
					used[e.Name] = true
					have = append(have, e)
				}
			}
			sort.Slice(have, func(a, b int) bool { return have[a].Id < have[b].Id })
			var free []string
			for _, n := range verifC20Names[t] {
				if !used[n] {
					free = append(free, n)
				}
			}
			var e verifC20Ev
			if len(have) < verifC20Ids[t] && (len(have) == 0 || rnd(3) == 0) && len(free) > 0 {
				e = verifC20Ev{T: t, Id: len(have) + 1, Name: free[rnd(len(free))], C: rnd(2) * verifC20Bool(t != "G"), D: rnd(2)}
			} else if len(have) > 0 {
				e = have[rnd(len(have))]
				switch y := rnd(10); {
				case y < 4 && len(free) > 0:
					e.Name = free[rnd(len(free))]
				case y < 6:
					e.C = 1 - e.C
				case y < 9:
					e.D = 1 - e.D
				}
			} else {
				continue
			}
			ver++
			e.Ver, e.Ut = ver, ver
			src[fmt.Sprintf("%s%d", t, e.Id)] = e
			ops = append(ops, verifC20Op{A: "Src", E: e})
		case x < 80:
			ops = append(ops, verifC20Op{A: "Pull", R: verifC20Order[rnd(5)], N: 1 + rnd(4), Mode: rnd(3)})
		case x < 90:
			ops = append(ops, verifC20Op{A: "Save", R: verifC20Order[rnd(5)]})
		default:
			// the cut is resolved against the real file when the step runs
			ops = append(ops, verifC20Op{A: "Restart", R: verifC20Order[rnd(5)], Frac: rnd(1001)})
		}
	}
	return ops
}

func TestVerifC20(t *testing.T) {
	verifkit.Gate(t)
	res := verifkit.NewResult()
	defer res.Write(t)
	nfiles := verifkit.EnvInt("VERIF_NFILES", 1)
	trs := make([]*verifkit.Trace, nfiles)
	chars := map[string][]int{}
	addName := func(n string) {
		c := []int{}
		for _, b := range []byte(n) {
			c = append(c, int(b))
		}
		chars[n] = c
	}
	for _, l := range verifC20Names {
		for _, n := range l {
			addName(n)
		}
	}
	behs := verifkit.LoadBehaviours(t)
	for _, b := range behs {
		for _, s := range b {
			if e, ok := s["e"].(map[string]any); ok {
				addName(verifkit.Step(e).Str("name"))
			}
		}
	}
	for i := range trs {
		trs[i] = verifkit.NewTrace()
		trs[i].Emit("Chars", "chars", chars)
	}
	fail := func(ops []verifC20Op, f *verifC20Fail, kind string) {
		res.Mismatch(verifkit.Mismatch{Beh: verifC20Describe(ops), Step: f.step, Want: "property C20 holds (" + kind + ")", Got: f.what, Sig: f.sig})
	}
	for i, b := range behs {
		ops := verifC20OpsOf(b)
		f := verifC20Run(trs[i%nfiles], ops, false, verifkit.Seed()*1000+int64(i))
		if f != nil {
			fail(ops, f, "TLC behaviour")
		}
		res.Replayed++
		res.Steps += len(ops)
		res.Seen(fmt.Sprint(verifC20Describe(ops)))
	}
	nrand := verifkit.EnvInt("VERIF_NRANDOM", 0)
	r := verifkit.Rand(20)
	for n := 0; n < nrand; n++ {
		big := n%10 == 9
		ops := verifC20Random(r.Intn, big)
		f := verifC20Run(trs[n%nfiles], ops, big, verifkit.Seed()*1000+int64(n))
		if f != nil {
			fail(ops, f, "random history")
		}
		res.Replayed++
		res.Steps += len(ops)
		res.Count("random", 1)
	}
	dir := verifkit.TmpDir(t, "c20-")
	for i, tr := range trs {
		out := filepath.Join(dir, fmt.Sprintf("trace%d.ndjson", i))
		if err := tr.WriteFile(out); err != nil {
			t.Fatal(err)
		}
		res.Files = append(res.Files, out)
		res.Counters["trace_events"] += tr.Len()
	}
	res.Consts["MaxJournalItemsSent"] = data_model.MaxJournalItemsSent
	res.Consts["MaxJournalBytesSent"] = data_model.MaxJournalBytesSent
	res.Consts["ChunkSize"] = data_model.ChunkSize
	res.Consts["BuiltinGroupIDDefault"] = format.BuiltinGroupIDDefault
	evs := trs[0].Events()
	for i := 1; i < len(evs) && i < 8; i++ {
		res.Sample(evs[i])
	}
}
