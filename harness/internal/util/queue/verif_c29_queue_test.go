package queue

// C29 conformance driver for the round-robin Queue (injected by /verif/tools via -overlay).
//
// Hooks (build tag verif) call verifEmit at the linearization points under q.mx; the driver
// turns them into ndjson events (decisions + white-box snapshot) that specs/RRQueueTrace.tla
// validates against the abstract layer of specs/RRQueue.tla.
//
//   S->I: every behaviour exported by TLC from RRQueue is executed step by step, each model
//         action being one real call / one real goroutine transition.  A goroutine is known to
//         have finished its first critical section when the "acquire" hook fired (under q.mx);
//         the cancellation race is made deterministic by holding the goroutine in the
//         "ctxdone" hook (between the select and q.mx.Lock()) until the model's CancelCS step.
//         After every step Observe(), the waiting set and the number of woken queries are
//         compared with the model's post state.
//   I->S: seeded random concurrent runs (free-running goroutines, random cancellations and
//         capacity changes); only the recorded trace is judged.
//
// No sleeps are used as synchronisation; the long timeouts only turn a dead driver into an
// "undecided" result.

import (
	"context"
	"fmt"
	"math/rand"
	"path/filepath"
	"runtime"
	"sort"
	"sync"
	"sync/atomic"
	"testing"
	"time"

	"github.com/VKCOM/statshouse/internal/verifkit"
)

type verifC29Call struct {
	u       string
	i       int
	qry     *query
	acq     chan verifC29Acq // critical section 1 finished
	reached chan struct{}    // goroutine left the select through ctx.Done()
	gate    chan struct{}    // nil: never held; else the ctxdone hook waits for close(gate)
	ret     chan error
	cancel  context.CancelFunc
	parked  atomic.Bool
	gateMu  sync.Once
	taken   bool // the driver consumed ret
}

func (c *verifC29Call) wait(what string) error {
	err := verifC29Wait(c.ret, what)
	c.taken = true
	return err
}

func (c *verifC29Call) openGate() {
	if c.gate != nil {
		c.gateMu.Do(func() { close(c.gate) })
	}
}

type verifC29Acq struct {
	fast bool
	gs   [][]any
}

type verifC29Key struct{}

type verifC29Rec struct {
	tr      *verifkit.Trace
	q       *Queue
	ids     map[*query]*verifC29Call
	pending [][]any // queries woken in the current critical section, in order
	lastGs  [][]any // ... of the last finished critical section
	off     atomic.Bool
	unknown atomic.Int64
}

var verifC29Cur atomic.Pointer[verifC29Rec]

func verifC29Install() {
	verifEmit = func(ev string, a ...any) {
		r := verifC29Cur.Load()
		if r == nil || len(a) == 0 || a[0] != any(r.q) {
			return
		}
		r.hook(ev, a[1:])
	}
}

func verifC29CallOf(ctx context.Context) *verifC29Call {
	c, _ := ctx.Value(verifC29Key{}).(*verifC29Call)
	return c
}

// snapshot of the queue; the caller holds q.mx.
func (r *verifC29Rec) snap() (int64, int64, [][]any) {
	w := [][]any{}
	for tok, u := range r.q.waitingUsersByName {
		for e := u.qry.Front(); e != nil; e = e.Next() {
			if c := r.ids[e.Value.(*query)]; c != nil {
				w = append(w, []any{c.u, c.i})
			} else {
				w = append(w, []any{tok, -1})
			}
		}
	}
	sort.Slice(w, func(i, j int) bool {
		if w[i][0].(string) != w[j][0].(string) {
			return w[i][0].(string) < w[j][0].(string)
		}
		return w[i][1].(int) < w[j][1].(int)
	})
	return r.q.activeQuery, r.q.maxActiveQuery, w
}

func (r *verifC29Rec) takeGs() [][]any {
	gs := r.pending
	if gs == nil {
		gs = [][]any{}
	}
	r.pending = nil
	r.lastGs = gs
	return gs
}

// hook runs at the instrumented points; all but "ctxdone" are called with q.mx held.
func (r *verifC29Rec) hook(ev string, a []any) {
	switch ev {
	case "ctxdone":
		c := verifC29CallOf(a[0].(context.Context))
		if c == nil {
			return
		}
		close(c.reached)
		if c.gate != nil {
			<-c.gate
		}
	case "grant":
		qq, _ := a[0].(*query)
		if c := r.ids[qq]; c != nil {
			r.pending = append(r.pending, []any{c.u, c.i})
		} else {
			r.unknown.Add(1)
			r.pending = append(r.pending, []any{"?", -1})
		}
	case "acquire":
		c := verifC29CallOf(a[0].(context.Context))
		if c == nil {
			return
		}
		fast := a[3].(bool)
		if !fast {
			c.qry = a[2].(*query)
			r.ids[c.qry] = c
			c.parked.Store(true)
			// the grant hook ran before this query was known if it woke itself
			for _, g := range r.pending {
				if g[1] == -1 && isClosed(c.qry.ch) {
					g[0], g[1] = c.u, c.i
				}
			}
		}
		gs := r.takeGs()
		if !r.off.Load() {
			act, cp, w := r.snap()
			r.tr.Emit("Acq", "u", c.u, "i", c.i, "fast", fast, "gs", gs, "active", act, "cap", cp, "waiting", w)
		}
		c.acq <- verifC29Acq{fast: fast, gs: gs}
	case "cancel":
		c := verifC29CallOf(a[0].(context.Context))
		if c == nil {
			return
		}
		r.takeGs()
		if !r.off.Load() {
			act, cp, w := r.snap()
			r.tr.Emit("Cancel", "u", c.u, "i", c.i, "closed", a[3].(bool), "active", act, "cap", cp, "waiting", w)
		}
	case "release":
		gs := r.takeGs()
		if !r.off.Load() {
			act, cp, w := r.snap()
			r.tr.Emit("Release", "gs", gs, "active", act, "cap", cp, "waiting", w)
		}
	case "adjust":
		gs := r.takeGs()
		if !r.off.Load() {
			act, cp, w := r.snap()
			r.tr.Emit("Adjust", "v", a[0], "gs", gs, "active", act, "cap", cp, "waiting", w)
		}
	}
}

func verifC29NewRec(tr *verifkit.Trace, cap int64) *verifC29Rec {
	r := &verifC29Rec{tr: tr, q: NewQueue(cap), ids: map[*query]*verifC29Call{}}
	tr.Emit("Reset", "cap", cap)
	verifC29Cur.Store(r)
	return r
}

// start issues one Acquire in its own goroutine.
func (r *verifC29Rec) start(parent context.Context, u string, i int, gated bool) *verifC29Call {
	c := &verifC29Call{u: u, i: i, acq: make(chan verifC29Acq, 1), reached: make(chan struct{}), ret: make(chan error, 1)}
	if gated {
		c.gate = make(chan struct{})
	}
	ctx, cancel := context.WithCancel(context.WithValue(parent, verifC29Key{}, c))
	c.cancel = cancel
	go func() {
		err := r.q.Acquire(ctx, u)
		// the critical section that woke this query records its event before it unlocks
		r.q.mx.Lock()
		r.q.mx.Unlock() //nolint
		if !r.off.Load() {
			r.tr.Emit("Ret", "u", u, "i", i, "isnil", err == nil)
		}
		c.ret <- err
	}()
	return c
}

const verifC29Patience = 120 * time.Second

type verifC29Stuck struct{ what string }

func verifC29Wait[T any](ch <-chan T, what string) T {
	select {
	case v := <-ch:
		return v
	case <-time.After(verifC29Patience):
		panic(verifC29Stuck{what})
	}
}

func verifC29Pairs(v any) [][]any {
	out := [][]any{}
	l, _ := v.([]any)
	for _, x := range l {
		p, _ := x.([]any)
		if len(p) == 2 {
			out = append(out, []any{p[0], int(p[1].(float64))})
		}
	}
	return out
}

func verifC29PostWaiting(post map[string]any) []string {
	out := []string{}
	add := func(l any) {
		for _, p := range verifC29Pairs(l) {
			out = append(out, fmt.Sprint(p[0], ".", p[1]))
		}
	}
	switch wq := post["wq"].(type) {
	case map[string]any:
		for _, l := range wq {
			add(l)
		}
	case []any: // the empty function is exported as []
		for _, l := range wq {
			add(l)
		}
	}
	sort.Strings(out)
	return out
}

func verifC29Names(w [][]any) []string {
	out := []string{}
	for _, p := range w {
		out = append(out, fmt.Sprint(p[0], ".", p[1]))
	}
	sort.Strings(out)
	return out
}

// verifC29Replay executes one specification behaviour on a fresh queue.  It returns a
// mismatch (nil if the code followed the model) and the number of steps executed.
func verifC29Replay(tr *verifkit.Trace, b []verifkit.Step, res *verifkit.Result) (mm *verifkit.Mismatch, steps int, diverged bool) {
	if len(b) == 0 || b[0].Act() != "Init" {
		return nil, 0, false
	}
	r := verifC29NewRec(tr, int64(b[0].Int("cap")))
	calls := map[string]*verifC29Call{}
	key := func(s verifkit.Step) string { return fmt.Sprint(s.Str("u"), ".", s.Int("i")) }
	bg := context.Background()
	defer func() {
		// stop recording, let every goroutine finish
		r.off.Store(true)
		for _, c := range calls {
			c.cancel()
			c.openGate()
		}
		for _, c := range calls {
			if !c.taken {
				c.wait("cleanup")
			}
		}
		verifC29Cur.Store(nil)
	}()
	bad := func(i int, want, got any, note string) *verifkit.Mismatch {
		return &verifkit.Mismatch{Beh: b, Step: i, Want: want, Got: got, Sig: "queue-s2i", Note: note}
	}
	for idx := 1; idx < len(b); idx++ {
		st := b[idx]
		steps++
		var gotGs [][]any
		haveGs := false
		switch st.Act() {
		case "Acq":
			c := r.start(bg, st.Str("u"), st.Int("i"), true)
			calls[key(st)] = c
			info := verifC29Wait(c.acq, "acquire hook")
			if info.fast != st.Bool("fast") {
				return bad(idx, map[string]any{"fast": st.Bool("fast")}, map[string]any{"fast": info.fast}, "fast path decision"), steps, false
			}
			gotGs, haveGs = info.gs, true
			if info.fast {
				if err := c.wait("fast return"); err != nil {
					return bad(idx, "nil", err.Error(), "fast path returned an error"), steps, false
				}
			}
		case "Wake":
			c := calls[key(st)]
			if c.qry == nil || !isClosed(c.qry.ch) {
				return bad(idx, "woken", "channel not closed", "model: query was granted"), steps, false
			}
			if err := c.wait("wake return"); err != nil {
				return bad(idx, "nil", err.Error(), "granted query returned an error"), steps, false
			}
		case "CancelWake":
			c := calls[key(st)]
			if st.Bool("parked") {
				if c.qry == nil || isClosed(c.qry.ch) {
					return bad(idx, "parked", "granted or not queued", "model: query waits"), steps, false
				}
				c.cancel()
				verifC29Wait(c.reached, "ctx.Done branch")
			} else {
				c.cancel() // already granted: Acquire returns nil through either branch
			}
		case "CancelCS":
			c := calls[key(st)]
			c.openGate()
			err := c.wait("cancel return")
			if (err == nil) != st.Bool("isnil") {
				return bad(idx, map[string]any{"isnil": st.Bool("isnil")}, map[string]any{"isnil": err == nil}, "outcome of a cancelled Acquire"), steps, false
			}
		case "Release":
			tr.Emit("RelIntent", "u", st.Str("u"), "i", st.Int("i"))
			r.q.Release()
			r.q.mx.Lock()
			gotGs, haveGs = r.lastGs, true
			r.q.mx.Unlock()
		case "Adjust":
			r.q.AdjustCapacity(uint64(st.Int("n")))
			r.q.mx.Lock()
			gotGs, haveGs = r.lastGs, true
			r.q.mx.Unlock()
		default:
			panic("unknown action " + st.Act())
		}
		post := st.Post()
		obs, _ := r.q.Observe()
		r.q.mx.Lock()
		act, cp, w := r.snap()
		r.q.mx.Unlock()
		// What the property fixes: the counts.  Which of several eligible queries was woken is
		// the mechanism's choice (judged by the fairness invariant of the trace specification):
		// if only the identities differ the rest of the behaviour cannot be replayed and is dropped.
		wantW := verifC29PostWaiting(post)
		gotW := verifC29Names(w)
		got := map[string]any{"active": act, "observe": obs, "cap": cp, "nwaiting": len(gotW)}
		want := map[string]any{"active": int64(post["active"].(float64)), "observe": int64(post["active"].(float64)),
			"cap": int64(post["cap"].(float64)), "nwaiting": len(wantW)}
		same := verifkit.Canon(gotW) == verifkit.Canon(wantW)
		if haveGs {
			wgs := verifC29Pairs(st["gs"])
			got["woken"] = len(gotGs)
			want["woken"] = len(wgs)
			if len(gotGs) > 0 && verifkit.Canon(gotGs) != verifkit.Canon(wgs) {
				same = false
			}
		}
		if verifkit.Canon(got) != verifkit.Canon(want) {
			got["waiting"], want["waiting"] = gotW, wantW
			return bad(idx, want, got, "state after "+st.Act()), steps, false
		}
		if !same {
			res.Count("queue_grant_identity_differs_from_mechanism", 1)
			return nil, steps, true
		}
	}
	return nil, steps, false
}

// verifC29Random runs free goroutines against one queue; only the trace is judged.
func verifC29Random(tr *verifkit.Trace, rnd *rand.Rand, res *verifkit.Result) (timedOut bool) {
	cap0 := int64(rnd.Intn(4))
	if rnd.Intn(4) != 0 && cap0 == 0 {
		cap0 = 1
	}
	nusers := 1 + rnd.Intn(4)
	workers := 2 + rnd.Intn(7)
	per := 1 + rnd.Intn(4)
	nadj := rnd.Intn(4)
	r := verifC29NewRec(tr, cap0)
	defer verifC29Cur.Store(nil)
	parent, stop := context.WithTimeout(context.Background(), 20*time.Second)
	defer stop()
	var next [8]atomic.Int64
	var mu sync.Mutex
	var cancellable []*verifC29Call
	var wg sync.WaitGroup
	done := make(chan struct{})
	for w := 0; w < workers; w++ {
		wr := rand.New(rand.NewSource(rnd.Int63()))
		wg.Add(1)
		go func() {
			defer wg.Done()
			for k := 0; k < per; k++ {
				ui := wr.Intn(nusers)
				u := string(rune('a' + ui))
				i := int(next[ui].Add(1))
				mode := wr.Intn(5)
				c := r.start(parent, u, i, false)
				switch mode {
				case 0:
					c.cancel() // possibly before Acquire even starts
				case 1, 2:
					mu.Lock()
					cancellable = append(cancellable, c)
					mu.Unlock()
				}
				err := <-c.ret
				if err == nil {
					for n := wr.Intn(4); n > 0; n-- {
						runtime.Gosched()
					}
					tr.Emit("RelIntent", "u", u, "i", i)
					r.q.Release()
				}
				c.cancel()
			}
		}()
	}
	cr := rand.New(rand.NewSource(rnd.Int63()))
	var wg2 sync.WaitGroup
	wg2.Add(2)
	go func() { // canceller
		defer wg2.Done()
		for {
			select {
			case <-done:
				return
			default:
			}
			mu.Lock()
			if n := len(cancellable); n > 0 {
				k := cr.Intn(n)
				c := cancellable[k]
				if c.parked.Load() || cr.Intn(3) == 0 {
					cancellable[k] = cancellable[n-1]
					cancellable = cancellable[:n-1]
					c.cancel()
				}
			}
			mu.Unlock()
			for n := cr.Intn(20); n >= 0; n-- {
				runtime.Gosched()
			}
		}
	}()
	ar := rand.New(rand.NewSource(rnd.Int63()))
	go func() { // capacity changes; the last one leaves room so that the run can finish
		defer wg2.Done()
		for k := 0; k < nadj; k++ {
			for n := ar.Intn(200); n >= 0; n-- {
				runtime.Gosched()
			}
			r.q.AdjustCapacity(uint64(ar.Intn(4)))
		}
		for n := ar.Intn(50); n >= 0; n-- {
			runtime.Gosched()
		}
		r.q.AdjustCapacity(uint64(1 + ar.Intn(3)))
	}()
	wg.Wait()
	close(done)
	wg2.Wait()
	timedOut = parent.Err() != nil
	res.Seen(fmt.Sprintf("rand cap=%d users=%d workers=%d per=%d adj=%d", cap0, nusers, workers, per, nadj))
	return timedOut
}

func TestVerifC29Queue(t *testing.T) {
	verifkit.Gate(t)
	res := verifkit.NewResult()
	defer res.Write(t)
	defer func() {
		if p := recover(); p != nil {
			if s, ok := p.(verifC29Stuck); ok {
				res.Count("stuck", 1)
				res.Note("driver stuck waiting for: %s", s.what)
				t.Errorf("stuck: %s", s.what)
				return
			}
			panic(p)
		}
	}()
	verifC29Install()
	tr := verifkit.NewTrace()
	for _, b := range verifkit.LoadBehaviours(t) {
		mm, steps, diverged := verifC29Replay(tr, b, res)
		res.Steps += steps
		if mm != nil {
			res.Mismatch(*mm)
			continue
		}
		if diverged {
			continue
		}
		res.Replayed++
	}
	res.Counters["s2i_behaviours"] = res.Replayed
	nrand := verifkit.EnvInt("VERIF_NRANDOM", 0)
	rnd := verifkit.Rand(2901)
	stalls := 0
	for n := 0; n < nrand && stalls < 3; n++ {
		if verifC29Random(tr, rnd, res) {
			stalls++
			res.Count("random_runs_cut_by_timeout", 1)
		}
		res.Count("random_runs", 1)
	}
	res.Steps = tr.Len()
	out := filepath.Join(verifkit.TmpDir(t, "c29q-"), "trace.ndjson")
	if err := tr.WriteFile(out); err != nil {
		t.Fatal(err)
	}
	res.Files = append(res.Files, out)
	evs := tr.Events()
	for i := 0; i < len(evs) && i < 4; i++ {
		res.Sample(evs[i])
	}
}
